//! C08 / C12 / C15 (and the model tie used by C02): the real `Vm::parse` — tokens, error triple, call
//! limit, detailed attempts — vs the lowered VM model (`pestmodel grammar`, V lines), with the
//! properties' own oracles evaluated on the implementation:
//!   C15: result with error detail on == result with it off, help message renders;
//!   C12: result under any limit ∈ {unlimited result, "call limit reached"}, monotone in the limit.
use pest::error::{Error, ErrorVariant, InputLocation};
use pest::iterators::Pairs;
use pest_meta::optimizer::OptimizedRule;
use std::collections::BTreeMap;
use std::num::NonZeroUsize;
use verif_harness::gram::*;
use verif_harness::prog::SExp;
use verif_harness::*;

const EXTRAS: bool = cfg!(feature = "extras");

fn forest(p: Pairs<'_, &str>) -> String {
    let mut s = String::new();
    for pair in p {
        let sp = pair.as_span();
        s.push_str(&format!(" ({} {} {} {}", pair.as_rule(), sp.start(), sp.end(), pair.as_node_tag().map(hexs).unwrap_or("_".into())));
        s.push_str(&forest(pair.into_inner()));
        s.push(')');
    }
    s
}

fn report(e: &Error<&str>, input: &str, detail: bool) -> (String, Option<String>) {
    let pos = match e.location { InputLocation::Pos(p) => p, InputLocation::Span((a, _)) => a };
    let base = match &e.variant {
        ErrorVariant::CustomError { message } if message == "call limit reached" => format!("limit {}", pos),
        ErrorVariant::CustomError { message } => format!("custom {} {}", pos, hexs(message)),
        ErrorVariant::ParsingError { positives, negatives } => format!("err {} [{}] [{}]", pos, positives.join(","), negatives.join(",")),
    };
    let mut fail = None;
    if !input.is_char_boundary(pos) || pos > input.len() { fail = Some(format!("error position {} is not a boundary inside the input", pos)); }
    if catch(|| format!("{}", e)).is_err() { fail = Some("Display of the error panicked".into()); }
    if !detail { return (base, fail); }
    match e.parse_attempts() {
        None => (base, fail),
        Some(pa) => {
            if !input.is_char_boundary(pa.max_position) || pa.max_position > input.len() { fail = Some(format!("max_position {} is not a boundary inside the input", pa.max_position)); }
            let help = catch(|| e.parse_attempts_error(input, &(Box::new(|_r: &&str| None) as pest::error::RuleToMessageFn<&str>), &(Box::new(|s: String| s == " ") as pest::error::IsWhitespaceFn)).map(|h| format!("{}", h)));
            if help.is_err() { fail = Some("parse_attempts_error / its Display panicked".into()); }
            let cs = pa.call_stacks.iter().map(|c| format!("{}{}", match c.deepest.get_rule() { Some(r) => r.to_string(), None => "T".into() }, c.parent.map(|p| format!("<{}", p)).unwrap_or_default())).collect::<Vec<_>>().join(" ");
            let exp = pa.expected_tokens().iter().map(|t| hexs(&format!("{:?}", t))).collect::<Vec<_>>().join(" ");
            let unexp = pa.unexpected_tokens().iter().map(|t| hexs(&format!("{:?}", t))).collect::<Vec<_>>().join(" ");
            (format!("{} PA max={} cs=[{}] exp=[{}] unexp=[{}]", base, pa.max_position, cs, exp, unexp), fail)
        }
    }
}

struct Cfg { detail: bool, limit: Option<usize> }
fn parse_cfg(w: &str) -> Option<Cfg> {
    let mut c = Cfg { detail: false, limit: None };
    for item in w.split(',') { match item.as_bytes().first()? { b'm' => {} b'd' => c.detail = &item[1..] == "1", b'l' => c.limit = if &item[1..] == "_" { None } else { Some(item[1..].parse().ok()?) }, _ => return None } }
    Some(c)
}
/// (report, oracle failure)
fn run_vm(vm: &pest_vm::Vm, rule: &str, input: &str, c: &Cfg) -> (String, Option<String>) {
    pest::set_call_limit(c.limit.and_then(NonZeroUsize::new));
    pest::set_error_detail(c.detail);
    let r = catch(|| match vm.parse(rule, input) { Ok(p) => (format!("ok{}", forest(p)), None), Err(e) => report(&e, input, c.detail) });
    pest::set_call_limit(None);
    pest::set_error_detail(false);
    match r { Ok(x) => x, Err(m) => (if m.contains("called on empty stack") { "panic".into() } else { "panic".into() }, None) }
}
fn strip_pa(s: &str) -> &str { s.split(" PA ").next().unwrap() }

fn eval_line(l: &str, stats: &mut BTreeMap<String, u64>) -> (String, String) {
    let bad = || ("bad-op".to_string(), "ok".to_string());
    let mut it = l.splitn(4, ' ');
    if it.next() != Some("V") { return bad(); }
    let cfg = match it.next().and_then(parse_cfg) { Some(c) => c, None => return bad() };
    if it.next() != Some("vm") { return bad(); }
    let top = match it.next().and_then(parse_sexps) { Some(t) if t.len() >= 3 => t, _ => return bad() };
    let orules: Vec<OptimizedRule> = match orules_of(&top[0]) { Some(r) => r, None => return bad() };
    let rule = match &top[1] { SExp::Atom(a) => a.clone(), _ => return bad() };
    let inputs: Vec<String> = match top[2..].iter().map(|e| if let SExp::Atom(a) = e { unhexs(a) } else { None }).collect::<Option<Vec<_>>>() { Some(v) => v, None => return bad() };
    let vm = pest_vm::Vm::new(orules);
    let mut outs = vec![]; let mut verdict = "ok".to_string();
    for inp in &inputs {
        let (r, fail) = run_vm(&vm, &rule, inp, &cfg);
        let base = if cfg.detail || cfg.limit.is_some() { Some(run_vm(&vm, &rule, inp, &Cfg { detail: false, limit: None }).0) } else { None };
        *stats.entry(format!("res_{}", r.split(' ').next().unwrap())).or_default() += 1;
        if let Some(f) = fail { if verdict == "ok" { verdict = format!("FAIL input {}: {}", hexs(inp), f); } }
        if let Some(b) = &base {
            let same = strip_pa(&r) == b;
            if cfg.limit.is_none() && !same && verdict == "ok" { verdict = format!("FAIL input {}: with error detail on the result is `{}` but with it off `{}`", hexs(inp), strip_pa(&r), b); }
            if cfg.limit.is_some() && !same && !r.starts_with("limit ") && verdict == "ok" { verdict = format!("FAIL input {}: under call limit {:?} the result is `{}`, neither the unlimited result `{}` nor the call-limit error", hexs(inp), cfg.limit, strip_pa(&r), b); }
            if cfg.limit.map_or(false, |n| n > 1_000_000) && r.starts_with("limit ") && verdict == "ok" { verdict = format!("FAIL input {}: \"call limit reached\" under the limit {:?}, far above the number of calls of this parse (it completes under smaller limits)", hexs(inp), cfg.limit); }
            if cfg.limit.is_some() { *stats.entry(if same { "limit_same".into() } else { "limit_error".to_string() }).or_default() += 1; }
        }
        outs.push(r);
    }
    (outs.join(" | "), verdict)
}

const TAG_SHAPES: bool = false;
fn main() {
    quiet_panics();
    let mut out = Out::new();
    let mut stats: BTreeMap<String, u64> = BTreeMap::new();
    let profile = std::env::args().nth(5).unwrap_or("C08".into());
    match cli() {
        Cmd::Run { ops, out: dir } => { for l in &ops { let (i, v) = eval_line(l, &mut stats); out.push(l.clone(), i, v); } out.write(&dir, "{}"); }
        Cmd::Gen { thorough, seed, out: dir } => {
            let ngram = if thorough { 1200 } else { 150 };
            let len = if thorough { 5 } else { 3 };
            let mut rng = Rng::new(seed ^ 0x7A ^ if EXTRAS { 0xE000 } else { 0 });
            let mut ninputs = 0u64; let mut nontrivial = 0u64;
            // long tokens: a PUSHed delimiter / a grammar literal of a few dozen bytes with a multi-byte character lying across
            // a "round" byte offset (16, 32, 48, 64) — whatever is done with the text of a token must respect character boundaries
            {
                use pest_meta::ast::{Expr, Rule, RuleType};
                let bx = |e: Expr| Box::new(e);
                let id = |n: &str| Expr::Ident(n.to_string());
                let line = |e: Expr| Expr::Rep(bx(Expr::Seq(bx(Expr::NegPred(bx(Expr::Str("\n".into())))), bx(e))));
                let mut delims: Vec<String> = vec![];
                for t in [16usize, 32, 48, 64] { for ch in ["é", "嗨", "😀"] { for off in (t + 1 - ch.len())..t {
                    let mut d = "E".repeat(off); d.push_str(ch); while d.len() < t + 13 { d.push('E'); } delims.push(d); } } }
                let cfgd = match profile.as_str() { "C15" => "m1,d1,l_", _ => "m1,d0,l_" };
                let heredoc = vec![
                    Rule { name: "doc".into(), ty: RuleType::Normal, expr: { let sq = |a: Expr, b: Expr| Expr::Seq(Box::new(a), Box::new(b)); sq(Expr::Push(bx(id("delim"))), sq(Expr::Str("\n".into()), sq(id("body"), sq(Expr::Str("\n".into()), sq(id("POP"), id("EOI")))))) } },
                    Rule { name: "delim".into(), ty: RuleType::Atomic, expr: Expr::Seq(bx(id("ANY")), bx(line(id("ANY")))) },
                    Rule { name: "body".into(), ty: RuleType::Atomic, expr: line(id("ANY")) }];
                if let Ok(orules) = catch(|| pest_meta::optimizer::optimize(heredoc.clone())) {
                    let mut inputs = vec![];
                    for d in &delims { inputs.push(format!("{}\nsome body\n{}", d, d)); let mut bad = d.clone(); bad.pop(); bad.push('F'); inputs.push(format!("{}\nsome body\n{}", d, bad)); }
                    for chunk in inputs.chunks(12) {
                        let l = format!("V {} vm {} doc {}", cfgd, show_orules(&orules), chunk.iter().map(|x| hexs(x)).collect::<Vec<_>>().join(" "));
                        let (i, v) = eval_line(&l, &mut stats); ninputs += chunk.len() as u64; nontrivial += chunk.len() as u64; out.push(l, i, v); } }
                for (k, d) in delims.iter().enumerate().filter(|(k, _)| k % 3 == (seed % 3) as usize) {
                    let lit = if k % 2 == 0 { Expr::Str(d.clone()) } else { Expr::Insens(d.to_uppercase().to_lowercase()) };
                    let g = vec![Rule { name: "r".into(), ty: RuleType::Normal, expr: Expr::Seq(bx(Expr::Opt(bx(Expr::Str("x".into())))), bx(Expr::Seq(bx(lit), bx(id("EOI"))))) }];
                    if let Ok(orules) = catch(|| pest_meta::optimizer::optimize(g.clone())) {
                        let mut bad = d.clone(); bad.pop(); bad.push('F');
                        let ins = [d.clone(), format!("x{}", d), bad, d[..d.len() - 1].to_string(), format!("{}E", d)];
                        let l = format!("V {} vm {} r {}", cfgd, show_orules(&orules), ins.iter().map(|x| hexs(x)).collect::<Vec<_>>().join(" "));
                        let (i, v) = eval_line(&l, &mut stats); ninputs += ins.len() as u64; nontrivial += ins.len() as u64; out.push(l, i, v); } }
            }
            for gi in 0..ngram {
                let cfg = GenCfg { extras: EXTRAS, guarded: true, stack_ops: gi % 3 == 0, tags: false, max_rules: 5, max_depth: 4, builtin_names: true, tag_shapes: TAG_SHAPES };
                // the first grammars of every run are centred on the idioms; half of them on the one that matters most for the profile
                let fav = match profile.as_str() { "C08" => 4, "C15" => 1, "C12" => 5, _ => gi };
                let rules = if gi < 60 { gen_grammar_idiom(&mut rng, &cfg, if gi % 2 == 0 { fav } else { gi }) } else { gen_grammar(&mut rng, &cfg) };
                let orules = match catch(|| pest_meta::optimizer::optimize(rules.clone())) { Ok(o) => o, Err(_) => continue };
                let srules = show_orules(&orules);
                let alpha = alphabet(&rules);
                let mut inputs = all_inputs(&alpha[..alpha.len().min(5)], len);
                for _ in 0..10 { let n = rng.range(len + 1, len + 5); let mut s = String::new(); for _ in 0..n { s.push_str(*rng.pick(&alpha[..])); } inputs.push(s); }
                // C15: multi-byte characters in front of everything (`ANY`, negated predicates and searches step over them; the
                // positions the attempt record refers to must stay on character boundaries)
                if profile == "C15" { let extra: Vec<String> = inputs.iter().filter(|x| x.chars().count() <= 2).take(40).map(|x| format!("é{}", x)).collect(); inputs.extend(extra); inputs.push("é嗨".into()); }
                let ins = inputs.iter().map(|x| hexs(x)).collect::<Vec<_>>().join(" ");
                let starts: Vec<String> = rules.iter().filter(|r| r.name != "WHITESPACE" && r.name != "COMMENT").take(2).map(|r| r.name.clone()).collect();
                for r in &starts {
                    let cfgs: Vec<String> = match profile.as_str() {
                        "C15" => vec!["m1,d1,l_".into()],
                        "C12" => { // sweep: every limit from 1 up to a bound
                            let vm = pest_vm::Vm::new(orules.clone());
                            let _ = vm; let mut v: Vec<String> = (1..=(if thorough { 60 } else { 24 })).map(|n| format!("m1,d0,l{}", n)).collect();
                            // and limits at the edges of the integer types (a limit is a NonZeroUsize)
                            if gi % 8 == 0 { for n in [usize::MAX, usize::MAX - 1, (u32::MAX as usize) + 1, u32::MAX as usize, (i32::MAX as usize) + 1, i64::MAX as usize, (i64::MAX as usize) + 1] { v.push(format!("m1,d0,l{}", n)); } }
                            v }
                        // the failure report is the same whether detailed attempts are collected or not: every third grammar also with them on
                        _ => if gi % 3 == 1 { vec!["m1,d0,l_".into(), "m1,d1,l_".into()] } else { vec!["m1,d0,l_".into()] },
                    };
                    let these_inputs = if profile == "C12" { // fewer inputs per limit
                        let mut v: Vec<String> = inputs.iter().filter(|x| x.chars().count() == len).take(12).cloned().collect(); v.extend(inputs.iter().rev().take(4).cloned()); v } else { inputs.clone() };
                    let ins2 = if profile == "C12" { these_inputs.iter().map(|x| hexs(x)).collect::<Vec<_>>().join(" ") } else { ins.clone() };
                    for c in cfgs {
                        let l = format!("V {} vm {} {} {}", c, srules, r, ins2);
                        let (i, v) = eval_line(&l, &mut stats);
                        ninputs += these_inputs.len() as u64;
                        nontrivial += i.split(" | ").filter(|x| x.starts_with("err ") && !x.starts_with("err 0 [] []") || x.starts_with("limit") || x.len() > 6).count() as u64;
                        out.push(l, i, v);
                    }
                }
            }
            let samples: Vec<String> = out.ops.iter().step_by((out.ops.len() / 4).max(1)).take(4).map(|s| if s.len() > 300 { format!("{}…", &s[..300]) } else { s.clone() }).collect();
            let stats_s = format!("{{\"evaluations\":{},\"grammars\":{},\"lines\":{},\"distinct_nontrivial\":{},\"profile\":{:?},\"extras\":{},\"max_exhaustive_input_len\":{},\"observed\":{:?},\"samples\":{:?}}}", ninputs, ngram, out.ops.len(), nontrivial, profile, EXTRAS, len, stats, samples);
            out.write(&dir, &stats_s);
        }
    }
}
