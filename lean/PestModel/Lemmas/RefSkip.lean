import PestModel.Lemmas.RefValid
/-! C05 helper lemmas, part 9: the skip law (atomic mode, valid positions). -/
namespace PestModel.Ref
open PestModel.G
open PestModel.LineCol (Str bLen cLen splitAt?)
open PestModel.Views (Tree)
open PestModel.PS (Atomicity CharSet restAt asciiLower eqIgnoreAsciiCase normalizeIndex restAt_advance)

theorem rule?_go_of_find {name : String} {r : Rule} (rules : List Rule) (i : Nat)
    (h : rules.find? (fun r => r.name = name) = some r) : ∃ id, Ctx.rule?.go name rules i = some (id, r) := by
  induction rules generalizing i with
  | nil => simp at h
  | cons x xs ih =>
    rw [List.find?_cons] at h
    rw [Ctx.rule?.go]
    by_cases hx : x.name = name
    · simp only [hx, decide_true, Option.some.injEq] at h
      subst h
      exact ⟨i, by simp [hx]⟩
    · simp only [hx, decide_false] at h
      simp only [hx, if_false]
      exact ih (i + 1) h

theorem rule?_of_lookup {c : Ctx} {name : String} {body : Expr} (h : lookupExpr c.rules name = some body) :
    ∃ id r, c.rule? name = some (id, r) ∧ r.expr = body := by
  unfold lookupExpr at h
  rw [Option.map_eq_some_iff] at h
  obtain ⟨r, h1, h2⟩ := h
  obtain ⟨id, hid⟩ := rule?_go_of_find c.rules 0 h1
  exact ⟨id, r, hid, h2⟩

theorem emitsFor_la_true (ty : RuleType) (m : Atomicity) : emitsFor ty m true = false := by
  cases ty <;> simp [emitsFor]

theorem valCa_la_true {c : Ctx} {name : String} {id : Nat} {r : Rule} (h : c.rule? name = some (id, r))
    (m : Atomicity) (s : St) : valCa c m true name s = val c (bodyMode r.name r.ty m) true r.expr s := by
  rw [valCa_unfold, h]
  simp only [emitsFor_la_true]
  cases val c (bodyMode r.name r.ty m) true r.expr s <;> simp

/-- under a predicate, `e` succeeds (without pairs) iff one of the strings `own` is a prefix. -/
def LitSpec (c : Ctx) (e : Expr) (own : List Str) : Prop :=
  ∀ m s rest, restAt c.input s.pos = some rest →
    (own.any (·.isPrefixOf rest) = true → ∃ s', val c m true e s = .ok s' []) ∧
    (own.any (·.isPrefixOf rest) = false → val c m true e s = .fail)

theorem litSpec_ident {c : Ctx} {name : String} {body : Expr} {own : List Str}
    (hl : lookupExpr c.rules name = some body) (hb : LitSpec c body own) : LitSpec c (.ident name) own := by
  obtain ⟨id, r, h1, h2⟩ := rule?_of_lookup hl
  intro m s rest hr
  rw [val_ident, valCa_la_true h1, h2]
  exact hb _ s rest hr

theorem litSpec_str (c : Ctx) (x : Str) : LitSpec c (.str x) [x] := by
  intro m s rest hr
  rw [val_str, lit_eq hr]
  simp only [List.any_cons, List.any_nil, Bool.or_false]
  constructor
  · intro h; rw [if_pos h]; exact ⟨_, rfl⟩
  · intro h; rw [if_neg (by simp [h])]

theorem litSpec_choice {c : Ctx} {a b : Expr} {owna ownb : List Str} (ha : LitSpec c a owna) (hb : LitSpec c b ownb) :
    LitSpec c (.choice a b) (owna ++ ownb) := by
  intro m s rest hr
  rw [val_choice]
  simp only [List.any_append]
  obtain ⟨a1, a2⟩ := ha m s rest hr
  obtain ⟨b1, b2⟩ := hb m s rest hr
  cases hA : owna.any (·.isPrefixOf rest)
  · rw [a2 hA]
    simp only [Bool.false_or]
    exact ⟨b1, b2⟩
  · obtain ⟨s', hs'⟩ := a1 hA
    rw [hs']
    simp

/-- `rules0` (the rules used for inlining) and the rules of `c` agree on every rule body that
`populate_choices` inlines. -/
def InlAgree (rules0 : List Rule) (c : Ctx) : Prop :=
  ∀ name body k ch res, lookupExpr rules0 name = some body → populateChoices rules0 k body ch = some res →
    lookupExpr c.rules name = some body

theorem inlAgree_self (c : Ctx) : InlAgree c.rules c := fun _ _ _ _ _ h _ => h

theorem populate_spec (c : Ctx) (rules0 : List Rule) (hA : InlAgree rules0 c) :
    ∀ fuel e ch strs, populateChoices rules0 fuel e ch = some (.skip strs) →
    ∃ own, strs = ch ++ own ∧ LitSpec c e own := by
  intro fuel
  induction fuel with
  | zero => intro e ch strs h; simp [populateChoices] at h
  | succ fuel ih =>
    intro e ch strs h
    rw [populateChoices.eq_def] at h
    simp only at h
    split at h
    · rename_i x rhs
      obtain ⟨own, h1, h2⟩ := ih _ _ _ h
      exact ⟨x :: own, by simp [h1], litSpec_choice (litSpec_str c x) h2⟩
    · rename_i name rhs
      split at h
      · rename_i inl heq
        rw [Option.bind_eq_some_iff] at heq
        obtain ⟨body, hb1, hb2⟩ := heq
        obtain ⟨ownx, hx1, hx2⟩ := ih _ _ _ hb2
        obtain ⟨own, h1, h2⟩ := ih _ _ _ h
        simp only [List.nil_append] at hx1
        subst hx1
        exact ⟨inl ++ own, by simp [h1], litSpec_choice (litSpec_ident (hA _ _ _ _ _ hb1 hb2) hx2) h2⟩
      · simp at h
    · simp at h
    · rename_i x
      simp only [Option.some.injEq, Expr.skip.injEq] at h
      exact ⟨[x], h.symm, litSpec_str c x⟩
    · rename_i name
      rw [Option.bind_eq_some_iff] at h
      obtain ⟨body, hb1, hb2⟩ := h
      obtain ⟨own, h1, h2⟩ := ih _ _ _ hb2
      exact ⟨own, h1, litSpec_ident (hA _ _ _ _ _ hb1 hb2) h2⟩
    · simp at h

theorem builtin_any (c : Ctx) m la s : builtin c m la "ANY" s = oneChar c s (fun _ => true) := rfl

theorem rule?_none_of_has {c : Ctx} {name : String} (h : c.has name = false) : c.rule? name = none := by
  unfold Ctx.has at h
  cases hr : c.rule? name
  · rfl
  · rw [hr] at h; simp at h

def anyStep (s : St) : Str → Res
  | [] => .fail
  | ch :: _ => .ok { s with pos := s.pos + cLen ch } []

/-- one step `!inner ~ ANY`. -/
theorem val_skipStep {c : Ctx} {inner : Expr} {strs : List Str} (hany : c.has "ANY" = false)
    (hi : LitSpec c inner strs) (la : Bool) (s : St) (rest : Str) (hr : restAt c.input s.pos = some rest) :
    val c .atomic la (.seq (.negPred inner) (.ident "ANY")) s =
      if strs.any (·.isPrefixOf rest) then .fail else anyStep s rest := by
  rw [val_seq, val_negPred]
  obtain ⟨h1, h2⟩ := hi .atomic s rest hr
  cases hA : strs.any (·.isPrefixOf rest)
  · rw [h2 hA]
    simp only [Bool.false_eq_true, if_false]
    simp only [valK_atomic _ _ _ _ (show Atomicity.atomic ≠ .nonAtomic by decide), val_ident, valCa_unfold,
      rule?_none_of_has hany, builtin_any, oneChar, hr]
    cases rest <;> simp [anyStep]
  · obtain ⟨s', hs'⟩ := h1 hA
    rw [hs']
    simp

theorem valL_skip {c : Ctx} {inner : Expr} {strs : List Str} (hany : c.has "ANY" = false)
    (hi : LitSpec c inner strs) (la : Bool) (rest : Str) :
    ∀ (s : St) (acc : List Tree), restAt c.input s.pos = some rest →
      valL c .atomic la (.seq (.negPred inner) (.ident "ANY")) s acc =
        .ok { s with pos := search strs rest s.pos } acc := by
  induction rest with
  | nil =>
    intro s acc hr
    rw [valL_unfold, valK_atomic _ _ _ _ (by decide)]
    simp only []
    rw [val_skipStep hany hi la s [] hr]
    simp [search, anyStep]
  | cons ch cs ih =>
    intro s acc hr
    rw [valL_unfold, valK_atomic _ _ _ _ (by decide)]
    simp only []
    rw [val_skipStep hany hi la s (ch :: cs) hr]
    cases hA : strs.any (·.isPrefixOf (ch :: cs))
    · simp only [Bool.false_eq_true, if_false, List.append_nil, anyStep]
      have hr' : restAt c.input (s.pos + cLen ch) = some cs := by
        have := restAt_advance (pre := [ch]) (post := cs) hr rfl
        simpa using this
      rw [ih { s with pos := s.pos + cLen ch } acc hr']
      simp [search, hA]
    · simp [search, hA]

theorem skip_law' {c : Ctx} {rules0 : List Rule} (hA : InlAgree rules0 c) {fuel : Nat} {inner : Expr}
    {strs : List Str} (hany : c.has "ANY" = false)
    (h : populateChoices rules0 fuel inner [] = some (.skip strs)) :
    EqOn (Valid c) c .atomic (.rep (.seq (.negPred inner) (.ident "ANY"))) (.skip strs) := by
  obtain ⟨own, h1, hi⟩ := populate_spec c rules0 hA _ _ _ _ h
  simp only [List.nil_append] at h1
  subst h1
  intro la s hs
  unfold Valid at hs
  rw [Option.isSome_iff_exists] at hs
  obtain ⟨rest, hr⟩ := hs
  rw [val_rep, val_skip, hr, val_skipStep hany hi la s rest hr]
  cases hA : strs.any (·.isPrefixOf rest)
  · cases rest with
    | nil => simp [search, anyStep]
    | cons ch cs =>
      simp only [Bool.false_eq_true, if_false, anyStep]
      have hr' : restAt c.input (s.pos + cLen ch) = some cs := by
        have := restAt_advance (pre := [ch]) (post := cs) hr rfl
        simpa using this
      rw [valL_skip hany hi la cs { s with pos := s.pos + cLen ch } [] hr']
      simp [search, hA]
  · cases rest with
    | nil => simp [search]
    | cons ch cs => simp [search, hA]

theorem skip_law {c : Ctx} {fuel : Nat} {inner : Expr} {strs : List Str} (hany : c.has "ANY" = false)
    (h : populateChoices c.rules fuel inner [] = some (.skip strs)) :
    EqOn (Valid c) c .atomic (.rep (.seq (.negPred inner) (.ident "ANY"))) (.skip strs) :=
  skip_law' (inlAgree_self c) hany h

theorem populate_is_skip (rules : List Rule) : ∀ fuel e ch res, populateChoices rules fuel e ch = some res →
    ∃ strs, res = .skip strs := by
  intro fuel
  induction fuel with
  | zero => intro e ch res h; simp [populateChoices] at h
  | succ fuel ih =>
    intro e ch res h
    rw [populateChoices.eq_def] at h
    simp only at h
    split at h
    · exact ih _ _ _ h
    · split at h
      · exact ih _ _ _ h
      · simp at h
    · simp at h
    · simp only [Option.some.injEq] at h; exact ⟨_, h.symm⟩
    · rw [Option.bind_eq_some_iff] at h
      obtain ⟨body, _, hb2⟩ := h
      exact ih _ _ _ hb2
    · simp at h

/-- the local rewrite of the `skip` pass preserves meaning in atomic mode (on valid states). -/
theorem skipF_eqOn {c : Ctx} {rules0 : List Rule} (hA : InlAgree rules0 c) (hany : c.has "ANY" = false) (x : Expr) :
    EqOn (Valid c) c .atomic x (skipF rules0 x) := by
  unfold skipF
  split
  · split
    · rename_i inner x' heq
      obtain ⟨strs, rfl⟩ := populate_is_skip _ _ _ _ _ heq
      split
      · exact EqOn.refl _
      · exact skip_law' hA hany heq
    · exact EqOn.refl _
  · exact EqOn.refl _

end PestModel.Ref
