import PestModel.Model.Unicode
import PestModel.Lemmas.Unicode
/-!
# C16 — Unicode property rules are consistent for every code point

The tables (`PestModel.Gen.Unicode`) are REGENERATED from `pest/src/unicode/*.rs` on every run, so
these theorems are re-checked against what the source says now. Each set is also one big number
(`bitsOf`, bit `cp` = membership); the finite-domain facts are single kernel computations on those
numbers (`decide +kernel`, GMP arithmetic — no `native_decide`), lifted to all code points by the
generic lemmas of the first section.
-/
namespace PestModel.C16
open PestModel.Unicode PestModel.Gen.Unicode

/-! ### generic lifting lemmas -/

theorem testBit_bitsOf (rs : Ranges) (cp : Nat) : (bitsOf rs).testBit cp = mem rs cp :=
  PestModel.Unicode.testBit_bitsOf rs cp

theorem scalarMask_testBit (cp : Nat) : scalarMask.testBit cp = isScalar cp :=
  PestModel.Unicode.scalarMask_testBit cp

/-- if each set (restricted to `total`) is disjoint from the union of the earlier ones and the union
of all is `total`, then every point of `total` lies in exactly one set. -/
theorem partition_lift (sets : List Ranges) (total : Nat)
    (h : partitionCheck (sets.map fun rs => bitsOf rs &&& total) total = true)
    (cp : Nat) (hcp : total.testBit cp = true) : (sets.filter (mem · cp)).length = 1 :=
  PestModel.Unicode.partition_lift sets total h cp hcp

theorem disjoint_lift (sets : List Ranges) (h : disjointCheck (sets.map bitsOf) = true) (cp : Nat) :
    (sets.filter (mem · cp)).length ≤ 1 :=
  PestModel.Unicode.disjoint_lift sets h cp

theorem union_lift (g : Ranges) (parts : List Ranges) (h : bitsOf g = unionBits (parts.map bitsOf))
    (cp : Nat) : mem g cp = parts.any (mem · cp) :=
  PestModel.Unicode.union_lift g parts h cp

/-! ### the finite-domain facts (kernel computations on the regenerated tables) -/

set_option maxRecDepth 100000 in
theorem gc_partition_bits : partitionCheck (twoLetter.map fun rs => bitsOf rs &&& scalarMask) scalarMask = true := by
  decide +kernel

set_option maxRecDepth 100000 in
theorem surrogate_bits : bitsOf ranges_category_SURROGATE &&& scalarMask = 0 := by decide +kernel

set_option maxRecDepth 100000 in
theorem groups_bits : groupsCheck = true := by decide +kernel

set_option maxRecDepth 100000 in
theorem scripts_bits : disjointCheck (scripts.map bitsOf) = true := by decide +kernel

set_option maxRecDepth 100000 in
theorem names_agree : namesCheck = true := by decide +kernel

/-- the validator's `BUILTINS` chains `unicode_property_names()`, so every advertised name is accepted. -/
theorem validator_accepts : builtinsChainUnicode = true := by decide

/-- the VM's hard-wired arms are exactly the generator's `insert_builtin!` set, and both fall back
to the Unicode properties (`by_name` / `::pest::unicode::NAME`). -/
theorem backend_builtins_agree : vmArms = genBuiltins ∧ vmUnicodeFallback = true ∧ genUnicodeLoop = true := by
  decide +kernel

/-! ### the property, for every code point -/

/-- **For every Unicode scalar value exactly one two-letter general category matches.** -/
theorem gc_partition (cp : Nat) (h : isScalar cp = true) : (twoLetter.filter (mem · cp)).length = 1 :=
  partition_lift twoLetter scalarMask gc_partition_bits cp ((scalarMask_testBit cp).trans h)

/-- `SURROGATE` matches no scalar value. -/
theorem surrogate_no_scalar (cp : Nat) (h : isScalar cp = true) : mem ranges_category_SURROGATE cp = false := by
  have hz := PestModel.Unicode.and_eq_zero_testBit surrogate_bits cp
  rw [testBit_bitsOf, scalarMask_testBit, h, Bool.and_true] at hz
  exact hz

/-- **Each grouped category matches exactly the union of its members** (LETTER, CASED_LETTER, MARK,
NUMBER, PUNCTUATION, SYMBOL, SEPARATOR, OTHER). -/
theorem group_eq_union (g : Ranges) (parts : List Ranges) (hg : (g, parts) ∈ groups) (cp : Nat) :
    mem g cp = parts.any (mem · cp) :=
  PestModel.Unicode.groups_lift groups groups_bits g parts hg cp

/-- **Script rules are pairwise disjoint.** -/
theorem scripts_disjoint (cp : Nat) : (scripts.filter (mem · cp)).length ≤ 1 :=
  disjoint_lift scripts scripts_bits cp

end PestModel.C16
