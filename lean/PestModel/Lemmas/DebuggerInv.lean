import PestModel.Lemmas.Debugger
namespace PestModel.Dbg

theorem allBp_snoc (l : List Event) (e : Event) : allBp (l ++ [e]) ↔ allBp l ∧ isBreakpoint e = true := by
  simp [allBp]
  grind

theorem isBreakpoint_ite (b : Bool) : isBreakpoint (if b = true then Event.eof else Event.error) = false := by
  cases b <;> rfl

theorem filter_bp_single (r : Rule) (p : Nat) :
    List.filter isBreakpoint [Event.breakpoint r p] = [Event.breakpoint r p] := rfl

theorem filter_final_single (b : Bool) :
    List.filter isBreakpoint [if b = true then Event.eof else Event.error] = [] := by
  cases b <;> rfl

macro "inv_auto" : tactic =>
  `(tactic| (constructor <;> (try simp_all [PcData, pendEv, TokOk, RJ, RU, RG, isPark, isExited, quietPc, needsEmpty, needsTok, endWith, FinalShape, finalEv, isBreakpoint, allBp_snoc, isBreakpoint_ite, filter_bp_single, filter_final_single]) <;> (try omega) <;> (try grind)))

set_option hygiene false in
/-- the facts of the invariant about the current thread. -/
macro "inv_facts" hi:ident t:ident hc:ident : tactic =>
  `(tactic| (
    have h1 := Inv.fifo $hi $t $hc
    have h2 := Inv.pcData $hi $t $hc
    have h3 := Inv.expd $hi $t $hc
    have h4 := Inv.tok $hi $t $hc
    have h5 := Inv.rJ $hi $t $hc
    have h6 := Inv.rU $hi $t $hc
    have h7 := Inv.rG $hi $t $hc
    have h8 := Inv.doneExited $hi $t $hc
    obtain ⟨c1, c2, c3, c4, c5, -, -, -, -, -, -, -, -⟩ := $hi))

theorem Inv_parser_checkDone {s s' : State} {t : Thread} {k : Nat} (hi : Inv s) (hc : s.cur = some t)
    (hpc : t.pc = .checkDone k) (h : parserStep s = some s') : Inv s' := by
  inv_facts hi t hc
  simp only [parserStep, hc, hpc] at h
  split at h
  · cases h
    inv_auto
  · split at h
    · split at h
      · rename_i o _
        cases h
        cases o <;> inv_auto
      · cases h
        inv_auto
    · cases h
      inv_auto

theorem Inv_parser_abortCheck {s s' : State} {t : Thread} {n : Nat} {o : Outcome} (hi : Inv s) (hc : s.cur = some t)
    (hpc : t.pc = .abortCheck n o) (h : parserStep s = some s') : Inv s' := by
  inv_facts hi t hc
  simp only [parserStep, hc, hpc] at h
  split at h <;> cases h
  · cases o <;> inv_auto
  · inv_auto

theorem Inv_parser_lockBps {s s' : State} {t : Thread} {k : Nat} (hi : Inv s) (hc : s.cur = some t)
    (hpc : t.pc = .lockBps k) (h : parserStep s = some s') : Inv s' := by
  inv_facts hi t hc
  simp only [parserStep, hc, hpc] at h
  simp only [hpc, PcData] at h2
  split at h
  · rename_i r p hent
    have hs := expectedEvents_snoc s.entries s.bpsAt s.bps r p (by rw [h2.1]; exact hent)
    by_cases hb : s.bps.contains r = true <;> by_cases hn : k + 1 < s.entries.length <;>
      simp only [nextEntry, hb, hn, ↓reduceIte] at h <;> cases h <;> inv_auto
  · cases h

theorem Inv_parser_send {s s' : State} {t : Thread} {k : Nat} (hi : Inv s) (hc : s.cur = some t)
    (hpc : t.pc = .send k) (h : parserStep s = some s') : Inv s' := by
  inv_facts hi t hc
  simp only [parserStep, hc, hpc] at h
  split at h
  · split at h
    · cases h
      inv_auto
    · cases h
  · cases h

theorem Inv_parser_park {s s' : State} {t : Thread} {k : Nat} (hi : Inv s) (hc : s.cur = some t)
    (hpc : t.pc = .park k) (h : parserStep s = some s') : Inv s' := by
  inv_facts hi t hc
  simp only [parserStep, hc, hpc] at h
  split at h
  · by_cases hn : k + 1 < s.entries.length <;>
      simp only [nextEntry, hn, ↓reduceIte] at h <;> cases h <;> inv_auto
  · cases h

theorem Inv_parser_checkCancel {s s' : State} {t : Thread} {ok : Bool} (hi : Inv s) (hc : s.cur = some t)
    (hpc : t.pc = .checkCancel ok) (h : parserStep s = some s') : Inv s' := by
  inv_facts hi t hc
  simp only [parserStep, hc, hpc] at h
  split at h <;> cases h <;> inv_auto

theorem Inv_parser_finishSend {s s' : State} {t : Thread} {ok : Bool} (hi : Inv s) (hc : s.cur = some t)
    (hpc : t.pc = .finishSend ok) (h : parserStep s = some s') : Inv s' := by
  inv_facts hi t hc
  simp only [parserStep, hc, hpc] at h
  simp only [hpc, PcData] at h2
  have hf := allBp_filter h2.1
  split at h
  · cases h
    inv_auto
  · cases h

theorem Inv_parser_setDone {s s' : State} {t : Thread} (hi : Inv s) (hc : s.cur = some t)
    (hpc : t.pc = .setDone) (h : parserStep s = some s') : Inv s' := by
  inv_facts hi t hc
  simp only [parserStep, hc, hpc] at h
  cases h
  inv_auto

theorem Inv_parser {s s' : State} (hi : Inv s) (h : parserStep s = some s') : Inv s' := by
  cases hc : s.cur with
  | none => simp [parserStep, hc] at h
  | some t =>
    cases hpc : t.pc with
    | checkDone k => exact Inv_parser_checkDone hi hc hpc h
    | lockBps k => exact Inv_parser_lockBps hi hc hpc h
    | send k => exact Inv_parser_send hi hc hpc h
    | park k => exact Inv_parser_park hi hc hpc h
    | abortCheck n o => exact Inv_parser_abortCheck hi hc hpc h
    | checkCancel ok => exact Inv_parser_checkCancel hi hc hpc h
    | finishSend ok => exact Inv_parser_finishSend hi hc hpc h
    | setDone => exact Inv_parser_setDone hi hc hpc h
    | exited p => simp [parserStep, hc, hpc] at h

end PestModel.Dbg
