import PestModel.Model.PStateSpec
import PestModel.Thm.C11
import PestModel.Lemmas.PStateInvNoPanic
/-! Consequences of the main invariant `run_rel` in the form used by `Thm/C03.lean`. -/
namespace PestModel.PS
open PestModel.LineCol PestModel.Stack

theorem new_wf' (input : Str) (limit : Option Nat) (detail : Bool) :
    (PState.new input limit detail).WF := by
  refine ⟨?_, C11.inv_init⟩
  simp [PState.new, isBoundary, splitAt?]

theorem run_ok_rel {cfg : Cfg} {fuel : Nat} {p : Prog} {s s' : PState}
    (h : run cfg fuel p s = .ok s') : Rel s s' := run_rel cfg fuel p s s' (by rw [h]; rfl)

theorem run_err_rel {cfg : Cfg} {fuel : Nat} {p : Prog} {s s' : PState}
    (h : run cfg fuel p s = .err s') : Rel s s' := run_rel cfg fuel p s s' (by rw [h]; rfl)

theorem state?_some_cases {o : Out} {s' : PState} (h : o.state? = some s') :
    o = .ok s' ∨ o = .err s' := by
  cases o <;> simp at h
  · exact Or.inl (by rw [h])
  · exact Or.inr (by rw [h])

theorem stackEq_refl (a : Stk Str) : stackEq a a := rfl

theorem sequence_err_restores' (cfg : Cfg) (fuel : Nat) (p : Prog) (s s' : PState) (hwf : s.WF)
    (h : run cfg fuel (.sequence p) s = .err s') :
    s'.pos = s.pos ∧ s'.queue = s.queue ∧ stackEq s'.stack s.stack := by
  cases fuel with
  | zero => rw [run_zero] at h; simp at h
  | succ fuel =>
    rw [run_sequence] at h
    split at h
    · simp at h; subst h; exact ⟨rfl, rfl, stackEq_refl _⟩
    · rename_i s1 hic
      obtain ⟨c, rfl⟩ := incCall_some hic
      split at h
      · split at h <;> simp at h
      · rename_i ns hb
        have rb := run_err_rel hb
        split at h
        · rename_i ns' hrs
          simp at h; subst h
          obtain ⟨st, hre, rfl⟩ := restoreStack_some hrs
          have hq := setLastTag_restore rb.q
          obtain ⟨-, b, c⟩ := bracket_restore (st0 := s.stack) hwf.2 rb.stk hre
          exact ⟨rfl, hq, stackEq_of c b⟩
        · simp at h
      · rename_i o h1 h2
        exact (h2 s' h).elim

theorem restoreOnErr_restores' (cfg : Cfg) (fuel : Nat) (p : Prog) (s s' : PState) (hwf : s.WF)
    (h : run cfg fuel (.restoreOnErr p) s = .err s') : stackEq s'.stack s.stack := by
  cases fuel with
  | zero => rw [run_zero] at h; simp at h
  | succ fuel =>
    rw [run_restoreOnErr] at h
    split at h
    · split at h <;> simp at h
    · rename_i ns hb
      have rb := run_err_rel hb
      split at h
      · rename_i ns' hrs
        simp at h; subst h
        obtain ⟨st, hre, rfl⟩ := restoreStack_some hrs
        obtain ⟨-, b, c⟩ := bracket_restore (st0 := s.stack) hwf.2 rb.stk hre
        exact stackEq_of c b
      · simp at h
    · rename_i o h1 h2
      exact (h2 s' h).elim

theorem lookahead_restores' (cfg : Cfg) (fuel : Nat) (positive : Bool) (p : Prog) (s s' : PState)
    (hwf : s.WF) (h : (run cfg fuel (.lookahead positive p) s).state? = some s') :
    s'.pos = s.pos ∧ s'.queue = s.queue ∧ stackEq s'.stack s.stack ∧ s'.lookahead = s.lookahead := by
  cases fuel with
  | zero => rw [run_zero] at h; simp at h
  | succ fuel =>
    rw [run_lookahead] at h
    split at h
    · simp at h; subst h; exact ⟨rfl, rfl, stackEq_refl _, rfl⟩
    · rename_i s1 hic
      obtain ⟨c, rfl⟩ := incCall_some hic
      have key : ∀ ns ns', Rel (checkpoint { ({ s with calls := c } : PState) with
            lookahead := laMode positive s.lookahead }) ns →
          laPost { s with calls := c } ns = some ns' →
          ns'.pos = s.pos ∧ ns'.queue = s.queue ∧ stackEq ns'.stack s.stack ∧
            ns'.lookahead = s.lookahead := by
        intro ns ns' rb hla
        obtain ⟨r, h1, h2, h3⟩ := laPost_rel rb hla
        exact ⟨h1, h2, stackEq_of (h3 hwf.2) (r.stk hwf.2).2, r.la⟩
      split at h
      · rename_i ns hb
        split at h
        · rename_i ns' hla
          have := key ns ns' (run_ok_rel hb) hla
          split at h <;> (simp at h; subst h; exact this)
        · simp at h
      · rename_i ns hb
        split at h
        · rename_i ns' hla
          have := key ns ns' (run_err_rel hb) hla
          split at h <;> (simp at h; subst h; exact this)
        · simp at h
      · rename_i o h1 h2
        rcases state?_some_cases h with h' | h'
        · exact (h1 s' h').elim
        · exact (h2 s' h').elim

theorem rule_ok_emits' (cfg : Cfg) (fuel : Nat) (r : Nat) (p : Prog) (s s' : PState)
    (hla : s.lookahead = .none) (hat : s.atomicity ≠ .atomic)
    (h : run cfg fuel (.rule r p) s = .ok s') :
    ∃ inner, s'.queue = s.queue ++ [.start (s.queue.length + 1 + inner.length) s.pos] ++ inner ++
      [.end_ s.queue.length r none s'.pos] := by
  cases fuel with
  | zero => rw [run_zero] at h; simp at h
  | succ fuel =>
    rw [run_rule] at h
    split at h
    · simp at h
    · rename_i s1 hic
      obtain ⟨c, rfl⟩ := incCall_some hic
      have hc : ruleCond { s with calls := c } := ⟨hla, hat⟩
      split at h
      · rename_i ns hb
        obtain ⟨-, a, b, c', pa', q', rfl, -, h1, -⟩ :=
          ruleOkPost_spec (run_ok_rel hb) (by rw [h]; rfl)
        obtain ⟨inner, -, rfl⟩ := h1 hc
        exact ⟨inner, by simp⟩
      · rename_i ns hb
        obtain ⟨h1, -⟩ := ruleErrPost_spec (s' := s') (run_err_rel hb) (by rw [h]; rfl)
        rw [h] at h1; simp at h1
      · rename_i o h1 h2
        exact (h1 s' h).elim

theorem rule_err_truncates' (cfg : Cfg) (fuel : Nat) (r : Nat) (p : Prog) (s s' : PState)
    (hla : s.lookahead = .none) (hat : s.atomicity ≠ .atomic)
    (h : run cfg fuel (.rule r p) s = .err s') : s'.queue = s.queue := by
  cases fuel with
  | zero => rw [run_zero] at h; simp at h
  | succ fuel =>
    rw [run_rule] at h
    split at h
    · simp at h; subst h; rfl
    · rename_i s1 hic
      obtain ⟨c, rfl⟩ := incCall_some hic
      have hc : ruleCond { s with calls := c } := ⟨hla, hat⟩
      split at h
      · rename_i ns hb
        obtain ⟨h1, -⟩ := ruleOkPost_spec (s' := s') (run_ok_rel hb) (by rw [h]; rfl)
        rw [h] at h1; simp at h1
      · rename_i ns hb
        obtain ⟨-, a, b, c', pa', q', rfl, -, h1, -⟩ :=
          ruleErrPost_spec (run_err_rel hb) (by rw [h]; rfl)
        exact h1 hc
      · rename_i o h1 h2
        exact (h2 s' h).elim

theorem rule_silent' (cfg : Cfg) (fuel : Nat) (r : Nat) (p : Prog) (s s' : PState)
    (hmode : s.lookahead ≠ .none ∨ s.atomicity = .atomic)
    (h : (run cfg (fuel + 1) (.rule r p) s).state? = some s') :
    s' = s ∨ ∃ s1 ns, s1.queue = s.queue ∧ (run cfg fuel p s1).state? = some ns ∧
      s'.queue = ns.queue := by
  rw [run_rule] at h
  split at h
  · simp at h; subst h; exact Or.inl rfl
  · rename_i s1 hic
    obtain ⟨c, rfl⟩ := incCall_some hic
    have hc : ¬ ruleCond { s with calls := c } := by
      rintro ⟨h1, h2⟩
      rcases hmode with hm | hm
      · exact hm h1
      · exact h2 hm
    rw [rulePre_of_not hc] at h
    right
    split at h
    · rename_i ns hb
      have rb := run_ok_rel hb
      rw [← rulePre_of_not hc] at rb
      obtain ⟨-, a, b, c', pa', q', rfl, -, -, h2⟩ := ruleOkPost_spec rb h
      exact ⟨{ s with calls := c }, ns, rfl, by rw [hb]; rfl, h2 hc⟩
    · rename_i ns hb
      have rb := run_err_rel hb
      rw [← rulePre_of_not hc] at rb
      obtain ⟨-, a, b, c', pa', q', rfl, -, -, h2⟩ := ruleErrPost_spec rb h
      exact ⟨{ s with calls := c }, ns, rfl, by rw [hb]; rfl, h2 hc⟩
    · rename_i o h1 h2
      rcases state?_some_cases h with h' | h'
      · exact (h1 s' h').elim
      · exact (h2 s' h').elim

theorem stackPush_pushes_span' (cfg : Cfg) (fuel : Nat) (p : Prog) (s s' : PState)
    (h : run cfg (fuel + 1) (.stackPush p) s = .ok s') :
    ∃ s1 ns str, s1.pos = s.pos ∧ run cfg fuel p s1 = .ok ns ∧ s'.pos = ns.pos ∧
      slice? s'.input s.pos s'.pos = some str ∧ s'.stack.cache = str :: ns.stack.cache := by
  rw [run_stackPush] at h
  split at h
  · simp at h
  · rename_i s1 hic
    obtain ⟨c, rfl⟩ := incCall_some hic
    split at h
    · rename_i ns hb
      unfold pushSpan at h
      split at h
      · rename_i str hs
        simp at h; subst h
        exact ⟨{ s with calls := c }, ns, str, rfl, hb, rfl, hs, rfl⟩
      · simp at h
    · rename_i o h1
      exact (h1 s' h).elim

theorem run_no_panic' (cfg : Cfg) (fuel : Nat) (p : Prog) (s : PState) (hwf : s.WF)
    (hclosed : cfg.closed p) (hnp : cfg.noPeekPop p) (hdet : s.pa.enabled = false) :
    run cfg fuel p s ≠ .panic :=
  run_np cfg (fun q hq => ⟨hclosed.2 q hq, hnp.2 q hq⟩) fuel p s ⟨hclosed.1, hnp.1⟩ ⟨hwf, hdet⟩

end PestModel.PS
