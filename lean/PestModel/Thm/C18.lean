import PestModel.Model.Json
import PestModel.Model.Ref
import PestModel.Gen.JsonGrammar
/-! # C18 — placeholder until the theorems land. -/
namespace PestModel.C18
open PestModel.Json

/-- the RFC transcription on a small document. -/
theorem smoke : (jsonText "[1]".toList).isSome = true := by decide

end PestModel.C18
