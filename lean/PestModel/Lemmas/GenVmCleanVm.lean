import PestModel.Lemmas.GenVmClean
/-! C02, part 8: `ErrSpecN` for the VM lowering of every expression. -/
namespace PestModel.GenVm
open PestModel.PS PestModel.Stack PestModel.Lower PestModel.G
open PestModel.LineCol (Str isBoundary slice?)
open PestModel.VmRef (Dirty index_some index_none)

/-- the configuration of a back-end. -/
def cfgOf (b : Backend) (env : Env) (memchr : Bool) : Cfg := { memchr, env := lowerAll b env }

variable {env : Env} {memchr : Bool} {n : Nat}

theorem undefined_none (b : Backend) (hsize : env.rules.length ≤ 333333333) :
    (cfgOf b env memchr).env[1000000000]? = none := by
  have : (1000000000 : Nat) = 3 * 333333333 + ctxIdx .atomic := by simp [ctxIdx]
  show (lowerAll b env)[1000000000]? = none
  rw [this, lowerAll_get]
  simp
  omega

theorem es_rng (a b : Char) (D : Prop) : ErrSpecN (cfgOf .vm env memchr) n (rng a b) D := es_matchRange a b D

theorem es_or2 {C : Cfg} {P Q : Prog} {D : Prop} (h1 : ErrSpecN C n P D) (h2 : ErrSpecN C n Q D) :
    ErrSpecN C n (.orElse P Q) D := (es_orElse h1 h2).weaken fun h => h.elim id id

theorem es_builtin (hsize : env.rules.length ≤ 333333333) (name : String) :
    ErrSpecN (cfgOf .vm env memchr) n (builtin env name) (Dirty env.rules (.ident name)) := by
  unfold builtin
  split
  · exact es_skip _ _
  · exact es_rule _ (es_endOfInput _)
  · exact es_startOfInput _
  · exact es_stackPeek _
  · exact es_stackMatchPeek _
  · exact es_stackPop.weaken fun _ => Dirty.pop
  · exact es_stackMatchPop.weaken fun _ => Dirty.popAll
  · exact es_stackDrop _
  · exact es_rng _ _ _
  · exact es_rng _ _ _
  · exact es_rng _ _ _
  · exact es_rng _ _ _
  · exact es_or2 (es_or2 (es_rng _ _ _) (es_rng _ _ _)) (es_rng _ _ _)
  · exact es_rng _ _ _
  · exact es_rng _ _ _
  · exact es_or2 (es_rng _ _ _) (es_rng _ _ _)
  · exact es_or2 (es_or2 (es_rng _ _ _) (es_rng _ _ _)) (es_rng _ _ _)
  · exact es_rng _ _ _
  · exact es_or2 (es_or2 (es_matchString _ _) (es_matchString _ _)) (es_matchString _ _)
  · split
    · exact es_matchCharBy _ _
    · exact es_call_none (undefined_none .vm hsize)

/-- `ErrSpecN` for every expression at level `n`. -/
def ES (env : Env) (memchr : Bool) (n : Nat) : Prop :=
  ∀ e ctx, ErrSpecN (cfgOf .vm env memchr) n (vmExpr env ctx e) (Dirty env.rules e)

theorem es_vmRule (h : ES env memchr n) (i : Nat) (r : ORule) (ctx : Atomicity) :
    ErrSpecN (cfgOf .vm env memchr) n (vmRule env i r ctx) (Dirty env.rules r.expr) := by
  unfold vmRule
  split
  · cases r.ty with
    | normal => exact es_rule _ (es_atomic _ (h _ _))
    | silent => exact es_atomic _ (h _ _)
    | atomic => exact es_rule _ (es_atomic _ (h _ _))
    | compound => exact es_atomic _ (es_rule _ (h _ _))
    | nonAtomic => exact es_atomic _ (es_rule _ (es_atomic _ (h _ _)))
  · cases r.ty with
    | normal => exact es_rule _ (h _ _)
    | silent => exact h _ _
    | atomic => exact es_rule _ (es_atomic _ (h _ _))
    | compound => exact es_atomic _ (es_rule _ (h _ _))
    | nonAtomic => exact es_atomic _ (es_rule _ (h _ _))

theorem es_callRule (hsize : env.rules.length ≤ 333333333) (h : ES env memchr n) (name : String)
    (ctx : Atomicity) :
    ErrSpecN (cfgOf .vm env memchr) (n + 1) (callRule env name ctx) (Dirty env.rules (.ident name)) := by
  unfold callRule
  cases hi : env.index name with
  | none => exact es_builtin hsize name
  | some i =>
    obtain ⟨r, hr, -, hl, -, -⟩ := index_some (extras := false) (input := []) hi
    have hslot : (cfgOf .vm env memchr).env[3 * i + ctxIdx ctx]? = some (vmRule env i r ctx) := by
      show (lowerAll .vm env)[3 * i + ctxIdx ctx]? = _
      rw [lowerAll_get, hr]; rfl
    exact (es_call hslot (es_vmRule h i r ctx)).weaken fun hd => Dirty.ident hl hd

theorem es_all (hsize : env.rules.length ≤ 333333333) : ∀ n, ES env memchr n
  | 0 => fun e ctx m hm s s' _ hr => by
    have : m = 0 := by omega
    subst this; rw [run_zero] at hr; cases hr
  | n + 1 => by
    have ih := es_all hsize n
    intro e
    induction e with
    | str s => intro ctx; exact es_matchString _ _
    | insens s => intro ctx; exact es_matchInsensitive _ _
    | range a b => intro ctx; exact es_matchRange _ _ _
    | ident name => intro ctx; exact es_callRule hsize ih name ctx
    | peekSlice a b => intro ctx; exact es_peekSlice _ _ _ _
    | posPred e _ => intro ctx; exact es_lookahead _ _ _
    | negPred e _ => intro ctx; exact es_lookahead _ _ _
    | seq a b _ _ => intro ctx; exact es_sequence _ _
    | choice a b iha ihb =>
      intro ctx
      exact (es_orElse (iha ctx) (ihb ctx)).weaken fun h => h.elim Dirty.choiceL Dirty.choiceR
    | opt e _ => intro ctx; exact es_optional _ _
    | rep e _ => intro ctx; exact es_sequence _ _
    | repOnce e _ => intro ctx; exact es_sequence _ _
    | skip ss => intro ctx; exact es_skipUntil _ _
    | push e ih' => intro ctx; exact (es_stackPush (ih' ctx)).weaken Dirty.push
    | pushLiteral s => intro ctx; exact es_pushLiteral _ _
    | nodeTag e t ih' => intro ctx; exact (es_andThen_tag t (ih' ctx)).weaken Dirty.nodeTag
    | restoreOnErr e ih' => intro ctx; exact es_restoreOnErr (ih' ctx)

/-- a clean expression, lowered by the VM, fails with position, queue and stack contents as before. -/
def ErrCleanP (C : Cfg) (P : Prog) : Prop :=
  ∀ m s s', Good s → run C m P s = .err s' →
    s'.pos = s.pos ∧ s'.queue = s.queue ∧ s'.stack.cache = s.stack.cache

theorem errClean_vm (hsize : env.rules.length ≤ 333333333) {e : OExpr} (hd : ¬ Dirty env.rules e)
    (ctx : Atomicity) : ErrCleanP (cfgOf .vm env memchr) (vmExpr env ctx e) := by
  intro m s s' hg hr
  obtain ⟨a, b, c⟩ := es_all (memchr := memchr) hsize m e ctx m (Nat.le_refl _) s s' hg hr
  exact ⟨a, b, Classical.byContradiction fun x => hd (c x)⟩

end PestModel.GenVm
