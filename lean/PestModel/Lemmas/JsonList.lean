import PestModel.Lemmas.JsonTree
/-!
C18 helper lemmas, part 6: the grammar side of `"[" ~ item ~ ("," ~ item)* ~ "]"` in a non-atomic rule:
accumulators of `repLoop`, the closing bracket, and the unfolding of the separator loop.
-/
namespace PestModel.Json
open PestModel.Ref PestModel.G
open PestModel.LineCol (Str cLen bLen)
open PestModel.PS (Atomicity CharSet restAt restAt_iff restAt_advance)
open PestModel.Views (Tree)

/-! ### accumulators of `repLoop` -/

/-- prepend to the forest of a result. -/
def pre (a : List Tree) : Res → Res
  | .ok s f => .ok s (a ++ f)
  | r => r

@[simp] theorem pre_ok (a : List Tree) (s : St) (f : List Tree) : pre a (.ok s f) = .ok s (a ++ f) := rfl
@[simp] theorem pre_fail (a : List Tree) : pre a .fail = .fail := rfl
@[simp] theorem pre_stuck (a : List Tree) : pre a .stuck = .stuck := rfl
@[simp] theorem pre_fuel (a : List Tree) : pre a .fuel = .fuel := rfl

theorem pre_nil (r : Res) : pre [] r = r := by cases r <;> simp [pre]

theorem pre_pre (a b : List Tree) (r : Res) : pre a (pre b r) = pre (a ++ b) r := by
  cases r <;> simp

theorem repLoop_acc (c : Ctx) (n : Nat) : ∀ m la e s a b,
    repLoop c n m la e s (a ++ b) = pre a (repLoop c n m la e s b) := by
  induction n with
  | zero => intros; rfl
  | succ n ih =>
    intro m la e s a b
    simp only [repLoop]
    cases skipWs c n m la s with
    | ok s1 f1 =>
      simp only []
      cases denote c n m la e s1 with
      | ok s2 f2 =>
        simp only []
        rw [List.append_assoc a, List.append_assoc a, ih]
      | _ => rfl
    | _ => rfl

theorem valL_acc (c : Ctx) (m : Atomicity) (la : Bool) (e : Expr) (s : St) (a b : List Tree) :
    valL c m la e s (a ++ b) = pre a (valL c m la e s b) := by
  obtain ⟨N1, h1⟩ := (lev_conv c).l m la e s (a ++ b)
  obtain ⟨N2, h2⟩ := (lev_conv c).l m la e s b
  have e1 := h1 (N1 + N2) (by omega)
  have e2 := h2 (N1 + N2) (by omega)
  simp only [lev] at e1 e2
  show (V c).l m la e s (a ++ b) = pre a ((V c).l m la e s b)
  rw [← e1, ← e2]
  exact repLoop_acc c _ m la e s a b

theorem valL_acc' (c : Ctx) (m : Atomicity) (la : Bool) (e : Expr) (s : St) (a : List Tree) :
    valL c m la e s a = pre a (valL c m la e s []) := by
  have := valL_acc c m la e s a []
  simpa using this

/-! ### the closing bracket -/

/-- `r ~ cl` in a non-atomic rule. -/
noncomputable def closeWith (ctx : Ctx) (cl : Char) (r : Res) : Res :=
  match r with
  | .ok s1 f1 =>
    match valK ctx .nonAtomic false s1 with
    | .ok s2 f2 =>
      match lit ctx s2 [cl] with
      | .ok s3 f3 => .ok s3 (f1 ++ f2 ++ f3)
      | r => r
    | r => r
  | r => r

theorem val_seq_close (ctx : Ctx) (x : Expr) (cl : Char) (s : St) :
    val ctx .nonAtomic false (.seq x (.str [cl])) s = closeWith ctx cl (val ctx .nonAtomic false x s) := by
  rw [val_seq]
  unfold closeWith
  cases val ctx .nonAtomic false x s with
  | ok s1 f1 =>
    simp only []
    cases valK ctx .nonAtomic false s1 with
    | ok s2 f2 =>
      simp only [val_str]
      cases lit ctx s2 [cl] <;> rfl
    | _ => rfl
  | _ => rfl

theorem closeWith_pre (ctx : Ctx) (cl : Char) (a : List Tree) (r : Res) :
    closeWith ctx cl (pre a r) = pre a (closeWith ctx cl r) := by
  cases r with
  | ok s1 f1 =>
    simp only [pre_ok, closeWith]
    cases valK ctx .nonAtomic false s1 with
    | ok s2 f2 =>
      simp only []
      cases lit ctx s2 [cl] <;> simp
    | _ => rfl
  | _ => rfl

/-! ### results -/

/-- the result of a rule that produces one pair. -/
def vRes (o : Option (JTree × Cur)) (stk : List Str) : Res :=
  match o with
  | some (t, c') => .ok ⟨c'.pos, stk⟩ [JT t]
  | none => .fail

@[simp] theorem vRes_none (stk : List Str) : vRes none stk = .fail := rfl
@[simp] theorem vRes_some (t : JTree) (c' : Cur) (stk : List Str) : vRes (some (t, c')) stk = .ok ⟨c'.pos, stk⟩ [JT t] := rfl

/-- the result of a list of items followed by the closing bracket `cl`. -/
def lRes (cl : Char) (o : Option (List JTree × Cur)) (stk : List Str) : Res :=
  match o with
  | some (ms, c2) =>
    match c2.rest with
    | ch :: _ => if ch = cl then .ok ⟨c2.adv.pos, stk⟩ (ms.map JT) else .fail
    | [] => .fail
  | none => .fail

theorem lRes_preJ (cl : Char) (a : List JTree) (o : Option (List JTree × Cur)) (stk : List Str) :
    lRes cl (preJ a o) stk = pre (a.map JT) (lRes cl o stk) := by
  cases o with
  | none => rfl
  | some p =>
    obtain ⟨ms, c2⟩ := p
    simp only [preJ_some, lRes]
    cases c2.rest with
    | nil => rfl
    | cons ch cs =>
      simp only []
      split <;> simp

section
variable {input : Str} {uni : String → Option CharSet}

/-- a normal rule called in a non-atomic rule (not in a predicate): one pair around its body. -/
theorem call_normal_of {name : String} {id : Nat} {e : Expr}
    (hr : (jctx input uni).rule? name = some (id, ⟨name, .normal, e⟩))
    (hn : ¬ (name = "WHITESPACE" ∨ name = "COMMENT")) (s : St) :
    valCa (jctx input uni) .nonAtomic false name s =
      match val (jctx input uni) .nonAtomic false e s with
      | .ok s1 f1 => .ok s1 [.node id s.pos s1.pos none f1]
      | r => r := by
  rw [valCa_unfold, hr]
  simp only [bodyMode, emitsFor, hn, if_false]
  cases val (jctx input uni) .nonAtomic false e s <;> simp

/-! ### separator and item -/

/-- `"," ~ item` -/
def sepItem (it : String) : Expr := .seq (.str [',']) (.ident it)

theorem lit_item {c : Cur} (h : At input c) (stk : List Str) (a : Char) (it : String) :
    val (jctx input uni) .nonAtomic false (.seq (.str [a]) (.ident it)) ⟨c.pos, stk⟩ =
      match c.rest with
      | ch :: _ => if ch = a then valCa (jctx input uni) .nonAtomic false it ⟨(wsC c.adv).pos, stk⟩ else .fail
      | [] => .fail := by
  rw [val_seq, val_str]
  cases hr : c.rest with
  | nil => rw [lit_nil h hr]
  | cons ch cs =>
    rw [lit1_cons h hr]
    by_cases hc : ch = a
    · simp only [hc, if_true]
      rw [skip_at h.adv]
      simp only [val_ident, List.append_nil, List.nil_append]
      cases valCa (jctx input uni) .nonAtomic false it ⟨(wsC c.adv).pos, stk⟩ <;> rfl
    · simp only [hc, if_false]

/-- the items after the first one, then the closing bracket. -/
noncomputable def moreG (input : Str) (uni : String → Option CharSet) (it : String) (cl : Char) (s : St) : Res :=
  closeWith (jctx input uni) cl (valL (jctx input uni) .nonAtomic false (sepItem it) s [])

/-- an item, more items, the closing bracket. -/
noncomputable def itemsG (input : Str) (uni : String → Option CharSet) (it : String) (cl : Char) (c : Cur) (stk : List Str) : Res :=
  match valCa (jctx input uni) .nonAtomic false it ⟨c.pos, stk⟩ with
  | .ok s1 f1 => pre f1 (moreG input uni it cl s1)
  | r => r

theorem close_at {c4 : Cur} (h : At input c4) (stk : List Str) (cl : Char) (F : List Tree) :
    closeWith (jctx input uni) cl (.ok ⟨c4.pos, stk⟩ F) =
      match (wsC c4).rest with
      | ch :: _ => if ch = cl then .ok ⟨(wsC c4).adv.pos, stk⟩ F else .fail
      | [] => .fail := by
  unfold closeWith
  simp only []
  rw [skip_at h]
  simp only []
  have h5 := h.reach (wsC_reach c4)
  cases hr : (wsC c4).rest with
  | nil => rw [lit_nil h5 hr]
  | cons ch cs =>
    rw [lit1_cons h5 hr]
    by_cases hc : ch = cl <;> simp [hc]

theorem loop_unfold {c4 : Cur} (h : At input c4) (stk : List Str) (it : String) (cl : Char) (hcl : cl ≠ ',') :
    moreG input uni it cl ⟨c4.pos, stk⟩ =
      match (wsC c4).rest with
      | ch :: _ =>
        if ch = ',' then itemsG input uni it cl (wsC (wsC c4).adv) stk
        else if ch = cl then .ok ⟨(wsC c4).adv.pos, stk⟩ [] else .fail
      | [] => .fail := by
  unfold moreG
  have h5 := h.reach (wsC_reach c4)
  rw [valL_unfold, skip_at h]
  simp only []
  unfold sepItem
  rw [lit_item h5]
  cases hr : (wsC c4).rest with
  | nil =>
    simp only []
    rw [close_at h, hr]
  | cons ch cs =>
    simp only []
    by_cases hc : ch = ','
    · subst hc
      simp only [if_true]
      unfold itemsG moreG sepItem
      cases valCa (jctx input uni) .nonAtomic false it ⟨(wsC (wsC c4).adv).pos, stk⟩ with
      | ok s2 f2 =>
        simp only [List.append_nil, List.nil_append]
        rw [valL_acc', closeWith_pre]
      | fail =>
        simp only []
        rw [close_at h, hr]
        have : ¬ (',' = cl) := fun h => hcl h.symm
        simp [this]
      | stuck => rfl
      | fuel => rfl
    · simp only [hc, if_false]
      rw [close_at h, hr]

/-- `"[" ~ item ~ ("," ~ item)* ~ "]"` -/
def listE (op cl : Char) (it : String) : Expr :=
  .seq (.seq (.seq (.str [op]) (.ident it)) (.rep (sepItem it))) (.str [cl])

/-- the first alternative of `object` / `array`, when the item parser returns at a cursor or fails. -/
theorem listE_eq {c : Cur} (h : At input c) {cs : Str} {op : Char} (hr : c.rest = op :: cs) (stk : List Str)
    (it : String) (cl : Char) (itemR : Option (JTree × Cur))
    (hit : valCa (jctx input uni) .nonAtomic false it ⟨(wsC c.adv).pos, stk⟩ = vRes itemR stk)
    (hAt : ∀ t c4, itemR = some (t, c4) → At input c4) :
    val (jctx input uni) .nonAtomic false (listE op cl it) ⟨c.pos, stk⟩ = itemsG input uni it cl (wsC c.adv) stk := by
  unfold listE itemsG
  rw [val_seq_close, val_seq, lit_item h, hr]
  simp only [if_true]
  rw [hit]
  cases itemR with
  | none => rfl
  | some p =>
    obtain ⟨t, c4⟩ := p
    have h4 := hAt t c4 rfl
    have h5 := h4.reach (wsC_reach c4)
    simp only [vRes_some]
    rw [skip_at h4]
    simp only []
    unfold moreG
    rw [valL_unfold, skip_at h4]
    simp only [val_rep]
    cases val (jctx input uni) .nonAtomic false (sepItem it) ⟨(wsC c4).pos, stk⟩ with
    | ok s3 f3 =>
      simp only [List.append_nil, List.nil_append]
      rw [← closeWith_pre]
      cases valL (jctx input uni) .nonAtomic false (sepItem it) s3 f3 <;> rfl
    | fail =>
      simp only []
      rw [close_at h5, close_at h4, wsC_idem]
      cases (wsC c4).rest with
      | nil => rfl
      | cons ch cs' =>
        simp only []
        by_cases hc : ch = cl <;> simp [hc]
    | stuck => rfl
    | fuel => rfl

/-- the second alternative of `object` / `array`. -/
theorem emptyE_eq {c : Cur} (h : At input c) {cs : Str} {op : Char} (hr : c.rest = op :: cs) (stk : List Str)
    (cl : Char) :
    val (jctx input uni) .nonAtomic false (.seq (.str [op]) (.str [cl])) ⟨c.pos, stk⟩ =
      match (wsC c.adv).rest with
      | ch :: _ => if ch = cl then .ok ⟨(wsC c.adv).adv.pos, stk⟩ [] else .fail
      | [] => .fail := by
  rw [val_seq_close, val_str, lit1_cons h hr]
  simp only [if_true]
  exact close_at h.adv stk cl []

theorem listE_fail_of_head {c : Cur} (h : At input c) (stk : List Str) (op cl : Char) (it : String)
    (hne : ∀ cs, c.rest ≠ op :: cs) :
    val (jctx input uni) .nonAtomic false (.choice (listE op cl it) (.seq (.str [op]) (.str [cl]))) ⟨c.pos, stk⟩ = .fail := by
  unfold listE
  simp only [val_choice, val_seq, val_str]
  cases hr : c.rest with
  | nil => simp [lit_nil h hr]
  | cons ch cs =>
    have : ch ≠ op := fun e => hne cs (by rw [hr, e])
    simp [lit1_cons h hr, this]

/-- RFC side of one step of the item list. -/
def stepR (itemR : Option (JTree × Cur)) (next : Cur → Option (List JTree × Cur)) : Option (List JTree × Cur) :=
  match itemR with
  | some (m, c4) => preJ [m] (tailR next c4)
  | none => none

theorem tailR_nil {next : Cur → Option (List JTree × Cur)} {c4 : Cur} (hr : (wsC c4).rest = []) :
    tailR next c4 = some ([], wsC c4) := by
  unfold tailR; rw [hr]

theorem tailR_comma {next : Cur → Option (List JTree × Cur)} {c4 : Cur} {cs : Str} (hr : (wsC c4).rest = ',' :: cs) :
    tailR next c4 = next (wsC (wsC c4).adv) := by
  unfold tailR; simp only [hr]

theorem tailR_other {next : Cur → Option (List JTree × Cur)} {c4 : Cur} {ch : Char} {cs : Str}
    (hr : (wsC c4).rest = ch :: cs) (hc : ch ≠ ',') : tailR next c4 = some ([], wsC c4) := by
  unfold tailR; rw [hr]; simp [hc]

/-- one step of the item list: an item, then (after whitespace) a comma and more, or the end. -/
theorem items_step {c : Cur} (stk : List Str) (it : String) (cl : Char) (hcl : cl ≠ ',')
    (itemR : Option (JTree × Cur)) (next : Cur → Option (List JTree × Cur))
    (hit : valCa (jctx input uni) .nonAtomic false it ⟨c.pos, stk⟩ = vRes itemR stk)
    (hAt : ∀ t c4, itemR = some (t, c4) → At input c4)
    (hnext : ∀ t c4, itemR = some (t, c4) → ∀ cs, (wsC c4).rest = ',' :: cs →
      itemsG input uni it cl (wsC (wsC c4).adv) stk = lRes cl (next (wsC (wsC c4).adv)) stk) :
    itemsG input uni it cl c stk = lRes cl (stepR itemR next) stk := by
  unfold itemsG stepR
  rw [hit]
  cases itemR with
  | none => rfl
  | some p =>
    obtain ⟨m, c4⟩ := p
    have h4 := hAt m c4 rfl
    simp only [vRes_some]
    rw [loop_unfold h4 stk it cl hcl, lRes_preJ]
    cases hr : (wsC c4).rest with
    | nil => simp [tailR_nil hr, lRes, hr]
    | cons ch cs =>
      by_cases hc : ch = ','
      · subst hc
        simp only [if_true]
        rw [hnext m c4 rfl cs hr, tailR_comma hr]
        rfl
      · simp only [hc, if_false]
        rw [tailR_other hr hc]
        simp only [lRes, hr]
        by_cases hcl' : ch = cl <;> simp [hcl']

end
end PestModel.Json
