import PestModel.Lemmas.ValidatorTerm
/-! C06 helper lemmas, part 6: every expression of an accepted grammar evaluates to a definite
result. Induction on the remaining input, then on the (well-founded) left-recursion graph of
(rule, skipping) pairs, then on the expression. -/
namespace PestModel.V
open PestModel.G PestModel.Ref
open PestModel.LineCol (Str bLen cLen)
open PestModel.Views (Tree)
open PestModel.PS (Atomicity CharSet)

/-- implicit skips run in this mode. -/
def isNA (m : Atomicity) : Bool := decide (m = .nonAtomic)

theorem valK_of_not_isNA {c : Ctx} {m : Atomicity} {la : Bool} {s : St} (h : isNA m = false) :
    valK c m la s ≠ .fuel := by
  rw [valK_atomic c m la s (by simpa [isNA] using h)]; simp

theorem has_eq_lookup (c : Ctx) (nm : String) : c.has nm = (lookup c.rules nm).isSome := by
  unfold Ctx.has
  cases hr : c.rule? nm with
  | none => rw [rule?_none_iff.1 hr]; rfl
  | some p =>
    obtain ⟨id, r⟩ := p
    rw [(lookup_of_rule? hr).1]; rfl

/-- `skipsInside` is the static reading of `bodyMode … = nonAtomic`. -/
theorem isNA_bodyMode {c : Ctx} {nm : String} {id : Nat} {r : Rule} (hr : c.rule? nm = some (id, r)) (m : Atomicity) :
    isNA (bodyMode r.name r.ty m) = skipsInside c.rules nm (isNA m) := by
  have hf : c.rules.find? (·.name = nm) = some r := by
    have := rule?_map c nm
    rw [hr] at this
    exact this.symm
  obtain ⟨_, _, hname⟩ := lookup_of_rule? hr
  subst hname
  unfold skipsInside bodyMode
  rw [hf]
  by_cases hn : r.name = "WHITESPACE" ∨ r.name = "COMMENT"
  · rw [if_pos hn, if_pos hn]
    split <;> simp [isNA]
  · rw [if_neg hn, if_neg hn]
    simp only [Option.map_some]
    cases hty : r.ty <;> simp [isNA]

theorem skipsInside_ws (rules : List Rule) {nm : String} (h : nm = "WHITESPACE" ∨ nm = "COMMENT") (sk : Bool) :
    skipsInside rules nm sk = false := by
  unfold skipsInside
  rw [if_pos h]

section
variable {c : Ctx}

/-- the hypotheses of the expression induction, at one level `N` of remaining input, inside the body
of rule `cur` where skipping is `sk`. `CTp` singles out the names whose calls (from a place where
skipping is `sk`) are already known to terminate at this level, `CT1` the rule references seen so
far; `cross` says what happens when the left-recursion check did not look behind an expression that
matched without consuming. -/
structure Lvl (c : Ctx) (N : Nat) (cur : String) (sk : Bool) (CTp CT1 : String → Prop) : Prop where
  low : ∀ s, mu c s < N → ∀ m la e, Base c.extras c.rules e → val c m la e s ≠ .fuel
  lowK : ∀ s, mu c s < N → ∀ m la, valK c m la s ≠ .fuel
  call : ∀ nm, CTp nm → ∀ s, mu c s ≤ N → ∀ m, isNA m = sk → ∀ la, valCa c m la nm s ≠ .fuel
  K : (∀ n ∈ wsNames c.rules, CTp n) → ∀ s, mu c s ≤ N → ∀ m, isNA m = sk → ∀ la, valK c m la s ≠ .fuel
  cross : ∀ a, Base c.extras c.rules a → (∀ n ∈ lm c.extras c.rules cur a, CT1 n) →
    (∃ m la s s' f, val c m la a s = .ok s' f ∧ s'.pos = s.pos) → cross c.rules cur a = false →
    ∀ n, CTp n ∧ CT1 n

variable {N : Nat} {cur : String} {sk : Bool} {CTp CT1 : String → Prop}

/-- the implicit skip at level `N`, where the implicit calls are among the known ones. -/
theorem Lvl.Ksame (H : Lvl c N cur sk CTp CT1) (hws : sk = true → ∀ n ∈ wsNames c.rules, CTp n)
    {s : St} (hs : mu c s ≤ N) {m : Atomicity} (hm : isNA m = sk) (la : Bool) : valK c m la s ≠ .fuel := by
  by_cases hsk : sk = true
  · exact H.K (hws hsk) s hs m hm la
  · exact valK_of_not_isNA (by rw [hm]; simpa using hsk)

/-- behind an expression: the skip at this level is known, or the expression consumes. -/
theorem Lvl.kn_or_prog (H : Lvl c N cur sk CTp CT1) {a : Expr} (hb : Base c.extras c.rules a)
    (hcl1 : ∀ n ∈ lm c.extras c.rules cur a, CT1 n)
    (hws : V.cross c.rules cur a = true → sk = true → ∀ n ∈ wsNames c.rules, CTp n)
    (m : Atomicity) (hm : isNA m = sk) (la : Bool) :
    (∀ s, mu c s ≤ N → valK c m la s ≠ .fuel) ∨ (∀ s s' f, val c m la a s = .ok s' f → s.pos < s'.pos) := by
  cases hx : V.cross c.rules cur a with
  | true => exact Or.inl (fun s hs => H.Ksame (hws hx) hs hm la)
  | false =>
    by_cases hw : ∃ m la s s' f, val c m la a s = .ok s' f ∧ s'.pos = s.pos
    · exact Or.inl (fun s hs => H.Ksame (fun _ n _ => (H.cross a hb hcl1 hw hx n).1) hs hm la)
    · refine Or.inr (fun s s' f h => ?_)
      have := (val_fwd h).le
      rcases Nat.lt_or_ge s.pos s'.pos with h1 | h1
      · exact h1
      · exact absurd ⟨m, la, s, s', f, h, by omega⟩ hw

set_option maxHeartbeats 800000 in
/-- one expression at one level. -/
theorem expr_term (H : Lvl c N cur sk CTp CT1) :
    ∀ e, Base c.extras c.rules e → (∀ n ∈ lmS c.extras c.rules cur sk e, CTp n) →
      (∀ n ∈ lm c.extras c.rules cur e, CT1 n) →
      ∀ s, mu c s ≤ N → ∀ m, isNA m = sk → ∀ la, val c m la e s ≠ .fuel := by
  intro e
  induction e with
  | str str => intro _ _ _ s _ m _ la; rw [val_str]; exact lit_ne_fuel _ _ _
  | insens str => intro _ _ _ s _ m _ la; rw [val_insens]; exact insensM_ne_fuel _ _ _
  | range a b => intro _ _ _ s _ m _ la; rw [val_range]; exact oneChar_ne_fuel _ _ _
  | ident n =>
    intro hb hcl _ s hs m hm la
    rw [val_ident]
    exact H.call n (hcl n (by simp [lmS])) s hs m hm la
  | peekSlice a b =>
    intro _ _ _ s _ m _ la
    rw [val_eq]
    simp only [denoteF]
    split
    · split
      · simp
      · split <;> simp
    · simp
  | skip strs =>
    intro _ _ _ s _ m _ la
    rw [val_skip]
    split <;> simp
  | pushLiteral str => intro _ _ _ s _ m _ la; rw [val_pushLiteral]; simp
  | posPred e ih =>
    intro hb hcl hcl1 s hs m hm la
    rw [val_posPred]
    have := ih hb.posPred (fun n hn => hcl n (by simpa only [lmS] using hn))
      (fun n hn => hcl1 n (by simpa only [lm] using hn)) s hs m hm true
    cases h1 : val c m true e s <;> simp_all
  | negPred e ih =>
    intro hb hcl hcl1 s hs m hm la
    rw [val_negPred]
    have := ih hb.negPred (fun n hn => hcl n (by simpa only [lmS] using hn))
      (fun n hn => hcl1 n (by simpa only [lm] using hn)) s hs m hm true
    cases h1 : val c m true e s <;> simp_all
  | opt e ih =>
    intro hb hcl hcl1 s hs m hm la
    exact opt_term N (fun s hs => ih hb.opt (fun n hn => hcl n (by simpa only [lmS] using hn))
      (fun n hn => hcl1 n (by simpa only [lm] using hn)) s hs m hm la) s hs
  | push e ih =>
    intro hb _ _ _ _ _ _ _
    exact absurd hb.sf (by simp [SF])
  | nodeTag e t ih =>
    intro hb hcl hcl1 s hs m hm la
    obtain ⟨hbe, hex⟩ := hb.nodeTag
    rw [val_nodeTag]
    have := ih hbe (fun n hn => hcl n (by simpa only [lmS, hex, if_true] using hn))
      (fun n hn => hcl1 n (by simpa only [lm, hex, if_true] using hn)) s hs m hm la
    cases h1 : val c m la e s <;> simp_all
  | choice a b iha ihb =>
    intro hb hcl hcl1 s hs m hm la
    rw [val_choice]
    have h1 := iha hb.choice.1 (fun n hn => hcl n (by simp only [lmS]; exact List.mem_append_left _ hn))
      (fun n hn => hcl1 n (by simp only [lm]; exact List.mem_append_left _ hn)) s hs m hm la
    have h2 := ihb hb.choice.2 (fun n hn => hcl n (by simp only [lmS]; exact List.mem_append_right _ hn))
      (fun n hn => hcl1 n (by simp only [lm]; exact List.mem_append_right _ hn)) s hs m hm la
    cases h : val c m la a s <;> simp_all
  | seq a b iha ihb =>
    intro hb hcl hcl1 s hs m hm la
    have hcla : ∀ n ∈ lmS c.extras c.rules cur sk a, CTp n := by
      intro n hn
      refine hcl n ?_
      simp only [lmS]
      split
      · exact List.mem_append_left _ hn
      · exact hn
    have hcl1a : ∀ n ∈ lm c.extras c.rules cur a, CT1 n := by
      intro n hn
      refine hcl1 n ?_
      simp only [lm]
      split
      · exact List.mem_append_left _ hn
      · exact hn
    rw [val_seq]
    cases h1 : val c m la a s <;> simp only [] <;> try simp
    · rename_i s1 f1
      have f1' := val_fwd h1
      -- what is known when `a` matched without consuming
      have hsame : s1.pos = s.pos →
          (sk = true → ∀ n ∈ wsNames c.rules, CTp n) ∧ (∀ n ∈ lmS c.extras c.rules cur sk b, CTp n) ∧
            (∀ n ∈ lm c.extras c.rules cur b, CT1 n) := by
        intro hp
        cases hx : V.cross c.rules cur a with
        | true =>
          refine ⟨fun hsk n hn => hcl n ?_, fun n hn => hcl n ?_, fun n hn => hcl1 n ?_⟩
          · simp only [lmS, hx, if_true, hsk]
            exact List.mem_append_right _ (List.mem_append_left _ hn)
          · simp only [lmS, hx, if_true]
            exact List.mem_append_right _ (List.mem_append_right _ hn)
          · simp only [lm, hx, if_true]
            exact List.mem_append_right _ hn
        | false =>
          have := H.cross a hb.seq.1 hcl1a ⟨m, la, s, s1, f1, h1, hp⟩ hx
          exact ⟨fun _ n _ => (this n).1, fun n _ => (this n).1, fun n _ => (this n).2⟩
      cases h2 : valK c m la s1 <;> simp only [] <;> try simp
      · rename_i s2 f2
        have f2' := valK_fwd h2
        cases h3 : val c m la b s2 <;> simp only [] <;> try simp
        have hfw := f1'.trans f2'
        by_cases hpos : s.pos < s2.pos
        · exact H.low s2 (by have := hfw.mu_lt hpos; omega) m la b hb.seq.2 h3
        · have hle1 := f1'.le
          have hle2 := f2'.le
          have hS := hsame (by omega)
          exact ihb hb.seq.2 hS.2.1 hS.2.2 s2 (by have := hfw.mu_le; omega) m hm la h3
      · by_cases hpos : s.pos < s1.pos
        · exact absurd h2 (H.lowK s1 (by have := f1'.mu_lt hpos; omega) m la)
        · have hle1 := f1'.le
          have hS := hsame (by omega)
          exact absurd h2 (H.Ksame hS.1 (by have := f1'.mu_le; omega) hm la)
    · exact absurd h1 (iha hb.seq.1 hcla hcl1a s hs m hm la)
  | rep e ih =>
    intro hb hcl hcl1 s hs m hm la
    exact rep_term N hb.rep.2
      (fun s hs => ih hb.rep.1 (fun n hn => hcl n (by simpa only [lmS] using hn))
        (fun n hn => hcl1 n (by simpa only [lm] using hn)) s hs m hm la)
      (fun s hs => H.lowK s hs m la) s hs
  | repOnce e ih =>
    intro hb hcl hcl1 s hs m hm la
    have he : ∀ s, mu c s ≤ N → val c m la e s ≠ .fuel :=
      fun s hs => ih hb.repOnce.1 (fun n hn => hcl n (by simpa only [lmS] using hn))
        (fun n hn => hcl1 n (by simpa only [lm] using hn)) s hs m hm la
    have hKlow : ∀ s, mu c s < N → valK c m la s ≠ .fuel := fun s hs => H.lowK s hs m la
    rw [val_repOnce]
    split
    · cases h1 : val c m la e s <;> simp only [] <;> try simp
      · rename_i s1 f1
        have := (val_fwd h1).mu_lt (prog_progress hb.repOnce.2 _ _ _ _ _ h1)
        exact valL_term N hb.repOnce.2 he hKlow (mu c s1) s1 f1 (Nat.le_refl _) (by omega)
      · exact absurd h1 (he s hs)
    · exact seqlist_term2 N hKlow e [.rep e] _ he (prog_progress hb.repOnce.2 m la)
        (by
          intro y hy s hs
          simp only [List.mem_cons, List.not_mem_nil, or_false] at hy
          subst hy
          exact rep_term N hb.repOnce.2 he hKlow s (by omega))
        rfl s hs
  | repMin e k ih =>
    intro hb hcl hcl1 s hs m hm la
    have he : ∀ s, mu c s ≤ N → val c m la e s ≠ .fuel :=
      fun s hs => ih hb.repMin.1 (fun n hn => hcl n (by simpa only [lmS] using hn))
        (fun n hn => hcl1 n (by simpa only [lm] using hn)) s hs m hm la
    have hKlow : ∀ s, mu c s < N → valK c m la s ≠ .fuel := fun s hs => H.lowK s hs m la
    have hrep := rep_term N hb.repMin.2 he hKlow
    rw [val_repMin]
    split
    · rename_i u hu
      cases k with
      | zero =>
        simp only [List.replicate_zero, List.nil_append, seqOfList, Option.some.injEq] at hu
        subst hu
        exact hrep s hs
      | succ k' =>
        rw [List.replicate_succ, List.cons_append] at hu
        refine seqlist_term2 N hKlow e _ u he (prog_progress hb.repMin.2 m la) ?_ hu s hs
        intro y hy s hs
        simp only [List.mem_append, List.mem_singleton] at hy
        rcases hy with hy | rfl
        · rw [List.eq_of_mem_replicate hy]; exact he s (by omega)
        · exact hrep s (by omega)
    · simp
  | repExact e k ih =>
    intro hb hcl hcl1 s hs m hm la
    have hcle : ∀ n ∈ lmS c.extras c.rules cur sk e, CTp n :=
      fun n hn => hcl n (by simp only [lmS]; exact List.mem_append_left _ hn)
    have hcl1e : ∀ n ∈ lm c.extras c.rules cur e, CT1 n := fun n hn => hcl1 n (by simpa only [lm] using hn)
    have he : ∀ s, mu c s ≤ N → val c m la e s ≠ .fuel := fun s hs => ih hb.repExact hcle hcl1e s hs m hm la
    rw [val_repExact]
    split
    · rename_i u hu
      by_cases hk : 2 ≤ k
      · have hws : V.cross c.rules cur e = true → sk = true → ∀ n ∈ wsNames c.rules, CTp n := by
          intro hx hsk n hn
          refine hcl n ?_
          simp only [lmS]
          refine List.mem_append_right _ ?_
          rw [if_pos (by simp [hk, hx, hsk])]
          exact hn
        rcases H.kn_or_prog hb.repExact hcl1e hws m hm la with hKN | hP
        · exact seqlist_term N _ u (fun _ => hKN)
            (fun x hx => by rw [List.eq_of_mem_replicate hx]; exact he) hu s hs
        · obtain ⟨k', rfl⟩ : ∃ k', k = k' + 1 := ⟨k - 1, by omega⟩
          rw [List.replicate_succ] at hu
          exact seqlist_term2 N (fun s hs => H.lowK s hs m la) e _ u he hP
            (fun y hy s hs => by rw [List.eq_of_mem_replicate hy]; exact he s (by omega)) hu s hs
      · exact seqlist_term N _ u (fun h2 => by simp only [List.length_replicate] at h2; omega)
          (fun x hx => by rw [List.eq_of_mem_replicate hx]; exact he) hu s hs
    · simp
  | repMax e k ih =>
    intro hb hcl hcl1 s hs m hm la
    have hcle : ∀ n ∈ lmS c.extras c.rules cur sk e, CTp n :=
      fun n hn => hcl n (by simp only [lmS]; exact List.mem_append_left _ hn)
    have hcl1e : ∀ n ∈ lm c.extras c.rules cur e, CT1 n := fun n hn => hcl1 n (by simpa only [lm] using hn)
    have he : ∀ s, mu c s ≤ N → val c m la e s ≠ .fuel := fun s hs => ih hb.repMax hcle hcl1e s hs m hm la
    rw [val_repMax]
    split
    · rename_i u hu
      refine seqlist_term N _ u ?_ (fun x hx => by rw [List.eq_of_mem_replicate hx]; exact opt_term N he) hu s hs
      intro h2 s hs
      simp only [List.length_replicate] at h2
      refine H.Ksame ?_ hs hm la
      intro hsk n hn
      refine hcl n ?_
      simp only [lmS]
      refine List.mem_append_right _ ?_
      rw [if_pos (by simp [h2, hsk])]
      exact hn
    · simp
  | repMinMax e lo hi ih =>
    intro hb hcl hcl1 s hs m hm la
    have hcle : ∀ n ∈ lmS c.extras c.rules cur sk e, CTp n :=
      fun n hn => hcl n (by simp only [lmS]; exact List.mem_append_left _ hn)
    have hcl1e : ∀ n ∈ lm c.extras c.rules cur e, CT1 n := fun n hn => hcl1 n (by simpa only [lm] using hn)
    have he : ∀ s, mu c s ≤ N → val c m la e s ≠ .fuel := fun s hs => ih hb.repMinMax hcle hcl1e s hs m hm la
    have hel : ∀ x ∈ (List.range hi).map (fun i => if i + 1 ≤ lo then e else Expr.opt e),
        ∀ s, mu c s ≤ N → val c m la x s ≠ .fuel := by
      intro x hx
      simp only [List.mem_map] at hx
      obtain ⟨i, _, rfl⟩ := hx
      split
      · exact he
      · exact opt_term N he
    rw [val_repMinMax]
    split
    · rename_i u hu
      by_cases hk : 2 ≤ hi
      · by_cases hlo : lo = 0
        · refine seqlist_term N _ u ?_ hel hu s hs
          intro _ s hs
          refine H.Ksame ?_ hs hm la
          intro hsk n hn
          refine hcl n ?_
          simp only [lmS]
          refine List.mem_append_right _ ?_
          rw [if_pos (by simp [hk, hlo, hsk])]
          exact hn
        · have hws : V.cross c.rules cur e = true → sk = true → ∀ n ∈ wsNames c.rules, CTp n := by
            intro hx hsk n hn
            refine hcl n ?_
            simp only [lmS]
            refine List.mem_append_right _ ?_
            rw [if_pos (by simp [hk, hx, hsk])]
            exact hn
          rcases H.kn_or_prog hb.repMinMax hcl1e hws m hm la with hKN | hP
          · exact seqlist_term N _ u (fun _ => hKN) hel hu s hs
          · obtain ⟨k', rfl⟩ : ∃ k', hi = k' + 1 := ⟨hi - 1, by omega⟩
            rw [List.range_succ_eq_map, List.map_cons] at hu hel
            have h0 : (if 0 + 1 ≤ lo then e else Expr.opt e) = e := by rw [if_pos (by omega)]
            rw [h0] at hu hel
            exact seqlist_term2 N (fun s hs => H.lowK s hs m la) e _ u he hP
              (fun y hy s hs => hel y (List.mem_cons_of_mem _ hy) s (by omega)) hu s hs
      · exact seqlist_term N _ u (fun h2 => by simp only [List.length_map, List.length_range] at h2; omega)
          hel hu s hs
    · simp

/-- what the validator establishes about a grammar. -/
structure Accepted (c : Ctx) : Prop where
  sfAll : ∀ r ∈ c.rules, SF r.expr = true
  tagAll : ∀ r ∈ c.rules, TagOK c.extras r.expr = true
  bodies : ∀ n body, lookup c.rules n = some body → Base c.extras c.rules body
  lr : leftRecursion c.extras c.rules = []
  wsProg : ∀ r ∈ c.rules, (r.name = "WHITESPACE" ∨ r.name = "COMMENT") → Prog c.rules r.expr

theorem Accepted.hnc (h : Accepted c) : ∀ id body, lookup c.rules id = some body → ¬ CReach c.extras c.rules id body id :=
  fun _ _ hl => no_cycle h.lr (fun _ hn => ⟨_, hl, hn⟩)

/-- an expression that the check did not look behind consumes when it matches. -/
theorem cross_false_progress (h : Accepted c) {cur : String} {a : Expr} (hb : Base c.extras c.rules a)
    (hcl : ∀ n ∈ lm c.extras c.rules cur a, E c.extras c.rules cur n) (hx : V.cross c.rules cur a = false)
    {m la s s' f} (hv : val c m la a s = .ok s' f) : s.pos < s'.pos := by
  have hnp : isNonProgressing c.rules (fuelFor c.rules a) a [cur] = false := by
    unfold V.cross at hx
    simp only [Bool.or_eq_false_iff] at hx
    exact hx.2
  rcases np_false_cases c.extras c.rules h.sfAll h.tagAll h.hnc
      _ a [cur] cur hb.sf hb.tag (fun _ => rfl) (fuelFor_ok _ _ _) hnp with hp | ⟨id, hid, hr⟩
  · exact prog_progress hp _ _ _ _ _ hv
  · simp only [List.mem_singleton] at hid
    subst hid
    exact absurd hr (no_cycle h.lr hcl)

/-- calls of `WHITESPACE`/`COMMENT` from the implicit skipping consume. -/
theorem ws_progress (h : Accepted c) {nm : String} (hn : nm = "WHITESPACE" ∨ nm = "COMMENT") (la : Bool) :
    ∀ s s' f, valCa c .nonAtomic la nm s = .ok s' f → s.pos < s'.pos := by
  intro s s' f hv
  cases hr : c.rule? nm with
  | none =>
    rw [valCa_unfold, hr] at hv
    refine builtin_progress ?_ ?_ ?_ hv
    · rcases hn with rfl | rfl <;> decide
    · rcases hn with rfl | rfl <;> decide
    · rcases hn with rfl | rfl <;> decide
  | some p =>
    obtain ⟨id, r⟩ := p
    obtain ⟨hl, hmem, hname⟩ := lookup_of_rule? hr
    rw [valCa_unfold, hr] at hv
    simp only [] at hv
    cases h1 : val c (bodyMode r.name r.ty .nonAtomic) la r.expr s <;> simp [h1] at hv
    have := prog_progress (h.wsProg r hmem (hname ▸ hn)) _ _ _ _ _ h1
    split at hv <;> simp at hv <;> (rw [← hv.1]; exact this)

theorem mem_wsNames_of_has {nm : String} (hn : nm = "WHITESPACE" ∨ nm = "COMMENT") (hh : c.has nm = true) :
    nm ∈ wsNames c.rules := by
  rw [has_eq_lookup] at hh
  unfold wsNames
  rcases hn with rfl | rfl
  · exact List.mem_append_left _ (by rw [if_pos hh]; simp)
  · exact List.mem_append_right _ (by rw [if_pos hh]; simp)

/-- all rule calls at level `N`: the pair `p` is (rule, skipping inside it). -/
theorem calls_term_level (h : Accepted c) (N : Nat)
    (hlow : ∀ s, mu c s < N → ∀ m la e, Base c.extras c.rules e → val c m la e s ≠ .fuel)
    (hlowK : ∀ s, mu c s < N → ∀ m la, valK c m la s ≠ .fuel) :
    ∀ p : Key, ∀ s, mu c s ≤ N → ∀ m la, skipsInside c.rules p.1 (isNA m) = p.2 → valCa c m la p.1 s ≠ .fuel := by
  intro p
  induction acc_all h.lr p with
  | intro p _ ih =>
    intro s hs m la hp
    rw [valCa_unfold]
    cases hr : c.rule? p.1 with
    | none => exact builtin_ne_fuel _ _ _ _ _
    | some q =>
      obtain ⟨id, r⟩ := q
      obtain ⟨hl, hmem, hname⟩ := lookup_of_rule? hr
      have hmode : isNA (bodyMode r.name r.ty m) = p.2 := by rw [isNA_bodyMode hr, hp]
      have hcallK : ∀ nm, nm = "WHITESPACE" ∨ nm = "COMMENT" → p.2 = true →
          (∀ n ∈ wsNames c.rules, ES c.extras c.rules p.1 p.2 n) → c.has nm = true →
          ∀ la s, mu c s ≤ N → valCa c .nonAtomic la nm s ≠ .fuel := by
        intro nm hn hsk hws hh la s hs
        refine ih (key c.rules p.2 nm) ⟨nm, hws nm (mem_wsNames_of_has hn hh), rfl⟩ s hs .nonAtomic la ?_
        simp only [isNA, decide_true, hsk]
      have H : Lvl c N p.1 p.2 (ES c.extras c.rules p.1 p.2) (E c.extras c.rules p.1) :=
        { low := hlow
          lowK := hlowK
          call := fun nm hE s hs m' hm' la' =>
            ih (key c.rules p.2 nm) ⟨nm, hE, rfl⟩ s hs m' la' (by show skipsInside c.rules nm (isNA m') = skipsInside c.rules nm p.2; rw [hm'])
          K := fun hws s hs m' hm' la' => by
            by_cases hsk : p.2 = true
            · exact valK_level N (hcallK _ (Or.inl rfl) hsk hws) (ws_progress h (Or.inl rfl))
                (hcallK _ (Or.inr rfl) hsk hws) (ws_progress h (Or.inr rfl)) s hs m' la'
            · exact valK_of_not_isNA (by rw [hm']; simpa using hsk)
          cross := fun a hb hcl hw hx => by
            obtain ⟨m', la', s0, s1, f1, hv, hpos⟩ := hw
            have := cross_false_progress h hb hcl hx hv
            omega }
      have hkey : val c (bodyMode r.name r.ty m) la r.expr s ≠ .fuel :=
        expr_term H r.expr (h.bodies _ _ hl) (fun n hn => ⟨_, hl, hn⟩) (fun n hn => ⟨_, hl, hn⟩) s hs _ hmode la
      simp only []
      cases h1 : val c (bodyMode r.name r.ty m) la r.expr s <;> simp only [] <;> try simp
      · split <;> simp
      · exact absurd h1 hkey

/-- everything at level `N`, from the levels below. -/
theorem level_step (h : Accepted c) (N : Nat)
    (hlow : ∀ s, mu c s < N → ∀ m la e, Base c.extras c.rules e → val c m la e s ≠ .fuel)
    (hlowK : ∀ s, mu c s < N → ∀ m la, valK c m la s ≠ .fuel) :
    (∀ s, mu c s ≤ N → ∀ m la e, Base c.extras c.rules e → val c m la e s ≠ .fuel) ∧
    (∀ s, mu c s ≤ N → ∀ m la, valK c m la s ≠ .fuel) := by
  have hcalls := calls_term_level h N hlow hlowK
  have hKN : ∀ s, mu c s ≤ N → ∀ m la, valK c m la s ≠ .fuel :=
    valK_level N
      (fun _ la s hs => hcalls ("WHITESPACE", false) s hs .nonAtomic la (skipsInside_ws _ (Or.inl rfl) _))
      (ws_progress h (Or.inl rfl))
      (fun _ la s hs => hcalls ("COMMENT", false) s hs .nonAtomic la (skipsInside_ws _ (Or.inr rfl) _))
      (ws_progress h (Or.inr rfl))
  refine ⟨?_, hKN⟩
  intro s hs m la e hb
  have H : Lvl c N "" (isNA m) (fun _ => True) (fun _ => True) :=
    { low := hlow
      lowK := hlowK
      call := fun nm _ s hs m' _ la' => hcalls (nm, skipsInside c.rules nm (isNA m')) s hs m' la' rfl
      K := fun _ s hs m' _ la' => hKN s hs m' la'
      cross := fun _ _ _ _ _ _ => ⟨trivial, trivial⟩ }
  exact expr_term H e hb (fun _ _ => trivial) (fun _ _ => trivial) s hs m rfl la

theorem level_all (h : Accepted c) : ∀ N,
    (∀ s, mu c s ≤ N → ∀ m la e, Base c.extras c.rules e → val c m la e s ≠ .fuel) ∧
    (∀ s, mu c s ≤ N → ∀ m la, valK c m la s ≠ .fuel) := by
  intro N
  induction N with
  | zero => exact level_step h 0 (fun s hs => by omega) (fun s hs => by omega)
  | succ N ih => exact level_step h (N + 1) (fun s hs => ih.1 s (by omega)) (fun s hs => ih.2 s (by omega))

/-- every rule call of an accepted grammar terminates. -/
theorem calls_term_all (h : Accepted c) : ∀ nm s m la, valCa c m la nm s ≠ .fuel := by
  intro nm s m la
  exact calls_term_level h (mu c s)
    (fun s' _ => (level_all h (mu c s')).1 s' (Nat.le_refl _))
    (fun s' _ => (level_all h (mu c s')).2 s' (Nat.le_refl _))
    (nm, skipsInside c.rules nm (isNA m)) s (Nat.le_refl _) m la rfl

end
end PestModel.V
