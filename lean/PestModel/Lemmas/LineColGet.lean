import PestModel.Lemmas.LineColBasic
/-! C10: `Span::get` — sub-spans are taken in the span's own text. -/
namespace PestModel.LineCol

theorem isBoundary_le {s : Str} {off : Nat} (h : isBoundary s off = true) : off ≤ bLen s := by
  obtain ⟨p, r, rfl, rfl⟩ := (isBoundary_iff _ _).1 h
  simp

theorem isBoundary_inner (X own Z : Str) (y : Nat) (hy : y ≤ bLen own) :
    isBoundary own y = true ↔ isBoundary (X ++ own ++ Z) (bLen X + y) = true := by
  rw [isBoundary_iff, isBoundary_iff]
  constructor
  · rintro ⟨p, r, rfl, rfl⟩
    exact ⟨X ++ p, r ++ Z, by simp, by simp⟩
  · rintro ⟨P, R, hs, hP⟩
    have h1 : X ++ (own ++ Z) = P ++ R := by rw [← hs]; simp
    obtain ⟨m, rfl, h2⟩ := prefix_of_bLen_le h1 (by omega)
    have hm : bLen m = y := by simp at hP; omega
    obtain ⟨m', rfl, _⟩ := prefix_of_bLen_le h2.symm (by omega)
    exact ⟨m, m', rfl, hm⟩

/-- **`Span::get` succeeds exactly on the sub-ranges that are spans of the input lying inside the span**, and returns that
span. -/
theorem spanGet_iff (s : Str) (a b x y : Nat) (h : spanNew s a b = true) (p : Nat × Nat) :
    spanGet s a b x y = some p ↔ p = (a + x, a + y) ∧ a + y ≤ b ∧ spanNew s (a + x) (a + y) = true := by
  unfold spanNew at h
  obtain ⟨own, ho⟩ := Option.isSome_iff_exists.1 h
  obtain ⟨X, Z, rfl, rfl, rfl⟩ := slice_some ho
  unfold spanGet
  rw [ho]
  simp only []
  rw [spanNew_iff (X ++ own ++ Z)]
  by_cases hs : spanNew own x y = true
  · rw [if_pos hs]
    obtain ⟨hxy, hx, hy⟩ := (spanNew_iff own x y).1 hs
    have hyl := isBoundary_le hy
    constructor
    · intro hp
      simp only [Option.some.injEq] at hp
      exact ⟨hp.symm, by omega, by omega, (isBoundary_inner X own Z x (by omega)).1 hx, (isBoundary_inner X own Z y hyl).1 hy⟩
    · rintro ⟨rfl, _⟩; rfl
  · rw [if_neg hs]
    constructor
    · intro hp; simp at hp
    · rintro ⟨_, hle, hxy, hx, hy⟩
      exfalso
      apply hs
      rw [spanNew_iff]
      have hyl : y ≤ bLen own := by omega
      exact ⟨by omega, (isBoundary_inner X own Z x (by omega)).2 hx, (isBoundary_inner X own Z y hyl).2 hy⟩

end PestModel.LineCol
