import PestModel.Lemmas.GenVmSeq
import PestModel.Lemmas.GenVmCleanVm
/-! C02, part 9: the generator's atomic repetition `repeat(e)` against the VM's
`sequence(optional(e ~ repeat(sequence(skip ~ e))))`, for an operand that fails clean. -/
namespace PestModel.GenVm
open PestModel.PS PestModel.Stack
open PestModel.LineCol (Str isBoundary slice?)
open PestModel.VmRef (run_mono)

theorem seqK_ok_seq {t x : PState} (hx : Good x) : ∃ y, seqK t (.ok x) = .ok y ∧ SEq x y := by
  obtain ⟨c, h1, e1, i1, -⟩ := checkpointOk_good hx.wf.2
  refine ⟨ws c x, ?_, ⟨rfl, e1.symm⟩, hx, ⟨hx.wf.1, i1⟩, hx.calls⟩
  show (match checkpointOk x with | some ns => Out.ok ns | none => .panic) = _
  rw [h1]

/-- a clean failure inside `sequence`: restoring changes nothing but the snapshots. -/
theorem seqK_err_seq {t x : PState} (hg : Good t) (hx : Good x) (r : Rel (checkpoint t) x)
    (hp : x.pos = t.pos) (hq : x.queue = t.queue) (hc : x.stack.cache = t.stack.cache) :
    ∃ y, seqK t (.err x) = .err y ∧ SEq x y := by
  obtain ⟨i, cs, f⟩ := rel_checkpoint_saved hg r
  obtain ⟨st, h1, e1, i1, -⟩ := restoreStack_top (ns := seqErrState t x) i f
  have hq' : (seqErrState t x).queue = x.queue := by
    rw [seqErrState_queue (s := t) (ns := x) r.q, hq]
  have k : seqErrState t x = x := by
    have k0 : seqErrState t x = { x with pos := t.pos, queue := (seqErrState t x).queue } := rfl
    rw [k0, hq', ← hp]
  refine ⟨ws st x, ?_, ⟨rfl, (e1.trans hc.symm).symm⟩, hx, ⟨hx.wf.1, i1⟩, hx.calls⟩
  show (match restoreStack (seqErrState t x) with | some ns => Out.err ns | none => .panic) = _
  rw [h1, k]

variable {A B : Cfg} {n : Nat}

/-- one iteration, VM shape to generator shape. -/
theorem iter_VG {E G : Prog} (h : Sim A B n E G) (hc : ErrCleanP A E) :
    Sim A B n (.sequence (.andThen .ok E)) G := by
  intro k hk t1 t2 hs hne
  cases k with
  | zero => rw [run_zero] at hne; exact absurd rfl hne
  | succ k =>
    rw [run_sequence_K, bracket_good hs.g1] at hne ⊢
    have hne' : run A k (.andThen .ok E) (checkpoint t1) ≠ .fuel := by
      intro hf; rw [hf] at hne; exact hne rfl
    cases k with
    | zero => rw [run_zero] at hne'; exact absurd rfl hne'
    | succ k =>
      rw [run_andThen] at hne' ⊢
      cases k with
      | zero => rw [run_zero] at hne'; exact absurd rfl hne'
      | succ k =>
        rw [run_ok_succ] at hne' ⊢
        dsimp only at hne' ⊢
        have hc1 : SEq (checkpoint t1) t2 := (seq_checkpoint_left hs.g1).trans hs
        obtain ⟨o2, ev, oe⟩ := h (k+1) (by omega) _ _ hc1 hne'
        refine ⟨o2, ev, ?_⟩
        cases e : run A (k+1) E (checkpoint t1) with
        | fuel => exact absurd e hne'
        | panic => rw [e] at oe; exact oe
        | ok x =>
          rw [e] at oe
          obtain ⟨x2, rfl, hx⟩ := oe.ok_inv
          obtain ⟨y, h1, hy⟩ := seqK_ok_seq (t := t1) hx.g1
          rw [h1]
          exact OEq.mk_ok (hy.symm.trans hx)
        | err x =>
          rw [e] at oe
          obtain ⟨x2, rfl, hx⟩ := oe.err_inv
          obtain ⟨p1, p2, p3⟩ := hc (k+1) _ _ (good_checkpoint hs.g1) e
          obtain ⟨y, h1, hy⟩ := seqK_err_seq hs.g1 hx.g1 (run_err_rel e) p1 p2 p3
          rw [h1]
          exact OEq.mk_err (hy.symm.trans hx)

/-- one iteration, generator shape to VM shape. -/
theorem iter_GV {E G : Prog} (h : Sim A B n G E) (hc : ErrCleanP B E) :
    Sim A B n G (.sequence (.andThen .ok E)) := by
  intro k hk t1 t2 hs hne
  have hc2 : SEq t1 (checkpoint t2) := hs.trans (seq_checkpoint_left hs.g2).symm
  obtain ⟨o2, ev, oe⟩ := h k hk _ _ hc2 hne
  have ev2 := ev_bracket (fun f s => run_sequence_K B f (.andThen .ok E) s) seqK_ok hs.g2
    (ev_andThen_ok (ev_ok B _) ev)
  refine ⟨_, ev2, ?_⟩
  cases o2 with
  | fuel => exact absurd rfl ev.ne_fuel
  | panic => exact oe
  | ok x2 =>
    obtain ⟨x1, hx', hx⟩ := oe.symm.ok_inv
    rw [hx']
    obtain ⟨y, h1, hy⟩ := seqK_ok_seq (t := t2) hx.g1
    rw [h1]
    exact OEq.mk_ok (hx.symm.trans hy)
  | err x2 =>
    obtain ⟨x1, hx', hx⟩ := oe.symm.err_inv
    rw [hx']
    obtain ⟨m, em, -⟩ := ev
    obtain ⟨p1, p2, p3⟩ := hc m _ _ (good_checkpoint hs.g2) em
    obtain ⟨y, h1, hy⟩ := seqK_err_seq hs.g2 hx.g1 (run_err_rel em) p1 p2 p3
    rw [h1]
    exact OEq.mk_err (hx.symm.trans hy)

theorem repLoop_out {C : Cfg} {P : Prog} {m : Nat} {s : PState} (h : run C m (.repLoop P) s ≠ .fuel) :
    (∃ x, run C m (.repLoop P) s = .ok x) ∨ run C m (.repLoop P) s = .panic := by
  cases e : run C m (.repLoop P) s with
  | ok x => exact Or.inl ⟨x, rfl⟩
  | err x => exact absurd e (repLoop_not_err P m s x)
  | panic => exact Or.inr rfl
  | fuel => exact absurd e h

/-- the VM's atomic-context repetition. -/
def vmRep (E : Prog) : Prog :=
  .sequence (.optional (.andThen E (.repeat_ (.sequence (.andThen .ok E)))))

theorem ev_vmRep_err {E : Prog} {s x : PState} (hg : Good s) (h : Ev B E (checkpoint s) (.err x)) :
    Ev B (vmRep E) s (seqK s (.ok x)) := by
  have e1 : Ev B (.andThen E (.repeat_ (.sequence (.andThen .ok E)))) (checkpoint s) (.err x) :=
    ev_andThen_stop h (by simp)
  have e2 := ev_bracket (fun f s => run_optional_K B f _ s) optK_ok (good_checkpoint hg) e1
  exact ev_bracket (fun f s => run_sequence_K B f _ s) seqK_ok hg e2

theorem ev_vmRep_panic {E : Prog} {s : PState} (hg : Good s) (h : Ev B E (checkpoint s) .panic) :
    Ev B (vmRep E) s .panic := by
  have e1 : Ev B (.andThen E (.repeat_ (.sequence (.andThen .ok E)))) (checkpoint s) .panic :=
    ev_andThen_stop h (by simp)
  have e2 := ev_bracket (fun f s => run_optional_K B f _ s) optK_ok (good_checkpoint hg) e1
  exact ev_bracket (fun f s => run_sequence_K B f _ s) seqK_ok hg e2

theorem ev_vmRep_ok {E : Prog} {s x : PState} {o : Out} (hg : Good s) (h : Ev B E (checkpoint s) (.ok x))
    (hl : Ev B (.repLoop (.sequence (.andThen .ok E))) x o) :
    Ev B (vmRep E) s (seqK s (optK (checkpoint s) o)) := by
  have hx : Good x := h.good (good_checkpoint hg) rfl
  have e0 := ev_bracket (fun f s => run_repeat_K B f (.sequence (.andThen .ok E)) s) idK_ok hx hl
  have e1 := ev_andThen_ok h e0
  have e2 := ev_bracket (fun f s => run_optional_K B f _ s) optK_ok (good_checkpoint hg) e1
  exact ev_bracket (fun f s => run_sequence_K B f _ s) seqK_ok hg e2

/-- generator shape to VM shape. -/
theorem rep_GV {E G : Prog} (h : Sim A B n G E) (hc : ErrCleanP B E) :
    Sim A B n (.repeat_ G) (vmRep E) := by
  intro k hk s1 s2 hs hne
  cases k with
  | zero => rw [run_zero] at hne; exact absurd rfl hne
  | succ k =>
    rw [run_repeat_K, bracket_good hs.g1] at hne ⊢
    unfold idK at hne ⊢
    simp only [id] at hne ⊢
    cases k with
    | zero => rw [run_zero] at hne; exact absurd rfl hne
    | succ k =>
      have hc2 : SEq s1 (checkpoint s2) := hs.trans (seq_checkpoint_left hs.g2).symm
      have hloop := sim_repLoop (iter_GV h hc)
      rw [run_repLoop] at hne ⊢
      cases e : run A k G s1 with
      | fuel => rw [e] at hne; exact absurd rfl hne
      | panic =>
        obtain ⟨o2, ev, oe⟩ := h k (by omega) _ _ hc2 (by rw [e]; simp)
        rw [e] at oe
        have := oe.panic_inv; subst this
        exact ⟨_, ev_vmRep_panic hs.g2 ev, OEq.mk_panic⟩
      | err x1 =>
        obtain ⟨o2, ev, oe⟩ := h k (by omega) _ _ hc2 (by rw [e]; simp)
        rw [e] at oe
        obtain ⟨x2, rfl, hx⟩ := oe.err_inv
        obtain ⟨y, h1, hy⟩ := seqK_ok_seq (t := s2) hx.g2
        refine ⟨_, ev_vmRep_err hs.g2 ev, ?_⟩
        rw [h1]
        exact OEq.mk_ok (hx.trans hy)
      | ok x1 =>
        rw [e] at hne
        dsimp only at hne ⊢
        obtain ⟨o2, ev, oe⟩ := h k (by omega) _ _ hc2 (by rw [e]; simp)
        rw [e] at oe
        obtain ⟨x2, rfl, hx⟩ := oe.ok_inv
        obtain ⟨o2', evl, oel⟩ := hloop k (by omega) x1 x2 hx hne
        refine ⟨_, ev_vmRep_ok hs.g2 ev evl, ?_⟩
        rcases repLoop_out hne with ⟨y1, ey⟩ | ey
        · rw [ey] at oel ⊢
          obtain ⟨y2, rfl, hy⟩ := oel.ok_inv
          obtain ⟨z, h1, hz⟩ := seqK_ok_seq (t := s2) hy.g2
          show OEq _ (seqK s2 (.ok y2))
          rw [h1]
          exact OEq.mk_ok (hy.trans hz)
        · rw [ey] at oel ⊢
          have := oel.panic_inv; subst this
          exact OEq.mk_panic

/-- VM shape to generator shape. -/
theorem rep_VG {E G : Prog} (h : Sim A B n E G) (hc : ErrCleanP A E) :
    Sim A B n (vmRep E) (.repeat_ G) := by
  intro k hk s1 s2 hs hne
  have hB := fun f s => run_repeat_K B f G s
  have hloop := sim_repLoop (iter_VG h hc)
  have hc1 : SEq (checkpoint s1) s2 := (seq_checkpoint_left hs.g1).trans hs
  unfold vmRep at hne ⊢
  cases k with
  | zero => rw [run_zero] at hne; exact absurd rfl hne
  | succ k =>
    rw [run_sequence_K, bracket_good hs.g1] at hne ⊢
    cases k with
    | zero => rw [run_zero] at hne; exact absurd rfl hne
    | succ k =>
      rw [run_optional_K, bracket_good (good_checkpoint hs.g1)] at hne ⊢
      simp only [id] at hne ⊢
      cases k with
      | zero => rw [run_zero] at hne; exact absurd rfl hne
      | succ k =>
        rw [run_andThen] at hne ⊢
        cases e : run A k E (checkpoint s1) with
        | fuel => rw [e] at hne; exact absurd rfl hne
        | panic =>
          obtain ⟨o2, ev, oe⟩ := h k (by omega) _ _ hc1 (by rw [e]; simp)
          rw [e] at oe
          have := oe.panic_inv; subst this
          exact ⟨_, ev_bracket hB idK_ok hs.g2 (ev_repLoop_panic ev), OEq.mk_panic⟩
        | err x1 =>
          obtain ⟨o2, ev, oe⟩ := h k (by omega) _ _ hc1 (by rw [e]; simp)
          rw [e] at oe
          obtain ⟨x2, rfl, hx⟩ := oe.err_inv
          obtain ⟨y, h1, hy⟩ := seqK_ok_seq (t := s1) hx.g1
          refine ⟨_, ev_bracket hB idK_ok hs.g2 (ev_repLoop_err ev), ?_⟩
          show OEq (seqK s1 (.ok x1)) (.ok x2)
          rw [h1]
          exact OEq.mk_ok (hy.symm.trans hx)
        | ok x1 =>
          rw [e] at hne
          dsimp only at hne ⊢
          obtain ⟨o2, ev, oe⟩ := h k (by omega) _ _ hc1 (by rw [e]; simp)
          rw [e] at oe
          obtain ⟨x2, rfl, hx⟩ := oe.ok_inv
          cases k with
          | zero => rw [run_zero] at hne; exact absurd rfl hne
          | succ k =>
            rw [run_repeat_K, bracket_good hx.g1] at hne ⊢
            unfold idK at hne ⊢
            simp only [id] at hne ⊢
            have hne' : run A k (.repLoop (.sequence (.andThen .ok E))) x1 ≠ .fuel := by
              intro hf; rw [hf] at hne; exact hne rfl
            obtain ⟨o2', evl, oel⟩ := hloop k (by omega) x1 x2 hx hne'
            refine ⟨_, ev_bracket hB idK_ok hs.g2 (ev_repLoop_ok ev evl), ?_⟩
            show OEq _ o2'
            rcases repLoop_out hne' with ⟨y1, ey⟩ | ey
            · rw [ey] at oel ⊢
              obtain ⟨y2, rfl, hy⟩ := oel.ok_inv
              obtain ⟨z, h1, hz⟩ := seqK_ok_seq (t := s1) hy.g1
              show OEq (seqK s1 (.ok y1)) _
              rw [h1]
              exact OEq.mk_ok (hz.symm.trans hy)
            · rw [ey] at oel ⊢
              have := oel.panic_inv; subst this
              exact OEq.mk_panic

end PestModel.GenVm
