"""C14 — the bootstrapped grammar parser is the parser its grammar file denotes."""
from props.common import *

MODULE = ["PestModel.Thm.C14", "PestModel.Thm.Capstone"]
DRV, MODE = "drv_meta", "grammar"


def run(ctx):
    simple_property(
        ctx, MODULE, DRV, MODE,
        oracle_kind="the checked-in meta-parser, the VM over parse_and_optimize(grammar.pest) and a freshly generated parser disagree on a text (or grammar.rs is not what the current generator produces from grammar.pest)",
        corr_kind="correspondence `M` (pest_meta::parser::parse vs the reference denotation of the REGENERATED Lean value of grammar.pest)",
        rule="(1) regeneration: pest_generator::derive_parser on the current grammar.pest must equal meta/src/grammar.rs byte for byte; (2) kernel-checked: the Lean optimizer applied to the regenerated grammar value equals what optimize() returned (meta_optimize_eq, json_optimize_eq); (3) behaviour: rule-sized snippets of 8 real grammars and their mutations (deletions, insertions of delimiters/escapes/operators, truncations, swaps) fed to grammar_rules and to 19 sub-rules: checked-in parser vs VM vs freshly generated code (pairs, error position, expected/unexpected sets) and vs the reference denotation on the regenerated grammar (acceptance and full token tree); whole mutated grammar files are compared among the three implementations only; non-trivial = texts accepted with a token tree",
        nontrivial_key="distinct_nontrivial",
        assumptions=[
            "the grammar value is regenerated on every run by harness/src/bin/tr_grammar.rs using the real pest_meta front-end (dumped before optimisation); its reading of grammar.pest is cross-checked by the acceptance/token-tree correspondence itself and by C07",
            "the freshly generated parser is executed by interpreting its emitted code (see C02)",
        ],
        leancheck=MODULE,
        extra_cov={"explanation": "translation validation of the bootstrap: the checked-in generated parser is compared (a) textually with a regeneration, (b) behaviourally with the VM, a freshly generated parser and the reference denotation of the regenerated grammar"},
    )
    # translation_validation evidence keys
    ev_path = os.path.join(EVIDENCE, f"{ctx.prop}.json")
    ev = json.load(open(ev_path))
    ev["coverage"]["programs"] = ev["coverage"].get("evaluations", 0)
    ev["coverage"]["disagreements_checked"] = ev["coverage"].get("mismatches", 0) + ev["coverage"].get("oracle_failures", 0)
    json.dump(ev, open(ev_path, "w"), indent=1)


def replay(ctx, path):
    return replay_generic(ctx, path, DRV, MODE)
