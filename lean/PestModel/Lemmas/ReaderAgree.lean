import PestModel.Model.ReaderP
/-! `ReaderFull` is `ReaderP` with the located errors and the panics identified (`R3.toOption`). -/
namespace PestModel.ReaderAgree
open PestModel.G PestModel.Reader
open PestModel.Views (Tree)
open PestModel.LineCol (Str)
open PestModel.ReaderP (R3 orPanic orErr)
namespace F
export PestModel.ReaderFull (literal numberOf integerOf getNodeTag peekSlice leafNode postfixOp postfixes build infixStage nodeOf wrapTag unariesStep consumeExprStep consumeExpr unaries ruleParts consumeRule consumeRulesGo consumeRulesWithSpans consumeRules)
end F
namespace P
export PestModel.ReaderP (literal numberOf integerOf getNodeTag peekSlice leafNode postfixOp postfixes build infixStage nodeOf wrapTag unariesStep consumeExprStep consumeExpr unaries ruleParts consumeRule consumeRulesGo consumeRulesWithSpans consumeRules anyPanic)
end P
open PestModel.ReaderFull (kind strOf stripEnds dropFirstByte theChar tokens isOp dropLead modifierOf)

@[simp] theorem to_ok {α : Type} (a : α) : (R3.ok a).toOption = some a := rfl
@[simp] theorem to_err {α : Type} : (R3.err : R3 α).toOption = none := rfl
@[simp] theorem to_panic {α : Type} : (R3.panic : R3 α).toOption = none := rfl
@[simp] theorem to_orPanic {α : Type} (o : Option α) : (orPanic o).toOption = o := by cases o <;> rfl
@[simp] theorem to_orErr {α : Type} (o : Option α) : (orErr o).toOption = o := by cases o <;> rfl
theorem to_bind {α β : Type} (x : R3 α) (f : α → R3 β) : (x.bind f).toOption = x.toOption.bind fun a => (f a).toOption := by
  cases x <;> rfl
theorem to_map {α β : Type} (x : R3 α) (f : α → β) : (x.map f).toOption = x.toOption.map f := by
  cases x <;> rfl


theorem literal_agree (text : Str) (t : Tree) : (P.literal text t).toOption = F.literal text t := by
  simp only [ReaderP.literal, ReaderFull.literal, to_bind, to_orPanic, to_orErr]
  cases h1 : strOf text t with
  | none => simp
  | some s => cases h2 : unescape s <;> simp [h2]

theorem numberOf_agree (text : Str) (t : Tree) : (P.numberOf text t).toOption = F.numberOf text t := by
  simp only [ReaderP.numberOf, ReaderFull.numberOf, to_bind, to_orPanic, to_orErr]
  cases h1 : strOf text t <;> simp

theorem integerOf_agree (text : Str) (t : Tree) : (P.integerOf text t).toOption = F.integerOf text t := by
  simp only [ReaderP.integerOf, ReaderFull.integerOf, to_bind, to_orPanic, to_orErr]
  cases h1 : strOf text t <;> simp

theorem getNodeTag_agree (text : Str) (ps : List Tree) : (P.getNodeTag text ps).toOption = F.getNodeTag text ps := by
  cases ps with
  | nil => rfl
  | cons p rest =>
    cases rest with
    | nil => rfl
    | cons q rest1 =>
      simp only [ReaderP.getNodeTag, ReaderFull.getNodeTag]
      by_cases hq : kind q = "assignment_operator"
      · simp only [hq, if_true]
        cases rest1 with
        | nil => rfl
        | cons r rest2 =>
          simp only [to_bind, to_orPanic]
          cases h1 : strOf text p with
          | none => simp
          | some s => cases h2 : dropFirstByte s <;> simp [h2]
      · simp only [hq, if_false]; rfl

theorem tail_agree (text : Str) (a : Int) (more : List Tree) :
    (match more with
      | pe :: rest' =>
        if kind pe = "closing_brack" then R3.ok (Expr.peekSlice a none)
        else if kind pe = "integer" then
          match rest' with
          | _ :: _ => (P.integerOf text pe).map fun b => Expr.peekSlice a (some b)
          | [] => R3.panic
        else R3.panic
      | [] => R3.panic).toOption =
    (match more with
      | pe :: rest' =>
        if kind pe = "closing_brack" then some (Expr.peekSlice a none)
        else if kind pe = "integer" then
          match rest' with
          | _ :: _ => (F.integerOf text pe).map fun b => Expr.peekSlice a (some b)
          | [] => none
        else none
      | [] => none) := by
  cases more with
  | nil => rfl
  | cons pe rest' =>
    simp only []
    by_cases h1 : kind pe = "closing_brack"
    · simp [h1]
    · simp only [h1, if_false]
      by_cases h2 : kind pe = "integer"
      · simp only [h2, if_true]
        cases rest' with
        | nil => rfl
        | cons y ys => simp only [to_map, integerOf_agree]
      · simp [h2]


theorem peekSlice_agree (text : Str) (cs : List Tree) : (P.peekSlice text cs).toOption = F.peekSlice text cs := by
  cases cs with
  | nil => rfl
  | cons x r1 =>
    cases r1 with
    | nil => rfl
    | cons ps rest =>
      simp only [ReaderP.peekSlice, ReaderFull.peekSlice, to_bind]
      by_cases h1 : kind ps = "range_operator"
      · simp only [h1, if_true, to_ok, Option.bind_some]
        cases rest with
        | nil => rfl
        | cons pe rest' => exact tail_agree text 0 (pe :: rest')
      · simp only [h1, if_false]
        by_cases h2 : kind ps = "integer"
        · simp only [h2, if_true]
          cases rest with
          | nil => rfl
          | cons r0 more =>
            simp only [to_map, integerOf_agree]
            cases hi : ReaderFull.integerOf text ps with
            | none => rfl
            | some a =>
              simp only [Option.map_some, Option.bind_some]
              cases more with
              | nil => rfl
              | cons pe rest' => exact tail_agree text a (pe :: rest')
        · simp only [h2, if_false]; rfl

theorem leafNode_agree (extras : Bool) (text : Str) (t : Tree) : (P.leafNode extras text t).toOption = F.leafNode extras text t := by
  simp only [ReaderP.leafNode, ReaderFull.leafNode]
  by_cases h1 : kind t = "_push_literal"
  · simp only [h1, if_true]
    cases extras
    · rfl
    · simp only [if_true]
      cases hc : t.children with
      | nil => rfl
      | cons a r => cases r with
        | nil => rfl
        | cons c r' => simp only [to_map, literal_agree]
  · simp only [h1, if_false]
    by_cases h2 : kind t = "peek_slice"
    · simp only [h2, if_true]; exact peekSlice_agree text _
    · simp only [h2, if_false]
      by_cases h3 : kind t = "identifier"
      · simp only [h3, if_true, to_map, to_orPanic]
      · simp only [h3, if_false]
        by_cases h4 : kind t = "string"
        · simp only [h4, if_true, to_map, literal_agree]
        · simp only [h4, if_false]
          by_cases h5 : kind t = "insensitive_string"
          · simp only [h5, if_true]
            cases hc : t.children with
            | nil => rfl
            | cons l r => simp only [to_map, literal_agree]
          · simp only [h5, if_false]
            by_cases h6 : kind t = "range"
            · simp only [h6, if_true]
              cases hc : t.children with
              | nil => rfl
              | cons a r => cases r with
                | nil => rfl
                | cons o r' => cases r' with
                  | nil => rfl
                  | cons b r'' =>
                    simp only [to_bind, literal_agree, to_orErr]
                    cases hx : ReaderFull.literal text a with
                    | none => rfl
                    | some x =>
                      cases hy : ReaderFull.literal text b with
                      | none => rfl
                      | some y => cases hcx : theChar x <;> cases hcy : theChar y <;> simp [hcx, hcy]
            · simp only [h6, if_false]; rfl


theorem postfixOp_agree (text : Str) (n : Expr) (p : Tree) : (P.postfixOp text n p).toOption = F.postfixOp text n p := by
  simp only [ReaderP.postfixOp, ReaderFull.postfixOp]
  by_cases h1 : kind p = "optional_operator"
  · simp [h1]
  · simp only [h1, if_false]
    by_cases h2 : kind p = "repeat_operator"
    · simp [h2]
    · simp only [h2, if_false]
      by_cases h3 : kind p = "repeat_once_operator"
      · simp [h3]
      · simp only [h3, if_false]
        by_cases h4 : kind p = "repeat_exact"
        · simp only [h4, if_true]
          cases hc : p.children with
          | nil => rfl
          | cons a r => cases r with
            | nil => rfl
            | cons x r' =>
              simp only [to_bind, numberOf_agree]
              cases hn : ReaderFull.numberOf text x with
              | none => rfl
              | some num => by_cases hz : num = 0 <;> simp [hz]
        · simp only [h4, if_false]
          by_cases h5 : kind p = "repeat_min"
          · simp only [h5, if_true]
            cases hc : p.children with
            | nil => rfl
            | cons a r => cases r with
              | nil => rfl
              | cons x r' => simp only [to_map, numberOf_agree]
          · simp only [h5, if_false]
            by_cases h6 : kind p = "repeat_max"
            · simp only [h6, if_true]
              cases hc : p.children with
              | nil => rfl
              | cons a r => cases r with
                | nil => rfl
                | cons b r' => cases r' with
                  | nil => rfl
                  | cons x r'' =>
                    simp only [to_bind, numberOf_agree]
                    cases hn : ReaderFull.numberOf text x with
                    | none => rfl
                    | some num => by_cases hz : num = 0 <;> simp [hz]
            · simp only [h6, if_false]
              by_cases h7 : kind p = "repeat_min_max"
              · simp only [h7, if_true]
                cases hc : p.children with
                | nil => rfl
                | cons a r => cases r with
                  | nil => rfl
                  | cons x r' => cases r' with
                    | nil => rfl
                    | cons c r'' => cases r'' with
                      | nil => rfl
                      | cons y r3 =>
                        simp only [to_bind, numberOf_agree]
                        cases hx : ReaderFull.numberOf text x with
                        | none => rfl
                        | some mn =>
                          cases hy : ReaderFull.numberOf text y with
                          | none => rfl
                          | some mx => by_cases hz : mx = 0 <;> simp [hz]
              · simp only [h7, if_false]
                by_cases h8 : kind p = "closing_paren" <;> simp [h8]

theorem postfixes_agree (text : Str) : ∀ (ps : List Tree) (n : Expr), (P.postfixes text n ps).toOption = F.postfixes text n ps
  | [], n => rfl
  | p :: ps, n => by
    simp only [ReaderP.postfixes, ReaderFull.postfixes, List.foldlM_cons, to_bind, postfixOp_agree]
    cases h : ReaderFull.postfixOp text n p with
    | none => rfl
    | some n' =>
      simp only [Option.bind_some, Option.bind_eq_bind]
      have := postfixes_agree text ps n'
      simpa [ReaderFull.postfixes] using this

theorem build_agree (prims : List (R3 Expr)) : ∀ b : Bin, (P.build prims b).toOption = F.build (prims.map R3.toOption) b
  | .leaf i => by
    simp only [ReaderP.build, ReaderFull.build, List.getElem?_map]
    cases prims[i]? <;> rfl
  | .seq a b => by
    simp only [ReaderP.build, ReaderFull.build, to_bind, build_agree prims a, build_agree prims b]
    cases F.build (prims.map R3.toOption) a <;> cases F.build (prims.map R3.toOption) b <;> rfl
  | .alt a b => by
    simp only [ReaderP.build, ReaderFull.build, to_bind, build_agree prims a, build_agree prims b]
    cases F.build (prims.map R3.toOption) a <;> cases F.build (prims.map R3.toOption) b <;> rfl


/-! ### the recursive part: agreement wherever the three-valued model does not panic -/

/-- `x` agrees with `o` unless `x` is a panic. -/
def Ag {α : Type} (x : R3 α) (o : Option α) : Prop := x ≠ .panic → x.toOption = o

theorem ag_of_eq {α : Type} {x : R3 α} {o : Option α} (h : x.toOption = o) : Ag x o := fun _ => h

theorem ag_bind {α β : Type} {x : R3 α} {o : Option α} {f : α → R3 β} {g : α → Option β}
    (hx : Ag x o) (hf : ∀ a, x = .ok a → Ag (f a) (g a)) : Ag (x.bind f) (o.bind g) := by
  intro hnp
  cases x with
  | ok a =>
    have := hx (by simp)
    simp only [to_ok] at this
    subst this
    exact hf a rfl hnp
  | err =>
    have := hx (by simp)
    simp only [to_err] at this
    subst this
    rfl
  | panic => exact absurd rfl hnp

theorem ag_map {α β : Type} {x : R3 α} {o : Option α} (f : α → β) (hx : Ag x o) : Ag (x.map f) (o.map f) := by
  have := ag_bind (f := fun a => R3.ok (f a)) (g := fun a => some (f a)) hx (fun a _ => ag_of_eq rfl)
  intro hnp
  have h := this hnp
  rw [show x.map f = x.bind fun a => R3.ok (f a) from rfl, h]
  cases o <;> rfl

theorem anyPanic_false_mem : ∀ (prims : List (R3 Expr)), P.anyPanic prims = false → ∀ r ∈ prims, r ≠ .panic
  | [], _, r, hr => by simp at hr
  | .ok a :: rest, h, r, hr => by
    rcases List.mem_cons.1 hr with rfl | hr
    · simp
    · exact anyPanic_false_mem rest (by simpa [ReaderP.anyPanic] using h) r hr
  | .err :: rest, h, r, hr => by
    rcases List.mem_cons.1 hr with rfl | hr
    · simp
    · exact anyPanic_false_mem rest (by simpa [ReaderP.anyPanic] using h) r hr
  | .panic :: rest, h, _, _ => by simp [ReaderP.anyPanic] at h

theorem infixStage_ag (ps : List Tree) (primsP : List (R3 Expr)) (primsF : List (Option Expr))
    (h : (∀ r ∈ primsP, r ≠ .panic) → primsP.map R3.toOption = primsF) :
    Ag (P.infixStage ps primsP) (F.infixStage ps primsF) := by
  intro hnp
  simp only [ReaderP.infixStage, ReaderFull.infixStage] at hnp ⊢
  cases hp : Pratt.parse readerTable (tokens ps 0) with
  | ok tr =>
    obtain ⟨t, rest⟩ := tr
    simp only [hp] at hnp ⊢
    cases ho : ofTree t with
    | none => rfl
    | some b =>
      simp only [ho] at hnp ⊢
      cases ha : P.anyPanic primsP with
      | true => simp [ha] at hnp
      | false =>
        simp only [ha] at hnp ⊢
        rw [← h (anyPanic_false_mem primsP ha)]
        simpa using build_agree primsP b
  | _ => simp

theorem wrapTag_ag (extras : Bool) {x : R3 Expr} {o : Option Expr} (tag : Option Str) (h : Ag x o) :
    Ag (P.wrapTag extras x tag) (F.wrapTag extras o tag) := by
  intro hnp
  cases tag with
  | none =>
    simp only [ReaderP.wrapTag] at hnp ⊢
    rw [h hnp]
    cases o <;> rfl
  | some t =>
    cases extras
    · simp only [ReaderP.wrapTag, Bool.false_eq_true, if_false] at hnp ⊢
      rw [h hnp]
      cases o <;> rfl
    · simp only [ReaderP.wrapTag, if_true] at hnp ⊢
      have hx : x ≠ .panic := by
        intro e; rw [e] at hnp; exact hnp rfl
      rw [to_map, h hx]
      cases o <;> rfl


theorem nodeOf_ag (extras : Bool) (text : Str) {ceP unP : List Tree → R3 Expr} {ceF unF : List Tree → Option Expr}
    (hce : ∀ ps, Ag (ceP ps) (ceF ps)) (hun : ∀ ps, Ag (unP ps) (unF ps)) (pair : Tree) (rest : List Tree) :
    Ag (P.nodeOf extras text ceP unP pair rest) (F.nodeOf extras text ceF unF pair rest) := by
  simp only [ReaderP.nodeOf, ReaderFull.nodeOf]
  by_cases h1 : kind pair = "opening_paren"
  · simp only [h1, if_true]; exact hun rest
  · simp only [h1, if_false]
    by_cases h2 : kind pair = "positive_predicate_operator"
    · simp only [h2, if_true]; exact ag_map _ (hun rest)
    · simp only [h2, if_false]
      by_cases h3 : kind pair = "negative_predicate_operator"
      · simp only [h3, if_true]; exact ag_map _ (hun rest)
      · simp only [h3, if_false]
        have inner : Ag (if kind pair = "expression" then ceP pair.children
              else if kind pair = "_push" then
                match pair.children with
                | _ :: e :: _ => (ceP e.children).map Expr.push
                | _ => R3.panic
              else P.leafNode extras text pair)
            (if kind pair = "expression" then ceF pair.children
              else if kind pair = "_push" then
                match pair.children with
                | _ :: e :: _ => (ceF e.children).map Expr.push
                | _ => none
              else F.leafNode extras text pair) := by
          by_cases h4 : kind pair = "expression"
          · simp only [h4, if_true]; exact hce _
          · simp only [h4, if_false]
            by_cases h5 : kind pair = "_push"
            · simp only [h5, if_true]
              cases hc : pair.children with
              | nil => exact ag_of_eq rfl
              | cons a r => cases r with
                | nil => exact ag_of_eq rfl
                | cons e r' => exact ag_map _ (hce _)
            · simp only [h5, if_false]; exact ag_of_eq (leafNode_agree extras text pair)
        have key : ∀ (xP : R3 Expr) (xF : Option Expr), Ag xP xF →
            Ag (xP.bind fun n => P.postfixes text n rest) (match xF with | some n => F.postfixes text n rest | none => none) := by
          intro xP xF hx hnp
          have := ag_bind (f := fun n => P.postfixes text n rest) (g := fun n => F.postfixes text n rest) hx
            (fun n _ => ag_of_eq (postfixes_agree text rest n)) hnp
          rw [this]
          cases xF <;> rfl
        exact key _ _ inner

theorem unariesStep_ag (extras : Bool) (text : Str) {ceP unP : List Tree → R3 Expr} {ceF unF : List Tree → Option Expr}
    (hce : ∀ ps, Ag (ceP ps) (ceF ps)) (hun : ∀ ps, Ag (unP ps) (unF ps)) (pairs : List Tree) :
    Ag (P.unariesStep extras text ceP unP pairs) (F.unariesStep extras text ceF unF pairs) := by
  simp only [ReaderP.unariesStep, ReaderFull.unariesStep]
  have hg := getNodeTag_agree text pairs
  intro hnp
  cases hP : P.getNodeTag text pairs with
  | ok v =>
    obtain ⟨pair, rest, tag⟩ := v
    rw [hP] at hg hnp
    simp only [to_ok] at hg
    rw [← hg]
    simp only [R3.bind] at hnp ⊢
    exact wrapTag_ag extras tag (nodeOf_ag extras text hce hun pair rest) hnp
  | err => rw [hP] at hg; simp only [to_err] at hg; rw [← hg]; rfl
  | panic => rw [hP] at hnp; exact absurd rfl hnp

theorem consumeExprStep_ag {unP : List Tree → R3 Expr} {unF : List Tree → Option Expr}
    (hun : ∀ ps, Ag (unP ps) (unF ps)) (pairs : List Tree) :
    Ag (P.consumeExprStep unP pairs) (F.consumeExprStep unF pairs) := by
  simp only [ReaderP.consumeExprStep, ReaderFull.consumeExprStep]
  apply infixStage_ag
  intro hall
  rw [List.map_map]
  apply List.map_congr_left
  intro p hp
  exact hun _ (hall _ (List.mem_map.2 ⟨p, hp, rfl⟩))

theorem rec_ag (extras : Bool) (text : Str) : ∀ f : Nat,
    (∀ ps, Ag (P.consumeExpr extras text f ps) (F.consumeExpr extras text f ps)) ∧
    (∀ ps, Ag (P.unaries extras text f ps) (F.unaries extras text f ps))
  | 0 => ⟨fun _ h => absurd rfl h, fun _ h => absurd rfl h⟩
  | f + 1 => by
    obtain ⟨ih1, ih2⟩ := rec_ag extras text f
    exact ⟨fun ps => consumeExprStep_ag ih2 ps, fun ps => unariesStep_ag extras text ih1 ih2 ps⟩


theorem ruleParts_agree (text : Str) (t : Tree) : (P.ruleParts text t).toOption = F.ruleParts text t := by
  simp only [ReaderP.ruleParts, ReaderFull.ruleParts]
  cases hc : t.children with
  | nil => rfl
  | cons id r => cases r with
    | nil => rfl
    | cons asg r' => cases r' with
      | nil => rfl
      | cons m rest =>
        simp only [to_bind]
        by_cases hm : kind m ≠ "opening_brace"
        · rw [if_pos hm, if_pos hm]
          simp only [to_map, to_orPanic]
          cases hmo : modifierOf (kind m) with
          | none => rfl
          | some ty =>
            simp only [Option.map_some, Option.bind_some]
            cases rest with
            | nil => rfl
            | cons ob r2 => cases r2 with
              | nil => rfl
              | cons e r3 =>
                simp only [to_bind, to_orPanic]
                cases hs : strOf text id with
                | none => rfl
                | some name => simp only [Option.bind_some]; cases e.children <;> rfl
        · have hm' : kind m = "opening_brace" := by simpa using hm
          simp [hm']
          cases rest with
          | nil => rfl
          | cons e r3 =>
            simp only [to_bind, to_orPanic]
            cases hs : strOf text id with
            | none => rfl
            | some name => simp only [Option.bind_some]; cases e.children <;> rfl

theorem consumeRule_ag (extras : Bool) (text : Str) (fuel : Nat) (t : Tree) :
    Ag (P.consumeRule extras text fuel t) (F.consumeRule extras text fuel t) := by
  simp only [ReaderP.consumeRule, ReaderFull.consumeRule]
  have hp := ruleParts_agree text t
  intro hnp
  cases hP : P.ruleParts text t with
  | ok v =>
    obtain ⟨name, ty, inner⟩ := v
    rw [hP] at hp hnp
    simp only [to_ok] at hp
    rw [← hp]
    simp only [R3.bind] at hnp ⊢
    exact ag_map _ ((rec_ag extras text fuel).1 _) hnp
  | err => rw [hP] at hp; simp only [to_err] at hp; rw [← hp]; rfl
  | panic => rw [hP] at hnp; exact absurd rfl hnp

theorem consumeRulesGo_ag (extras : Bool) (text : Str) (fuel : Nat) : ∀ ts : List Tree,
    Ag (P.consumeRulesGo extras text fuel ts) (F.consumeRulesGo extras text fuel ts)
  | [] => ag_of_eq rfl
  | t :: ts => by
    have ih := consumeRulesGo_ag extras text fuel ts
    simp only [ReaderP.consumeRulesGo, ReaderFull.consumeRulesGo]
    by_cases hk : kind t = "grammar_rule"
    · simp only [hk, if_true]
      cases hc : t.children with
      | nil => exact ag_of_eq rfl
      | cons c rest =>
        simp only []
        by_cases hl : kind c = "line_doc"
        · simp only [hl, if_true]; exact ih
        · simp only [hl, if_false]
          intro hnp
          have h1 := consumeRule_ag extras text fuel t
          cases hP : P.consumeRule extras text fuel t with
          | ok r =>
            rw [hP] at hnp h1
            have e1 := h1 (by simp)
            simp only [to_ok] at e1
            rw [← e1]
            simp only [R3.bind] at hnp ⊢
            have hrest : P.consumeRulesGo extras text fuel ts ≠ .panic := by
              intro e; rw [e] at hnp; exact hnp rfl
            have e2 := ih hrest
            rw [to_map, e2]
            cases F.consumeRulesGo extras text fuel ts <;> rfl
          | err =>
            rw [hP] at h1
            have e1 := h1 (by simp)
            simp only [to_err] at e1
            rw [← e1]
            simp only [R3.bind, to_err]
          | panic => rw [hP] at hnp; exact absurd rfl hnp
    · simp only [hk, if_false]; exact ih

/-- wherever the three-valued reader does not panic, the two-valued reader returns the same rules (or nothing, for a
located error). -/
theorem consumeRules_ag (extras : Bool) (text : Str) (forest : List Tree) :
    Ag (P.consumeRules extras text forest) (F.consumeRules extras text forest) := by
  simp only [ReaderP.consumeRules, ReaderFull.consumeRules, ReaderP.consumeRulesWithSpans, ReaderFull.consumeRulesWithSpans]
  have h := consumeRulesGo_ag extras text (PestModel.Views.sizeList forest + 1) forest
  intro hnp
  cases hP : P.consumeRulesGo extras text (PestModel.Views.sizeList forest + 1) forest with
  | ok rules =>
    rw [hP] at h hnp
    have e := h (by simp)
    simp only [to_ok] at e
    rw [← e]
    simp only [R3.bind]
    split <;> simp_all
  | err =>
    rw [hP] at h
    have e := h (by simp)
    simp only [to_err] at e
    rw [← e]; rfl
  | panic => rw [hP] at hnp; exact absurd rfl hnp

end PestModel.ReaderAgree
