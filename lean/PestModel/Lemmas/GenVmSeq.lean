import PestModel.Lemmas.GenVmChain
/-! C02, part 6: a `sequence` in the last position of a `sequence` can be dissolved. -/
namespace PestModel.GenVm
open PestModel.PS PestModel.Stack
open PestModel.LineCol (Str isBoundary slice?)
open PestModel.VmRef (run_mono)

theorem OEq0F.trans {o1 o2 o3 : Out} (h1 : OEq0F o1 o2) (h2 : OEq0F o2 o3) : OEq0F o1 o3 :=
  ORel.trans (R := SEq0) (fun _ _ _ a b => SEq0.trans a b) h1 h2

theorem OEq0F.symm {o1 o2 : Out} (h : OEq0F o1 o2) : OEq0F o2 o1 :=
  ORel.symm (R := SEq0) (fun _ _ a => SEq0.symm a) h

theorem seqErrState_queue {s ns : PState} (h : QLe s.queue ns.queue) : (seqErrState s ns).queue = s.queue :=
  setLastTag_restore h

/-- **Dissolving a nested `sequence`**: finishing an inner `sequence` (started at `u`) and then the outer
one (started at `s`) is the same as finishing only the outer one. `o'` is the outcome of the body run from
`checkpoint u`, `o''` the outcome of the same body run from `u`. -/
theorem seqK_seqK {s u : PState} {o' o'' : Out} (hs : Good s) (hu : Good u) (r : Rel (checkpoint s) u)
    (ho : OEqF o' o'')
    (r' : ∀ x, o'.state? = some x → Rel (checkpoint u) x) (r'' : ∀ x, o''.state? = some x → Rel u x) :
    OEq0F (seqK s (seqK u o')) (seqK s o'') := by
  cases o' <;> cases o'' <;> try exact False.elim ho
  · -- ok
    rename_i n' n''
    have hn : SEq n' n'' := ho
    obtain ⟨c1, h1, e1, i1, -⟩ := checkpointOk_good hn.g1.wf.2
    obtain ⟨c2, h2, e2, -⟩ := checkpointOk_good (ns := ws c1 n') i1
    obtain ⟨c3, h3, e3, -⟩ := checkpointOk_good hn.g2.wf.2
    obtain ⟨b, rfl, hb⟩ := hn.core.exists
    show OEq0F (seqK s (match checkpointOk n' with | some ns => Out.ok ns | none => .panic))
      (match checkpointOk (ws b n') with | some ns => Out.ok ns | none => .panic)
    rw [h1, h3]
    show OEq0F (match checkpointOk (ws c1 n') with | some ns => Out.ok ns | none => .panic) _
    rw [h2]
    exact ⟨rfl, by rw [ws_stack, ws_stack, e2, e3, ws_stack, e1]; exact hb⟩
  · -- err
    rename_i n' n''
    have hn : SEq n' n'' := ho
    have rn' := r' n' rfl
    have rn'' := r'' n'' rfl
    -- inner restore
    obtain ⟨i', cs', f'⟩ := rel_checkpoint_saved hu rn'
    have f'2 : cs' = (abs u.stack).saved := by
      have := (rn'.stk (good_checkpoint hu).wf.2).2
      rw [checkpoint_saved hu, f'] at this
      exact (List.cons.inj this).2
    subst f'2
    obtain ⟨r1, h1, e1, i1, sv1⟩ := restoreStack_top (ns := seqErrState u n') i' f'
    -- frames of `u`
    obtain ⟨iu, csu, fu⟩ := rel_checkpoint_saved hs r
    obtain ⟨r2, h2, e2, -⟩ := restoreStack_top (ns := seqErrState s (ws r1 (seqErrState u n')))
      (c := s.stack.cache) (cs := csu) i1 (sv1.trans fu)
    have fn'' : (abs n''.stack).saved = s.stack.cache :: csu := ((rn''.stk hu.wf.2).2).trans fu
    obtain ⟨r3, h3, e3, -⟩ := restoreStack_top (ns := seqErrState s n'') (rn''.stk hu.wf.2).1 fn''
    obtain ⟨b, rfl, hb⟩ := hn.core.exists
    -- queues
    have q1 : (seqErrState u n').queue = u.queue := seqErrState_queue rn'.q
    have qsu : QLe s.queue u.queue := r.q
    have q2 : (seqErrState s (ws r1 (seqErrState u n'))).queue = s.queue := by
      apply seqErrState_queue
      show QLe s.queue (seqErrState u n').queue
      rw [q1]; exact qsu
    have q3 : (seqErrState s (ws b n')).queue = s.queue := seqErrState_queue (qsu.trans rn''.q)
    show OEq0F (seqK s (match restoreStack (seqErrState u n') with | some ns => Out.err ns | none => .panic))
      (match restoreStack (seqErrState s (ws b n')) with | some ns => Out.err ns | none => .panic)
    rw [h1, h3]
    show OEq0F (match restoreStack (seqErrState s (ws r1 (seqErrState u n'))) with
      | some ns => Out.err ns | none => .panic) _
    rw [h2]
    refine ⟨?_, by rw [ws_stack, ws_stack, e2, e3]⟩
    have k1 : seqErrState s (ws r1 (seqErrState u n')) =
        { ws r1 n' with pos := s.pos, queue := (seqErrState s (ws r1 (seqErrState u n'))).queue } := rfl
    have k3 : seqErrState s (ws b n') = { ws b n' with pos := s.pos, queue := (seqErrState s (ws b n')).queue } := rfl
    rw [k1, k3, q2, q3]
    rfl
  · trivial
  · trivial

variable {A B : Cfg} {n : Nat}

/-- VM shape to generator shape. -/
theorem flatten_VG {PV VB P0 X' X : Prog} (h1 : Sim A B n PV P0) (h2 : Sim A B n VB (.sequence X))
    (hp : Prefix B P0 X' X) : Sim A B n (.sequence (.andThen PV VB)) (.sequence X') := by
  intro k hk s1 s2 hs hne
  cases k with
  | zero => rw [run_zero] at hne; exact absurd rfl hne
  | succ k =>
    have g1 := fun x (hx : (run A (k+1) (.sequence (.andThen PV VB)) s1).state? = some x) => good_run hs.g1 hx
    rw [run_sequence_K, bracket_good hs.g1] at hne g1 ⊢
    have hc := seq_checkpoint hs
    have hne' : run A k (.andThen PV VB) (checkpoint s1) ≠ .fuel := by
      intro hf; rw [hf] at hne; exact hne rfl
    have hB := fun f s => run_sequence_K B f X' s
    cases k with
    | zero => rw [run_zero] at hne'; exact absurd rfl hne'
    | succ k =>
      rw [run_andThen] at hne' g1 ⊢
      cases e1 : run A k PV (checkpoint s1) with
      | fuel => rw [e1] at hne'; exact absurd rfl hne'
      | err t1 =>
        rw [e1] at g1
        obtain ⟨o2, ev, oe⟩ := h1 k (by omega) _ _ hc (by rw [e1]; simp)
        rw [e1] at oe
        have ev2 := ev_bracket hB seqK_ok hs.g2 (hp.intro_stop _ _ ev (oe.not_ok (by simp)))
        exact ⟨_, ev2, oeq_K seqK_ok seqK_frame hs oe (fun _ hx => by
          simp only [Out.state?, Option.some.injEq] at hx; subst hx; exact run_err_rel e1)
          (fun _ hx => ev.rel hx) g1 (fun _ hx => ev2.good hs.g2 hx)⟩
      | panic =>
        rw [e1] at g1
        obtain ⟨o2, ev, oe⟩ := h1 k (by omega) _ _ hc (by rw [e1]; simp)
        rw [e1] at oe
        have ev2 := ev_bracket hB seqK_ok hs.g2 (hp.intro_stop _ _ ev (oe.not_ok (by simp)))
        exact ⟨_, ev2, oeq_K seqK_ok seqK_frame hs oe (fun _ hx => by simp [Out.state?] at hx)
          (fun _ hx => ev.rel hx) g1 (fun _ hx => ev2.good hs.g2 hx)⟩
      | ok t1 =>
        rw [e1] at hne' g1
        dsimp only at hne' g1 ⊢
        obtain ⟨o2, ev, oe⟩ := h1 k (by omega) _ _ hc (by rw [e1]; simp)
        rw [e1] at oe
        obtain ⟨t2, rfl, ht⟩ := oe.ok_inv
        -- the tail
        obtain ⟨o2', evb, oeb⟩ := h2 k (by omega) t1 t2 ht hne'
        obtain ⟨o', evx, rfl⟩ := ev_bracket_inv (fun f s => run_sequence_K B f X s) seqK_ok ht.g2 evb
        obtain ⟨m, em, nem⟩ := evx
        have hfr := run_frame B m X (checkpoint t2) t2 (seq_checkpoint_left ht.g2)
        rw [em] at hfr
        have evx' : Ev B X t2 (run B m X t2) := Ev.of_run (hfr.ne_fuel nem)
        have ev2 := ev_bracket hB seqK_ok hs.g2 (hp.intro_ok _ _ _ ev evx')
        refine ⟨_, ev2, ORel.upgrade ?_ g1 (fun _ hx => ev2.good hs.g2 hx), seqK_ok.ne_fuel _ _ hne'⟩
        have rt2 : Rel (checkpoint s2) t2 := ev.rel_ok
        have step1 : OEq0F (seqK s1 (run A k VB t1)) (seqK s2 (seqK t2 o')) :=
          frame_K seqK_ok seqK_frame hs oeb.1
            (fun _ hx => (run_ok_rel e1).trans (rel_of_state hx))
            (fun _ hx => rt2.trans (evb.rel hx))
        have step2 : OEq0F (seqK s2 (seqK t2 o')) (seqK s2 (run B m X t2)) :=
          seqK_seqK hs.g2 ht.g2 rt2 hfr
            (fun _ hx => by rw [← em] at hx; exact rel_of_state hx) (fun _ hx => rel_of_state hx)
        exact step1.trans step2

/-- generator shape to VM shape. -/
theorem flatten_GV {PV VB P0 X' X : Prog} (h1 : Sim A B n P0 PV) (h2 : Sim A B n (.sequence X) VB)
    (hp : Prefix A P0 X' X) : Sim A B n (.sequence X') (.sequence (.andThen PV VB)) := by
  intro k hk s1 s2 hs hne
  cases k with
  | zero => rw [run_zero] at hne; exact absurd rfl hne
  | succ k =>
    have g1 := fun x (hx : (run A (k+1) (.sequence X') s1).state? = some x) => good_run hs.g1 hx
    rw [run_sequence_K, bracket_good hs.g1] at hne g1 ⊢
    have hc := seq_checkpoint hs
    have hne' : run A k X' (checkpoint s1) ≠ .fuel := by
      intro hf; rw [hf] at hne; exact hne rfl
    have hB := fun f s => run_sequence_K B f (.andThen PV VB) s
    rcases hp.elim k _ hne' with ⟨t1, F1, hF1, e1, e2⟩ | ⟨F1, hF1, e1, e2⟩
    · obtain ⟨o2, ev, oe⟩ := h1 F1 (by omega) _ _ hc (by rw [e1]; simp)
      rw [e1] at oe
      obtain ⟨t2, rfl, ht⟩ := oe.ok_inv
      have rt1 : Rel (checkpoint s1) t1 := run_ok_rel e1
      -- a run of `sequence X` from `t1`
      have hfr := run_frame A k X (checkpoint t1) t1 (seq_checkpoint_left ht.g1)
      rw [e2] at hfr
      have nex : run A k X (checkpoint t1) ≠ .fuel := hfr.ne_fuel' hne'
      have erun : run A (k+1) (.sequence X) t1 = seqK t1 (run A k X (checkpoint t1)) := by
        rw [run_sequence_K, bracket_good ht.g1]
      obtain ⟨o2', evb, oeb⟩ := h2 (k+1) hk t1 t2 ht (by rw [erun]; exact seqK_ok.ne_fuel _ _ nex)
      have ev2 := ev_bracket hB seqK_ok hs.g2 (ev_andThen_ok ev evb)
      refine ⟨_, ev2, ORel.upgrade ?_ g1 (fun _ hx => ev2.good hs.g2 hx), seqK_ok.ne_fuel _ _ hne'⟩
      rw [erun] at oeb
      have step1 : OEq0F (seqK s1 (seqK t1 (run A k X (checkpoint t1)))) (seqK s1 (run A k X' (checkpoint s1))) :=
        seqK_seqK hs.g1 ht.g1 rt1 hfr (fun _ hx => rel_of_state hx)
          (fun _ hx => by rw [← e2] at hx; exact rel_of_state hx)
      have step2 : OEq0F (seqK s1 (seqK t1 (run A k X (checkpoint t1)))) (seqK s2 o2') :=
        frame_K seqK_ok seqK_frame hs oeb.1
          (fun _ hx => by rw [← erun] at hx; exact rt1.trans (rel_of_state hx))
          (fun _ hx => ev.rel_ok.trans (evb.rel hx))
      exact step1.symm.trans step2
    · obtain ⟨o2, ev, oe⟩ := h1 F1 (by omega) _ _ hc (by rw [e1]; exact hne')
      rw [e1] at oe
      have ev2 := ev_bracket hB seqK_ok hs.g2 (ev_andThen_stop (q := VB) ev (oe.not_ok e2))
      exact ⟨_, ev2, oeq_K seqK_ok seqK_frame hs oe (fun _ hx => rel_of_state hx)
        (fun _ hx => ev.rel hx) g1 (fun _ hx => ev2.good hs.g2 hx)⟩

end PestModel.GenVm
