import PestModel.Lemmas.JsonPrim
/-!
C18 helper lemmas, part 3: numbers. `number` of the grammar (atomic) = RFC 8259 `number`.
-/
namespace PestModel.Json
open PestModel.Ref PestModel.G
open PestModel.LineCol (Str cLen bLen)
open PestModel.PS (Atomicity CharSet restAt restAt_iff restAt_advance)
open PestModel.Views (Tree)

/-- a lexical result: success at a cursor with no pairs, or failure. -/
def toRes (o : Option Cur) (stk : List Str) : Res :=
  match o with
  | some c' => .ok ⟨c'.pos, stk⟩ []
  | none => .fail

@[simp] theorem toRes_some (c : Cur) (stk : List Str) : toRes (some c) stk = .ok ⟨c.pos, stk⟩ [] := rfl
@[simp] theorem toRes_none (stk : List Str) : toRes none stk = .fail := rfl

/-! ### the RFC side, decomposed -/

/-- `1*DIGIT` without fuel. -/
def dig1 (c : Cur) : Option Cur :=
  match c.rest with
  | ch :: cs => if isDigit ch then some (digL cs (c.pos + cLen ch)) else none
  | [] => none

theorem digits1_eq (n : Nat) (c : Cur) (h : c.rest.length < n) : digits1 n c = dig1 c := by
  obtain ⟨rest, p⟩ := c
  cases rest with
  | nil => exact digits1_nil n p
  | cons ch cs => exact digits1_cons n ch cs p (by simp at h; omega)

theorem dig1_reach {c c' : Cur} (h : dig1 c = some c') : Reach c c' := by
  obtain ⟨rest, p⟩ := c
  cases rest with
  | nil => simp [dig1] at h
  | cons ch cs =>
    simp only [dig1] at h
    split at h
    · simp only [Option.some.injEq] at h
      subst h
      exact Reach.trans ⟨[ch], by simp, by simp⟩ (digL_reach _ _)
    · simp at h

def signC (c : Cur) : Cur := match c.rest with | '-' :: _ => c.adv | _ => c

def afterIntN (n : Nat) (c1 : Cur) : Option Cur :=
  match c1.rest with
  | '0' :: _ => some c1.adv
  | ch :: _ => if '1' ≤ ch ∧ ch ≤ '9' then digits1 n c1 else none
  | [] => none

def fracN (n : Nat) (c2 : Cur) : Cur :=
  match c2.rest with
  | '.' :: _ => (match digits1 n c2.adv with | some c' => c' | none => c2)
  | _ => c2

def expN (n : Nat) (c3 : Cur) : Cur :=
  match c3.rest with
  | ch :: _ =>
    if ch = 'e' ∨ ch = 'E' then
      let c' := c3.adv
      let c'' := match c'.rest with | s :: _ => if s = '+' ∨ s = '-' then c'.adv else c' | [] => c'
      (match digits1 n c'' with | some d => d | none => c3)
    else c3
  | [] => c3

theorem number_decomp (c : Cur) : number c =
    match afterIntN (c.rest.length + 1) (signC c) with
    | none => none
    | some c2 =>
      let c4 := expN (c.rest.length + 1) (fracN (c.rest.length + 1) c2)
      some (.node "number" c.pos c4.pos [], c4) := rfl

/-- `int` without fuel. -/
def intO (c1 : Cur) : Option Cur :=
  match c1.rest with
  | '0' :: _ => some c1.adv
  | ch :: _ => if '1' ≤ ch ∧ ch ≤ '9' then dig1 c1 else none
  | [] => none

def esignC (c' : Cur) : Cur :=
  match c'.rest with
  | s :: _ => if s = '+' ∨ s = '-' then c'.adv else c'
  | [] => c'

/-- `exp` without fuel. -/
def expO (c3 : Cur) : Option Cur :=
  match c3.rest with
  | ch :: _ => if ch = 'e' ∨ ch = 'E' then dig1 (esignC c3.adv) else none
  | [] => none

/-- `frac` without fuel. -/
def fracO (c2 : Cur) : Option Cur :=
  match c2.rest with
  | '.' :: _ => dig1 c2.adv
  | _ => none

/-- the end of a number. -/
def numEnd (c : Cur) : Option Cur :=
  match intO (signC c) with
  | none => none
  | some c2 =>
    let c3 := (fracO c2).getD c2
    some ((expO c3).getD c3)

theorem signC_reach (c : Cur) : Reach c (signC c) := by
  unfold signC; split
  · exact Reach.adv c
  · exact Reach.refl c

theorem esignC_reach (c : Cur) : Reach c (esignC c) := by
  unfold esignC; split
  · split
    · exact Reach.adv c
    · exact Reach.refl c
  · exact Reach.refl c

theorem intO_reach {c c' : Cur} (h : intO c = some c') : Reach c c' := by
  unfold intO at h
  split at h
  · simp only [Option.some.injEq] at h; subst h; exact Reach.adv c
  · split at h
    · exact dig1_reach h
    · simp at h
  · simp at h

theorem expO_reach {c c' : Cur} (h : expO c = some c') : Reach c c' := by
  unfold expO at h
  split at h
  · split at h
    · exact Reach.trans (Reach.adv c) (Reach.trans (esignC_reach _) (dig1_reach h))
    · simp at h
  · simp at h

theorem fracO_reach {c c' : Cur} (h : fracO c = some c') : Reach c c' := by
  unfold fracO at h
  split at h
  · exact Reach.trans (Reach.adv c) (dig1_reach h)
  · simp at h

theorem getD_reach {o : Option Cur} {c : Cur} (h : ∀ c', o = some c' → Reach c c') : Reach c (o.getD c) := by
  cases o with
  | none => exact Reach.refl c
  | some c' => exact h c' rfl

theorem afterIntN_eq (n : Nat) (c1 : Cur) (h : c1.rest.length < n) : afterIntN n c1 = intO c1 := by
  unfold afterIntN intO
  rw [digits1_eq n c1 h]

theorem fracN_eq (n : Nat) (c2 : Cur) (h : c2.rest.length < n) : fracN n c2 = (fracO c2).getD c2 := by
  unfold fracN fracO
  split
  · rw [digits1_eq n c2.adv (by have := (Reach.adv c2).len; omega)]
    cases dig1 c2.adv <;> rfl
  · rfl

theorem expN_eq (n : Nat) (c3 : Cur) (h : c3.rest.length < n) : expN n c3 = (expO c3).getD c3 := by
  unfold expN expO
  split
  · split
    · have hr := (Reach.trans (Reach.adv c3) (esignC_reach c3.adv)).len
      have := digits1_eq n (esignC c3.adv) (by omega)
      show (match digits1 n (esignC c3.adv) with | some d => d | none => c3) = (dig1 (esignC c3.adv)).getD c3
      rw [this]
      cases dig1 (esignC c3.adv) <;> rfl
    · rfl
  · rfl

theorem number_eq (c : Cur) : number c =
    match numEnd c with
    | some c4 => some (.node "number" c.pos c4.pos [], c4)
    | none => none := by
  rw [number_decomp, numEnd]
  have h1 := (signC_reach c).len
  rw [afterIntN_eq _ _ (by omega)]
  cases hi : intO (signC c) with
  | none => rfl
  | some c2 =>
    have h2 := (intO_reach hi).len
    simp only []
    rw [fracN_eq _ _ (by omega)]
    have h3 : Reach c2 ((fracO c2).getD c2) := getD_reach (fun _ h => fracO_reach h)
    rw [expN_eq _ _ (by have := h3.len; omega)]

theorem numEnd_reach {c c' : Cur} (h : numEnd c = some c') : Reach c c' := by
  unfold numEnd at h
  cases hi : intO (signC c) with
  | none => simp [hi] at h
  | some c2 =>
    simp only [hi, Option.some.injEq] at h
    subst h
    exact Reach.trans (signC_reach c) (Reach.trans (intO_reach hi)
      (Reach.trans (getD_reach (fun _ h => fracO_reach h)) (getD_reach (fun _ h => expO_reach h))))

/-! ### the grammar side -/

section
variable {input : Str} {uni : String → Option CharSet}

theorem digit_call (m : Atomicity) (la : Bool) (s : St) :
    valCa (jctx input uni) m la "ASCII_DIGIT" s = oneChar (jctx input uni) s isDigit := by
  rw [valCa_unfold, rule_DIGIT]; rfl

theorem nzdigit_call (m : Atomicity) (la : Bool) (s : St) :
    valCa (jctx input uni) m la "ASCII_NONZERO_DIGIT" s =
      oneChar (jctx input uni) s (fun ch => '1' ≤ ch ∧ ch ≤ '9') := by
  rw [valCa_unfold, rule_NZDIGIT]; rfl

theorem digit_loop (la : Bool) (stk : List Str) (rest : Str) (p : Nat) (h : restAt input p = some rest) :
    valL (jctx input uni) .atomic la (.ident "ASCII_DIGIT") ⟨p, stk⟩ [] = .ok ⟨(digL rest p).pos, stk⟩ [] := by
  induction rest generalizing p with
  | nil =>
    have hA : At input ⟨[], p⟩ := h
    rw [valL_atomic, val_ident, digit_call, oneChar_nil hA rfl]
    rfl
  | cons ch cs ih =>
    have hA : At input ⟨ch :: cs, p⟩ := h
    rw [valL_atomic, val_ident, digit_call, oneChar_cons hA rfl]
    simp only [digL]
    by_cases hd : isDigit ch = true
    · simp only [hd, if_true, List.append_nil]
      have h2 : restAt input (p + cLen ch) = some cs := by
        have := hA.adv; rw [adv_cons rfl] at this; exact this
      rw [adv_cons rfl]
      exact ih _ h2
    · simp only [hd]
      rfl

theorem digit_rep {c : Cur} (h : At input c) (la : Bool) (stk : List Str) :
    val (jctx input uni) .atomic la (.rep (.ident "ASCII_DIGIT")) ⟨c.pos, stk⟩ = .ok ⟨(digC c).pos, stk⟩ [] := by
  rw [val_rep, val_ident, digit_call]
  obtain ⟨rest, p⟩ := c
  cases rest with
  | nil => rw [oneChar_nil h rfl]; rfl
  | cons ch cs =>
    rw [oneChar_cons h rfl]
    simp only [digC, digL]
    by_cases hd : isDigit ch = true
    · simp only [hd, if_true]
      rw [adv_cons rfl]
      apply digit_loop
      have := h.adv; rw [adv_cons rfl] at this; exact this
    · simp only [hd]
      rfl

theorem digit_plus {c : Cur} (h : At input c) (la : Bool) (stk : List Str) :
    val (jctx input uni) .atomic la (.repOnce (.ident "ASCII_DIGIT")) ⟨c.pos, stk⟩ = toRes (dig1 c) stk := by
  rw [val_repOnce]
  simp only [jctx_extras, Bool.false_eq_true, if_false]
  rw [val_seq_atomic, val_ident, digit_call]
  obtain ⟨rest, p⟩ := c
  cases rest with
  | nil => rw [oneChar_nil h rfl]; rfl
  | cons ch cs =>
    rw [oneChar_cons h rfl]
    simp only [dig1]
    by_cases hd : isDigit ch = true
    · simp only [hd, if_true]
      rw [digit_rep h.adv, adv_cons rfl]
      rfl
    · simp only [hd]
      rfl

/-- a rule of type `@` called in atomic mode is its body (no node). -/
theorem call_atomic_of {name : String} {id : Nat} {e : Expr}
    (hr : (jctx input uni).rule? name = some (id, ⟨name, .atomic, e⟩))
    (hn : ¬ (name = "WHITESPACE" ∨ name = "COMMENT")) (la : Bool) (s : St) :
    valCa (jctx input uni) .atomic la name s = val (jctx input uni) .atomic la e s := by
  rw [valCa_unfold, hr]
  simp only [bodyMode, emitsFor, hn, if_false]
  cases val (jctx input uni) .atomic la e s <;> simp

theorem int_call {c : Cur} (h : At input c) (la : Bool) (stk : List Str) :
    valCa (jctx input uni) .atomic la "int" ⟨c.pos, stk⟩ = toRes (intO c) stk := by
  rw [call_atomic_of (rule_int input uni) (by decide)]
  simp only [eInt, val_choice, val_str, val_seq_atomic, val_ident, nzdigit_call]
  cases hr : c.rest with
  | nil =>
    rw [lit_nil h hr, oneChar_nil h hr]
    simp [intO, hr]
  | cons ch cs =>
    rw [lit1_cons h hr, oneChar_cons h hr]
    by_cases h0 : ch = '0'
    · subst h0
      simp [intO, hr]
    · simp only [h0, if_false]
      have e : intO c = if '1' ≤ ch ∧ ch ≤ '9' then dig1 c else none := by
        unfold intO
        split
        · rename_i h'; rw [hr] at h'; simp at h'; exact absurd h'.1 h0
        · rename_i h'; rw [hr] at h'; simp at h'; rw [h'.1]
        · rename_i h'; rw [hr] at h'; simp at h'
      rw [e]
      by_cases h19 : '1' ≤ ch ∧ ch ≤ '9'
      · have hd : isDigit ch = true := by
          simp only [isDigit, decide_eq_true_eq]
          exact ⟨Char.le_trans (by decide) h19.1, h19.2⟩
        simp only [h19, and_self, decide_true, if_true]
        rw [digit_rep h.adv]
        simp only [dig1, hr, hd, if_true, digC, adv_cons hr, toRes_some, List.append_nil]
      · simp [h19]

theorem esign_opt {c : Cur} (h : At input c) (la : Bool) (stk : List Str) :
    val (jctx input uni) .atomic la (.opt (.choice (.str ['+']) (.str ['-']))) ⟨c.pos, stk⟩ =
      .ok ⟨(esignC c).pos, stk⟩ [] := by
  simp only [val_opt, val_choice, val_str]
  cases hr : c.rest with
  | nil => simp [lit_nil h hr, esignC, hr]
  | cons ch cs =>
    simp only [lit1_cons h hr]
    by_cases h1 : ch = '+'
    · simp [h1, esignC, hr]
    · by_cases h2 : ch = '-'
      · simp [h2, esignC, hr]
      · simp [h1, h2, esignC, hr]

theorem exp_call {c : Cur} (h : At input c) (la : Bool) (stk : List Str) :
    valCa (jctx input uni) .atomic la "exp" ⟨c.pos, stk⟩ = toRes (expO c) stk := by
  rw [call_atomic_of (rule_exp input uni) (by decide)]
  simp only [eExp, val_seq_atomic, val_choice, val_str]
  cases hr : c.rest with
  | nil => simp [lit_nil h hr, expO, hr]
  | cons ch cs =>
    simp only [lit1_cons h hr]
    by_cases h1 : ch = 'E'
    · simp only [h1, if_true]
      rw [esign_opt h.adv]
      simp only []
      rw [digit_plus (h.adv.reach (esignC_reach _))]
      simp only [expO, hr, h1, or_true, if_true, List.append_nil]
      cases dig1 (esignC c.adv) <;> rfl
    · by_cases h2 : ch = 'e'
      · simp only [h2, if_true]
        have : ¬ ('e' = 'E') := by decide
        simp only [this, if_false]
        rw [esign_opt h.adv]
        simp only []
        rw [digit_plus (h.adv.reach (esignC_reach _))]
        simp only [expO, hr, h2, true_or, if_true, List.append_nil]
        cases dig1 (esignC c.adv) <;> rfl
      · simp [h1, h2, expO, hr]

theorem sign_opt {c : Cur} (h : At input c) (la : Bool) (stk : List Str) :
    val (jctx input uni) .atomic la (.opt (.str ['-'])) ⟨c.pos, stk⟩ = .ok ⟨(signC c).pos, stk⟩ [] := by
  simp only [val_opt, val_str]
  cases hr : c.rest with
  | nil => rw [lit_nil h hr]; simp [signC, hr]
  | cons ch cs =>
    rw [lit1_cons h hr]
    by_cases h1 : ch = '-'
    · simp [h1, signC, hr]
    · have : signC c = c := by
        unfold signC; split
        · rename_i h'; rw [hr] at h'; simp at h'; exact absurd h'.1 h1
        · rfl
      simp [h1, this]

theorem frac_val {c : Cur} (h : At input c) (la : Bool) (stk : List Str) :
    val (jctx input uni) .atomic la eFrac ⟨c.pos, stk⟩ =
      match fracO c with
      | some c3 => .ok ⟨((expO c3).getD c3).pos, stk⟩ []
      | none => .fail := by
  simp only [eFrac, val_seq_atomic, val_str, val_opt, val_ident]
  cases hr : c.rest with
  | nil => rw [lit_nil h hr]; simp [fracO, hr]
  | cons ch cs =>
    rw [lit1_cons h hr]
    by_cases h1 : ch = '.'
    · simp only [h1, if_true]
      rw [digit_plus h.adv]
      have e : fracO c = dig1 c.adv := by simp [fracO, hr, h1]
      rw [e]
      cases hd : dig1 c.adv with
      | none => rfl
      | some c3 =>
        simp only [toRes_some]
        rw [exp_call (h.adv.reach (dig1_reach hd))]
        cases expO c3 <;> rfl
    · have e : fracO c = none := by
        unfold fracO; split
        · rename_i h'; rw [hr] at h'; simp at h'; exact absurd h'.1 h1
        · rfl
      simp [h1, e]

theorem number_body {c : Cur} (h : At input c) (la : Bool) (stk : List Str) :
    val (jctx input uni) .atomic la eNumber ⟨c.pos, stk⟩ = toRes (numEnd c) stk := by
  simp only [eNumber, val_seq_atomic]
  rw [sign_opt h]
  simp only [val_ident]
  have h1 := h.reach (signC_reach c)
  rw [int_call h1]
  unfold numEnd
  cases hi : intO (signC c) with
  | none => rfl
  | some c2 =>
    have h2 := h1.reach (intO_reach hi)
    simp only [toRes_some, val_opt, val_choice]
    rw [frac_val h2]
    cases hf : fracO c2 with
    | some c3 => rfl
    | none =>
      simp only [val_ident]
      rw [exp_call h2]
      simp only [Option.getD_none]
      cases expO c2 <;> rfl

/-- **numbers**: the grammar's `number` (called from a non-atomic rule) = RFC 8259 `number`,
with the same leaf. -/
theorem number_call {c : Cur} (h : At input c) (stk : List Str) :
    valCa (jctx input uni) .nonAtomic false "number" ⟨c.pos, stk⟩ =
      match number c with
      | some (t, c') => .ok ⟨c'.pos, stk⟩ [JT t]
      | none => .fail := by
  rw [valCa_unfold, rule_number]
  simp only [bodyMode, emitsFor]
  rw [show (if "number" = "WHITESPACE" ∨ "number" = "COMMENT" then
        (if RuleType.atomic = RuleType.compound then Atomicity.compound else Atomicity.atomic)
      else Atomicity.atomic) = Atomicity.atomic from rfl]
  rw [number_body h, number_eq]
  cases numEnd c with
  | none => rfl
  | some c4 =>
    simp only [toRes_some, JT_node]
    rfl

end
end PestModel.Json
