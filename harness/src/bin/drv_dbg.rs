//! C17: the real debugger threads forced along schedules of the protocol model (hook H4), one case
//! per child process (a deadlock is an observation: the child is killed after a time limit).
//!   gen:    builds cases, asks `pestmodel dbg` for the schedule each bit string resolves to, forces it.
//!   worker: `drv_dbg worker <case-line> <predicted-trace>` runs one case and prints the observation.
use pest_debugger::{DebuggerContext, DebuggerEvent};
use std::collections::BTreeMap;
use std::io::Write;
use std::process::{Command, Stdio};
use std::sync::mpsc::{sync_channel, Receiver, TryRecvError};
use std::sync::{Arc, Condvar, Mutex};
use std::time::{Duration, Instant};
use verif_harness::*;

const GRAMMAR: &str = "r1 = { r2* ~ r3? }\nr2 = { \"a\" }\nr3 = { \"b\" ~ r2 }\nr4 = _{ r1 ~ EOI }\n";
const PESTMODEL: &str = "/verif/lean/.lake/build/bin/pestmodel";
fn rule_no(n: &str) -> u32 { match n { "r1" => 1, "r2" => 2, "r3" => 3, "r4" => 4, "EOI" => 9, _ => 0 } }

struct Sched {
    trace: Vec<String>, cursor: usize, passed: Vec<String>, after: Vec<String>, free: bool,
    busy_parser: bool, busy_ctrl: bool, progress: Instant,
    ctrl_done: bool, ctrl_at: String,
    recv: Vec<String>, rets: Vec<String>, clean: bool, early: bool, reported: bool,
    // model-free bookkeeping for the oracle: the breakpoint set as the controller has left it, and what it was
    // each time the parser thread looked an entry up (run number, entry index, set)
    bps_view: Vec<u32>, run_no: usize, entry_idx: usize, locks: Vec<(usize, usize, Vec<u32>)>,
}
type Shared = Arc<(Mutex<Sched>, Condvar)>;

/// A labelled point. Arriving at a point means the party's previous action is complete; a party is
/// let through when the schedule's next label is its own and the other party's last action is
/// complete. Once the schedule is exhausted (the model says: nothing further is enabled, or
/// everything is done) or the code does not follow it (DIVERGED), the threads run free.
fn turn(sh: &Shared, label: &str) {
    let parser = label.starts_with("parser.");
    let (m, cv) = &**sh;
    let mut g = m.lock().unwrap();
    if parser { g.busy_parser = false } else { g.busy_ctrl = false }
    cv.notify_all();
    if label == "parser.exit" { return; }
    let t0 = Instant::now();
    loop {
        if !g.free && g.cursor >= g.trace.len() { g.free = true; }
        let other_busy = if parser { g.busy_ctrl } else { g.busy_parser };
        let mine = !g.free && g.trace[g.cursor] == label && !other_busy;
        if g.free || mine {
            if mine { g.cursor += 1; }
            // in free mode only the parser's labels are kept: the action it is blocked in, if the model is right
            if mine { g.passed.push(label.to_string()); } else if parser { g.after.push(label.to_string()); }
            if label == "parser.check_done" { g.entry_idx += 1; }
            if label == "parser.lock_bps" { let rec = (g.run_no, g.entry_idx.saturating_sub(1), g.bps_view.clone()); g.locks.push(rec); }
            if parser { g.busy_parser = true } else { g.busy_ctrl = true }
            g.progress = Instant::now();
            cv.notify_all();
            return;
        }
        let (g2, _) = cv.wait_timeout(g, Duration::from_millis(20)).unwrap(); g = g2;
        if !g.free && t0.elapsed() > Duration::from_millis(1500) {
            // the model and the code disagree on what is enabled here
            g.free = true; g.passed.push(format!("DIVERGED@{}", label));
        }
    }
}

fn ev(e: &DebuggerEvent) -> String { match e { DebuggerEvent::Breakpoint(r, p) => format!("B{}@{}", rule_no(r), p), DebuggerEvent::Eof => "eof".into(), DebuggerEvent::Error(_) => "error".into() } }

fn report(g: &mut Sched, left: &str, end: &str, verdict: &str) {
    if g.reported { return; }
    g.reported = true;
    let out = std::io::stdout(); let mut o = out.lock();
    g.passed.retain(|l| l != "SPAWN");
    writeln!(o, "trace={} after={} recv={} left={} rets={} end={}\t{}", g.passed.join(","), g.after.join(","), g.recv.join(","), left, g.rets.join(","), end, verdict).unwrap();
    o.flush().unwrap();
}

fn worker(case: &str, trace: &str) {
    let kv: BTreeMap<&str, &str> = case.split_whitespace().filter_map(|w| w.split_once('=')).collect();
    let cap: usize = kv["cap"].parse().unwrap();
    let input = if kv["input"] == "-" { String::new() } else { kv["input"].to_string() };
    let start = kv["start"].to_string();
    let cmds: Vec<&str> = if kv["cmds"] == "-" { vec![] } else { kv["cmds"].split(',').collect() };
    let bps0: Vec<String> = kv["bps"].split(',').filter(|x| !x.is_empty() && *x != "-").map(|b| format!("B{}@", b)).collect();
    let expected_all: Vec<String> = kv.get("entries").map(|e| e.split(',').filter(|x| *x != "-").map(|x| format!("B{}", x)).collect()).unwrap_or_default();
    let plain_ok = kv.get("ok").map(|x| *x == "1").unwrap_or(true);
    let static_bps = !cmds.iter().any(|c| c.starts_with("add") || c.starts_with("del") || *c == "clr");
    let sh: Shared = Arc::new((Mutex::new(Sched { trace: if trace == "-" { vec![] } else { trace.split(',').map(|s| s.to_string()).collect() }, cursor: 0, passed: vec![], after: vec![], free: false,
        busy_parser: false, busy_ctrl: true, progress: Instant::now(), ctrl_done: false, ctrl_at: String::new(), recv: vec![], rets: vec![], clean: true, early: false, reported: false, bps_view: vec![], run_no: 0, entry_idx: 0, locks: vec![] }), Condvar::new()));
    let sh2 = sh.clone();
    pest_debugger::verif::set_hook(Some(Arc::new(move |label: &'static str| turn(&sh2, label))));
    // watchdog: a controller that stops making progress is an observation (blocked), not a crash
    let sh3 = sh.clone();
    std::thread::spawn(move || loop {
        std::thread::sleep(Duration::from_millis(20));
        let mut g = sh3.0.lock().unwrap();
        if g.ctrl_done { return; }
        let idle = g.progress.elapsed();
        if (g.free && idle > Duration::from_millis(400)) || idle > Duration::from_millis(3000) {
            let at = g.ctrl_at.clone();
            // property (model-free): a restart issued when every delivered event had been received must return
            let verdict = if at == "run.join" && g.clean && g.early { "FAIL[early-continue] starting a new run did not terminate the previous one (every delivered event had been received, but an earlier cont() was issued with no breakpoint event outstanding): run() is blocked in join" } else if at == "run.join" && g.clean { "FAIL starting a new run did not terminate the previous one although every delivered event had been received: run() is blocked in join" } else { "ok" };
            report(&mut g, "?", &format!("blocked:{}", at), verdict);
            std::process::exit(0);
        }
    });
    let mut ctx = DebuggerContext::default();
    ctx.load_grammar_direct("g", GRAMMAR).unwrap();
    ctx.load_input_direct(input);
    for b in kv["bps"].split(',').filter(|x| !x.is_empty() && *x != "-") { ctx.add_breakpoint(format!("r{}", b)); sh.0.lock().unwrap().bps_view.push(b.parse().unwrap_or(0)); }
    let mut cur_rx: Option<Receiver<DebuggerEvent>> = None;
    let mut keep: Vec<Receiver<DebuggerEvent>> = vec![];
    let mut runs: Vec<Vec<String>> = vec![];
    let (mut conts_in_run, mut early) = (0usize, false);
    let mut conts_per_run: Vec<usize> = vec![];
    let mut restart_panic: Option<String> = None;
    for c in cmds.iter() {
        let label = match *c { "run" => "cmd.run", "cont" => "cmd.cont", "recv" => "cmd.recv", x if x.starts_with("add") => "cmd.add", _ => "cmd.del" };
        sh.0.lock().unwrap().ctrl_at = label.to_string();
        turn(&sh, label);
        match *c {
            "run" => {
                {   // were all events the current run has sent received?
                    let mut g = sh.0.lock().unwrap();
                    let since = g.passed.iter().rposition(|l| l == "SPAWN").map(|i| i + 1).unwrap_or(0);
                    let sent = g.passed[since..].iter().filter(|l| *l == "parser.send" || *l == "parser.finish_send").count();
                    let got = runs.last().map(|r| r.iter().filter(|e| *e != "closed").count()).unwrap_or(0);
                    g.clean = sent == got;
                    g.early = early;
                    g.ctrl_at = "run.join".into();
                }
                let (tx, rx) = sync_channel(cap);
                if let Some(old) = cur_rx.take() { keep.push(old); }
                let r = ctx.run(&start, tx);
                let mut g = sh.0.lock().unwrap();
                match r { Ok(()) => { g.rets.push("run:ok".into()); g.passed.push("SPAWN".into()); g.run_no += 1; g.entry_idx = 0; cur_rx = Some(rx); runs.push(vec![]); conts_per_run.push(0); conts_in_run = 0; early = false; } Err(_) => { g.rets.push("run:panic".into()); cur_rx = None; if g.clean && restart_panic.is_none() { restart_panic = Some(format!("FAIL run() number {} returned PreviousRunPanic although every delivered event had been received: the previous parser thread panicked when it was cancelled, and the new run was not started", runs.len() + 1)); } } }
            }
            "cont" => {
                // a continue that does not answer a received, not yet continued breakpoint event
                let bps_got = runs.last().map(|r| r.iter().filter(|e| e.starts_with('B')).count()).unwrap_or(0);
                if conts_in_run >= bps_got { early = true; }
                conts_in_run += 1;
                if let Some(c) = conts_per_run.last_mut() { *c += 1; }
                let r = match ctx.cont() { Ok(()) => "cont:ok", Err(pest_debugger::DebuggerError::EofReached) => "cont:eof", Err(_) => "cont:norun" }; sh.0.lock().unwrap().rets.push(r.into()); }
            "recv" => { let e = match &cur_rx { Some(rx) => match rx.recv() { Ok(e) => ev(&e), Err(_) => "closed".into() }, None => "norun".into() }; if let Some(r) = runs.last_mut() { r.push(e.clone()); } sh.0.lock().unwrap().recv.push(e); }
            "clr" => { ctx.delete_all_breakpoints(); sh.0.lock().unwrap().bps_view.clear(); }
            x if x.starts_with("add") => { ctx.add_breakpoint(format!("r{}", &x[3..])); let n: u32 = x[3..].parse().unwrap_or(0); let mut g = sh.0.lock().unwrap(); if !g.bps_view.contains(&n) { g.bps_view.push(n); } }
            x => { ctx.delete_breakpoint(&format!("r{}", &x[3..])); let n: u32 = x[3..].parse().unwrap_or(0); sh.0.lock().unwrap().bps_view.retain(|b| *b != n); }
        }
    }
    { let mut g = sh.0.lock().unwrap(); g.busy_ctrl = false; g.ctrl_done = true; sh.1.notify_all(); }
    // let the parser thread take the steps that remain in the schedule, then look at what is left in the channel
    let t0 = Instant::now();
    loop { { let g = sh.0.lock().unwrap(); if g.free || g.cursor >= g.trace.len() { break; } } if t0.elapsed() > Duration::from_millis(2500) { break; } std::thread::sleep(Duration::from_millis(2)); }
    std::thread::sleep(Duration::from_millis(40));
    let mut left = vec![];
    // emptying the channel lets a sender that is blocked on the full channel go on: repeat until nothing more arrives
    if let Some(rx) = &cur_rx { loop { let n0 = left.len(); loop { match rx.try_recv() { Ok(e) => left.push(ev(&e)), Err(TryRecvError::Empty) | Err(TryRecvError::Disconnected) => break } } if left.len() == n0 { break; } std::thread::sleep(Duration::from_millis(40)); } }
    // property (model-free): what run n delivered is a prefix of the entries of the parse whose rule was in the breakpoint
    // set when the parser thread looked the entry up, and a final event comes after all of them and is the plain VM's
    let mut verdict = "ok".to_string();
    {
        let g = sh.0.lock().unwrap();
        let entries: Vec<(u32, String)> = expected_all.iter().map(|e| (e[1..].split('@').next().and_then(|r| r.parse().ok()).unwrap_or(0), e.clone())).collect();
        let mut all = runs.clone();
        if let Some(l) = all.last_mut() { l.extend(left.iter().cloned()); }
        for (ri, r) in all.iter().enumerate() {
            let want: Vec<&String> = g.locks.iter().filter(|(rn, k, view)| *rn == ri + 1 && entries.get(*k).map_or(false, |e| view.contains(&e.0))).map(|(_, k, _)| &entries[*k].1).collect();
            let looked = g.locks.iter().filter(|(rn, _, _)| *rn == ri + 1).count();
            let evs: Vec<&String> = r.iter().filter(|e| *e != "closed" && *e != "norun").collect();
            // one per continue: the first event of a run needs no continue, every further one (a breakpoint or the final event) does
            let conts = conts_per_run.get(ri).cloned().unwrap_or(0);
            if evs.len() > conts + 1 && verdict == "ok" { verdict = format!("FAIL run {} delivered {} events ({:?}) but only {} continue(s) were issued in it: an event was delivered while waiting for a continue", ri + 1, evs.len(), evs, conts); }
            for (i, e) in evs.iter().enumerate() {
                if e.starts_with('B') { if want.get(i) != Some(e) { verdict = format!("FAIL event {} of run {} is {} but the entries whose rule was a breakpoint when they were entered are {:?}", i, ri + 1, e, want); } }
                else if i != want.len() || looked != entries.len() || (**e == "eof") != plain_ok { verdict = format!("FAIL final event {} after {} breakpoint events of run {}; {} of {} entries were looked up, {} of them breakpoints, and the plain VM parse {}", e, i, ri + 1, looked, entries.len(), want.len(), if plain_ok { "succeeds" } else { "fails" }); }
            }
        }
    }
    if let Some(m) = restart_panic { if verdict == "ok" { verdict = m; } }
    let _ = (&bps0, static_bps);
    let mut g = sh.0.lock().unwrap();
    report(&mut g, &left.join(","), "quiescent", &verdict);
    std::process::exit(0);
}

/// entries of the parse as the VM's listener sees them, whether it succeeds, and for every entry `k`
/// what the VM does when the listener answers `true` from call `k` on: (further listener calls, outcome).
fn entries_of(start: &str, input: &str) -> (Vec<(u32, usize)>, bool, Vec<(usize, char)>) {
    let rules = pest_meta::parse_and_optimize(GRAMMAR).unwrap().1;
    let log = Arc::new(Mutex::new(vec![]));
    let l2 = log.clone();
    let vm = pest_vm::Vm::new_with_listener(rules.clone(), Box::new(move |r, p| { l2.lock().unwrap().push((rule_no(&r), p.pos())); false }));
    let ok = vm.parse(start, input).is_ok();
    let v = log.lock().unwrap().clone();
    let mut aborts = vec![];
    for k in 0..v.len() {
        let calls = Arc::new(Mutex::new(0usize));
        let c2 = calls.clone();
        let vm = pest_vm::Vm::new_with_listener(rules.clone(), Box::new(move |_, _| { let mut c = c2.lock().unwrap(); *c += 1; *c > k }));
        let r = std::panic::catch_unwind(std::panic::AssertUnwindSafe(|| vm.parse(start, input).is_ok()));
        let n = *calls.lock().unwrap_or_else(|e| e.into_inner());
        aborts.push((n.saturating_sub(k + 1), match r { Ok(true) => 'o', Ok(false) => 'e', Err(_) => 'p' }));
    }
    (v, ok, aborts)
}

/// the model's prediction for each request line
fn predict(lines: &[String]) -> Vec<String> {
    let mut child = Command::new(PESTMODEL).arg("dbg").stdin(Stdio::piped()).stdout(Stdio::piped()).spawn().expect("pestmodel");
    let mut stdin = child.stdin.take().unwrap();
    let data: String = lines.iter().map(|l| l.split(" ## ").next().unwrap().to_string() + "\n").collect();
    let w = std::thread::spawn(move || { stdin.write_all(data.as_bytes()).unwrap(); });
    let out = child.wait_with_output().unwrap();
    w.join().unwrap();
    String::from_utf8(out.stdout).unwrap().lines().map(|l| l.to_string()).collect()
}

fn main() {
    let a: Vec<String> = std::env::args().collect();
    if a.get(1).map(|s| s.as_str()) == Some("worker") { worker(&a[2], &a[3]); return; }
    quiet_panics();
    let mut out = Out::new();
    let mut stats: BTreeMap<String, u64> = BTreeMap::new();
    // one case: (model request line, case line for the worker)
    let run_cases = |lines: &[String], dir: &std::path::Path, stats: &mut BTreeMap<String, u64>| -> Vec<(String, String)> {
        std::fs::create_dir_all(dir).unwrap();
        let pred = predict(lines);
        let preds: Vec<&str> = pred.iter().map(|s| s.as_str()).collect();
        let jobs: Vec<(usize, String, String)> = lines.iter().zip(preds).enumerate().map(|(i, (l, p))| {
            let trace = p.split_whitespace().find(|w| w.starts_with("trace=")).map(|w| &w[6..]).unwrap_or("-");
            (i, l.split(" ## ").nth(1).unwrap_or("").to_string() + if p.starts_with("unstable") { " unstable=1" } else { "" }, if trace.is_empty() { "-".to_string() } else { trace.to_string() })
        }).collect();
        let next = Arc::new(Mutex::new(0usize));
        let results: Arc<Mutex<Vec<Option<(String, String, bool)>>>> = Arc::new(Mutex::new(vec![None; jobs.len()]));
        let jobs = Arc::new(jobs);
        let exe = std::env::current_exe().unwrap();
        let hs: Vec<_> = (0..12).map(|_| { let next = next.clone(); let results = results.clone(); let jobs = jobs.clone(); let exe = exe.clone(); std::thread::spawn(move || loop {
            let i = { let mut n = next.lock().unwrap(); let i = *n; *n += 1; i };
            if i >= jobs.len() { return; }
            let (_, case, trace) = &jobs[i];
            let mut ch = Command::new(&exe).arg("worker").arg(case).arg(trace).stdout(Stdio::piped()).stderr(Stdio::null()).spawn().unwrap();
            let t0 = Instant::now();
            let done = loop { match ch.try_wait().unwrap() { Some(_) => break true, None => { if t0.elapsed() > Duration::from_secs(12) { let _ = ch.kill(); let _ = ch.wait(); break false; } std::thread::sleep(Duration::from_millis(3)); } } };
            let mut s = String::new(); use std::io::Read; ch.stdout.take().unwrap().read_to_string(&mut s).unwrap();
            let last = s.lines().last().unwrap_or("no-output\tFAIL the worker produced no observation").to_string();
            let (obs, verdict) = last.split_once('\t').map(|(a, b)| (a.to_string(), b.to_string())).unwrap_or((last.clone(), "ok".into()));
            // a send that blocks parks the thread inside std's channel, on the same token as the debugger's park():
            // such runs are judged by the oracle only
            let obs = if case.contains("unstable=1") { format!("unstable trace={}", trace) } else { obs };
            results.lock().unwrap()[i] = Some((obs, verdict, done));
        }) }).collect();
        for h in hs { h.join().unwrap(); }
        let mut res = vec![];
        for r in results.lock().unwrap().iter() {
            let (obs, verdict, done) = r.clone().unwrap();
            *stats.entry(if !done { "killed_after_time_limit".to_string() } else if obs.starts_with("unstable") { "oracle_only_send_blocks".into() } else if obs.contains("end=blocked") { "blocked_as_observed".into() } else { "completed".into() }).or_default() += 1;
            res.push((obs, verdict));
        }
        res
    };
    match cli() {
        Cmd::Run { ops, out: dir } => { let r = run_cases(&ops, &dir, &mut stats); for (l, (o, v)) in ops.iter().zip(r) { out.push(l.clone(), o, v); } out.write(&dir, "{}"); }
        Cmd::Gen { thorough, seed, out: dir } => {
            let mut rng = Rng::new(seed ^ 0xC17);
            let n = if thorough { 4000 } else { 350 };
            let mut lines = vec![];
            for _ in 0..n {
                let input: String = (0..rng.range(0, 3)).map(|_| *rng.pick(&['a', 'a', 'b'])).collect();
                let start = *rng.pick(&["r1", "r4", "r2"]);
                let (entries, ok, aborts) = entries_of(start, &input);
                let bps: Vec<u32> = [1u32, 2, 3].iter().cloned().filter(|_| rng.chance(1, 2)).collect();
                let ncmd = rng.range(1, 7);
                let mut cmds: Vec<String> = vec!["run".into()];
                let mut pending = 0i32; // events we may safely wait for
                for _ in 0..ncmd { let c = match rng.below(10) { 0..=2 => "cont".to_string(), 3..=5 => "recv".into(), 6 => "run".into(), 7 => format!("add{}", rng.range(1, 3)), 8 => if rng.chance(1, 2) { format!("del{}", rng.range(1, 3)) } else { "clr".into() }, _ => "cont".into() }; let _ = &mut pending; cmds.push(c); }
                // `recv` on an empty channel of a finished run would block for ever by itself: the model predicts that as blocked:cmd.recv, which is fine
                let bits: String = (0..60).map(|_| if rng.chance(1, 2) { '1' } else { '0' }).collect();
                let cap = if rng.chance(3, 4) { 1 } else { 2 };
                let req = format!("G cap={} ok={} aborts={} entries={} bps={} cmds={} bits={}", cap, ok as u8, if aborts.is_empty() { "-".to_string() } else { aborts.iter().map(|(n, o)| format!("{}:{}", n, o)).collect::<Vec<_>>().join(",") }, if entries.is_empty() { "-".into() } else { entries.iter().map(|(r, p)| format!("{}@{}", r, p)).collect::<Vec<_>>().join(",") }, if bps.is_empty() { "-".into() } else { bps.iter().map(|b| b.to_string()).collect::<Vec<_>>().join(",") }, cmds.join(","), bits);
                let case = format!("cap={} input={} start={} bps={} cmds={} ok={} entries={}", cap, if input.is_empty() { "-".to_string() } else { input.clone() }, start, if bps.is_empty() { "-".into() } else { bps.iter().map(|b| b.to_string()).collect::<Vec<_>>().join(",") }, cmds.join(","), ok as u8, if entries.is_empty() { "-".into() } else { entries.iter().map(|(r, p)| format!("{}@{}", r, p)).collect::<Vec<_>>().join(",") });
                lines.push(format!("{} ## {}", req, case));
            }
            // systematic part: for small cases, every resolution of the first L scheduling decisions (controller first afterwards),
            // one real run per distinct schedule
            let l_bits = if thorough { 13 } else { 8 };
            let small: &[(&str, &str, &str, &str, usize)] = &[
                ("a", "r2", "2", "run,run", 1), ("a", "r2", "2", "run,recv,run,recv", 1), ("aa", "r1", "2", "run,cont,run", 1),
                ("aa", "r1", "2", "run,recv,cont,recv,run", 1), ("ab", "r1", "2,3", "run,recv,cont,recv,cont,recv", 1), ("a", "r4", "1", "run,recv,del1,add2,cont,recv", 1),
                ("aa", "r1", "2", "run,recv,cont,run,recv", 2), ("b", "r1", "3", "run,cont,cont,recv", 1), ("a", "r1", "1,2", "run,recv,run,recv,cont,recv", 1),
                ("", "r2", "2", "run,recv,cont,recv,run,recv", 1), ("aa", "r2", "-", "run,add2,run,recv", 1), ("ab", "r4", "3", "run,recv,run,run,recv", 1),
                ("aa", "r1", "2", "run,recv,clr,cont,recv", 1), ("aab", "r1", "2", "run,recv,clr,add3,cont,recv,cont,recv", 1),
            ];
            // (the two histories with `clr` are part of the quick tier too: a set that is cleared while the thread is stopped)
            let small_quick: Vec<(&str, &str, &str, &str, usize)> = small[..4].iter().cloned().chain(small[small.len() - 2..].iter().cloned()).collect();
            let small = if thorough { &small[..] } else { &small_quick[..] };
            let mut sys_lines = vec![];
            for (input, start, bps, cmds, cap) in small {
                let (entries, ok, aborts) = entries_of(start, input);
                let es = entries.iter().map(|(r, p)| format!("{}@{}", r, p)).collect::<Vec<_>>().join(",");
                let ab = aborts.iter().map(|(n, o)| format!("{}:{}", n, o)).collect::<Vec<_>>().join(",");
                let mut cand = vec![];
                for b in 0..(1u32 << l_bits) {
                    let bits: String = (0..l_bits).map(|i| if (b >> i) & 1 == 1 { '1' } else { '0' }).collect();
                    cand.push(format!("G cap={} ok={} aborts={} entries={} bps={} cmds={} bits={} ## cap={} input={} start={} bps={} cmds={} ok={} entries={}", cap, ok as u8, ab, es, bps, cmds, bits, cap, if input.is_empty() { "-" } else { input }, start, bps, cmds, ok as u8, es));
                }
                let preds = predict(&cand);
                let mut seen = std::collections::BTreeSet::new();
                for (l, p) in cand.into_iter().zip(preds) { if seen.insert(p) { sys_lines.push(l); } }
            }
            stats.insert("systematic_distinct_schedules".into(), sys_lines.len() as u64);
            stats.insert("systematic_decisions".into(), l_bits as u64);
            stats.insert("random_cases".into(), lines.len() as u64);
            lines.extend(sys_lines);
            let r = run_cases(&lines, &dir, &mut stats);
            for (l, (o, v)) in lines.iter().zip(r) {
                if o.contains("DIVERGED") { *stats.entry("diverged".into()).or_default() += 1; }
                // model-free: cancelling the parse (the listener answers `true` from some call on) must not panic the thread
                let ab = l.split_whitespace().find(|w| w.starts_with("aborts=")).unwrap_or("");
                let v = if v == "ok" && ab.split(',').any(|x| x.ends_with(":p")) {
                    *stats.entry("abort_panics".into()).or_default() += 1;
                    let k = ab[7..].split(',').position(|x| x.ends_with(":p")).unwrap_or(0);
                    format!("FAIL cancelling the parse panics the parser thread: with the listener answering true from call {} on, Vm::parse panics (a restart at that point returns PreviousRunPanic and starts nothing)", k + 1)
                } else { v };
                out.push(l.clone(), o, v);
            }
            let samples: Vec<String> = out.ops.iter().step_by((out.ops.len() / 4).max(1)).take(4).cloned().collect();
            let stats_s = format!("{{\"evaluations\":{},\"distinct_nontrivial\":{},\"observed\":{:?},\"samples\":{:?}}}", out.ops.len(), out.ops.len(), stats, samples);
            out.write(&dir, &stats_s);
        }
    }
}
