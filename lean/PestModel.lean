-- Root of the `PestModel` library: models only (theorem modules are built by name).
import PestModel.Model.Stack
import PestModel.Model.Proto
import PestModel.Model.StackDriver
