import PestModel.Model.LineColSpec
import PestModel.Lemmas.LineColBasic
import PestModel.Lemmas.LineColLoop
import PestModel.Lemmas.LineColIndex
import PestModel.Lemmas.LineColLineOf
import PestModel.Lemmas.LineColSpan
import PestModel.Lemmas.LineColRender
import PestModel.Lemmas.LineColRenderSpan
/-! Helper lemmas for C10 (umbrella module). -/
