import PestModel.Model.Reader
import PestModel.Lemmas.Reader
/-!
# C07 — the grammar reader reconstructs exactly the grammar that was written (proved parts)

`unescape`, the number parsers and the operator-precedence stage of `consume_expr` (C13's Pratt
parser with the reader's table). The tokenisation of arbitrary spacing/comments by the meta-grammar
is covered by the round-trip correspondence only (partial, DESIGN §6 C07).
-/
namespace PestModel.C07
open PestModel.Reader
open PestModel.LineCol (Str)

/-- **Literal contents survive every spelling**: plain characters, `\n`-style escapes, `\xHH`,
`\u{…}` with 2–6 digits in either case, in any mixture. -/
theorem unescape_spell (quote : Char) (sps : List Spelling) (s cs : Str)
    (h : spellAll quote sps s = some cs) : unescape cs = some s := by
  exact unescape_spellAll quote sps s cs h

/-- the only failures of `unescape` on a `\u{…}` escape with 2–6 hex digits are the values that are
not Unicode scalar values (surrogates, beyond 10FFFF). -/
theorem unescape_unicode_none (up : Bool) (k v : Nat) (hk : 2 ≤ k ∧ k ≤ 6) (hv : v < 16 ^ k) :
    unescape (['\\', 'u', '{'] ++ hexDigits up k v ++ ['}']) = (charOfNat? v).map fun c => [c] := by
  exact unescape_uni up k v hk hv

/-- **Repetition counts** below 2³² read back, with any number of leading zeros. -/
theorem count_roundtrip (n z : Nat) (h : n < 2 ^ 32) :
    parseU32 (List.replicate z '0' ++ natDigits n) = some n := by
  exact parseU32_zeros_digits n z h

/-- **PEEK indices** in the `i32` range read back (negative ones are written `-`, zeros, digits). -/
theorem index_roundtrip (i : Int) (z : Nat) (h : -(2 ^ 31 : Int) ≤ i ∧ i < 2 ^ 31) :
    parseI32 (if i < 0 then '-' :: (List.replicate z '0' ++ natDigits i.natAbs)
              else List.replicate z '0' ++ natDigits i.toNat) = some i := by
  exact parseI32_zeros_digits i z h

/-- canonical (minimally parenthesised) binary skeletons: `~` and `|` associate to the left, the
right operand of `~` is a term, no `|` occurs directly under `~`. -/
def Canon : Bin → Prop
  | .leaf _ => True
  | .seq a b => Canon a ∧ 2 ≤ a.level ∧ b.level = 3
  | .alt a b => Canon a ∧ Canon b ∧ 2 ≤ b.level

/-- the token sequence of one parenthesis level. -/
def toks : Bin → List Nat
  | .leaf i => [100 + i]
  | .seq a b => toks a ++ [seqTok] ++ toks b
  | .alt a b => toks a ++ [altTok] ++ toks b

/-- **Operator structure**: choice binds looser than sequence and operators of equal level group
left to right — the Pratt stage rebuilds exactly the tree that was written. -/
theorem pratt_rebuilds (e : Bin) (h : Canon e) :
    ∃ t, Pratt.parse readerTable (toks e) = .ok (t, []) ∧ ofTree t = some e := by
  have ht : ∀ e, toks e = binToks e := by
    intro e; induction e <;> simp [toks, binToks, *]
  have hc : ∀ e, Canon e → BinCanon e := by
    intro e; induction e <;> simp_all [Canon, BinCanon]
  rw [ht]
  exact parse_binToks e (hc e h)

/-- Non-vacuity: the hypotheses are satisfiable by non-trivial instances (a mixed spelling of a
string with a quote, a backslash and a non-ASCII character; a canonical skeleton using both
operators on both sides), and `Canon` is needed: a right-nested `~` is not rebuilt. -/
example :
    spellAll '"' [.plain, .named, .named, .hex true, .uni 4 false, .uni 6 true] ['a', '"', '\\', 'é', 'é', '😀'] =
      some ("a\\\"\\\\\\xE9\\u{00e9}\\u{01F600}").toList ∧
    Canon (.alt (.alt (.seq (.seq (.leaf 0) (.leaf 1)) (.leaf 2)) (.leaf 3)) (.seq (.leaf 4) (.leaf 5))) ∧
    ¬ (∃ t, Pratt.parse readerTable (toks (.seq (.leaf 0) (.seq (.leaf 1) (.leaf 2)))) = .ok (t, []) ∧
        ofTree t = some (.seq (.leaf 0) (.seq (.leaf 1) (.leaf 2)))) := by
  refine ⟨by decide, by simp [Canon, Bin.level], ?_⟩
  rintro ⟨t, h1, h2⟩
  have : Pratt.parse readerTable (toks (.seq (.leaf 0) (.seq (.leaf 1) (.leaf 2)))) =
      .ok (.inf (.inf (.prim 100) 2 (.prim 101)) 2 (.prim 102), []) := by decide
  rw [this] at h1
  cases h1
  revert h2
  decide

end PestModel.C07
