"""C10 — line/column arithmetic and error rendering are correct for all text."""
from props.common import *

MODULE = "PestModel.Thm.C10"
DRV, MODE = "drv_linecol", "linecol"


def run(ctx):
    frag, problems = proof_leg(ctx, MODULE)
    ok, out, bindir, _ = cargo_build("default", [DRV])
    if not ok:
        ctx.violation({"obligation": "harness does not build against /repo", "log": out[-3000:]}, no_input=True)
        ctx.evidence(level_of(ctx.prop), dict(frag, explanation="harness build failed"), TRUSTED_COMMON)
        return
    drv = os.path.join(bindir, DRV)
    cs = run_corpus_and_gen(ctx, drv, MODE, [("gen", ["gen", ctx.tier, str(ctx.seed)])])
    found_input = False
    for c in cs:
        if c.error:
            ctx.violation({"correspondence": c.name, "error": c.error}, no_input=True)
            continue
        if c.oracle_fail:
            # smallest input first: the case line carries the input as hex, so sort by length
            i, op, imp, verdict = min(c.oracle_fail, key=lambda t: (len(t[1]), t[1]))
            ctx.violation({"kind": "implementation contradicts the counting definition of line/column / lines / rendering",
                           "case": op, "impl": imp, "oracle": verdict, "failing_cases_in_run": len(c.oracle_fail),
                           "classes": sorted({t[3][:60] for t in c.oracle_fail})[:10]})
            found_input = True
        elif c.mismatch:
            i, op, imp, mod = min(c.mismatch, key=lambda t: (len(t[1]), t[1]))
            ctx.violation({"kind": "correspondence `linecol` (pest Position/Span/LineIndex/Error vs PestModel.LineCol) no longer checks; the counting-definition oracle is satisfied on all explored inputs",
                           "case": op, "impl": imp, "model": mod, "mismatches_in_run": len(c.mismatch)}, no_input=True)
    if problems and not found_input:
        ctx.violation({"obligation": MODULE, "problems": problems}, no_input=True)
    gen = next((c for c in cs if c.name == "gen"), None)
    st = gen.stats if gen else {}
    cov = dict(frag)
    cov.update({
        "trusted_base": TRUSTED_COMMON,
        "evaluations": sum(c.n for c in cs),
        "distinct_nontrivial": st.get("strings_with_newline_and_multibyte", 0),
        "rule": "all strings up to the stated number of characters over {a, LF, CR, TAB, 2-byte, 3-byte char} x every boundary offset (Position/Pair/Error line_col, line_of, Display) x every non-boundary offset x every ordered boundary pair (Span::new, lines_span, new_from_span, Display) plus unordered/non-boundary pairs; plus seeded random longer strings; non-trivial = distinct strings containing a newline and a multi-byte character",
        "exhaustive": True,
        "exhaustive_scope": f"strings of <= {st.get('exhaustive_max_chars')} characters over a 6-character alphabet, all offsets and ordered pairs",
        "traces_validated_against_impl": sum(c.n for c in cs),
        "samples": st.get("samples", []),
        "distribution": {k: st.get(k) for k in ("strings", "exhaustive_strings", "random_strings", "length_histogram")},
        "mismatches": sum(len(c.mismatch) for c in cs), "oracle_failures": sum(len(c.oracle_fail) for c in cs),
    })
    if ctx.thorough() and not problems:
        okc, outc = leanchecker([MODULE, "PestModel.Model.LineCol"])
        cov["leanchecker"] = "ok" if okc else outc
    ctx.evidence(level_of(ctx.prop), cov, [
        "theorems are about PestModel.LineCol (hand-written model of position.rs/span.rs/line_index.rs/error.rs); tie = correspondence incl. byte-exact Display output",
        "slice::partition_point is modelled by its contract on sorted vectors (count of leading elements satisfying the predicate)",
        "String::replace / format! padding are modelled by list functions",
    ])


def replay(ctx, path):
    return replay_generic(ctx, path, DRV, MODE)
