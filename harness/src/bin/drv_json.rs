//! C18: `pest_grammars::json::JsonParser` vs RFC 8259 (`pestmodel grammar`, J lines: the Lean
//! transcription of the ABNF together with the reference denotation of the regenerated json.pest),
//! and vs an independent RFC 8259 recogniser evaluated here (oracle).
use pest::iterators::Pairs;
use pest::Parser;
use pest_grammars::json::{JsonParser, Rule};
use std::collections::BTreeMap;
use verif_harness::*;

fn forest(p: Pairs<'_, Rule>) -> String {
    let mut s = String::new();
    for pair in p { let sp = pair.as_span(); s.push_str(&format!(" ({:?} {} {} _", pair.as_rule(), sp.start(), sp.end())); s.push_str(&forest(pair.into_inner())); s.push(')'); }
    s
}

// ---- oracle: RFC 8259 recogniser (accept / reject), written from the ABNF
struct P<'a> { b: &'a [u8], i: usize }
impl<'a> P<'a> {
    fn ws(&mut self) { while self.i < self.b.len() && matches!(self.b[self.i], b' ' | b'\t' | b'\n' | b'\r') { self.i += 1; } }
    fn eat(&mut self, c: u8) -> bool { if self.i < self.b.len() && self.b[self.i] == c { self.i += 1; true } else { false } }
    fn digits(&mut self) -> bool { let s = self.i; while self.i < self.b.len() && self.b[self.i].is_ascii_digit() { self.i += 1; } self.i > s }
    fn number(&mut self) -> bool {
        self.eat(b'-');
        if self.eat(b'0') {} else if self.i < self.b.len() && (b'1'..=b'9').contains(&self.b[self.i]) { self.digits(); } else { return false; }
        let save = self.i; if self.eat(b'.') { if !self.digits() { self.i = save; } }
        let save = self.i; if self.eat(b'e') || self.eat(b'E') { if !(self.eat(b'+') || self.eat(b'-')) {} if !self.digits() { self.i = save; } }
        true
    }
    fn string(&mut self) -> bool {
        if !self.eat(b'"') { return false; }
        loop {
            if self.i >= self.b.len() { return false; }
            let c = self.b[self.i];
            if c == b'"' { self.i += 1; return true; }
            if c == b'\\' {
                self.i += 1; if self.i >= self.b.len() { return false; }
                match self.b[self.i] { b'"' | b'\\' | b'/' | b'b' | b'f' | b'n' | b'r' | b't' => self.i += 1,
                    b'u' => { if self.i + 4 >= self.b.len() + 0 && self.i + 4 > self.b.len() - 1 + 0 && self.b.len() < self.i + 5 { return false; } if !self.b[self.i + 1..self.i + 5].iter().all(|h| h.is_ascii_hexdigit()) { return false; } self.i += 5; }
                    _ => return false }
            } else if c < 0x20 { return false; } else { self.i += 1; }
        }
    }
    fn value(&mut self, depth: usize) -> bool {
        if depth > 5000 || self.i >= self.b.len() { return false; }
        match self.b[self.i] {
            b'"' => self.string(),
            b'{' => { self.i += 1; self.ws(); if self.eat(b'}') { return true; } loop { if !self.string() { return false; } self.ws(); if !self.eat(b':') { return false; } self.ws(); if !self.value(depth + 1) { return false; } self.ws(); if self.eat(b',') { self.ws(); continue; } return self.eat(b'}'); } }
            b'[' => { self.i += 1; self.ws(); if self.eat(b']') { return true; } loop { if !self.value(depth + 1) { return false; } self.ws(); if self.eat(b',') { self.ws(); continue; } return self.eat(b']'); } }
            b't' => self.lit(b"true"), b'f' => self.lit(b"false"), b'n' => self.lit(b"null"),
            _ => self.number(),
        }
    }
    fn lit(&mut self, l: &[u8]) -> bool { if self.b[self.i..].starts_with(l) { self.i += l.len(); true } else { false } }
}
fn rfc_accepts(s: &str) -> bool { let mut p = P { b: s.as_bytes(), i: 0 }; p.ws(); if !p.value(0) { return false; } p.ws(); p.i == s.len() }

fn eval_line(l: &str, stats: &mut BTreeMap<String, u64>) -> (String, String) {
    let w: Vec<&str> = l.split_whitespace().collect();
    if w.len() < 2 || w[0] != "J" { return ("bad-op".into(), "ok".into()); }
    let mut outs = vec![]; let mut verdict = "ok".to_string();
    for h in &w[1..] {
        let text = match unhexs(h) { Some(t) => t, None => return ("bad-op".into(), "ok".into()) };
        let r = catch(|| match JsonParser::parse(Rule::json, &text) { Ok(p) => format!("ok{}", forest(p)), Err(_) => "fail".to_string() }).unwrap_or("panic".into());
        let want = rfc_accepts(&text);
        *stats.entry(if r.starts_with("ok") { "accepted".into() } else { "rejected".to_string() }).or_default() += 1;
        if r.starts_with("ok") != want && verdict == "ok" { verdict = format!("FAIL {}: JsonParser {} it but RFC 8259 {} it", h, if r.starts_with("ok") { "accepts" } else { "rejects" }, if want { "accepts" } else { "rejects" }); }
        outs.push(r);
    }
    (outs.join(" | "), verdict)
}

fn gen_doc(rng: &mut Rng, depth: usize, out: &mut String) {
    let ws = |rng: &mut Rng, out: &mut String| { for _ in 0..rng.below(3) { out.push(*rng.pick(&[' ', ' ', '\n', '\t', '\r'])); } };
    match if depth == 0 { rng.below(4) } else { rng.below(7) } {
        0 => out.push_str(*rng.pick(&["0", "-0", "1", "12", "-3.25", "1e9", "2E-3", "0.5e+10", "1234567890", "-1.0"][..])),
        1 => { out.push('"'); for _ in 0..rng.below(5) { out.push_str(*rng.pick(&["a", "é", "嗨", "Ā", "一", "ı", "İ", "\u{2028}", "\u{10000}", "\u{fffd}", "\u{f000}", "\u{ffff}", "\u{10ffff}", "\u{7ff}", "\u{800}", "\u{d7ff}", "\u{e000}", "\\n", "\\\"", "\\\\", "\\/", "\\u00e9", "\\uD800", " ", "\u{7f}", "💖", "\\b\\f\\r\\t"][..])); } out.push('"'); }
        2 => out.push_str(*rng.pick(&["true", "false", "null"][..])),
        3 => out.push_str(*rng.pick(&["[]", "{}", "[ ]", "{ }"][..])),
        4 | 5 => { out.push('['); ws(rng, out); let n = rng.range(1, 3); for i in 0..n { if i > 0 { ws(rng, out); out.push(','); ws(rng, out); } gen_doc(rng, depth - 1, out); } ws(rng, out); out.push(']'); }
        _ => { out.push('{'); ws(rng, out); let n = rng.range(1, 3); for i in 0..n { if i > 0 { ws(rng, out); out.push(','); ws(rng, out); } out.push_str(*rng.pick(&["\"k\"", "\"\"", "\"a b\"", "\"\\u0041\""][..])); ws(rng, out); out.push(':'); ws(rng, out); gen_doc(rng, depth - 1, out); } ws(rng, out); out.push('}'); }
    }
}

fn main() {
    quiet_panics();
    let mut out = Out::new();
    let mut stats: BTreeMap<String, u64> = BTreeMap::new();
    match cli() {
        Cmd::Run { ops, out: dir } => { for l in &ops { let (i, v) = eval_line(l, &mut stats); out.push(l.clone(), i, v); } out.write(&dir, "{}"); }
        Cmd::Gen { thorough, seed, out: dir } => {
            let mut rng = Rng::new(seed ^ 0xC18);
            let alpha = ["{", "}", "[", "]", ",", ":", "\"", "\\", "0", "1", "-", ".", "e", " ", "t", "n", "u", "a"];
            let len = if thorough { 6 } else { 5 };
            // exhaustive: all strings up to `len` over the first 14 symbols (quick) / all 18 (thorough, length 5 over 14)
            let k = if thorough { 14 } else { 13 };
            let mut layer: Vec<String> = vec![String::new()]; let mut all = vec![String::new()];
            for _ in 0..len { let mut next = vec![]; for s in &layer { for a in &alpha[..k] { next.push(format!("{}{}", s, a)); } } all.extend(next.iter().cloned()); layer = next; }
            let exhaustive = all.len();
            // near-misses and documents
            let near = ["01", "-", "+1", "1.", ".5", "1e", "1e+", "1.e1", "00", "-01", "[1,]", "[,1]", "{\"a\":1,}", "{\"a\"}", "{a:1}", "{\"a\":}", "[1 2]", "\"\t\"", "\"\\x41\"", "\"\\u12\"", "\"\\u12G4\"", "\"abc", "tru", "nul", "truee", "nullx", "[", "]", "{", "}", "\"\\\"", "1 2", "[1]]", "{\"a\":1}}", "\u{feff}1", "1\u{a0}", "'a'", "NaN", "Infinity", "-Infinity", "0x10", "1_000", "\"\u{0}\"", "\"\u{1f}\"", "\"\u{7f}\"", "[\"\\ud800\"]", " \n\r\t1\t\r\n ", "\"\\u000A\"", "1E400", "-0.0e-0", "[[[[[[[[[[]]]]]]]]]]", "{\"a\":{\"b\":{\"c\":[]}}}",
                // non-ASCII characters whose low byte is an ASCII digit, hex digit or control code; characters of every UTF-8 length
                "\"一\"", "[\"Ā\"]", "{\"名\": \"東京\"}", "1ı", "\"\\u00İ0\"", "１", "[１]", "\"\u{10000}\"", "\"\u{1F600}\"", "\"\u{E0041}\"", "tru\u{FF45}", "\u{2003}1", "１.5", "-１"];
            for n in near { all.push(n.to_string()); }
            // the first and last character of every UTF-8 leading-byte class, inside a string, followed by each kind of
            // thing that can follow a character there (closing quote, escape, raw control character, non-ASCII, ASCII, end)
            for cp in [0x7Fu32, 0x80, 0x7FF, 0x800, 0xFFF, 0x1000, 0xCFFF, 0xD000, 0xD7FF, 0xE000, 0xEFFF, 0xF000, 0xFEFF, 0xFF21, 0xFFFD, 0xFFFF, 0x10000, 0x3FFFF, 0x40000, 0xFFFFF, 0x100000, 0x10FFFF] {
                let c = char::from_u32(cp).unwrap();
                for t in [format!("\"{}\"", c), format!("\"{}x\"", c), format!("\"{}\\n\"", c), format!("\"{}\t\"", c), format!("\"{}{}\"", c, c), format!("\"{}é\"", c), format!("\"{}", c),
                    format!("[\"{}\", \"a\"]", c), format!("\"{}\"x\"", c), format!("{{\"{}\": \"{}{}{}\"}}", c, c, c, c), format!("{}", c), format!("1{}", c)] { all.push(t); } }
            let ndocs = if thorough { 60000 } else { 6000 };
            for _ in 0..ndocs { let mut s = String::new(); if rng.chance(1, 3) { s.push(' '); } let d = rng.range(0, 4); gen_doc(&mut rng, d, &mut s); if rng.chance(1, 4) { s.push('\n'); }
                // one-edit mutations of a third of them
                if rng.chance(1, 3) && !s.is_empty() { let cs: Vec<char> = s.chars().collect(); let i = rng.below(cs.len() as u64) as usize; let mut c2 = cs.clone(); match rng.below(3) { 0 => { c2.remove(i); } 1 => c2.insert(i, *rng.pick(&[',', ':', '"', '0', '}', ']', '\\', '-'])), _ => c2[i] = *rng.pick(&[',', ':', '"', '0', '}', ']', ' ']) } s = c2.into_iter().collect(); }
                all.push(s); }
            // deep nesting (bounded: native stack depth is outside the model)
            for d in [50usize, 150] { all.push(format!("{}{}", "[".repeat(d), "]".repeat(d))); all.push(format!("{}1{}", "{\"a\":".repeat(d), "}".repeat(d))); }
            for chunk in all.chunks(200) { let l = format!("J {}", chunk.iter().map(|s| hexs(s)).collect::<Vec<_>>().join(" ")); let (i, v) = eval_line(&l, &mut stats); out.push(l, i, v); }
            let samples: Vec<String> = all.iter().rev().step_by((all.len() / 6).max(1)).take(6).map(|s| if s.len() > 80 { format!("{}…", &s.chars().take(80).collect::<String>()) } else { s.clone() }).collect();
            let stats_s = format!("{{\"evaluations\":{},\"exhaustive_strings\":{},\"exhaustive_len\":{},\"exhaustive_alphabet\":{},\"generated_documents\":{},\"distinct_nontrivial\":{},\"observed\":{:?},\"samples\":{:?}}}", all.len(), exhaustive, len, k, ndocs, stats.get("accepted").cloned().unwrap_or(0), stats, samples);
            out.write(&dir, &stats_s);
        }
    }
}
