"""C13 — operator-precedence parsers build the precedence-correct tree."""
from props.common import *

MODULE = "PestModel.Thm.C13"
DRV, MODE = "drv_pratt", "pratt"


def run(ctx):
    simple_property(
        ctx, MODULE, DRV, MODE,
        oracle_kind="implementation contradicts the classical shunting-yard tree (or loses/reorders tokens) on a well-formed sequence",
        corr_kind="correspondence `pratt` (PrattParser / ConstPrattParser / PrecClimber vs PestModel.Pratt)",
        rule="seeded random operator tables (1-6 levels, 1-3 operators per level, mixed affixes and associativities within a level, duplicate rules; every third table infix-only with one associativity per level and distinct rules for PrecClimber) x 12 sequences each (5/6 well-formed `prefix* primary postfix* (infix prefix* primary postfix*)*`, 1/6 arbitrary); each case is run through PrattParser, ConstPrattParser (N<=12), PrecClimber where applicable, and a Rust shunting-yard; non-trivial = distinct well-formed (table, sequence) with >= 5 tokens",
        nontrivial_key="distinct_nontrivial",
        assumptions=[
            "theorems are about PestModel.Pratt (hand-written model of pratt_parser.rs / prec_climber.rs; user callbacks build the tree); tie = correspondence on S-expressions of the trees",
            "Prec is modelled as Nat (u32 overflow of `prec += 10` needs 4*10^8 levels and is outside the model)",
        ],
        leancheck=[MODULE, "PestModel.Model.Pratt"],
    )


def replay(ctx, path):
    return replay_generic(ctx, path, DRV, MODE)
