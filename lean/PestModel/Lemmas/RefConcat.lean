import PestModel.Lemmas.RefLaws
import PestModel.Lemmas.RefStr
/-! C05 helper lemmas, part 7: the concatenation law (atomic mode). -/
namespace PestModel.Ref
open PestModel.G
open PestModel.LineCol (Str bLen cLen splitAt?)
open PestModel.Views (Tree)
open PestModel.PS (Atomicity CharSet restAt asciiLower eqIgnoreAsciiCase normalizeIndex)

theorem val_insens (c : Ctx) (m : Atomicity) (la : Bool) (s : St) (str : Str) :
    val c m la (.insens str) s = insensM c s str := by rw [val_eq]; rfl

section
variable {P : St → Prop} {c : Ctx} {m : Atomicity}

theorem concat_str (hm : m ≠ .nonAtomic) (a b : Str) : EqOn P c m (.seq (.str a) (.str b)) (.str (a ++ b)) := by
  intro la s _
  simp only [val_seq, val_str, lit_append]
  cases h1 : lit c s a <;> simp only []
  rename_i s1 f1
  rw [valK_atomic _ _ _ _ hm]
  simp only []
  cases h2 : lit c s1 b <;> simp only []
  rename_i s3 f3
  rw [lit_forest h1, lit_forest h2]; rfl

theorem concat_insens (hm : m ≠ .nonAtomic) (a b : Str) :
    EqOn P c m (.seq (.insens a) (.insens b)) (.insens (a ++ b)) := by
  intro la s _
  simp only [val_seq, val_insens, insensM_append]
  cases h1 : insensM c s a <;> simp only []
  rename_i s1 f1
  rw [valK_atomic _ _ _ _ hm]
  simp only []
  cases h2 : insensM c s1 b <;> simp only []
  rename_i s3 f3
  rw [insensM_forest h1, insensM_forest h2]; rfl

theorem concatF_eqOn (hm : m ≠ .nonAtomic) (x : Expr) : EqOn P c m x (concatF x) := by
  unfold concatF
  split
  · exact concat_str hm _ _
  · exact concat_insens hm _ _
  · exact EqOn.refl _

end
end PestModel.Ref
