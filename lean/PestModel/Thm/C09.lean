import PestModel.Model.Grammar
import PestModel.Lemmas.MetaRules
import PestModel.Lemmas.ReaderNoPanic
import PestModel.Lemmas.ReaderAgree
import PestModel.Lemmas.OptTotal
import PestModel.Thm.C07Pairs
import PestModel.Lemmas.PipelineNoPanic
import PestModel.Lemmas.PipelineLocated
/-!
# C09 — the grammar front-end is total

`ReaderP` is `pest_meta::parser::{parse, consume_rules}` with every panic site of `parser.rs` explicit
(`unwrap()` on a missing pair, `unreachable!()` on an unexpected rule, string slices, the Pratt parser's
panics) and kept apart from the located errors the code returns. The theorems:

* `meta_pairs_shape` — whatever `parse(Rule::grammar_rules, text)` returns (the reference denotation of the
  REGENERATED `grammar.pest`, for any text and any amount of fuel) has the shape `GrammarForest`: every pair has
  exactly the inner pairs the reader unwraps, string/character literals are opened and closed by their quote,
  tags start with `#`, every span is a slice of the text (Hoare rule over the rules of the meta-grammar,
  `MetaPost.metaPostOK`);
* `consume_rules_no_panic` — on pairs of that shape no panic site of `consume_rules` is reachable;
* `frontend_no_panic` — the two together: for EVERY text the reader returns rules or a located error.
* `unrollF_total` — the unroller's `unwrap` (empty unrolling) is unreachable for the counts the reader lets through.
* `pipeline_no_panic` — the whole of `parse_and_optimize` (with `validate_pairs`) on every text;
* `optimizer_no_panic` — behind the reader: on the rules it returns (any text), the seven optimizer passes and the conversion
  to `OptimizedRule` reach none of their panic sites (`OptTotal`: the unroller leaves nothing it should have unrolled, the
  passes around it keep that, `rule_to_optimized_rule`'s `unreachable!` cannot fire).

Not covered by a theorem (sampled by the correspondence only): the panic sites of `validator.rs`, error rendering (C10's `render_total` is about `pest::error`), time
bounds, and native stack depth (the recorded finding).
-/
namespace PestModel.C09
open PestModel.G

theorem seqOfList_isSome : ∀ (l : List Expr), l ≠ [] → (seqOfList l).isSome = true
  | [], h => absurd rfl h
  | [_], _ => rfl
  | _ :: b :: rest, _ => by
    have := seqOfList_isSome (b :: rest) (by simp)
    cases h : seqOfList (b :: rest) with
    | none => simp [h] at this
    | some v => simp [seqOfList, h]

/-- `unroll` panics exactly on an empty unrolling (`e{0}`, `e{,0}`, `e{m,0}`), which the reader
rejects ("cannot repeat 0 times"): for positive counts `unrollF` is total. -/
theorem unrollF_total (extras : Bool) (e : Expr) (n m : Nat) (hn : 0 < n) :
    (unrollF extras (.repExact e n)).isSome ∧ (unrollF extras (.repMin e m)).isSome ∧
    (unrollF extras (.repMax e n)).isSome ∧ (unrollF extras (.repMinMax e m n)).isSome := by
  refine ⟨?_, ?_, ?_, ?_⟩
  · exact seqOfList_isSome _ (by cases n <;> simp_all [List.replicate])
  · exact seqOfList_isSome _ (by simp)
  · exact seqOfList_isSome _ (by cases n <;> simp_all [List.replicate])
  · refine seqOfList_isSome _ ?_
    intro h
    have := congrArg List.length h
    simp at this
    omega

open PestModel.ReaderShape PestModel.ReaderP in
/-- the pairs the meta-grammar produces have the shape the reader relies on (any text, any fuel). -/
theorem meta_pairs_shape (text : PestModel.LineCol.Str) (n : Nat) (s' : PestModel.Ref.St) (F : List PestModel.Views.Tree)
    (h : PestModel.Ref.meaning PestModel.Gen.Meta.rules false PestModel.ReaderFull.noUni n "grammar_rules" text = .ok s' F) :
    GrammarForest text F :=
  PestModel.MetaPost.meta_forest text n s' F h

open PestModel.ReaderShape PestModel.ReaderP in
/-- on pairs of that shape no panic site of `consume_rules` is reachable. -/
theorem consume_rules_no_panic (extras : Bool) (text : PestModel.LineCol.Str) (forest : List PestModel.Views.Tree)
    (h : GrammarForest text forest) : consumeRules extras text forest ≠ .panic :=
  consumeRules_np extras text forest h

open PestModel.ReaderP in
/-- **The reader never panics**: for every text (and both feature settings) `parse` + `consume_rules` yields rules or
a located error — never one of the `unwrap`/`unreachable!`/slice/Pratt panics of `parser.rs`. -/
theorem frontend_no_panic (extras : Bool) (text : PestModel.LineCol.Str) :
    readGrammar extras text ≠ some .panic := by
  unfold readGrammar
  split
  · rename_i s' forest h
    intro hc
    have := consume_rules_no_panic extras text forest (meta_pairs_shape text _ s' forest h)
    simp only [Option.some.injEq] at hc
    exact this hc
  · simp
  · simp

open PestModel.ReaderP in
/-- **The two reader models are one reader**: on every text the three-valued model (`ReaderP`, this file) and the two-valued
model the C07 theorems are about (`ReaderFull`) return the same rules, or both none. -/
theorem readerP_agrees (extras : Bool) (text : PestModel.LineCol.Str) :
    (readGrammar extras text).map R3.toOption = PestModel.ReaderFull.readGrammarOutcome extras text := by
  unfold readGrammar PestModel.ReaderFull.readGrammarOutcome
  cases hm : PestModel.Ref.meaning PestModel.Gen.Meta.rules false PestModel.ReaderFull.noUni 1000000 "grammar_rules" text with
  | ok s' forest =>
    simp only [Option.map_some]
    exact congrArg some (PestModel.ReaderAgree.consumeRules_ag extras text forest
      (consume_rules_no_panic extras text forest (meta_pairs_shape text _ s' forest hm)))
  | fail => rfl
  | stuck => rfl
  | fuel => rfl

/-- **Behind the reader, the optimizer does not panic**: whatever rules the reader returns for a text, `optimize` (with or
without the `list` pass) converts them — the unroller's `unwrap` and `rule_to_optimized_rule`'s `unreachable!` are unreachable. -/
theorem optimizer_no_panic (extras : Bool) (text : PestModel.LineCol.Str) (rs : List Rule)
    (h : PestModel.ReaderFull.readGrammar extras text = some rs) (withList : Bool) :
    (optimizeWith extras withList rs).isSome = true := by
  obtain ⟨_, forest, _, hr, _⟩ := (PestModel.C07Pairs.reader_exact extras text rs).1 h
  exact PestModel.OptTotal.optimizeWith_total extras withList rs (PestModel.OptTotal.posCounts_rulesV hr)

/-- **`parse_and_optimize` never panics** (`Model/Pipeline`: `parser::parse`, `validate_pairs` with the regenerated
`PEST_KEYWORDS` / `BUILTINS`, `consume_rules`, `validate_ast`, `optimize`): for every text and both feature settings the
pipeline returns rules or a non-empty list of errors — `validate_pairs`' `unwrap`, the reader's panic sites, the unroller's
`unwrap` and `rule_to_optimized_rule`'s `unreachable!` are all unreachable. Uses the generic `Ref.meaning_sliced` (every pair
of a successful parse of any grammar spans a slice of the input). -/
theorem pipeline_no_panic (extras : Bool) (text : PestModel.LineCol.Str) :
    PestModel.Pipeline.parseAndOptimize extras text ≠ some .panic :=
  PestModel.Pipeline.pipeline_no_panic extras text

/-! non-vacuity: the pairs of `a={b}` (written out) have the shape, so the hypothesis of `consume_rules_no_panic` is met
by a real forest. -/
section
open PestModel.ReaderShape PestModel.Views PestModel.C07Full
def exText : PestModel.LineCol.Str := "a={b}".toList
def exTerm : Tree := .node (ix "term") 3 4 none [.node (ix "identifier") 3 4 none []]
def exRule : Tree := .node (ix "grammar_rule") 0 5 none
  [.node (ix "identifier") 0 1 none [], .node (ix "assignment_operator") 1 2 none [], .node (ix "opening_brace") 2 3 none [],
   .node (ix "expression") 3 4 none [exTerm], .node (ix "closing_brace") 4 5 none []]

example : GrammarForest exText [exRule] := by
  intro t ht _
  simp only [List.mem_singleton] at ht
  subst ht
  refine Or.inr ⟨_, _, [], _, _, _, rfl, by decide, ⟨['a'], by decide⟩, Or.inl rfl, by decide, by decide, ?_⟩
  have hu : UnArgs exText exTerm.children :=
    .plain (.leaf (Or.inr (Or.inr (Or.inl ⟨by decide, ⟨['b'], by decide⟩⟩))) (by simp))
  have := ExprKids.mk (text := exText) [] exTerm [] (Or.inl rfl) (by decide) hu (by simp) (by simp)
  simpa [Tree.children] using this
end

/-- **The skipper's output is bounded**: the search list of a `Skip` node the `skip` pass creates never has more strings than
`MAX_SKIP_STRINGS` (regenerated from skipper.rs; the statement fails to check when the bound is removed). Before the repair
f10b39f a chain of `n` rules that mention the next one twice produced `2^n` strings in `2^n` steps. -/
theorem skipper_bounded (rules : List Rule) (e : Expr) (l : List PestModel.LineCol.Str) (h : skipF rules e = .skip l)
    (he : ∀ l', e ≠ .skip l') : ∃ c, PestModel.Gen.Consts.maxSkipStrings = some c ∧ l.length ≤ c := by
  have hs : PestModel.Gen.Consts.maxSkipStrings.isSome = true := by decide
  obtain ⟨c, hc⟩ := Option.isSome_iff_exists.1 hs
  refine ⟨c, hc, ?_⟩
  unfold skipF at h
  split at h
  · split at h
    · rename_i x hx
      split at h
      · exact absurd h (by simp)
      · rename_i hlong
        subst h
        simp only [skipTooLong, hc, decide_eq_true_eq] at hlong
        omega
    · exact absurd h (by simp)
  · exact absurd h (he l)

/-- not vacuous: a three-link chain is inlined into a `Skip` of 2^3 strings. -/
example : skipF [⟨"c0", .normal, .choice (.ident "c1") (.ident "c1")⟩, ⟨"c1", .normal, .choice (.ident "c2") (.ident "c2")⟩,
    ⟨"c2", .normal, .choice (.ident "c3") (.ident "c3")⟩, ⟨"c3", .normal, .str ['a']⟩]
    (.rep (.seq (.negPred (.ident "c0")) (.ident "ANY"))) = .skip (List.replicate 8 ['a']) := by decide

/-- **The name errors are located**: every error `validate_pairs` reports (a keyword used as a rule name, a rule defined twice,
an undefined rule) is about a pair of the parse — a definition or a used identifier — whose text it quotes; that pair's span, a slice
of the grammar text (`RefSliced.meaning_sliced`), is the error's location. -/
theorem name_errors_located (text : PestModel.LineCol.Str) (forest : List PestModel.Views.Tree) (errs : List (String × String))
    (h : PestModel.Pipeline.validatePairs text forest = .ok errs) :
    ∀ e ∈ errs, ∃ t ∈ PestModel.Views.preorderList forest, (PestModel.ReaderFull.strOf text t).map String.ofList = some e.2 :=
  PestModel.Pipeline.validatePairs_located h

end PestModel.C09
