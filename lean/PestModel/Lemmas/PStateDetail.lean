import PestModel.Lemmas.PStateLimitTw
/-!
C15: erasing the detailed-attempts component commutes with `run` — unconditionally, because the
only extra panic site of a detailed run (`splice(start_index..)` in `try_add_new_stack_rule`) is
never out of range (`tryAddRuleToStack_isSome`, from the monotonicity of the attempts bookkeeping).
-/
namespace PestModel.PS
open PestModel.LineCol PestModel.Stack

def emptyPa : PAttempts :=
  { enabled := false, callStacks := [], expected := [], unexpected := [], maxPos := 0 }

/-- `PState.eraseDetail` as an instance of `tw`. -/
abbrev era : PState → PState := tw id (fun _ => emptyPa)

theorem era_eq : era = PState.eraseDetail := by
  funext s; rfl

theorem incCall_era (s : PState) : incCall (era s) = (incCall s).map era := by
  have e : (era s).calls = s.calls := rfl
  unfold incCall
  rw [e]
  cases s.calls with
  | none => rfl
  | some x =>
    obtain ⟨cur, lim⟩ := x
    dsimp only
    split <;> rfl

theorem era_with_pa (s : PState) (pa : PAttempts) : era { s with pa := pa } = era s := rfl

theorem handleToken_era (s : PState) (a : Nat) (t : PTok) (b : Bool) :
    handleToken (era s) a t b = era s ∧ era (handleToken s a t b) = era s := by
  constructor
  · unfold handleToken; rfl
  · obtain ⟨pa', he, -⟩ := handleToken_eq s a t b
    rw [he]; rfl

theorem terminal_era (s : PState) (r : Option (Bool × Nat)) (tok : Option PTok) :
    terminal (era s) r tok = (terminal s r tok).mapState era := by
  unfold terminal
  cases r with
  | none => rfl
  | some x =>
    obtain ⟨succ, pos'⟩ := x
    cases tok with
    | none => dsimp only; split <;> rfl
    | some t =>
      dsimp only
      obtain ⟨h1, h2⟩ := handleToken_era { s with pos := pos' } s.pos t succ
      have h1' : handleToken { era s with pos := pos' } (era s).pos t succ = era { s with pos := pos' } := h1
      rw [h1']
      split <;> simp only [Out.mapState] <;> rw [h2]

theorem ruleFinish_era {s1 x : PState} {r : Nat} (hm : PaMono (rulePre s1).pa x.pa) :
    ruleFinish (era s1) r (era x) = (ruleFinish s1 r x).mapState era := by
  have hl : ruleFinish (era s1) r (era x) = .ok (era x) := ruleFinish_no_panic rfl
  rw [hl]
  unfold ruleFinish
  split
  · obtain ⟨y, hy⟩ := tryAddRuleToStack_isSome (s1 := rulePre s1) (r := r) hm
    unfold ruleAdd
    rw [hy]
    obtain ⟨pa', rfl, -⟩ := tryAddRuleToStack_eq hy
    rfl
  · rfl

theorem ruleOkPost_era {s1 ns : PState} {r : Nat} (hm : PaMono (rulePre s1).pa ns.pa) :
    ruleOkPost (era s1) r (era ns) = (ruleOkPost s1 r ns).mapState era := by
  unfold ruleOkPost
  rw [ruleTrackIf_tw, ruleEmit_tw]
  cases he : ruleEmit s1 r (ruleTrackIf s1 r ns) with
  | none => rfl
  | some x =>
    have e : x.pa = ns.pa := (ruleEmit_core he).2.1.trans (ruleTrackIf_core s1 r ns).2.1
    exact ruleFinish_era (by rw [e]; exact hm)

theorem ruleErrAdd_era {s1 ns : PState} {r : Nat} (hm : PaMono (rulePre s1).pa ns.pa) :
    ruleErrAdd (era s1) r (era ns) = (ruleErrAdd s1 r ns).map era := by
  unfold ruleErrAdd
  rw [ruleTrack_tw]
  show (if ns.lookahead ≠ .negative then
      (if (era (ruleTrack s1 r ns)).pa.enabled = true then _ else some (era (ruleTrack s1 r ns)))
      else some (era ns)) = _
  split
  · rw [if_neg (by simp [tw, emptyPa])]
    split
    · have e : (ruleTrack s1 r ns).pa = ns.pa := (ruleTrack_core s1 r ns).2.1
      obtain ⟨y, hy⟩ := tryAddRuleToStack_isSome (s1 := rulePre s1) (ns := ruleTrack s1 r ns) (r := r)
        (by rw [e]; exact hm)
      unfold ruleAdd
      rw [hy]
      obtain ⟨pa', rfl, -⟩ := tryAddRuleToStack_eq hy
      rfl
    · rfl
  · rfl

theorem ruleErrPost_era {s1 ns : PState} {r : Nat} (hm : PaMono (rulePre s1).pa ns.pa) :
    ruleErrPost (era s1) r (era ns) = (ruleErrPost s1 r ns).mapState era := by
  unfold ruleErrPost
  rw [ruleErrAdd_era hm]
  cases ruleErrAdd s1 r ns with
  | none => rfl
  | some x =>
    show Out.err (ruleErrTrunc (era s1) (era x)) = _
    rw [ruleErrTrunc_tw]; rfl

theorem ruleK_era (r : Nat) (s1 : PState) (o : Out)
    (hm : ∀ ns, o.state? = some ns → PaMono (rulePre s1).pa ns.pa) :
    ruleK r (era s1) (o.mapState era) = (ruleK r s1 o).mapState era := by
  cases o with
  | ok ns => exact ruleOkPost_era (hm ns rfl)
  | err ns => exact ruleErrPost_era (hm ns rfl)
  | panic => rfl
  | fuel => rfl

/-! ### the simulation -/

abbrev EIH (cfg : Cfg) (fuel : Nat) : Prop :=
  ∀ p s, run cfg fuel p (era s) = (run cfg fuel p s).mapState era

section cases
variable (cfg : Cfg) (fuel : Nat)

theorem era_stackPeek (s : PState) :
    run cfg (fuel+1) .stackPeek (era s) = (run cfg (fuel+1) .stackPeek s).mapState era := by
  rw [run, run]
  show (if reachedCallLimit s = true then Out.err (era s) else
    match s.stack.cache.head? with
    | none => Out.panic
    | some str => terminal (era s) (posMatchString s.input s.pos str) (some (.sens str))) = _
  split
  · rfl
  · cases s.stack.cache.head? with
    | none => rfl
    | some str => exact terminal_era s _ _

theorem era_stackPop (s : PState) :
    run cfg (fuel+1) .stackPop (era s) = (run cfg (fuel+1) .stackPop s).mapState era := by
  rw [run, run]
  show (if reachedCallLimit s = true then Out.err (era s) else
    match Stack.pop s.stack with
    | none => Out.panic
    | some (_, none) => Out.panic
    | some (st, some str) =>
      terminal (era { s with stack := st }) (posMatchString s.input s.pos str) (some (.sens str))) = _
  split
  · rfl
  · cases Stack.pop s.stack with
    | none => rfl
    | some x =>
      obtain ⟨st, v⟩ := x
      cases v with
      | none => rfl
      | some str => exact terminal_era { s with stack := st } _ _

variable (ih : EIH cfg fuel)
include ih

theorem era_bracket0 (body : Prog) (pre : PState → PState) (K : PState → Out → Out)
    (ha : ∀ s1, pre (era s1) = era (pre s1))
    (hb : ∀ s1 o, (∀ ns, o.state? = some ns → PaMono (pre s1).pa ns.pa) →
      K (era s1) (o.mapState era) = (K s1 o).mapState era)
    (s1 : PState) :
    bracket0 cfg fuel body pre K (era s1) = (bracket0 cfg fuel body pre K s1).mapState era := by
  unfold bracket0
  rw [ha, ih]
  exact hb s1 _ (fun ns h => run_paMono cfg fuel body (pre s1) ns h)

theorem era_bracket (body : Prog) (pre : PState → PState) (K : PState → Out → Out)
    (ha : ∀ s1, pre (era s1) = era (pre s1))
    (hb : ∀ s1 o, (∀ ns, o.state? = some ns → PaMono (pre s1).pa ns.pa) →
      K (era s1) (o.mapState era) = (K s1 o).mapState era)
    (s : PState) :
    bracket cfg fuel body pre K (era s) = (bracket cfg fuel body pre K s).mapState era := by
  unfold bracket
  rw [incCall_era]
  cases incCall s with
  | none => rfl
  | some s1 => exact era_bracket0 cfg fuel ih body pre K ha hb s1

theorem era_andThen (p q : Prog) (s : PState) :
    run cfg (fuel+1) (.andThen p q) (era s) = (run cfg (fuel+1) (.andThen p q) s).mapState era := by
  rw [run_andThen, run_andThen, ih p s]
  cases run cfg fuel p s with
  | ok s1 => exact ih q s1
  | err s1 => rfl
  | panic => rfl
  | fuel => rfl

theorem era_orElse (p q : Prog) (s : PState) :
    run cfg (fuel+1) (.orElse p q) (era s) = (run cfg (fuel+1) (.orElse p q) s).mapState era := by
  rw [run_orElse, run_orElse, ih p s]
  cases run cfg fuel p s with
  | ok s1 => rfl
  | err s1 => exact ih q s1
  | panic => rfl
  | fuel => rfl

theorem era_repLoop (p : Prog) (s : PState) :
    run cfg (fuel+1) (.repLoop p) (era s) = (run cfg (fuel+1) (.repLoop p) s).mapState era := by
  rw [run_repLoop, run_repLoop, ih p s]
  cases run cfg fuel p s with
  | ok s1 => exact ih _ s1
  | err s1 => rfl
  | panic => rfl
  | fuel => rfl

theorem era_call (i : Nat) (s : PState) :
    run cfg (fuel+1) (.call i) (era s) = (run cfg (fuel+1) (.call i) s).mapState era := by
  rw [run_call, run_call]
  cases cfg.env[i]? with
  | none => rfl
  | some p => exact ih p s

end cases

/-- **Erasure commutes with `run`.** -/
theorem run_era (cfg : Cfg) : ∀ (fuel : Nat) (p : Prog) (s : PState),
    run cfg fuel p (era s) = (run cfg fuel p s).mapState era
  | 0, p, s => by rw [run_zero, run_zero]; rfl
  | fuel + 1, p, s => by
    have ih : EIH cfg fuel := run_era cfg fuel
    cases p with
    | sequence p =>
      rw [run_sequence_K, run_sequence_K]
      exact era_bracket cfg fuel ih p checkpoint seqK (fun _ => rfl) (fun s1 o _ => seqK_tw _ _ s1 o) s
    | optional p =>
      rw [run_optional_K, run_optional_K]
      exact era_bracket cfg fuel ih p id optK (fun _ => rfl) (fun s1 o _ => optK_tw _ _ s1 o) s
    | repeat_ p =>
      rw [run_repeat_K, run_repeat_K]
      exact era_bracket cfg fuel ih _ id idK (fun _ => rfl) (fun s1 o _ => idK_tw _ _ s1 o) s
    | repLoop p => exact era_repLoop cfg fuel ih p s
    | lookahead b p =>
      rw [run_lookahead_K, run_lookahead_K]
      exact era_bracket cfg fuel ih p (laPre b) (laK b) (fun _ => rfl)
        (fun s1 o _ => laK_tw _ _ b s1 o) s
    | atomic a p =>
      rw [run_atomic_K, run_atomic_K]
      exact era_bracket cfg fuel ih p (atomPre a) (atomK a) (atomPre_tw _ _ a)
        (fun s1 o _ => atomK_tw _ _ a s1 o) s
    | rule r p =>
      rw [run_rule_K, run_rule_K]
      exact era_bracket cfg fuel ih p rulePre (ruleK r) (rulePre_tw _ _) (ruleK_era r) s
    | stackPush p =>
      rw [run_stackPush_K, run_stackPush_K]
      exact era_bracket cfg fuel ih p id pushK (fun _ => rfl) (fun s1 o _ => pushK_tw _ _ s1 o) s
    | restoreOnErr p =>
      rw [run_restoreOnErr_K, run_restoreOnErr_K]
      exact era_bracket0 cfg fuel ih p checkpoint roeK (fun _ => rfl)
        (fun s1 o _ => roeK_tw _ _ s1 o) s
    | andThen p q => exact era_andThen cfg fuel ih p q s
    | orElse p q => exact era_orElse cfg fuel ih p q s
    | call i => exact era_call cfg fuel ih i s
    | matchString str => rw [run, run]; exact terminal_era s _ _
    | matchInsensitive str => rw [run, run]; exact terminal_era s _ _
    | matchRange a b => rw [run, run]; exact terminal_era s _ _
    | matchCharBy cs => rw [run, run]; exact terminal_era s _ _
    | skip n => rw [run, run]; exact terminal_era s _ _
    | stackPeek => exact era_stackPeek cfg fuel s
    | stackPop => exact era_stackPop cfg fuel s
    | skipUntil strs => exact leaf_tw _ _ cfg fuel _ s trivial
    | startOfInput => exact leaf_tw _ _ cfg fuel _ s trivial
    | endOfInput => exact leaf_tw _ _ cfg fuel _ s trivial
    | stackMatchPeek => exact leaf_tw _ _ cfg fuel _ s trivial
    | stackMatchPop => exact leaf_tw _ _ cfg fuel _ s trivial
    | stackDrop => exact leaf_tw _ _ cfg fuel _ s trivial
    | stackMatchPeekSlice x y d => exact leaf_tw _ _ cfg fuel _ s trivial
    | stackPushLiteral str => exact leaf_tw _ _ cfg fuel _ s trivial
    | tagNode t => exact leaf_tw _ _ cfg fuel _ s trivial
    | ok => exact leaf_tw _ _ cfg fuel _ s trivial
    | fail => exact leaf_tw _ _ cfg fuel _ s trivial

/-- in the vocabulary of `PStateSpec`. -/
theorem run_eraseDetail (cfg : Cfg) (fuel : Nat) (p : Prog) (s : PState) :
    (run cfg fuel p s).mapState PState.eraseDetail = run cfg fuel p s.eraseDetail := by
  have := run_era cfg fuel p s
  rw [era_eq] at this
  exact this.symm

end PestModel.PS
