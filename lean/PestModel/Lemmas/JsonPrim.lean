import PestModel.Lemmas.JsonRfc
/-!
C18 helper lemmas, part 2: the grammar side — the context, the rule table, literals and character
classes at a cursor, sequences in atomic mode, and the implicit whitespace.
-/
namespace PestModel.Json
open PestModel.Ref PestModel.G
open PestModel.LineCol (Str cLen bLen)
open PestModel.PS (Atomicity CharSet restAt restAt_iff restAt_advance)
open PestModel.Views (Tree)

/-- the evaluation context of the bundled JSON grammar. -/
def jctx (input : Str) (uni : String → Option CharSet) : Ctx :=
  { rules := PestModel.Gen.Json.rules, input := input, extras := false, uni := uni }

@[simp] theorem jctx_input (input uni) : (jctx input uni).input = input := rfl
@[simp] theorem jctx_extras (input uni) : (jctx input uni).extras = false := rfl
@[simp] theorem jctx_rules (input uni) : (jctx input uni).rules = PestModel.Gen.Json.rules := rfl

/-! ### the rule bodies (with character literals) -/

def eJson : Expr := .seq (.seq (.ident "SOI") (.ident "value")) (.ident "EOI")
def eObject : Expr :=
  .choice (.seq (.seq (.seq (.str ['{']) (.ident "pair")) (.rep (.seq (.str [',']) (.ident "pair")))) (.str ['}']))
    (.seq (.str ['{']) (.str ['}']))
def ePair : Expr := .seq (.seq (.ident "string") (.str [':'])) (.ident "value")
def eArray : Expr :=
  .choice (.seq (.seq (.seq (.str ['[']) (.ident "value")) (.rep (.seq (.str [',']) (.ident "value")))) (.str [']']))
    (.seq (.str ['[']) (.str [']']))
def eValue : Expr :=
  .choice (.choice (.choice (.choice (.choice (.ident "string") (.ident "number")) (.ident "object")) (.ident "array"))
    (.ident "bool")) (.ident "null")
def eString : Expr := .seq (.seq (.str ['"']) (.ident "inner")) (.str ['"'])
def eUnesc : Expr :=
  .seq (.negPred (.choice (.choice (.str ['"']) (.str ['\\'])) (.range (Char.ofNat 0) (Char.ofNat 31)))) (.ident "ANY")
def eInnerTail : Expr := .opt (.seq (.ident "escape") (.ident "inner"))
def eInner : Expr := .seq (.rep eUnesc) eInnerTail
def eEscape : Expr :=
  .seq (.str ['\\'])
    (.choice (.choice (.choice (.choice (.choice (.choice (.choice (.choice (.str ['"']) (.str ['\\'])) (.str ['/']))
      (.str ['b'])) (.str ['f'])) (.str ['n'])) (.str ['r'])) (.str ['t'])) (.ident "unicode"))
def eUnicode : Expr := .seq (.str ['u']) (.repExact (.ident "ASCII_HEX_DIGIT") 4)
def eFrac : Expr := .seq (.seq (.str ['.']) (.repOnce (.ident "ASCII_DIGIT"))) (.opt (.ident "exp"))
def eNumber : Expr :=
  .seq (.seq (.opt (.str ['-'])) (.ident "int")) (.opt (.choice eFrac (.ident "exp")))
def eInt : Expr := .choice (.str ['0']) (.seq (.ident "ASCII_NONZERO_DIGIT") (.rep (.ident "ASCII_DIGIT")))
def eExp : Expr :=
  .seq (.seq (.choice (.str ['E']) (.str ['e'])) (.opt (.choice (.str ['+']) (.str ['-'])))) (.repOnce (.ident "ASCII_DIGIT"))
def eBool : Expr := .choice (.str ['t', 'r', 'u', 'e']) (.str ['f', 'a', 'l', 's', 'e'])
def eNull : Expr := .str ['n', 'u', 'l', 'l']
def eWs : Expr := .choice (.choice (.choice (.str [' ']) (.str ['\t'])) (.str ['\r'])) (.str ['\n'])

section
variable (input : Str) (uni : String → Option CharSet)

theorem rule_json : (jctx input uni).rule? "json" = some (0, ⟨"json", .normal, eJson⟩) := rfl
theorem rule_object : (jctx input uni).rule? "object" = some (1, ⟨"object", .normal, eObject⟩) := rfl
theorem rule_pair : (jctx input uni).rule? "pair" = some (2, ⟨"pair", .normal, ePair⟩) := rfl
theorem rule_array : (jctx input uni).rule? "array" = some (3, ⟨"array", .normal, eArray⟩) := rfl
theorem rule_value : (jctx input uni).rule? "value" = some (4, ⟨"value", .normal, eValue⟩) := rfl
theorem rule_string : (jctx input uni).rule? "string" = some (5, ⟨"string", .atomic, eString⟩) := rfl
theorem rule_inner : (jctx input uni).rule? "inner" = some (6, ⟨"inner", .atomic, eInner⟩) := rfl
theorem rule_escape : (jctx input uni).rule? "escape" = some (7, ⟨"escape", .atomic, eEscape⟩) := rfl
theorem rule_unicode : (jctx input uni).rule? "unicode" = some (8, ⟨"unicode", .atomic, eUnicode⟩) := rfl
theorem rule_number : (jctx input uni).rule? "number" = some (9, ⟨"number", .atomic, eNumber⟩) := rfl
theorem rule_int : (jctx input uni).rule? "int" = some (10, ⟨"int", .atomic, eInt⟩) := rfl
theorem rule_exp : (jctx input uni).rule? "exp" = some (11, ⟨"exp", .atomic, eExp⟩) := rfl
theorem rule_bool : (jctx input uni).rule? "bool" = some (12, ⟨"bool", .normal, eBool⟩) := rfl
theorem rule_null : (jctx input uni).rule? "null" = some (13, ⟨"null", .normal, eNull⟩) := rfl
theorem rule_ws : (jctx input uni).rule? "WHITESPACE" = some (14, ⟨"WHITESPACE", .silent, eWs⟩) := rfl
theorem rule_SOI : (jctx input uni).rule? "SOI" = none := rfl
theorem rule_EOI : (jctx input uni).rule? "EOI" = none := rfl
theorem rule_ANY : (jctx input uni).rule? "ANY" = none := rfl
theorem rule_DIGIT : (jctx input uni).rule? "ASCII_DIGIT" = none := rfl
theorem rule_NZDIGIT : (jctx input uni).rule? "ASCII_NONZERO_DIGIT" = none := rfl
theorem rule_HEX : (jctx input uni).rule? "ASCII_HEX_DIGIT" = none := rfl
theorem has_ws : (jctx input uni).has "WHITESPACE" = true := rfl
theorem has_comment : (jctx input uni).has "COMMENT" = false := rfl

end

/-! ### literals and character classes at a cursor -/

section
variable {input : Str} {uni : String → Option CharSet}

theorem lit_at {c : Cur} (h : At input c) (stk : List Str) (str : Str) :
    lit (jctx input uni) ⟨c.pos, stk⟩ str =
      if str.isPrefixOf c.rest then .ok ⟨c.pos + bLen str, stk⟩ [] else .fail := by
  unfold lit
  simp only [jctx_input]
  rw [show restAt input c.pos = some c.rest from h]

theorem lit1_cons {c : Cur} (h : At input c) {ch : Char} {cs : Str} (hr : c.rest = ch :: cs)
    (stk : List Str) (a : Char) :
    lit (jctx input uni) ⟨c.pos, stk⟩ [a] = if ch = a then .ok ⟨c.adv.pos, stk⟩ [] else .fail := by
  rw [lit_at h, hr, adv_cons hr]
  by_cases he : ch = a
  · subst he; simp [List.isPrefixOf]
  · have : ¬ a = ch := fun h => he h.symm
    simp [List.isPrefixOf, he, this]

theorem lit_nil {c : Cur} (h : At input c) (hr : c.rest = []) (stk : List Str) (a : Char) (as : Str) :
    lit (jctx input uni) ⟨c.pos, stk⟩ (a :: as) = .fail := by
  rw [lit_at h, hr]; simp [List.isPrefixOf]

theorem lit_cons_ne {c : Cur} (h : At input c) {ch : Char} {cs : Str} (hr : c.rest = ch :: cs)
    (stk : List Str) {a : Char} (as : Str) (hne : ch ≠ a) :
    lit (jctx input uni) ⟨c.pos, stk⟩ (a :: as) = .fail := by
  rw [lit_at h, hr]
  have : ¬ a = ch := fun h => hne h.symm
  simp [List.isPrefixOf, this]

theorem oneChar_cons {c : Cur} (h : At input c) {ch : Char} {cs : Str} (hr : c.rest = ch :: cs)
    (stk : List Str) (p : Char → Bool) :
    oneChar (jctx input uni) ⟨c.pos, stk⟩ p = if p ch then .ok ⟨c.adv.pos, stk⟩ [] else .fail := by
  unfold oneChar
  simp only [jctx_input]
  rw [show restAt input c.pos = some c.rest from h, hr, adv_cons hr]

theorem oneChar_nil {c : Cur} (h : At input c) (hr : c.rest = []) (stk : List Str) (p : Char → Bool) :
    oneChar (jctx input uni) ⟨c.pos, stk⟩ p = .fail := by
  unfold oneChar
  simp only [jctx_input]
  rw [show restAt input c.pos = some c.rest from h, hr]

end

/-! ### sequences in atomic mode -/

theorem val_seq_atomic (c : Ctx) (la : Bool) (a b : Expr) (s : St) :
    val c .atomic la (.seq a b) s =
      match val c .atomic la a s with
      | .ok s1 f1 =>
        match val c .atomic la b s1 with
        | .ok s3 f3 => .ok s3 (f1 ++ f3)
        | r => r
      | r => r := by
  rw [val_seq]
  cases val c .atomic la a s <;> simp only []
  rename_i s1 f1
  rw [valK_atomic _ _ _ _ (by decide)]
  simp only [List.append_nil]
  cases val c .atomic la b s1 <;> rfl

theorem valL_atomic (c : Ctx) (la : Bool) (e : Expr) (s : St) (acc : List Tree) :
    valL c .atomic la e s acc =
      match val c .atomic la e s with
      | .ok s2 f2 => valL c .atomic la e s2 (acc ++ f2)
      | .fail => .ok s acc
      | r => r := by
  rw [valL_unfold, valK_atomic _ _ _ _ (by decide)]
  simp only [List.append_nil]
  cases val c .atomic la e s <;> rfl

/-! ### the implicit whitespace -/

section
variable {input : Str} {uni : String → Option CharSet}

theorem ws_call {c : Cur} (h : At input c) (la : Bool) (stk : List Str) :
    valCa (jctx input uni) .nonAtomic la "WHITESPACE" ⟨c.pos, stk⟩ =
      match c.rest with
      | ch :: _ => if isWs ch then .ok ⟨c.adv.pos, stk⟩ [] else .fail
      | [] => .fail := by
  rw [valCa_unfold, rule_ws]
  simp only [bodyMode, emitsFor, eWs, val_choice, val_str]
  cases hr : c.rest with
  | nil => simp [lit_nil h hr]
  | cons ch cs =>
    simp only [lit1_cons h hr]
    unfold isWs
    by_cases h1 : ch = ' '
    · simp [h1]
    · by_cases h2 : ch = '\t'
      · simp [h2]
      · by_cases h3 : ch = '\r'
        · simp [h3]
        · by_cases h4 : ch = '\n'
          · simp [h4]
          · simp [h1, h2, h3, h4]

theorem ws_star (la : Bool) (stk : List Str) (rest : Str) (p : Nat) (acc : List Tree)
    (h : restAt input p = some rest) :
    valSt (jctx input uni) la "WHITESPACE" ⟨p, stk⟩ acc = .ok ⟨(wsL rest p).pos, stk⟩ acc := by
  induction rest generalizing p with
  | nil =>
    rw [valSt_eq]; simp only [starF]
    have hA : At input ⟨[], p⟩ := h
    have := ws_call (uni := uni) hA la stk
    simp only [valCa] at this
    simp only [this]
    rfl
  | cons ch cs ih =>
    rw [valSt_eq]; simp only [starF]
    have hA : At input ⟨ch :: cs, p⟩ := h
    have := ws_call (uni := uni) hA la stk
    simp only [valCa] at this
    simp only [this, wsL]
    by_cases hw : isWs ch
    · simp only [hw, if_true, List.append_nil]
      have h2 : restAt input (p + cLen ch) = some cs := by
        have := hA.adv; rw [adv_cons rfl] at this; exact this
      have := ih (p + cLen ch) h2
      simp only [valSt] at this
      rw [adv_cons rfl]
      exact this
    · simp only [hw, if_false]

/-- the implicit whitespace between the elements of a sequence in a non-atomic rule = RFC `ws`. -/
theorem skip_at {c : Cur} (h : At input c) (la : Bool) (stk : List Str) :
    valK (jctx input uni) .nonAtomic la ⟨c.pos, stk⟩ = .ok ⟨(wsC c).pos, stk⟩ [] := by
  rw [valK_eq]
  simp only [skipWsF, has_ws, has_comment, ne_eq, not_true_eq_false, if_false]
  exact ws_star la stk c.rest c.pos [] h

end
end PestModel.Json
