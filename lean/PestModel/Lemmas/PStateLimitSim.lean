import PestModel.Lemmas.PStateLimitTw
/-!
C12: a limited run that does not end with the limit reached never had a call refused, and is,
up to the `calls` field, the run with any larger limit / without limit.
-/
namespace PestModel.PS
open PestModel.LineCol PestModel.Stack

/-- replace the limit (`none`: remove the counter altogether). -/
def relimC (m : Option Nat) (c : Option (Nat × Nat)) : Option (Nat × Nat) :=
  match m with
  | none => none
  | some m' => c.map (fun x => (x.1, m'))

abbrev relim (m : Option Nat) : PState → PState := tw (relimC m) id

/-- the new limit is not smaller than the old one. -/
def LimOK (m : Option Nat) (s : PState) : Prop :=
  ∀ m', m = some m' → ∀ c n, s.calls = some (c, n) → n ≤ m'

theorem LimOK.of_calls {m : Option Nat} {s s' : PState} (h : LimOK m s) (hc : s'.calls = s.calls) :
    LimOK m s' := fun m' hm c n h0 => h m' hm c n (hc ▸ h0)

theorem LimOK.mono {m : Option Nat} {s s' : PState} (h : LimOK m s) (hc : CallsMono s s') :
    LimOK m s' := by
  intro m' hm c n h0
  cases hs : s.calls with
  | none => rw [hc.1 hs] at h0; simp at h0
  | some x =>
    obtain ⟨c0, n0⟩ := x
    obtain ⟨c', e, -⟩ := hc.2 c0 n0 hs
    rw [e] at h0; simp at h0
    exact h m' hm c0 n (by rw [hs, h0.2])

theorem reached_of_calls {s s' : PState} (h : s'.calls = s.calls) :
    reachedCallLimit s' = reachedCallLimit s := by
  unfold reachedCallLimit; rw [h]

theorem incCall_none {s : PState} (h : incCall s = none) : reachedCallLimit s = true := by
  unfold incCall at h
  unfold reachedCallLimit
  split at h
  · simp at h
  · rename_i cur lim hc
    split at h
    · simpa using ‹cur ≥ lim›
    · simp at h

theorem incCall_relim {m : Option Nat} {s s1 : PState} (h : incCall s = some s1) (hok : LimOK m s) :
    incCall (relim m s) = some (relim m s1) := by
  unfold incCall at h ⊢
  cases hs : s.calls with
  | none =>
    rw [hs] at h; simp at h; subst h
    have : (relim m s).calls = none := by
      show relimC m s.calls = none
      rw [hs]; cases m <;> rfl
    rw [this]
  | some x =>
    obtain ⟨cur, lim⟩ := x
    rw [hs] at h
    simp only [] at h
    split at h
    · simp at h
    · rename_i hlt
      simp at h; subst h
      cases m with
      | none =>
        have : (relim none s).calls = none := rfl
        rw [this]
        show some (relim none s) = some _
        rfl
      | some m' =>
        have hle := hok m' rfl cur lim hs
        have : (relim (some m') s).calls = some (cur, m') := by
          show relimC (some m') s.calls = _
          rw [hs]; rfl
        rw [this]
        simp only []
        rw [if_neg (by omega)]
        simp only [tw, relimC, hs, id]
        rfl

theorem reached_relim {m : Option Nat} {s : PState} (h : reachedCallLimit s = false) (hok : LimOK m s) :
    reachedCallLimit (relim m s) = false := by
  unfold reachedCallLimit at h ⊢
  show (match relimC m s.calls with | none => false | some (cur, lim) => decide (cur ≥ lim)) = false
  cases m with
  | none => rfl
  | some m' =>
    cases hs : s.calls with
    | none => rfl
    | some x =>
      obtain ⟨cur, lim⟩ := x
      rw [hs] at h
      have hle := hok m' rfl cur lim hs
      simp [relimC] at h ⊢
      omega

/-! ### pieces that read `pa` but not `calls` -/

section
variable (fc : Option (Nat × Nat) → Option (Nat × Nat))

theorem handleToken_twc (s : PState) (a : Nat) (t : PTok) (b : Bool) :
    handleToken (tw fc id s) a t b = tw fc id (handleToken s a t b) := by
  unfold handleToken tw
  dsimp only [id]
  repeat' split
  all_goals rfl

theorem terminal_twc (s : PState) (r : Option (Bool × Nat)) (tok : Option PTok) :
    terminal (tw fc id s) r tok = (terminal s r tok).mapState (tw fc id) := by
  unfold terminal
  cases r with
  | none => rfl
  | some x =>
    obtain ⟨succ, pos'⟩ := x
    cases tok with
    | none => dsimp only; split <;> rfl
    | some t =>
      dsimp only
      have := handleToken_twc fc { s with pos := pos' } s.pos t succ
      split <;> simp only [Out.mapState] <;> rw [← this] <;> rfl

theorem tryAddRuleToStack_twc (s : PState) (r a b : Nat) :
    tryAddRuleToStack (tw fc id s) r a b = (tryAddRuleToStack s r a b).map (tw fc id) := by
  unfold tryAddRuleToStack tw
  dsimp only [id]
  repeat' split
  all_goals simp_all

theorem ruleAdd_twc (s1 : PState) (r : Nat) (ns : PState) :
    ruleAdd (tw fc id s1) r (tw fc id ns) = (ruleAdd s1 r ns).map (tw fc id) := by
  unfold ruleAdd
  rw [rulePre_tw]
  exact tryAddRuleToStack_twc fc ns r _ _

theorem ruleFinish_twc (s1 : PState) (r : Nat) (ns : PState) :
    ruleFinish (tw fc id s1) r (tw fc id ns) = (ruleFinish s1 r ns).mapState (tw fc id) := by
  unfold ruleFinish
  rw [ruleAdd_twc]
  show (if ns.pa.enabled = true then _ else _) = _
  split
  · cases ruleAdd s1 r ns <;> rfl
  · rfl

theorem ruleOkPost_twc (s1 : PState) (r : Nat) (ns : PState) :
    ruleOkPost (tw fc id s1) r (tw fc id ns) = (ruleOkPost s1 r ns).mapState (tw fc id) := by
  unfold ruleOkPost
  rw [ruleTrackIf_tw, ruleEmit_tw]
  cases ruleEmit s1 r (ruleTrackIf s1 r ns) with
  | none => rfl
  | some x => exact ruleFinish_twc fc s1 r x

theorem ruleErrAdd_twc (s1 : PState) (r : Nat) (ns : PState) :
    ruleErrAdd (tw fc id s1) r (tw fc id ns) = (ruleErrAdd s1 r ns).map (tw fc id) := by
  unfold ruleErrAdd
  rw [ruleTrack_tw, ruleAdd_twc]
  show (if ns.lookahead ≠ .negative then
      (if (ruleTrack s1 r ns).pa.enabled = true then _ else _) else _) = _
  split
  · split <;> rfl
  · rfl

theorem ruleErrPost_twc (s1 : PState) (r : Nat) (ns : PState) :
    ruleErrPost (tw fc id s1) r (tw fc id ns) = (ruleErrPost s1 r ns).mapState (tw fc id) := by
  unfold ruleErrPost
  rw [ruleErrAdd_twc]
  cases ruleErrAdd s1 r ns with
  | none => rfl
  | some x =>
    show Out.err (ruleErrTrunc (tw fc id s1) (tw fc id x)) = _
    rw [ruleErrTrunc_tw]; rfl

theorem ruleK_twc (r : Nat) (s1 : PState) (o : Out) :
    ruleK r (tw fc id s1) (o.mapState (tw fc id)) = (ruleK r s1 o).mapState (tw fc id) := by
  cases o with
  | ok ns => exact ruleOkPost_twc fc s1 r ns
  | err ns => exact ruleErrPost_twc fc s1 r ns
  | panic => rfl
  | fuel => rfl

end

/-! ### the simulation -/

abbrev SIH (cfg : Cfg) (m : Option Nat) (fuel : Nat) : Prop :=
  ∀ p s s', (run cfg fuel p s).state? = some s' → reachedCallLimit s' = false → LimOK m s →
    run cfg fuel p (relim m s) = (run cfg fuel p s).mapState (relim m)

section cases
variable (cfg : Cfg) (m : Option Nat) (fuel : Nat)

theorem sim_terminal (s : PState) (r : Option (Bool × Nat)) (tok : Option PTok) :
    terminal (relim m s) r tok = (terminal s r tok).mapState (relim m) := terminal_twc _ s r tok

theorem sim_stackPeek (s s' : PState) (h : (run cfg (fuel+1) .stackPeek s).state? = some s')
    (hnr : reachedCallLimit s' = false) (hok : LimOK m s) :
    run cfg (fuel+1) .stackPeek (relim m s) = (run cfg (fuel+1) .stackPeek s).mapState (relim m) := by
  have hr : reachedCallLimit s = false := (run_callsMono cfg _ _ s s' h).not_reached hnr
  have hr' := reached_relim hr hok
  rw [run, run]
  simp only [hr, hr']
  show (match s.stack.cache.head? with
    | none => Out.panic
    | some str => terminal (relim m s) (posMatchString s.input s.pos str) (some (.sens str))) = _
  cases s.stack.cache.head? with
  | none => rfl
  | some str => exact sim_terminal m s _ _

theorem sim_stackPop (s s' : PState) (h : (run cfg (fuel+1) .stackPop s).state? = some s')
    (hnr : reachedCallLimit s' = false) (hok : LimOK m s) :
    run cfg (fuel+1) .stackPop (relim m s) = (run cfg (fuel+1) .stackPop s).mapState (relim m) := by
  have hr : reachedCallLimit s = false := (run_callsMono cfg _ _ s s' h).not_reached hnr
  have hr' := reached_relim hr hok
  rw [run, run]
  simp only [hr, hr']
  show (match Stack.pop s.stack with
    | none => Out.panic
    | some (_, none) => Out.panic
    | some (st, some str) =>
      terminal (relim m { s with stack := st }) (posMatchString s.input s.pos str) (some (.sens str))) = _
  cases Stack.pop s.stack with
  | none => rfl
  | some x =>
    obtain ⟨st, v⟩ := x
    cases v with
    | none => rfl
    | some str => exact sim_terminal m { s with stack := st } _ _

variable (ih : SIH cfg m fuel)
include ih

theorem sim_bracket0 (body : Prog) (pre : PState → PState) (K : PState → Out → Out)
    (ha : ∀ s1, pre (relim m s1) = relim m (pre s1))
    (hpre : ∀ s1, (pre s1).calls = s1.calls)
    (hb : ∀ s1 o, K (relim m s1) (o.mapState (relim m)) = (K s1 o).mapState (relim m))
    (hc : KCalls K) (s1 s' : PState)
    (h : (bracket0 cfg fuel body pre K s1).state? = some s')
    (hnr : reachedCallLimit s' = false) (hok : LimOK m s1) :
    bracket0 cfg fuel body pre K (relim m s1) =
      (bracket0 cfg fuel body pre K s1).mapState (relim m) := by
  unfold bracket0 at *
  obtain ⟨ns, hns, hcalls⟩ := hc _ _ _ h
  rw [ha, ih body (pre s1) ns hns (by rw [← reached_of_calls hcalls]; exact hnr)
    (hok.of_calls (hpre s1)), hb]

theorem sim_bracket (body : Prog) (pre : PState → PState) (K : PState → Out → Out)
    (ha : ∀ s1, pre (relim m s1) = relim m (pre s1))
    (hpre : ∀ s1, (pre s1).calls = s1.calls)
    (hb : ∀ s1 o, K (relim m s1) (o.mapState (relim m)) = (K s1 o).mapState (relim m))
    (hc : KCalls K) (s s' : PState)
    (h : (bracket cfg fuel body pre K s).state? = some s')
    (hnr : reachedCallLimit s' = false) (hok : LimOK m s) :
    bracket cfg fuel body pre K (relim m s) =
      (bracket cfg fuel body pre K s).mapState (relim m) := by
  unfold bracket at *
  cases hic : incCall s with
  | none =>
    rw [hic] at h; simp at h; subst h
    rw [incCall_none hic] at hnr; simp at hnr
  | some s1 =>
    rw [hic] at h
    rw [incCall_relim hic hok]
    exact sim_bracket0 cfg m fuel ih body pre K ha hpre hb hc s1 s' h hnr (hok.mono (incCall_mono hic))

theorem sim_andThen (p q : Prog) (s s' : PState)
    (h : (run cfg (fuel+1) (.andThen p q) s).state? = some s')
    (hnr : reachedCallLimit s' = false) (hok : LimOK m s) :
    run cfg (fuel+1) (.andThen p q) (relim m s) =
      (run cfg (fuel+1) (.andThen p q) s).mapState (relim m) := by
  rw [run_andThen] at h
  rw [run_andThen, run_andThen]
  cases hp : run cfg fuel p s with
  | ok s1 =>
    rw [hp] at h; dsimp only at h
    have hm := run_callsMono cfg fuel q s1 s' h
    have hp' := ih p s s1 (by rw [hp]; rfl) (hm.not_reached hnr) hok
    rw [hp', hp]
    exact ih q s1 s' h hnr (hok.mono (run_callsMono cfg fuel p s s1 (by rw [hp]; rfl)))
  | err s1 =>
    rw [hp] at h; simp at h; subst h
    rw [ih p s s1 (by rw [hp]; rfl) hnr hok, hp]; rfl
  | panic => rw [hp] at h; simp at h
  | fuel => rw [hp] at h; simp at h

theorem sim_orElse (p q : Prog) (s s' : PState)
    (h : (run cfg (fuel+1) (.orElse p q) s).state? = some s')
    (hnr : reachedCallLimit s' = false) (hok : LimOK m s) :
    run cfg (fuel+1) (.orElse p q) (relim m s) =
      (run cfg (fuel+1) (.orElse p q) s).mapState (relim m) := by
  rw [run_orElse] at h
  rw [run_orElse, run_orElse]
  cases hp : run cfg fuel p s with
  | err s1 =>
    rw [hp] at h; dsimp only at h
    have hm := run_callsMono cfg fuel q s1 s' h
    have hp' := ih p s s1 (by rw [hp]; rfl) (hm.not_reached hnr) hok
    rw [hp', hp]
    exact ih q s1 s' h hnr (hok.mono (run_callsMono cfg fuel p s s1 (by rw [hp]; rfl)))
  | ok s1 =>
    rw [hp] at h; simp at h; subst h
    rw [ih p s s1 (by rw [hp]; rfl) hnr hok, hp]; rfl
  | panic => rw [hp] at h; simp at h
  | fuel => rw [hp] at h; simp at h

theorem sim_repLoop (p : Prog) (s s' : PState)
    (h : (run cfg (fuel+1) (.repLoop p) s).state? = some s')
    (hnr : reachedCallLimit s' = false) (hok : LimOK m s) :
    run cfg (fuel+1) (.repLoop p) (relim m s) =
      (run cfg (fuel+1) (.repLoop p) s).mapState (relim m) := by
  rw [run_repLoop] at h
  rw [run_repLoop, run_repLoop]
  cases hp : run cfg fuel p s with
  | ok s1 =>
    rw [hp] at h; dsimp only at h
    have hm := run_callsMono cfg fuel _ s1 s' h
    have hp' := ih p s s1 (by rw [hp]; rfl) (hm.not_reached hnr) hok
    rw [hp', hp]
    exact ih _ s1 s' h hnr (hok.mono (run_callsMono cfg fuel p s s1 (by rw [hp]; rfl)))
  | err s1 =>
    rw [hp] at h; simp at h; subst h
    rw [ih p s s1 (by rw [hp]; rfl) hnr hok, hp]; rfl
  | panic => rw [hp] at h; simp at h
  | fuel => rw [hp] at h; simp at h

theorem sim_call (i : Nat) (s s' : PState)
    (h : (run cfg (fuel+1) (.call i) s).state? = some s')
    (hnr : reachedCallLimit s' = false) (hok : LimOK m s) :
    run cfg (fuel+1) (.call i) (relim m s) = (run cfg (fuel+1) (.call i) s).mapState (relim m) := by
  rw [run_call] at h
  rw [run_call, run_call]
  cases hi : cfg.env[i]? with
  | none => rfl
  | some p => rw [hi] at h; exact ih p s s' h hnr hok

end cases

theorem atomPre_calls (a : Atomicity) (s1 : PState) : (atomPre a s1).calls = s1.calls :=
  (atomPre_core a s1).1

theorem rulePre_calls (s1 : PState) : (rulePre s1).calls = s1.calls := (rulePre_core s1).1

/-- **The simulation**: a completed run that does not end with the limit reached is, up to the
limit, the run with any larger limit (or none). -/
theorem run_relim (cfg : Cfg) (m : Option Nat) : ∀ (fuel : Nat) (p : Prog) (s s' : PState),
    (run cfg fuel p s).state? = some s' → reachedCallLimit s' = false → LimOK m s →
    run cfg fuel p (relim m s) = (run cfg fuel p s).mapState (relim m)
  | 0, p, s, s', h, _, _ => by rw [run_zero] at h; simp at h
  | fuel + 1, p, s, s', h, hnr, hok => by
    have ih : SIH cfg m fuel := run_relim cfg m fuel
    cases p with
    | sequence p =>
      rw [run_sequence_K] at h ⊢; rw [run_sequence_K]
      exact sim_bracket cfg m fuel ih p checkpoint seqK (fun _ => rfl) (fun _ => rfl)
        (seqK_tw _ _) seqK_calls s s' h hnr hok
    | optional p =>
      rw [run_optional_K] at h ⊢; rw [run_optional_K]
      exact sim_bracket cfg m fuel ih p id optK (fun _ => rfl) (fun _ => rfl)
        (optK_tw _ _) optK_calls s s' h hnr hok
    | repeat_ p =>
      rw [run_repeat_K] at h ⊢; rw [run_repeat_K]
      exact sim_bracket cfg m fuel ih _ id idK (fun _ => rfl) (fun _ => rfl)
        (idK_tw _ _) idK_calls s s' h hnr hok
    | repLoop p => exact sim_repLoop cfg m fuel ih p s s' h hnr hok
    | lookahead b p =>
      rw [run_lookahead_K] at h ⊢; rw [run_lookahead_K]
      exact sim_bracket cfg m fuel ih p (laPre b) (laK b) (fun _ => rfl) (fun _ => rfl)
        (laK_tw _ _ b) (laK_calls b) s s' h hnr hok
    | atomic a p =>
      rw [run_atomic_K] at h ⊢; rw [run_atomic_K]
      exact sim_bracket cfg m fuel ih p (atomPre a) (atomK a) (atomPre_tw _ _ a) (atomPre_calls a)
        (atomK_tw _ _ a) (atomK_calls a) s s' h hnr hok
    | rule r p =>
      rw [run_rule_K] at h ⊢; rw [run_rule_K]
      exact sim_bracket cfg m fuel ih p rulePre (ruleK r) (rulePre_tw _ _) rulePre_calls
        (ruleK_twc _ r) (ruleK_calls r) s s' h hnr hok
    | stackPush p =>
      rw [run_stackPush_K] at h ⊢; rw [run_stackPush_K]
      exact sim_bracket cfg m fuel ih p id pushK (fun _ => rfl) (fun _ => rfl)
        (pushK_tw _ _) pushK_calls s s' h hnr hok
    | restoreOnErr p =>
      rw [run_restoreOnErr_K] at h ⊢; rw [run_restoreOnErr_K]
      exact sim_bracket0 cfg m fuel ih p checkpoint roeK (fun _ => rfl) (fun _ => rfl)
        (roeK_tw _ _) roeK_calls s s' h hnr hok
    | andThen p q => exact sim_andThen cfg m fuel ih p q s s' h hnr hok
    | orElse p q => exact sim_orElse cfg m fuel ih p q s s' h hnr hok
    | call i => exact sim_call cfg m fuel ih i s s' h hnr hok
    | matchString str => rw [run, run]; exact sim_terminal m s _ _
    | matchInsensitive str => rw [run, run]; exact sim_terminal m s _ _
    | matchRange a b => rw [run, run]; exact sim_terminal m s _ _
    | matchCharBy cs => rw [run, run]; exact sim_terminal m s _ _
    | skip n => rw [run, run]; exact sim_terminal m s _ _
    | stackPeek => exact sim_stackPeek cfg m fuel s s' h hnr hok
    | stackPop => exact sim_stackPop cfg m fuel s s' h hnr hok
    | skipUntil strs => exact leaf_tw _ _ cfg fuel _ s trivial
    | startOfInput => exact leaf_tw _ _ cfg fuel _ s trivial
    | endOfInput => exact leaf_tw _ _ cfg fuel _ s trivial
    | stackMatchPeek => exact leaf_tw _ _ cfg fuel _ s trivial
    | stackMatchPop => exact leaf_tw _ _ cfg fuel _ s trivial
    | stackDrop => exact leaf_tw _ _ cfg fuel _ s trivial
    | stackMatchPeekSlice x y d => exact leaf_tw _ _ cfg fuel _ s trivial
    | stackPushLiteral str => exact leaf_tw _ _ cfg fuel _ s trivial
    | tagNode t => exact leaf_tw _ _ cfg fuel _ s trivial
    | ok => exact leaf_tw _ _ cfg fuel _ s trivial
    | fail => exact leaf_tw _ _ cfg fuel _ s trivial

end PestModel.PS

namespace PestModel.PS

theorem relim_none_eq : relim none = PState.eraseCalls := by
  funext s; rfl

theorem finish_relim {m : Option Nat} {o : Out} {s' : PState} (h : o.state? = some s')
    (hnr : reachedCallLimit s' = false) (hok : LimOK m s') :
    finish (o.mapState (relim m)) = finish o := by
  have hr' := reached_relim hnr hok
  rcases state?_some_cases h with rfl | rfl
  · show (if reachedCallLimit (relim m s') = true then _ else _) =
      (if reachedCallLimit s' = true then _ else _)
    rw [hr', hnr]; rfl
  · show (if reachedCallLimit (relim m s') = true then _ else _) =
      (if reachedCallLimit s' = true then _ else _)
    rw [hr', hnr]; rfl

/-- a completed run ending with the limit reached reports the call-limit error. -/
theorem finish_reached {o : Out} {s' : PState} (h : o.state? = some s')
    (hr : reachedCallLimit s' = true) : finish o = some (.callLimit s'.attemptPos) := by
  rcases state?_some_cases h with rfl | rfl <;> simp [finish, hr]

/-- a report other than the call-limit error comes from a completed run that did not reach the
limit. -/
theorem finish_not_limit {o : Out} {rep : Report} (h : finish o = some rep)
    (hnl : ∀ pos, rep ≠ .callLimit pos) :
    ∃ s', o.state? = some s' ∧ reachedCallLimit s' = false := by
  cases o with
  | ok s' =>
    refine ⟨s', rfl, ?_⟩
    cases hr : reachedCallLimit s' with
    | false => rfl
    | true => simp [finish, hr] at h; exact absurd h.symm (hnl _)
  | err s' =>
    refine ⟨s', rfl, ?_⟩
    cases hr : reachedCallLimit s' with
    | false => rfl
    | true => simp [finish, hr] at h; exact absurd h.symm (hnl _)
  | panic => simp [finish] at h
  | fuel => simp [finish] at h

end PestModel.PS
