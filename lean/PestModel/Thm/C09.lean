import PestModel.Model.Grammar
/-! # C09 — modelled panic sites of the front-end's back half (unroller / conversion). -/
namespace PestModel.C09
open PestModel.G

theorem seqOfList_isSome : ∀ (l : List Expr), l ≠ [] → (seqOfList l).isSome = true
  | [], h => absurd rfl h
  | [_], _ => rfl
  | _ :: b :: rest, _ => by
    have := seqOfList_isSome (b :: rest) (by simp)
    cases h : seqOfList (b :: rest) with
    | none => simp [h] at this
    | some v => simp [seqOfList, h]

/-- `unroll` panics exactly on an empty unrolling (`e{0}`, `e{,0}`, `e{m,0}`), which the reader
rejects ("cannot repeat 0 times"): for positive counts `unrollF` is total. -/
theorem unrollF_total (extras : Bool) (e : Expr) (n m : Nat) (hn : 0 < n) :
    (unrollF extras (.repExact e n)).isSome ∧ (unrollF extras (.repMin e m)).isSome ∧
    (unrollF extras (.repMax e n)).isSome ∧ (unrollF extras (.repMinMax e m n)).isSome := by
  refine ⟨?_, ?_, ?_, ?_⟩
  · exact seqOfList_isSome _ (by cases n <;> simp_all [List.replicate])
  · exact seqOfList_isSome _ (by simp)
  · exact seqOfList_isSome _ (by cases n <;> simp_all [List.replicate])
  · refine seqOfList_isSome _ ?_
    intro h
    have := congrArg List.length h
    simp at this
    omega

end PestModel.C09
