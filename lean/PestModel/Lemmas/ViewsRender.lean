import PestModel.Lemmas.ViewsPairs
/-! Helper lemmas for C04: the renderers (`{:#}`, `{:?}`) agree with the tree-side functions. -/
namespace PestModel.Views
open PestModel.PS (QTok)
open PestModel.LineCol (Str slice?)

variable {q : List QTok}

theorem starts_cons_of {a e : Nat} {r p0 p1 : Nat} {tag : Option Str} {kids rest : List Tree}
    (hk : Layout q (a + 1) kids e) :
    starts a (.node r p0 p1 tag kids :: rest) = a :: starts (e + 1) rest := by
  have := hk.size
  have h : a + (2 + sizeList kids) = e + 1 := by omega
  simp [starts, h]

/-! ### alternate `Display` -/

theorem altList_of_layout {a b : Nat} {ts : List Tree} (h : Layout q a ts b) :
    ∀ fuel, b - a + 1 ≤ fuel → showPairsAltList q fuel (starts a ts) = some (altOfList ts) := by
  induction h with
  | nil a =>
    intro fuel hf
    obtain ⟨f, rfl⟩ : ∃ f, fuel = f + 1 := ⟨fuel - 1, by omega⟩
    simp [starts, showPairsAltList, altOfList]
  | cons h1 h2 hk hr ihk ihr =>
    rename_i a e b r p0 p1 tag kids rest
    intro fuel hf
    have := hk.le; have := hr.le
    obtain ⟨f, rfl⟩ : ∃ f, fuel = f + 2 := ⟨fuel - 2, by omega⟩
    have hobs : PairObs q a (.node r p0 p1 tag kids) := pairObs_of h1 h2 hk
    have hp : showPairAlt q (f + 1) a = some (altOf (.node r p0 p1 tag kids)) := by
      rw [showPairAlt]
      simp only [hobs.1, hobs.2.1, pairEnd_of h1, pairsList_of_layout' hk, Tree.rule, Tree.start, Tree.stop]
      cases kids with
      | nil => simp [starts, altOf]
      | cons k ks =>
        have ih' := ihk f (by omega)
        simp only [starts] at ih' ⊢
        simp [ih', altOf]
    rw [starts_cons_of hk, showPairsAltList, ihr (f + 1) (by omega), hp]
    simp [altOfList]

/-! ### `Debug` -/

theorem debugList_of_layout {input : Str} {a b : Nat} {ts : List Tree} (h : Layout q a ts b) :
    ∀ fuel, b - a + 1 ≤ fuel → showPairsDebugList q input fuel (starts a ts) = debugOfList input ts := by
  induction h with
  | nil a =>
    intro fuel hf
    obtain ⟨f, rfl⟩ : ∃ f, fuel = f + 1 := ⟨fuel - 1, by omega⟩
    simp [starts, showPairsDebugList, debugOfList]
  | cons h1 h2 hk hr ihk ihr =>
    rename_i a e b r p0 p1 tag kids rest
    intro fuel hf
    have := hk.le; have := hr.le
    obtain ⟨f, rfl⟩ : ∃ f, fuel = f + 2 := ⟨fuel - 2, by omega⟩
    have hobs : PairObs q a (.node r p0 p1 tag kids) := pairObs_of h1 h2 hk
    have hp : showPairDebug q input (f + 1) a = debugOf input (.node r p0 p1 tag kids) := by
      rw [showPairDebug]
      simp only [debugOf]
      simp only [hobs.1, hobs.2.1, hobs.2.2.1, pairEnd_of h1, pairStr_of_obs hobs,
        Tree.rule, Tree.start, Tree.stop, Tree.tag, strOf]
      cases slice? input p0 p1 with
      | none => simp
      | some str =>
        simp only [pairsList_of_layout' hk, ihk f (by omega)]
        cases debugOfList input kids <;> cases tag <;> rfl
    rw [starts_cons_of hk, showPairsDebugList, ihr (f + 1) (by omega), hp]
    simp only [debugOfList]
    generalize debugOf input _ = x
    generalize debugOfList input rest = y
    cases x <;> cases y <;> rfl

end PestModel.Views
