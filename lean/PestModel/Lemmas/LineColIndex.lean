import PestModel.Lemmas.LineColLoop
namespace PestModel.LineCol

/-- the part of `pre` up to and including its last newline -/
def linePre (pre : Str) : Str := (pre.reverse.dropWhile (· ≠ '\n')).reverse

/-- "closed": empty or newline-terminated -/
def Closed (A : Str) : Prop := A = [] ∨ ∃ d, A = d ++ ['\n']

theorem linePre_append_lineHead (pre : Str) : linePre pre ++ lineHead pre = pre := by
  unfold linePre lineHead
  rw [← List.reverse_append, List.takeWhile_append_dropWhile, List.reverse_reverse]

theorem dropWhile_head_false {α : Type} (p : α → Bool) (l : List α) :
    l.dropWhile p = [] ∨ ∃ x xs, l.dropWhile p = x :: xs ∧ p x = false := by
  induction l with
  | nil => simp
  | cons a as ih =>
    by_cases h : p a
    · simpa [List.dropWhile_cons, h] using ih
    · right; exact ⟨a, as, by simp [h], by simpa using h⟩

theorem linePre_closed (pre : Str) : Closed (linePre pre) := by
  unfold linePre Closed
  rcases dropWhile_head_false (· ≠ '\n') pre.reverse with h | ⟨x, xs, h, hx⟩
  · left; rw [h]; rfl
  · right
    simp at hx
    subst hx
    exact ⟨xs.reverse, by rw [h]; simp⟩

theorem lineHead_no_nl (pre : Str) : '\n' ∉ lineHead pre := by
  unfold lineHead
  intro h
  rw [List.mem_reverse] at h
  have h2 := List.all_takeWhile (l := pre.reverse) (p := (· ≠ '\n'))
  rw [List.all_eq_true] at h2
  have := h2 _ h
  simp at this

theorem lineHead_length (pre : Str) :
    (lineHead pre).length = (pre.reverse.takeWhile (· ≠ '\n')).length := by
  simp [lineHead]

theorem count_linePre (pre : Str) : (linePre pre).count '\n' = pre.count '\n' := by
  conv => rhs; rw [← linePre_append_lineHead pre]
  rw [List.count_append, List.count_eq_zero_of_not_mem (lineHead_no_nl pre)]; rfl

/-! ### lineOffsets -/

theorem lineOffsetsGo_append (a b : Str) (o : Nat) :
    lineOffsetsGo (a ++ b) o = lineOffsetsGo a o ++ lineOffsetsGo b (o + bLen a) := by
  induction a generalizing o with
  | nil => simp [lineOffsetsGo]
  | cons c cs ih =>
    simp only [List.cons_append, lineOffsetsGo, ih, bLen_cons]
    split <;> simp [Nat.add_assoc]

theorem lineOffsetsGo_no_nl {a : Str} (h : '\n' ∉ a) (o : Nat) : lineOffsetsGo a o = [] := by
  induction a generalizing o with
  | nil => rfl
  | cons c cs ih =>
    simp at h
    simp only [lineOffsetsGo]
    rw [if_neg (fun e => h.1 e.symm)]
    exact ih h.2 _

theorem lineOffsetsGo_length (a : Str) (o : Nat) : (lineOffsetsGo a o).length = a.count '\n' := by
  induction a generalizing o with
  | nil => rfl
  | cons c cs ih =>
    simp only [lineOffsetsGo]
    split
    · rename_i h; subst h; simp [ih]
    · rename_i h; simp [ih, h]

theorem lineOffsetsGo_le (a : Str) (o : Nat) : ∀ x ∈ lineOffsetsGo a o, x ≤ o + bLen a := by
  induction a generalizing o with
  | nil => simp [lineOffsetsGo]
  | cons c cs ih =>
    intro x hx
    simp only [lineOffsetsGo] at hx
    split at hx
    · simp at hx
      rcases hx with rfl | hx
      · simp
      · have := ih _ x hx; simp; omega
    · have := ih _ x hx; simp; omega

theorem lineOffsetsGo_gt (a : Str) (o : Nat) : ∀ x ∈ lineOffsetsGo a o, o < x := by
  induction a generalizing o with
  | nil => simp [lineOffsetsGo]
  | cons c cs ih =>
    intro x hx
    have hc := cLen_pos c
    simp only [lineOffsetsGo] at hx
    split at hx
    · simp at hx
      rcases hx with rfl | hx
      · omega
      · have := ih _ x hx; omega
    · have := ih _ x hx; omega

/-- last line start of a closed prefix -/
theorem lineOffsets_closed_getLast {A : Str} (h : Closed A) :
    (0 :: lineOffsetsGo A 0)[A.count '\n']? = some (bLen A) := by
  rcases h with rfl | ⟨d, rfl⟩
  · simp [lineOffsetsGo]
  · rw [lineOffsetsGo_append]
    simp only [lineOffsetsGo, List.count_append, if_true]
    simp
    rw [List.getElem?_append_right (by simp [lineOffsetsGo_length])]
    simp [lineOffsetsGo_length]

theorem partitionPoint_lineOffsets (pre mid : Str) :
    partitionPoint (lineOffsets (pre ++ mid)) (bLen pre) = 1 + pre.count '\n' := by
  unfold partitionPoint lineOffsets
  rw [lineOffsetsGo_append]
  have h1 : ∀ x ∈ 0 :: lineOffsetsGo pre 0, decide (x ≤ bLen pre) = true := by
    intro x hx
    simp at hx
    rcases hx with rfl | hx
    · simp
    · have := lineOffsetsGo_le pre 0 x hx; simp; omega
  rw [← List.cons_append, List.takeWhile_append_of_pos h1]
  have h2 : (lineOffsetsGo mid (0 + bLen pre)).takeWhile (fun x => decide (x ≤ bLen pre)) = [] := by
    cases h : lineOffsetsGo mid (0 + bLen pre) with
    | nil => rfl
    | cons y ys =>
      have := lineOffsetsGo_gt mid (0 + bLen pre) y (by rw [h]; simp)
      rw [List.takeWhile_cons_of_neg (by simp; omega)]
  rw [h2]
  simp [lineOffsetsGo_length]; omega

theorem lineOffsets_getElem {A : Str} (hA : Closed A) (r : Str) :
    (lineOffsets (A ++ r))[A.count '\n']? = some (bLen A) := by
  have hc := lineOffsets_closed_getLast hA
  have hlt : A.count '\n' < (0 :: lineOffsetsGo A 0).length := by
    simp [lineOffsetsGo_length]
  unfold lineOffsets
  rw [lineOffsetsGo_append, ← List.cons_append, List.getElem?_append_left hlt, hc]

theorem lineIndex_spec (pre mid rest : Str) :
    lineIndexLineCol (lineOffsets (pre ++ mid)) (pre ++ mid ++ rest) (bLen pre)
      = some (lineColSpecChars pre) := by
  unfold lineIndexLineCol
  simp only [partitionPoint_lineOffsets]
  rw [if_neg (by omega)]
  have hidx : (lineOffsets (pre ++ mid))[1 + pre.count '\n' - 1]? = some (bLen (linePre pre)) := by
    rw [show 1 + pre.count '\n' - 1 = (linePre pre).count '\n' by rw [count_linePre]; omega]
    have := lineOffsets_getElem (linePre_closed pre) (lineHead pre ++ mid)
    rwa [← List.append_assoc, linePre_append_lineHead] at this
  rw [hidx]
  simp only
  have hs : slice? (pre ++ mid ++ rest) (bLen (linePre pre)) (bLen pre) = some (lineHead pre) := by
    have := slice_append (linePre pre) (lineHead pre) (mid ++ rest)
    rw [← bLen_append, linePre_append_lineHead] at this
    simpa using this
  rw [hs]
  simp [lineColSpecChars, lineHead_length]; omega

theorem lineIndex_eq_spec (s text rest : Str) (off k : Nat) (hk : splitAt? s k = some (text, rest))
    (hoff : isBoundary s off = true) (hle : off ≤ k) :
    lineIndexLineCol (lineOffsets text) s off = lineColSpec s off := by
  obtain ⟨rfl, rfl⟩ := splitAt_some hk
  obtain ⟨pre, post, h, rfl⟩ := (isBoundary_iff _ _).1 hoff
  obtain ⟨m, rfl, rfl⟩ := prefix_of_bLen_le h.symm hle
  rw [lineIndex_spec]
  unfold lineColSpec
  rw [List.append_assoc, splitAt_append]
  rfl

end PestModel.LineCol
