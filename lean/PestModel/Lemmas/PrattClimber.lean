import PestModel.Lemmas.Pratt
/-!
Helper lemmas for `climber_eq`: the `PrecClimber` functions are simulated directly by the
shunting-yard machine (for infix-only tables with one associativity per level).
-/
namespace PestModel.Pratt

/-! ### Table correspondence -/

/-- What `climber_eq` needs to know about the two tables. -/
structure CT (ct : CTable) (pt : Table) : Prop where
  tnone : ∀ r, ct r = none → pt r = none
  tsome : ∀ r p a, ct r = some (p, a) → pt r = some (.infix a, 10 * p + 10)
  single : ∀ r₁ r₂ p a₁ a₂, ct r₁ = some (p, a₁) → ct r₂ = some (p, a₂) → a₁ = a₂

theorem key_inj {α : Type} (key : α → Nat) : ∀ {es : List α}, (es.map key).Nodup →
    ∀ {x y : α}, x ∈ es → y ∈ es → key x = key y → x = y := by
  intro es
  induction es with
  | nil => intro _ x y hx; cases hx
  | cons e es ih =>
    intro hnd x y hx hy hk
    simp only [List.map_cons, List.nodup_cons, List.mem_map, not_exists, not_and] at hnd
    obtain ⟨hne, hnd'⟩ := hnd
    rcases List.mem_cons.mp hx with rfl | hx' <;> rcases List.mem_cons.mp hy with rfl | hy'
    · rfl
    · exact absurd hk.symm (hne y hy')
    · exact absurd hk (hne x hx')
    · exact ih hnd' hx' hy' hk

theorem find_unique {α : Type} {p : α → Bool} {l : List α} {x : α}
    (hu : ∀ y ∈ l, p y = true → y = x) (hx : x ∈ l) (hp : p x = true) : l.find? p = some x := by
  cases h : l.find? p with
  | none => exact absurd hp (List.find?_eq_none.mp h x hx)
  | some y =>
    have := hu y (List.mem_of_find?_eq_some h) (List.find?_some h)
    rw [this]

def climbToPratt : Nat × Nat × Assoc → Nat × Affix × Nat := fun (r, p, a) => (r, .infix a, 10 * p + 10)

def toPrattLevels' (cl : List (List (Nat × Assoc))) : List (List (Nat × Affix)) :=
  cl.map fun l => l.map fun (r, a) => (r, Affix.infix a)

theorem prattEntries_climber (cl : List (List (Nat × Assoc))) : ∀ c,
    prattEntries (toPrattLevels' cl) (10 * c) = (climberEntries cl c).map climbToPratt := by
  induction cl with
  | nil => intro c; rfl
  | cons lvl rest ih =>
    intro c
    have h10 : 10 * c + 10 = 10 * (c + 1) := by omega
    simp only [toPrattLevels', List.map_cons, prattEntries, climberEntries, List.map_append,
      List.map_map]
    rw [h10]
    have := ih (c + 1)
    simp only [toPrattLevels'] at this
    rw [this]
    congr 1

theorem climberEntries_keys (cl : List (List (Nat × Assoc))) : ∀ c,
    (climberEntries cl c).map (·.1) = cl.flatten.map (·.1) := by
  induction cl with
  | nil => intro c; rfl
  | cons lvl rest ih =>
    intro c
    simp only [climberEntries, List.map_append, List.map_map, List.flatten_cons, ih]
    congr 1

theorem climberEntries_ge {cl : List (List (Nat × Assoc))} : ∀ {c r p a},
    (r, p, a) ∈ climberEntries cl c → c ≤ p := by
  induction cl with
  | nil => intro c r p a h; cases h
  | cons lvl rest ih =>
    intro c r p a h
    simp only [climberEntries, List.mem_append, List.mem_map] at h
    rcases h with ⟨x, _, hx⟩ | h
    · cases hx; exact Nat.le_refl _
    · have := ih h; omega

theorem climberEntries_single {cl : List (List (Nat × Assoc))}
    (hsingle : ∀ l ∈ cl, ∀ x ∈ l, ∀ y ∈ l, x.2 = y.2) : ∀ {c r₁ r₂ p a₁ a₂},
    (r₁, p, a₁) ∈ climberEntries cl c → (r₂, p, a₂) ∈ climberEntries cl c → a₁ = a₂ := by
  induction cl with
  | nil => intro c r₁ r₂ p a₁ a₂ h; cases h
  | cons lvl rest ih =>
    intro c r₁ r₂ p a₁ a₂ h1 h2
    simp only [climberEntries, List.mem_append, List.mem_map] at h1 h2
    rcases h1 with ⟨x, hx, hx'⟩ | h1 <;> rcases h2 with ⟨y, hy, hy'⟩ | h2
    · cases hx'; cases hy'
      exact hsingle lvl List.mem_cons_self x hx y hy
    · cases hx'
      have := climberEntries_ge h2; omega
    · cases hy'
      have := climberEntries_ge h1; omega
    · exact ih (fun l hl => hsingle l (List.mem_cons_of_mem _ hl)) h1 h2

theorem climberTable_mem {cl : List (List (Nat × Assoc))} {r p : Nat} {a : Assoc}
    (h : climberTable cl r = some (p, a)) : (r, p, a) ∈ climberEntries cl 1 := by
  unfold climberTable at h
  split at h
  · next r' p' a' hf =>
    cases h
    have h1 := List.find?_some hf
    have h2 := List.mem_of_find?_eq_some hf
    simp at h1
    subst h1
    exact h2
  · cases h

theorem CT_of_levels (cl : List (List (Nat × Assoc)))
    (hdistinct : (cl.flatten.map (·.1)).Nodup)
    (hsingle : ∀ l ∈ cl, ∀ x ∈ l, ∀ y ∈ l, x.2 = y.2) :
    CT (climberTable cl) (prattTable (toPrattLevels' cl)) where
  tnone := by
    intro r h
    unfold climberTable at h
    split at h
    · cases h
    · next hf =>
      unfold prattTable lookupLast
      have := prattEntries_climber cl 1
      simp only [Nat.mul_one] at this
      rw [this]
      have hnone : List.find? (fun e => decide (e.1 = r))
          (List.map climbToPratt (climberEntries cl 1)).reverse = none := by
        rw [List.find?_eq_none]
        intro x hx
        simp only [List.mem_reverse, List.mem_map] at hx
        obtain ⟨e, he, rfl⟩ := hx
        have := List.find?_eq_none.mp hf e he
        obtain ⟨r', p, a⟩ := e
        simp only [decide_eq_true_eq] at this
        simp [climbToPratt, this]
      rw [hnone]
  tsome := by
    intro r p a h
    have hm := climberTable_mem h
    have hnd : ((climberEntries cl 1).map (·.1)).Nodup := by
      rw [climberEntries_keys]; exact hdistinct
    unfold prattTable lookupLast
    have := prattEntries_climber cl 1
    simp only [Nat.mul_one] at this
    rw [this]
    have hfind : List.find? (fun e => decide (e.1 = r))
        (List.map climbToPratt (climberEntries cl 1)).reverse = some (r, .infix a, 10 * p + 10) := by
      apply find_unique
      · intro y hy hp
        simp only [List.mem_reverse, List.mem_map] at hy
        obtain ⟨e, he, rfl⟩ := hy
        obtain ⟨r', p', a'⟩ := e
        have hp : r' = r := of_decide_eq_true hp
        subst hp
        have := key_inj (·.1) hnd he hm rfl
        cases this
        rfl
      · simp only [List.mem_reverse, List.mem_map]
        exact ⟨_, hm, rfl⟩
      · simp
    rw [hfind]
  single := by
    intro r₁ r₂ p a₁ a₂ h1 h2
    exact climberEntries_single hsingle (climberTable_mem h1) (climberTable_mem h2)


/-! ### The climber is simulated by the shunting-yard machine -/

/-- `sy … false` only looks at the stacks through `reduceWhile (lbp rest)`. -/
theorem sy_false_congr' {t : Table} {rest : List Nat} {ops ops' : List Pending}
    {out out' : List Tree}
    (h : ∀ q, lbp t rest = .ok q → reduceWhile q ops out = reduceWhile q ops' out') :
    sy t false rest ops out = sy t false rest ops' out' := by
  cases hq : lbp t rest with
  | ok q => exact sy_false_congr hq (h q hq)
  | fuel =>
    cases rest with
    | nil => simp [lbp] at hq
    | cons r rest => simp only [lbp] at hq; split at hq <;> cases hq
  | panic =>
    cases rest with
    | nil => simp [lbp] at hq
    | cons r rest =>
      simp only [lbp] at hq
      split at hq
      · cases hq
      · next hn => simp only [sy, hn]

def CondI (p np : Nat) (a : Assoc) : Prop := np > p ∨ (a = .right ∧ np = p)

instance (p np : Nat) (a : Assoc) : Decidable (CondI p np a) := by unfold CondI; infer_instance

def StopR (ct : CTable) (m : Nat) (rest : List Nat) : Prop :=
  ∀ r rest0 p a, rest = r :: rest0 → ct r = some (p, a) → p < m

def StopI (ct : CTable) (p : Nat) (rest : List Nat) : Prop :=
  ∀ r rest0 np a, rest = r :: rest0 → ct r = some (np, a) → ¬ CondI p np a

def FrozenR (m : Nat) (ops : List Pending) : Prop :=
  ∀ o, ops.head? = some o → o.rbp < 10 * m + 10

def FrozenI (ct : CTable) (p : Nat) (ops : List Pending) : Prop :=
  ∀ o, ops.head? = some o → ∀ r np a, ct r = some (np, a) → CondI p np a → o.rbp < 10 * np + 10

theorem CT.wf_false_cons {ct : CTable} {pt : Table} (h : CT ct pt) {r : Nat} {rest : List Nat}
    (hwf : wf pt false (r :: rest) = true) :
    ∃ p a, ct r = some (p, a) ∧ pt r = some (.infix a, 10 * p + 10) ∧ wf pt true rest = true := by
  cases hc : ct r with
  | none => simp [wf, h.tnone r hc] at hwf
  | some pa =>
    obtain ⟨p, a⟩ := pa
    have := h.tsome r p a hc
    simp only [wf, this] at hwf
    exact ⟨p, a, rfl, this, hwf⟩

theorem CT.wf_true {ct : CTable} {pt : Table} (h : CT ct pt) {toks : List Nat}
    (hwf : wf pt true toks = true) :
    ∃ q rest, toks = q :: rest ∧ pt q = none ∧ wf pt false rest = true := by
  cases toks with
  | nil => simp [wf] at hwf
  | cons q rest =>
    cases hc : ct q with
    | none =>
      have := h.tnone q hc
      simp only [wf, this] at hwf
      exact ⟨q, rest, rfl, this, hwf⟩
    | some pa =>
      obtain ⟨p, a⟩ := pa
      simp [wf, h.tsome q p a hc] at hwf

theorem climb_all {ct : CTable} {pt : Table} (hct : CT ct pt) (f : Nat) :
    (∀ lhs m toks, wf pt false toks = true → 2 * toks.length + 1 ≤ f →
      ∃ tree rest, climbRec ct f lhs m toks = .ok (tree, rest) ∧ wf pt false rest = true ∧
        rest.length ≤ toks.length ∧
        (∀ r rest0 p a, toks = r :: rest0 → ct r = some (p, a) → m ≤ p →
          rest.length < toks.length) ∧
        StopR ct m rest ∧
        ∀ ops out, FrozenR m ops →
          sy pt false toks ops (lhs :: out) = sy pt false rest ops (tree :: out)) ∧
    (∀ rhs p toks, wf pt false toks = true → 2 * toks.length + 2 ≤ f →
      ∃ tree rest, climbInner ct f rhs p toks = .ok (tree, rest) ∧ wf pt false rest = true ∧
        rest.length ≤ toks.length ∧
        StopI ct p rest ∧
        ∀ ops out, FrozenI ct p ops →
          sy pt false toks ops (rhs :: out) = sy pt false rest ops (tree :: out)) := by
  induction f with
  | zero =>
    refine ⟨?_, ?_⟩
    · intro lhs m toks _ hf; omega
    · intro rhs p toks _ hf; omega
  | succ f ih =>
    obtain ⟨ihR, ihI⟩ := ih
    refine ⟨?_, ?_⟩
    · intro lhs m toks hwf hf
      cases toks with
      | nil =>
        refine ⟨lhs, [], rfl, hwf, Nat.le_refl _, ?_, ?_, ?_⟩
        · intro r rest0 p a h; cases h
        · intro r rest0 p a h; cases h
        · intro ops out _; rfl
      | cons r rest1 =>
        obtain ⟨p, a, hcr, hpr, hwf1⟩ := hct.wf_false_cons hwf
        rw [climbRec.eq_3]
        simp only [hcr]
        by_cases hge : p ≥ m
        · rw [if_pos hge]
          obtain ⟨q, rest2, rfl, hpq, hwf2⟩ := hct.wf_true hwf1
          simp only [List.length_cons] at hf
          obtain ⟨rhs, rest3, hI, hwf3, hlen3, hstopI, hsimI⟩ :=
            ihI (.prim q) p rest2 hwf2 (by omega)
          obtain ⟨tree, rest, hR, hwf4, hlen4, _, hstopR, hsimR⟩ :=
            ihR (.inf lhs r rhs) m rest3 hwf3 (by omega)
          refine ⟨tree, rest, ?_, hwf4, ?_, ?_, hstopR, ?_⟩
          · simp only [hI]; exact hR
          · simp only [List.length_cons]; omega
          · intro _ _ _ _ _ _ _; simp only [List.length_cons]; omega
          · intro ops out hfr
            have hfr1 : ∀ o, ops.head? = some o → o.rbp < 10 * p + 10 := by
              intro o ho; have := hfr o ho; omega
            simp only [sy, hpr, hpq, reduceWhile_frozen hfr1]
            rw [hsimI]
            · rw [← hsimR ops out hfr]
              apply sy_false_congr'
              intro q' hq'
              apply reduceWhile_pop _ rfl
              cases rest3 with
              | nil => simp only [lbp] at hq'; cases hq'; exact Nat.zero_le _
              | cons r' rest4 =>
                obtain ⟨np, a', hcr', hpr', _⟩ := hct.wf_false_cons hwf3
                simp only [lbp, hpr'] at hq'
                cases hq'
                have hs := hstopI r' rest4 np a' rfl hcr'
                unfold CondI at hs
                cases a with
                | left => simp only [Pending.rbp]; omega
                | right =>
                  simp only [Pending.rbp]
                  by_cases hnp : np = p
                  · subst hnp
                    have := hct.single _ _ _ _ _ hcr' hcr
                    subst this
                    exact absurd (Or.inr ⟨rfl, rfl⟩) hs
                  · omega
            · intro o ho r' np a' hcr' hcond
              cases ho
              unfold CondI at hcond
              cases a with
              | left =>
                simp only [Pending.rbp]
                rcases hcond with h | ⟨h1, h2⟩
                · omega
                · subst h2
                  have := hct.single _ _ _ _ _ hcr' hcr
                  subst this
                  cases h1
              | right => simp only [Pending.rbp]; omega
        · rw [if_neg hge]
          refine ⟨lhs, r :: rest1, rfl, hwf, Nat.le_refl _, ?_, ?_, ?_⟩
          · intro r' rest0 p' a' h hc hle
            cases h
            rw [hcr] at hc; cases hc
            omega
          · intro r' rest0 p' a' h hc
            cases h
            rw [hcr] at hc; cases hc
            omega
          · intro ops out _; rfl
    · intro rhs p toks hwf hf
      cases toks with
      | nil =>
        refine ⟨rhs, [], rfl, hwf, Nat.le_refl _, ?_, ?_⟩
        · intro r rest0 p a h; cases h
        · intro ops out _; rfl
      | cons r rest1 =>
        obtain ⟨np, a, hcr, hpr, hwf1⟩ := hct.wf_false_cons hwf
        rw [climbInner.eq_3]
        simp only [hcr]
        by_cases hc : CondI p np a
        · have hc' : np > p ∨ a = Assoc.right ∧ np = p := hc
          rw [if_pos hc']
          obtain ⟨rhs', rest', hR, hwf', hlen', hlt, hstopR, hsimR⟩ :=
            ihR rhs np (r :: rest1) hwf (by omega)
          have hlt' := hlt r rest1 np a rfl hcr (Nat.le_refl _)
          obtain ⟨tree, rest, hI, hwf2, hlen2, hstopI, hsimI⟩ :=
            ihI rhs' p rest' hwf' (by simp only [List.length_cons] at hf hlt'; omega)
          refine ⟨tree, rest, ?_, hwf2, by omega, hstopI, ?_⟩
          · simp only [hR]; exact hI
          · intro ops out hfr
            rw [hsimR ops out (fun o ho => hfr o ho r np a hcr hc), hsimI ops out hfr]
        · have hc' : ¬ (np > p ∨ a = Assoc.right ∧ np = p) := hc
          rw [if_neg hc']
          refine ⟨rhs, r :: rest1, rfl, hwf, Nat.le_refl _, ?_, ?_⟩
          · intro r' rest0 p' a' h hc'
            cases h
            rw [hcr] at hc'; cases hc'
            exact hc
          · intro ops out _; rfl


theorem climb_eq_sy {ct : CTable} {pt : Table} (hct : CT ct pt) {toks : List Nat}
    (hwf : wf pt true toks = true) :
    ∃ tree, climb ct toks = .ok (tree, []) ∧ shuntingYard pt toks = some tree := by
  obtain ⟨q, rest, rfl, hpq, hwf1⟩ := hct.wf_true hwf
  obtain ⟨tree, rest', hR, hwf', _, _, hstop, hsim⟩ :=
    (climb_all hct (4 * rest.length + 4)).1 (.prim q) 0 rest hwf1 (by omega)
  have : rest' = [] := by
    cases rest' with
    | nil => rfl
    | cons r' rest'' =>
      obtain ⟨p, a, hcr, _, _⟩ := hct.wf_false_cons hwf'
      have := hstop r' rest'' p a rfl hcr
      omega
  subst this
  refine ⟨tree, hR, ?_⟩
  unfold shuntingYard
  simp only [sy, hpq]
  rw [hsim [] [] (by intro o ho; cases ho)]
  rfl

/-- The climber and the Pratt parser agree (both equal the shunting-yard tree). -/
theorem climb_eq_parse (cl : List (List (Nat × Assoc)))
    (hdistinct : (cl.flatten.map (·.1)).Nodup)
    (hsingle : ∀ l ∈ cl, ∀ x ∈ l, ∀ y ∈ l, x.2 = y.2) {toks : List Nat}
    (hwf : wf (prattTable (toPrattLevels' cl)) true toks = true) :
    ∃ tree, climb (climberTable cl) toks = .ok (tree, []) ∧
      parse (prattTable (toPrattLevels' cl)) toks = .ok (tree, []) := by
  obtain ⟨tree, hc, hs⟩ := climb_eq_sy (CT_of_levels cl hdistinct hsingle) hwf
  obtain ⟨tree', hp⟩ := parse_total (prattTable_pos' _) hwf
  have := parse_sim hp
  rw [hs] at this
  cases this
  exact ⟨tree, hc, hp⟩

end PestModel.Pratt
