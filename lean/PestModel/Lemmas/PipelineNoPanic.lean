import PestModel.Model.Pipeline
import PestModel.Lemmas.RefSliced
import PestModel.Lemmas.ReaderAgree
import PestModel.Lemmas.OptTotal
import PestModel.Lemmas.MetaRules
/-!
C09, the whole pipeline: **`parse_and_optimize` reaches none of its panic sites on any text** (`validate_pairs`' `unwrap`,
the reader's, the unroller's `unwrap`, `rule_to_optimized_rule`'s `unreachable!`).
-/
namespace PestModel.Pipeline
open PestModel.G PestModel.Reader PestModel.ReaderFull PestModel.ReaderP PestModel.ReaderShape PestModel.Ref
open PestModel.Views (Tree preorderList)
open PestModel.LineCol (Str)

theorem strOf_of_sliced {text : Str} {t : Tree} (h : treeSliced text t) : (strOf text t).isSome = true := by
  cases t with
  | node r a b tg cs => exact h.1

mutual
  theorem sliced_preorder {text : Str} : ∀ (t : Tree), treeSliced text t → ∀ x ∈ t.preorder, treeSliced text x
    | .node r a b tg cs, h, x, hx => by
      simp only [Tree.preorder, List.mem_cons] at hx
      rcases hx with rfl | hx
      · exact h
      · exact sliced_preorderList cs h.2 x hx
  theorem sliced_preorderList {text : Str} : ∀ (l : List Tree), slicedList text l → ∀ x ∈ preorderList l, treeSliced text x
    | [], _, x, hx => by simp [preorderList] at hx
    | t :: ts, h, x, hx => by
      simp only [preorderList, List.mem_append] at hx
      rcases hx with hx | hx
      · exact sliced_preorder t h.1 x hx
      · exact sliced_preorderList ts h.2 x hx
end

theorem children_sliced {text : Str} {t : Tree} (h : treeSliced text t) : slicedList text t.children := by
  cases t with
  | node r a b tg cs => exact h.2

theorem mem_sliced {text : Str} : ∀ {l : List Tree}, slicedList text l → ∀ x ∈ l, treeSliced text x
  | [], _, x, hx => by simp at hx
  | t :: ts, h, x, hx => by
    rcases List.mem_cons.1 hx with rfl | hx
    · exact h.1
    · exact mem_sliced h.2 x hx

theorem namesOf_ok {text : Str} : ∀ (l : List Tree), (∀ x ∈ l, (strOf text x).isSome = true) → ∃ ns, namesOf text l = .ok ns
  | [], _ => ⟨[], rfl⟩
  | t :: ts, h => by
    obtain ⟨ns, hns⟩ := namesOf_ok ts (fun x hx => h x (by simp [hx]))
    have ht := h t (by simp)
    cases hs : strOf text t with
    | none => simp [hs] at ht
    | some s => exact ⟨String.ofList s :: ns, by simp [namesOf, hs, orPanic, R3.bind, R3.map, hns]⟩

theorem definitions_ok {text : Str} : ∀ (forest : List Tree), GrammarForest text forest → slicedList text forest →
    ∃ defs, definitions forest = .ok defs ∧ ∀ d ∈ defs, (strOf text d).isSome = true
  | [], _, _ => ⟨[], rfl, by simp⟩
  | t :: ts, hs, hsl => by
    obtain ⟨defs, hd, hall⟩ := definitions_ok ts (fun x hx => hs x (by simp [hx])) hsl.2
    by_cases hk : kind t = "grammar_rule"
    · have hr := hs t (by simp) hk
      have hc := children_sliced hsl.1
      rcases hr with ⟨c, rest, hch, _⟩ | ⟨id, asg, mods, ob, e, cb, hch, _⟩
      · by_cases hl : kind c = "line_doc"
        · exact ⟨defs, by simp [definitions, hk, hch, hd, R3.map, R3.bind, hl], hall⟩
        · refine ⟨c :: defs, by simp [definitions, hk, hch, hd, R3.map, R3.bind, hl], ?_⟩
          intro d hdm
          rcases List.mem_cons.1 hdm with rfl | hdm
          · rw [hch] at hc; exact strOf_of_sliced hc.1
          · exact hall d hdm
      · by_cases hl : kind id = "line_doc"
        · exact ⟨defs, by simp [definitions, hk, hch, hd, R3.map, R3.bind, hl], hall⟩
        · refine ⟨id :: defs, by simp [definitions, hk, hch, hd, R3.map, R3.bind, hl], ?_⟩
          intro d hdm
          rcases List.mem_cons.1 hdm with rfl | hdm
          · rw [hch] at hc; exact strOf_of_sliced hc.1
          · exact hall d hdm
    · exact ⟨defs, by simp [definitions, hk, hd], hall⟩

theorem called_sliced {text : Str} : ∀ (forest : List Tree), slicedList text forest → ∀ x ∈ called forest, (strOf text x).isSome = true
  | [], _, x, hx => by simp [called] at hx
  | t :: ts, h, x, hx => by
    simp only [called] at hx
    split at hx
    · rcases List.mem_append.1 hx with hx | hx
      · have hx' := (List.mem_filter.1 hx).1
        have hx'' := List.mem_of_mem_drop hx'
        exact strOf_of_sliced (sliced_preorderList _ (children_sliced h.1) x hx'')
      · exact called_sliced ts h.2 x hx
    · exact called_sliced ts h.2 x hx

theorem validatePairs_ok {text : Str} (forest : List Tree) (hs : GrammarForest text forest) (hsl : slicedList text forest) :
    ∃ errs, validatePairs text forest = .ok errs := by
  obtain ⟨defs, hd, hall⟩ := definitions_ok forest hs hsl
  obtain ⟨names, hn⟩ := namesOf_ok defs hall
  obtain ⟨used, hu⟩ := namesOf_ok (called forest) (called_sliced forest hsl)
  unfold validatePairs
  rw [hd]
  simp only [R3.bind]
  rw [hn]
  simp only [R3.bind]
  rw [hu]
  exact ⟨_, rfl⟩

theorem afterParse_np (extras : Bool) (text : Str) (forest : List Tree) (hs : GrammarForest text forest)
    (hsl : slicedList text forest) : afterParse extras text forest ≠ .panic := by
  obtain ⟨errs, he⟩ := validatePairs_ok forest hs hsl
  unfold afterParse
  rw [he]
  simp only []
  split
  · simp
  · have hnp : ReaderP.consumeRulesWithSpans extras text forest ≠ .panic :=
      consumeRulesGo_np forest hs (fun t ht => by have := size_le_of_mem ht; omega)
    cases hc : ReaderP.consumeRulesWithSpans extras text forest with
    | panic => exact absurd hc hnp
    | err => simp
    | ok rules =>
      simp only []
      split
      · simp
      · have hag := PestModel.ReaderAgree.consumeRulesGo_ag extras text (PestModel.Views.sizeList forest + 1) forest
        have hF : ReaderFull.consumeRulesWithSpans extras text forest = some rules := by
          have := hag (by rw [show ReaderP.consumeRulesGo extras text (PestModel.Views.sizeList forest + 1) forest =
            ReaderP.consumeRulesWithSpans extras text forest from rfl, hc]; simp)
          rw [show ReaderP.consumeRulesGo extras text (PestModel.Views.sizeList forest + 1) forest =
            ReaderP.consumeRulesWithSpans extras text forest from rfl, hc] at this
          simpa [ReaderFull.consumeRulesWithSpans] using this.symm
        have hrv := PestModel.ReaderValue.rulesV_of_success forest rules hs hF
        have hopt := PestModel.OptTotal.optimizeWith_total extras true rules (PestModel.OptTotal.posCounts_rulesV hrv)
        cases ho : optimize extras rules with
        | none => unfold optimize at ho; rw [ho] at hopt; simp at hopt
        | some rs => simp

/-- **`parse_and_optimize` never panics**: for every text and both feature settings the pipeline model returns rules or
errors. -/
theorem pipeline_no_panic (extras : Bool) (text : Str) : parseAndOptimize extras text ≠ some .panic := by
  unfold parseAndOptimize
  split
  · rename_i s' forest h
    intro hc
    simp only [Option.some.injEq] at hc
    exact afterParse_np extras text forest (PestModel.MetaPost.meta_forest text _ s' forest h)
      (meaning_sliced _ _ _ _ _ _ s' forest h) hc
  · simp
  · simp

end PestModel.Pipeline
