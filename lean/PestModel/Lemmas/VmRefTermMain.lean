import PestModel.Lemmas.VmRefTerm
import PestModel.Lemmas.VmRefMain
/-! C01 (termination), part 3: by induction on the reference's fuel, the VM reaches a definite outcome
whenever the reference does. -/
namespace PestModel.VmRef
open PestModel.G PestModel.PS PestModel.Lower PestModel.Ref PestModel.Views
open PestModel.LineCol (Str isBoundary bLen cLen splitAt? slice?)

/-! ### agreement of the fuel levels with the limit -/

theorem agree_of_le {a b : Res} (h : a.le b) (hf : a ≠ .fuel) : a = b := by
  rcases h with h | h
  · exact absurd h hf
  · exact h

theorem agreeE (c : Ctx) (n : Nat) (m : Atomicity) (la : Bool) (e : Expr) (σ : St)
    (h : denote c n m la e σ ≠ .fuel) : denote c n m la e σ = val c m la e σ :=
  agree_of_le ((lev_le_V c n).d m la e σ) h

theorem agreeCa (c : Ctx) (n : Nat) (m : Atomicity) (la : Bool) (name : String) (σ : St)
    (h : call c n m la name σ ≠ .fuel) : call c n m la name σ = valCa c m la name σ :=
  agree_of_le ((lev_le_V c n).ca m la name σ) h

theorem agreeK (c : Ctx) (n : Nat) (m : Atomicity) (la : Bool) (σ : St)
    (h : skipWs c n m la σ ≠ .fuel) : skipWs c n m la σ = valK c m la σ :=
  agree_of_le ((lev_le_V c n).k m la σ) h

theorem agreeSt (c : Ctx) (n : Nat) (la : Bool) (name : String) (σ : St)
    (h : star c n la name σ [] ≠ .fuel) : star c n la name σ [] = valSt c la name σ [] :=
  agree_of_le ((lev_le_V c n).st la name σ []) h

theorem agree_seqD {D1n D1 D2n D2 : St → Res} (a1 : ∀ σ, D1n σ ≠ .fuel → D1n σ = D1 σ)
    (a2 : ∀ σ, D2n σ ≠ .fuel → D2n σ = D2 σ) (σ : St) (h : seqD D1n D2n σ ≠ .fuel) :
    seqD D1n D2n σ = seqD D1 D2 σ := by
  have h1 : D1n σ ≠ .fuel := by
    intro h'; apply h; simp [seqD, h']
  unfold seqD at h ⊢
  rw [← a1 σ h1]
  cases hd : D1n σ with
  | ok s1 f1 =>
    rw [hd] at h
    dsimp only at h ⊢
    have h2 : D2n s1 ≠ .fuel := by
      intro h'; apply h; simp [h']
    rw [← a2 s1 h2]
  | fail => rfl
  | stuck => rfl
  | fuel => rfl

theorem prepend_ne_fuel {acc : List Tree} {r : Res} (h : r.prepend acc ≠ .fuel) : r ≠ .fuel := by
  intro h'; apply h; rw [h']; rfl

/-! ### leaves -/

theorem terminal_ne_fuel (s : PState) (r : Option (Bool × Nat)) (tok : Option PTok) :
    terminal s r tok ≠ .fuel := by
  unfold terminal
  split
  · simp
  · dsimp only; split <;> simp

variable {cfg : Cfg}

theorem leaf_matchString (str : Str) (st : PState) : run cfg 1 (.matchString str) st ≠ .fuel := by
  rw [run]; exact terminal_ne_fuel _ _ _
theorem leaf_matchInsensitive (str : Str) (st : PState) : run cfg 1 (.matchInsensitive str) st ≠ .fuel := by
  rw [run]; exact terminal_ne_fuel _ _ _
theorem leaf_matchRange (a b : Char) (st : PState) : run cfg 1 (.matchRange a b) st ≠ .fuel := by
  rw [run]; exact terminal_ne_fuel _ _ _
theorem leaf_matchCharBy (cs : CharSet) (st : PState) : run cfg 1 (.matchCharBy cs) st ≠ .fuel := by
  rw [run]; exact terminal_ne_fuel _ _ _
theorem leaf_skip (k : Nat) (st : PState) : run cfg 1 (.skip k) st ≠ .fuel := by
  rw [run]; exact terminal_ne_fuel _ _ _
theorem leaf_skipUntil (ss : List Str) (st : PState) : run cfg 1 (.skipUntil ss) st ≠ .fuel := by
  rw [run]; split <;> simp
theorem leaf_startOfInput (st : PState) : run cfg 1 .startOfInput st ≠ .fuel := by
  rw [run]; split <;> simp
theorem leaf_endOfInput (st : PState) : run cfg 1 .endOfInput st ≠ .fuel := by
  rw [run]; split <;> simp
theorem leaf_stackPeek (st : PState) : run cfg 1 .stackPeek st ≠ .fuel := by
  rw [run]
  split
  · simp
  · split
    · simp
    · exact terminal_ne_fuel _ _ _
theorem leaf_stackPop (st : PState) : run cfg 1 .stackPop st ≠ .fuel := by
  rw [run]
  split
  · simp
  · split
    · simp
    · simp
    · exact terminal_ne_fuel _ _ _
theorem leaf_stackMatchPeek (st : PState) : run cfg 1 .stackMatchPeek st ≠ .fuel := by
  rw [run]
  split
  · simp
  · split <;> simp
theorem leaf_stackMatchPop (st : PState) : run cfg 1 .stackMatchPop st ≠ .fuel := by
  rw [run]
  split <;> simp
theorem leaf_stackDrop (st : PState) : run cfg 1 .stackDrop st ≠ .fuel := by
  rw [run]
  split <;> simp
theorem leaf_peekSlice (a : Int) (b : Option Int) (d : MatchDir) (st : PState) :
    run cfg 1 (.stackMatchPeekSlice a b d) st ≠ .fuel := by
  rw [run]
  split
  · simp
  · split
    · simp
    · dsimp only; split <;> simp
theorem leaf_pushLiteral (s : Str) (st : PState) : run cfg 1 (.stackPushLiteral s) st ≠ .fuel := by
  rw [run]; simp
theorem leaf_tagNode (t : Str) (st : PState) : run cfg 1 (.tagNode t) st ≠ .fuel := by
  rw [run]
  split
  · simp
  · split <;> simp
theorem leaf_ok (st : PState) : run cfg 1 .ok st ≠ .fuel := by
  rw [run]; simp

theorem term_leaf {p : Prog} {st : PState} (h : ∀ st, run cfg 1 p st ≠ .fuel) : Term cfg p st := ⟨1, h st⟩

theorem term_builtin {env : Env} {memchr : Bool} (hsize : env.rules.length ≤ 333333333) (name : String)
    (st : PState) (hi : incCall st = some st) :
    Term (mkCfg env memchr) (Lower.builtin env name) st := by
  unfold Lower.builtin
  have r1 : ∀ a b st, Term (mkCfg env memchr) (rng a b) st := fun a b st => term_leaf (leaf_matchRange a b)
  have r2 : ∀ a b a' b' st, Term (mkCfg env memchr) (.orElse (rng a b) (rng a' b')) st :=
    fun a b a' b' st => term_orElse (r1 a b st) fun _ st1 _ => r1 a' b' st1
  have r3 : ∀ a b a' b' a'' b'' st,
      Term (mkCfg env memchr) (.orElse (.orElse (rng a b) (rng a' b')) (rng a'' b'')) st :=
    fun a b a' b' a'' b'' st => term_orElse (r2 a b a' b' st) fun _ st1 _ => r1 a'' b'' st1
  split
  · exact term_leaf (leaf_skip 1)
  · exact term_rule hi (term_leaf leaf_endOfInput)
  · exact term_leaf leaf_startOfInput
  · exact term_leaf leaf_stackPeek
  · exact term_leaf leaf_stackMatchPeek
  · exact term_leaf leaf_stackPop
  · exact term_leaf leaf_stackMatchPop
  · exact term_leaf leaf_stackDrop
  · exact r1 _ _ _
  · exact r1 _ _ _
  · exact r1 _ _ _
  · exact r1 _ _ _
  · exact r3 _ _ _ _ _ _ _
  · exact r1 _ _ _
  · exact r1 _ _ _
  · exact r2 _ _ _ _ _
  · exact r3 _ _ _ _ _ _ _
  · exact r1 _ _ _
  · exact term_orElse (term_orElse (term_leaf (leaf_matchString _)) fun _ _ _ =>
      term_leaf (leaf_matchString _)) fun _ _ _ => term_leaf (leaf_matchString _)
  · split
    · exact term_leaf (leaf_matchCharBy _)
    · exact term_call fun p hp => by
        have := undefined_none (memchr := memchr) hsize
        rw [this] at hp
        cases hp


/-! ### the induction on the reference's fuel -/

section
variable {env : Env} {extras memchr : Bool} {input : Str}

/-- the termination statement at reference fuel `n`. -/
structure TN (env : Env) (extras memchr : Bool) (input : Str) (n : Nat) : Prop where
  e : ∀ (e : OExpr) (m : Atomicity) (la : Bool), GoodE extras env.rules e → CtxOK env extras m e →
    TermS (mkCfg env memchr) input (vmExpr env m e) m la
      (denote (mkCtx env extras input) n m la (ofOptimized e))
  ca : ∀ (name : String) (m : Atomicity) (la : Bool), Reach env.rules name m →
    TermS (mkCfg env memchr) input (callRule env name m) m la (call (mkCtx env extras input) n m la name)
  k : ∀ (m : Atomicity) (la : Bool),
    TermS (mkCfg env memchr) input (skipProg env m) m la (skipWs (mkCtx env extras input) n m la)
  l : ∀ (e : OExpr) (m : Atomicity) (la : Bool), GoodE extras env.rules e → CtxOK env extras m e →
    TermS (mkCfg env memchr) input
      (.repLoop (.sequence (.andThen (skipProg env m) (vmExpr env m e)))) m la
      (fun σ => repLoop (mkCtx env extras input) n m la (ofOptimized e) σ [])
  st : ∀ (name : String) (la : Bool), ¬ Dirty env.rules (.ident name) →
    TermS (mkCfg env memchr) input (.repLoop (callRule env name .nonAtomic)) .nonAtomic la
      (fun σ => star (mkCtx env extras input) n la name σ [])
  cl : ∀ (la : Bool),
    TermS (mkCfg env memchr) input
      (.repLoop (.sequence (.andThen (callRule env "COMMENT" .nonAtomic)
        (.repeat_ (callRule env "WHITESPACE" .nonAtomic))))) .nonAtomic la
      (fun σ => commentLoop (mkCtx env extras input) n la σ [])

theorem TN_zero : TN env extras memchr input 0 where
  e := fun _ _ _ _ _ _ _ _ h => absurd (by simp [denote]) h
  ca := fun _ _ _ _ _ _ _ h => absurd (by simp [call]) h
  k := fun _ _ _ _ _ h => absurd (by simp [skipWs]) h
  l := fun _ _ _ _ _ _ _ _ h => absurd (by simp [repLoop]) h
  st := fun _ _ _ _ _ _ h => absurd (by simp [star]) h
  cl := fun _ _ _ _ h => absurd (by simp [commentLoop]) h

end
end PestModel.VmRef
