"""C11 — the backtracking stack is transactional for every history."""
from props.common import *

MODULE = ["PestModel.Thm.C11", "PestModel.Thm.C11Txn"]
DRV, MODE = "drv_stack", "stack"


def run(ctx):
    frag, problems = proof_leg(ctx, MODULE)
    ok, out, bindir, cwall = cargo_build("default", [DRV])
    if not ok:
        ctx.violation({"obligation": "harness does not build against /repo", "log": out[-3000:]}, no_input=True)
        ctx.evidence(level_of(ctx.prop), dict(frag, explanation="harness build failed"), TRUSTED_COMMON)
        return
    drv = os.path.join(bindir, DRV)
    runs = [("gen", ["gen", ctx.tier, str(ctx.seed)])]
    cs = run_corpus_and_gen(ctx, drv, MODE, runs)
    found_input = False
    for c in cs:
        if c.error:
            ctx.violation({"correspondence": c.name, "error": c.error}, no_input=True)
            continue
        # 1. the implementation contradicts the naive copy-at-snapshot stack: the property itself fails
        if c.oracle_fail:
            i, op, imp, verdict = min(c.oracle_fail, key=lambda t: len(t[1]))
            small = shrink_tokens(drv, MODE, op, 1, lambda i_, m_, o_: o_ != "ok", os.path.join(ctx.rundir, "shrink"))
            res = eval_lines(drv, MODE, [small], os.path.join(ctx.rundir, "shrink"))
            ctx.violation({"kind": "implementation contradicts the naive copy-at-snapshot stack",
                           "case": small, "impl": res[0][0] if res else imp, "model": res[0][1] if res else None,
                           "oracle": res[0][2] if res else verdict, "original_case": op,
                           "failing_cases_in_run": len(c.oracle_fail),
                           "replay_cmd": "./check C11 --replay <this file>"})
            found_input = True
        # 2. model and implementation disagree but the oracle is satisfied on every explored history
        elif c.mismatch:
            i, op, imp, mod = min(c.mismatch, key=lambda t: len(t[1]))
            small = shrink_tokens(drv, MODE, op, 1, lambda i_, m_, o_: i_ != m_, os.path.join(ctx.rundir, "shrink"))
            res = eval_lines(drv, MODE, [small], os.path.join(ctx.rundir, "shrink"))
            ctx.violation({"kind": "correspondence `stack` (pest::Stack vs PestModel.Stack.step) no longer checks; oracle satisfied on all explored histories",
                           "case": small, "impl": res[0][0] if res else imp, "model": res[0][1] if res else mod,
                           "mismatches_in_run": len(c.mismatch)}, no_input=True)
    if problems and not found_input:
        ctx.violation({"obligation": MODULE, "problems": problems}, no_input=True)
    gen = next((c for c in cs if c.name == "gen"), None)
    st = gen.stats if gen else {}
    cov = dict(frag)
    cov.update({
        "trusted_base": TRUSTED_COMMON,
        "evaluations": sum(c.n for c in cs),
        "distinct_nontrivial": st.get("distinct_nontrivial", 0),
        "rule": "all histories of the stated length over {push 1, push 2, pop, peek, snapshot, clear_snapshot, restore} (every shorter history is a prefix; contents are compared after every operation) plus seeded random histories biased to nested snapshots; non-trivial = contains a snapshot, a later pop and a later restore/clear; distinct by history text",
        "exhaustive": True,
        "exhaustive_scope": f"histories of length <= {st.get('exhaustive_length')} over a 7-symbol alphabet",
        "traces_validated_against_impl": sum(c.n for c in cs),
        "samples": st.get("samples", []),
        "distribution": {k: st.get(k) for k in ("op_histogram", "max_snapshot_depth", "random_histories", "max_random_length")},
        "mismatches": sum(len(c.mismatch) for c in cs), "oracle_failures": sum(len(c.oracle_fail) for c in cs),
    })
    if ctx.thorough() and not problems:
        okc, outc = leanchecker(MODULE + ["PestModel.Model.Stack"])
        cov["leanchecker"] = "ok" if okc else outc
    ctx.evidence(level_of(ctx.prop), cov, [
        "theorems are about PestModel.Stack.step (hand-written model of pest/src/stack.rs with head-as-top lists); tie = correspondence through the public API of pest::Stack<u32>",
        "element type: the theorems are parametric in the element type; the correspondence uses u32",
    ])


def replay(ctx, path):
    return replay_generic(ctx, path, DRV, MODE)
