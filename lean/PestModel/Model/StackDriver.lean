import PestModel.Model.Stack
import PestModel.Model.Proto
/-! Driver mode `stack`: `H <op>*`, op ∈ {u<dec>, o, k, s, c, r}. -/
namespace PestModel.StackDriver
open PestModel.Stack PestModel.Proto

def parseOp (w : String) : Option (Op Nat) :=
  match w.toList with
  | ['o'] => some .pop
  | ['k'] => some .peek
  | ['s'] => some .snapshot
  | ['c'] => some .clearSnapshot
  | ['r'] => some .restore
  | 'u' :: ds => (String.ofList ds).toNat?.map .push
  | _ => none

def showContents (s : Stk Nat) : String :=
  ",".intercalate (s.cache.reverse.map toString)

def showVal : Option Nat → String
  | none => "_"
  | some v => toString v

def showStep (op : Op Nat) (o : Out Nat) (s : Stk Nat) : String :=
  let tag := match op, o with
    | .push _, _ => "u"
    | .pop, .val v => "o=" ++ showVal v
    | .peek, .val v => "k=" ++ showVal v
    | .snapshot, _ => "s"
    | .clearSnapshot, _ => "c"
    | .restore, _ => "r"
    | _, _ => "?"
  tag ++ ":" ++ showContents s ++ s!"|d{s.lengths.length}p{s.popped.length}"

def runLine (line : String) : String :=
  match words line with
  | "H" :: ws =>
    match ws.mapM parseOp with
    | none => "bad-op"
    | some ops =>
      let rec go (s : Stk Nat) (i : Nat) : List (Op Nat) → List String → List String
        | [], acc => acc.reverse
        | op :: rest, acc =>
          match step s op with
          | none => (s!"panic@{i}" :: acc).reverse
          | some (s', o) => go s' (i + 1) rest (showStep op o s' :: acc)
      " ".intercalate (go Stk.new 0 ops [])
  | _ => "bad-op"

end PestModel.StackDriver
