import PestModel.Model.PStateSpec
/-! Token-queue facts: the "extends, up to the tag of the last old token" relation. -/
namespace PestModel.PS
open PestModel.LineCol

/-- `q'` extends `q`, except that the tag of the last token of `q` may differ. -/
def QLe (q q' : List QTok) : Prop :=
  q = [] ∨ ∃ init x x' rest, q = init ++ [x] ∧ q' = init ++ x' :: rest ∧ x'.eraseTag = x.eraseTag

theorem QLe.refl (q : List QTok) : QLe q q := by
  rcases List.eq_nil_or_concat q with h | ⟨init, x, h⟩
  · exact Or.inl h
  · exact Or.inr ⟨init, x, x, [], by simpa using h, by simpa using h, rfl⟩

theorem QLe.of_eq {q q' : List QTok} (h : q' = q) : QLe q q' := h ▸ QLe.refl q

theorem QLe.append (q r : List QTok) : QLe q (q ++ r) := by
  rcases List.eq_nil_or_concat q with h | ⟨init, x, h⟩
  · exact Or.inl h
  · exact Or.inr ⟨init, x, x, r, by simpa using h, by simp [h], rfl⟩

theorem QLe.trans {a b c : List QTok} (h1 : QLe a b) (h2 : QLe b c) : QLe a c := by
  rcases h1 with h1 | ⟨init, x, x', rest, rfl, rfl, he⟩
  · exact Or.inl h1
  · rcases h2 with h2 | ⟨init', y, y', rest', hb, rfl, he'⟩
    · simp at h2
    · right
      rcases List.eq_nil_or_concat rest with hr | ⟨r0, z, hr⟩
      · subst hr
        have := List.append_inj' hb (by simp)
        obtain ⟨rfl, h⟩ := this
        simp at h; subst h
        exact ⟨init, x, y', rest', rfl, rfl, he'.trans he⟩
      · subst hr
        have hb' : (init ++ x' :: r0) ++ [z] = init' ++ [y] := by simpa using hb
        obtain ⟨rfl, h⟩ := List.append_inj' hb' (by simp)
        exact ⟨init, x, x', r0 ++ y' :: rest', rfl, by simp, he⟩

theorem QLe.length {q q' : List QTok} (h : QLe q q') : q.length ≤ q'.length := by
  rcases h with h | ⟨init, x, x', rest, rfl, rfl, he⟩
  · simp [h]
  · simp

theorem QLe.take_pred {q q' : List QTok} (h : QLe q q') :
    q'.take (q.length - 1) = q.take (q.length - 1) := by
  rcases h with h | ⟨init, x, x', rest, rfl, rfl, he⟩
  · simp [h]
  · simp

theorem QLe.take_erase {q q' : List QTok} (h : QLe q q') :
    (q'.take q.length).map QTok.eraseTag = q.map QTok.eraseTag := by
  rcases h with h | ⟨init, x, x', rest, rfl, rfl, he⟩
  · simp [h]
  · have : List.take (init ++ [x]).length (init ++ x' :: rest) = init ++ [x'] := by
      rw [show init ++ x' :: rest = (init ++ [x']) ++ rest by simp]
      exact List.take_left' (by simp)
    rw [this]; simp [he]

theorem eraseTag_eq_start {x : QTok} {a b : Nat} (h : x.eraseTag = .start a b) : x = .start a b := by
  cases x <;> simp [QTok.eraseTag] at h ⊢
  exact h

/-- After a `start` was pushed, everything up to and including it is still there. -/
theorem QLe.snoc_start {q q' : List QTok} {a b : Nat} (h : QLe (q ++ [.start a b]) q') :
    ∃ inner, q' = q ++ .start a b :: inner := by
  rcases h with h | ⟨init, x, x', rest, hq, rfl, he⟩
  · simp at h
  · obtain ⟨rfl, h⟩ := List.append_inj' hq (by simp)
    simp at h; subst h
    simp [QTok.eraseTag] at he
    exact ⟨rest, by rw [eraseTag_eq_start he]⟩

theorem setLastTag_restore {q q' : List QTok} (h : QLe q q') :
    setLastTag (q'.take q.length) (lastTag q) = q := by
  rcases h with h | ⟨init, x, x', rest, rfl, rfl, he⟩
  · subst h; simp [setLastTag]
  · have : List.take (init ++ [x]).length (init ++ x' :: rest) = init ++ [x'] := by
      rw [show init ++ x' :: rest = (init ++ [x']) ++ rest by simp]
      exact List.take_left' (by simp)
    rw [this]
    cases x with
    | start a b =>
      have := eraseTag_eq_start (x := x') (by simpa [QTok.eraseTag] using he)
      subst this
      simp [setLastTag]
    | end_ si r t p =>
      cases x' with
      | start a b => simp [QTok.eraseTag] at he
      | end_ si' r' t' p' =>
        simp [QTok.eraseTag] at he
        obtain ⟨rfl, rfl, rfl⟩ := he
        simp [setLastTag, lastTag]

theorem QLe.tag {q : List QTok} {si r : Nat} {t t' : Option Str} {p : Nat}
    (h : q.getLast? = some (.end_ si r t p)) : QLe q (q.dropLast ++ [.end_ si r t' p]) := by
  rcases List.eq_nil_or_concat q with hq | ⟨init, x, hq⟩
  · exact Or.inl hq
  · subst hq
    simp at h; subst h
    exact Or.inr ⟨init, .end_ si r t p, .end_ si r t' p, [], by simp, by simp, rfl⟩

theorem setAt_append_cons {α} (q : List α) (x v : α) (inner : List α) :
    setAt (q ++ x :: inner) q.length v = q ++ v :: inner := by
  induction q with
  | nil => simp [setAt]
  | cons a q ih => simp [setAt, ih]

end PestModel.PS
