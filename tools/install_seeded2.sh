#!/bin/sh
# usage: tools/install_seeded2.sh <ID>  — copies /tmp/mut/out2/<ID>/{patch1.diff,meta1.json,demo1} into /verif/seeded/<ID>/m3/
id=$1
[ -f /tmp/mut/out2/$id/patch1.diff ] || { echo "no patch for $id"; exit 1; }
d=/verif/seeded/$id/m3
mkdir -p $d
cp /tmp/mut/out2/$id/patch1.diff $d/patch.diff
[ -f /tmp/mut/out2/$id/meta1.json ] && cp /tmp/mut/out2/$id/meta1.json $d/meta.json
[ -d /tmp/mut/out2/$id/demo1 ] && { rm -rf $d/demo; cp -r /tmp/mut/out2/$id/demo1 $d/demo; }
ls $d
