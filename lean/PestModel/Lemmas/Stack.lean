import PestModel.Model.StackSpec
namespace PestModel.Stack

end PestModel.Stack
