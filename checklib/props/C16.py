"""C16 — Unicode property rules are consistent for every code point."""
from props.common import *

MODULE = "PestModel.Thm.C16"
DRV, MODE = "drv_unicode", "unicode"


def search_failing(ctx):
    """A theorem over the regenerated tables no longer checks: find the code point / name on the implementation."""
    import subprocess
    ok, out, bindir, _ = cargo_build("default", ["drv_unicode_search"]) if os.path.exists(os.path.join(HARNESS, "src/bin/drv_unicode_search.rs")) else (False, "", "", 0)
    if not ok:
        return None
    rc, o = sh([os.path.join(bindir, "drv_unicode_search")], timeout=600)
    for l in o.splitlines():
        if l.startswith("WITNESS "):
            return l[8:]
    return None


def run(ctx):
    cs = simple_property(
        ctx, MODULE, DRV, MODE,
        oracle_kind="the access paths of a Unicode property (function, by_name, VM built-in) disagree, or an advertised name does not resolve",
        corr_kind="correspondence `unicode` (pest::unicode::NAME over ALL scalar values vs the regenerated table)",
        rule="EXHAUSTIVE: for every advertised property name (the build script regenerates the list from pest/src/unicode/mod.rs) the function pest::unicode::NAME is evaluated on all 1,112,064 scalar values and compared, as a range list, with the table the translator regenerated from the TrieSet arrays (validating the translator's trie expansion against ucd-trie itself); by_name(NAME) is evaluated on all scalar values too and must equal the function; the VM built-in is run on the boundary code points of every set (all in thorough, a sample in quick); non-trivial = sets",
        nontrivial_key="distinct_nontrivial",
        exhaustive=True, scope="all scalar values x all advertised names x function and by_name paths",
        assumptions=[
            "the theorems are about tables REGENERATED on every run by translators/tr_unicode.py (regex parse of the generated .rs files + ucd-trie 0.1.7's lookup re-implemented); the exhaustive correspondence validates that expansion against the real TrieSet::contains_char",
            "name lists (BY_NAME, macro arguments, validator BUILTINS, VM arms, generator insert_builtin!) are extracted textually by the translator",
            "decide +kernel is used for the finite-domain facts (kernel GMP arithmetic on 1.1M-bit numbers); no native_decide",
        ],
        leancheck=[MODULE, "PestModel.Model.Unicode"],
    )
    # a proof obligation over regenerated data failed: look for the offending code point on the implementation
    if any(v["no_input"] for v in ctx.violations) and not any(not v["no_input"] for v in ctx.violations):
        w = search_failing(ctx)
        if w:
            ctx.violation({"kind": "a table fact (partition / group union / script disjointness / name agreement) fails on the implementation", "witness": w})


def replay(ctx, path):
    return replay_generic(ctx, path, DRV, MODE)
