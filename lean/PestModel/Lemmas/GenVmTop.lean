import PestModel.Lemmas.GenVmMain
import PestModel.Lemmas.VmRefRestorer
/-! C02, part 12: rules, environment slots, the entry point. -/
namespace PestModel.GenVm
open PestModel.PS PestModel.Stack PestModel.Lower PestModel.G
open PestModel.LineCol (Str isBoundary slice?)
open PestModel.VmRef (Dirty GoodE GoodRules)

/-- the side conditions of the partial theorem on a rule set. -/
structure RulesOK (rs : List ORule) : Prop where
  /-- `undefinedRule` (`call 1000000000`) is out of range. -/
  size : rs.length ≤ 333333333
  /-- no `#tag = e?` / `#tag = e*`. -/
  tag : ∀ r ∈ rs, TagPlain r.expr
  /-- in rules the generator lowers with `generate_expr_atomic` (`@`, `$`, `WHITESPACE`, `COMMENT`), the
  operand of `*` cannot fail after popping the stack. -/
  rep : ∀ r ∈ rs, (r.ty = .atomic ∨ r.ty = .compound ∨ isWsCm r.name = true) → RepClean rs r.expr

variable {env : Env} {memchr : Bool} {n : Nat}

theorem both_ruleSlot (hok : RulesOK env.rules) (h : Phi env memchr n) (i : Nat) (r : ORule)
    (hr : r ∈ env.rules) (ctx : Atomicity) :
    Both (cfgOf .vm env memchr) (cfgOf .gen env memchr) (n+1) (vmRule env i r ctx) (genRule env i r ctx) := by
  have hE : ∀ c ag, (ag = true → c ≠ Atomicity.nonAtomic ∧ RepClean env.rules r.expr) →
      Both (cfgOf .vm env memchr) (cfgOf .gen env memchr) (n+1) (vmExpr env c r.expr)
        (genExpr env c ag (osize r.expr + 1) r.expr) := fun c ag hag =>
    exprOK_all hok.size h (osize r.expr) r.expr (Nat.le_refl _) c ag _ (Nat.le_succ _) (hok.tag r hr) hag
  unfold vmRule genRule
  by_cases hw : isWsCm r.name = true
  · have hrc := hok.rep r hr (Or.inr (Or.inr hw))
    have hA := hE .atomic true (fun _ => ⟨by decide, hrc⟩)
    have hC := hE .compound true (fun _ => ⟨by decide, hrc⟩)
    rw [if_pos hw]
    cases hty : r.ty <;> simp only [hw, if_true]
    · exact both_rule _ (both_atomic _ hA)
    · exact both_atomic _ hA
    · exact both_rule _ (both_atomic _ hA)
    · exact both_atomic _ (both_rule _ hC)
    · exact both_atomic _ (both_rule _ (both_atomic _ hA))
  · rw [if_neg hw]
    cases hty : r.ty <;> simp only [hw]
    · exact both_rule _ (hE ctx false (fun x => by cases x))
    · exact hE ctx false (fun x => by cases x)
    · exact both_rule _ (both_atomic _ (hE .atomic true
        (fun _ => ⟨by decide, hok.rep r hr (Or.inl hty)⟩)))
    · exact both_atomic _ (both_rule _ (hE .compound true
        (fun _ => ⟨by decide, hok.rep r hr (Or.inr (Or.inl hty))⟩)))
    · exact both_atomic _ (both_rule _ (hE .nonAtomic false (fun x => by cases x)))

theorem envSim_of (b1 b2 : Backend) (m : Nat)
    (h : ∀ i r ctx, r ∈ env.rules →
      Sim (cfgOf b1 env memchr) (cfgOf b2 env memchr) m (lowerRule b1 env i r ctx) (lowerRule b2 env i r ctx)) :
    EnvSim (cfgOf b1 env memchr) (cfgOf b2 env memchr) m := by
  intro j
  obtain ⟨i, c, rfl⟩ := slot_decomp j
  show ((lowerAll b1 env)[3 * i + ctxIdx c]? = none ∧ (lowerAll b2 env)[3 * i + ctxIdx c]? = none) ∨
    ∃ p q, (lowerAll b1 env)[3 * i + ctxIdx c]? = some p ∧ (lowerAll b2 env)[3 * i + ctxIdx c]? = some q ∧ _
  rw [lowerAll_get, lowerAll_get]
  cases hr : env.rules[i]? with
  | none => exact Or.inl ⟨rfl, rfl⟩
  | some r => exact Or.inr ⟨_, _, rfl, rfl, h i r c (List.mem_of_getElem? hr)⟩

theorem phi_all (hok : RulesOK env.rules) : ∀ n, Phi env memchr n
  | 0 => ⟨envSim_of .vm .gen 0 fun _ _ _ _ => sim_zero _ _, envSim_of .gen .vm 0 fun _ _ _ _ => sim_zero _ _⟩
  | n + 1 =>
    have ih := phi_all hok n
    ⟨envSim_of .vm .gen (n+1) fun i r ctx hr => (both_ruleSlot hok ih i r hr ctx).1,
     envSim_of .gen .vm (n+1) fun i r ctx hr => (both_ruleSlot hok ih i r hr ctx).2⟩

theorem both_entry (hok : RulesOK env.rules) (name : String) (n : Nat) :
    Both (cfgOf .vm env memchr) (cfgOf .gen env memchr) (n+1) (entry env name) (entry env name) :=
  both_callRule (phi_all hok n) name .nonAtomic

theorem good_new (input : Str) (detail : Bool) : Good (PState.new input none detail) :=
  ⟨new_wf' input none detail, rfl⟩

theorem finish_oeq {o1 o2 : Out} (h : OEq o1 o2) : finish o1 = finish o2 := by
  cases o1 <;> cases o2 <;> try exact False.elim h.1
  · rename_i a b
    have hs : SEq a b := h.1
    obtain ⟨st, rfl, -⟩ := hs.core.exists
    have e1 := hs.g1.notLimit
    have e2 := hs.g2.notLimit
    simp only [finish, e1, e2]
    rfl
  · rename_i a b
    have hs : SEq a b := h.1
    obtain ⟨st, rfl, -⟩ := hs.core.exists
    have e1 := hs.g1.notLimit
    have e2 := hs.g2.notLimit
    simp only [finish, e1, e2]
    rfl
  · rfl
  · rfl

/-- the two back-ends agree on a rule set satisfying `RulesOK`. -/
theorem agree (hok : RulesOK env.rules) (name : String) (input : Str) (detail : Bool) (fv fg : Nat)
    (hv : run (cfgOf .vm env memchr) fv (entry env name) (PState.new input none detail) ≠ .fuel)
    (hg : run (cfgOf .gen env memchr) fg (entry env name) (PState.new input none detail) ≠ .fuel) :
    finish (run (cfgOf .vm env memchr) fv (entry env name) (PState.new input none detail)) =
    finish (run (cfgOf .gen env memchr) fg (entry env name) (PState.new input none detail)) := by
  obtain ⟨o2, ev, oe⟩ := (both_entry (memchr := memchr) hok name fv).1 fv (Nat.le_succ _) _ _
    (SEq.refl (good_new input detail)) hv
  rw [ev.run_eq hg]
  exact finish_oeq oe

theorem terminate_iff (hok : RulesOK env.rules) (name : String) (input : Str) (detail : Bool) :
    (∃ f, run (cfgOf .vm env memchr) f (entry env name) (PState.new input none detail) ≠ .fuel) ↔
    (∃ f, run (cfgOf .gen env memchr) f (entry env name) (PState.new input none detail) ≠ .fuel) := by
  constructor
  · rintro ⟨f, hf⟩
    obtain ⟨o2, ⟨m, em, ne⟩, -⟩ := (both_entry (memchr := memchr) hok name f).1 f (Nat.le_succ _) _ _
      (SEq.refl (good_new input detail)) hf
    exact ⟨m, by rw [em]; exact ne⟩
  · rintro ⟨f, hf⟩
    obtain ⟨o2, ⟨m, em, ne⟩, -⟩ := (both_entry (memchr := memchr) hok name f).2 f (Nat.le_succ _) _ _
      (SEq.refl (good_new input detail)) hf
    exact ⟨m, by rw [em]; exact ne⟩

/-! ### rule sets produced by the optimizer -/

theorem repClean_of_goodE (extras : Bool) (rs : List ORule) : ∀ e, GoodE extras rs e → RepClean rs e := by
  intro e
  induction e with
  | rep e ih => intro h; exact ⟨h.1, ih h.2⟩
  | opt e ih => intro h; exact ih h.2
  | repOnce e ih => intro h; exact ih h.2
  | posPred e ih | negPred e ih | push e ih | restoreOnErr e ih => intro h; exact ih h
  | nodeTag e t ih => intro h; exact ih h
  | seq a b iha ihb => intro h; exact ⟨iha h.1, ihb h.2⟩
  | choice a b iha ihb => intro h; exact ⟨iha h.2.1, ihb h.2.2⟩
  | _ => intro _; trivial

/-- what the real front-end produces (the restorer wraps the operand of `*` whenever it can fail dirty). -/
theorem rulesOK_of_optimized (extras : Bool) (rs : List ORule)
    (hopt : ∃ rules withList, optimizeWith extras withList rules = some rs)
    (htagx : ∀ r ∈ rs, VmRef.tagsExtras extras r.expr)
    (hsize : rs.length ≤ 333333333) (htag : ∀ r ∈ rs, TagPlain r.expr) : RulesOK rs :=
  ⟨hsize, htag, fun r hr _ =>
    repClean_of_goodE extras rs r.expr ((VmRef.goodRules_of_optimized extras rs hopt htagx).expr r hr)⟩

end PestModel.GenVm
