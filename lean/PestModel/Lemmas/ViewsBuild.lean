import PestModel.Lemmas.ViewsLayout
/-! Helper lemmas for C04: `PairsBuilder::build` lays the forest out in the queue. -/
namespace PestModel.Views
open PestModel.PS (QTok)
open PestModel.LineCol (Str)

theorem setAt_eq_set {α} (l : List α) (n : Nat) (v : α) : PS.setAt l n v = l.set n v := by
  induction l generalizing n with
  | nil => simp [PS.setAt]
  | cons x xs ih => cases n <;> simp [PS.setAt, ih]

mutual
  theorem pushNode_spec (q : List QTok) : (t : Tree) →
      (∃ s, pushNode q t = q ++ s) ∧ Layout (pushNode q t) q.length [t] (pushNode q t).length
    | .node r a b tag cs => by
      obtain ⟨⟨s, hs⟩, hl⟩ := pushNodes_spec (q ++ [.start 0 a]) cs
      rw [pushNode]
      generalize hq1 : pushNodes (q ++ [QTok.start 0 a]) cs = q1 at hs hl
      have hlen : q1.length = q.length + 1 + s.length := by rw [hs]; simp; omega
      simp only [setAt_eq_set]
      constructor
      · refine ⟨QTok.start q1.length a :: s ++ [QTok.end_ q.length r tag b], ?_⟩
        rw [hs]
        simp
      · simp only [List.length_append, List.length_set, List.length_cons, List.length_nil] at hl ⊢
        refine .cons (e := q1.length) ?_ ?_ (hl.congr ?_) (.nil _)
        · rw [List.getElem?_append_left (by simp; omega)]
          rw [List.getElem?_set]
          simp; omega
        · rw [List.getElem?_append_right (by simp)]
          simp
        · intro i h1 h2
          rw [List.getElem?_append_left (by simp; omega)]
          rw [List.getElem?_set]
          have : ¬ q.length = i := by omega
          simp [this]
  theorem pushNodes_spec (q : List QTok) : (ts : List Tree) →
      (∃ s, pushNodes q ts = q ++ s) ∧ Layout (pushNodes q ts) q.length ts (pushNodes q ts).length
    | [] => by
      rw [pushNodes]
      exact ⟨⟨[], by simp⟩, .nil _⟩
    | t :: ts => by
      obtain ⟨⟨s1, hs1⟩, hl1⟩ := pushNode_spec q t
      obtain ⟨⟨s2, hs2⟩, hl2⟩ := pushNodes_spec (pushNode q t) ts
      rw [pushNodes]
      constructor
      · exact ⟨s1 ++ s2, by rw [hs2, hs1]; simp⟩
      · have h1 : Layout (pushNodes (pushNode q t) ts) q.length [t] (pushNode q t).length := by
          refine hl1.congr ?_
          intro i _ hi
          rw [hs2, List.getElem?_append_left hi]
        exact h1.append hl2
end

theorem build_layout (forest : List Tree) : Layout (build forest) 0 forest (build forest).length :=
  (pushNodes_spec [] forest).2

end PestModel.Views
