import PestModel.Model.PState
import PestModel.Model.Proto
/-! Driver mode `prog`: `P <cfg> <input-hex> (<main> <env0> <env1> …)`;
cfg = comma separated `m0|m1` (memchr), `d0|d1` (error detail), `l_|l<n>` (call limit). -/
namespace PestModel.PStateDriver
open PestModel.PS PestModel.Proto PestModel.LineCol

def strOf (h : String) : Option Str := (hexOrDash h).map (·.toList)
def hexS (s : Str) : String := toHexOrDash (String.ofList s)

def parseInt (s : String) : Option Int :=
  match s.toList with
  | '-' :: ds => (String.ofList ds).toNat?.map fun n => -(n : Int)
  | _ => s.toNat?.map fun n => (n : Int)

def charOfNat? (n : Nat) : Option Char :=
  if h : n.isValidChar then some (Char.ofNatAux n h) else none

partial def progOf : SExp → Option Prog
  | .atom "ok" => some .ok
  | .atom "fail" => some .fail
  | .atom "soi" => some .startOfInput
  | .atom "eoi" => some .endOfInput
  | .atom "peek" => some .stackPeek
  | .atom "pop" => some .stackPop
  | .atom "mpeek" => some .stackMatchPeek
  | .atom "mpop" => some .stackMatchPop
  | .atom "drop" => some .stackDrop
  | .list [.atom "seq", p] => (progOf p).map .sequence
  | .list [.atom "opt", p] => (progOf p).map .optional
  | .list [.atom "rep", p] => (progOf p).map .repeat_
  | .list [.atom "la", .atom b, p] => (progOf p).map (.lookahead (b = "1"))
  | .list [.atom "at", .atom a, p] =>
    let a? := match a with | "A" => some Atomicity.atomic | "C" => some .compound | "N" => some .nonAtomic | _ => none
    match a?, progOf p with | some a, some p => some (.atomic a p) | _, _ => none
  | .list [.atom "rule", .atom r, p] => match r.toNat?, progOf p with | some r, some p => some (.rule r p) | _, _ => none
  | .list [.atom "push", p] => (progOf p).map .stackPush
  | .list [.atom "roe", p] => (progOf p).map .restoreOnErr
  | .list [.atom "and", p, q] => match progOf p, progOf q with | some p, some q => some (.andThen p q) | _, _ => none
  | .list [.atom "or", p, q] => match progOf p, progOf q with | some p, some q => some (.orElse p q) | _, _ => none
  | .list [.atom "str", .atom h] => (strOf h).map .matchString
  | .list [.atom "ins", .atom h] => (strOf h).map .matchInsensitive
  | .list [.atom "rng", .atom a, .atom b] =>
    match a.toNat? >>= charOfNat?, b.toNat? >>= charOfNat? with
    | some a, some b => some (.matchRange a b) | _, _ => none
  | .list (.atom "cby" :: rs) =>
    let rec pairs : List SExp → Option CharSet
      | [] => some []
      | .atom a :: .atom b :: rest => match a.toNat?, b.toNat?, pairs rest with
        | some a, some b, some r => some ((a, b) :: r) | _, _, _ => none
      | _ => none
    (pairs rs).map .matchCharBy
  | .list [.atom "skip", .atom n] => n.toNat?.map .skip
  | .list (.atom "until" :: hs) =>
    (hs.mapM fun (x : SExp) => match x with | .atom h => strOf h | _ => none).map .skipUntil
  | .list [.atom "slice", .atom a, .atom b, .atom d] =>
    let stop? : Option (Option Int) := if b = "_" then some none else (parseInt b).map some
    let d? := match d with | "B" => some MatchDir.bottomToTop | "T" => some .topToBottom | _ => none
    match parseInt a, stop?, d? with | some a, some b, some d => some (.stackMatchPeekSlice a b d) | _, _, _ => none
  | .list [.atom "lit", .atom h] => (strOf h).map .stackPushLiteral
  | .list [.atom "tag", .atom h] => (strOf h).map .tagNode
  | .list [.atom "call", .atom i] => i.toNat?.map .call
  | _ => none

def showQTok : QTok → String
  | .start e p => s!"S{e}@{p}"
  | .end_ si r tag p => s!"E{si}:{r}:{match tag with | some t => hexS t | none => "_"}@{p}"

def showList (xs : List Nat) : String := "[" ++ ", ".intercalate (xs.map toString) ++ "]"

def showPTok : PTok → String
  | .sens s => "s" ++ hexS s
  | .insens s => "i" ++ hexS s
  | .range a b => "r" ++ String.ofList (Nat.toDigits 16 a.toNat) ++ "-" ++ String.ofList (Nat.toDigits 16 b.toNat)
  | .builtin => "b"

def showCS (c : CallStack) : String :=
  (match c.deepest with | .rule r => toString r | .token => "T") ++
  (match c.parent with | some r => s!"<{r}" | none => "")

def snapshot (s : PState) : String :=
  let q := " ".intercalate (s.queue.map showQTok)
  let st := " ".intercalate (s.stack.cache.reverse.map hexS)
  let la := match s.lookahead with | .positive => "P" | .negative => "G" | .none => "N"
  let at_ := match s.atomicity with | .atomic => "A" | .compound => "C" | .nonAtomic => "N"
  let calls := match s.calls with | some (c, _) => toString c | none => "-1"
  s!"pos={s.pos} q=[{q}] st=[{st}]/{s.stack.lengths.length} la={la} at={at_} apos={s.attemptPos} pa={showList s.posAtt} na={showList s.negAtt} calls={calls}" ++
  s!" det={if s.pa.enabled then 1 else 0} max={s.pa.maxPos} cs=[{" ".intercalate (s.pa.callStacks.map showCS)}] exp=[{" ".intercalate (s.pa.expected.map showPTok)}] unexp=[{" ".intercalate (s.pa.unexpected.map showPTok)}]"

def showOut : Out → String
  | .ok s => "ok " ++ snapshot s
  | .err s => "err " ++ snapshot s
  | .panic => "panic"
  | .fuel => "fuel"

structure RunCfg where
  memchr : Bool := true
  detail : Bool := false
  limit : Option Nat := none

def parseCfg (w : String) : Option RunCfg :=
  (w.splitOn ",").foldlM (fun (c : RunCfg) item =>
    match item.toList with
    | ['m', b] => some { c with memchr := b = '1' }
    | ['d', b] => some { c with detail := b = '1' }
    | 'l' :: rest => if rest = ['_'] then some { c with limit := none } else (String.ofList rest).toNat?.map fun n => { c with limit := some n }
    | _ => none) {}

def fuelDefault : Nat := 100000

def runLine (line : String) : String :=
  match sexpTokens line with
  | "P" :: cfgw :: inh :: rest =>
    match parseCfg cfgw, strOf inh, sexpParse rest with
    | some rc, some input, some [.list (m :: envs)] =>
      match progOf m, envs.mapM progOf with
      | some main, some env =>
        showOut (run { memchr := rc.memchr, env := env } fuelDefault main (PState.new input rc.limit rc.detail))
      | _, _ => "bad-op"
    | _, _, _ => "bad-op"
  | _ => "bad-op"

end PestModel.PStateDriver

namespace PestModel.PStateDriver
open PestModel.PS

def showInt (i : Int) : String := toString i

/-- S-expression of a call tree (inverse of `progOf`). -/
partial def showProg : Prog → String
  | .ok => "ok"
  | .fail => "fail"
  | .startOfInput => "soi"
  | .endOfInput => "eoi"
  | .stackPeek => "peek"
  | .stackPop => "pop"
  | .stackMatchPeek => "mpeek"
  | .stackMatchPop => "mpop"
  | .stackDrop => "drop"
  | .sequence p => s!"(seq {showProg p})"
  | .optional p => s!"(opt {showProg p})"
  | .repeat_ p => s!"(rep {showProg p})"
  | .repLoop p => s!"(reploop {showProg p})"
  | .lookahead b p => s!"(la {if b then 1 else 0} {showProg p})"
  | .atomic a p => s!"(at {match a with | .atomic => "A" | .compound => "C" | .nonAtomic => "N"} {showProg p})"
  | .rule r p => s!"(rule {r} {showProg p})"
  | .stackPush p => s!"(push {showProg p})"
  | .restoreOnErr p => s!"(roe {showProg p})"
  | .andThen p q => s!"(and {showProg p} {showProg q})"
  | .orElse p q => s!"(or {showProg p} {showProg q})"
  | .matchString s => s!"(str {hexS s})"
  | .matchInsensitive s => s!"(ins {hexS s})"
  | .matchRange a b => s!"(rng {a.toNat} {b.toNat})"
  | .matchCharBy cs => "(cby" ++ String.join (cs.map fun (a, b) => s!" {a} {b}") ++ ")"
  | .skip n => s!"(skip {n})"
  | .skipUntil ss => "(until" ++ String.join (ss.map fun s => " " ++ hexS s) ++ ")"
  | .stackMatchPeekSlice a b d =>
    s!"(slice {showInt a} {match b with | some x => showInt x | none => "_"} {match d with | .bottomToTop => "B" | .topToBottom => "T"})"
  | .stackPushLiteral s => s!"(lit {hexS s})"
  | .tagNode t => s!"(tag {hexS t})"
  | .call i => s!"(call {i})"

end PestModel.PStateDriver
