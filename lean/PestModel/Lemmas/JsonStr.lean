import PestModel.Lemmas.JsonNum
/-!
C18 helper lemmas, part 4: strings and literals. `string` of the grammar (atomic) = RFC 8259 `string`.
-/
namespace PestModel.Json
open PestModel.Ref PestModel.G
open PestModel.LineCol (Str cLen bLen)
open PestModel.PS (Atomicity CharSet restAt restAt_iff restAt_advance)
open PestModel.Views (Tree)

/-! ### combinator: sequencing of lexical results in atomic mode -/

section
variable {input : Str} {uni : String → Option CharSet}

theorem seq_toRes {a b : Expr} {A B : Cur → Option Cur} {la : Bool} {stk : List Str} {c : Cur}
    (ha : val (jctx input uni) .atomic la a ⟨c.pos, stk⟩ = toRes (A c) stk)
    (hb : ∀ c', A c = some c' → val (jctx input uni) .atomic la b ⟨c'.pos, stk⟩ = toRes (B c') stk) :
    val (jctx input uni) .atomic la (.seq a b) ⟨c.pos, stk⟩ = toRes ((A c).bind B) stk := by
  rw [val_seq_atomic, ha]
  cases hA : A c with
  | none => rfl
  | some c' =>
    simp only [toRes_some, Option.bind_some]
    rw [hb c' hA]
    cases B c' <;> rfl

end

/-! ### the RFC side -/

def simpleEsc (e : Char) : Prop :=
  e = '"' ∨ e = '\\' ∨ e = '/' ∨ e = 'b' ∨ e = 'f' ∨ e = 'n' ∨ e = 'r' ∨ e = 't'

instance (e : Char) : Decidable (simpleEsc e) := by unfold simpleEsc; infer_instance

def hexO (c : Cur) : Option Cur :=
  match c.rest with
  | h :: _ => if isHex h then some c.adv else none
  | [] => none

def hex4O (c : Cur) : Option Cur := (((hexO c).bind hexO).bind hexO).bind hexO

theorem hexO_reach {c c' : Cur} (h : hexO c = some c') : Reach c c' := by
  unfold hexO at h
  split at h
  · split at h
    · simp only [Option.some.injEq] at h; subst h; exact Reach.adv c
    · simp at h
  · simp at h

theorem hex4O_reach {c c' : Cur} (h : hex4O c = some c') : Reach c c' := by
  unfold hex4O at h
  simp only [Option.bind_eq_some_iff] at h
  obtain ⟨c3, ⟨c2, ⟨c1, h1, h2⟩, h3⟩, h4⟩ := h
  exact Reach.trans (hexO_reach h1) (Reach.trans (hexO_reach h2) (Reach.trans (hexO_reach h3) (hexO_reach h4)))

theorem hex4O_eq (c : Cur) : hex4O c =
    match c.rest with
    | h1 :: h2 :: h3 :: h4 :: _ =>
      if isHex h1 ∧ isHex h2 ∧ isHex h3 ∧ isHex h4 then some c.adv.adv.adv.adv else none
    | _ => none := by
  obtain ⟨rest, p⟩ := c
  rcases rest with _ | ⟨h1, _ | ⟨h2, _ | ⟨h3, _ | ⟨h4, tl⟩⟩⟩⟩
  · simp [hex4O, hexO]
  · by_cases e1 : isHex h1 = true <;> simp [hex4O, hexO, Cur.adv, e1]
  · by_cases e1 : isHex h1 = true <;> by_cases e2 : isHex h2 = true <;> simp [hex4O, hexO, Cur.adv, e1, e2]
  · by_cases e1 : isHex h1 = true <;> by_cases e2 : isHex h2 = true <;> by_cases e3 : isHex h3 = true <;>
      simp [hex4O, hexO, Cur.adv, e1, e2, e3]
  · by_cases e1 : isHex h1 = true <;> by_cases e2 : isHex h2 = true <;> by_cases e3 : isHex h3 = true <;>
      by_cases e4 : isHex h4 = true <;> simp [hex4O, hexO, Cur.adv, e1, e2, e3, e4]

/-- one escape sequence, without fuel. -/
def escO (c : Cur) : Option Cur :=
  match c.rest with
  | '\\' :: e :: _ =>
    if simpleEsc e then some c.adv.adv
    else if e = 'u' then hex4O c.adv.adv
    else none
  | _ => none

theorem escO_reach {c c' : Cur} (h : escO c = some c') : Reach c.adv c' := by
  unfold escO at h
  split at h
  · split at h
    · simp only [Option.some.injEq] at h; subst h; exact Reach.adv _
    · split at h
      · exact Reach.trans (Reach.adv _) (hex4O_reach h)
      · simp at h
  · simp at h

theorem escO_of_ne {c : Cur} {ch : Char} {cs : Str} (hr : c.rest = ch :: cs) (hne : ch ≠ '\\') : escO c = none := by
  unfold escO
  split
  · rename_i h'; rw [hr] at h'; simp at h'; exact absurd h'.1 hne
  · rfl

theorem escO_nil {c : Cur} (hr : c.rest = []) : escO c = none := by
  unfold escO
  split
  · rename_i h'; rw [hr] at h'; simp at h'
  · rfl

theorem sb_nil {c : Cur} (f : Nat) (hr : c.rest = []) : stringBody (f + 1) c = none := by
  rw [stringBody]
  split <;> simp_all

theorem sb_quote {c : Cur} (f : Nat) {cs : Str} (hr : c.rest = '"' :: cs) : stringBody (f + 1) c = some c.adv := by
  rw [stringBody]
  split <;> simp_all

theorem sb_other {c : Cur} (f : Nat) {ch : Char} {cs : Str} (hr : c.rest = ch :: cs) (h1 : ch ≠ '"') (h2 : ch ≠ '\\') :
    stringBody (f + 1) c = if ch.toNat < 0x20 then none else stringBody f c.adv := by
  rw [stringBody]
  split
  · rename_i h'; rw [hr] at h'; simp at h'
  · rename_i h'; rw [hr] at h'; simp only [List.cons.injEq] at h'; exact absurd h'.1 h1
  · rename_i h'; rw [hr] at h'; simp only [List.cons.injEq] at h'; exact absurd h'.1 h2
  · rename_i h'; rw [hr] at h'; simp only [List.cons.injEq] at h'; exact absurd h'.1 h2
  · rename_i ch' _ _ _ _ h'
    rw [hr] at h'
    simp only [List.cons.injEq] at h'
    rw [h'.1]

theorem sb_esc {c : Cur} (f : Nat) {cs : Str} (hr : c.rest = '\\' :: cs) :
    stringBody (f + 1) c = match escO c with | some c' => stringBody f c' | none => none := by
  rw [stringBody, escO]
  have hq : ¬ ('\\' = '"') := by decide
  split
  · simp_all
  · simp_all
  · rename_i e tl h'
    simp only [h']
    have hs : simpleEsc e ↔ (e = '"' ∨ e = '\\' ∨ e = '/' ∨ e = 'b' ∨ e = 'f' ∨ e = 'n' ∨ e = 'r' ∨ e = 't') := Iff.rfl
    by_cases h1 : simpleEsc e
    · rw [if_pos h1, if_pos (hs.1 h1)]
    · rw [if_neg h1, if_neg (fun h => h1 (hs.2 h))]
      by_cases h2 : e = 'u'
      · rw [if_pos h2, if_pos h2, hex4O_eq]
        generalize c.adv.adv.rest = r
        rcases r with _ | ⟨x1, _ | ⟨x2, _ | ⟨x3, _ | ⟨x4, tl⟩⟩⟩⟩
        · rfl
        · rfl
        · rfl
        · rfl
        · by_cases hx : isHex x1 = true ∧ isHex x2 = true ∧ isHex x3 = true ∧ isHex x4 = true
          · simp only [hx, and_self, if_true]
          · simp only [hx, if_false]
      · rw [if_neg h2, if_neg h2]
  · rename_i h'
    simp only [h']
  · rename_i ch' tl hn1 hn2 hn3 h'
    rw [hr] at h'
    simp only [List.cons.injEq] at h'
    cases cs with
    | nil => exact (hn3 h'.1.symm h'.2.symm).elim
    | cons e tl' => exact (hn2 e tl' h'.1.symm h'.2.symm).elim

/-- unescaped character of a string. -/
def unesc (ch : Char) : Prop := ch ≠ '"' ∧ ch ≠ '\\' ∧ ¬ ch.toNat < 0x20

instance (ch : Char) : Decidable (unesc ch) := by unfold unesc; infer_instance

/-- skip the longest run of unescaped characters. -/
def runL : Str → Nat → Cur
  | [], p => ⟨[], p⟩
  | ch :: cs, p => if unesc ch then runL cs (p + cLen ch) else ⟨ch :: cs, p⟩

def runC (c : Cur) : Cur := runL c.rest c.pos

theorem runL_reach (rest : Str) (p : Nat) : Reach ⟨rest, p⟩ (runL rest p) := by
  induction rest generalizing p with
  | nil => exact Reach.refl _
  | cons ch cs ih =>
    simp only [runL]
    split
    · exact Reach.trans ⟨[ch], by simp, by simp⟩ (ih _)
    · exact Reach.refl _

theorem runC_reach (c : Cur) : Reach c (runC c) := by cases c; exact runL_reach _ _

theorem runC_unesc {c : Cur} {ch : Char} {cs : Str} (hr : c.rest = ch :: cs) (hu : unesc ch) : runC c = runC c.adv := by
  obtain ⟨rest, p⟩ := c
  simp only at hr; subst hr
  simp [runC, runL, hu, Cur.adv]

theorem runC_stop {c : Cur} {ch : Char} {cs : Str} (hr : c.rest = ch :: cs) (hu : ¬ unesc ch) : runC c = c := by
  obtain ⟨rest, p⟩ := c
  simp only at hr; subst hr
  simp [runC, runL, hu]

theorem runC_nil {c : Cur} (hr : c.rest = []) : runC c = c := by
  obtain ⟨rest, p⟩ := c
  simp only at hr; subst hr
  rfl

theorem range_iff (ch : Char) : (Char.ofNat 0 ≤ ch ∧ ch ≤ Char.ofNat 31) ↔ ch.toNat < 0x20 := by
  have h0 : (Char.ofNat 0).val.toNat = 0 := by decide
  have h1 : (Char.ofNat 31).val.toNat = 31 := by decide
  simp only [Char.le_def, UInt32.le_iff_toNat_le, h0, h1, Char.toNat]
  omega

/-- the closing quotation mark. -/
def closeQ (c : Cur) : Option Cur :=
  match c.rest with
  | '"' :: _ => some c.adv
  | _ => none

/-! ### the grammar side -/

section
variable {input : Str} {uni : String → Option CharSet}

theorem any_call (m : Atomicity) (la : Bool) (s : St) :
    valCa (jctx input uni) m la "ANY" s = oneChar (jctx input uni) s (fun _ => true) := by
  rw [valCa_unfold, rule_ANY]; rfl

theorem hex_call (m : Atomicity) (la : Bool) (s : St) :
    valCa (jctx input uni) m la "ASCII_HEX_DIGIT" s = oneChar (jctx input uni) s isHex := by
  rw [valCa_unfold, rule_HEX]
  have : isHex = fun ch => decide (('0' ≤ ch ∧ ch ≤ '9') ∨ ('a' ≤ ch ∧ ch ≤ 'f') ∨ ('A' ≤ ch ∧ ch ≤ 'F')) := by
    funext ch; simp [isHex, isDigit]
  rw [this]; rfl

theorem unesc_val {c : Cur} (h : At input c) (la : Bool) (stk : List Str) :
    val (jctx input uni) .atomic la eUnesc ⟨c.pos, stk⟩ =
      match c.rest with
      | ch :: _ => if unesc ch then .ok ⟨c.adv.pos, stk⟩ [] else .fail
      | [] => .fail := by
  simp only [eUnesc, val_seq_atomic, val_negPred, val_choice, val_str, val_range, val_ident, any_call]
  cases hr : c.rest with
  | nil => simp [lit_nil h hr, oneChar_nil h hr]
  | cons ch cs =>
    simp only [lit1_cons h hr, oneChar_cons h hr]
    by_cases h1 : ch = '"'
    · simp [h1, unesc]
    · by_cases h2 : ch = '\\'
      · simp [h2, unesc]
      · by_cases h3 : ch.toNat < 0x20
        · have := (range_iff ch).2 h3
          simp [h1, h2, h3, unesc, this]
        · have : ¬ (Char.ofNat 0 ≤ ch ∧ ch ≤ Char.ofNat 31) := fun h => h3 ((range_iff ch).1 h)
          have hu : unesc ch := ⟨h1, h2, h3⟩
          simp [h1, h2, hu, this, oneChar_cons h hr]

theorem run_loop (la : Bool) (stk : List Str) (rest : Str) (p : Nat) (h : restAt input p = some rest) :
    valL (jctx input uni) .atomic la eUnesc ⟨p, stk⟩ [] = .ok ⟨(runL rest p).pos, stk⟩ [] := by
  induction rest generalizing p with
  | nil =>
    have hA : At input ⟨[], p⟩ := h
    rw [valL_atomic, unesc_val hA]
    rfl
  | cons ch cs ih =>
    have hA : At input ⟨ch :: cs, p⟩ := h
    rw [valL_atomic, unesc_val hA]
    simp only [runL]
    by_cases hd : unesc ch
    · simp only [hd, if_true, List.append_nil]
      have h2 : restAt input (p + cLen ch) = some cs := by
        have := hA.adv; rw [adv_cons rfl] at this; exact this
      rw [adv_cons rfl]
      exact ih _ h2
    · simp only [hd]
      rfl

theorem run_rep {c : Cur} (h : At input c) (la : Bool) (stk : List Str) :
    val (jctx input uni) .atomic la (.rep eUnesc) ⟨c.pos, stk⟩ = .ok ⟨(runC c).pos, stk⟩ [] := by
  rw [val_rep, unesc_val h]
  obtain ⟨rest, p⟩ := c
  cases rest with
  | nil => rfl
  | cons ch cs =>
    simp only [runC, runL]
    by_cases hd : unesc ch
    · simp only [hd, if_true]
      rw [adv_cons rfl]
      apply run_loop
      have := h.adv; rw [adv_cons rfl] at this; exact this
    · simp only [hd]
      rfl

theorem hex_val {c : Cur} (h : At input c) (la : Bool) (stk : List Str) :
    val (jctx input uni) .atomic la (.ident "ASCII_HEX_DIGIT") ⟨c.pos, stk⟩ = toRes (hexO c) stk := by
  rw [val_ident, hex_call]
  cases hr : c.rest with
  | nil => rw [oneChar_nil h hr]; simp [hexO, hr]
  | cons ch cs =>
    rw [oneChar_cons h hr]
    by_cases hx : isHex ch = true <;> simp [hexO, hr, hx]

theorem hex4_val {c : Cur} (h : At input c) (la : Bool) (stk : List Str) :
    val (jctx input uni) .atomic la
      (.seq (.ident "ASCII_HEX_DIGIT") (.seq (.ident "ASCII_HEX_DIGIT") (.seq (.ident "ASCII_HEX_DIGIT") (.ident "ASCII_HEX_DIGIT"))))
      ⟨c.pos, stk⟩ = toRes (hex4O c) stk := by
  have e : hex4O c = (hexO c).bind (fun c1 => (hexO c1).bind (fun c2 => (hexO c2).bind hexO)) := by
    unfold hex4O
    cases hexO c with
    | none => rfl
    | some c1 =>
      simp only [Option.bind_some]
      cases hexO c1 with
      | none => rfl
      | some c2 => rfl
  rw [e]
  refine seq_toRes (hex_val h la stk) (fun c1 h1 => ?_)
  have hA1 := h.reach (hexO_reach h1)
  refine seq_toRes (hex_val hA1 la stk) (fun c2 h2 => ?_)
  have hA2 := hA1.reach (hexO_reach h2)
  exact seq_toRes (hex_val hA2 la stk) (fun c3 h3 => hex_val (hA2.reach (hexO_reach h3)) la stk)

theorem unicode_call {c : Cur} (h : At input c) (la : Bool) (stk : List Str) :
    valCa (jctx input uni) .atomic la "unicode" ⟨c.pos, stk⟩ =
      match c.rest with
      | ch :: _ => if ch = 'u' then toRes (hex4O c.adv) stk else .fail
      | [] => .fail := by
  rw [call_atomic_of (rule_unicode input uni) (by decide)]
  simp only [eUnicode, val_seq_atomic, val_str, val_repExact]
  have e : seqOfList (List.replicate 4 (Expr.ident "ASCII_HEX_DIGIT")) =
      some (.seq (.ident "ASCII_HEX_DIGIT") (.seq (.ident "ASCII_HEX_DIGIT") (.seq (.ident "ASCII_HEX_DIGIT") (.ident "ASCII_HEX_DIGIT")))) := rfl
  rw [e]
  cases hr : c.rest with
  | nil => simp [lit_nil h hr]
  | cons ch cs =>
    simp only [lit1_cons h hr]
    by_cases h1 : ch = 'u'
    · simp only [h1, if_true]
      rw [hex4_val h.adv]
      cases hex4O c.adv <;> rfl
    · simp [h1]

theorem escape_call {c : Cur} (h : At input c) (la : Bool) (stk : List Str) :
    valCa (jctx input uni) .atomic la "escape" ⟨c.pos, stk⟩ = toRes (escO c) stk := by
  rw [call_atomic_of (rule_escape input uni) (by decide)]
  simp only [eEscape, val_seq_atomic, val_str, val_choice, val_ident]
  cases hr : c.rest with
  | nil => simp [lit_nil h hr, escO_nil hr]
  | cons ch cs =>
    simp only [lit1_cons h hr]
    by_cases h0 : ch = '\\'
    · subst h0
      simp only [if_true]
      have hA := h.adv
      have hr1 : c.adv.rest = cs := by rw [adv_cons hr]
      cases cs with
      | nil =>
        have e : escO c = none := by simp [escO, hr]
        simp [lit_nil hA hr1, unicode_call hA, hr1, e]
      | cons e tl =>
        simp only [lit1_cons hA hr1, unicode_call hA, hr1]
        have ee : escO c = if simpleEsc e then some c.adv.adv else if e = 'u' then hex4O c.adv.adv else none := by
          simp [escO, hr]
        rw [ee]
        unfold simpleEsc
        by_cases e1 : e = '"'
        · simp [e1]
        · by_cases e2 : e = '\\'
          · simp [e2]
          · by_cases e3 : e = '/'
            · simp [e3]
            · by_cases e4 : e = 'b'
              · simp [e4]
              · by_cases e5 : e = 'f'
                · simp [e5]
                · by_cases e6 : e = 'n'
                  · simp [e6]
                  · by_cases e7 : e = 'r'
                    · simp [e7]
                    · by_cases e8 : e = 't'
                      · simp [e8]
                      · by_cases e9 : e = 'u'
                        · subst e9
                          simp
                          cases hex4O c.adv.adv <;> rfl
                        · simp [e1, e2, e3, e4, e5, e6, e7, e8, e9]
    · simp [h0, escO_of_ne hr h0]

theorem inner_unfold {c : Cur} (h : At input c) (la : Bool) (stk : List Str) :
    valCa (jctx input uni) .atomic la "inner" ⟨c.pos, stk⟩ =
      val (jctx input uni) .atomic la eInnerTail ⟨(runC c).pos, stk⟩ := by
  rw [call_atomic_of (rule_inner input uni) (by decide)]
  simp only [eInner, val_seq_atomic]
  rw [run_rep h]
  simp only [List.nil_append]
  cases val (jctx input uni) .atomic la eInnerTail ⟨(runC c).pos, stk⟩ <;> rfl

/-- `inner` always succeeds, at a cursor where the RFC string body needs the closing quote. -/
theorem inner_spec (la : Bool) (stk : List Str) (f : Nat) :
    ∀ c : Cur, At input c → c.rest.length < f →
      ∃ c', valCa (jctx input uni) .atomic la "inner" ⟨c.pos, stk⟩ = .ok ⟨c'.pos, stk⟩ [] ∧ Reach c c' ∧
        stringBody f c = closeQ c' := by
  induction f with
  | zero => intro c _ hl; omega
  | succ f ih =>
    intro c h hl
    have tail_stop : ∀ d : Cur, At input d → escO d = none →
        val (jctx input uni) .atomic la eInnerTail ⟨d.pos, stk⟩ = .ok ⟨d.pos, stk⟩ [] := by
      intro d hd he
      simp only [eInnerTail, val_opt, val_seq_atomic, val_ident]
      rw [escape_call hd, he]
      rfl
    cases hr : c.rest with
    | nil =>
      refine ⟨c, ?_, Reach.refl c, ?_⟩
      · rw [inner_unfold h, runC_nil hr]
        exact tail_stop c h (escO_nil hr)
      · rw [sb_nil f hr]; simp [closeQ, hr]
    | cons ch cs =>
      by_cases hu : unesc ch
      · obtain ⟨c', h1, h2, h3⟩ := ih c.adv h.adv (by have := adv_len_lt hr; omega)
        refine ⟨c', ?_, Reach.trans (Reach.adv c) h2, ?_⟩
        · rw [inner_unfold h, runC_unesc hr hu, ← inner_unfold h.adv]
          exact h1
        · rw [sb_other f hr hu.1 hu.2.1, if_neg hu.2.2]
          exact h3
      · rw [inner_unfold h, runC_stop hr hu]
        by_cases hq : ch = '"'
        · subst hq
          refine ⟨c, tail_stop c h (escO_of_ne hr (by decide)), Reach.refl c, ?_⟩
          rw [sb_quote f hr]; simp [closeQ, hr]
        · by_cases hb : ch = '\\'
          · subst hb
            rw [sb_esc f hr]
            cases he : escO c with
            | none =>
              refine ⟨c, tail_stop c h he, Reach.refl c, ?_⟩
              simp [closeQ, hr]
            | some d =>
              have hrd := escO_reach he
              have hAd := h.adv.reach hrd
              obtain ⟨c', h1, h2, h3⟩ := ih d hAd (by have := adv_len_lt hr; have := hrd.len; omega)
              refine ⟨c', ?_, Reach.trans (Reach.adv c) (Reach.trans hrd h2), h3⟩
              simp only [eInnerTail, val_opt, val_seq_atomic, val_ident]
              rw [escape_call h, he]
              simp only [toRes_some]
              rw [h1]
              rfl
          · have h3 : ch.toNat < 0x20 := by
              apply Classical.byContradiction
              intro h3; exact hu ⟨hq, hb, h3⟩
            refine ⟨c, tail_stop c h (escO_of_ne hr hb), Reach.refl c, ?_⟩
            rw [sb_other f hr hq hb, if_pos h3]
            unfold closeQ
            split
            · rename_i h'; rw [hr] at h'; simp at h'; exact absurd h'.1 hq
            · rfl

/-- **strings**: the grammar's `string` (called from a non-atomic rule) = RFC 8259 `string`,
with the same leaf. -/
theorem string_call {c : Cur} (h : At input c) (stk : List Str) :
    valCa (jctx input uni) .nonAtomic false "string" ⟨c.pos, stk⟩ =
      match string c with
      | some (t, c') => .ok ⟨c'.pos, stk⟩ [JT t]
      | none => .fail := by
  rw [valCa_unfold, rule_string]
  simp only [bodyMode, emitsFor]
  rw [show (if "string" = "WHITESPACE" ∨ "string" = "COMMENT" then
        (if RuleType.atomic = RuleType.compound then Atomicity.compound else Atomicity.atomic)
      else Atomicity.atomic) = Atomicity.atomic from rfl]
  simp only [eString, val_seq_atomic, val_str, val_ident]
  unfold string
  cases hr : c.rest with
  | nil => simp [lit_nil h hr]
  | cons ch cs =>
    rw [lit1_cons h hr]
    by_cases hq : ch = '"'
    · subst hq
      simp only [if_true]
      obtain ⟨c', h1, h2, h3⟩ := inner_spec (input := input) (uni := uni) false stk (cs.length + 1 + 1) c.adv h.adv
        (by have := adv_len_lt hr; rw [hr] at this; simp at this; omega)
      rw [h1]
      simp only [List.length_cons]
      rw [h3]
      have hA' := h.adv.reach h2
      unfold closeQ
      cases hr' : c'.rest with
      | nil => simp [lit_nil hA' hr']
      | cons d ds =>
        rw [lit1_cons hA' hr']
        by_cases hd : d = '"'
        · subst hd
          simp [JT_node, ruleIdx]
          decide
        · simp [hd]
    · simp [hq]

theorem stringBody_reach (f : Nat) : ∀ c c' : Cur, stringBody f c = some c' →
    Reach c c' ∧ c'.rest.length < c.rest.length := by
  induction f with
  | zero => intro c c' h; simp [stringBody] at h
  | succ f ih =>
    intro c c' h
    cases hr : c.rest with
    | nil => rw [sb_nil f hr] at h; simp at h
    | cons ch cs =>
      have hlt := adv_len_lt hr
      rw [hr] at hlt
      by_cases hq : ch = '"'
      · subst hq
        rw [sb_quote f hr] at h
        simp only [Option.some.injEq] at h; subst h
        exact ⟨Reach.adv c, hlt⟩
      · by_cases hb : ch = '\\'
        · subst hb
          rw [sb_esc f hr] at h
          cases he : escO c with
          | none => simp [he] at h
          | some d =>
            simp only [he] at h
            have hrd := escO_reach he
            obtain ⟨h1, h2⟩ := ih d c' h
            exact ⟨Reach.trans (Reach.adv c) (Reach.trans hrd h1), by have := hrd.len; omega⟩
        · rw [sb_other f hr hq hb] at h
          split at h
          · simp at h
          · obtain ⟨h1, h2⟩ := ih c.adv c' h
            exact ⟨Reach.trans (Reach.adv c) h1, by omega⟩

theorem string_reach {c : Cur} {t : JTree} {c' : Cur} (h : string c = some (t, c')) :
    Reach c c' ∧ c'.rest.length < c.rest.length := by
  unfold string at h
  split at h
  · rename_i tl hr
    cases hs : stringBody (c.rest.length + 1) c.adv with
    | none => simp [hs] at h
    | some d =>
      simp only [hs, Option.some.injEq, Prod.mk.injEq] at h
      obtain ⟨_, rfl⟩ := h
      obtain ⟨h1, h2⟩ := stringBody_reach _ _ _ hs
      have := (Reach.adv c).len
      exact ⟨Reach.trans (Reach.adv c) h1, by omega⟩
  · simp at h

end
end PestModel.Json
