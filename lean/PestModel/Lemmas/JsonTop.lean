import PestModel.Lemmas.JsonMain
/-!
C18 helper lemmas, part 8: `value` (ordered choice = dispatch on the first character), the induction,
and the top rule `json`.
-/
namespace PestModel.Json
open PestModel.Ref PestModel.G
open PestModel.LineCol (Str cLen bLen)
open PestModel.PS (Atomicity CharSet restAt restAt_iff restAt_advance)
open PestModel.Views (Tree)

section
variable {input : Str} {uni : String → Option CharSet}

theorem obj_fail {c : Cur} (h : At input c) (stk : List Str) (hne : ∀ cs, c.rest ≠ '{' :: cs) :
    valCa (jctx input uni) .nonAtomic false "object" ⟨c.pos, stk⟩ = .fail := by
  rw [call_normal_of (rule_object input uni) (by decide)]
  rw [show eObject = .choice (listE '{' '}' "pair") (.seq (.str ['{']) (.str ['}'])) from rfl,
    listE_fail_of_head h stk '{' '}' "pair" hne]

theorem arr_fail {c : Cur} (h : At input c) (stk : List Str) (hne : ∀ cs, c.rest ≠ '[' :: cs) :
    valCa (jctx input uni) .nonAtomic false "array" ⟨c.pos, stk⟩ = .fail := by
  rw [call_normal_of (rule_array input uni) (by decide)]
  rw [show eArray = .choice (listE '[' ']' "value") (.seq (.str ['[']) (.str [']'])) from rfl,
    listE_fail_of_head h stk '[' ']' "value" hne]

/-- the ordered choice of `value`. -/
def chain6 (r1 r2 r3 r4 r5 r6 : Res) : Res :=
  match (match (match (match (match r1 with | .fail => r2 | r => r) with | .fail => r3 | r => r) with
    | .fail => r4 | r => r) with | .fail => r5 | r => r) with
  | .fail => r6
  | r => r

theorem value_fold (c : Cur) (stk : List Str) (X : Option (JTree × Cur)) :
    (match vRes X stk with
      | .ok s1 f1 => .ok s1 [Tree.node 4 c.pos s1.pos none f1]
      | r => r) =
    vRes (match X with
      | some (t, c') => some (.node "value" c.pos c'.pos [t], c')
      | none => none) stk := by
  cases X with
  | none => rfl
  | some p =>
    obtain ⟨t, c'⟩ := p
    simp [JT_node, ruleIdx]
    decide

theorem vRes_or_fail (X : Option (JTree × Cur)) (stk : List Str) :
    (match vRes X stk with | .fail => Res.fail | r => r) = vRes X stk := by
  cases X with
  | none => rfl
  | some p => rfl

theorem value_step {stk : List Str} {f : Nat} (hO : PO input uni stk f) (hA : PA input uni stk f) :
    PV input uni stk (f + 1) := by
  intro c h hb
  rw [call_normal_of (rule_value input uni) (by decide), value_succ]
  suffices key : val (jctx input uni) .nonAtomic false eValue ⟨c.pos, stk⟩ = vRes (valueInner f c) stk by
    rw [key]; exact value_fold c stk _
  simp only [eValue, val_choice, val_ident]
  have hS : valCa (jctx input uni) .nonAtomic false "string" ⟨c.pos, stk⟩ = vRes (string c) stk := string_call h stk
  have hN : valCa (jctx input uni) .nonAtomic false "number" ⟨c.pos, stk⟩ = vRes (number c) stk := number_call h stk
  rw [hS, hN, bool_call h, null_call h, true_toList, false_toList, null_toList]
  cases hr : c.rest with
  | nil =>
    have e1 : string c = none := string_none (by simp [hr])
    have e2 : number c = none := number_nil hr
    have e3 := obj_fail (uni := uni) h stk (by simp [hr])
    have e4 := arr_fail (uni := uni) h stk (by simp [hr])
    have e5 : literal ['t', 'r', 'u', 'e'] "bool" c = none := literal_none (by simp [hr])
    have e6 : literal ['f', 'a', 'l', 's', 'e'] "bool" c = none := literal_none (by simp [hr])
    have e7 : literal ['n', 'u', 'l', 'l'] "null" c = none := literal_none (by simp [hr])
    have e8 : valueInner f c = none := by unfold valueInner; simp only [hr]; exact e2
    rw [e1, e2, e3, e4, e5, e6, e7, e8]
    rfl
  | cons ch cs =>
    by_cases c1 : ch = '"'
    · subst c1
      have e2 : number c = none := number_none hr (by decide) (by decide)
      have e3 := obj_fail (uni := uni) h stk (by simp [hr])
      have e4 := arr_fail (uni := uni) h stk (by simp [hr])
      have e5 : literal ['t', 'r', 'u', 'e'] "bool" c = none := literal_none (by simp [hr])
      have e6 : literal ['f', 'a', 'l', 's', 'e'] "bool" c = none := literal_none (by simp [hr])
      have e7 : literal ['n', 'u', 'l', 'l'] "null" c = none := literal_none (by simp [hr])
      have e8 : valueInner f c = string c := by unfold valueInner; simp only [hr]
      rw [e2, e3, e4, e5, e6, e7, e8]
      cases string c with
      | none => rfl
      | some p => rfl
    · by_cases c2 : ch = '{'
      · subst c2
        have e1 : string c = none := string_none (by simp [hr])
        have e2 : number c = none := number_none hr (by decide) (by decide)
        have e3 := hO c cs h hr (by omega)
        have e4 := arr_fail (uni := uni) h stk (by simp [hr])
        have e5 : literal ['t', 'r', 'u', 'e'] "bool" c = none := literal_none (by simp [hr])
        have e6 : literal ['f', 'a', 'l', 's', 'e'] "bool" c = none := literal_none (by simp [hr])
        have e7 : literal ['n', 'u', 'l', 'l'] "null" c = none := literal_none (by simp [hr])
        have e8 : valueInner f c = object f c := by unfold valueInner; simp only [hr]
        rw [e1, e2, e3, e4, e5, e6, e7, e8]
        cases object f c with
        | none => rfl
        | some p => rfl
      · by_cases c3 : ch = '['
        · subst c3
          have e1 : string c = none := string_none (by simp [hr])
          have e2 : number c = none := number_none hr (by decide) (by decide)
          have e3 := obj_fail (uni := uni) h stk (by simp [hr])
          have e4 := hA c cs h hr (by omega)
          have e5 : literal ['t', 'r', 'u', 'e'] "bool" c = none := literal_none (by simp [hr])
          have e6 : literal ['f', 'a', 'l', 's', 'e'] "bool" c = none := literal_none (by simp [hr])
          have e7 : literal ['n', 'u', 'l', 'l'] "null" c = none := literal_none (by simp [hr])
          have e8 : valueInner f c = array f c := by unfold valueInner; simp only [hr]
          rw [e1, e2, e3, e4, e5, e6, e7, e8]
          cases array f c with
          | none => rfl
          | some p => rfl
        · by_cases c4 : ch = 't'
          · subst c4
            have e1 : string c = none := string_none (by simp [hr])
            have e2 : number c = none := number_none hr (by decide) (by decide)
            have e3 := obj_fail (uni := uni) h stk (by simp [hr])
            have e4 := arr_fail (uni := uni) h stk (by simp [hr])
            have e6 : literal ['f', 'a', 'l', 's', 'e'] "bool" c = none := literal_none (by simp [hr])
            have e7 : literal ['n', 'u', 'l', 'l'] "null" c = none := literal_none (by simp [hr])
            have e8 : valueInner f c = literal ['t', 'r', 'u', 'e'] "bool" c := by
              unfold valueInner; simp only [hr, true_toList]
            rw [e1, e2, e3, e4, e6, e7, e8]
            cases literal ['t', 'r', 'u', 'e'] "bool" c with
            | none => rfl
            | some p => rfl
          · by_cases c5 : ch = 'f'
            · subst c5
              have e1 : string c = none := string_none (by simp [hr])
              have e2 : number c = none := number_none hr (by decide) (by decide)
              have e3 := obj_fail (uni := uni) h stk (by simp [hr])
              have e4 := arr_fail (uni := uni) h stk (by simp [hr])
              have e5 : literal ['t', 'r', 'u', 'e'] "bool" c = none := literal_none (by simp [hr])
              have e7 : literal ['n', 'u', 'l', 'l'] "null" c = none := literal_none (by simp [hr])
              have e8 : valueInner f c = literal ['f', 'a', 'l', 's', 'e'] "bool" c := by
                unfold valueInner; simp only [hr, false_toList]
              rw [e1, e2, e3, e4, e5, e7, e8]
              cases literal ['f', 'a', 'l', 's', 'e'] "bool" c with
              | none => rfl
              | some p => rfl
            · by_cases c6 : ch = 'n'
              · subst c6
                have e1 : string c = none := string_none (by simp [hr])
                have e2 : number c = none := number_none hr (by decide) (by decide)
                have e3 := obj_fail (uni := uni) h stk (by simp [hr])
                have e4 := arr_fail (uni := uni) h stk (by simp [hr])
                have e5 : literal ['t', 'r', 'u', 'e'] "bool" c = none := literal_none (by simp [hr])
                have e6 : literal ['f', 'a', 'l', 's', 'e'] "bool" c = none := literal_none (by simp [hr])
                have e8 : valueInner f c = literal ['n', 'u', 'l', 'l'] "null" c := by
                  unfold valueInner; simp only [hr, null_toList]
                rw [e1, e2, e3, e4, e5, e6, e8]
                cases literal ['n', 'u', 'l', 'l'] "null" c with
                | none => rfl
                | some p => rfl
              · have e1 : string c = none := string_none (by simp [hr, c1])
                have e3 := obj_fail (uni := uni) h stk (by simp [hr, c2])
                have e4 := arr_fail (uni := uni) h stk (by simp [hr, c3])
                have e5 : literal ['t', 'r', 'u', 'e'] "bool" c = none := literal_none (by simp [hr, c4])
                have e6 : literal ['f', 'a', 'l', 's', 'e'] "bool" c = none := literal_none (by simp [hr, c5])
                have e7 : literal ['n', 'u', 'l', 'l'] "null" c = none := literal_none (by simp [hr, c6])
                have e8 : valueInner f c = number c := by
                  unfold valueInner; simp [hr, c1, c2, c3, c4, c5, c6]
                rw [e1, e3, e4, e5, e6, e7, e8]
                cases number c with
                | none => rfl
                | some p => rfl

/-- the fuel-free meaning of the five structural rules = the RFC recogniser with enough fuel. -/
theorem struct_all (stk : List Str) (f : Nat) :
    PV input uni stk f ∧ PO input uni stk f ∧ PA input uni stk f ∧ PM input uni stk f ∧ PE input uni stk f := by
  induction f with
  | zero =>
    refine ⟨?_, ?_, ?_, ?_, ?_⟩
    · intro c _ hb; omega
    · intro c cs _ hr hb; rw [hr] at hb; simp at hb
    · intro c cs _ hr hb; rw [hr] at hb; simp at hb
    · intro c _ hb; omega
    · intro c _ hb; omega
  | succ f ih =>
    obtain ⟨hV, hO, hA, hM, hE⟩ := ih
    exact ⟨value_step hO hA, object_step hV hM, array_step hV hE, members_step hV hM, elements_step hV hE⟩

/-- **values**: the grammar's `value` at a cursor = RFC 8259 `value` (with enough fuel), same tree. -/
theorem value_call {c : Cur} (h : At input c) (stk : List Str) (f : Nat) (hb : 3 * c.rest.length + 1 ≤ f) :
    valCa (jctx input uni) .nonAtomic false "value" ⟨c.pos, stk⟩ = vRes (value f c) stk :=
  (struct_all stk f).1 c h hb

/-! ### the top rule -/

theorem SOI_call (m : Atomicity) (la : Bool) (s : St) :
    valCa (jctx input uni) m la "SOI" s = if s.pos = 0 then .ok s [] else .fail := by
  rw [valCa_unfold, rule_SOI]; rfl

theorem EOI_call (s : St) :
    valCa (jctx input uni) .nonAtomic false "EOI" s =
      if s.pos = bLen input then .ok s [.node 15 s.pos s.pos none []] else .fail := by
  rw [valCa_unfold, rule_EOI]; rfl

/-- the result of a whole parse. -/
def jRes (input : Str) : Res :=
  match jsonText input with
  | some t => .ok ⟨bLen input, []⟩ [JT t]
  | none => .fail

/-- **the bundled grammar = RFC 8259**: the fuel-free meaning of rule `json` on the whole input. -/
theorem json_val (input : Str) (uni : String → Option CharSet) :
    valCa (jctx input uni) .nonAtomic false "json" ⟨0, []⟩ = jRes input := by
  rw [call_normal_of (rule_json input uni) (by decide)]
  simp only [eJson, val_seq, val_ident, SOI_call, if_true]
  have h0 : At input ⟨input, 0⟩ := At.start input
  have hk := skip_at (uni := uni) h0 false []
  simp only at hk
  rw [hk]
  simp only []
  have h1 := h0.reach (wsC_reach ⟨input, 0⟩)
  have hl1 := (wsC_reach ⟨input, 0⟩).len
  simp only at hl1
  rw [value_call h1 [] (4 * (input.length + 1)) (by omega)]
  unfold jRes jsonText
  simp only []
  rw [ws_eq _ ⟨input, 0⟩ (by simp)]
  cases hv : value (4 * (input.length + 1)) (wsC ⟨input, 0⟩) with
  | none => rfl
  | some p =>
    obtain ⟨v, c1⟩ := p
    have hr1 := value_reach hv
    have h2 := h1.reach hr1
    have hl2 := hr1.len
    simp only [vRes_some]
    rw [skip_at h2, ws_eq _ c1 (by omega)]
    simp only []
    rw [EOI_call]
    have h3 := h2.reach (wsC_reach c1)
    simp only []
    by_cases he : (wsC c1).rest = []
    · have hp : (wsC c1).pos = bLen input := h3.eoi.2 he
      simp [he, hp, JT_node, ruleIdx]
      decide
    · have hp : ¬ (wsC c1).pos = bLen input := fun e => he (h3.eoi.1 e)
      simp [he, hp]

end
end PestModel.Json
