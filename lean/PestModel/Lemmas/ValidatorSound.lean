import PestModel.Lemmas.ValidatorTerm2
/-! C06 helper lemmas, part 7: from `validateAst … = []` to termination of every rule call. -/
namespace PestModel.V
open PestModel.G PestModel.Ref
open PestModel.LineCol (Str bLen cLen)
open PestModel.Views (Tree)
open PestModel.PS (Atomicity CharSet)

/-- what `validateRepetition` checks at a node. -/
def RepOK (rules : List Rule) : Expr → Prop
  | .rep i | .repOnce i | .repMin i _ => isNonProgressing rules (fuelFor rules i) i [] = false
  | _ => True

theorem repOK_of_validate {extras : Bool} {rules : List Rule} (h : validateRepetition extras rules = []) :
    ∀ r ∈ rules, ∀ x ∈ subExprs extras r.expr, RepOK rules x := by
  unfold validateRepetition at h
  rw [List.flatMap_eq_nil_iff] at h
  intro r hr x hx
  have h1 := h r hr
  rw [List.filterMap_eq_nil_iff] at h1
  have h2 := h1 x hx
  cases x <;> simp only [RepOK] <;> try trivial
  all_goals
    simp only [] at h2
    split at h2
    · simp at h2
    · split at h2
      · simp at h2
      · rename_i hnp; simpa using hnp

section
variable {extras : Bool} {rules : List Rule}
  (hsf : ∀ r ∈ rules, SF r.expr = true) (htag : ∀ r ∈ rules, TagOK extras r.expr = true)
  (hlr : leftRecursion extras rules = [])

include hsf htag hlr in
theorem prog_of_np {e : Expr} (hs : SF e = true) (ht : TagOK extras e = true)
    (h : isNonProgressing rules (fuelFor rules e) e [] = false) : Prog rules e := by
  rcases np_false_cases extras rules hsf htag (fun _ _ hl => no_cycle hlr (fun _ hn => ⟨_, hl, hn⟩))
      _ e [] "" hs ht (fun hne => absurd rfl hne) (fuelFor_ok _ _ _) h with hp | ⟨id, hid, _⟩
  · exact hp
  · simp at hid

include hsf htag hlr in
theorem good_of_validate : ∀ e : Expr, SF e = true → TagOK extras e = true →
    (∀ x ∈ subExprs extras e, RepOK rules x) → Good rules e := by
  intro e
  induction e with
  | seq a b iha ihb | choice a b iha ihb =>
    intro hs ht hx
    simp only [SF, Bool.and_eq_true] at hs
    have htt := tagOK_bin (extras := extras) (a := a) (b := b) ht
    simp only [subExprs, List.mem_cons, List.mem_append] at hx
    exact ⟨iha hs.1 htt.1 (fun x h => hx x (Or.inr (Or.inl h))), ihb hs.2 htt.2 (fun x h => hx x (Or.inr (Or.inr h)))⟩
  | rep i ih | repOnce i ih | repMin i n ih =>
    intro hs ht hx
    simp only [subExprs, List.mem_cons] at hx
    have h1 := hx _ (Or.inl rfl)
    simp only [RepOK] at h1
    exact ⟨prog_of_np hsf htag hlr hs ht h1, ih hs ht (fun x h => hx x (Or.inr h))⟩
  | posPred i ih | negPred i ih | opt i ih | repExact i n ih | repMax i n ih | repMinMax i lo hi ih =>
    intro hs ht hx
    simp only [subExprs, List.mem_cons] at hx
    exact ih hs ht (fun x h => hx x (Or.inr h))
  | push i ih => intro hs; simp [SF] at hs
  | nodeTag i t ih =>
    intro hs ht hx
    have hex : extras = true := by simpa [TagOK, NoTag] using ht
    subst hex
    simp only [subExprs, List.mem_cons, if_true] at hx
    exact ih hs (by simp [TagOK]) (fun x h => hx x (Or.inr h))
  | _ => intros; trivial

end

/-- an accepted stack-free grammar (tags only with `grammar-extras`) satisfies the static facts. -/
theorem accepted_of_validate {c : Ctx} (R : String → Prop)
    (hR : ∀ n body, lookup c.rules n = some body → R n → ∀ x ∈ allIdents body, R x)
    (hsf : ∀ r ∈ c.rules, SF r.expr = true)
    (htag : ∀ r ∈ c.rules, TagOK c.extras r.expr = true) (hv : validateAst c.extras c.rules = []) :
    Accepted c R ∧ ∀ r ∈ c.rules, (r.name = "WHITESPACE" ∨ r.name = "COMMENT") → Prog c.rules r.expr := by
  unfold validateAst at hv
  simp only [List.append_eq_nil_iff] at hv
  obtain ⟨⟨⟨⟨hrep, _⟩, hws⟩, hlr⟩, _⟩ := hv
  refine ⟨⟨hsf, htag, ?_, hlr⟩, ?_⟩
  · intro n body hl hRn
    obtain ⟨r, hr, _, hrb⟩ := lookup_some_mem hl
    subst hrb
    exact ⟨hsf r hr, htag r hr,
      good_of_validate hsf htag hlr r.expr (hsf r hr) (htag r hr) (repOK_of_validate hrep r hr), hR n _ hl hRn⟩
  · intro r hr hn
    unfold validateWsComment at hws
    rw [List.filterMap_eq_nil_iff] at hws
    have h1 := hws r hr
    rw [if_pos hn] at h1
    refine prog_of_np hsf htag hlr (hsf r hr) (htag r hr) ?_
    split at h1
    · simp at h1
    · split at h1
      · simp at h1
      · rename_i hnp; simpa using hnp

/-- the names the implicit skipping can reach: `WHITESPACE`, `COMMENT`, and every name mentioned
(anywhere) in the body of a reachable rule. -/
inductive WsReach (rules : List Rule) : String → Prop
  | ws : WsReach rules "WHITESPACE"
  | comment : WsReach rules "COMMENT"
  | step {n : String} {body : Expr} {x : String} :
      WsReach rules n → lookup rules n = some body → x ∈ allIdents body → WsReach rules x

/-- no `!{…}` rule (other than `WHITESPACE`/`COMMENT` themselves, whose type is ignored) is reachable
from the implicit skipping. -/
def NonAtomicOK (rules : List Rule) : Prop :=
  ∀ r ∈ rules, WsReach rules r.name → r.ty = .nonAtomic → r.name = "WHITESPACE" ∨ r.name = "COMMENT"

/-- … in particular if the grammar has no `!{…}` rules besides `WHITESPACE`/`COMMENT`. -/
theorem nonAtomicOK_of_no_nonAtomic {rules : List Rule}
    (h : ∀ r ∈ rules, r.ty = .nonAtomic → r.name = "WHITESPACE" ∨ r.name = "COMMENT") : NonAtomicOK rules :=
  fun r hr _ => h r hr

/-- … or if it defines neither `WHITESPACE` nor `COMMENT`. -/
theorem nonAtomicOK_of_no_ws {rules : List Rule}
    (h : ∀ r ∈ rules, r.name ≠ "WHITESPACE" ∧ r.name ≠ "COMMENT") : NonAtomicOK rules := by
  have key : ∀ n, WsReach rules n → n = "WHITESPACE" ∨ n = "COMMENT" := by
    intro n hn
    induction hn with
    | ws => exact Or.inl rfl
    | comment => exact Or.inr rfl
    | step _ hl _ ih =>
      obtain ⟨r, hr, hrn, _⟩ := lookup_some_mem hl
      rcases ih with ih | ih
      · exact absurd (hrn.trans ih) (h r hr).1
      · exact absurd (hrn.trans ih) (h r hr).2
  intro r hr hw _
  exact key _ hw

theorem bodyMode_ws {nm : String} (h : nm = "WHITESPACE" ∨ nm = "COMMENT") (ty : RuleType) (m : Atomicity) :
    bodyMode nm ty m ≠ .nonAtomic := by
  unfold bodyMode
  rw [if_pos h]
  split <;> simp

/-- calls of `WHITESPACE`/`COMMENT` from the implicit skipping terminate and consume. -/
theorem ws_call {c : Ctx} {R : String → Prop} (hacc : Accepted c R)
    (hws : ∀ r ∈ c.rules, (r.name = "WHITESPACE" ∨ r.name = "COMMENT") → Prog c.rules r.expr)
    (T1 : ∀ s m, m ≠ Atomicity.nonAtomic → ∀ la e, Base c.extras c.rules R e → val c m la e s ≠ .fuel)
    {nm : String} (hn : nm = "WHITESPACE" ∨ nm = "COMMENT") (hRn : R nm) (la : Bool) :
    (∀ s, valCa c .nonAtomic la nm s ≠ .fuel) ∧
    (∀ s s' f, valCa c .nonAtomic la nm s = .ok s' f → s.pos < s'.pos) := by
  cases hr : c.rule? nm with
  | none =>
    constructor
    · intro s; rw [valCa_unfold, hr]; exact builtin_ne_fuel _ _ _ _ _
    · intro s s' f h
      rw [valCa_unfold, hr] at h
      refine builtin_progress ?_ ?_ ?_ h
      · rcases hn with rfl | rfl <;> decide
      · rcases hn with rfl | rfl <;> decide
      · rcases hn with rfl | rfl <;> decide
  | some p =>
    obtain ⟨id, r⟩ := p
    obtain ⟨hl, hmem, hname⟩ := lookup_of_rule? hr
    have hbm : bodyMode r.name r.ty .nonAtomic ≠ .nonAtomic := bodyMode_ws (hname ▸ hn) _ _
    constructor
    · intro s
      rw [valCa_unfold, hr]
      simp only []
      have := T1 s _ hbm la r.expr (hacc.bodies nm r.expr hl hRn)
      cases h1 : val c (bodyMode r.name r.ty .nonAtomic) la r.expr s <;> simp only [] <;> try simp
      · split <;> simp
      · exact absurd h1 this
    · intro s s' f h
      rw [valCa_unfold, hr] at h
      simp only [] at h
      cases h1 : val c (bodyMode r.name r.ty .nonAtomic) la r.expr s <;> simp [h1] at h
      have := prog_progress (hws r hmem (hname ▸ hn)) _ _ _ _ _ h1
      split at h <;> simp at h <;> (rw [← h.1]; exact this)

/-- **termination of every rule call** in an accepted grammar. -/
theorem sound_core {c : Ctx} (hsf : ∀ r ∈ c.rules, SF r.expr = true)
    (htag : ∀ r ∈ c.rules, TagOK c.extras r.expr = true) (hv : validateAst c.extras c.rules = [])
    (hna : NonAtomicOK c.rules) : ∀ nm s m la, valCa c m la nm s ≠ .fuel := by
  obtain ⟨hacc1, hws⟩ := accepted_of_validate (c := c) (WsReach c.rules)
    (fun n body hl hRn x hx => WsReach.step hRn hl hx) hsf htag hv
  obtain ⟨hacc2, _⟩ := accepted_of_validate (c := c) (fun _ => True) (fun _ _ _ _ _ _ => trivial) hsf htag hv
  have hK : ∀ m la s, valK c m la s ≠ .fuel := by
    have hM1 : ∀ nm id r, WsReach c.rules nm → c.rule? nm = some (id, r) →
        ∀ m, m ≠ Atomicity.nonAtomic → bodyMode r.name r.ty m ≠ .nonAtomic := by
      intro nm id r hR hr m hm
      obtain ⟨_, hmem, hname⟩ := lookup_of_rule? hr
      by_cases hn : r.name = "WHITESPACE" ∨ r.name = "COMMENT"
      · exact bodyMode_ws hn _ _
      · unfold bodyMode
        rw [if_neg hn]
        cases hty : r.ty <;> simp only [] <;> try simp
        · exact hm
        · exact hm
        · exact absurd (hna r hmem (hname ▸ hR) hty) hn
    have T1 : ∀ s m, m ≠ Atomicity.nonAtomic → ∀ la e, Base c.extras c.rules (WsReach c.rules) e →
        val c m la e s ≠ .fuel :=
      fun s m hm la e hb =>
        expr_term_all (fun m => m ≠ Atomicity.nonAtomic) hM1 (fun m hm la s => by rw [valK_atomic _ _ _ _ hm]; simp)
          hacc1 (mu c s) s (Nat.le_refl _) m hm la e hb
    have hW := fun la => ws_call hacc1 hws T1 (nm := "WHITESPACE") (Or.inl rfl) .ws la
    have hC := fun la => ws_call hacc1 hws T1 (nm := "COMMENT") (Or.inr rfl) .comment la
    have hstW : ∀ la s acc, valSt c la "WHITESPACE" s acc ≠ .fuel :=
      fun la s acc => valSt_term (hW la).1 (hW la).2 _ s acc (Nat.le_refl _)
    have hstC : ∀ la s acc, valSt c la "COMMENT" s acc ≠ .fuel :=
      fun la s acc => valSt_term (hC la).1 (hC la).2 _ s acc (Nat.le_refl _)
    intro m la s
    rw [valK_unfold]
    split
    · simp
    · split
      · simp
      · exact hstW _ _ _
      · exact hstC _ _ _
      · cases h1 : valSt c la "WHITESPACE" s [] <;> simp only [] <;> try simp
        · exact valCl_term (hC la).1 (hC la).2 (hstW la) _ _ _ (Nat.le_refl _)
        · exact absurd h1 (hstW _ _ _)
  intro nm s m la
  exact calls_term_all (R := fun _ => True) (fun _ => True) (fun _ _ _ _ _ _ _ => trivial) (fun m _ => hK m) hacc2
    nm trivial s m trivial la

end PestModel.V
