import PestModel.Lemmas.LineColIndex
namespace PestModel.LineCol

theorem charIndices_append (a b : Str) (o : Nat) :
    charIndices (a ++ b) o = charIndices a o ++ charIndices b (o + bLen a) := by
  induction a generalizing o with
  | nil => simp [charIndices]
  | cons c cs ih => simp [charIndices, ih, Nat.add_assoc]

theorem charIndices_lt (a : Str) (o : Nat) : ∀ p ∈ charIndices a o, p.1 < o + bLen a := by
  induction a generalizing o with
  | nil => simp [charIndices]
  | cons c cs ih =>
    intro p hp
    have hc := cLen_pos c
    simp only [charIndices, List.mem_cons] at hp
    rcases hp with rfl | hp
    · simp; omega
    · have := ih _ p hp; simp; omega

theorem charIndices_ge (a : Str) (o : Nat) : ∀ p ∈ charIndices a o, o ≤ p.1 := by
  induction a generalizing o with
  | nil => simp [charIndices]
  | cons c cs ih =>
    intro p hp
    simp only [charIndices, List.mem_cons] at hp
    rcases hp with rfl | hp
    · simp
    · have := ih _ p hp; omega

theorem charIndices_no_nl {a : Str} (h : '\n' ∉ a) (o : Nat) :
    ∀ p ∈ charIndices a o, ¬ (p.2 = '\n') := by
  induction a generalizing o with
  | nil => simp [charIndices]
  | cons c cs ih =>
    intro p hp
    simp at h
    simp only [charIndices, List.mem_cons] at hp
    rcases hp with rfl | hp
    · simp; exact fun e => h.1 e.symm
    · exact ih h.2 _ p hp

theorem dropWhile_of_all_neg {α : Type} {p : α → Bool} {l : List α} (h : ∀ x ∈ l, p x = false) :
    l.dropWhile p = l := by
  cases l with
  | nil => rfl
  | cons a as => rw [List.dropWhile_cons_of_neg]; simp [h a (by simp)]

theorem takeWhile_of_all_neg {α : Type} {p : α → Bool} {l : List α} (h : ∀ x ∈ l, p x = false) :
    l.takeWhile p = [] := by
  cases l with
  | nil => rfl
  | cons a as => rw [List.takeWhile_cons_of_neg]; simp [h a (by simp)]

/-- `find_line_start` at a boundary: byte offset just after the last newline before it. -/
theorem findLineStart_spec {A : Str} (hA : Closed A) {H : Str} (hH : '\n' ∉ H) (post : Str) :
    findLineStart (A ++ H ++ post) (bLen A + bLen H) = bLen A := by
  unfold findLineStart
  split
  · rename_i he
    simp at he
    simp [he.1]
  · rw [charIndices_append, List.reverse_append]
    have h1 : ∀ p ∈ (charIndices post (0 + bLen (A ++ H))).reverse,
        (fun p : Nat × Char => decide (p.1 ≥ bLen A + bLen H)) p = true := by
      intro p hp
      have := charIndices_ge post _ p (List.mem_reverse.1 hp)
      simp at this ⊢; omega
    rw [List.dropWhile_append_of_pos h1]
    have h2 : ∀ p ∈ (charIndices (A ++ H) 0).reverse,
        (fun p : Nat × Char => decide (p.1 ≥ bLen A + bLen H)) p = false := by
      intro p hp
      have := charIndices_lt (A ++ H) _ p (List.mem_reverse.1 hp)
      simp at this ⊢; omega
    rw [dropWhile_of_all_neg h2, charIndices_append, List.reverse_append, List.find?_append]
    have h3 : (charIndices H (0 + bLen A)).reverse.find? (fun p => decide (p.2 = '\n')) = none := by
      rw [List.find?_eq_none]
      intro p hp
      simpa using charIndices_no_nl hH _ p (List.mem_reverse.1 hp)
    rw [h3]
    rcases hA with rfl | ⟨d, rfl⟩
    · simp [charIndices]
    · simp [charIndices_append, charIndices]

theorem find_nl_charIndices (post : Str) (o : Nat) :
    (match (charIndices post o).find? (fun p => decide (p.2 = '\n')) with
      | some (i, _) => i + 1
      | none => o + bLen post) = o + bLen (lineTail post) := by
  induction post generalizing o with
  | nil => simp [charIndices, lineTail]
  | cons c cs ih =>
    simp only [charIndices, lineTail]
    by_cases hc : c = '\n'
    · subst hc; simp
    · rw [List.find?_cons_of_neg (by simpa using hc), if_neg hc]
      have := ih (o + cLen c)
      simp only [bLen_cons]
      rw [← Nat.add_assoc, ← Nat.add_assoc]
      exact this

theorem bLen_lineTail_le (post : Str) : bLen (lineTail post) ≤ bLen post := by
  induction post with
  | nil => simp [lineTail]
  | cons c cs ih =>
    simp only [lineTail]; split <;> simp <;> omega

theorem lineTail_pos {post : Str} (h : post ≠ []) : 0 < bLen (lineTail post) := by
  cases post with
  | nil => exact absurd rfl h
  | cons c cs =>
    have := cLen_pos c
    simp only [lineTail]; split <;> simp <;> omega

/-- `find_line_end` at a boundary: byte offset just after the next newline (or the end). -/
theorem findLineEnd_spec (pre post : Str) :
    findLineEnd (pre ++ post) (bLen pre) = bLen pre + bLen (lineTail post) := by
  unfold findLineEnd
  split
  · rename_i he
    simp at he
    simp [he.1, he.2, lineTail]
  · rename_i hne
    split
    · rename_i hlast
      simp only [bLen_append] at hlast ⊢
      have hpost : bLen post = 1 := by
        cases post with
        | nil =>
          simp at hlast hne
          cases pre with
          | nil => exact absurd rfl hne
          | cons c cs => have := cLen_pos c; simp at hlast; omega
        | cons c cs => have := cLen_pos c; simp at hlast ⊢; omega
      cases post with
      | nil => simp at hpost
      | cons c cs =>
        have := cLen_pos c
        simp at hpost
        have : cs = [] := bLen_eq_zero (by omega)
        subst this
        simp [lineTail]
    · rw [charIndices_append]
      have h1 : ∀ p ∈ charIndices pre 0,
          (fun p : Nat × Char => decide (p.1 < bLen pre)) p = true := by
        intro p hp
        have := charIndices_lt pre _ p hp
        simp at this ⊢; omega
      rw [List.dropWhile_append_of_pos h1]
      have h2 : ∀ p ∈ charIndices post (0 + bLen pre),
          (fun p : Nat × Char => decide (p.1 < bLen pre)) p = false := by
        intro p hp
        have := charIndices_ge post _ p hp
        simp at this ⊢; omega
      rw [dropWhile_of_all_neg h2]
      have := find_nl_charIndices post (0 + bLen pre)
      simp only [Nat.zero_add] at this
      simp only [Nat.zero_add, bLen_append]
      exact this

/-- what follows the current line -/
def lineRest : Str → Str
  | [] => []
  | c :: cs => if c = '\n' then cs else lineRest cs

theorem lineTail_append_lineRest (post : Str) : lineTail post ++ lineRest post = post := by
  induction post with
  | nil => rfl
  | cons c cs ih => simp only [lineTail, lineRest]; split <;> simp [ih]

theorem findLineStart_boundary (pre post : Str) :
    findLineStart (pre ++ post) (bLen pre) = bLen (linePre pre) := by
  have := findLineStart_spec (linePre_closed pre) (lineHead_no_nl pre) post
  rwa [← bLen_append, linePre_append_lineHead] at this

theorem lineOf_boundary (pre post : Str) :
    lineOf (pre ++ post) (bLen pre) = some (specLineOf pre post) := by
  unfold lineOf
  rw [if_neg (by simp), findLineStart_boundary, findLineEnd_spec]
  have := slice_append (linePre pre) (lineHead pre ++ lineTail post) (lineRest post)
  simp only [bLen_append, ← Nat.add_assoc] at this
  rw [← bLen_append, linePre_append_lineHead] at this
  have hs : linePre pre ++ (lineHead pre ++ lineTail post) ++ lineRest post = pre ++ post := by
    simp only [List.append_assoc, lineTail_append_lineRest]
    rw [← List.append_assoc, linePre_append_lineHead]
  rw [hs] at this
  rw [this, specLineOf]

end PestModel.LineCol
