import PestModel.Lemmas.PipelineNames
/-! C09: the errors of `validate_pairs` are about pairs of the parse (their spans are the locations). -/
namespace PestModel.Pipeline
open PestModel.G PestModel.Reader PestModel.ReaderFull PestModel.ReaderP PestModel.ReaderShape PestModel.Ref
open PestModel.Views (Tree preorderList)
open PestModel.LineCol (Str)

theorem mem_preorder_self (t : Tree) : t ∈ t.preorder := by
  cases t with
  | node r a b tg cs => simp [Tree.preorder]

theorem mem_preorderList_of_mem : ∀ {l : List Tree} {t : Tree}, t ∈ l → ∀ x ∈ t.preorder, x ∈ preorderList l
  | [], _, h, _, _ => by simp at h
  | u :: us, t, h, x, hx => by
    simp only [preorderList, List.mem_append]
    rcases List.mem_cons.1 h with rfl | h
    · exact .inl hx
    · exact .inr (mem_preorderList_of_mem h x hx)

theorem mem_preorder_children (t : Tree) : ∀ x ∈ preorderList t.children, x ∈ t.preorder := by
  cases t with
  | node r a b tg cs => intro x hx; simp only [Tree.preorder, List.mem_cons]; exact .inr hx

theorem definitions_mem : ∀ (forest : List Tree) (defs : List Tree), definitions forest = .ok defs →
    ∀ d ∈ defs, d ∈ preorderList forest
  | [], defs, h, d, hd => by simp [definitions] at h; subst h; simp at hd
  | t :: ts, defs, h, d, hd => by
    unfold definitions at h
    split at h
    · split at h
      · simp at h
      · rename_i c rest hch
        cases hds : definitions ts with
        | ok ds =>
          simp only [hds, R3.map, R3.bind, R3.ok.injEq] at h
          have ih := definitions_mem ts ds hds
          split at h
          · subst h
            simp only [preorderList, List.mem_append]
            exact .inr (ih d hd)
          · subst h
            simp only [preorderList, List.mem_append]
            rcases List.mem_cons.1 hd with rfl | hd
            · refine .inl (mem_preorder_children t _ ?_)
              rw [hch]
              simp only [preorderList, List.mem_append]
              exact .inl (mem_preorder_self _)
            · exact .inr (ih d hd)
        | err => simp [hds, R3.map, R3.bind] at h
        | panic => simp [hds, R3.map, R3.bind] at h
    · simp only [preorderList, List.mem_append]
      exact .inr (definitions_mem ts defs h d hd)

theorem called_mem : ∀ (forest : List Tree), ∀ x ∈ called forest, x ∈ preorderList forest
  | [], x, hx => by simp [called] at hx
  | t :: ts, x, hx => by
    simp only [called] at hx
    simp only [preorderList, List.mem_append]
    split at hx
    · rcases List.mem_append.1 hx with hx | hx
      · have h1 := (List.mem_filter.1 hx).1
        exact .inl (mem_preorder_children t x (List.mem_of_mem_drop h1))
      · exact .inr (called_mem ts x hx)
    · exact .inr (called_mem ts x hx)

theorem namesOf_mem {text : Str} : ∀ (l : List Tree) (ns : List String), namesOf text l = .ok ns →
    ∀ n ∈ ns, ∃ t ∈ l, (strOf text t).map String.ofList = some n
  | [], ns, h, n, hn => by simp [namesOf] at h; subst h; simp at hn
  | t :: ts, ns, h, n, hn => by
    cases hs : strOf text t with
    | none => simp [namesOf, hs, orPanic, R3.bind] at h
    | some s =>
      cases hr : namesOf text ts with
      | ok rest =>
        simp only [namesOf, hs, orPanic, R3.bind, R3.map, hr, R3.ok.injEq] at h
        subst h
        rcases List.mem_cons.1 hn with rfl | hn
        · exact ⟨t, by simp, by simp [hs]⟩
        · obtain ⟨u, hu, hx⟩ := namesOf_mem ts rest hr n hn
          exact ⟨u, by simp [hu], hx⟩
      | err => simp [namesOf, hs, orPanic, R3.bind, R3.map, hr] at h
      | panic => simp [namesOf, hs, orPanic, R3.bind, R3.map, hr] at h

theorem duplicates_subset : ∀ (ns seen : List String), ∀ n ∈ duplicates ns seen, n ∈ ns
  | [], _, n, h => by simp [duplicates] at h
  | m :: ms, seen, n, h => by
    unfold duplicates at h
    split at h
    · rcases List.mem_cons.1 h with rfl | h
      · simp
      · exact List.mem_cons_of_mem _ (duplicates_subset ms seen n h)
    · exact List.mem_cons_of_mem _ (duplicates_subset ms _ n h)

/-- **the names `validate_pairs` reports are texts of pairs of the parse**: every error it returns is about a pair of the forest
(a definition or a used identifier) whose span is a slice of the grammar text — its location. -/
theorem validatePairs_located {text : Str} {forest : List Tree} {errs : List (String × String)}
    (h : validatePairs text forest = .ok errs) :
    ∀ e ∈ errs, ∃ t ∈ preorderList forest, (strOf text t).map String.ofList = some e.2 := by
  unfold validatePairs at h
  cases hd : definitions forest with
  | ok defs =>
    cases hn : namesOf text defs with
    | ok names =>
      cases hu : namesOf text (called forest) with
      | ok used =>
        simp only [hd, hn, hu, R3.bind, R3.ok.injEq] at h
        subst h
        intro e he
        have hnames : ∀ n ∈ names, ∃ t ∈ preorderList forest, (strOf text t).map String.ofList = some n := by
          intro n hn'
          obtain ⟨t, ht, hx⟩ := namesOf_mem defs names hn n hn'
          exact ⟨t, definitions_mem forest defs hd t ht, hx⟩
        have hused : ∀ n ∈ used, ∃ t ∈ preorderList forest, (strOf text t).map String.ofList = some n := by
          intro n hn'
          obtain ⟨t, ht, hx⟩ := namesOf_mem _ used hu n hn'
          exact ⟨t, called_mem forest t ht, hx⟩
        simp only [List.mem_append, List.mem_map, List.mem_filter] at he
        rcases he with (⟨n, ⟨hn', _⟩, rfl⟩ | ⟨n, hn', rfl⟩) | ⟨n, ⟨hn', _⟩, rfl⟩
        · exact hnames n hn'
        · exact hnames n (duplicates_subset names [] n hn')
        · exact hused n hn'
      | err => simp [hd, hn, hu, R3.bind] at h
      | panic => simp [hd, hn, hu, R3.bind] at h
    | err => simp [hd, hn, R3.bind] at h
    | panic => simp [hd, hn, R3.bind] at h
  | err => simp [hd, R3.bind] at h
  | panic => simp [hd, R3.bind] at h
end PestModel.Pipeline
