import PestModel.Lemmas.VmRefDefs
/-! C01: soundness of the restorer's analysis `modifies` (a memoised, fuel-bounded depth-first
search): if it answers `false`, no state-modifying item is reachable (`Mod`). -/
namespace PestModel.VmRef
open PestModel.G

/-! ### the memo table -/

theorem Cache.get_cons (c : Cache) (p : String × Option Bool) (m : String) :
    Cache.get (p :: c) m = if p.1 = m then some p.2 else Cache.get c m := by
  unfold Cache.get
  by_cases h : p.1 = m <;> simp [h]

theorem Cache.get_filter_ne (c : Cache) (n m : String) (h : m ≠ n) :
    Cache.get (c.filter (·.1 ≠ n)) m = Cache.get c m := by
  induction c with
  | nil => rfl
  | cons p c ih =>
    rw [List.filter_cons]
    by_cases hp : p.1 = n
    · have hpm : ¬ p.1 = m := fun e => h (e ▸ hp)
      have hd : decide (p.1 ≠ n) = false := by simp [hp]
      rw [hd, Cache.get_cons, if_neg hpm]
      simpa using ih
    · have hd : decide (p.1 ≠ n) = true := by simp [hp]
      rw [hd, if_pos rfl, Cache.get_cons, Cache.get_cons, ih]

theorem Cache.get_set (c : Cache) (n m : String) (v : Option Bool) :
    (c.set n v).get m = if m = n then some v else c.get m := by
  unfold Cache.set
  rw [Cache.get_cons]
  by_cases h : m = n
  · simp [h]
  · have h' : ¬ n = m := fun e => h e.symm
    simp only [h, h', if_false]
    exact Cache.get_filter_ne c n m h

theorem Cache.get_nil (m : String) : Cache.get [] m = none := rfl

/-! ### the invariant -/

/-- names whose memo entry is "in progress" or "does not modify". -/
def InF (c : Cache) (n : String) : Prop := c.get n = some none ∨ c.get n = some (some false)

/-- an item of `iter_top_down` that is not itself modifying and, if a reference, refers to a name
in `InF` (or to no rule at all). -/
def GoodItem (rules : List ORule) (c : Cache) (x : OExpr) : Prop :=
  isModItem x = false ∧ ∀ m, x = .ident m → (InF c m ∨ lookupO rules m = none)

/-- every name of `InF` that is not in progress (`P`) has a body all of whose items are good. -/
def Inv (extras : Bool) (rules : List ORule) (c : Cache) (P : String → Prop) : Prop :=
  ∀ n, InF c n → ¬ P n → ∀ body, lookupO rules n = some body →
    ∀ x ∈ body.topDown extras, GoodItem rules c x

/-- the cache only grows: `InF` and the domain. -/
def Sub (c c' : Cache) : Prop :=
  (∀ n, InF c n → InF c' n) ∧ (∀ n, c.get n ≠ none → c'.get n ≠ none)

theorem Sub.refl (c : Cache) : Sub c c := ⟨fun _ h => h, fun _ h => h⟩

theorem Sub.trans {a b c : Cache} (h1 : Sub a b) (h2 : Sub b c) : Sub a c :=
  ⟨fun n h => h2.1 n (h1.1 n h), fun n h => h2.2 n (h1.2 n h)⟩

theorem GoodItem.mono {rules : List ORule} {c c' : Cache} {x : OExpr}
    (h : GoodItem rules c x) (hs : ∀ n, InF c n → InF c' n) : GoodItem rules c' x :=
  ⟨h.1, fun m hm => (h.2 m hm).imp (hs m) id⟩

/-! ### the fuel measure -/

/-- total size of the bodies of the rules not yet in the memo table. -/
def Phi (extras : Bool) (c : Cache) (rules : List ORule) : Nat :=
  (rules.map fun r => if (c.get r.name).isSome then 0 else (r.expr.topDown extras).length + 2).sum

theorem Phi_mono (extras : Bool) (c c' : Cache) (h : ∀ n, c.get n ≠ none → c'.get n ≠ none)
    (rules : List ORule) : Phi extras c' rules ≤ Phi extras c rules := by
  induction rules with
  | nil => simp [Phi]
  | cons r rs ih =>
    simp only [Phi, List.map_cons, List.sum_cons] at ih ⊢
    have : (if (c'.get r.name).isSome then 0 else (r.expr.topDown extras).length + 2) ≤
        (if (c.get r.name).isSome then 0 else (r.expr.topDown extras).length + 2) := by
      by_cases hc : (c.get r.name).isSome
      · have : (c'.get r.name).isSome := by
          have := h r.name (by intro e; simp [e] at hc)
          cases h' : c'.get r.name <;> simp_all
        simp [hc, this]
      · simp only [hc]; split <;> simp
    omega

theorem Phi_set (extras : Bool) (c : Cache) (name : String) (v : Option Bool)
    (hc : c.get name = none) (rules : List ORule) (body : OExpr)
    (hl : lookupO rules name = some body) :
    Phi extras (c.set name v) rules + (body.topDown extras).length + 2 ≤ Phi extras c rules := by
  have hdom : ∀ n, c.get n ≠ none → (c.set name v).get n ≠ none := by
    intro n hn; rw [Cache.get_set]; split <;> simp_all
  induction rules with
  | nil => simp [lookupO] at hl
  | cons r rs ih =>
    by_cases hr : r.name = name
    · have hb : body = r.expr := by
        simp [lookupO, hr] at hl; exact hl.symm
      have hm := Phi_mono extras c (c.set name v) hdom rs
      simp only [Phi, List.map_cons, List.sum_cons] at hm ⊢
      have h1 : ((c.set name v).get r.name).isSome = true := by simp [Cache.get_set, hr]
      have h2 : ¬ (c.get r.name).isSome = true := by simp [hr, hc]
      rw [if_pos h1, if_neg h2, hb]
      omega
    · have hl' : lookupO rs name = some body := by
        simpa [lookupO, List.find?_cons, hr] using hl
      have ih := ih hl'
      simp only [Phi, List.map_cons, List.sum_cons] at ih ⊢
      have : (if ((c.set name v).get r.name).isSome then 0 else (r.expr.topDown extras).length + 2) ≤
          (if (c.get r.name).isSome then 0 else (r.expr.topDown extras).length + 2) := by
        rw [Cache.get_set]; simp [hr]
      omega

/-! ### the search -/

theorem InF_set_none (c : Cache) (name : String) : InF (c.set name none) name := by
  left; simp [Cache.get_set]

theorem InF_set_false (c : Cache) (name : String) : InF (c.set name (some false)) name := by
  right; simp [Cache.get_set]

theorem InF_set_of_ne (c : Cache) (name n : String) (v : Option Bool) (h : n ≠ name) :
    InF (c.set name v) n ↔ InF c n := by
  simp [InF, Cache.get_set, h]

theorem Sub_set_none (c : Cache) (name : String) (h : c.get name = none) :
    Sub c (c.set name none) := by
  constructor
  · intro n hn
    by_cases e : n = name
    · subst e; exact InF_set_none c n
    · exact (InF_set_of_ne c name n none e).2 hn
  · intro n hn; rw [Cache.get_set]; split <;> simp_all

theorem Sub_set_false (c : Cache) (name : String) (h : InF c name ∨ c.get name = none) :
    Sub c (c.set name (some false)) := by
  constructor
  · intro n hn
    by_cases e : n = name
    · subst e; exact InF_set_false c n
    · exact (InF_set_of_ne c name n _ e).2 hn
  · intro n hn; rw [Cache.get_set]; split <;> simp_all

/-- setting an `InF` name to `some false` does not change `InF`. -/
theorem InF_set_false_iff (c : Cache) (name n : String) (h : InF c name) :
    InF (c.set name (some false)) n ↔ InF c n := by
  by_cases e : n = name
  · subst e; exact ⟨fun _ => h, fun _ => InF_set_false c n⟩
  · exact InF_set_of_ne c name n _ e

theorem any_sound (extras : Bool) (rules : List ORule) :
    ∀ fuel xs c c' (P : String → Prop), xs.length + Phi extras c rules ≤ fuel →
      Inv extras rules c P → anyModifies extras rules fuel xs c = (false, c') →
      Inv extras rules c' P ∧ Sub c c' ∧ ∀ x ∈ xs, GoodItem rules c' x := by
  intro fuel
  induction fuel using Nat.strongRecOn with
  | _ fuel ih =>
    intro xs c c' P hfuel hinv hres
    cases xs with
    | nil =>
      rw [anyModifies.eq_1] at hres
      cases hres
      exact ⟨hinv, Sub.refl c, by simp⟩
    | cons x xs =>
      cases fuel with
      | zero => simp at hfuel
      | succ f =>
        have hlen : xs.length + 1 + Phi extras c rules ≤ f + 1 := by simpa using hfuel
        -- the common tail: after the step for `x` ended in cache `c1`
        have tail : ∀ c1, Inv extras rules c1 P → Sub c c1 → GoodItem rules c1 x →
            anyModifies extras rules f xs c1 = (false, c') →
            Inv extras rules c' P ∧ Sub c c' ∧ ∀ y ∈ x :: xs, GoodItem rules c' y := by
          intro c1 hinv1 hsub1 hgood1 hres1
          have hphi := Phi_mono extras c c1 hsub1.2 rules
          obtain ⟨hi, hs, hg⟩ := ih f (Nat.lt_succ_self f) xs c1 c' P (by omega) hinv1 hres1
          refine ⟨hi, hsub1.trans hs, ?_⟩
          intro y hy
          rcases List.mem_cons.1 hy with e | hy
          · subst e; exact hgood1.mono hs.1
          · exact hg y hy
        -- items that are neither `push` nor `ident`
        have other : (∀ e, x = OExpr.push e → False) → (∀ n, x = OExpr.ident n → False) →
            Inv extras rules c' P ∧ Sub c c' ∧ ∀ y ∈ x :: xs, GoodItem rules c' y := by
          intro h1 h2
          rw [anyModifies.eq_5 _ _ _ _ _ _ h1 h2] at hres
          simp only [Bool.false_eq_true, if_false] at hres
          refine tail c hinv (Sub.refl c) ⟨?_, fun m hm => (h2 m hm).elim⟩ hres
          cases x <;> first | rfl | exact (h1 _ rfl).elim | exact (h2 _ rfl).elim
        cases x with
        | push e => rw [anyModifies.eq_3] at hres; simp at hres
        | ident name =>
          rw [anyModifies.eq_4] at hres
          by_cases hmod : name = "DROP" ∨ name = "POP" ∨ name = "POP_ALL"
          · simp [hmod] at hres
          · have hnm : isModItem (.ident name) = false := by simp [isModItem, hmod]
            rw [if_neg hmod] at hres
            cases hget : c.get name with
            | none =>
              rw [hget] at hres
              cases hlook : lookupO rules name with
              | none =>
                rw [hlook] at hres
                simp only [Bool.false_eq_true, if_false] at hres
                have hs0 := Sub_set_none c name hget
                have hs1 : Sub (c.set name none) ((c.set name none).set name (some false)) :=
                  Sub_set_false _ _ (Or.inl (InF_set_none c name))
                refine tail _ ?_ (hs0.trans hs1) ⟨hnm, fun m hm => Or.inr ?_⟩ hres
                · intro n hn hP body hb y hy
                  rw [InF_set_false_iff _ _ _ (InF_set_none c name)] at hn
                  by_cases e : n = name
                  · subst e; rw [hlook] at hb; cases hb
                  · rw [InF_set_of_ne _ _ _ _ e] at hn
                    exact (hinv n hn hP body hb y hy).mono (hs0.trans hs1).1
                · cases hm; exact hlook
              | some body =>
                rw [hlook] at hres
                dsimp only at hres
                have hphi := Phi_set extras c name none hget rules body hlook
                cases f with
                | zero => omega
                | succ g =>
                  rw [childModifies.eq_2] at hres
                  cases hsub : anyModifies extras rules g (body.topDown extras) (c.set name none) with
                  | mk r c2 =>
                    rw [hsub] at hres
                    cases r with
                    | true => simp at hres
                    | false =>
                      simp only [Bool.false_eq_true, if_false] at hres
                      have hs0 := Sub_set_none c name hget
                      have hinv0 : Inv extras rules (c.set name none) (fun n => P n ∨ n = name) := by
                        intro n hn hP bd hb y hy
                        have e : n ≠ name := fun e => hP (Or.inr e)
                        rw [InF_set_of_ne _ _ _ _ e] at hn
                        exact (hinv n hn (fun h => hP (Or.inl h)) bd hb y hy).mono hs0.1
                      obtain ⟨hi2, hs2, hg2⟩ := ih g (by omega) _ _ c2 _ (by omega) hinv0 hsub
                      have hin2 : InF c2 name := hs2.1 _ (InF_set_none c name)
                      have hs3 : Sub c2 (c2.set name (some false)) := Sub_set_false _ _ (Or.inl hin2)
                      refine tail _ ?_ (hs0.trans (hs2.trans hs3))
                        ⟨hnm, fun m hm => Or.inl ?_⟩ hres
                      · intro n hn hP bd hb y hy
                        rw [InF_set_false_iff _ _ _ hin2] at hn
                        by_cases e : n = name
                        · subst e; rw [hlook] at hb; cases hb
                          exact (hg2 y hy).mono hs3.1
                        · exact (hi2 n hn (fun h => h.elim hP e) bd hb y hy).mono hs3.1
                      · cases hm; exact InF_set_false c2 name
            | some v =>
              rw [hget] at hres
              cases v with
              | none =>
                simp only [Bool.false_eq_true, if_false] at hres
                have hin : InF c name := Or.inl hget
                have hs1 : Sub c (c.set name (some false)) := Sub_set_false _ _ (Or.inl hin)
                refine tail _ ?_ hs1 ⟨hnm, fun m hm => Or.inl ?_⟩ hres
                · intro n hn hP bd hb y hy
                  rw [InF_set_false_iff _ _ _ hin] at hn
                  exact (hinv n hn hP bd hb y hy).mono hs1.1
                · cases hm; exact InF_set_false c name
              | some b =>
                cases b with
                | true => simp at hres
                | false =>
                  simp only [Bool.false_eq_true, if_false] at hres
                  exact tail c hinv (Sub.refl c)
                    ⟨hnm, fun m hm => Or.inl (by cases hm; exact Or.inr hget)⟩ hres
        | _ => exact other (by intro _ h; cases h) (by intro _ h; cases h)

/-! ### the initial fuel suffices -/

theorem topDown_length_le (extras : Bool) (e : OExpr) :
    (e.topDown extras).length ≤ (e.topDown true).length := by
  induction e with
  | seq a b iha ihb => simp only [OExpr.topDown, List.length_cons, List.length_append]; omega
  | choice a b iha ihb => simp only [OExpr.topDown, List.length_cons, List.length_append]; omega
  | posPred e ih | negPred e ih | rep e ih | opt e ih | push e ih =>
    simp only [OExpr.topDown, List.length_cons]; omega
  | repOnce e ih | nodeTag e t ih =>
    cases extras <;> simp [OExpr.topDown]
  | _ => simp [OExpr.topDown]

theorem orulesSize_foldl (rules : List ORule) (acc : Nat) :
    rules.foldl (fun n r => n + (r.expr.topDown true).length + 1) acc =
      acc + (rules.map fun r => (r.expr.topDown true).length + 1).sum := by
  induction rules generalizing acc with
  | nil => simp
  | cons r rs ih => simp only [List.foldl_cons, ih, List.map_cons, List.sum_cons]; omega

theorem Phi_nil_le (extras : Bool) (rules : List ORule) :
    Phi extras [] rules + 2 ≤ 2 * orulesSize rules := by
  have h : Phi extras [] rules ≤ 2 * (rules.map fun r => (r.expr.topDown true).length + 1).sum := by
    induction rules with
    | nil => simp [Phi]
    | cons r rs ih =>
      have := topDown_length_le extras r.expr
      simp only [Phi, List.map_cons, List.sum_cons, Cache.get_nil] at ih ⊢
      simp only [Option.isSome_none, Bool.false_eq_true, if_false] at ih ⊢
      omega
  rw [orulesSize, orulesSize_foldl]
  omega

/-! ### soundness -/

theorem not_mod_of_good (extras : Bool) (rules : List ORule) (c : Cache)
    (hinv : Inv extras rules c (fun _ => False)) (e : OExpr) (hm : Mod extras rules e) :
    ¬ ∀ x ∈ e.topDown extras, GoodItem rules c x := by
  induction hm with
  | here hx hmod =>
    intro h
    have := (h _ hx).1
    rw [hmod] at this; cases this
  | there hx hl _ ih =>
    intro h
    rcases (h _ hx).2 _ rfl with hin | hnone
    · exact ih (fun y hy => hinv _ hin (fun f => f) _ hl y hy)
    · rw [hl] at hnone; cases hnone

/-- The restorer's analysis is sound: if the memoised, fuel-bounded search answers `false`, no
state-modifying item is reachable. -/
theorem modifies_sound (extras : Bool) (rules : List ORule) (e : OExpr)
    (h : modifies extras rules e = false) : ¬ Mod extras rules e := by
  intro hm
  unfold modifies at h
  have h2 : 2 * (orulesSize rules + (e.topDown true).length) + 2 =
      (2 * (orulesSize rules + (e.topDown true).length) + 1) + 1 := rfl
  rw [h2, childModifies.eq_2] at h
  cases hres : anyModifies extras rules (2 * (orulesSize rules + (e.topDown true).length) + 1)
      (e.topDown extras) [] with
  | mk r c' =>
    rw [hres] at h
    cases h
    have hlen := topDown_length_le extras e
    have hphi := Phi_nil_le extras rules
    have hinv0 : Inv extras rules [] (fun _ => False) := by
      intro n hn
      rcases hn with hn | hn <;> simp [Cache.get_nil] at hn
    obtain ⟨hi, _, hg⟩ := any_sound extras rules _ _ [] c' (fun _ => False) (by omega) hinv0 hres
    exact not_mod_of_good extras rules c' hi e hm hg

end PestModel.VmRef
