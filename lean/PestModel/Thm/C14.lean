import PestModel.Model.Grammar
import PestModel.Gen.MetaGrammar
import PestModel.Gen.JsonGrammar
/-!
# C14 — the bootstrapped grammar parser is the parser its grammar file denotes

`PestModel.Gen.Meta` is REGENERATED from `meta/src/grammar.pest` on every run (rules as read by the
real front-end, and what the real `optimize` made of them). These theorems re-check, against the
current source, that the Lean optimizer model reproduces the real optimizer on the grammar that
matters most, so the generic theorems C05 (`pipeline_preserves_without_list`) apply to it.
-/
namespace PestModel.C14
open PestModel.G

set_option maxRecDepth 100000 in
/-- the Lean transcription of `optimize` reproduces the real optimizer's output on `grammar.pest`. -/
theorem meta_optimize_eq : optimize false PestModel.Gen.Meta.rules = some PestModel.Gen.Meta.optimized := by
  decide +kernel

set_option maxRecDepth 100000 in
/-- the `list` pass does not touch the meta-grammar: C05's `pipeline_preserves_without_list` covers it. -/
theorem meta_untouched_by_lister :
    optimizeWith false false PestModel.Gen.Meta.rules = optimize false PestModel.Gen.Meta.rules := by
  decide +kernel

set_option maxRecDepth 100000 in
theorem json_optimize_eq : optimize false PestModel.Gen.Json.rules = some PestModel.Gen.Json.optimized := by
  decide +kernel

set_option maxRecDepth 100000 in
theorem json_untouched_by_lister :
    optimizeWith false false PestModel.Gen.Json.rules = optimize false PestModel.Gen.Json.rules := by
  decide +kernel

end PestModel.C14
