import PestModel.Model.ViewsSpec
/-! Helper lemmas for C04: the structural layout of an encoded forest in the token queue. -/
namespace PestModel.Views
open PestModel.PS (QTok)
open PestModel.LineCol (Str slice?)

/-- `Layout q a trees b`: the window `[a, b)` of `q` is laid out as the encoding of `trees`. -/
inductive Layout (q : List QTok) : Nat → List Tree → Nat → Prop
  | nil (a : Nat) : Layout q a [] a
  | cons {a e b r p0 p1 : Nat} {tag : Option Str} {kids rest : List Tree} :
      q[a]? = some (.start e p0) → q[e]? = some (.end_ a r tag p1) →
      Layout q (a + 1) kids e → Layout q (e + 1) rest b →
      Layout q a (.node r p0 p1 tag kids :: rest) b

@[simp] theorem Tree.size_node (r a b : Nat) (t : Option Str) (cs : List Tree) :
    (Tree.node r a b t cs).size = 2 + sizeList cs := by simp [Tree.size]
@[simp] theorem sizeList_nil : sizeList [] = 0 := by simp [sizeList]
@[simp] theorem sizeList_cons (t : Tree) (ts : List Tree) : sizeList (t :: ts) = t.size + sizeList ts := by
  simp [sizeList]

theorem Tree.size_ge (t : Tree) : 2 ≤ t.size := by
  cases t; simp

theorem length_le_sizeList (ts : List Tree) : ts.length ≤ sizeList ts := by
  induction ts with
  | nil => simp
  | cons t ts ih => have := t.size_ge; simp; omega

@[simp] theorem sizeList_append (xs ys : List Tree) : sizeList (xs ++ ys) = sizeList xs + sizeList ys := by
  induction xs with
  | nil => simp
  | cons t ts ih => simp [ih]; omega

namespace Layout
variable {q : List QTok}

theorem size {a b : Nat} {ts : List Tree} (h : Layout q a ts b) : b = a + sizeList ts := by
  induction h with
  | nil => simp
  | cons h1 h2 hk hr ihk ihr => simp; omega

theorem le {a b : Nat} {ts : List Tree} (h : Layout q a ts b) : a ≤ b := by
  have := h.size; omega

theorem nil_eq {a b : Nat} (h : Layout q a [] b) : a = b := by
  have := h.size; simp at this; omega

theorem lt_of_ne_nil {a b : Nat} {ts : List Tree} (h : Layout q a ts b) (hne : ts ≠ []) : a < b := by
  cases ts with
  | nil => exact absurd rfl hne
  | cons t ts => have h1 := h.size; have := t.size_ge; simp at h1; omega

theorem eq_nil_of_not_lt {a b : Nat} {ts : List Tree} (h : Layout q a ts b) (hlt : ¬ a < b) : ts = [] := by
  cases ts with
  | nil => rfl
  | cons t ts => exact absurd (h.lt_of_ne_nil (by simp)) hlt

/-- inversion of a non-empty layout -/
theorem cons_inv {a b : Nat} {t : Tree} {ts : List Tree} (h : Layout q a (t :: ts) b) :
    ∃ e, q[a]? = some (.start e t.start) ∧ q[e]? = some (.end_ a t.rule t.tag t.stop) ∧
      Layout q (a + 1) t.children e ∧ Layout q (e + 1) ts b ∧ e + 1 = a + t.size ∧ a < e ∧ e < b := by
  cases h with
  | cons h1 h2 hk hr =>
    rename_i e r p0 p1 tag kids
    refine ⟨e, h1, h2, hk, hr, ?_, ?_, ?_⟩
    · have := hk.size; simp; omega
    · have := hk.le; omega
    · have := hr.le; omega

theorem stop_le_length {a b : Nat} {ts : List Tree} (h : Layout q a ts b) (hne : ts ≠ []) :
    b ≤ q.length := by
  induction h with
  | nil => exact absurd rfl hne
  | cons h1 h2 hk hr ihk ihr =>
    rename_i a e b r p0 p1 tag kids rest
    cases rest with
    | nil =>
      have := hr.nil_eq
      have : e < q.length := by
        rcases Nat.lt_or_ge e q.length with h | h
        · exact h
        · rw [List.getElem?_eq_none h] at h2; cases h2
      omega
    | cons t ts => exact ihr (by simp)

theorem size_le_length {a b : Nat} {ts : List Tree} (h : Layout q a ts b) : b - a ≤ q.length := by
  cases ts with
  | nil => have := h.nil_eq; omega
  | cons t ts => have := h.stop_le_length (by simp); omega

/-- only the tokens inside the window matter -/
theorem congr {q' : List QTok} {a b : Nat} {ts : List Tree} (h : Layout q a ts b)
    (hq : ∀ i, a ≤ i → i < b → q'[i]? = q[i]?) : Layout q' a ts b := by
  induction h with
  | nil => exact .nil _
  | cons h1 h2 hk hr ihk ihr =>
    rename_i a e b r p0 p1 tag kids rest
    have := hk.le; have := hr.le
    refine .cons ?_ ?_ (ihk fun i h1 h2 => hq i (by omega) (by omega))
      (ihr fun i h1 h2 => hq i (by omega) (by omega))
    · rw [hq a (by omega) (by omega)]; exact h1
    · rw [hq e (by omega) (by omega)]; exact h2

theorem append {a m b : Nat} {ts ts' : List Tree} (h : Layout q a ts m) (h' : Layout q m ts' b) :
    Layout q a (ts ++ ts') b := by
  induction h with
  | nil => exact h'
  | cons h1 h2 hk hr ihk ihr => exact .cons h1 h2 hk (ihr h')

theorem split {ts ts' : List Tree} : ∀ {a b : Nat}, Layout q a (ts ++ ts') b →
    ∃ m, Layout q a ts m ∧ Layout q m ts' b := by
  induction ts with
  | nil => intro a b h; exact ⟨a, .nil a, h⟩
  | cons t ts ih =>
    intro a b h
    cases h with
    | cons h1 h2 hk hr =>
      obtain ⟨m, hm1, hm2⟩ := ih hr
      exact ⟨m, .cons h1 h2 hk hm1, hm2⟩

/-- a singleton layout ends right after its `End` token -/
theorem single_inv {a b : Nat} {t : Tree} (h : Layout q a [t] b) :
    q[a]? = some (.start (b - 1) t.start) ∧ q[b - 1]? = some (.end_ a t.rule t.tag t.stop) ∧
      Layout q (a + 1) t.children (b - 1) ∧ a < b - 1 ∧ b = a + t.size := by
  obtain ⟨e, h1, h2, hk, hr, hs, hlt, _⟩ := h.cons_inv
  have := hr.nil_eq
  have he : e = b - 1 := by omega
  subst he
  exact ⟨h1, h2, hk, hlt, by omega⟩

end Layout

/-! ### `forestOf` ↔ `Layout` -/

theorem layout_of_forestOf {q : List QTok} : ∀ (fuel a b : Nat) (ts : List Tree),
    forestOf q fuel a b = some ts → Layout q a ts b := by
  intro fuel
  induction fuel with
  | zero =>
    intro a b ts h
    simp only [forestOf] at h
    split at h
    · cases h; subst_vars; exact .nil _
    · cases h
  | succ fuel ih =>
    intro a b ts h
    rw [forestOf] at h
    split at h
    · split at h
      · cases h; subst_vars; exact .nil _
      · cases h
    · split at h
      · rename_i e p0 hqa
        split at h
        · cases h
        · split at h
          · rename_i si rule tag p1 hqe
            split at h
            · cases h
            · rename_i hsi
              split at h
              · rename_i kids rest hk hr
                cases h
                have hsi' : si = a := by simpa using hsi
                subst hsi'
                exact .cons hqa hqe (ih _ _ _ hk) (ih _ _ _ hr)
              · cases h
          · cases h
      · cases h

theorem forestOf_of_layout {q : List QTok} {a b : Nat} {ts : List Tree} (h : Layout q a ts b) :
    ∀ fuel, b - a ≤ fuel → forestOf q fuel a b = some ts := by
  induction h with
  | nil a => intro fuel _; cases fuel <;> simp [forestOf]
  | cons h1 h2 hk hr ihk ihr =>
    rename_i a e b r p0 p1 tag kids rest
    intro fuel hf
    have := hk.le; have := hr.le
    cases fuel with
    | zero => omega
    | succ fuel =>
      rw [forestOf]
      have h1' : ¬ a ≥ b := by omega
      have h2' : ¬ (e ≤ a ∨ e ≥ b) := by omega
      simp only [h1', h2', if_false, h1, h2]
      simp [ihk fuel (by omega), ihr fuel (by omega)]

theorem encodes_iff {q : List QTok} {a b : Nat} {ts : List Tree} :
    Encodes q a b ts ↔ Layout q a ts b :=
  ⟨layout_of_forestOf _ _ _ _, fun h => forestOf_of_layout h _ h.size_le_length⟩

end PestModel.Views
