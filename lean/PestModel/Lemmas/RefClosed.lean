import PestModel.Lemmas.RefNoStuck
import PestModel.Lemmas.ValidatorProg
/-! C01 / C09: a decidable closedness check on rule sets that implies `RulesNS`, and `meaning_never_stuck`. -/
namespace PestModel.Ref
open PestModel.G
open PestModel.LineCol (Str)
open PestModel.PS (Atomicity CharSet)

/-- `NS` with the names taken from a list (decidable for a concrete rule set, independent of the Unicode table). -/
def closedExpr (names : List String) : Expr → Bool
  | .ident n => names.contains n || plainBuiltins.contains n
  | .push _ => false
  | .posPred e | .negPred e | .opt e | .rep e | .repOnce e | .nodeTag e _ => closedExpr names e
  | .repExact e n => closedExpr names e && decide (0 < n)
  | .repMin e _ => closedExpr names e
  | .repMax e n => closedExpr names e && decide (0 < n)
  | .repMinMax e _ hi => closedExpr names e && decide (0 < hi)
  | .seq a b | .choice a b => closedExpr names a && closedExpr names b
  | _ => true

/-- every rule body only mentions rules of the grammar and built-ins that cannot get stuck. -/
def closedRules (rules : List Rule) : Bool := rules.all fun r => closedExpr (rules.map (·.name)) r.expr

theorem has_of_mem_names {c : Ctx} {n : String} (h : (c.rules.map (·.name)).contains n = true) : c.has n = true := by
  have hm : n ∈ c.rules.map (·.name) := by simpa using h
  obtain ⟨r, hr, rfl⟩ := List.mem_map.1 hm
  unfold Ctx.has
  have := PestModel.V.rule?_map c r.name
  cases hq : c.rule? r.name with
  | some p => rfl
  | none =>
    rw [hq] at this
    simp only [Option.map_none] at this
    have := List.find?_eq_none.1 this.symm r hr
    simp at this

theorem ns_of_closed (c : Ctx) : ∀ (e : Expr), closedExpr (c.rules.map (·.name)) e = true → NS c e = true
  | .ident n, h => by
    simp only [closedExpr, Bool.or_eq_true] at h
    simp only [NS, nameOK, Bool.or_eq_true]
    rcases h with h | h
    · exact .inl (.inl (has_of_mem_names h))
    · exact .inl (.inr h)
  | .push _, h => by simp [closedExpr] at h
  | .posPred e, h | .negPred e, h | .opt e, h | .rep e, h | .repOnce e, h | .nodeTag e _, h => by
    simp only [closedExpr] at h; simp only [NS]; exact ns_of_closed c e h
  | .repExact e n, h | .repMax e n, h => by
    simp only [closedExpr, Bool.and_eq_true] at h; simp only [NS, Bool.and_eq_true]; exact ⟨ns_of_closed c e h.1, h.2⟩
  | .repMinMax e _ hi, h => by
    simp only [closedExpr, Bool.and_eq_true] at h; simp only [NS, Bool.and_eq_true]; exact ⟨ns_of_closed c e h.1, h.2⟩
  | .repMin e _, h => by simp only [closedExpr] at h; simp only [NS]; exact ns_of_closed c e h
  | .seq a b, h | .choice a b, h => by
    simp only [closedExpr, Bool.and_eq_true] at h; simp only [NS, Bool.and_eq_true]
    exact ⟨ns_of_closed c a h.1, ns_of_closed c b h.2⟩
  | .str _, _ | .insens _, _ | .range _ _, _ | .peekSlice _ _, _ | .skip _, _ | .pushLiteral _, _ => rfl

theorem rulesNS_of_closed (c : Ctx) (h : closedRules c.rules = true) : RulesNS c := by
  intro name id r hr
  have hm := PestModel.V.rule?_map c name
  rw [hr] at hm
  simp only [Option.map_some] at hm
  have hmem := List.mem_of_find?_eq_some hm.symm
  unfold closedRules at h
  exact ns_of_closed c r.expr (List.all_eq_true.1 h r hmem)

/-- **The documented meaning of a closed grammar is never "no meaning"**: from any defined start rule, on any input. -/
theorem meaning_never_stuck (rules : List Rule) (extras : Bool) (uni : String → Option CharSet) (fuel : Nat) (name : String)
    (input : Str) (hc : closedRules rules = true) (hn : (rules.map (·.name)).contains name = true) :
    meaning rules extras uni fuel name input ≠ .stuck := by
  unfold meaning
  refine call_never_stuck _ (rulesNS_of_closed _ hc) fuel .nonAtomic false name _ ?_
  simp only [nameOK, Bool.or_eq_true]
  exact .inl (.inl (has_of_mem_names hn))
end PestModel.Ref
