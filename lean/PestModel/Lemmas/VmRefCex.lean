import PestModel.Lemmas.VmRefMono
import PestModel.Model.Lower
import PestModel.Lemmas.VmRefEnv
import PestModel.Lemmas.RefPipe
/-! C01: divergence lemmas for `run` and the concrete diverging parse used to refute `vm_terminates`
as first stated (a stack-modifying `WHITESPACE`). -/
namespace PestModel.VmRef
open PestModel.G PestModel.PS PestModel.Lower PestModel.Ref

/-- the run never reaches a definite outcome. -/
def Div (cfg : Cfg) (p : Prog) (st : PState) : Prop := ∀ F, run cfg F p st = .fuel

variable {cfg : Cfg}

theorem run_fuel_or {F0 : Nat} {p : Prog} {st : PState} {o : Out} (h : run cfg F0 p st = o)
    (ho : o ≠ .fuel) (k : Nat) : run cfg k p st = .fuel ∨ run cfg k p st = o := by
  by_cases hk : run cfg k p st = .fuel
  · exact Or.inl hk
  · right
    have h1 := run_mono hk (Nat.le_max_left k F0)
    have h2 := run_mono (by rw [h]; exact ho) (Nat.le_max_right k F0)
    rw [← h1, h2, h]

theorem div_repLoop {p : Prog} {st : PState} (hA : ∃ F0, run cfg F0 p st = .ok st) :
    Div cfg (.repLoop p) st := by
  obtain ⟨F0, hF0⟩ := hA
  intro F
  induction F with
  | zero => exact run_zero _ _ _
  | succ k ih =>
    rw [run_repLoop]
    rcases run_fuel_or hF0 (by simp) k with h | h
    · rw [h]
    · rw [h]; exact ih

theorem div_andThen_right {p q : Prog} {st s1 : PState} (hp : ∃ F0, run cfg F0 p st = .ok s1)
    (hq : Div cfg q s1) : Div cfg (.andThen p q) st := by
  obtain ⟨F0, hF0⟩ := hp
  intro F
  cases F with
  | zero => exact run_zero _ _ _
  | succ k =>
    rw [run_andThen]
    rcases run_fuel_or hF0 (by simp) k with h | h
    · rw [h]
    · rw [h]; exact hq k

theorem div_andThen_left {p q : Prog} {st : PState} (hp : Div cfg p st) : Div cfg (.andThen p q) st := by
  intro F
  cases F with
  | zero => exact run_zero _ _ _
  | succ k => rw [run_andThen, hp k]

theorem div_sequence {p : Prog} {st : PState} (hi : incCall st = some st) (hp : Div cfg p (checkpoint st)) :
    Div cfg (.sequence p) st := by
  intro F
  cases F with
  | zero => exact run_zero _ _ _
  | succ k => rw [run_sequence, hi]; dsimp only; rw [hp k]

theorem div_repeat {p : Prog} {st : PState} (hi : incCall st = some st) (hp : Div cfg (.repLoop p) st) :
    Div cfg (.repeat_ p) st := by
  intro F
  cases F with
  | zero => exact run_zero _ _ _
  | succ k => rw [run_repeat, hi]; exact hp k

theorem div_call {i : Nat} {p : Prog} {st : PState} (hi : cfg.env[i]? = some p) (hp : Div cfg p st) :
    Div cfg (.call i) st := by
  intro F
  cases F with
  | zero => exact run_zero _ _ _
  | succ k => rw [run_call, hi]; exact hp k

/-! ### the diverging parse: `WHITESPACE = _{ POP_ALL }`, `r = _{ PUSH("a") ~ "b" ~ "c" }` on `"abc"` -/

def cexDivSrc : List Rule :=
  [⟨"WHITESPACE", .silent, .ident "POP_ALL"⟩,
   ⟨"r", .silent, .seq (.push (.str ['a'])) (.seq (.str ['b']) (.str ['c']))⟩]

def cexDiv : List ORule :=
  [⟨"WHITESPACE", .silent, .ident "POP_ALL"⟩,
   ⟨"r", .silent, .seq (.push (.str ['a'])) (.seq (.str ['b']) (.str ['c']))⟩]

theorem cexDiv_opt (b : Bool) : optimizeWith b true cexDivSrc = some cexDiv := by cases b <;> decide

def divEnv : Env := { rules := cexDiv, uni := fun _ => none }
def divCfg : Cfg := { memchr := true, env := lowerAll .vm divEnv }

/-- the states the parse goes through after the first `skip` has emptied the stack. -/
def divSt (pos : Nat) (lens : List (Nat × Nat)) : PState :=
  { PState.new ['a', 'b', 'c'] none false with pos := pos, stack := ⟨[], [], lens⟩ }

/-- on an empty stack `WHITESPACE = POP_ALL` succeeds without consuming anything … -/
theorem div_ws (k pos : Nat) (lens : List (Nat × Nat)) :
    run divCfg (k + 3) (.call 0) (divSt pos lens) = .ok (divSt pos lens) := rfl

/-- … so the second implicit `skip` never ends. -/
theorem cexDiv_diverges : Div divCfg (entry divEnv "r") (PState.new ['a', 'b', 'c'] none false) := by
  refine div_call (p := .sequence (.andThen (.andThen (.stackPush (.matchString ['a'])) (.repeat_ (.call 0)))
      (.sequence (.andThen (.andThen (.matchString ['b']) (.repeat_ (.call 0))) (.matchString ['c'])))))
    rfl ?_
  refine div_sequence rfl ?_
  refine div_andThen_right (s1 := divSt 1 [(0, 0)]) ⟨10, rfl⟩ ?_
  refine div_sequence rfl ?_
  refine div_andThen_left ?_
  refine div_andThen_right (s1 := divSt 2 [(0, 0), (0, 0)]) ⟨1, rfl⟩ ?_
  exact div_repeat rfl (div_repLoop ⟨3, div_ws 0 _ _⟩)

/-! ### the "undefined rule" slot: a reference to an undefined name in a grammar with `N + 1` rules,
`3 * N + 1 = 1000000000` (stated for a variable `N` so that nothing ever evaluates the rule list) -/

def bigSrc (N : Nat) : List Rule := ⟨"r0", .silent, .ident "NOSUCH"⟩ :: List.replicate N ⟨"x", .silent, .str []⟩
def bigRs (N : Nat) : List ORule := ⟨"r0", .silent, .ident "NOSUCH"⟩ :: List.replicate N ⟨"x", .silent, .str []⟩

theorem mapM_replicate {α β : Type} (f : α → Option β) (a : α) (b : β) (h : f a = some b) (n : Nat) :
    (List.replicate n a).mapM f = some (List.replicate n b) := by
  induction n with
  | zero => rfl
  | succ n ih => rw [List.replicate_succ, List.mapM_cons, h, ih]; rfl

def optF (rules : List Rule) (r : Rule) : Option ORule :=
  (astPasses true true rules r).bind fun r => (toOptimized true r.expr).map fun e => (⟨r.name, r.ty, e⟩ : ORule)

theorem big_opt (N : Nat) : optimizeWith true true (bigSrc N) = some (bigRs N) := by
  have h0 : ∀ rules : List Rule, optF rules ⟨"r0", .silent, .ident "NOSUCH"⟩ = some ⟨"r0", .silent, .ident "NOSUCH"⟩ := by
    intro rules
    simp [optF, astPasses, G.skip, rotate, rotateExpr, mapTopDown, rotateInternal, unroll, unrollExpr, unrollF,
      factor, factorF, concatenate, list, listF, mapBottomUp, toOptimized]
  have h1 : ∀ rules : List Rule, optF rules ⟨"x", .silent, .str []⟩ = some ⟨"x", .silent, .str []⟩ := by
    intro rules
    simp [optF, astPasses, G.skip, rotate, rotateExpr, mapTopDown, rotateInternal, unroll, unrollExpr, unrollF,
      factor, factorF, concatenate, list, listF, mapBottomUp, toOptimized]
  have hm : (bigSrc N).mapM (optF (bigSrc N)) = some (bigRs N) := by
    unfold bigSrc bigRs
    rw [List.mapM_cons, h0, mapM_replicate (optF _) _ _ (h1 _)]
    rfl
  show (match (bigSrc N).mapM (optF (bigSrc N)) with | none => none | some opt => some (opt.map (restoreOnErr true opt))) = _
  rw [hm]
  simp [bigRs, restoreOnErr, omapBottomUp, wrapBranching]

def bigEnv (N : Nat) : Env := { rules := bigRs N, uni := fun _ => none }

theorem big_index_r0 (N : Nat) : (bigEnv N).index "r0" = some 0 := by
  simp [bigEnv, bigRs, Env.index, Env.index.go]

theorem big_rule_none (N : Nat) (extras : Bool) (input : List Char) :
    (mkCtx (bigEnv N) extras input).rule? "NOSUCH" = none := by
  unfold Ctx.rule?
  apply go_none_of_forall
  intro r hr
  simp [mkCtx, bigEnv, bigRs, ofOptimizedRules] at hr
  rcases hr with rfl | ⟨_, rfl⟩ <;> simp

theorem big_index_none (N : Nat) : (bigEnv N).index "NOSUCH" = none := by
  cases h : (bigEnv N).index "NOSUCH" with
  | none => rfl
  | some i =>
    obtain ⟨r, -, -, -, hr, -⟩ := index_some (extras := true) (input := []) h
    rw [big_rule_none] at hr
    cases hr

theorem big_vm (N : Nat) (hN : 3 * N + 1 = 1000000000) :
    ∃ st, run (mkCfg (bigEnv N) true) 3 (entry (bigEnv N) "r0") (PState.new [] none false) = .ok st := by
  have e0 : entry (bigEnv N) "r0" = .call 0 := by
    simp [entry, callRule, big_index_r0, ctxIdx]
  have g0 : (bigEnv N).rules[0]? = some ⟨"r0", .silent, .ident "NOSUCH"⟩ := by simp [bigEnv, bigRs]
  have gN : (bigEnv N).rules[N]? = some ⟨"x", .silent, .str []⟩ := by
    cases N with
    | zero => omega
    | succ k => simp [bigEnv, bigRs]
  have c0 := env_get (memchr := true) .nonAtomic g0
  have cN := env_get (memchr := true) .atomic gN
  have e1 : vmRule (bigEnv N) 0 ⟨"r0", .silent, .ident "NOSUCH"⟩ .nonAtomic = .call 1000000000 := by
    have h := big_index_none N
    have hw : isWsCm "r0" = false := by decide
    simp only [vmRule, hw, vmExpr, callRule, h]
    simp [Lower.builtin, undefinedRule, bigEnv]
  have e2 : vmRule (bigEnv N) N ⟨"x", .silent, .str []⟩ .atomic = .matchString [] := by
    simp [vmRule, isWsCm, vmExpr]
  have hidx : 3 * N + ctxIdx .atomic = 1000000000 := by simp [ctxIdx]; omega
  rw [hidx] at cN
  simp only [Nat.mul_zero, ctxIdx, Nat.add_zero] at c0
  rw [e0, run_call, c0]
  dsimp only
  rw [e1, run_call, cN]
  dsimp only
  rw [e2]
  exact ⟨_, rfl⟩

theorem big_ref (N : Nat) (extras : Bool) :
    Ref.meaning (ofOptimizedRules (bigRs N)) extras (fun _ => none) 3 "r0" [] = .stuck := by
  have hr0 : (mkCtx (bigEnv N) extras []).rule? "r0" = some (0, ⟨"r0", .silent, .ident "NOSUCH"⟩) := by
    simp [mkCtx, bigEnv, bigRs, ofOptimizedRules, Ctx.rule?, Ctx.rule?.go, ofOptimized]
  show call (mkCtx (bigEnv N) extras []) 3 .nonAtomic false "r0" ⟨0, []⟩ = .stuck
  rw [call, hr0]
  dsimp only
  rw [denote, call, big_rule_none]
  rfl

end PestModel.VmRef
