//! C02: the code `pest_generator` emits, translated into call trees (`gencode`), vs
//!  (a) the Lean transcription of the generator (`G` lines, syntactic equality of every rule function),
//!  (b) the Lean lowering run on the model state (`V … gen` lines), and
//!  (c) the real `Vm::parse` on the same optimized rules (oracle: identical pairs / error position and rule sets).
use pest::error::{ErrorVariant, InputLocation};
use pest::iterators::Pairs;
use pest_meta::optimizer::{OptimizedExpr, OptimizedRule};
use std::collections::{BTreeMap, HashMap};
use verif_harness::gencode::{translate, Tr};
use verif_harness::gram::*;
use verif_harness::prog::{Obs, Prog, SExp, FNS, R};
use verif_harness::*;

const EXTRAS: bool = cfg!(feature = "extras");

fn idents(e: &OptimizedExpr, out: &mut Vec<String>) {
    use OptimizedExpr::*;
    match e {
        Ident(n) => out.push(n.clone()),
        PosPred(e) | NegPred(e) | Opt(e) | Rep(e) | Push(e) | RestoreOnErr(e) => idents(e, out),
        #[cfg(feature = "extras")]
        RepOnce(e) | NodeTag(e, _) => idents(e, out),
        Seq(a, b) | Choice(a, b) => { idents(a, out); idents(b, out); }
        _ => {}
    }
}
fn generate(orules: &[OptimizedRule]) -> Result<HashMap<String, Prog>, String> {
    let names: Vec<String> = orules.iter().map(|r| r.name.clone()).collect();
    let mut used = vec![]; for r in orules { idents(&r.expr, &mut used); }
    used.sort(); used.dedup();
    let defaults: Vec<&str> = used.iter().filter(|n| !names.contains(n)).map(|s| s.as_str()).collect();
    let pd = pest_generator::parse_derive::ParsedDerive { name: syn::Ident::new("P", proc_macro2::Span::call_site()), generics: syn::Generics::default(), non_exhaustive: false };
    let doc = pest_generator::docs::DocComment { grammar_doc: String::new(), line_docs: HashMap::new() };
    let tokens = catch(|| pest_generator::generator::generate(pd, vec![], orules.to_vec(), defaults.clone(), &doc, false)).map_err(|e| format!("generator panicked: {}", e))?;
    let n = names.len() as u16;
    let idx = |s: &str| -> Option<u16> { if s == "EOI" { Some(n) } else { names.iter().position(|x| x == s).map(|i| i as u16) } };
    let uni = |_s: &str| -> Option<Vec<(u32, u32)>> { None };
    translate(tokens, &Tr { rule_index: &idx, unicode: &uni, strings: Default::default() })
}
fn name_of(names: &[String], r: R) -> String { names.get(r.0 as usize).cloned().unwrap_or_else(|| if r.0 as usize == names.len() { "EOI".into() } else { format!("?{}", r.0) }) }
fn forest_gen(p: Pairs<'_, R>, names: &[String]) -> String {
    let mut s = String::new();
    for pair in p { let sp = pair.as_span(); s.push_str(&format!(" ({} {} {} {}", name_of(names, pair.as_rule()), sp.start(), sp.end(), pair.as_node_tag().map(hexs).unwrap_or("_".into()))); s.push_str(&forest_gen(pair.into_inner(), names)); s.push(')'); }
    s
}
include!(concat!(env!("OUT_DIR"), "/unicode_fns.rs"));
fn ranges_of(f: &dyn Fn(char) -> bool) -> Vec<(u32, u32)> {
    let mut out = vec![]; let mut start: Option<u32> = None; let mut prev = 0u32;
    for cp in 0..=0x10FFFFu32 {
        let c = match char::from_u32(cp) { Some(c) => c, None => { if let Some(s) = start.take() { out.push((s, prev)); } continue } };
        if f(c) { if start.is_none() { start = Some(cp); } prev = cp; } else if let Some(s) = start.take() { out.push((s, prev)); }
    }
    if let Some(s) = start { out.push((s, prev)); }
    out
}
/// `X <NAME>`: the generated parser and the VM on the Unicode property built-in NAME (oracle only; the tables themselves are C16's):
/// `r = { NAME }` is generated and interpreted, and compared with Vm::parse on the boundary code points of the set
fn eval_unicode(name: &str) -> (String, String) {
    let f = match FUNCS.iter().find(|f| f.1 == name) { Some(f) => f, None => return ("oracle-only".into(), "ok".into()) };
    let rules = vec![OptimizedRule { name: "r".into(), ty: pest_meta::ast::RuleType::Normal, expr: pest_meta::optimizer::OptimizedExpr::Ident(name.to_string()) }];
    let ranges = ranges_of(&f.2);
    let names = vec!["r".to_string()];
    let pd = pest_generator::parse_derive::ParsedDerive { name: syn::Ident::new("P", proc_macro2::Span::call_site()), generics: syn::Generics::default(), non_exhaustive: false };
    let doc = pest_generator::docs::DocComment { grammar_doc: String::new(), line_docs: HashMap::new() };
    let tokens = match catch(|| pest_generator::generator::generate(pd, vec![], rules.clone(), vec![name], &doc, false)) { Ok(t) => t, Err(_) => return ("oracle-only".into(), format!("FAIL the generator panicked on the built-in {}", name)) };
    let idx = |s: &str| -> Option<u16> { if s == "EOI" { Some(1) } else if s == "r" { Some(0) } else { None } };
    let rg = ranges.clone();
    let uni = move |s: &str| -> Option<Vec<(u32, u32)>> { FUNCS.iter().find(|g| g.1 == s).map(|g| if g.1 == name { rg.clone() } else { ranges_of(&g.2) }) };
    let fns = match translate(tokens, &Tr { rule_index: &idx, unicode: &uni, strings: Default::default() }) { Ok(f) => f, Err(e) => return ("oracle-only".into(), format!("FAIL untranslatable built-in {}: {}", name, e.replace('\n', " "))) };
    FNS.with(|m| *m.borrow_mut() = fns);
    let vm = pest_vm::Vm::new(rules);
    let mut pts: Vec<u32> = vec![0x41, 0x10FFFF];
    for (a, b) in ranges.iter().take(40) { for p in [a.saturating_sub(1), *a, *b, b + 1] { pts.push(p); } }
    for p in pts { if let Some(c) = char::from_u32(p) { let s = c.to_string(); let g = run_generated(&names, "r", &s); let v = run_vm(&vm, "r", &s);
        if g != v { return ("oracle-only".into(), format!("FAIL built-in {} on U+{:04X}: generated parser `{}` but VM `{}`", name, p, g, v)); } } }
    ("oracle-only".into(), "ok".into())
}

fn forest_vm(p: Pairs<'_, &str>) -> String {
    let mut s = String::new();
    for pair in p { let sp = pair.as_span(); s.push_str(&format!(" ({} {} {} {}", pair.as_rule(), sp.start(), sp.end(), pair.as_node_tag().map(hexs).unwrap_or("_".into()))); s.push_str(&forest_vm(pair.into_inner())); s.push(')'); }
    s
}
fn sorted(mut v: Vec<String>) -> String { v.sort(); v.dedup(); v.join(",") }
fn run_generated(names: &[String], rule: &str, input: &str) -> String {
    let obs = Obs::new(input);
    let main = Prog::Fn(rule.to_string());
    match catch(|| pest::state::<R, _>(input, |s| verif_harness::prog::run_fast(&main, &[], s))) {
        Ok(Ok(p)) => format!("ok{}", forest_gen(p, names)),
        Ok(Err(e)) => { let pos = match e.location { InputLocation::Pos(p) => p, InputLocation::Span((a, _)) => a };
            match &e.variant { ErrorVariant::ParsingError { positives, negatives } => format!("err {} [{}] [{}]", pos, sorted(positives.iter().map(|r| name_of(names, *r)).collect()), sorted(negatives.iter().map(|r| name_of(names, *r)).collect())), ErrorVariant::CustomError { .. } => format!("limit {}", pos) } }
        Err(_) => "panic".into(),
    }
}
fn run_vm(vm: &pest_vm::Vm, rule: &str, input: &str) -> String {
    match catch(|| match vm.parse(rule, input) {
        Ok(p) => format!("ok{}", forest_vm(p)),
        Err(e) => { let pos = match e.location { InputLocation::Pos(p) => p, InputLocation::Span((a, _)) => a };
            match &e.variant { ErrorVariant::ParsingError { positives, negatives } => format!("err {} [{}] [{}]", pos, sorted(positives.iter().map(|s| s.to_string()).collect()), sorted(negatives.iter().map(|s| s.to_string()).collect())), ErrorVariant::CustomError { .. } => format!("limit {}", pos) } }
    }) { Ok(s) => s, Err(_) => "panic".into() }
}

fn eval_line(l: &str, stats: &mut BTreeMap<String, u64>) -> (String, String) {
    if std::env::var("VERIF_TRACE").is_ok() { eprintln!("CASE {}", l); }
    let bad = |m: &str| (format!("bad-op {}", m), "ok".to_string());
    if let Some(rest) = l.strip_prefix("G ") {
        let top = match parse_sexps(rest) { Some(t) if t.len() == 1 => t, _ => return bad("sexp") };
        let orules = match orules_of(&top[0]) { Some(r) => r, None => return bad("orules") };
        return match generate(&orules) {
            Ok(fns) => { *stats.entry("G_ok".into()).or_default() += 1; (orules.iter().map(|r| format!("{} {}", r.name, fns.get(&r.name).map(|p| p.show()).unwrap_or("<missing>".into()))).collect::<Vec<_>>().join(" ; "), "ok".into()) }
            Err(e) => { *stats.entry("G_untranslatable".into()).or_default() += 1; (format!("untranslatable {}", e.replace('\n', " ")), "FAIL the emitted code is outside the translator's sub-language (translator or generator changed)".into()) }
        };
    }
    if let Some(name) = l.strip_prefix("X ") { *stats.entry("unicode_builtins".into()).or_default() += 1; return eval_unicode(name.trim()); }
    let mut it = l.splitn(4, ' ');
    if it.next() != Some("V") { return bad("kind"); }
    let _cfg = it.next(); if it.next() != Some("gen") { return bad("backend"); }
    let top = match it.next().and_then(parse_sexps) { Some(t) if t.len() >= 3 => t, _ => return bad("sexp") };
    let orules: Vec<OptimizedRule> = match orules_of(&top[0]) { Some(r) => r, None => return bad("orules") };
    let rule = match &top[1] { SExp::Atom(a) => a.clone(), _ => return bad("rule") };
    let inputs: Vec<String> = match top[2..].iter().map(|e| if let SExp::Atom(a) = e { unhexs(a) } else { None }).collect::<Option<Vec<_>>>() { Some(v) => v, None => return bad("inputs") };
    let fns = match generate(&orules) { Ok(f) => f, Err(e) => return (format!("untranslatable {}", e.replace('\n', " ")), "FAIL untranslatable".into()) };
    FNS.with(|m| *m.borrow_mut() = fns);
    let names: Vec<String> = orules.iter().map(|r| r.name.clone()).collect();
    let vm = pest_vm::Vm::new(orules);
    let mut outs = vec![]; let mut verdict = "ok".to_string();
    for inp in &inputs {
        let g = run_generated(&names, &rule, inp);
        let v = run_vm(&vm, &rule, inp);
        *stats.entry(format!("res_{}", g.split(' ').next().unwrap())).or_default() += 1;
        if g != v && verdict == "ok" { verdict = format!("FAIL input {}: generated parser `{}` but VM `{}`", hexs(inp), if g.len() > 200 { &g[..200] } else { &g }, if v.len() > 200 { &v[..200] } else { &v }); }
        outs.push(g);
    }
    (outs.join(" | "), verdict)
}

const TAG_SHAPES: bool = true;
fn main() {
    quiet_panics();
    let mut out = Out::new();
    let mut stats: BTreeMap<String, u64> = BTreeMap::new();
    match cli() {
        Cmd::Run { ops, out: dir } => { for l in &ops { let (i, v) = eval_line(l, &mut stats); out.push(l.clone(), i, v); } out.write(&dir, "{}"); }
        Cmd::Gen { thorough, seed, out: dir } => {
            let ngram = if thorough { 3000 } else { 400 };
            let nbeh = if thorough { 800 } else { 120 };
            let len = if thorough { 5 } else { 3 };
            let mut rng = Rng::new(seed ^ 0xC02 ^ if EXTRAS { 0xE00 } else { 0 });
            let mut ninputs = 0u64; let mut nontrivial = 0u64;
            for gi in 0..ngram {
                let cfg = GenCfg { extras: EXTRAS, guarded: true, stack_ops: gi % 2 == 0, tags: EXTRAS && gi % 4 == 1, max_rules: 5, max_depth: 5, builtin_names: true, tag_shapes: TAG_SHAPES };
                let rules = if gi < 60 { gen_grammar_idiom(&mut rng, &cfg, gi) } else { gen_grammar(&mut rng, &cfg) };
                let orules = match catch(|| pest_meta::optimizer::optimize(rules.clone())) { Ok(o) => o, Err(_) => continue };
                let srules = show_orules(&orules);
                let l = format!("G {}", srules);
                let (i, v) = eval_line(&l, &mut stats);
                out.push(l, i, v);
                if gi < nbeh {
                    let alpha = alphabet(&rules);
                    // the idiom grammars need a few characters more (pushes, a repetition, a reader): longer inputs over fewer symbols
                    let mut inputs = if gi < 60 { all_inputs(&alpha[..alpha.len().min(4)], len + 2) } else { all_inputs(&alpha[..alpha.len().min(5)], len) };
                    for _ in 0..10 { let n = rng.range(len + 1, len + 5); let mut s = String::new(); for _ in 0..n { s.push_str(*rng.pick(&alpha[..])); } inputs.push(s); }
                    let ins = inputs.iter().map(|x| hexs(x)).collect::<Vec<_>>().join(" ");
                    for r in rules.iter().filter(|r| r.name != "WHITESPACE" && r.name != "COMMENT").take(2) {
                        let l = format!("V m1,d0,l_ gen {} {} {}", srules, r.name, ins);
                        let (i, v) = eval_line(&l, &mut stats);
                        ninputs += inputs.len() as u64;
                        nontrivial += i.split(" | ").filter(|x| x.len() > 6 && !x.starts_with("err 0 [] []")).count() as u64;
                        out.push(l, i, v);
                    }
                }
            }
            // the Unicode property built-ins: generated parser vs VM on the boundary code points of every advertised property
            // (every third property in the quick tier, rotating with the seed; all of them in thorough)
            for (k, f) in FUNCS.iter().enumerate() { if thorough || (k as u64 + seed) % 3 == 0 { let l = format!("X {}", f.1); let (i, v) = eval_line(&l, &mut stats); out.push(l, i, v); } }
            let samples: Vec<String> = out.ops.iter().step_by((out.ops.len() / 4).max(1)).take(4).map(|s| if s.len() > 300 { format!("{}…", &s[..300]) } else { s.clone() }).collect();
            let stats_s = format!("{{\"evaluations\":{},\"grammars_syntactic\":{},\"grammars_behavioural\":{},\"lines\":{},\"distinct_nontrivial\":{},\"extras\":{},\"max_exhaustive_input_len\":{},\"observed\":{:?},\"samples\":{:?}}}", ninputs + ngram as u64, ngram, nbeh, out.ops.len(), nontrivial, EXTRAS, len, stats, samples);
            out.write(&dir, &stats_s);
        }
    }
}
