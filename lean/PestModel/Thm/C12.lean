import PestModel.Model.PStateSpec
/-! # C12 — placeholder until the theorems land. -/
namespace PestModel.C12
open PestModel.PS

theorem smoke : incCall { (PState.new [] (some 1) false) with calls := some (1, 1) } = none := by decide

end PestModel.C12
