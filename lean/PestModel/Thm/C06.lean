import PestModel.Model.Validator
/-! # C06 — placeholder until the theorems land. -/
namespace PestModel.C06
open PestModel.V PestModel.G

/-- the four grammars the old check accepted are rejected (the fix of `check_expr` is mirrored). -/
theorem left_recursion_examples :
    leftRecursion false [⟨"a", .normal, .seq (.opt (.ident "a")) (.str ['x'])⟩] = [.leftRecursive "a"] ∧
    leftRecursion false [⟨"a", .normal, .seq (.negPred (.ident "a")) (.str ['x'])⟩] = [.leftRecursive "a"] ∧
    leftRecursion false [⟨"a", .normal, .repExact (.ident "a") 2⟩] = [.leftRecursive "a"] ∧
    leftRecursion false [⟨"a", .normal, .seq (.ident "b") (.str ['x'])⟩, ⟨"b", .normal, .opt (.ident "a")⟩] =
      [.leftRecursive "a", .leftRecursive "b"] := by decide

end PestModel.C06
