import PestModel.Lemmas.MetaPost
/-! C09, part A (continued): every rule of the regenerated meta-grammar meets its postcondition; `meta_forest`. -/
namespace PestModel.MetaPost
open PestModel.G PestModel.Ref PestModel.ReaderShape
open PestModel.ReaderFull (kind strOf nameOf metaNames noUni)
open PestModel.Views (Tree)
open PestModel.LineCol (Str bLen)
open PestModel.PS (Atomicity CharSet)

variable {text : Str}

/-! ### word facts -/

theorem word_str {m : Atomicity} {la : Bool} {x : Str} {a : Nat} {w : Str} {F : List Tree}
    (h : OkW (metaPost text) m la (.str x) a w F) : w = x := by simp only [OkW] at h; exact h.1

theorem word_call {m : Atomicity} {la : Bool} {n : String} {a : Nat} {w : Str} {F : List Tree}
    (h : OkW (metaPost text) m la (.ident n) a w F) : WordFact n w := by simp only [OkW] at h; exact h.2.1

theorem word_tag_id {m : Atomicity} {la : Bool} {x y : Expr} {a : Nat} {w : Str} {F : List Tree}
    (h : OkW (metaPost text) m la (.seq (.seq (.str ['#']) x) y) a w F) : ∃ body, w = '#' :: body := by
  obtain ⟨w1, _, w2, w3, _, _, h1, _, rfl, _, _⟩ := seq_inv h
  obtain ⟨u1, _, u2, u3, _, _, g1, _, rfl, _, _⟩ := seq_inv h1
  rw [word_str g1]
  exact ⟨u2 ++ u3 ++ w2 ++ w3, by simp⟩

theorem word_quoted {q : Char} {qn inner : String} {m : Atomicity} (hm : m ≠ .nonAtomic) {la : Bool} {a : Nat} {w : Str}
    {F : List Tree} (hq : ∀ w, WordFact qn w → w = [q])
    (h : OkW (metaPost text) m la (.seq (.seq (.ident qn) (.ident inner)) (.ident qn)) a w F) :
    ∃ body, w = q :: body ++ [q] := by
  obtain ⟨w1, _, w2, w3, _, _, h1, h3, rfl, _, e2⟩ := seq_inv h
  obtain ⟨u1, _, u2, u3, _, _, g1, _, rfl, _, e2'⟩ := seq_inv h1
  rw [e2 hm, e2' hm, hq _ (word_call g1), hq _ (word_call h3)]
  exact ⟨u3, by simp⟩

/-! ### forests of the pieces -/

/-- a call of a token-like rule: one pair of that kind. -/
theorem tok {n : String} {a : Nat} {w : Str} {F : List Tree} (h : OkW (metaPost text) .nonAtomic false (.ident n) a w F)
    {ty : RuleType} (hty : rty n = some ty) (hs : ty ≠ .silent) : ∃ t, F = [t] ∧ kind t = n ∧ HasStr text t := by
  obtain ⟨t, h1, h2, h3, _, _⟩ := call_node h hty hs
  exact ⟨t, h1, h2, _, h3⟩

theorem opt_inv {m : Atomicity} {la : Bool} {e : Expr} {a : Nat} {w : Str} {F : List Tree}
    (h : OkW (metaPost text) m la (.opt e) a w F) : OkW (metaPost text) m la e a w F ∨ F = [] := by
  simp only [OkW] at h
  rcases h with h | h
  · exact Or.inl h
  · exact Or.inr h.2

theorem choice_inv {m : Atomicity} {la : Bool} {x y : Expr} {a : Nat} {w : Str} {F : List Tree}
    (h : OkW (metaPost text) m la (.choice x y) a w F) :
    OkW (metaPost text) m la x a w F ∨ OkW (metaPost text) m la y a w F := by
  simpa only [OkW] using h

/-! ### inner pairs of the emitted rules -/

theorem kids_repeat_exact {a : Nat} {w : Str} {F : List Tree}
    (h : OkW (metaPost text) .nonAtomic false
      (.seq (.seq (.ident "opening_brace") (.ident "number")) (.ident "closing_brace")) a w F) :
    ∃ o n c, F = [o, n, c] ∧ HasStr text n := by
  obtain ⟨_, f1, _, _, f3, _, h1, h3, _, rfl, _⟩ := seq_inv h
  obtain ⟨_, g1, _, _, g3, _, k1, k3, _, rfl, _⟩ := seq_inv h1
  obtain ⟨o, rfl, _, _⟩ := tok k1 (ty := .normal) (by decide) (by decide)
  obtain ⟨n, rfl, _, hn⟩ := tok k3 (ty := .atomic) (by decide) (by decide)
  obtain ⟨c, rfl, _, _⟩ := tok h3 (ty := .normal) (by decide) (by decide)
  exact ⟨o, n, c, rfl, hn⟩

theorem kids_repeat_min {a : Nat} {w : Str} {F : List Tree}
    (h : OkW (metaPost text) .nonAtomic false
      (.seq (.seq (.seq (.ident "opening_brace") (.ident "number")) (.ident "comma")) (.ident "closing_brace")) a w F) :
    ∃ o n cm c, F = [o, n, cm, c] ∧ HasStr text n := by
  obtain ⟨_, f1, _, _, f3, _, h1, h3, _, rfl, _⟩ := seq_inv h
  obtain ⟨_, g1, _, _, g3, _, k1, k3, _, rfl, _⟩ := seq_inv h1
  obtain ⟨_, j1, _, _, j3, _, l1, l3, _, rfl, _⟩ := seq_inv k1
  obtain ⟨o, rfl, _, _⟩ := tok l1 (ty := .normal) (by decide) (by decide)
  obtain ⟨n, rfl, _, hn⟩ := tok l3 (ty := .atomic) (by decide) (by decide)
  obtain ⟨cm, rfl, _, _⟩ := tok k3 (ty := .normal) (by decide) (by decide)
  obtain ⟨c, rfl, _, _⟩ := tok h3 (ty := .normal) (by decide) (by decide)
  exact ⟨o, n, cm, c, rfl, hn⟩

theorem kids_repeat_max {a : Nat} {w : Str} {F : List Tree}
    (h : OkW (metaPost text) .nonAtomic false
      (.seq (.seq (.seq (.ident "opening_brace") (.ident "comma")) (.ident "number")) (.ident "closing_brace")) a w F) :
    ∃ o cm n c, F = [o, cm, n, c] ∧ HasStr text n := by
  obtain ⟨_, f1, _, _, f3, _, h1, h3, _, rfl, _⟩ := seq_inv h
  obtain ⟨_, g1, _, _, g3, _, k1, k3, _, rfl, _⟩ := seq_inv h1
  obtain ⟨_, j1, _, _, j3, _, l1, l3, _, rfl, _⟩ := seq_inv k1
  obtain ⟨o, rfl, _, _⟩ := tok l1 (ty := .normal) (by decide) (by decide)
  obtain ⟨cm, rfl, _, _⟩ := tok l3 (ty := .normal) (by decide) (by decide)
  obtain ⟨n, rfl, _, hn⟩ := tok k3 (ty := .atomic) (by decide) (by decide)
  obtain ⟨c, rfl, _, _⟩ := tok h3 (ty := .normal) (by decide) (by decide)
  exact ⟨o, cm, n, c, rfl, hn⟩

theorem kids_repeat_min_max {a : Nat} {w : Str} {F : List Tree}
    (h : OkW (metaPost text) .nonAtomic false
      (.seq (.seq (.seq (.seq (.ident "opening_brace") (.ident "number")) (.ident "comma")) (.ident "number"))
        (.ident "closing_brace")) a w F) :
    ∃ o x cm y c, F = [o, x, cm, y, c] ∧ HasStr text x ∧ HasStr text y := by
  obtain ⟨_, f1, _, _, f3, _, h1, h3, _, rfl, _⟩ := seq_inv h
  obtain ⟨_, g1, _, _, g3, _, k1, k3, _, rfl, _⟩ := seq_inv h1
  obtain ⟨_, j1, _, _, j3, _, l1, l3, _, rfl, _⟩ := seq_inv k1
  obtain ⟨_, i1, _, _, i3, _, n1, n3, _, rfl, _⟩ := seq_inv l1
  obtain ⟨o, rfl, _, _⟩ := tok n1 (ty := .normal) (by decide) (by decide)
  obtain ⟨x, rfl, _, hx⟩ := tok n3 (ty := .atomic) (by decide) (by decide)
  obtain ⟨cm, rfl, _, _⟩ := tok l3 (ty := .normal) (by decide) (by decide)
  obtain ⟨y, rfl, _, hy⟩ := tok k3 (ty := .atomic) (by decide) (by decide)
  obtain ⟨c, rfl, _, _⟩ := tok h3 (ty := .normal) (by decide) (by decide)
  exact ⟨o, x, cm, y, c, rfl, hx, hy⟩

/-- a call of `string` / `character`: one pair whose text is quoted. -/
theorem quoted_call {n : String} {q : Char} {a : Nat} {w : Str} {F : List Tree}
    (h : OkW (metaPost text) .nonAtomic false (.ident n) a w F) (hty : rty n = some .compound)
    (hq : ∀ w, WordFact n w → ∃ body, w = q :: body ++ [q]) : ∃ t, F = [t] ∧ kind t = n ∧ QuotedT text q t := by
  obtain ⟨t, h1, h2, h3, _, h5⟩ := call_node h hty (by decide)
  obtain ⟨body, rfl⟩ := hq _ h5
  exact ⟨t, h1, h2, body, h3⟩

theorem string_fact (w : Str) (h : WordFact "string" w) : ∃ body, w = '"' :: body ++ ['"'] := h.2.2.2.1 rfl
theorem character_fact (w : Str) (h : WordFact "character" w) : ∃ body, w = '\'' :: body ++ ['\''] := h.2.2.2.2 rfl

theorem kids_insensitive_string {a : Nat} {w : Str} {F : List Tree}
    (h : OkW (metaPost text) .nonAtomic false (.seq (.str ['^']) (.ident "string")) a w F) :
    ∃ s, F = [s] ∧ QuotedT text '"' s := by
  obtain ⟨_, f1, _, _, f3, _, h1, h3, _, rfl, _⟩ := seq_inv h
  have : f1 = [] := by simp only [OkW] at h1; exact h1.2
  subst this
  obtain ⟨s, rfl, _, hs⟩ := quoted_call h3 (by decide) string_fact
  exact ⟨s, rfl, hs⟩

theorem kids_range {a : Nat} {w : Str} {F : List Tree}
    (h : OkW (metaPost text) .nonAtomic false
      (.seq (.seq (.ident "character") (.ident "range_operator")) (.ident "character")) a w F) :
    ∃ x op y, F = [x, op, y] ∧ QuotedT text '\'' x ∧ QuotedT text '\'' y := by
  obtain ⟨_, f1, _, _, f3, _, h1, h3, _, rfl, _⟩ := seq_inv h
  obtain ⟨_, g1, _, _, g3, _, k1, k3, _, rfl, _⟩ := seq_inv h1
  obtain ⟨x, rfl, _, hx⟩ := quoted_call k1 (by decide) character_fact
  obtain ⟨op, rfl, _, _⟩ := tok k3 (ty := .normal) (by decide) (by decide)
  obtain ⟨y, rfl, _, hy⟩ := quoted_call h3 (by decide) character_fact
  exact ⟨x, op, y, rfl, hx, hy⟩

theorem kids_push_literal {lit : Str} {a : Nat} {w : Str} {F : List Tree}
    (h : OkW (metaPost text) .nonAtomic false
      (.seq (.seq (.seq (.str lit) (.ident "opening_paren")) (.ident "string")) (.ident "closing_paren")) a w F) :
    ∃ o s c, F = [o, s, c] ∧ QuotedT text '"' s := by
  obtain ⟨_, f1, _, _, f3, _, h1, h3, _, rfl, _⟩ := seq_inv h
  obtain ⟨_, g1, _, _, g3, _, k1, k3, _, rfl, _⟩ := seq_inv h1
  obtain ⟨_, j1, _, _, j3, _, l1, l3, _, rfl, _⟩ := seq_inv k1
  have : j1 = [] := by simp only [OkW] at l1; exact l1.2
  subst this
  obtain ⟨o, rfl, _, _⟩ := tok l3 (ty := .normal) (by decide) (by decide)
  obtain ⟨s, rfl, _, hs⟩ := quoted_call k3 (by decide) string_fact
  obtain ⟨c, rfl, _, _⟩ := tok h3 (ty := .normal) (by decide) (by decide)
  exact ⟨o, s, c, rfl, hs⟩

/-- a call of `expression`. -/
theorem expr_call {a : Nat} {w : Str} {F : List Tree} (h : OkW (metaPost text) .nonAtomic false (.ident "expression") a w F) :
    ∃ e, F = [e] ∧ kind e = "expression" ∧ ExprKids text e.children := by
  obtain ⟨e, h1, h2, _, h4, _⟩ := call_node h (ty := .normal) (by decide) (by decide)
  exact ⟨e, h1, h2, h4.2.1 rfl⟩

theorem kids_push {lit : Str} {a : Nat} {w : Str} {F : List Tree}
    (h : OkW (metaPost text) .nonAtomic false
      (.seq (.seq (.seq (.str lit) (.ident "opening_paren")) (.ident "expression")) (.ident "closing_paren")) a w F) :
    PushKids text F := by
  obtain ⟨_, f1, _, _, f3, _, h1, h3, _, rfl, _⟩ := seq_inv h
  obtain ⟨_, g1, _, _, g3, _, k1, k3, _, rfl, _⟩ := seq_inv h1
  obtain ⟨_, j1, _, _, j3, _, l1, l3, _, rfl, _⟩ := seq_inv k1
  have : j1 = [] := by simp only [OkW] at l1; exact l1.2
  subst this
  obtain ⟨o, rfl, _, _⟩ := tok l3 (ty := .normal) (by decide) (by decide)
  obtain ⟨e, rfl, he, hk⟩ := expr_call k3
  obtain ⟨c, rfl, _, _⟩ := tok h3 (ty := .normal) (by decide) (by decide)
  exact ⟨o, e, c, rfl, he, hk⟩

theorem opt_int {a : Nat} {w : Str} {F : List Tree} (h : OkW (metaPost text) .nonAtomic false (.opt (.ident "integer")) a w F) :
    OptInt text F := by
  rcases opt_inv h with h | rfl
  · obtain ⟨x, rfl, hk, hs⟩ := tok h (ty := .atomic) (by decide) (by decide)
    exact Or.inr ⟨x, rfl, hk, hs⟩
  · exact Or.inl rfl

theorem kids_peek_slice {lit : Str} {a : Nat} {w : Str} {F : List Tree}
    (h : OkW (metaPost text) .nonAtomic false
      (.seq (.seq (.seq (.seq (.seq (.str lit) (.ident "opening_brack")) (.opt (.ident "integer"))) (.ident "range_operator"))
        (.opt (.ident "integer"))) (.ident "closing_brack")) a w F) : PeekKids text F := by
  obtain ⟨_, f1, _, _, f3, _, h1, h3, _, rfl, _⟩ := seq_inv h
  obtain ⟨_, g1, _, _, g3, _, k1, k3, _, rfl, _⟩ := seq_inv h1
  obtain ⟨_, j1, _, _, j3, _, l1, l3, _, rfl, _⟩ := seq_inv k1
  obtain ⟨_, i1, _, _, i3, _, n1, n3, _, rfl, _⟩ := seq_inv l1
  obtain ⟨_, e1, _, _, e3, _, p1, p3, _, rfl, _⟩ := seq_inv n1
  have : e1 = [] := by simp only [OkW] at p1; exact p1.2
  subst this
  obtain ⟨o, rfl, _, _⟩ := tok p3 (ty := .normal) (by decide) (by decide)
  have hi1 := opt_int n3
  obtain ⟨r, rfl, hr, _⟩ := tok l3 (ty := .normal) (by decide) (by decide)
  have hi2 := opt_int k3
  obtain ⟨c, rfl, hc, _⟩ := tok h3 (ty := .normal) (by decide) (by decide)
  exact ⟨o, i3, r, g3, c, by simp, hr, hc, hi1, hi2⟩


/-! ### projections of `Kids` -/
section
variable {n : String} {cs : List Tree}
theorem Kids.rule (h : Kids text n cs) (e : n = "grammar_rule") : RuleKids text cs := h.1 e
theorem Kids.expr (h : Kids text n cs) (e : n = "expression") : ExprKids text cs := h.2.1 e
theorem Kids.term (h : Kids text n cs) (e : n = "term") : UnArgs text cs := h.2.2.1 e
theorem Kids.push (h : Kids text n cs) (e : n = "_push") : PushKids text cs := h.2.2.2.1 e
theorem Kids.pushlit (h : Kids text n cs) (e : n = "_push_literal") : ∃ o s c, cs = [o, s, c] ∧ QuotedT text '"' s := h.2.2.2.2.1 e
theorem Kids.peek (h : Kids text n cs) (e : n = "peek_slice") : PeekKids text cs := h.2.2.2.2.2.1 e
theorem Kids.insens (h : Kids text n cs) (e : n = "insensitive_string") : ∃ s, cs = [s] ∧ QuotedT text '"' s := h.2.2.2.2.2.2.1 e
theorem Kids.range (h : Kids text n cs) (e : n = "range") :
    ∃ a op b, cs = [a, op, b] ∧ QuotedT text '\'' a ∧ QuotedT text '\'' b := h.2.2.2.2.2.2.2.1 e
theorem Kids.rexact (h : Kids text n cs) (e : n = "repeat_exact") : ∃ o x c, cs = [o, x, c] ∧ HasStr text x := h.2.2.2.2.2.2.2.2.1 e
theorem Kids.rmin (h : Kids text n cs) (e : n = "repeat_min") : ∃ o x cm c, cs = [o, x, cm, c] ∧ HasStr text x :=
  h.2.2.2.2.2.2.2.2.2.1 e
theorem Kids.rmax (h : Kids text n cs) (e : n = "repeat_max") : ∃ o cm x c, cs = [o, cm, x, c] ∧ HasStr text x :=
  h.2.2.2.2.2.2.2.2.2.2.1 e
theorem Kids.rminmax (h : Kids text n cs) (e : n = "repeat_min_max") :
    ∃ o x cm y c, cs = [o, x, cm, y, c] ∧ HasStr text x ∧ HasStr text y := h.2.2.2.2.2.2.2.2.2.2.2 e
end

/-! ### forests of the silent rules -/

theorem forest_modifier {a : Nat} {w : Str} {F : List Tree}
    (h : OkW (metaPost text) .nonAtomic false (.choice (.choice (.choice (.ident "silent_modifier") (.ident "atomic_modifier"))
      (.ident "compound_atomic_modifier")) (.ident "non_atomic_modifier")) a w F) : ∃ t, F = [t] ∧ IsModifier t := by
  rcases choice_inv h with h | h
  · rcases choice_inv h with h | h
    · rcases choice_inv h with h | h
      · obtain ⟨t, rfl, hk, _⟩ := tok h (ty := .normal) (by decide) (by decide); exact ⟨t, rfl, Or.inl hk⟩
      · obtain ⟨t, rfl, hk, _⟩ := tok h (ty := .normal) (by decide) (by decide); exact ⟨t, rfl, Or.inr (Or.inl hk)⟩
    · obtain ⟨t, rfl, hk, _⟩ := tok h (ty := .normal) (by decide) (by decide); exact ⟨t, rfl, Or.inr (Or.inr (Or.inl hk))⟩
  · obtain ⟨t, rfl, hk, _⟩ := tok h (ty := .normal) (by decide) (by decide); exact ⟨t, rfl, Or.inr (Or.inr (Or.inr hk))⟩

theorem forest_node_tag {a : Nat} {w : Str} {F : List Tree}
    (h : OkW (metaPost text) .nonAtomic false (.seq (.ident "tag_id") (.ident "assignment_operator")) a w F) :
    ∃ g asg, F = [g, asg] ∧ TagT text g ∧ kind asg = "assignment_operator" := by
  obtain ⟨_, f1, _, _, f3, _, h1, h3, _, rfl, _⟩ := seq_inv h
  obtain ⟨g, rfl, _, hs, _, hw⟩ := call_node h1 (ty := .atomic) (by decide) (by decide)
  obtain ⟨asg, rfl, hk, _⟩ := tok h3 (ty := .normal) (by decide) (by decide)
  obtain ⟨body, rfl⟩ := hw.2.2.1 rfl
  exact ⟨g, asg, rfl, ⟨body, hs⟩, hk⟩

theorem forest_prefix {a : Nat} {w : Str} {F : List Tree}
    (h : OkW (metaPost text) .nonAtomic false
      (.choice (.ident "positive_predicate_operator") (.ident "negative_predicate_operator")) a w F) :
    ∃ t, F = [t] ∧ IsPrefixOp t := by
  rcases choice_inv h with h | h
  · obtain ⟨t, rfl, hk, _⟩ := tok h (ty := .normal) (by decide) (by decide); exact ⟨t, rfl, Or.inl hk⟩
  · obtain ⟨t, rfl, hk, _⟩ := tok h (ty := .normal) (by decide) (by decide); exact ⟨t, rfl, Or.inr hk⟩

theorem forest_infix {a : Nat} {w : Str} {F : List Tree}
    (h : OkW (metaPost text) .nonAtomic false (.choice (.ident "sequence_operator") (.ident "choice_operator")) a w F) :
    ∃ t, F = [t] ∧ IsInfix t := by
  rcases choice_inv h with h | h
  · obtain ⟨t, rfl, hk, _⟩ := tok h (ty := .normal) (by decide) (by decide); exact ⟨t, rfl, Or.inl hk⟩
  · obtain ⟨t, rfl, hk, _⟩ := tok h (ty := .normal) (by decide) (by decide); exact ⟨t, rfl, Or.inr hk⟩

theorem forest_postfix {a : Nat} {w : Str} {F : List Tree}
    (h : OkW (metaPost text) .nonAtomic false
      (.choice (.choice (.choice (.choice (.choice (.choice (.ident "optional_operator") (.ident "repeat_operator"))
        (.ident "repeat_once_operator")) (.ident "repeat_exact")) (.ident "repeat_min")) (.ident "repeat_max"))
        (.ident "repeat_min_max")) a w F) : ∃ t, F = [t] ∧ PostfixT text t := by
  rcases choice_inv h with h | h
  · rcases choice_inv h with h | h
    · rcases choice_inv h with h | h
      · rcases choice_inv h with h | h
        · rcases choice_inv h with h | h
          · rcases choice_inv h with h | h
            · obtain ⟨t, rfl, hk, _⟩ := tok h (ty := .normal) (by decide) (by decide); exact ⟨t, rfl, Or.inl hk⟩
            · obtain ⟨t, rfl, hk, _⟩ := tok h (ty := .normal) (by decide) (by decide); exact ⟨t, rfl, Or.inr (Or.inl hk)⟩
          · obtain ⟨t, rfl, hk, _⟩ := tok h (ty := .normal) (by decide) (by decide)
            exact ⟨t, rfl, Or.inr (Or.inr (Or.inl hk))⟩
        · obtain ⟨t, rfl, hk, _, hkids, _⟩ := call_node h (ty := .normal) (by decide) (by decide)
          exact ⟨t, rfl, Or.inr (Or.inr (Or.inr (Or.inl ⟨hk, hkids.rexact rfl⟩)))⟩
      · obtain ⟨t, rfl, hk, _, hkids, _⟩ := call_node h (ty := .normal) (by decide) (by decide)
        exact ⟨t, rfl, Or.inr (Or.inr (Or.inr (Or.inr (Or.inl ⟨hk, hkids.rmin rfl⟩))))⟩
    · obtain ⟨t, rfl, hk, _, hkids, _⟩ := call_node h (ty := .normal) (by decide) (by decide)
      exact ⟨t, rfl, Or.inr (Or.inr (Or.inr (Or.inr (Or.inr (Or.inl ⟨hk, hkids.rmax rfl⟩)))))⟩
  · obtain ⟨t, rfl, hk, _, hkids, _⟩ := call_node h (ty := .normal) (by decide) (by decide)
    exact ⟨t, rfl, Or.inr (Or.inr (Or.inr (Or.inr (Or.inr (Or.inr ⟨hk, hkids.rminmax rfl⟩)))))⟩

theorem forest_terminal {a : Nat} {w : Str} {F : List Tree}
    (h : OkW (metaPost text) .nonAtomic false
      (.choice (.choice (.choice (.choice (.choice (.choice (.ident "_push_literal") (.ident "_push")) (.ident "peek_slice"))
        (.ident "identifier")) (.ident "string")) (.ident "insensitive_string")) (.ident "range")) a w F) :
    ∃ t, F = [t] ∧ (PushT text t ∨ LeafT text t) := by
  rcases choice_inv h with h | h
  · rcases choice_inv h with h | h
    · rcases choice_inv h with h | h
      · rcases choice_inv h with h | h
        · rcases choice_inv h with h | h
          · rcases choice_inv h with h | h
            · obtain ⟨t, rfl, hk, _, hkids, _⟩ := call_node h (ty := .normal) (by decide) (by decide)
              exact ⟨t, rfl, Or.inr (Or.inl ⟨hk, hkids.pushlit rfl⟩)⟩
            · obtain ⟨t, rfl, hk, _, hkids, _⟩ := call_node h (ty := .normal) (by decide) (by decide)
              exact ⟨t, rfl, Or.inl ⟨hk, hkids.push rfl⟩⟩
          · obtain ⟨t, rfl, hk, _, hkids, _⟩ := call_node h (ty := .normal) (by decide) (by decide)
            exact ⟨t, rfl, Or.inr (Or.inr (Or.inl ⟨hk, hkids.peek rfl⟩))⟩
        · obtain ⟨t, rfl, hk, hs⟩ := tok h (ty := .atomic) (by decide) (by decide)
          exact ⟨t, rfl, Or.inr (Or.inr (Or.inr (Or.inl ⟨hk, hs⟩)))⟩
      · obtain ⟨t, rfl, hk, hq⟩ := quoted_call h (by decide) string_fact
        exact ⟨t, rfl, Or.inr (Or.inr (Or.inr (Or.inr (Or.inl ⟨hk, hq⟩))))⟩
    · obtain ⟨t, rfl, hk, _, hkids, _⟩ := call_node h (ty := .normal) (by decide) (by decide)
      exact ⟨t, rfl, Or.inr (Or.inr (Or.inr (Or.inr (Or.inr (Or.inl ⟨hk, hkids.insens rfl⟩)))))⟩
  · obtain ⟨t, rfl, hk, _, hkids, _⟩ := call_node h (ty := .normal) (by decide) (by decide)
    exact ⟨t, rfl, Or.inr (Or.inr (Or.inr (Or.inr (Or.inr (Or.inr ⟨hk, hkids.range rfl⟩)))))⟩

theorem forest_node {a : Nat} {w : Str} {F : List Tree}
    (h : OkW (metaPost text) .nonAtomic false
      (.choice (.seq (.seq (.ident "opening_paren") (.ident "expression")) (.ident "closing_paren")) (.ident "terminal")) a w F) :
    NodeF text F := by
  rcases choice_inv h with h | h
  · obtain ⟨_, f1, _, _, f3, _, h1, h3, _, rfl, _⟩ := seq_inv h
    obtain ⟨_, g1, _, _, g3, _, k1, k3, _, rfl, _⟩ := seq_inv h1
    obtain ⟨o, rfl, ho, _⟩ := tok k1 (ty := .normal) (by decide) (by decide)
    obtain ⟨e, rfl, he, hk⟩ := expr_call k3
    obtain ⟨c, rfl, hc, _⟩ := tok h3 (ty := .normal) (by decide) (by decide)
    exact Or.inl ⟨o, e, c, rfl, ho, he, hk, hc⟩
  · have := (call_silent h (by decide)).2.2.2.2.1 rfl
    exact Or.inr this


/-! ### `term`, `expression`, `grammar_rule`, `grammar_rules` -/

theorem rep_all {m : Atomicity} {la : Bool} {e : Expr} {a : Nat} {w : Str} {F : List Tree} {Q : Tree → Prop}
    (hQ : ∀ a w f, OkW (metaPost text) m la e a w f → ∀ t ∈ f, Q t)
    (h : OkW (metaPost text) m la (.rep e) a w F) : ∀ t ∈ F, Q t := by
  simp only [OkW] at h
  exact starW_all (fun a w f hr => by
    rcases hr with hr | hr
    · exact hQ a w f hr
    · rw [skW_nil hr]; intro t ht; simp at ht) h

theorem unBody_of_parts {nd post : List Tree} (hn : NodeF text nd) (hp : ∀ p ∈ post, PostfixT text p) :
    ∀ (pre : List Tree), (∀ p ∈ pre, IsPrefixOp p) → UnBody text (pre ++ nd ++ post)
  | [], _ => by
    rcases hn with ⟨o, e, c, rfl, ho, he, hk, hc⟩ | ⟨t, rfl, ht | ht⟩
    · exact .paren ho he hk hc hp
    · obtain ⟨hk, o, e, c, hc, he, hke⟩ := ht
      exact .push hk hc he hke hp
    · exact .leaf ht hp
  | p :: pre, h => by
    have := unBody_of_parts hn hp pre (fun q hq => h q (by simp [hq]))
    exact .pre (h p (by simp)) (by simpa using this)

theorem kids_term {a : Nat} {w : Str} {F : List Tree}
    (h : OkW (metaPost text) .nonAtomic false
      (.seq (.seq (.seq (.opt (.ident "node_tag")) (.rep (.ident "prefix_operator"))) (.ident "node"))
        (.rep (.ident "postfix_operator"))) a w F) : UnArgs text F := by
  obtain ⟨_, f1, _, _, fpost, _, h1, h3, _, rfl, _⟩ := seq_inv h
  obtain ⟨_, g1, _, _, fnode, _, k1, k3, _, rfl, _⟩ := seq_inv h1
  obtain ⟨_, ftag, _, _, fpre, _, l1, l3, _, rfl, _⟩ := seq_inv k1
  have hpre : ∀ t ∈ fpre, IsPrefixOp t := rep_all (fun a w f hf => by
    obtain ⟨t, rfl, ht⟩ := (call_silent hf (by decide)).2.2.2.2.2.1 rfl
    intro x hx; simp at hx; subst hx; exact ht) l3
  have hpost : ∀ t ∈ fpost, PostfixT text t := rep_all (fun a w f hf => by
    obtain ⟨t, rfl, ht⟩ := (call_silent hf (by decide)).2.2.2.2.2.2.2 rfl
    intro x hx; simp at hx; subst hx; exact ht) h3
  have hnode : NodeF text fnode := (call_silent k3 (by decide)).2.2.2.1 rfl
  have hbody := unBody_of_parts hnode hpost fpre hpre
  rcases opt_inv l1 with l1 | rfl
  · obtain ⟨g, asg, rfl, hg, ha⟩ := (call_silent l1 (by decide)).2.2.1 rfl
    have : UnArgs text (g :: asg :: (fpre ++ fnode ++ fpost)) := .tagged hg ha hbody
    simpa [List.append_assoc] using this
  · have : UnArgs text (fpre ++ fnode ++ fpost) := .plain hbody
    simpa [List.append_assoc] using this

theorem term_call {a : Nat} {w : Str} {F : List Tree} (h : OkW (metaPost text) .nonAtomic false (.ident "term") a w F) :
    ∃ t, F = [t] ∧ kind t = "term" ∧ UnArgs text t.children := by
  obtain ⟨t, h1, h2, _, h4, _⟩ := call_node h (ty := .normal) (by decide) (by decide)
  exact ⟨t, h1, h2, h4.term rfl⟩

theorem pairs_of_lists : ∀ (fs : List (List Tree)),
    (∀ f ∈ fs, ∃ op t, f = [op, t] ∧ IsInfix op ∧ kind t = "term" ∧ UnArgs text t.children) →
    ∃ rest : List (Tree × Tree), fs.flatten = rest.flatMap (fun p => [p.1, p.2]) ∧
      (∀ p ∈ rest, IsInfix p.1 ∧ kind p.2 = "term") ∧ (∀ p ∈ rest, UnArgs text p.2.children)
  | [], _ => ⟨[], rfl, by simp, by simp⟩
  | f :: fs, h => by
    obtain ⟨op, t, rfl, h1, h2, h3⟩ := h f (by simp)
    obtain ⟨rest, hr, ha, hb⟩ := pairs_of_lists fs (fun g hg => h g (by simp [hg]))
    refine ⟨(op, t) :: rest, by simp [hr], ?_, ?_⟩
    · intro p hp; rcases List.mem_cons.1 hp with rfl | hp; exact ⟨h1, h2⟩; exact ha p hp
    · intro p hp; rcases List.mem_cons.1 hp with rfl | hp; exact h3; exact hb p hp

theorem kids_expression {a : Nat} {w : Str} {F : List Tree}
    (h : OkW (metaPost text) .nonAtomic false
      (.seq (.seq (.opt (.ident "choice_operator")) (.ident "term")) (.rep (.seq (.ident "infix_operator") (.ident "term")))) a w F) :
    ExprKids text F := by
  obtain ⟨_, f1, _, wr, frest, ar, h1, h3, _, rfl, _⟩ := seq_inv h
  obtain ⟨_, flead, _, _, ft0, _, k1, k3, _, rfl, _⟩ := seq_inv h1
  obtain ⟨t0, rfl, h0, hu0⟩ := term_call k3
  have hlead : LeadOK flead := by
    rcases opt_inv k1 with k1 | rfl
    · obtain ⟨l, rfl, hk, _⟩ := tok k1 (ty := .normal) (by decide) (by decide)
      exact Or.inr ⟨l, rfl, hk⟩
    · exact Or.inl rfl
  have h3' : StarW (RK (metaPost text) .nonAtomic false (.seq (.ident "infix_operator") (.ident "term"))) ar wr frest := by
    have := h3
    rw [OkW] at this
    exact this
  obtain ⟨fs, rfl, hfs⟩ := rep_inv (S := fun f => ∃ op t, f = [op, t] ∧ IsInfix op ∧ kind t = "term" ∧ UnArgs text t.children)
    (fun a w f hf => by
      obtain ⟨_, g1, _, _, g3, _, j1, j3, _, rfl, _⟩ := seq_inv hf
      obtain ⟨op, rfl, hop⟩ := (call_silent j1 (by decide)).2.2.2.2.2.2.1 rfl
      obtain ⟨t, rfl, ht, hu⟩ := term_call j3
      exact ⟨op, t, rfl, hop, ht, hu⟩) h3'
  obtain ⟨rest, hr, ha, hb⟩ := pairs_of_lists fs hfs
  have := ExprKids.mk (text := text) flead t0 rest hlead h0 hu0 ha hb
  rw [hr]
  simpa [List.append_assoc] using this

theorem kids_grammar_rule {a : Nat} {w : Str} {F : List Tree}
    (h : OkW (metaPost text) .nonAtomic false
      (.choice (.seq (.seq (.seq (.seq (.seq (.ident "identifier") (.ident "assignment_operator")) (.opt (.ident "modifier")))
        (.ident "opening_brace")) (.ident "expression")) (.ident "closing_brace")) (.ident "line_doc")) a w F) :
    RuleKids text F := by
  rcases choice_inv h with h | h
  · obtain ⟨_, f1, _, _, f3, _, h1, h3, _, rfl, _⟩ := seq_inv h
    obtain ⟨_, g1, _, _, g3, _, k1, k3, _, rfl, _⟩ := seq_inv h1
    obtain ⟨_, j1, _, _, j3, _, l1, l3, _, rfl, _⟩ := seq_inv k1
    obtain ⟨_, i1, _, _, i3, _, n1, n3, _, rfl, _⟩ := seq_inv l1
    obtain ⟨_, e1, _, _, e3, _, p1, p3, _, rfl, _⟩ := seq_inv n1
    obtain ⟨id, rfl, hid, hs⟩ := tok p1 (ty := .atomic) (by decide) (by decide)
    obtain ⟨asg, rfl, _, _⟩ := tok p3 (ty := .normal) (by decide) (by decide)
    have hmods : i3 = [] ∨ ∃ m, i3 = [m] ∧ IsModifier m := by
      rcases opt_inv n3 with n3 | rfl
      · exact Or.inr ((call_silent n3 (by decide)).2.1 rfl)
      · exact Or.inl rfl
    obtain ⟨ob, rfl, hob, _⟩ := tok l3 (ty := .normal) (by decide) (by decide)
    obtain ⟨e, rfl, he, hk⟩ := expr_call k3
    obtain ⟨cb, rfl, _, _⟩ := tok h3 (ty := .normal) (by decide) (by decide)
    exact Or.inr ⟨id, asg, i3, ob, e, cb, by simp, hid, hs, hmods, hob, he, hk⟩
  · obtain ⟨c, rfl, hk, _⟩ := tok h (ty := .compound) (by decide) (by decide)
    exact Or.inl ⟨c, [], rfl, hk⟩

theorem forest_grammar_rules {a : Nat} {w : Str} {F : List Tree}
    (h : OkW (metaPost text) .nonAtomic false
      (.seq (.seq (.seq (.ident "SOI") (.rep (.ident "grammar_doc"))) (.rep (.ident "grammar_rule"))) (.ident "EOI")) a w F) :
    GrammarForest text F := by
  obtain ⟨_, f1, _, _, feoi, _, h1, h3, _, rfl, _⟩ := seq_inv h
  obtain ⟨_, g1, _, _, frules, _, k1, k3, _, rfl, _⟩ := seq_inv h1
  obtain ⟨_, fsoi, _, _, fdocs, _, l1, l3, _, rfl, _⟩ := seq_inv k1
  have hsoi : fsoi = [] := by simp only [OkW] at l1; exact l1.2.2.1 (by decide) (by decide)
  subst hsoi
  have hdocs : ∀ t ∈ fdocs, kind t = "grammar_rule" → RuleT text t := rep_all (fun a w f hf => by
    obtain ⟨t, rfl, hk, _⟩ := tok hf (ty := .compound) (by decide) (by decide)
    intro x hx; simp at hx; subst hx; intro hx; rw [hk] at hx; exact absurd hx (by decide)) l3
  have hrules : ∀ t ∈ frules, kind t = "grammar_rule" → RuleT text t := rep_all (fun a w f hf => by
    obtain ⟨t, rfl, _, _, hkids, _⟩ := call_node hf (ty := .normal) (by decide) (by decide)
    intro x hx; simp at hx; subst hx; intro _; exact hkids.rule rfl) k3
  have heoi : ∀ t ∈ feoi, kind t = "grammar_rule" → RuleT text t := by
    simp only [OkW] at h3
    have := h3.2.2.2 rfl rfl
    have hr : rty "EOI" = none := by decide
    rw [hr] at this
    obtain ⟨t, rfl, hk⟩ := this rfl
    intro x hx; simp at hx; subst hx; intro hx; rw [hk] at hx; exact absurd hx (by decide)
  intro t ht
  simp only [List.nil_append, List.mem_append] at ht
  rcases ht with (ht | ht) | ht
  · exact hdocs t ht
  · exact hrules t ht
  · exact heoi t ht


/-! ### the obligations, rule by rule -/

theorem rule_facts {name : String} {id : Nat} {r : Rule} (hr : (metaCtx text).rule? name = some (id, r)) :
    r.expr = bodyOf name ∧ rty name = some r.ty := by
  have h0 : (metaCtx []).rule? name = some (id, r) := hr
  simp [bodyOf, rty, h0]

theorem emits_silent (m : Atomicity) (la : Bool) : emitsFor .silent m la = false := rfl

theorem emits_top {ty : RuleType} (h : ty ≠ .silent) : emitsFor ty .nonAtomic false = true := by
  cases ty <;> first | exact absurd rfl h | rfl

theorem post_quiet {name : String} {id : Nat} {r : Rule} (hr : (metaCtx text).rule? name = some (id, r))
    {m : Atomicity} {la : Bool} {a : Nat} {w : Str} {f : List Tree}
    (hok : OkW (metaPost text) (bodyMode r.name r.ty m) la r.expr a w f) (hq : Quiet name) :
    (if emitsFor r.ty m la then [Tree.node id a (a + bLen w) none f] else f) = [] := by
  obtain ⟨he, hty⟩ := rule_facts hr
  have hb : quietE (bodyOf name) = true ∧ rty name = some .silent := by
    rcases hq with rfl | rfl | rfl | rfl | rfl | rfl | rfl | rfl <;> exact quiet_bodies _ (by simp)
  rw [hb.2] at hty
  have hs : r.ty = .silent := (Option.some.inj hty).symm
  rw [hs, emits_silent]
  rw [he] at hok
  simpa using quietE_nil _ hb.1 _ _ _ hok

theorem post_word {name : String} {id : Nat} {r : Rule} (hr : (metaCtx text).rule? name = some (id, r))
    {m : Atomicity} {la : Bool} {a : Nat} {w : Str} {f : List Tree}
    (hok : OkW (metaPost text) (bodyMode r.name r.ty m) la r.expr a w f) : WordFact name w := by
  obtain ⟨he, hty⟩ := rule_facts hr
  obtain ⟨_, hrn⟩ := nameOf_of_rule? hr
  rw [he] at hok
  refine ⟨?_, ?_, ?_, ?_, ?_⟩
  · rintro rfl
    have hb : bodyOf "quote" = .str ['"'] := by decide
    rw [hb] at hok; exact word_str hok
  · rintro rfl
    have hb : bodyOf "single_quote" = .str ['\''] := by decide
    rw [hb] at hok; exact word_str hok
  · rintro rfl
    exact word_tag_id hok
  · rintro rfl
    have hb : bodyOf "string" = .seq (.seq (.ident "quote") (.ident "inner_str")) (.ident "quote") := by decide
    have ht : rty "string" = some .compound := by decide
    rw [ht] at hty
    have hs : r.ty = .compound := (Option.some.inj hty).symm
    rw [hb, hrn, hs] at hok
    have hm : bodyMode "string" .compound m = .compound := by simp [bodyMode]
    rw [hm] at hok
    exact word_quoted (by decide) (fun w h => h.1 rfl) hok
  · rintro rfl
    have hb : bodyOf "character" = .seq (.seq (.ident "single_quote") (.ident "inner_chr")) (.ident "single_quote") := by decide
    have ht : rty "character" = some .compound := by decide
    rw [ht] at hty
    have hs : r.ty = .compound := (Option.some.inj hty).symm
    rw [hb, hrn, hs] at hok
    have hm : bodyMode "character" .compound m = .compound := by simp [bodyMode]
    rw [hm] at hok
    exact word_quoted (by decide) (fun w h => h.2.1 rfl) hok

/-- the body mode of a rule that is neither WHITESPACE nor COMMENT and keeps the caller's mode. -/
theorem bodyMode_keep {n : String} {ty : RuleType} (hn : n ≠ "WHITESPACE" ∧ n ≠ "COMMENT") (ht : ty = .normal ∨ ty = .silent) :
    bodyMode n ty .nonAtomic = .nonAtomic := by
  rcases ht with rfl | rfl <;> simp [bodyMode, hn.1, hn.2]

theorem post_kids {name : String} {id : Nat} {r : Rule} (hr : (metaCtx text).rule? name = some (id, r))
    {a : Nat} {w : Str} {f : List Tree}
    (hok : OkW (metaPost text) (bodyMode r.name r.ty .nonAtomic) false r.expr a w f) : Kids text name f := by
  obtain ⟨he, hty⟩ := rule_facts hr
  obtain ⟨_, hrn⟩ := nameOf_of_rule? hr
  rw [he, hrn] at hok
  have key : ∀ n, name = n → rty n = some .normal → n ≠ "WHITESPACE" ∧ n ≠ "COMMENT" →
      OkW (metaPost text) .nonAtomic false (bodyOf n) a w f := by
    intro n hn ht hne
    subst hn
    rw [ht] at hty
    have hs : r.ty = .normal := (Option.some.inj hty).symm
    rw [hs, bodyMode_keep hne (Or.inl rfl)] at hok
    exact hok
  refine ⟨?_, ?_, ?_, ?_, ?_, ?_, ?_, ?_, ?_, ?_, ?_, ?_⟩
  · intro hn
    have h := key _ hn (by decide) (by decide)
    exact kids_grammar_rule h
  · intro hn
    have h := key _ hn (by decide) (by decide)
    exact kids_expression h
  · intro hn
    have h := key _ hn (by decide) (by decide)
    exact kids_term h
  · intro hn
    have h := key _ hn (by decide) (by decide)
    exact kids_push h
  · intro hn
    have h := key _ hn (by decide) (by decide)
    exact kids_push_literal h
  · intro hn
    have h := key _ hn (by decide) (by decide)
    exact kids_peek_slice h
  · intro hn
    have h := key _ hn (by decide) (by decide)
    exact kids_insensitive_string h
  · intro hn
    have h := key _ hn (by decide) (by decide)
    exact kids_range h
  · intro hn
    have h := key _ hn (by decide) (by decide)
    exact kids_repeat_exact h
  · intro hn
    have h := key _ hn (by decide) (by decide)
    exact kids_repeat_min h
  · intro hn
    have h := key _ hn (by decide) (by decide)
    exact kids_repeat_max h
  · intro hn
    have h := key _ hn (by decide) (by decide)
    exact kids_repeat_min_max h

theorem post_forest {name : String} {id : Nat} {r : Rule} (hr : (metaCtx text).rule? name = some (id, r))
    (hs : r.ty = .silent) {a : Nat} {w : Str} {f : List Tree}
    (hok : OkW (metaPost text) (bodyMode r.name r.ty .nonAtomic) false r.expr a w f) : Forest text name f := by
  obtain ⟨he, _⟩ := rule_facts hr
  obtain ⟨_, hrn⟩ := nameOf_of_rule? hr
  rw [he, hrn, hs] at hok
  have key : ∀ n, name = n → n ≠ "WHITESPACE" ∧ n ≠ "COMMENT" → OkW (metaPost text) .nonAtomic false (bodyOf n) a w f := by
    intro n hn hne
    subst hn
    rw [bodyMode_keep hne (Or.inr rfl)] at hok
    exact hok
  refine ⟨?_, ?_, ?_, ?_, ?_, ?_, ?_, ?_⟩
  · intro hn
    have h := key _ hn (by decide)
    exact forest_grammar_rules h
  · intro hn
    have h := key _ hn (by decide)
    exact forest_modifier h
  · intro hn
    have h := key _ hn (by decide)
    exact forest_node_tag h
  · intro hn
    have h := key _ hn (by decide)
    exact forest_node h
  · intro hn
    have h := key _ hn (by decide)
    exact forest_terminal h
  · intro hn
    have h := key _ hn (by decide)
    exact forest_prefix h
  · intro hn
    have h := key _ hn (by decide)
    exact forest_infix h
  · intro hn
    have h := key _ hn (by decide)
    exact forest_postfix h

/-- **Every rule of the meta-grammar meets its postcondition** (checked against the regenerated `Gen.Meta.rules`). -/
theorem metaPostOK (text : Str) : PostOK (metaCtx text) (metaPost text) where
  rule := by
    intro name id r hr m la a w f hat hok
    obtain ⟨hname, _⟩ := nameOf_of_rule? hr
    obtain ⟨_, hty⟩ := rule_facts hr
    refine ⟨post_quiet hr hok, post_word hr hok, ?_, ?_⟩
    · intro hn; rw [hn] at hty; cases hty
    · intro hm hla
      subst hm; subst hla
      rw [hty]
      by_cases hs : r.ty = .silent
      · rw [hs, emits_silent]
        simp only [Bool.false_eq_true, if_false]
        exact post_forest hr hs hok
      · rw [emits_top hs]
        simp only [if_true]
        refine ⟨_, rfl, ?_, ?_, ?_⟩
        · simpa [kind, Tree.rule] using hname
        · simpa [strOf, Tree.start, Tree.stop, metaCtx] using hat.slice
        · simpa [Tree.children] using post_kids hr hok
  builtin := by
    intro name hr m la a w F _ hb
    have hty : rty name = none := by
      have h0 : (metaCtx []).rule? name = none := hr
      simp [rty, h0]
    have hnq : ¬ Quiet name := by
      intro hq
      have : rty name = some .silent := by
        rcases hq with rfl | rfl | rfl | rfl | rfl | rfl | rfl | rfl <;> exact (quiet_bodies _ (by simp)).2
      rw [hty] at this; cases this
    have hwf : WordFact name w := by
      refine ⟨?_, ?_, ?_, ?_, ?_⟩ <;> (rintro rfl; exact absurd hty (by decide))
    refine ⟨fun hq => absurd hq hnq, hwf, ?_, ?_⟩
    · intro _ hne
      unfold BuiltinW at hb
      rw [if_neg hne] at hb
      split at hb
      · exact hb.2.2
      · split at hb
        · exact hb.2
        · exact hb
    · intro hm hla
      subst hm; subst hla
      rw [hty]
      intro he
      subst he
      unfold BuiltinW at hb
      rw [if_pos rfl] at hb
      obtain ⟨_, _, hF⟩ := hb
      have hl : (metaCtx text).rules.length = metaNames.length := by simp [metaCtx, metaNames]
      have hem : emitsFor .normal .nonAtomic false = true := rfl
      rw [hem] at hF
      simp only [if_true] at hF
      exact ⟨_, hF, by simp [kind, Tree.rule, nameOf, hl]⟩

/-- **The pairs of `parse(Rule::grammar_rules, text)` have the shape the reader relies on.** -/
theorem meta_forest (text : Str) (n : Nat) (s' : St) (F : List Tree)
    (h : meaning PestModel.Gen.Meta.rules false noUni n "grammar_rules" text = .ok s' F) : GrammarForest text F := by
  obtain ⟨w, _, _, hp⟩ := sound_meaning (metaPostOK text) n "grammar_rules" s' F h
  have := hp.2.2.2 rfl rfl
  have ht : rty "grammar_rules" = some .silent := by decide
  rw [ht] at this
  exact this.1 rfl

end PestModel.MetaPost
