//! C14: the checked-in self-hosted parser (meta/src/grammar.rs) vs
//!   - a regeneration of it from the current grammar.pest with the current generator (textual equality),
//!   - the VM over parse_and_optimize(grammar.pest),
//!   - a freshly generated parser (emitted code executed call by call),
//!   - the reference denotation of the regenerated Lean value of grammar.pest (`pestmodel grammar`, M lines),
//! on texts fed to the top rule and to each sub-rule.
use pest::error::{ErrorVariant, InputLocation};
use pest::iterators::Pairs;
use pest_meta::optimizer::OptimizedRule;
use pest_meta::parser::Rule as MRule;
use std::collections::{BTreeMap, HashMap};
use verif_harness::gencode::{translate, Tr};
use verif_harness::prog::{Obs, Prog, FNS, R};
use verif_harness::*;

const GRAMMAR: &str = "/repo/meta/src/grammar.pest";

fn meta_rules() -> Vec<OptimizedRule> { pest_meta::parse_and_optimize(&std::fs::read_to_string(GRAMMAR).unwrap()).unwrap().1 }
fn rule_by_name(n: &str) -> Option<MRule> { MRule::all_rules().iter().copied().chain(std::iter::once(MRule::EOI)).find(|r| format!("{:?}", r) == n) }
fn sorted(mut v: Vec<String>) -> String { v.sort(); v.dedup(); v.join(",") }
fn forest<'i, T: pest::RuleType>(p: Pairs<'i, T>, name: &dyn Fn(T) -> String) -> String {
    let mut s = String::new();
    for pair in p { let sp = pair.as_span(); s.push_str(&format!(" ({} {} {} _", name(pair.as_rule()), sp.start(), sp.end())); s.push_str(&forest(pair.into_inner(), name)); s.push(')'); }
    s
}
fn rep<T: pest::RuleType>(r: Result<Pairs<'_, T>, pest::error::Error<T>>, name: &dyn Fn(T) -> String) -> String {
    match r {
        Ok(p) => format!("ok{}", forest(p, name)),
        Err(e) => { let pos = match e.location { InputLocation::Pos(p) => p, InputLocation::Span((a, _)) => a };
            match &e.variant { ErrorVariant::ParsingError { positives, negatives } => format!("err {} [{}] [{}]", pos, sorted(positives.iter().map(|r| name(*r)).collect()), sorted(negatives.iter().map(|r| name(*r)).collect())), ErrorVariant::CustomError { .. } => format!("custom {}", pos) } }
    }
}

struct Ctx { orules: Vec<OptimizedRule>, names: Vec<String>, vm: pest_vm::Vm }
fn eval_line(l: &str, cx: &Ctx, stats: &mut BTreeMap<String, u64>) -> (String, String) {
    let w: Vec<&str> = l.split_whitespace().collect();
    if w.len() < 3 || (w[0] != "M" && w[0] != "M0") { return ("bad-op".into(), "ok".into()); }
    let rule = w[1];
    let mut outs = vec![]; let mut verdict = "ok".to_string();
    for h in &w[2..] {
        let text = match unhexs(h) { Some(t) => t, None => return ("bad-op".into(), "ok".into()) };
        let checked = match rule_by_name(rule) { Some(r) => catch(|| rep(pest_meta::parser::parse(r, &text), &|r: MRule| format!("{:?}", r))).unwrap_or("panic".into()), None => "norule".into() };
        let vm = catch(|| rep(cx.vm.parse(rule, &text), &|r: &str| r.to_string())).unwrap_or("panic".into());
        let gen = { let obs = Obs::new(&text); let main = Prog::Fn(rule.to_string()); let names = cx.names.clone();
            catch(|| rep(pest::state::<R, _>(&text, |s| verif_harness::prog::run_fast(&main, &[], s)), &|r: R| names.get(r.0 as usize).cloned().unwrap_or("EOI".into()))).unwrap_or("panic".into()) };
        *stats.entry(format!("res_{}", checked.split(' ').next().unwrap())).or_default() += 1;
        if (checked != vm || checked != gen) && verdict == "ok" { verdict = format!("FAIL rule {} text {}: checked-in parser `{}`, VM `{}`, freshly generated `{}`", rule, h, &checked[..checked.len().min(160)], &vm[..vm.len().min(160)], &gen[..gen.len().min(160)]); }
        outs.push(if w[0] == "M0" { "-".to_string() } else if checked.starts_with("ok") { checked } else if checked.starts_with("err") { "fail".into() } else { checked });
    }
    (outs.join(" | "), verdict)
}

fn mutate(rng: &mut Rng, s: &str) -> String {
    let chars: Vec<char> = s.chars().collect();
    if chars.is_empty() { return "a".into(); }
    let mut c = chars.clone();
    for _ in 0..rng.range(1, 3) {
        let i = rng.below(c.len().max(1) as u64) as usize;
        match rng.below(6) {
            0 if !c.is_empty() => { c.remove(i.min(c.len() - 1)); }
            1 => c.insert(i.min(c.len()), *rng.pick(&['{', '}', '(', ')', '"', '\'', '~', '|', '*', '+', '?', '!', '&', '@', '$', '_', '=', '.', '[', ']', ',', '\\', '/', '#', '^', ' ', '\n', 'a', '0', '9', '-', 'é'])),
            2 if !c.is_empty() => { let j = i.min(c.len() - 1); c[j] = *rng.pick(&['{', '}', '(', ')', '"', '\'', '~', '|', '\\', 'x', 'u', '0']); }
            3 => { let j = rng.below(c.len() as u64 + 1) as usize; c.truncate(j); }
            4 if c.len() > 2 => { let j = i.min(c.len() - 2); c.swap(j, j + 1); }
            _ => { let j = i.min(c.len()); let piece: Vec<char> = rng.pick(&["PUSH(", "PEEK[", "..", "//", "/*", "*/", "///", "//!", "\\u{", "\\x", "{2,", "^\"", "'a'..'z'", "#t = ", "PUSH_LITERAL(\"a\")", "PEEK[-1..]"]).chars().collect(); for (k, ch) in piece.into_iter().enumerate() { c.insert(j + k, ch); } }
        }
    }
    c.into_iter().collect()
}

fn main() {
    quiet_panics();
    let mut out = Out::new();
    let mut stats: BTreeMap<String, u64> = BTreeMap::new();
    let orules = meta_rules();
    let names: Vec<String> = orules.iter().map(|r| r.name.clone()).collect();
    // freshly generated parser for the current grammar.pest
    let gen_err = {
        let mut used = vec![]; fn ids(e: &pest_meta::optimizer::OptimizedExpr, o: &mut Vec<String>) { for x in e.iter_top_down() { if let pest_meta::optimizer::OptimizedExpr::Ident(n) = x { o.push(n); } } }
        for r in &orules { ids(&r.expr, &mut used); // RestoreOnErr bodies are not visited by iter_top_down; the meta-grammar has none
        }
        used.sort(); used.dedup();
        let defaults: Vec<&str> = used.iter().filter(|n| !names.contains(n)).map(|s| s.as_str()).collect();
        let pd = pest_generator::parse_derive::ParsedDerive { name: syn::Ident::new("P", proc_macro2::Span::call_site()), generics: syn::Generics::default(), non_exhaustive: false };
        let doc = pest_generator::docs::DocComment { grammar_doc: String::new(), line_docs: HashMap::new() };
        let tokens = pest_generator::generator::generate(pd, vec![], orules.clone(), defaults, &doc, false);
        let n = names.len() as u16; let nn = names.clone();
        let idx = move |s: &str| -> Option<u16> { if s == "EOI" { Some(n) } else { nn.iter().position(|x| x == s).map(|i| i as u16) } };
        let uni = |_s: &str| -> Option<Vec<(u32, u32)>> { None };
        match translate(tokens, &Tr { rule_index: &idx, unicode: &uni, strings: Default::default() }) { Ok(f) => { FNS.with(|m| *m.borrow_mut() = f); None } Err(e) => Some(e) }
    };
    let cx = Ctx { vm: pest_vm::Vm::new(orules.clone()), orules, names };
    let _ = &cx.orules;
    match cli() {
        Cmd::Run { ops, out: dir } => { for l in &ops { let (i, v) = eval_line(l, &cx, &mut stats); out.push(l.clone(), i, v); } out.write(&dir, "{}"); }
        Cmd::Gen { thorough, seed, out: dir } => {
            // (1) regeneration: current generator on current grammar.pest == checked-in grammar.rs
            let regen = catch(|| { let path = GRAMMAR; let derived = pest_generator::derive_parser(quote::quote! { #[grammar = #path] pub struct PestParser; }, false); format!("pub struct PestParser;\n{}\n", derived) });
            let checked_in = std::fs::read_to_string("/repo/meta/src/grammar.rs").unwrap_or_default();
            let same = regen.as_ref().map(|r| *r == checked_in).unwrap_or(false);
            out.push("R regenerate".into(), if same { "same".into() } else { "different".into() }, if same { "ok".into() } else { "FAIL meta/src/grammar.rs is not what the current generator produces from the current grammar.pest".into() });
            if let Some(e) = gen_err { out.push("R translate".into(), format!("untranslatable {}", e.replace('\n', " ")), "FAIL the generated meta-parser is outside the translator's sub-language".into()); }
            let mut rng = Rng::new(seed ^ 0xC14);
            let mut seeds: Vec<String> = vec![];
            for f in ["/repo/meta/src/grammar.pest", "/repo/grammars/src/grammars/json.pest", "/repo/grammars/src/grammars/toml.pest", "/repo/grammars/src/grammars/http.pest", "/repo/grammars/src/grammars/sql.pest", "/repo/derive/tests/grammar.pest", "/repo/derive/tests/reporting.pest", "/repo/derive/tests/lists.pest"] { if let Ok(t) = std::fs::read_to_string(f) { seeds.push(t); } }
            // rule-sized snippets: split the seed grammars at blank-line / rule boundaries
            let mut snippets: Vec<String> = vec!["a = { \"b\" }".into(), "a = _{ b ~ c | d* }".into(), "x = @{ 'a'..'z'+ ~ !\"q\" }".into(), "r = ${ PUSH(\"a\") ~ PEEK[1..-1] ~ POP }".into(), "/// doc\nr = !{ (a | b){2,3} }".into(), "//! top\nw = { ^\"x\" ~ \"\\n\\u{1F600}\\x41\" }".into()];
            for s in &seeds { for part in s.split("\n\n") { let p = part.trim(); if !p.is_empty() && p.len() < 400 { snippets.push(p.to_string()); } } for line in s.lines() { if line.contains('=') && line.contains('}') && line.len() < 200 { snippets.push(line.trim().to_string()); } } }
            let n_small = if thorough { 6000 } else { 700 };
            let n_big = if thorough { 3000 } else { 400 };
            let subrules = ["grammar_rules", "grammar_rule", "expression", "term", "string", "insensitive_string", "range", "character", "peek_slice", "identifier", "number", "integer", "_push", "inner_str", "escape", "COMMENT", "line_doc", "tag_id", "repeat_min_max"];
            // characters that an editor or a "friendly" wrapper might treat as ignorable at the edges of a file:
            // the meta-grammar does not, so all parsers must reject them alike (deterministic cases first)
            let edges = ["\u{feff}", "\u{a0}", "\u{200b}", "\u{2028}", "\u{0}", "\r", "\u{c}", "\u{85}", "\u{feff}\u{feff}"];
            for e in &edges { for t in ["a = { \"b\" }", "", "//! d\na = _{ b }\nb = { \"c\" }"] {
                for text in [format!("{}{}", e, t), format!("{}{}", t, e), format!("{}{}{}", e, t, e)] {
                    let l = format!("M grammar_rules {}", hexs(&text)); let (i2, v) = eval_line(&l, &cx, &mut stats); out.push(l, i2, v); } } }
            for i in 0..n_small {
                let base = rng.pick(&snippets).clone();
                let text = if i % 3 == 0 { base } else { mutate(&mut rng, &base) };
                let text = if rng.chance(1, 10) { format!("{}{}", rng.pick(&edges), text) } else if rng.chance(1, 20) { format!("{}{}", text, rng.pick(&edges)) } else { text };
                if text.len() > 300 { continue; }
                let rule = if i % 2 == 0 { "grammar_rules" } else { *rng.pick(&subrules) };
                // sub-rules get a fragment: take a random suffix so they start at interesting places
                let frag = if rule == "grammar_rules" || rule == "grammar_rule" { text } else { let cs: Vec<char> = text.chars().collect(); let k = rng.below(cs.len() as u64 + 1) as usize; cs[k..].iter().collect() };
                let l = format!("M {} {}", rule, hexs(&frag));
                let (i2, v) = eval_line(&l, &cx, &mut stats); out.push(l, i2, v);
            }
            for _ in 0..n_big { let base = rng.pick(&seeds).clone(); let text = if rng.chance(1, 4) { base } else { mutate(&mut rng, &base) }; let text = if rng.chance(1, 10) { format!("{}{}", rng.pick(&edges), text) } else { text }; let l = format!("M0 grammar_rules {}", hexs(&text)); let (i2, v) = eval_line(&l, &cx, &mut stats); out.push(l, i2, v); }
            let samples: Vec<String> = out.ops.iter().step_by((out.ops.len() / 5).max(1)).take(5).map(|s| if s.len() > 200 { format!("{}…", &s[..200]) } else { s.clone() }).collect();
            let stats_s = format!("{{\"evaluations\":{},\"distinct_nontrivial\":{},\"texts_with_reference_denotation\":{},\"whole_file_texts\":{},\"regeneration_equal\":{},\"observed\":{:?},\"samples\":{:?}}}", out.ops.len(), stats.get("res_ok").cloned().unwrap_or(0), n_small, n_big, same, stats, samples);
            out.write(&dir, &stats_s);
        }
    }
}
