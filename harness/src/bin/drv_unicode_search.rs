//! C16 search: evaluate the property's statements directly on the implementation and print a witness.
include!(concat!(env!("OUT_DIR"), "/unicode_fns.rs"));
fn f(name: &str) -> Option<fn(char) -> bool> { FUNCS.iter().find(|x| x.1 == name).map(|x| x.2) }
fn main() {
    let two = ["UPPERCASE_LETTER", "LOWERCASE_LETTER", "TITLECASE_LETTER", "MODIFIER_LETTER", "OTHER_LETTER", "NONSPACING_MARK", "SPACING_MARK", "ENCLOSING_MARK", "DECIMAL_NUMBER", "LETTER_NUMBER", "OTHER_NUMBER",
        "CONNECTOR_PUNCTUATION", "DASH_PUNCTUATION", "OPEN_PUNCTUATION", "CLOSE_PUNCTUATION", "INITIAL_PUNCTUATION", "FINAL_PUNCTUATION", "OTHER_PUNCTUATION", "MATH_SYMBOL", "CURRENCY_SYMBOL", "MODIFIER_SYMBOL", "OTHER_SYMBOL",
        "SPACE_SEPARATOR", "LINE_SEPARATOR", "PARAGRAPH_SEPARATOR", "CONTROL", "FORMAT", "PRIVATE_USE", "UNASSIGNED"];
    let groups: [(&str, &[&str]); 8] = [("LETTER", &two[0..5]), ("CASED_LETTER", &two[0..3]), ("MARK", &two[5..8]), ("NUMBER", &two[8..11]), ("PUNCTUATION", &two[11..18]), ("SYMBOL", &two[18..22]), ("SEPARATOR", &two[22..25]), ("OTHER", &two[25..29])];
    let twof: Vec<(&str, fn(char) -> bool)> = two.iter().filter_map(|n| f(n).map(|g| (*n, g))).collect();
    if twof.len() != two.len() { println!("WITNESS a two-letter general category is no longer advertised"); return; }
    let scripts: Vec<&(&str, &str, fn(char) -> bool)> = FUNCS.iter().filter(|x| x.0 == "script").collect();
    for cp in 0..=0x10FFFFu32 {
        let c = match char::from_u32(cp) { Some(c) => c, None => continue };
        let hits: Vec<&str> = twof.iter().filter(|(_, g)| g(c)).map(|(n, _)| *n).collect();
        if hits.len() != 1 { println!("WITNESS U+{:04X} is matched by {} two-letter general categories {:?}", cp, hits.len(), hits); return; }
        for (g, parts) in &groups { if let Some(gf) = f(g) { let u = parts.iter().any(|p| f(p).map_or(false, |pf| pf(c))); if gf(c) != u { println!("WITNESS U+{:04X}: {} = {} but the union of its members = {}", cp, g, gf(c), u); return; } } }
        let sh: Vec<&str> = scripts.iter().filter(|s| (s.2)(c)).map(|s| s.1).collect();
        if sh.len() > 1 { println!("WITNESS U+{:04X} is matched by scripts {:?}", cp, sh); return; }
    }
    for x in FUNCS { if pest::unicode::by_name(x.1).is_none() { println!("WITNESS advertised name {} does not resolve in by_name", x.1); return; } }
    println!("none");
}
