import PestModel.Model.PStateSpec
import PestModel.Lemmas.LineColBasic
/-! Position primitives of `PState.lean`: results are boundaries not before the start, and no
primitive panics at a boundary. -/
namespace PestModel.PS
open PestModel.LineCol

theorem restAt_some {input : Str} {pos : Nat} {rest : Str} (h : restAt input pos = some rest) :
    ∃ pre, input = pre ++ rest ∧ bLen pre = pos := by
  unfold restAt at h
  cases hs : splitAt? input pos with
  | none => simp [hs] at h
  | some pr =>
    obtain ⟨a, b⟩ := pr
    simp [hs] at h; subst h
    exact ⟨a, splitAt_some hs⟩

theorem restAt_isSome {input : Str} {pos : Nat} (h : isBoundary input pos = true) :
    ∃ rest, restAt input pos = some rest := by
  unfold isBoundary at h
  obtain ⟨⟨a, b⟩, hs⟩ := Option.isSome_iff_exists.mp h
  exact ⟨b, by simp [restAt, hs]⟩

theorem restAt_boundary {input : Str} {pos : Nat} {rest : Str} (h : restAt input pos = some rest) :
    isBoundary input pos = true := by
  obtain ⟨pre, rfl, rfl⟩ := restAt_some h
  exact (isBoundary_iff _ _).2 ⟨pre, rest, rfl, rfl⟩

/-- the basic fact: a prefix of the rest extends the boundary. -/
theorem boundary_ext {input : Str} {pos : Nat} {rest a b : Str} (h : restAt input pos = some rest)
    (hr : rest = a ++ b) : isBoundary input (pos + bLen a) = true := by
  obtain ⟨pre, rfl, rfl⟩ := restAt_some h
  subst hr
  exact (isBoundary_iff _ _).2 ⟨pre ++ a, b, by simp, by simp⟩

/-- Outcome of a position primitive: a boundary not before `pos`. -/
def PosGood (input : Str) (pos : Nat) (r : Option (Bool × Nat)) : Prop :=
  ∀ b pos', r = some (b, pos') → pos ≤ pos' ∧ isBoundary input pos' = true

theorem isPrefixOf_split {a b : Str} (h : a.isPrefixOf b = true) : ∃ t, b = a ++ t := by
  rw [List.isPrefixOf_iff_prefix] at h
  obtain ⟨t, rfl⟩ := h
  exact ⟨t, rfl⟩

theorem posMatchString_good (input : Str) (pos : Nat) (str : Str) :
    PosGood input pos (posMatchString input pos str) := by
  intro b pos' h
  unfold posMatchString at h
  split at h
  · simp at h
  · rename_i rest hr
    split at h
    · rename_i hp
      simp at h; obtain ⟨-, rfl⟩ := h
      obtain ⟨t, ht⟩ := isPrefixOf_split hp
      exact ⟨by omega, boundary_ext hr ht⟩
    · simp at h; obtain ⟨-, rfl⟩ := h
      exact ⟨Nat.le_refl _, restAt_boundary hr⟩

theorem posMatchString_isSome {input : Str} {pos : Nat} (str : Str) (h : isBoundary input pos = true) :
    ∃ r, posMatchString input pos str = some r := by
  obtain ⟨rest, hr⟩ := restAt_isSome h
  unfold posMatchString
  rw [hr]; simp only []
  split <;> exact ⟨_, rfl⟩

theorem posMatchInsensitive_good (input : Str) (pos : Nat) (str : Str) :
    PosGood input pos (posMatchInsensitive input pos str) := by
  intro b pos' h
  unfold posMatchInsensitive at h
  split at h
  · simp at h
  · rename_i rest hr
    split at h
    · rename_i pre post hsp
      obtain ⟨h1, h2⟩ := splitAt_some hsp
      split at h
      · simp at h; obtain ⟨-, rfl⟩ := h
        rw [← h2]
        exact ⟨by omega, boundary_ext hr h1⟩
      · simp at h; obtain ⟨-, rfl⟩ := h
        exact ⟨Nat.le_refl _, restAt_boundary hr⟩
    · simp at h; obtain ⟨-, rfl⟩ := h
      exact ⟨Nat.le_refl _, restAt_boundary hr⟩

theorem posMatchInsensitive_isSome {input : Str} {pos : Nat} (str : Str)
    (h : isBoundary input pos = true) : ∃ r, posMatchInsensitive input pos str = some r := by
  obtain ⟨rest, hr⟩ := restAt_isSome h
  unfold posMatchInsensitive
  rw [hr]; simp only []
  split
  · split <;> exact ⟨_, rfl⟩
  · exact ⟨_, rfl⟩

theorem posMatchRange_good (input : Str) (pos : Nat) (a b : Char) :
    PosGood input pos (posMatchRange input pos a b) := by
  intro b' pos' h
  unfold posMatchRange at h
  split at h
  · simp at h
  · rename_i hr
    simp at h; obtain ⟨-, rfl⟩ := h
    exact ⟨Nat.le_refl _, restAt_boundary hr⟩
  · rename_i c cs hr
    split at h
    · simp at h; obtain ⟨-, rfl⟩ := h
      have := boundary_ext (a := [c]) (b := cs) hr rfl
      simp at this
      exact ⟨by omega, this⟩
    · simp at h; obtain ⟨-, rfl⟩ := h
      exact ⟨Nat.le_refl _, restAt_boundary hr⟩

theorem posMatchRange_isSome {input : Str} {pos : Nat} (a b : Char)
    (h : isBoundary input pos = true) : ∃ r, posMatchRange input pos a b = some r := by
  obtain ⟨rest, hr⟩ := restAt_isSome h
  unfold posMatchRange
  rw [hr]
  cases rest with
  | nil => exact ⟨_, rfl⟩
  | cons c cs => simp only []; split <;> exact ⟨_, rfl⟩

theorem posMatchCharBy_good (input : Str) (pos : Nat) (cs : CharSet) :
    PosGood input pos (posMatchCharBy input pos cs) := by
  intro b' pos' h
  unfold posMatchCharBy at h
  split at h
  · simp at h
  · rename_i hr
    simp at h; obtain ⟨-, rfl⟩ := h
    exact ⟨Nat.le_refl _, restAt_boundary hr⟩
  · rename_i c cs' hr
    split at h
    · simp at h; obtain ⟨-, rfl⟩ := h
      have := boundary_ext (a := [c]) (b := cs') hr rfl
      simp at this
      exact ⟨by omega, this⟩
    · simp at h; obtain ⟨-, rfl⟩ := h
      exact ⟨Nat.le_refl _, restAt_boundary hr⟩

theorem posMatchCharBy_isSome {input : Str} {pos : Nat} (cs : CharSet)
    (h : isBoundary input pos = true) : ∃ r, posMatchCharBy input pos cs = some r := by
  obtain ⟨rest, hr⟩ := restAt_isSome h
  unfold posMatchCharBy
  rw [hr]
  cases rest with
  | nil => exact ⟨_, rfl⟩
  | cons c cs => simp only []; split <;> exact ⟨_, rfl⟩

theorem posSkip_good (input : Str) (pos : Nat) (n : Nat) :
    PosGood input pos (posSkip input pos n) := by
  intro b' pos' h
  unfold posSkip at h
  split at h
  · simp at h
  · rename_i rest hr
    split at h
    · simp at h; obtain ⟨-, rfl⟩ := h
      exact ⟨by omega, boundary_ext hr (List.take_append_drop n rest).symm⟩
    · simp at h; obtain ⟨-, rfl⟩ := h
      exact ⟨Nat.le_refl _, restAt_boundary hr⟩

theorem posSkip_isSome {input : Str} {pos : Nat} (n : Nat)
    (h : isBoundary input pos = true) : ∃ r, posSkip input pos n = some r := by
  obtain ⟨rest, hr⟩ := restAt_isSome h
  unfold posSkip
  rw [hr]; simp only []
  split <;> exact ⟨_, rfl⟩

theorem skipUntilBasicGo_split (strs : List Str) (rest : Str) (off : Nat) :
    ∃ a b, rest = a ++ b ∧ (skipUntilBasicGo strs rest off).1 = off + bLen a := by
  induction rest generalizing off with
  | nil => exact ⟨[], [], rfl, by simp [skipUntilBasicGo]⟩
  | cons c cs ih =>
    unfold skipUntilBasicGo
    split
    · exact ⟨[], c :: cs, rfl, by simp⟩
    · obtain ⟨a, b, hab, hr⟩ := ih (off + cLen c)
      exact ⟨c :: a, b, by simp [hab], by rw [hr]; simp; omega⟩

theorem memmemGo_split (needle : Str) (rest : Str) (off r : Nat) (h : memmemGo needle rest off = some r) :
    ∃ a b, rest = a ++ b ∧ r = off + bLen a := by
  induction rest generalizing off with
  | nil =>
    unfold memmemGo at h
    split at h
    · simp at h; subst h; exact ⟨[], [], rfl, by simp⟩
    · simp at h
  | cons c cs ih =>
    unfold memmemGo at h
    split at h
    · simp at h; subst h; exact ⟨[], c :: cs, rfl, by simp⟩
    · obtain ⟨a, b, hab, hr⟩ := ih (off + cLen c) h
      exact ⟨c :: a, b, by simp [hab], by rw [hr]; simp; omega⟩

theorem memchrGo_split (firsts : List UInt8) (strs : List Str) (rest : Str) (off r : Nat)
    (h : memchrGo firsts strs rest off = some r) :
    ∃ a b, rest = a ++ b ∧ r = off + bLen a := by
  induction rest generalizing off with
  | nil => simp [memchrGo] at h
  | cons c cs ih =>
    unfold memchrGo at h
    split at h
    · simp at h; subst h; exact ⟨[], c :: cs, rfl, by simp⟩
    · obtain ⟨a, b, hab, hr⟩ := ih (off + cLen c) h
      exact ⟨c :: a, b, by simp [hab], by rw [hr]; simp; omega⟩

theorem getD_split {rest : Str} {pos : Nat} (o : Option Nat)
    (h : ∀ r, o = some r → ∃ a b, rest = a ++ b ∧ r = pos + bLen a) :
    ∃ a b, rest = a ++ b ∧ o.getD (pos + bLen rest) = pos + bLen a := by
  cases o with
  | none => exact ⟨rest, [], by simp, rfl⟩
  | some r => obtain ⟨a, b, h1, h2⟩ := h r rfl; exact ⟨a, b, h1, h2⟩

theorem posSkipUntil_split (memchr : Bool) (input : Str) (pos : Nat) (strs : List Str) (rest : Str)
    (hr : restAt input pos = some rest) :
    ∃ a b, rest = a ++ b ∧ posSkipUntil memchr input pos strs = some (pos + bLen a) := by
  have hb := skipUntilBasicGo_split strs rest pos
  unfold posSkipUntil
  rw [hr]; simp only []
  split
  · obtain ⟨a, b, h1, h2⟩ := hb; exact ⟨a, b, h1, by rw [h2]⟩
  · split
    · exact ⟨rest, [], by simp, rfl⟩
    · rename_i s1
      obtain ⟨a, b, h1, h2⟩ := getD_split (rest := rest) (pos := pos) (memmemGo s1 rest pos)
        (fun r h => memmemGo_split _ _ _ _ h)
      exact ⟨a, b, h1, by rw [h2]⟩
    · split
      · rename_i s1 s2 x xs y ys
        obtain ⟨a, b, h1, h2⟩ := getD_split (rest := rest) (pos := pos)
          (memchrGo [leadByte x, leadByte y] [x :: xs, y :: ys] rest pos)
          (fun r h => memchrGo_split _ _ _ _ _ h)
        exact ⟨a, b, h1, by rw [h2]⟩
      · obtain ⟨a, b, h1, h2⟩ := hb; exact ⟨a, b, h1, by rw [h2]⟩
    · split
      · rename_i s1 s2 s3 x xs y ys z zs
        obtain ⟨a, b, h1, h2⟩ := getD_split (rest := rest) (pos := pos)
          (memchrGo [leadByte x, leadByte y, leadByte z] [x :: xs, y :: ys, z :: zs] rest pos)
          (fun r h => memchrGo_split _ _ _ _ _ h)
        exact ⟨a, b, h1, by rw [h2]⟩
      · obtain ⟨a, b, h1, h2⟩ := hb; exact ⟨a, b, h1, by rw [h2]⟩
    · obtain ⟨a, b, h1, h2⟩ := hb; exact ⟨a, b, h1, by rw [h2]⟩

theorem posSkipUntil_good (memchr : Bool) (input : Str) (pos : Nat) (strs : List Str) (pos' : Nat)
    (h : posSkipUntil memchr input pos strs = some pos') :
    pos ≤ pos' ∧ isBoundary input pos' = true := by
  cases hr : restAt input pos with
  | none => simp [posSkipUntil, hr] at h
  | some rest =>
    obtain ⟨a, b, h1, h2⟩ := posSkipUntil_split memchr input pos strs rest hr
    rw [h2] at h; simp at h; subst h
    exact ⟨by omega, boundary_ext hr h1⟩

theorem posSkipUntil_isSome (memchr : Bool) {input : Str} {pos : Nat} (strs : List Str)
    (h : isBoundary input pos = true) : ∃ r, posSkipUntil memchr input pos strs = some r := by
  obtain ⟨rest, hr⟩ := restAt_isSome h
  obtain ⟨a, b, -, h2⟩ := posSkipUntil_split memchr input pos strs rest hr
  exact ⟨_, h2⟩

theorem matchAll_good (input : Str) (xs : List Str) (pos : Nat) (hb : isBoundary input pos = true) :
    PosGood input pos (matchAll input xs pos) := by
  induction xs generalizing pos with
  | nil =>
    intro b pos' h
    simp [matchAll] at h; obtain ⟨-, rfl⟩ := h
    exact ⟨Nat.le_refl _, hb⟩
  | cons x xs ih =>
    intro b pos' h
    unfold matchAll at h
    split at h
    · simp at h
    · rename_i p1 hm
      have := posMatchString_good input pos x _ _ hm
      have := ih p1 this.2 b pos' h
      exact ⟨by omega, this.2⟩
    · simp at h; obtain ⟨-, rfl⟩ := h
      exact ⟨Nat.le_refl _, hb⟩

theorem matchAll_isSome (input : Str) (xs : List Str) (pos : Nat) (hb : isBoundary input pos = true) :
    ∃ r, matchAll input xs pos = some r := by
  induction xs generalizing pos with
  | nil => exact ⟨_, rfl⟩
  | cons x xs ih =>
    obtain ⟨⟨b, p1⟩, hm⟩ := posMatchString_isSome x hb
    unfold matchAll
    rw [hm]
    cases b with
    | true => exact ih p1 (posMatchString_good input pos x _ _ hm).2
    | false => exact ⟨_, rfl⟩

end PestModel.PS
