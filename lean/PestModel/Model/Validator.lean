import PestModel.Model.Grammar
import PestModel.Gen.UnicodeTables
/-
L7 (validator) — `pest_meta::validator::validate_ast`: `is_non_progressing`, `is_non_failing`,
`validate_repetition`, `validate_choices`, `validate_whitespace_comment`, `left_recursion`
(after the fix of `check_expr`), on the abstract rules (`ParserExpr` carries the same structure
plus spans, which do not influence any decision).
-/
namespace PestModel.V
open PestModel.G

def lookup (rules : List Rule) (n : String) : Option Expr := (rules.find? (·.name = n)).map (·.expr)

/-- `is_non_progressing` (fuel bounds the inlining of rule references; `trace` = rules being inlined). -/
def isNonProgressing (rules : List Rule) : Nat → Expr → List String → Bool
  | 0, _, _ => false
  | fuel + 1, e, trace =>
    match e with
    | .str s | .insens s => s.isEmpty
    | .ident id =>
      if id = "SOI" ∨ id = "EOI" then true
      else if !trace.contains id then
        match lookup rules id with
        | some body => isNonProgressing rules fuel body (trace ++ [id])
        | none => false
      else false
    | .seq a b => isNonProgressing rules fuel a trace && isNonProgressing rules fuel b trace
    | .choice a b => isNonProgressing rules fuel a trace || isNonProgressing rules fuel b trace
    | .posPred _ | .negPred _ => true
    | .rep _ | .opt _ | .repMax _ _ => true
    | .range _ _ => false
    | .peekSlice _ _ => false
    | .repExact inner n | .repMin inner n | .repMinMax inner n _ => n == 0 || isNonProgressing rules fuel inner trace
    | .push inner => isNonProgressing rules fuel inner trace
    | .pushLiteral _ => true
    | .repOnce inner => isNonProgressing rules fuel inner trace
    | .nodeTag inner _ => isNonProgressing rules fuel inner trace
    | .skip _ => true

/-- `is_non_failing`. -/
def isNonFailing (rules : List Rule) : Nat → Expr → List String → Bool
  | 0, _, _ => false
  | fuel + 1, e, trace =>
    match e with
    | .str s | .insens s => s.isEmpty
    | .ident id =>
      if !trace.contains id then
        match lookup rules id with
        | some body => isNonFailing rules fuel body (trace ++ [id])
        | none => false
      else false
    | .opt _ | .rep _ | .repMax _ _ => true
    | .seq a b => isNonFailing rules fuel a trace && isNonFailing rules fuel b trace
    | .choice a b => isNonFailing rules fuel a trace || isNonFailing rules fuel b trace
    | .range _ _ => false
    | .peekSlice _ _ => false
    | .repExact inner n | .repMin inner n | .repMinMax inner n _ => n == 0 || isNonFailing rules fuel inner trace
    | .negPred _ => false
    | .repOnce inner => isNonFailing rules fuel inner trace
    | .push inner | .posPred inner => isNonFailing rules fuel inner trace
    | .pushLiteral _ => true
    | .nodeTag inner _ => isNonFailing rules fuel inner trace
    | .skip _ => true

def fuelFor (rules : List Rule) (e : Expr) : Nat := rulesSize rules + e.size + 2

inductive Err where
  | repCannotFail (rule : String)
  | repNonProgressing (rule : String)
  | choiceUnreachable (rule : String)
  | wsCannotFail (name : String)
  | wsNonProgressing (name : String)
  | leftRecursive (rule : String)
  | tagSilent
  | tagBuiltin
  deriving Repr, DecidableEq

/-- all sub-expressions, top-down (`filter_map_top_down`, which after the fix also descends into
tagged expressions with grammar-extras). -/
def subExprs (extras : Bool) : Expr → List Expr
  | .posPred e => .posPred e :: subExprs extras e
  | .negPred e => .negPred e :: subExprs extras e
  | .seq a b => .seq a b :: (subExprs extras a ++ subExprs extras b)
  | .choice a b => .choice a b :: (subExprs extras a ++ subExprs extras b)
  | .rep e => .rep e :: subExprs extras e
  | .repOnce e => .repOnce e :: subExprs extras e
  | .repExact e n => .repExact e n :: subExprs extras e
  | .repMin e n => .repMin e n :: subExprs extras e
  | .repMax e n => .repMax e n :: subExprs extras e
  | .repMinMax e m n => .repMinMax e m n :: subExprs extras e
  | .opt e => .opt e :: subExprs extras e
  | .push e => .push e :: subExprs extras e
  | .nodeTag e t => .nodeTag e t :: (if extras then subExprs extras e else [])
  | e => [e]

def validateRepetition (extras : Bool) (rules : List Rule) : List Err :=
  rules.flatMap fun r => (subExprs extras r.expr).filterMap fun e =>
    match e with
    | .rep inner | .repOnce inner | .repMin inner _ =>
      if isNonFailing rules (fuelFor rules inner) inner [] then some (.repCannotFail r.name)
      else if isNonProgressing rules (fuelFor rules inner) inner [] then some (.repNonProgressing r.name)
      else none
    | _ => none

def validateChoices (extras : Bool) (rules : List Rule) : List Err :=
  rules.flatMap fun r => (subExprs extras r.expr).filterMap fun e =>
    match e with
    | .choice lhs _ =>
      let node := match lhs with | .choice _ rhs => rhs | _ => lhs
      if isNonFailing rules (fuelFor rules node) node [] then some (.choiceUnreachable r.name) else none
    | _ => none

def validateWsComment (rules : List Rule) : List Err :=
  rules.filterMap fun r =>
    if r.name = "WHITESPACE" ∨ r.name = "COMMENT" then
      if isNonFailing rules (fuelFor rules r.expr) r.expr [] then some (.wsCannotFail r.name)
      else if isNonProgressing rules (fuelFor rules r.expr) r.expr [] then some (.wsNonProgressing r.name)
      else none
    else none

/-- `left_recursion::check_expr`; `trace` is the chain of rules entered, its head the rule under test. -/
def checkExpr (extras : Bool) (rules : List Rule) : Nat → Expr → List String → Bool
  | 0, _, _ => false
  | fuel + 1, e, trace =>
    match e with
    | .ident other =>
      if trace.head? = some other then true
      else if !trace.contains other then
        match lookup rules other with
        | some body => checkExpr extras rules fuel body (trace ++ [other])
        | none => false
      else false
    | .seq lhs rhs =>
      let last := trace.getLast?.toList
      if isNonFailing rules (fuelFor rules lhs) lhs last || isNonProgressing rules (fuelFor rules lhs) lhs last then
        checkExpr extras rules fuel lhs trace || checkExpr extras rules fuel rhs trace
      else checkExpr extras rules fuel lhs trace
    | .choice lhs rhs => checkExpr extras rules fuel lhs trace || checkExpr extras rules fuel rhs trace
    | .rep e | .repOnce e | .opt e | .posPred e | .negPred e | .push e => checkExpr extras rules fuel e trace
    | .repExact e _ | .repMin e _ | .repMax e _ | .repMinMax e _ _ => checkExpr extras rules fuel e trace
    | .nodeTag e _ => if extras then checkExpr extras rules fuel e trace else false
    | _ => false

def leftRecursion (extras : Bool) (rules : List Rule) : List Err :=
  rules.filterMap fun r =>
    if checkExpr extras rules (rulesSize rules + r.expr.size + 2) r.expr [r.name] then some (.leftRecursive r.name) else none

/-- the validator's `BUILTINS`. -/
def isBuiltin (n : String) : Bool :=
  PestModel.Gen.Unicode.builtinsExplicit.contains n ||
  (PestModel.Gen.Unicode.builtinsChainUnicode &&
    (PestModel.Gen.Unicode.advertised_binary.contains n || PestModel.Gen.Unicode.advertised_category.contains n ||
      PestModel.Gen.Unicode.advertised_script.contains n))

/-- `check_silent_builtin` (grammar-extras). -/
def checkSilentBuiltin (rules : List Rule) : Expr → Option Err
  | .ident n =>
    match rules.find? (·.name = n) with
    | some r => if r.ty = .silent then some .tagSilent else if isBuiltin n then some .tagBuiltin else none
    | none => if isBuiltin n then some .tagBuiltin else none
  | .rep e | .repMinMax e _ _ | .repMax e _ | .repMin e _ | .repOnce e | .repExact e _ | .opt e | .push e
  | .posPred e | .negPred e => checkSilentBuiltin rules e
  | _ => none

/-- `validate_tag_silent_rules` (grammar-extras only). -/
def validateTags (extras : Bool) (rules : List Rule) : List Err :=
  if !extras then [] else
  rules.flatMap fun r => (subExprs extras r.expr).filterMap fun e =>
    match e with
    | .nodeTag inner _ => checkSilentBuiltin rules inner
    | _ => none

/-- `validate_ast` (as a set of findings; the real function sorts them by span). -/
def validateAst (extras : Bool) (rules : List Rule) : List Err :=
  validateRepetition extras rules ++ validateChoices extras rules ++ validateWsComment rules ++ leftRecursion extras rules ++
    validateTags extras rules

end PestModel.V
