import PestModel.Lemmas.RefAll
import PestModel.Lemmas.RefValid
/-! C06 helper lemmas, part 1: positions only move forward, and a position that moved is a
character boundary of the input (so it is at most the input length). -/
namespace PestModel.Ref
open PestModel.G
open PestModel.LineCol (Str bLen cLen splitAt?)
open PestModel.Views (Tree)
open PestModel.PS (Atomicity CharSet restAt asciiLower eqIgnoreAsciiCase normalizeIndex restAt_iff)

/-- `s'` is at the same position as `s`, or strictly later and on a boundary. -/
def Fwd (c : Ctx) (s s' : St) : Prop := s'.pos = s.pos ∨ (s.pos < s'.pos ∧ Valid c s')

theorem Fwd.refl (c : Ctx) (s : St) : Fwd c s s := Or.inl rfl

theorem Fwd.of_pos_eq {c : Ctx} {s s' : St} (h : s'.pos = s.pos) : Fwd c s s' := Or.inl h

theorem Fwd.of_le {c : Ctx} {s s' : St} (h : s.pos ≤ s'.pos) (hv : Valid c s') : Fwd c s s' := by
  rcases Nat.eq_or_lt_of_le h with h | h
  · exact Or.inl h.symm
  · exact Or.inr ⟨h, hv⟩

theorem Fwd.trans {c : Ctx} {s s1 s2 : St} (h1 : Fwd c s s1) (h2 : Fwd c s1 s2) : Fwd c s s2 := by
  rcases h1 with h1 | ⟨h1, v1⟩
  · rcases h2 with h2 | ⟨h2, v2⟩
    · exact Or.inl (h2.trans h1)
    · exact Or.inr ⟨by omega, v2⟩
  · rcases h2 with h2 | ⟨h2, v2⟩
    · exact Or.inr ⟨by omega, valid_of_pos v1 h2⟩
    · exact Or.inr ⟨by omega, v2⟩

theorem Fwd.le {c : Ctx} {s s' : St} (h : Fwd c s s') : s.pos ≤ s'.pos := by
  rcases h with h | ⟨h, _⟩ <;> omega

theorem Fwd.congr_pos {c : Ctx} {s s' s'' : St} (h : Fwd c s s') (hp : s''.pos = s'.pos) : Fwd c s s'' :=
  Fwd.trans h (Or.inl hp)

theorem valid_le {c : Ctx} {s : St} (h : Valid c s) : s.pos ≤ bLen c.input := by
  unfold Valid at h
  cases hr : restAt c.input s.pos with
  | none => simp [hr] at h
  | some rest =>
    obtain ⟨pre, h1, h2⟩ := (restAt_iff _ _ _).1 hr
    rw [h1, ← h2]; simp

/-- the termination measure: remaining input. -/
def mu (c : Ctx) (s : St) : Nat := bLen c.input - s.pos

theorem Fwd.mu_le {c : Ctx} {s s' : St} (h : Fwd c s s') : mu c s' ≤ mu c s := by
  have := h.le; unfold mu; omega

theorem Fwd.mu_lt {c : Ctx} {s s' : St} (h : Fwd c s s') (hne : s.pos < s'.pos) : mu c s' < mu c s := by
  rcases h with h | ⟨h, v⟩
  · omega
  · have := valid_le v; unfold mu; omega

/-! ### primitives -/

theorem lit_pos {c : Ctx} {s s1 : St} {str : Str} {f : List Tree} (h : lit c s str = .ok s1 f) :
    s1.pos = s.pos + bLen str := by
  unfold lit at h
  split at h
  · split at h
    · simp only [Res.ok.injEq] at h; rw [← h.1]
    · simp at h
  · simp at h

theorem lit_fwd {c : Ctx} {s s1 : St} {str : Str} {f : List Tree} (h : lit c s str = .ok s1 f) : Fwd c s s1 :=
  Fwd.of_le (by rw [lit_pos h]; omega) (lit_valid h)

theorem insensM_pos {c : Ctx} {s s1 : St} {str : Str} {f : List Tree} (h : insensM c s str = .ok s1 f) :
    s1.pos = s.pos + bLen str := by
  unfold insensM at h
  split at h
  · split at h
    · split at h
      · simp only [Res.ok.injEq] at h; rw [← h.1]
      · simp at h
    · simp at h
  · simp at h

theorem insensM_fwd {c : Ctx} {s s1 : St} {str : Str} {f : List Tree} (h : insensM c s str = .ok s1 f) : Fwd c s s1 :=
  Fwd.of_le (by rw [insensM_pos h]; omega) (insensM_valid h)

theorem oneChar_pos_lt {c : Ctx} {s s1 : St} {p : Char → Bool} {f : List Tree} (h : oneChar c s p = .ok s1 f) :
    s.pos < s1.pos := by
  unfold oneChar at h
  split at h
  · rename_i ch t hr
    split at h
    · simp only [Res.ok.injEq] at h
      rw [← h.1]
      have := PestModel.LineCol.cLen_pos ch
      simp only; omega
    · simp at h
  · simp at h

theorem oneChar_fwd {c : Ctx} {s s1 : St} {p : Char → Bool} {f : List Tree} (h : oneChar c s p = .ok s1 f) : Fwd c s s1 :=
  Fwd.of_le (Nat.le_of_lt (oneChar_pos_lt h)) (oneChar_valid h)

theorem matchStrs_le {input : Str} {xs : List Str} {pos p : Nat} (h : matchStrs input xs pos = some p) : pos ≤ p := by
  induction xs generalizing pos with
  | nil => simp only [matchStrs, Option.some.injEq] at h; omega
  | cons x xs ih =>
    simp only [matchStrs] at h
    split at h
    · split at h
      · have := ih h; omega
      · simp at h
    · simp at h

theorem matchStrs_fwd {c : Ctx} {s s' : St} {xs : List Str} {p : Nat}
    (h : matchStrs c.input xs s.pos = some p) (hp : s'.pos = p) : Fwd c s s' := by
  cases xs with
  | nil =>
    simp only [matchStrs, Option.some.injEq] at h
    exact Or.inl (by omega)
  | cons x xs =>
    have hle := matchStrs_le h
    have hv : (restAt c.input s.pos).isSome = true := by
      simp only [matchStrs] at h
      split at h
      · rename_i rest hr; simp [hr]
      · simp at h
    have := matchStrs_valid hv h
    exact Fwd.of_le (by omega) (by unfold Valid; rw [hp]; exact this)

theorem search_le (strs : List Str) (rest : Str) (off : Nat) : off ≤ search strs rest off := by
  obtain ⟨sk, r', _, h1, _, _⟩ := search_spec strs rest off
  omega

/-! ### the six functions -/

structure FwdFam (c : Ctx) (X : Fam) : Prop where
  d : ∀ m la e s s' f, X.d m la e s = .ok s' f → Fwd c s s'
  l : ∀ m la e s acc s' f, X.l m la e s acc = .ok s' f → Fwd c s s'
  k : ∀ m la s s' f, X.k m la s = .ok s' f → Fwd c s s'
  st : ∀ la nm s acc s' f, X.st la nm s acc = .ok s' f → Fwd c s s'
  cl : ∀ la s acc s' f, X.cl la s acc = .ok s' f → Fwd c s s'
  ca : ∀ m la nm s s' f, X.ca m la nm s = .ok s' f → Fwd c s s'

set_option hygiene false in
local macro "pc " t:term : tactic => `(tactic| (cases hx : $t <;> simp [hx] at h))

theorem denoteF_fwd {c : Ctx} {X : Fam} (hX : FwdFam c X) m la e s s' f
    (h : denoteF c X m la e s = .ok s' f) : Fwd c s s' := by
  cases e <;> simp only [denoteF] at h
  case str str => exact lit_fwd h
  case insens str => exact insensM_fwd (c := c) (s := s) (str := str) h
  case range a b => exact oneChar_fwd h
  case ident n => exact hX.ca _ _ _ _ _ _ h
  case peekSlice a b =>
    split at h
    · split at h
      · simp at h; rw [← h.1]; exact Fwd.refl _ _
      · split at h
        · rename_i p hp
          simp at h
          exact matchStrs_fwd hp (by rw [← h.1])
        · simp at h
    · simp at h
  case posPred e =>
    pc X.d m true e s
    rw [← h.1]; exact Fwd.refl _ _
  case negPred e =>
    pc X.d m true e s
    rw [← h.1]; exact Fwd.refl _ _
  case seq a b =>
    pc X.d m la a s
    rename_i s1 f1
    have v1 := hX.d _ _ _ _ _ _ hx
    clear hx
    pc X.k m la s1
    rename_i s2 f2
    have v2 := hX.k _ _ _ _ _ hx
    clear hx
    pc X.d m la b s2
    rw [← h.1]
    exact (v1.trans v2).trans (hX.d _ _ _ _ _ _ hx)
  case choice a b =>
    pc X.d m la a s
    · rw [← h.1]; exact hX.d _ _ _ _ _ _ hx
    · exact hX.d _ _ _ _ _ _ h
  case opt e =>
    pc X.d m la e s
    · rw [← h.1]; exact hX.d _ _ _ _ _ _ hx
    · rw [← h.1]; exact Fwd.refl _ _
  case rep e =>
    pc X.d m la e s
    · exact (hX.d _ _ _ _ _ _ hx).trans (hX.l _ _ _ _ _ _ _ h)
    · rw [← h.1]; exact Fwd.refl _ _
  case repOnce e =>
    split at h
    · pc X.d m la e s
      exact (hX.d _ _ _ _ _ _ hx).trans (hX.l _ _ _ _ _ _ _ h)
    · exact hX.d _ _ _ _ _ _ h
  case skip strs =>
    split at h
    · rename_i rest hr
      simp at h
      exact Fwd.of_le (by rw [← h.1]; exact search_le _ _ _)
        (by unfold Valid; rw [← h.1]; exact search_valid strs hr)
    · simp at h
  case push e =>
    pc X.d m la e s
    rename_i s1 f1
    split at h
    · simp at h
      exact (hX.d _ _ _ _ _ _ hx).congr_pos (by rw [← h.1])
    · simp at h
  case pushLiteral str =>
    simp at h
    exact Fwd.of_pos_eq (by rw [← h.1])
  case nodeTag e t =>
    pc X.d m la e s
    rw [← h.1]; exact hX.d _ _ _ _ _ _ hx
  all_goals (split at h <;> first | exact hX.d _ _ _ _ _ _ h | simp at h)

theorem repLoopF_fwd {c : Ctx} {X : Fam} (hX : FwdFam c X) m la e s acc s' f
    (h : repLoopF X m la e s acc = .ok s' f) : Fwd c s s' := by
  simp only [repLoopF] at h
  pc X.k m la s
  · rename_i s1 f1
    have v1 := hX.k _ _ _ _ _ hx
    clear hx
    pc X.d m la e s1
    · exact (v1.trans (hX.d _ _ _ _ _ _ hx)).trans (hX.l _ _ _ _ _ _ _ h)
    · rw [← h.1]; exact Fwd.refl _ _
  · rw [← h.1]; exact Fwd.refl _ _

theorem skipWsF_fwd {c : Ctx} {X : Fam} (hX : FwdFam c X) m la s s' f
    (h : skipWsF c X m la s = .ok s' f) : Fwd c s s' := by
  simp only [skipWsF] at h
  split at h
  · simp at h; rw [← h.1]; exact Fwd.refl _ _
  · split at h
    · simp at h; rw [← h.1]; exact Fwd.refl _ _
    · exact hX.st _ _ _ _ _ _ h
    · exact hX.st _ _ _ _ _ _ h
    · pc X.st la "WHITESPACE" s []
      exact (hX.st _ _ _ _ _ _ hx).trans (hX.cl _ _ _ _ _ h)

theorem starF_fwd {c : Ctx} {X : Fam} (hX : FwdFam c X) la nm s acc s' f
    (h : starF X la nm s acc = .ok s' f) : Fwd c s s' := by
  simp only [starF] at h
  pc X.ca .nonAtomic la nm s
  · exact (hX.ca _ _ _ _ _ _ hx).trans (hX.st _ _ _ _ _ _ h)
  · rw [← h.1]; exact Fwd.refl _ _

theorem commentLoopF_fwd {c : Ctx} {X : Fam} (hX : FwdFam c X) la s acc s' f
    (h : commentLoopF X la s acc = .ok s' f) : Fwd c s s' := by
  simp only [commentLoopF] at h
  pc X.ca .nonAtomic la "COMMENT" s
  · rename_i s1 f1
    have v1 := hX.ca _ _ _ _ _ _ hx
    clear hx
    pc X.st la "WHITESPACE" s1 []
    exact (v1.trans (hX.st _ _ _ _ _ _ hx)).trans (hX.cl _ _ _ _ _ h)
  · rw [← h.1]; exact Fwd.refl _ _

theorem builtin_fwd {c : Ctx} m la nm s s' f
    (h : builtin c m la nm s = .ok s' f) : Fwd c s s' := by
  unfold builtin at h
  simp only [] at h
  split at h
  all_goals try (exact oneChar_fwd h)
  · split at h <;> simp at h
    rw [← h.1]; exact Fwd.refl _ _
  · split at h <;> simp at h
    rw [← h.1]; exact Fwd.refl _ _
  · split at h
    · simp at h
    · exact lit_fwd h
  · split at h
    · simp at h
    · rename_i top rest _
      pc lit c s top
      exact (lit_fwd hx).congr_pos (by rw [← h.1])
  · split at h
    · rename_i p hp
      simp at h
      exact matchStrs_fwd hp (by rw [← h.1])
    · simp at h
  · split at h
    · rename_i p hp
      simp at h
      exact matchStrs_fwd hp (by rw [← h.1])
    · simp at h
  · split at h
    · simp at h
    · simp at h
      exact Fwd.of_pos_eq (by rw [← h.1])
  · pc lit c s ['\n']
    · rw [← h.1]; exact lit_fwd hx
    · clear hx
      pc lit c s ['\r', '\n']
      · rw [← h.1]; exact lit_fwd hx
      · exact lit_fwd h
  · split at h
    · exact oneChar_fwd h
    · simp at h

theorem callF_fwd {c : Ctx} {X : Fam} (hX : FwdFam c X) m la nm s s' f
    (h : callF c X m la nm s = .ok s' f) : Fwd c s s' := by
  simp only [callF] at h
  split at h
  · rename_i id r _
    pc X.d (bodyMode r.name r.ty m) la r.expr s
    have := hX.d _ _ _ _ _ _ hx
    split at h <;> simp at h <;> (rw [← h.1]; exact this)
  · exact builtin_fwd m la nm s s' f h

theorem step_fwd {c : Ctx} {X : Fam} (hX : FwdFam c X) : FwdFam c (step c X) :=
  ⟨denoteF_fwd hX, repLoopF_fwd hX, skipWsF_fwd hX, starF_fwd hX, commentLoopF_fwd hX, callF_fwd hX⟩

theorem lev_fwd (c : Ctx) (n : Nat) : FwdFam c (lev c n) := by
  induction n with
  | zero =>
    constructor <;> intros
    · rename_i h; rw [lev_zero_d] at h; cases h
    · rename_i h; rw [lev_zero_l] at h; cases h
    · rename_i h; rw [lev_zero_k] at h; cases h
    · rename_i h; rw [lev_zero_st] at h; cases h
    · rename_i h; rw [lev_zero_cl] at h; cases h
    · rename_i h; rw [lev_zero_ca] at h; cases h
  | succ n ih => rw [lev_succ]; exact step_fwd ih

/-- the limit semantics moves forward. -/
theorem V_fwd (c : Ctx) : FwdFam c (V c) := by
  have hc := lev_conv c
  constructor
  · intro m la e s s' f h
    obtain ⟨N, hN⟩ := hc.d m la e s
    exact (lev_fwd c N).d m la e s s' f ((hN N (Nat.le_refl _)).trans h)
  · intro m la e s acc s' f h
    obtain ⟨N, hN⟩ := hc.l m la e s acc
    exact (lev_fwd c N).l m la e s acc s' f ((hN N (Nat.le_refl _)).trans h)
  · intro m la s s' f h
    obtain ⟨N, hN⟩ := hc.k m la s
    exact (lev_fwd c N).k m la s s' f ((hN N (Nat.le_refl _)).trans h)
  · intro la nm s acc s' f h
    obtain ⟨N, hN⟩ := hc.st la nm s acc
    exact (lev_fwd c N).st la nm s acc s' f ((hN N (Nat.le_refl _)).trans h)
  · intro la s acc s' f h
    obtain ⟨N, hN⟩ := hc.cl la s acc
    exact (lev_fwd c N).cl la s acc s' f ((hN N (Nat.le_refl _)).trans h)
  · intro m la nm s s' f h
    obtain ⟨N, hN⟩ := hc.ca m la nm s
    exact (lev_fwd c N).ca m la nm s s' f ((hN N (Nat.le_refl _)).trans h)

theorem val_fwd {c : Ctx} {m la e s s' f} (h : val c m la e s = .ok s' f) : Fwd c s s' := (V_fwd c).d _ _ _ _ _ _ h
theorem valL_fwd {c : Ctx} {m la e s acc s' f} (h : valL c m la e s acc = .ok s' f) : Fwd c s s' := (V_fwd c).l _ _ _ _ _ _ _ h
theorem valK_fwd {c : Ctx} {m la s s' f} (h : valK c m la s = .ok s' f) : Fwd c s s' := (V_fwd c).k _ _ _ _ _ h
theorem valSt_fwd {c : Ctx} {la nm s acc s' f} (h : valSt c la nm s acc = .ok s' f) : Fwd c s s' := (V_fwd c).st _ _ _ _ _ _ h
theorem valCl_fwd {c : Ctx} {la s acc s' f} (h : valCl c la s acc = .ok s' f) : Fwd c s s' := (V_fwd c).cl _ _ _ _ _ h
theorem valCa_fwd {c : Ctx} {m la nm s s' f} (h : valCa c m la nm s = .ok s' f) : Fwd c s s' := (V_fwd c).ca _ _ _ _ _ _ h

end PestModel.Ref
