import PestModel.Lemmas.VmRefMono
import PestModel.Lemmas.VmRefComb
/-! C01 (termination), part 2: termination combinators. `Term cfg p st`: the run of `p` from `st`
reaches a definite outcome with enough fuel. `TermS … p m la Dn`: it does so from every state related
to a reference state on which the reference function `Dn` (at some fuel level) is definite. -/
namespace PestModel.VmRef
open PestModel.G PestModel.PS PestModel.Lower PestModel.Ref PestModel.Views
open PestModel.LineCol (Str isBoundary bLen cLen splitAt? slice?)

def Term (cfg : Cfg) (p : Prog) (st : PState) : Prop := ∃ F, run cfg F p st ≠ .fuel

def TermS (cfg : Cfg) (input : Str) (p : Prog) (m : Atomicity) (la : Bool) (Dn : St → Res) : Prop :=
  ∀ st σ, Sim input m la st σ → Dn σ ≠ .fuel → Term cfg p st

variable {cfg : Cfg} {input : Str}

/-! ### `Term` -/

theorem term_andThen {p q : Prog} {st : PState} (h1 : Term cfg p st)
    (h2 : ∀ F st1, run cfg F p st = .ok st1 → Term cfg q st1) : Term cfg (.andThen p q) st := by
  obtain ⟨F1, hF1⟩ := h1
  cases hr : run cfg F1 p st with
  | ok st1 =>
    obtain ⟨F2, hF2⟩ := h2 F1 st1 hr
    refine ⟨max F1 F2 + 1, ?_⟩
    rw [run_andThen, run_mono hF1 (Nat.le_max_left _ _), hr]
    dsimp only
    rw [run_mono hF2 (Nat.le_max_right _ _)]
    exact hF2
  | err st1 => exact ⟨F1 + 1, by rw [run_andThen, hr]; simp⟩
  | panic => exact ⟨F1 + 1, by rw [run_andThen, hr]; simp⟩
  | fuel => exact absurd hr hF1

theorem term_orElse {p q : Prog} {st : PState} (h1 : Term cfg p st)
    (h2 : ∀ F st1, run cfg F p st = .err st1 → Term cfg q st1) : Term cfg (.orElse p q) st := by
  obtain ⟨F1, hF1⟩ := h1
  cases hr : run cfg F1 p st with
  | err st1 =>
    obtain ⟨F2, hF2⟩ := h2 F1 st1 hr
    refine ⟨max F1 F2 + 1, ?_⟩
    rw [run_orElse, run_mono hF1 (Nat.le_max_left _ _), hr]
    dsimp only
    rw [run_mono hF2 (Nat.le_max_right _ _)]
    exact hF2
  | ok st1 => exact ⟨F1 + 1, by rw [run_orElse, hr]; simp⟩
  | panic => exact ⟨F1 + 1, by rw [run_orElse, hr]; simp⟩
  | fuel => exact absurd hr hF1

theorem term_repLoop {p : Prog} {st : PState} (h1 : Term cfg p st)
    (h2 : ∀ F st1, run cfg F p st = .ok st1 → Term cfg (.repLoop p) st1) : Term cfg (.repLoop p) st := by
  obtain ⟨F1, hF1⟩ := h1
  cases hr : run cfg F1 p st with
  | ok st1 =>
    obtain ⟨F2, hF2⟩ := h2 F1 st1 hr
    refine ⟨max F1 F2 + 1, ?_⟩
    rw [run_repLoop, run_mono hF1 (Nat.le_max_left _ _), hr]
    dsimp only
    rw [run_mono hF2 (Nat.le_max_right _ _)]
    exact hF2
  | err st1 => exact ⟨F1 + 1, by rw [run_repLoop, hr]; simp⟩
  | panic => exact ⟨F1 + 1, by rw [run_repLoop, hr]; simp⟩
  | fuel => exact absurd hr hF1

theorem term_call {i : Nat} {st : PState} (h : ∀ p, cfg.env[i]? = some p → Term cfg p st) :
    Term cfg (.call i) st := by
  cases hi : cfg.env[i]? with
  | none => exact ⟨1, by rw [run_call, hi]; simp⟩
  | some p =>
    obtain ⟨F, hF⟩ := h p hi
    exact ⟨F + 1, by rw [run_call, hi]; exact hF⟩

theorem term_sequence {p : Prog} {st : PState} (hi : incCall st = some st)
    (h : Term cfg p (checkpoint st)) : Term cfg (.sequence p) st := by
  obtain ⟨F, hF⟩ := h
  refine ⟨F + 1, ?_⟩
  rw [run_sequence, hi]; dsimp only
  cases hr : run cfg F p (checkpoint st) with
  | ok ns => dsimp only; split <;> simp
  | err ns => dsimp only; split <;> simp
  | panic => simp
  | fuel => exact absurd hr hF

theorem term_restoreOnErr {p : Prog} {st : PState} (h : Term cfg p (checkpoint st)) :
    Term cfg (.restoreOnErr p) st := by
  obtain ⟨F, hF⟩ := h
  refine ⟨F + 1, ?_⟩
  rw [run_restoreOnErr]
  cases hr : run cfg F p (checkpoint st) with
  | ok ns => dsimp only; split <;> simp
  | err ns => dsimp only; split <;> simp
  | panic => simp
  | fuel => exact absurd hr hF

theorem term_optional {p : Prog} {st : PState} (hi : incCall st = some st) (h : Term cfg p st) :
    Term cfg (.optional p) st := by
  obtain ⟨F, hF⟩ := h
  refine ⟨F + 1, ?_⟩
  rw [run_optional, hi]; dsimp only
  cases hr : run cfg F p st with
  | fuel => exact absurd hr hF
  | _ => simp

theorem term_repeat {p : Prog} {st : PState} (hi : incCall st = some st) (h : Term cfg (.repLoop p) st) :
    Term cfg (.repeat_ p) st := by
  obtain ⟨F, hF⟩ := h
  exact ⟨F + 1, by rw [run_repeat, hi]; exact hF⟩

theorem term_lookahead {b : Bool} {p : Prog} {st : PState} (hi : incCall st = some st)
    (h : Term cfg p (checkpoint { st with lookahead := laMode b st.lookahead })) :
    Term cfg (.lookahead b p) st := by
  obtain ⟨F, hF⟩ := h
  refine ⟨F + 1, ?_⟩
  rw [run_lookahead, hi]; dsimp only
  cases hr : run cfg F p (checkpoint { st with lookahead := laMode b st.lookahead }) with
  | ok ns =>
    dsimp only
    cases laPost st ns with
    | none => simp
    | some x => dsimp only; split <;> simp
  | err ns =>
    dsimp only
    cases laPost st ns with
    | none => simp
    | some x => dsimp only; split <;> simp
  | panic => simp
  | fuel => exact absurd hr hF

theorem term_atomic {a : Atomicity} {p : Prog} {st : PState} (hi : incCall st = some st)
    (h : Term cfg p (atomPre a st)) : Term cfg (.atomic a p) st := by
  obtain ⟨F, hF⟩ := h
  refine ⟨F + 1, ?_⟩
  rw [run_atomic, hi]; dsimp only
  cases hr : run cfg F p (atomPre a st) with
  | fuel => exact absurd hr hF
  | _ => simp

theorem ruleOkPost_ne_fuel (s1 : PState) (r : Nat) (ns : PState) : ruleOkPost s1 r ns ≠ .fuel := by
  unfold ruleOkPost
  split
  · simp
  · unfold ruleFinish
    split
    · split <;> simp
    · simp

theorem ruleErrPost_ne_fuel (s1 : PState) (r : Nat) (ns : PState) : ruleErrPost s1 r ns ≠ .fuel := by
  unfold ruleErrPost
  split <;> simp

theorem term_rule {r : Nat} {p : Prog} {st : PState} (hi : incCall st = some st)
    (h : Term cfg p (rulePre st)) : Term cfg (.rule r p) st := by
  obtain ⟨F, hF⟩ := h
  refine ⟨F + 1, ?_⟩
  rw [run_rule, hi]; dsimp only
  cases hr : run cfg F p (rulePre st) with
  | ok ns => exact ruleOkPost_ne_fuel _ _ _
  | err ns => exact ruleErrPost_ne_fuel _ _ _
  | panic => simp
  | fuel => exact absurd hr hF

theorem term_stackPush {p : Prog} {st : PState} (hi : incCall st = some st) (h : Term cfg p st) :
    Term cfg (.stackPush p) st := by
  obtain ⟨F, hF⟩ := h
  refine ⟨F + 1, ?_⟩
  rw [run_stackPush, hi]; dsimp only
  cases hr : run cfg F p st with
  | ok ns => dsimp only; unfold pushSpan; split <;> simp
  | err ns => simp
  | panic => simp
  | fuel => exact absurd hr hF

/-! ### `TermS` -/

variable {m : Atomicity} {la : Bool}

theorem tS_andThen {p q : Prog} {D1n D1 D2n : St → Res} {E1}
    (t1 : TermS cfg input p m la D1n) (s1 : ∀ k, Spec cfg input k p m la D1 E1)
    (a1 : ∀ σ, D1n σ ≠ .fuel → D1n σ = D1 σ) (t2 : TermS cfg input q m la D2n) :
    TermS cfg input (.andThen p q) m la (seqD D1n D2n) := by
  intro st σ hs hd
  have h1 : D1n σ ≠ .fuel := by
    intro h; apply hd; simp [seqD, h]
  refine term_andThen (t1 st σ hs h1) fun F st1 hr => ?_
  obtain ⟨σ1, f1, hD, hp, hk, -⟩ := (s1 F).ok hs hr
  have hs1 := hs.next_ok hr hp hk
  refine t2 st1 σ1 hs1 fun h => ?_
  apply hd
  simp [seqD, a1 σ h1, hD, h]

theorem tS_orElse {p q : Prog} {D1n D1 D2n : St → Res}
    (t1 : TermS cfg input p m la D1n) (s1 : ∀ k, Spec cfg input k p m la D1 (Rest True))
    (a1 : ∀ σ, D1n σ ≠ .fuel → D1n σ = D1 σ) (t2 : TermS cfg input q m la D2n) :
    TermS cfg input (.orElse p q) m la (altD D1n D2n) := by
  intro st σ hs hd
  have h1 : D1n σ ≠ .fuel := by
    intro h; apply hd; simp [altD, h]
  refine term_orElse (t1 st σ hs h1) fun F st1 hr => ?_
  obtain ⟨hD, hR⟩ := (s1 F).err hs hr
  have hs1 := hs.next_err hr hR
  refine t2 st1 σ hs1 fun h => ?_
  apply hd
  simp [altD, a1 σ h1, hD, h]

theorem tS_sequence {p : Prog} {Dn : St → Res} (t : TermS cfg input p m la Dn) :
    TermS cfg input (.sequence p) m la Dn :=
  fun _ σ hs hd => term_sequence hs.incCall (t _ σ hs.checkpoint hd)

theorem tS_restoreOnErr {p : Prog} {Dn : St → Res} (t : TermS cfg input p m la Dn) :
    TermS cfg input (.restoreOnErr p) m la Dn :=
  fun _ σ hs hd => term_restoreOnErr (t _ σ hs.checkpoint hd)

theorem tS_optional {p : Prog} {Dn : St → Res} (t : TermS cfg input p m la Dn) :
    TermS cfg input (.optional p) m la (optD Dn) := by
  intro st σ hs hd
  refine term_optional hs.incCall (t st σ hs fun h => ?_)
  apply hd; simp [optD, h]

theorem tS_repeat {p : Prog} {Dn : St → Res} (t : TermS cfg input (.repLoop p) m la Dn) :
    TermS cfg input (.repeat_ p) m la Dn :=
  fun st σ hs hd => term_repeat hs.incCall (t st σ hs hd)

theorem tS_lookahead {p : Prog} {Dn : St → Res} (b : Bool) (t : TermS cfg input p m true Dn) :
    TermS cfg input (.lookahead b p) m la (if b then posD Dn else negD Dn) := by
  intro st σ hs hd
  have hs' : Sim input m true (checkpoint { st with lookahead := laMode b st.lookahead }) σ :=
    { hs with inv := (snapshot_spec st.stack hs.inv).1
              la := by simp [PS.checkpoint, laMode_ne_none] }
  refine term_lookahead hs.incCall (t _ σ hs' fun h => ?_)
  apply hd
  cases b <;> simp [posD, negD, h]

theorem tS_atomic {p : Prog} {Dn : St → Res} (a : Atomicity) (t : TermS cfg input p a la Dn) :
    TermS cfg input (.atomic a p) m la Dn :=
  fun _ σ hs hd => term_atomic hs.incCall (t _ σ (atomPre_sim hs) hd)

theorem tS_rule {p : Prog} {Dn : St → Res} (r : Nat) (emit : Bool) (t : TermS cfg input p m la Dn) :
    TermS cfg input (.rule r p) m la (ruleD r emit Dn) := by
  intro st σ hs hd
  refine term_rule hs.incCall (t _ σ (rulePre_sim hs) fun h => ?_)
  apply hd; simp [ruleD, h]

theorem tS_stackPush {p : Prog} {Dn : St → Res} (t : TermS cfg input p m la Dn) :
    TermS cfg input (.stackPush p) m la (pushD input Dn) := by
  intro st σ hs hd
  refine term_stackPush hs.incCall (t st σ hs fun h => ?_)
  apply hd; simp [pushD, h]

theorem tS_call {i : Nat} {p : Prog} {Dn : St → Res} (hi : cfg.env[i]? = some p)
    (t : TermS cfg input p m la Dn) : TermS cfg input (.call i) m la Dn := by
  intro st σ hs hd
  refine term_call fun q hq => ?_
  rw [hi] at hq
  cases hq
  exact t st σ hs hd

theorem tS_congr {p : Prog} {Dn Dn' : St → Res} (t : TermS cfg input p m la Dn)
    (h : ∀ σ, Dn' σ ≠ .fuel → Dn σ ≠ .fuel) : TermS cfg input p m la Dn' :=
  fun st σ hs hd => t st σ hs (h σ hd)

/-- any program that answers at fuel 1 (the leaves). -/
theorem tS_leaf {p : Prog} {Dn : St → Res} (h : ∀ st, run cfg 1 p st ≠ .fuel) :
    TermS cfg input p m la Dn := fun st _ _ _ => ⟨1, h st⟩

/-- one unfolding of a reference loop. -/
theorem tS_repLoop {p : Prog} {Un U : St → Res} {Ln : St → List Tree → Res} {E}
    (tu : TermS cfg input p m la Un) (su : ∀ k, Spec cfg input k p m la U E)
    (au : ∀ σ, Un σ ≠ .fuel → Un σ = U σ)
    (tl : TermS cfg input (.repLoop p) m la (fun σ => Ln σ []))
    (hacc : ∀ s acc, Ln s acc ≠ .fuel → Ln s [] ≠ .fuel) :
    TermS cfg input (.repLoop p) m la (fun σ =>
      match Un σ with
      | .ok s1 f1 => Ln s1 ([] ++ f1)
      | .fail => .ok σ []
      | r => r) := by
  intro st σ hs hd
  have h1 : Un σ ≠ .fuel := by
    intro h; apply hd; simp [h]
  refine term_repLoop (tu st σ hs h1) fun F st1 hr => ?_
  obtain ⟨σ1, f1, hD, hp, hk, -⟩ := (su F).ok hs hr
  have hs1 := hs.next_ok hr hp hk
  refine tl st1 σ1 hs1 (hacc σ1 ([] ++ f1) fun h => ?_)
  apply hd
  simp only [au σ h1, hD]
  exact h

end PestModel.VmRef
