"""C07 — the grammar reader reconstructs exactly the grammar that was written."""
from props.common import *

MODULE = ["PestModel.Thm.C07", "PestModel.Thm.C07Full", "PestModel.Thm.C07Pairs"]
DRV, MODE = "drv_read", "read"


def run(ctx):
    frag_done = False
    for fs in ("default", "extras"):
        # the generic flow writes the evidence; run it per feature set and keep the default one's evidence, merged below
        if fs == "default":
            cs = simple_property(
                ctx, MODULE, DRV, MODE,
                oracle_kind="an abstract grammar written in pest syntax (random legal spelling) does not read back as the same rules",
                corr_kind="correspondence `Q` (string-literal bodies through the real reader vs the Lean reader: reference denotation of the regenerated meta-grammar + unescape model)",
                rule="round trip: seeded random rule sets (every operator, bounded repetitions with leading-zero counts, PEEK slices incl. negative and omitted indices, PUSH, all five modifiers; with grammar-extras also PUSH_LITERAL and tags) printed with ONLY the parentheses precedence requires, random spacing / block and line comments / doc comments / optional leading `|`, and per-character random escape forms (plain, \\n-style, \\xHH, \\u{…} with 2-6 digits), 3-5 spellings each, read with pest_meta::parser::parse + consume_rules and compared with the abstract rules; literal bodies: 6000/40000 random concatenations of valid and invalid escape forms compared with the Lean reader; non-trivial = round trips",
                nontrivial_key="distinct_nontrivial",
                assumptions=[
                    "the reader's operator-precedence stage is C13's PrattParser with the table (| below ~, both left-associative): pratt_rebuilds is stated over PestModel.Pratt.parse",
                    "read_print for the whole reader (tokenisation of arbitrary spacing/comments by the meta-grammar) is covered by the round-trip sampling only: partial (DESIGN §6 C07)",
                ],
                leancheck=MODULE,
            )
        else:
            ok, out, bindir, _ = cargo_build(fs, [DRV])
            if not ok:
                ctx.violation({"obligation": f"harness does not build (features {fs})", "log": out[-2000:]}, no_input=True); continue
            c = correspond("gen-" + fs, os.path.join(bindir, DRV), ["gen", ctx.tier, str(ctx.seed)], MODE, os.path.join(ctx.rundir, "gen-" + fs))
            if c.error:
                ctx.violation({"correspondence": c.name, "error": c.error}, no_input=True)
            elif c.oracle_fail:
                i, op, imp, verdict = min(c.oracle_fail, key=lambda t: (len(t[1]), t[1]))
                ctx.violation({"kind": "round trip fails (grammar-extras)", "features": fs, "case": op[:5000], "oracle": verdict[:3000]})
            elif c.mismatch:
                i, op, imp, mod = min(c.mismatch, key=lambda t: (len(t[1]), t[1]))
                ctx.violation({"kind": "correspondence `Q` no longer checks (grammar-extras)", "features": fs, "case": op, "impl": imp, "model": mod}, no_input=True)
            ev_path = os.path.join(EVIDENCE, f"{ctx.prop}.json")
            ev = json.load(open(ev_path))
            ev["coverage"]["distribution"]["gen-extras"] = {k: v for k, v in c.stats.items() if k != "samples"}
            ev["coverage"]["evaluations"] += c.n
            ev["violations"] = len(ctx.violations)
            json.dump(ev, open(ev_path, "w"), indent=1)


def replay(ctx, path):
    r = json.load(open(path))
    return replay_generic(ctx, path, DRV, MODE, featureset=("extras" if r.get("features") == "extras" else "default"))
