import PestModel.Model.ViewsSpec
import PestModel.Lemmas.Views
import PestModel.Lemmas.ViewsTagged
/-!
# C04 — … every Pairs view agrees with the one tree (part 1: views over a well-formed queue)

Property theorems only; helper lemmas in `PestModel/Lemmas/Views*.lean`.
`Encodes q a b trees` says the window `[a, b)` of the token queue is the encoding of `trees`;
`PairObs q i t` says the `Pair` at index `i` shows exactly the tree `t` (rule, span, tag, children).
-/
namespace PestModel.C04
open PestModel.Views PestModel.LineCol
open PestModel.PS (QTok)

/-- `PairsBuilder::build` produces the encoding of the forest it was given (`forest (build t) = t`). -/
theorem build_encodes (forest : List Tree) : Encodes (build forest) 0 (build forest).length forest := by
  exact encodes_iff.2 (build_layout forest)

/-- `pairs::new` counts exactly the top-level trees of the window (and does not panic). -/
theorem pairs_new (q : List QTok) (a b : Nat) (trees : List Tree) (h : Encodes q a b trees) :
    Pairs.new q a b = some ⟨a, b, trees.length⟩ := by
  exact pairs_new_of_layout (encodes_iff.1 h)

/-- An exhausted view: `next`, `next_back`, `peek` give nothing, `as_str` is empty. -/
theorem pairs_nil (q : List QTok) (input : Str) (v : Pairs) (h : PairsRep q v []) :
    v.next q = some (none, v) ∧ v.nextBack q = some (none, v) ∧ v.peek = none ∧ v.asStr q input = some [] := by
  have hl := encodes_iff.1 h.1
  have he : v.start = v.stop := hl.nil_eq
  refine ⟨?_, ?_, ?_, ?_⟩
  · simp [Pairs.next, he]
  · simp [Pairs.nextBack, he]
  · simp [Pairs.peek, he]
  · simp [Pairs.asStr, he]

/-- `next`/`peek` yield the first tree and leave the view standing for the rest. -/
theorem pairs_next (q : List QTok) (v : Pairs) (t : Tree) (ts : List Tree) (h : PairsRep q v (t :: ts)) :
    ∃ v', v.next q = some (some v.start, v') ∧ PairsRep q v' ts ∧ v.peek = some v.start ∧ PairObs q v.start t := by
  obtain ⟨hl, hc⟩ := h
  have hl := encodes_iff.1 hl
  obtain ⟨e, h1, h2, hk, hr, hs, hlt, hlt'⟩ := hl.cons_inv
  have hlt2 : v.start < v.stop := by omega
  have hc0 : v.count ≠ 0 := by simp [hc]
  refine ⟨{ v with start := e + 1, count := v.count - 1 }, ?_, ⟨encodes_iff.2 hr, ?_⟩, ?_, pairObs_of h1 h2 hk⟩
  · simp [Pairs.next, hlt2, pairEnd_of h1, hc0]
  · simp [hc]
  · simp [Pairs.peek, hlt2]

/-- `next_back` yields the last tree and leaves the view standing for the rest. -/
theorem pairs_nextBack (q : List QTok) (v : Pairs) (t : Tree) (ts : List Tree) (h : PairsRep q v (ts ++ [t])) :
    ∃ i v', v.nextBack q = some (some i, v') ∧ PairsRep q v' ts ∧ PairObs q i t := by
  obtain ⟨hl, hc⟩ := h
  have hl := encodes_iff.1 hl
  obtain ⟨m, hm1, hm2⟩ := hl.split
  obtain ⟨h1, h2, hk, hlt, hs⟩ := hm2.single_inv
  have hlt2 : ¬ v.stop ≤ v.start := by have := hm1.le; omega
  have hc0 : v.count ≠ 0 := by simp [hc]
  refine ⟨m, { v with stop := m, count := v.count - 1 }, ?_, ⟨encodes_iff.2 hm1, ?_⟩, pairObs_of h1 h2 hk⟩
  · simp [Pairs.nextBack, hlt2, h2, hc0]
  · simp [hc]

/-- `into_inner` stands for the children, `Pairs::single` for the one tree, `Pair::tokens` is the
window of the tree. -/
theorem pair_views (q : List QTok) (i : Nat) (t : Tree) (h : PairObs q i t) :
    (∃ v, pairInner q i = some v ∧ PairsRep q v t.children) ∧
    (∃ v, pairsSingle q i = some v ∧ PairsRep q v [t]) ∧
    (∃ a b, pairTokens q i = some (a, b) ∧ Encodes q a b [t]) := by
  obtain ⟨_, _, _, e, he, hk, hs⟩ := h
  refine ⟨⟨⟨i + 1, e, t.children.length⟩, ?_, hk, rfl⟩, ⟨⟨i, e + 1, 1⟩, ?_, hs, rfl⟩, i, e + 1, ?_, hs⟩
  · simp [pairInner, he, pairs_new_of_layout (encodes_iff.1 hk)]
  · simp [pairsSingle, he, pairs_new_of_layout (encodes_iff.1 hs)]
  · simp [pairTokens, he]

/-- **Forward and backward iteration in any interleaving**: the pairs produced are the trees of
the forest taken from the front / the back, and `len()` is the number remaining after each step. -/
theorem pairs_interleave (q : List QTok) (v : Pairs) (trees : List Tree) (ops : List Bool)
    (h : PairsRep q v trees) :
    ∃ res, pairsRun q v ops = some res ∧ ObsMatch q res (dequeRun trees ops) := by
  induction ops generalizing v trees with
  | nil => exact ⟨[], by simp [pairsRun], by simp [dequeRun, ObsMatch]⟩
  | cons op ops ih =>
    cases trees with
    | nil =>
      obtain ⟨h1, h2, _, _⟩ := pairs_nil q [] v h
      obtain ⟨res, hr, hm⟩ := ih v [] h
      have hc : v.count = 0 := h.2
      refine ⟨(none, v.count) :: res, ?_, ?_⟩
      · cases op <;> simp [pairsRun, h1, h2, hr]
      · simp [dequeRun, ObsMatch, hm, hc]
    | cons t ts =>
      cases op with
      | true =>
        obtain ⟨v', hn, hrep, _, hobs⟩ := pairs_next q v t ts h
        obtain ⟨res, hr, hm⟩ := ih v' ts hrep
        refine ⟨(some v.start, v'.count) :: res, by simp [pairsRun, hn, hr], ?_⟩
        have := hrep.2
        simp [dequeRun, ObsMatch, hobs, hm, this]
      | false =>
        have hne : t :: ts ≠ [] := by simp
        have hdec := List.dropLast_concat_getLast hne
        obtain ⟨i, v', hn, hrep, hobs⟩ := pairs_nextBack q v ((t :: ts).getLast hne) (t :: ts).dropLast
          (by rw [hdec]; exact h)
        obtain ⟨res, hr, hm⟩ := ih v' _ hrep
        refine ⟨(some i, v'.count) :: res, by simp [pairsRun, hn, hr], ?_⟩
        have hc := hrep.2
        simp only [List.length_dropLast, List.length_cons, Nat.add_sub_cancel] at hc
        simp only [dequeRun, List.getLast?_eq_some_getLast hne, ObsMatch]
        exact ⟨hobs, hc, hm⟩

/-- `flatten` in any interleaving of `next`/`next_back`: the pairs produced are the nodes of the
forest in pre-order taken from the front / the back; `len()` is the number remaining. -/
theorem flat_interleave (q : List QTok) (a b : Nat) (trees : List Tree) (ops : List Bool)
    (h : Encodes q a b trees) :
    ∃ res, flatRun q ⟨a, b⟩ ops = some res ∧ ObsMatch q res (dequeRun (preorderList trees) ops) := by
  exact flatRun_of_seg ops a b _ (flat_of_layout (encodes_iff.1 h))

/-- `tokens` in any interleaving: exactly the token stream of the forest from the front / the back. -/
theorem tokens_interleave (q : List QTok) (a b : Nat) (trees : List Tree) (ops : List Bool)
    (h : Encodes q a b trees) :
    toksRun q a b ops = some (dequeRun (toksList trees) ops) := by
  have hl := encodes_iff.1 h
  obtain ⟨hseq, hlen⟩ := toks_of_layout hl
  exact toksRun_of_seq ops a b _ hseq (by rw [hlen]; exact hl.size)

/-- `as_str` of a non-empty view spans from the first tree's start to the last tree's end;
`concat` is the concatenation of the trees' texts; `Display` lists them. -/
theorem pairs_strings (q : List QTok) (input : Str) (v : Pairs) (t : Tree) (ts : List Tree)
    (h : PairsRep q v (t :: ts)) (strs : List Str)
    (hs : (t :: ts).mapM (strOf input) = some strs) :
    v.asStr q input = slice? input t.start (((t :: ts).getLast?.getD t).stop) ∧
    v.concat q input = some strs.flatten ∧ v.display q input = some (bracket strs) := by
  obtain ⟨hl, hc⟩ := h
  have hl := encodes_iff.1 hl
  refine ⟨?_, ?_, ?_⟩
  · obtain ⟨e, h1, _, _, _, _, hlt, hlt'⟩ := hl.cons_inv
    have hne : t :: ts ≠ [] := by simp
    have hl' := hl
    rw [← List.dropLast_concat_getLast hne] at hl'
    obtain ⟨m, hm1, hm2⟩ := hl'.split
    obtain ⟨_, h2, _, _, _⟩ := hm2.single_inv
    have hlt2 : v.start < v.stop := by omega
    simp [Pairs.asStr, hlt2, posAt_start h1, posAt_end h2, List.getLast?_eq_some_getLast hne]
  · simp [Pairs.concat, pairsList_of_layout' hl, mapM_pairStr hl, hs]
  · simp [Pairs.display, pairsList_of_layout' hl, mapM_pairStr hl, hs]

/-
`pairs_render` AS ORIGINALLY STATED IS FALSE (third conjunct, JSON):

    theorem pairs_render (q : List QTok) (input : Str) (v : Pairs) (trees : List Tree) (h : PairsRep q v trees) :
        v.displayAlt q = some (bracket (altOfList trees)) ∧
        v.debug q input = (debugOfList input trees).map bracket ∧
        v.json q input = jsonOfForest input 0 trees

Counterexample (checked with `#eval`): `input := []`,
`trees := [.node 0 5 3 none [.node 1 0 0 none []]]`, `q := build trees`
(`= [.start 3 5, .start 2 0, .end_ 1 1 none 0, .end_ 0 0 none 3]`), `v := ⟨0, 4, 1⟩`.
`PairsRep q v trees` holds, `Pairs.json q input v = none`, but `jsonOfForest input 0 trees = some "{\n  \"pos\": …"`.
Reason: `jsonPair` (like the Rust serializer, which calls `as_str()` on every pair) slices the span
of *every* node, whereas `jsonOfTree` only slices the spans of the leaves; a node with children whose
own span cannot be sliced (`stop < start`, or an offset that is not a char boundary, e.g.
`.node 0 0 1 none [.node 1 0 0 none []]` over `"é"`) makes the model return `none` (panic) while the
tree-side function returns `some _`.  The model's fuel bounds are all sufficient.

Corrected statements below: `pairs_render_partial` (the two conjuncts that hold unconditionally),
`pairs_render` (all three, under the explicit hypothesis that every node's span can be sliced).
-/

/-- Alternate `Display` and `Debug` output are those of the tree (no side condition). -/
theorem pairs_render_partial (q : List QTok) (input : Str) (v : Pairs) (trees : List Tree)
    (h : PairsRep q v trees) :
    v.displayAlt q = some (bracket (altOfList trees)) ∧
    v.debug q input = (debugOfList input trees).map bracket := by
  obtain ⟨hl, hc⟩ := h
  have hl := encodes_iff.1 hl
  have hsz := hl.size_le_length
  constructor
  · simp [Pairs.displayAlt, pairsList_of_layout' hl, altList_of_layout hl (4 * q.length + 8) (by omega)]
  · have hd := debugList_of_layout (input := input) hl (4 * q.length + 8) (by omega)
    cases hdl : debugOfList input trees <;>
      simp [Pairs.debug, pairsList_of_layout' hl, hd, hdl]

/-- Alternate `Display`, `Debug` and JSON output are those of the tree, provided the span of every
node of the forest can be sliced out of the input (extra hypothesis `hsl`, see the comment above). -/
theorem pairs_render (q : List QTok) (input : Str) (v : Pairs) (trees : List Tree) (h : PairsRep q v trees)
    (hsl : ∀ t ∈ preorderList trees, (strOf input t).isSome) :
    v.displayAlt q = some (bracket (altOfList trees)) ∧
    v.debug q input = (debugOfList input trees).map bracket ∧
    v.json q input = jsonOfForest input 0 trees := by
  obtain ⟨h1, h2⟩ := pairs_render_partial q input v trees h
  refine ⟨h1, h2, ?_⟩
  have hl := encodes_iff.1 h.1
  have hsz := hl.size_le_length
  exact jsonPairs_of_list hl (4 * q.length + 7) 0 (jsonList_of_layout hl hsl _ _ (by omega))

/-- JSON without side condition (soundness half): whenever `to_json` returns (does not panic), what
it returns is the JSON of the tree. -/
theorem pairs_json_sound (q : List QTok) (input : Str) (v : Pairs) (trees : List Tree) (h : PairsRep q v trees)
    (s : Str) (hs : v.json q input = some s) : jsonOfForest input 0 trees = some s := by
  have hl := encodes_iff.1 h.1
  exact jsonPairs_sound_of_list hl (4 * q.length + 7) 0 (jsonList_sound hl _ _) s hs

/-- `pairs_render` for forests whose spans nest inside the input (`nestedForest`, the shape every
parse result has): all three renderers agree with the tree. -/
theorem pairs_render_nested (q : List QTok) (input : Str) (v : Pairs) (trees : List Tree) (h : PairsRep q v trees)
    (lo hi : Nat) (hn : nestedForest input lo hi trees = true) :
    v.displayAlt q = some (bracket (altOfList trees)) ∧
    v.debug q input = (debugOfList input trees).map bracket ∧
    v.json q input = jsonOfForest input 0 trees :=
  pairs_render q input v trees h (sliceable_of_nestedForest input lo hi trees hn)

/-- Nesting: in a forest whose spans nest, each pair's span contains its children's and siblings do
not overlap (unfolding of `nestedForest`, stated for use by clients). -/
theorem nested_children (input : Str) (lo hi : Nat) (t : Tree) (ts : List Tree)
    (h : nestedForest input lo hi (t :: ts) = true) :
    lo ≤ t.start ∧ t.start ≤ t.stop ∧ t.stop ≤ hi ∧ nestedForest input t.start t.stop t.children = true ∧
    nestedForest input t.stop hi ts = true := by
  cases t with
  | node r a b tag ks =>
    simp only [nestedForest, nestedTree, Bool.and_eq_true, decide_eq_true_eq] at h
    obtain ⟨⟨⟨⟨⟨⟨h1, h2⟩, h3⟩, _⟩, _⟩, h4⟩, h5⟩ := h
    exact ⟨h1, h2, h3, h4, h5⟩

/-- **`find_tagged(tag)`** yields exactly the pairs of the forest whose node tag is `tag`, in pre-order (the order of `flatten()`):
the i-th index returned shows the i-th such tree. -/
theorem find_tagged (q : List QTok) (a b : Nat) (trees : List Tree) (v : Pairs) (tag : Str) (h : Encodes q a b trees)
    (hs : v.start = a) (he : v.stop = b) :
    ∃ is, v.findTagged q tag = some is ∧ IdxMatch q is ((preorderList trees).filter fun t => t.tag = some tag) :=
  findTagged_spec a b trees v tag h hs he

/-- **`find_first_tagged(tag)`** is the first of them in pre-order — the outermost pair when a tagged pair has an equally
tagged descendant — or nothing when no pair carries the tag. -/
theorem find_first_tagged (q : List QTok) (a b : Nat) (trees : List Tree) (v : Pairs) (tag : Str) (h : Encodes q a b trees)
    (hs : v.start = a) (he : v.stop = b) :
    ∃ r, v.findFirstTagged q tag = some r ∧
      match r, ((preorderList trees).filter fun t => t.tag = some tag).head? with
      | some i, some t => PairObs q i t
      | none, none => True
      | _, _ => False :=
  findFirstTagged_spec a b trees v tag h hs he

/-- not vacuous: a tagged pair inside an equally tagged pair — the outer one (index 0) is found, both are listed. -/
example :
    let forest := [Tree.node 1 0 3 (some ['t']) [Tree.node 2 1 2 (some ['t']) []]]
    let q := build forest
    (Pairs.new q 0 q.length).bind (fun v => v.findFirstTagged q ['t']) = some (some 0) ∧
    (Pairs.new q 0 q.length).bind (fun v => v.findTagged q ['t']) = some [0, 1] := by decide

end PestModel.C04
