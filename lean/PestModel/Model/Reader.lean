import PestModel.Model.Ref
import PestModel.Model.Pratt
import PestModel.Gen.MetaGrammar
/-
L8 (parts) — the grammar reader `pest_meta::parser`: `unescape`, number parsing, and the
operator-precedence stage of `consume_expr` (`|` below `~`, both left-associative), as far as C07's
theorems need them.
-/
namespace PestModel.Reader
open PestModel.LineCol (Str)

def hexVal (c : Char) : Option Nat :=
  if '0' ≤ c ∧ c ≤ '9' then some (c.toNat - '0'.toNat)
  else if 'a' ≤ c ∧ c ≤ 'f' then some (c.toNat - 'a'.toNat + 10)
  else if 'A' ≤ c ∧ c ≤ 'F' then some (c.toNat - 'A'.toNat + 10)
  else none

/-- `uN::from_str_radix(s, 16)`: an optional leading `+`, then one or more hex digits (no overflow
check here: callers bound the length). -/
def fromStrRadix16 (s : Str) : Option Nat :=
  let ds := match s with | '+' :: rest => rest | _ => s
  if ds.isEmpty then none else
  ds.foldlM (fun acc c => (hexVal c).map fun v => acc * 16 + v) 0

def utf8Len (s : Str) : Nat := (s.map Char.utf8Size).sum

def charOfNat? (n : Nat) : Option Char := if h : n.isValidChar then some (Char.ofNatAux n h) else none

/-- `pest_meta::parser::unescape` (fuel = length of the input). -/
def unescapeGo : Nat → Str → Str → Option Str
  | 0, _, _ => none
  | fuel + 1, s, acc =>
    match s with
    | [] => some acc.reverse
    | '\\' :: rest =>
      match rest with
      | [] => none
      | '"' :: r => unescapeGo fuel r ('"' :: acc)
      | '\\' :: r => unescapeGo fuel r ('\\' :: acc)
      | 'r' :: r => unescapeGo fuel r ('\r' :: acc)
      | 'n' :: r => unescapeGo fuel r ('\n' :: acc)
      | 't' :: r => unescapeGo fuel r ('\t' :: acc)
      | '0' :: r => unescapeGo fuel r ('\x00' :: acc)
      | '\'' :: r => unescapeGo fuel r ('\'' :: acc)
      | 'x' :: r =>
        let two := r.take 2
        if utf8Len two ≠ 2 then none else              -- `string.len() != 2` (bytes)
        match fromStrRadix16 two with
        | some v => if v < 256 then unescapeGo fuel (r.drop 2) (Char.ofNat v :: acc) else none
        | none => none
      | 'u' :: r =>
        match r with
        | '{' :: r' =>
          let digits := r'.takeWhile (· ≠ '}')
          let n := utf8Len digits
          if n < 2 ∨ 6 < n then none else
          if r'.length < n + 1 then none else          -- `for _ in 0..len+1 { chars.next()? }`
          match fromStrRadix16 digits with
          | some v => match charOfNat? v with
            | some c => unescapeGo fuel (r'.drop (n + 1)) (c :: acc)
            | none => none
          | none => none
        | _ => none
      | _ => none
    | c :: rest => unescapeGo fuel rest (c :: acc)

def unescape (s : Str) : Option Str := unescapeGo (s.length + 1) s []

/-! ### how a character may be spelled inside a literal -/

inductive Spelling where
  | plain                    -- the character itself
  | named                    -- \n \r \t \0 \\ \" \'
  | hex (upper : Bool)       -- \xHH (code points below 256)
  | uni (digits : Nat) (upper : Bool)   -- \u{H…H} with 2..6 digits
  deriving Repr, DecidableEq

def hexDigit (upper : Bool) (n : Nat) : Char :=
  if n < 10 then Char.ofNat ('0'.toNat + n) else Char.ofNat ((if upper then 'A' else 'a').toNat + (n - 10))

/-- `k` hex digits of `v`, most significant first. -/
def hexDigits (upper : Bool) : Nat → Nat → Str
  | 0, _ => []
  | k + 1, v => hexDigits upper k (v / 16) ++ [hexDigit upper (v % 16)]

/-- the spelling of one character (`none` when the form does not apply to it). -/
def spell (quote : Char) : Spelling → Char → Option Str
  | .plain, c => if c = quote ∨ c = '\\' then none else some [c]
  | .named, c =>
    if c = '\n' then some ['\\', 'n'] else if c = '\r' then some ['\\', 'r'] else if c = '\t' then some ['\\', 't']
    else if c = '\x00' then some ['\\', '0'] else if c = '\\' then some ['\\', '\\'] else if c = '"' then some ['\\', '"']
    else if c = '\'' then some ['\\', '\''] else none
  | .hex up, c => if c.toNat < 256 then some (['\\', 'x'] ++ hexDigits up 2 c.toNat) else none
  | .uni k up, c =>
    if 2 ≤ k ∧ k ≤ 6 ∧ c.toNat < 16 ^ k then some (['\\', 'u', '{'] ++ hexDigits up k c.toNat ++ ['}']) else none

/-- spell a whole string, one spelling per character. -/
def spellAll (quote : Char) : List Spelling → Str → Option Str
  | [], [] => some []
  | sp :: sps, c :: cs =>
    match spell quote sp c, spellAll quote sps cs with
    | some a, some b => some (a ++ b)
    | _, _ => none
  | _, _ => none

/-! ### numbers -/

def natDigits (n : Nat) : Str := (toString n).toList

/-- `str::parse::<u32>`: decimal digits (an optional leading `+`), no overflow beyond `u32`. -/
def parseU32 (s : Str) : Option Nat :=
  let ds := match s with | '+' :: rest => rest | _ => s
  if ds.isEmpty then none else
  match ds.foldlM (fun acc c => if '0' ≤ c ∧ c ≤ '9' then some (acc * 10 + (c.toNat - '0'.toNat)) else none) 0 with
  | some v => if v < 2 ^ 32 then some v else none
  | none => none

/-- `str::parse::<i32>`. -/
def parseI32 (s : Str) : Option Int :=
  match s with
  | '-' :: rest =>
    if rest.isEmpty ∨ rest.head? = some '+' then none else
    match rest.foldlM (fun acc c => if '0' ≤ c ∧ c ≤ '9' then some (acc * 10 + (c.toNat - '0'.toNat)) else none) 0 with
    | some v => if v ≤ 2 ^ 31 then some (-(v : Int)) else none
    | none => none
  | _ =>
    let ds := match s with | '+' :: rest => rest | _ => s
    if ds.isEmpty then none else
    match ds.foldlM (fun acc c => if '0' ≤ c ∧ c ≤ '9' then some (acc * 10 + (c.toNat - '0'.toNat)) else none) 0 with
    | some v => if v < 2 ^ 31 then some (v : Int) else none
    | none => none

/-! ### the operator-precedence stage of `consume_expr` -/

/-- binary skeleton of an expression: leaves are the terms (`unaries`), nodes `~` and `|`. -/
inductive Bin where
  | leaf (i : Nat)
  | seq (a b : Bin)
  | alt (a b : Bin)
  deriving Repr, DecidableEq

/-- rule ids used as tokens: primaries are `100 + i`, `|` is 1, `~` is 2. -/
def altTok : Nat := 1
def seqTok : Nat := 2

/-- the `PrattParser` of `consume_rules_with_spans`: `.op(infix(choice, Left)).op(infix(sequence, Left))`. -/
def readerTable : Pratt.Table :=
  Pratt.prattTable [[(altTok, .infix .left)], [(seqTok, .infix .left)]]

/-- print with only the parentheses precedence requires: a parenthesised operand is a primary for
the enclosing level (it is parsed by a recursive call), so the token list of a level contains the
operands that need no parentheses in-line and a single primary token for each one that does. -/
def Bin.level : Bin → Nat
  | .leaf _ => 3
  | .seq _ _ => 2
  | .alt _ _ => 1

/-- what the Pratt parser builds from its tokens. -/
def ofTree : Pratt.Tree → Option Bin
  | .prim r => if r ≥ 100 then some (.leaf (r - 100)) else none
  | .inf l r rt =>
    match ofTree l, ofTree rt with
    | some a, some b => if r = seqTok then some (.seq a b) else if r = altTok then some (.alt a b) else none
    | _, _ => none
  | _ => none

end PestModel.Reader
