import PestModel.Lemmas.ReaderSound
/-!
C09, behind the reader: **the optimizer's panic sites are unreachable on what the reader returns** — the unroller's `unwrap`
on an empty unrolling and `rule_to_optimized_rule`'s `unreachable!` on a construct that should have been unrolled.
-/
namespace PestModel.OptTotal
open PestModel.G PestModel.ReaderValue
open PestModel.LineCol (Str)

/-- the counts the reader lets through: `{n}`, `{,n}`, `{m,n}` with `n ≠ 0`. -/
def posCounts : Expr → Bool
  | .repExact e n => decide (n ≠ 0) && posCounts e
  | .repMax e n => decide (n ≠ 0) && posCounts e
  | .repMinMax e _ hi => decide (hi ≠ 0) && posCounts e
  | .posPred e | .negPred e | .opt e | .rep e | .repOnce e | .repMin e _ | .push e | .nodeTag e _ => posCounts e
  | .seq a b | .choice a b => posCounts a && posCounts b
  | _ => true

/-- what `rule_to_optimized_rule` can convert: no bounded repetition left, `e+` only with `grammar-extras`. -/
def convOK (extras : Bool) : Expr → Bool
  | .repExact _ _ | .repMin _ _ | .repMax _ _ | .repMinMax _ _ _ => false
  | .repOnce e => extras && convOK extras e
  | .posPred e | .negPred e | .opt e | .rep e | .push e | .nodeTag e _ => convOK extras e
  | .seq a b | .choice a b => convOK extras a && convOK extras b
  | _ => true

theorem toOptimized_total (extras : Bool) : ∀ e : Expr, convOK extras e = true → (toOptimized extras e).isSome = true
  | .str _, _ | .insens _, _ | .range _ _, _ | .ident _, _ | .peekSlice _ _, _ | .skip _, _ | .pushLiteral _, _ => rfl
  | .posPred e, h => by simp only [toOptimized]; have := toOptimized_total extras e h; cases hx : toOptimized extras e <;> simp_all
  | .negPred e, h => by simp only [toOptimized]; have := toOptimized_total extras e h; cases hx : toOptimized extras e <;> simp_all
  | .opt e, h => by simp only [toOptimized]; have := toOptimized_total extras e h; cases hx : toOptimized extras e <;> simp_all
  | .rep e, h => by simp only [toOptimized]; have := toOptimized_total extras e h; cases hx : toOptimized extras e <;> simp_all
  | .push e, h => by simp only [toOptimized]; have := toOptimized_total extras e h; cases hx : toOptimized extras e <;> simp_all
  | .nodeTag e _, h => by simp only [toOptimized]; have := toOptimized_total extras e h; cases hx : toOptimized extras e <;> simp_all
  | .repOnce e, h => by
    simp only [convOK, Bool.and_eq_true] at h
    simp only [toOptimized, h.1, if_true]
    have := toOptimized_total extras e h.2; cases hx : toOptimized extras e <;> simp_all
  | .seq a b, h => by
    simp only [convOK, Bool.and_eq_true] at h
    simp only [toOptimized]
    have ha := toOptimized_total extras a h.1; have hb := toOptimized_total extras b h.2
    cases hx : toOptimized extras a <;> cases hy : toOptimized extras b <;> simp_all
  | .choice a b, h => by
    simp only [convOK, Bool.and_eq_true] at h
    simp only [toOptimized]
    have ha := toOptimized_total extras a h.1; have hb := toOptimized_total extras b h.2
    cases hx : toOptimized extras a <;> cases hy : toOptimized extras b <;> simp_all
  | .repExact _ _, h | .repMin _ _, h | .repMax _ _, h | .repMinMax _ _ _, h => by simp [convOK] at h

/-! ### the unroller -/

theorem convOK_seqOfList (extras : Bool) : ∀ (l : List Expr) (u : Expr), (∀ x ∈ l, convOK extras x = true) →
    seqOfList l = some u → convOK extras u = true
  | [], _, _, h => by simp [seqOfList] at h
  | [x], u, hl, h => by simp only [seqOfList, Option.some.injEq] at h; subst h; exact hl x (by simp)
  | x :: y :: r, u, hl, h => by
    simp only [seqOfList] at h
    cases hr : seqOfList (y :: r) with
    | none => simp [hr] at h
    | some v =>
      simp only [hr, Option.map_some, Option.some.injEq] at h
      subst h
      simp only [convOK, Bool.and_eq_true]
      exact ⟨hl x (by simp), convOK_seqOfList extras (y :: r) v (fun z hz => hl z (by simp [hz])) hr⟩

theorem seqOfList_some : ∀ (l : List Expr), l ≠ [] → ∃ u, seqOfList l = some u
  | [], h => absurd rfl h
  | [x], _ => ⟨x, rfl⟩
  | x :: y :: r, _ => by
    obtain ⟨v, hv⟩ := seqOfList_some (y :: r) (by simp)
    exact ⟨.seq x v, by simp [seqOfList, hv]⟩

/-- one node of the unroller on converted operands: no panic, and the result is convertible. -/
theorem unrollF_node (extras : Bool) (e : Expr) (hc : posCounts e = true)
    (hsub : match e with
      | .posPred x | .negPred x | .opt x | .rep x | .repOnce x | .repExact x _ | .repMin x _ | .repMax x _ | .repMinMax x _ _
      | .push x | .nodeTag x _ => convOK extras x = true
      | .seq a b | .choice a b => convOK extras a = true ∧ convOK extras b = true
      | _ => True) :
    ∃ e', unrollF extras e = some e' ∧ convOK extras e' = true := by
  cases e with
  | repOnce x =>
    simp only at hsub
    cases extras
    · exact ⟨.seq x (.rep x), by simp [unrollF], by simp [convOK, hsub]⟩
    · exact ⟨.repOnce x, by simp [unrollF], by simp [convOK, hsub]⟩
  | repExact x n =>
    simp only at hsub
    simp only [posCounts, Bool.and_eq_true, decide_eq_true_eq] at hc
    obtain ⟨u, hu⟩ := seqOfList_some (List.replicate n x) (by cases n <;> simp_all [List.replicate])
    exact ⟨u, hu, convOK_seqOfList extras _ u (fun z hz => by rw [(List.mem_replicate.1 hz).2]; exact hsub) hu⟩
  | repMin x n =>
    simp only at hsub
    obtain ⟨u, hu⟩ := seqOfList_some (List.replicate n x ++ [.rep x]) (by simp)
    refine ⟨u, hu, convOK_seqOfList extras _ u (fun z hz => ?_) hu⟩
    rcases List.mem_append.1 hz with hz | hz
    · rw [(List.mem_replicate.1 hz).2]; exact hsub
    · simp at hz; subst hz; simpa [convOK] using hsub
  | repMax x n =>
    simp only at hsub
    simp only [posCounts, Bool.and_eq_true, decide_eq_true_eq] at hc
    obtain ⟨u, hu⟩ := seqOfList_some (List.replicate n (.opt x)) (by cases n <;> simp_all [List.replicate])
    exact ⟨u, hu, convOK_seqOfList extras _ u (fun z hz => by rw [(List.mem_replicate.1 hz).2]; simpa [convOK] using hsub) hu⟩
  | repMinMax x lo hi =>
    simp only at hsub
    simp only [posCounts, Bool.and_eq_true, decide_eq_true_eq] at hc
    obtain ⟨u, hu⟩ := seqOfList_some ((List.range hi).map fun i => if i + 1 ≤ lo then x else .opt x)
      (by intro h; have := congrArg List.length h; simp at this; exact hc.1 this)
    refine ⟨u, hu, convOK_seqOfList extras _ u (fun z hz => ?_) hu⟩
    obtain ⟨i, _, rfl⟩ := List.mem_map.1 hz
    split
    · exact hsub
    · simpa [convOK] using hsub
  | posPred x => exact ⟨_, rfl, by simpa [convOK] using hsub⟩
  | negPred x => exact ⟨_, rfl, by simpa [convOK] using hsub⟩
  | opt x => exact ⟨_, rfl, by simpa [convOK] using hsub⟩
  | rep x => exact ⟨_, rfl, by simpa [convOK] using hsub⟩
  | push x => exact ⟨_, rfl, by simpa [convOK] using hsub⟩
  | nodeTag x t => exact ⟨_, rfl, by simpa [convOK] using hsub⟩
  | seq a b => exact ⟨_, rfl, by simpa [convOK] using hsub⟩
  | choice a b => exact ⟨_, rfl, by simpa [convOK] using hsub⟩
  | str _ => exact ⟨_, rfl, rfl⟩
  | insens _ => exact ⟨_, rfl, rfl⟩
  | range _ _ => exact ⟨_, rfl, rfl⟩
  | ident _ => exact ⟨_, rfl, rfl⟩
  | peekSlice _ _ => exact ⟨_, rfl, rfl⟩
  | skip _ => exact ⟨_, rfl, rfl⟩
  | pushLiteral _ => exact ⟨_, rfl, rfl⟩


theorem posCounts_of_convOK (extras : Bool) : ∀ e : Expr, convOK extras e = true → posCounts e = true
  | .str _, _ | .insens _, _ | .range _ _, _ | .ident _, _ | .peekSlice _ _, _ | .skip _, _ | .pushLiteral _, _ => rfl
  | .posPred e, h | .negPred e, h | .opt e, h | .rep e, h | .push e, h | .nodeTag e _, h => by
    simp only [posCounts]; exact posCounts_of_convOK extras e (by simpa [convOK] using h)
  | .repOnce e, h => by
    simp only [convOK, Bool.and_eq_true] at h
    simp only [posCounts]; exact posCounts_of_convOK extras e h.2
  | .seq a b, h | .choice a b, h => by
    simp only [convOK, Bool.and_eq_true] at h
    simp only [posCounts, Bool.and_eq_true]
    exact ⟨posCounts_of_convOK extras a h.1, posCounts_of_convOK extras b h.2⟩
  | .repExact _ _, h | .repMin _ _, h | .repMax _ _, h | .repMinMax _ _ _, h => by simp [convOK] at h

/-- **the unroller does not panic on the reader's counts, and leaves nothing it should have unrolled.** -/
theorem unrollExpr_total (extras : Bool) : ∀ e : Expr, posCounts e = true →
    ∃ e', unrollExpr extras e = some e' ∧ convOK extras e' = true
  | .str _, h => unrollF_node extras _ h trivial
  | .insens _, h => unrollF_node extras _ h trivial
  | .range _ _, h => unrollF_node extras _ h trivial
  | .ident _, h => unrollF_node extras _ h trivial
  | .peekSlice _ _, h => unrollF_node extras _ h trivial
  | .skip _, h => unrollF_node extras _ h trivial
  | .pushLiteral _, h => unrollF_node extras _ h trivial
  | .posPred e, h => by
    obtain ⟨e', h1, h2⟩ := unrollExpr_total extras e (by simpa [posCounts] using h)
    simp only [unrollExpr, h1, Option.bind_some]
    exact unrollF_node extras (.posPred e') (by simpa [posCounts] using posCounts_of_convOK extras e' h2) h2
  | .negPred e, h => by
    obtain ⟨e', h1, h2⟩ := unrollExpr_total extras e (by simpa [posCounts] using h)
    simp only [unrollExpr, h1, Option.bind_some]
    exact unrollF_node extras (.negPred e') (by simpa [posCounts] using posCounts_of_convOK extras e' h2) h2
  | .opt e, h => by
    obtain ⟨e', h1, h2⟩ := unrollExpr_total extras e (by simpa [posCounts] using h)
    simp only [unrollExpr, h1, Option.bind_some]
    exact unrollF_node extras (.opt e') (by simpa [posCounts] using posCounts_of_convOK extras e' h2) h2
  | .rep e, h => by
    obtain ⟨e', h1, h2⟩ := unrollExpr_total extras e (by simpa [posCounts] using h)
    simp only [unrollExpr, h1, Option.bind_some]
    exact unrollF_node extras (.rep e') (by simpa [posCounts] using posCounts_of_convOK extras e' h2) h2
  | .repOnce e, h => by
    obtain ⟨e', h1, h2⟩ := unrollExpr_total extras e (by simpa [posCounts] using h)
    simp only [unrollExpr, h1, Option.bind_some]
    exact unrollF_node extras (.repOnce e') (by simpa [posCounts] using posCounts_of_convOK extras e' h2) h2
  | .push e, h => by
    obtain ⟨e', h1, h2⟩ := unrollExpr_total extras e (by simpa [posCounts] using h)
    simp only [unrollExpr, h1, Option.bind_some]
    exact unrollF_node extras (.push e') (by simpa [posCounts] using posCounts_of_convOK extras e' h2) h2
  | .nodeTag e t, h => by
    obtain ⟨e', h1, h2⟩ := unrollExpr_total extras e (by simpa [posCounts] using h)
    simp only [unrollExpr, h1, Option.bind_some]
    exact unrollF_node extras (.nodeTag e' t) (by simpa [posCounts] using posCounts_of_convOK extras e' h2) h2
  | .repMin e n, h => by
    obtain ⟨e', h1, h2⟩ := unrollExpr_total extras e (by simpa [posCounts] using h)
    simp only [unrollExpr, h1, Option.bind_some]
    exact unrollF_node extras (.repMin e' n) (by simpa [posCounts] using posCounts_of_convOK extras e' h2) h2
  | .repExact e n, h => by
    simp only [posCounts, Bool.and_eq_true, decide_eq_true_eq] at h
    obtain ⟨e', h1, h2⟩ := unrollExpr_total extras e h.2
    simp only [unrollExpr, h1, Option.bind_some]
    exact unrollF_node extras (.repExact e' n) (by simp [posCounts, h.1, posCounts_of_convOK extras e' h2]) h2
  | .repMax e n, h => by
    simp only [posCounts, Bool.and_eq_true, decide_eq_true_eq] at h
    obtain ⟨e', h1, h2⟩ := unrollExpr_total extras e h.2
    simp only [unrollExpr, h1, Option.bind_some]
    exact unrollF_node extras (.repMax e' n) (by simp [posCounts, h.1, posCounts_of_convOK extras e' h2]) h2
  | .repMinMax e lo hi, h => by
    simp only [posCounts, Bool.and_eq_true, decide_eq_true_eq] at h
    obtain ⟨e', h1, h2⟩ := unrollExpr_total extras e h.2
    simp only [unrollExpr, h1, Option.bind_some]
    exact unrollF_node extras (.repMinMax e' lo hi) (by simp [posCounts, h.1, posCounts_of_convOK extras e' h2]) h2
  | .seq a b, h => by
    simp only [posCounts, Bool.and_eq_true] at h
    obtain ⟨a', ha1, ha2⟩ := unrollExpr_total extras a h.1
    obtain ⟨b', hb1, hb2⟩ := unrollExpr_total extras b h.2
    simp only [unrollExpr, ha1, hb1, Option.bind_some]
    exact unrollF_node extras (.seq a' b')
      (by simp [posCounts, posCounts_of_convOK extras a' ha2, posCounts_of_convOK extras b' hb2]) ⟨ha2, hb2⟩
  | .choice a b, h => by
    simp only [posCounts, Bool.and_eq_true] at h
    obtain ⟨a', ha1, ha2⟩ := unrollExpr_total extras a h.1
    obtain ⟨b', hb1, hb2⟩ := unrollExpr_total extras b h.2
    simp only [unrollExpr, ha1, hb1, Option.bind_some]
    exact unrollF_node extras (.choice a' b')
      (by simp [posCounts, posCounts_of_convOK extras a' ha2, posCounts_of_convOK extras b' hb2]) ⟨ha2, hb2⟩


/-! ### the passes around the unroller keep these invariants -/

theorem mapTopDown_posCounts (f : Expr → Expr) (hf : ∀ x, posCounts x = true → posCounts (f x) = true) :
    ∀ (fuel : Nat) (e : Expr), posCounts e = true → posCounts (mapTopDown f fuel e) = true
  | 0, e, h => h
  | fuel + 1, e, h => by
    have hfe := hf e h
    have ih := mapTopDown_posCounts f hf fuel
    cases hx : f e <;> simp only [mapTopDown, hx] <;> simp only [hx, posCounts, Bool.and_eq_true, decide_eq_true_eq] at hfe ⊢ <;>
      first
        | exact ih _ hfe
        | exact ⟨ih _ hfe.1, ih _ hfe.2⟩
        | exact ⟨hfe.1, ih _ hfe.2⟩
        | trivial

theorem mapTopDown_convOK (extras : Bool) (f : Expr → Expr) (hf : ∀ x, convOK extras x = true → convOK extras (f x) = true) :
    ∀ (fuel : Nat) (e : Expr), convOK extras e = true → convOK extras (mapTopDown f fuel e) = true
  | 0, e, h => h
  | fuel + 1, e, h => by
    have hfe := hf e h
    have ih := mapTopDown_convOK extras f hf fuel
    cases hx : f e <;> simp only [mapTopDown, hx] <;> simp only [hx, convOK, Bool.and_eq_true] at hfe ⊢ <;>
      first
        | exact ih _ hfe
        | exact ⟨ih _ hfe.1, ih _ hfe.2⟩
        | exact ⟨hfe.1, ih _ hfe.2⟩
        | trivial
        | (exfalso; exact Bool.noConfusion hfe)

theorem mapBottomUp_convOK (extras : Bool) (f : Expr → Expr) (hf : ∀ x, convOK extras x = true → convOK extras (f x) = true) :
    ∀ (e : Expr), convOK extras e = true → convOK extras (mapBottomUp f e) = true
  | .str _, h | .insens _, h | .range _ _, h | .ident _, h | .peekSlice _ _, h | .skip _, h | .pushLiteral _, h => hf _ h
  | .posPred e, h | .negPred e, h | .opt e, h | .rep e, h | .push e, h | .nodeTag e _, h => by
    simp only [mapBottomUp]; apply hf; simp only [convOK] at h ⊢; exact mapBottomUp_convOK extras f hf e h
  | .repOnce e, h => by
    simp only [mapBottomUp]; apply hf
    simp only [convOK, Bool.and_eq_true] at h ⊢
    exact ⟨h.1, mapBottomUp_convOK extras f hf e h.2⟩
  | .seq a b, h | .choice a b, h => by
    simp only [mapBottomUp]; apply hf
    simp only [convOK, Bool.and_eq_true] at h ⊢
    exact ⟨mapBottomUp_convOK extras f hf a h.1, mapBottomUp_convOK extras f hf b h.2⟩
  | .repExact _ _, h | .repMin _ _, h | .repMax _ _, h | .repMinMax _ _ _, h => by simp [convOK] at h

theorem rotateInternal_posCounts : ∀ (fuel : Nat) (e : Expr), posCounts e = true → posCounts (rotateInternal fuel e) = true
  | 0, e, h => h
  | fuel + 1, e, h => by
    unfold rotateInternal
    split
    · exact h
    · rename_i f' a b c heq
      cases heq
      apply rotateInternal_posCounts
      simp only [posCounts, Bool.and_eq_true] at h ⊢
      exact ⟨h.1.1, h.1.2, h.2⟩
    · rename_i f' a b c heq
      cases heq
      apply rotateInternal_posCounts
      simp only [posCounts, Bool.and_eq_true] at h ⊢
      exact ⟨h.1.1, h.1.2, h.2⟩
    · exact h

theorem populateChoices_skip (rules : List Rule) : ∀ (fuel : Nat) (e : Expr) (cs : List Str) (x : Expr),
    populateChoices rules fuel e cs = some x → ∃ l, x = .skip l
  | 0, _, _, _, h => by simp [populateChoices] at h
  | fuel + 1, e, cs, x, h => by
    unfold populateChoices at h
    repeat' (first | split at h)
    all_goals first
      | exact populateChoices_skip rules fuel _ _ x h
      | (simp only [Option.some.injEq] at h; exact ⟨_, h.symm⟩)
      | (obtain ⟨y, _, hy⟩ := Option.bind_eq_some_iff.1 h; exact populateChoices_skip rules fuel _ _ x hy)
      | cases h

theorem skipF_posCounts (rules : List Rule) (e : Expr) (h : posCounts e = true) : posCounts (skipF rules e) = true := by
  unfold skipF
  split
  · split
    · rename_i x hx
      obtain ⟨l, rfl⟩ := populateChoices_skip rules _ _ _ x hx
      split
      · exact h
      · rfl
    · exact h
  · exact h

theorem concatF_convOK (extras : Bool) (e : Expr) (h : convOK extras e = true) : convOK extras (concatF e) = true := by
  unfold concatF
  split <;> first | rfl | exact h

theorem factorF_convOK (extras : Bool) (ty : RuleType) (e : Expr) (h : convOK extras e = true) :
    convOK extras (factorF ty e) = true := by
  unfold factorF
  split
  · split
    · simp only [convOK, Bool.and_eq_true] at h ⊢; exact ⟨h.1.1, h.1.2, h.2.2⟩
    · exact h
  · split
    · split
      · simp only [convOK, Bool.and_eq_true] at h ⊢; exact ⟨h.1.1, h.1.2⟩
      · exact h
    · exact h
  · split
    · simp only [convOK, Bool.and_eq_true] at h; exact h.1
    · exact h
  · exact h

theorem listF_convOK (extras : Bool) (e : Expr) (h : convOK extras e = true) : convOK extras (listF e) = true := by
  unfold listF
  split
  · split
    · simp only [convOK, Bool.and_eq_true] at h ⊢; exact ⟨h.1.1, h.1.2, h.2⟩
    · exact h
  · exact h


/-! ### the pipeline -/

theorem astPasses_total (extras withList : Bool) (rules : List Rule) (r : Rule) (h : posCounts r.expr = true) :
    ∃ r', astPasses extras withList rules r = some r' ∧ convOK extras r'.expr = true := by
  have h1 : posCounts (rotate r).expr = true := by
    simp only [rotate, rotateExpr]
    exact mapTopDown_posCounts _ (fun x hx => rotateInternal_posCounts _ x hx) _ _ h
  have h2 : posCounts (skip rules (rotate r)).expr = true := by
    unfold skip
    split
    · exact mapTopDown_posCounts _ (fun x hx => skipF_posCounts rules x hx) _ _ h1
    · exact h1
  obtain ⟨e', hu, hc⟩ := unrollExpr_total extras _ h2
  have hc1 : ∀ q : Rule, convOK extras q.expr = true → convOK extras (concatenate q).expr = true := by
    intro q hq
    unfold concatenate
    split
    · exact mapBottomUp_convOK extras _ (concatF_convOK extras) _ hq
    · exact hq
  have hc2 : ∀ q : Rule, convOK extras q.expr = true → convOK extras (factor q).expr = true := by
    intro q hq
    exact mapTopDown_convOK extras _ (factorF_convOK extras q.ty) _ _ hq
  have hc3 : ∀ q : Rule, convOK extras q.expr = true → convOK extras (list q).expr = true := by
    intro q hq
    exact mapBottomUp_convOK extras _ (listF_convOK extras) _ hq
  simp only [astPasses, unroll, hu, Option.map_some]
  refine ⟨_, rfl, ?_⟩
  have hq : convOK extras (factor (concatenate { skip rules (rotate r) with expr := e' })).expr = true := hc2 _ (hc1 _ hc)
  cases withList
  · simpa using hq
  · simpa using hc3 _ hq

theorem mapM_some {α β : Type} (f : α → Option β) : ∀ (l : List α), (∀ a ∈ l, (f a).isSome = true) → (l.mapM f).isSome = true
  | [], _ => rfl
  | a :: l, h => by
    have ha := h a (by simp)
    have hl := mapM_some f l (fun b hb => h b (by simp [hb]))
    cases hfa : f a with
    | none => simp [hfa] at ha
    | some b =>
      cases hfl : l.mapM f with
      | none => simp [hfl] at hl
      | some bs => simp [List.mapM_cons, hfa, hfl]

/-- **`optimize` reaches none of its panic sites on rules whose counts the reader lets through.** -/
theorem optimizeWith_total (extras withList : Bool) (rules : List Rule) (h : ∀ r ∈ rules, posCounts r.expr = true) :
    (optimizeWith extras withList rules).isSome = true := by
  unfold optimizeWith
  have := mapM_some (fun r => (astPasses extras withList rules r).bind fun r =>
      (toOptimized extras r.expr).map fun e => (⟨r.name, r.ty, e⟩ : ORule)) rules (by
    intro r hr
    obtain ⟨r', h1, h2⟩ := astPasses_total extras withList rules r (h r hr)
    have h3 := toOptimized_total extras r'.expr h2
    simp only [h1, Option.bind_some]
    cases hx : toOptimized extras r'.expr with
    | none => simp [hx] at h3
    | some e => rfl)
  cases hm : rules.mapM (fun r => (astPasses extras withList rules r).bind fun r =>
      (toOptimized extras r.expr).map fun e => (⟨r.name, r.ty, e⟩ : ORule)) with
  | none => simp [hm] at this
  | some opt => rfl

/-! ### what the reader returns has such counts -/

theorem posCounts_foldGo : ∀ (xs : List (Bool × Expr)) (acc : Option Expr) (cur : Expr),
    (∀ a, acc = some a → posCounts a = true) → posCounts cur = true → (∀ p ∈ xs, posCounts p.2 = true) →
    posCounts (PestModel.C07Full.foldGo acc cur xs) = true
  | [], acc, cur, ha, hc, _ => by
    cases acc with
    | none => simpa [PestModel.C07Full.foldGo, PestModel.C07Full.joinE] using hc
    | some a => simp [PestModel.C07Full.foldGo, PestModel.C07Full.joinE, posCounts, ha a rfl, hc]
  | (false, x) :: r, acc, cur, ha, hc, hx => by
    simp only [PestModel.C07Full.foldGo]
    exact posCounts_foldGo r acc _ ha (by simp [posCounts, hc, hx (false, x) (by simp)]) (fun p hp => hx p (by simp [hp]))
  | (true, x) :: r, acc, cur, ha, hc, hx => by
    simp only [PestModel.C07Full.foldGo]
    refine posCounts_foldGo r _ x ?_ (hx (true, x) (by simp)) (fun p hp => hx p (by simp [hp]))
    intro a h; cases h
    cases acc with
    | none => simpa [PestModel.C07Full.joinE] using hc
    | some a' => simp [PestModel.C07Full.joinE, posCounts, ha a' rfl, hc]

theorem posCounts_applyPosts : ∀ (posts : List Post) (x : Expr), posCounts x = true → (∀ p ∈ posts, p.ok) →
    posCounts (applyPosts x posts) = true
  | [], x, h, _ => h
  | p :: ps, x, h, hok => by
    have : applyPosts x (p :: ps) = applyPosts (p.apply x) ps := rfl
    rw [this]
    apply posCounts_applyPosts ps _ _ (fun q hq => hok q (by simp [hq]))
    have hp := hok p (by simp)
    cases p <;> simp_all [Post.apply, Post.ok, posCounts]

theorem posCounts_leaf {extras : Bool} {x : Expr} (h : isLeaf extras x = true) : posCounts x = true := by
  cases x <;> simp [isLeaf] at h <;> rfl

mutual
  theorem posCounts_denE {extras : Bool} : ∀ {e : Expr}, DenE extras e → posCounts e = true
    | _, .mk x0 xs h0 hxs => posCounts_foldGo xs none x0 (by intro a h; cases h) (posCounts_denT h0)
        (fun p hp => posCounts_denT (hxs p hp))
  theorem posCounts_denT {extras : Bool} : ∀ {e : Expr}, DenT extras e → posCounts e = true
    | _, .tagged _ _ hb => by simpa [posCounts] using posCounts_denB hb
    | _, .plain hb => posCounts_denB hb
  theorem posCounts_denB {extras : Bool} : ∀ {e : Expr}, DenB extras e → posCounts e = true
    | _, .pos hb => by simpa [posCounts] using posCounts_denB hb
    | _, .neg hb => by simpa [posCounts] using posCounts_denB hb
    | _, .node posts hn hok => posCounts_applyPosts posts _ (posCounts_denN hn) hok
  theorem posCounts_denN {extras : Bool} : ∀ {e : Expr}, DenN extras e → posCounts e = true
    | _, .paren he => posCounts_denE he
    | _, .push he => by simpa [posCounts] using posCounts_denE he
    | _, .leaf hl => posCounts_leaf hl
end

theorem posCounts_rulesV {extras : Bool} {text : Str} {forest : List PestModel.Views.Tree} {rs : List Rule}
    (h : RulesV extras text forest rs) : ∀ r ∈ rs, posCounts r.expr = true := by
  induction h with
  | nil => intro r hr; simp at hr
  | other _ _ ih => exact ih
  | doc _ _ _ _ ih => exact ih
  | rule _ hr _ ih =>
    intro r hmem
    rcases List.mem_cons.1 hmem with rfl | hmem
    · obtain ⟨_, _, _, _, _, _, _, _, _, _, _, he⟩ := hr
      exact posCounts_denE (denE_of_exprV he)
    · exact ih r hmem

end PestModel.OptTotal
