import PestModel.Lemmas.VmRefEnv
import PestModel.Lemmas.VmRefLoop
/-! C01: an expression that `emits` produces a non-empty forest (so a node tag lands on its own last
token). -/
namespace PestModel.VmRef
open PestModel.G PestModel.PS PestModel.Lower PestModel.Ref PestModel.Views
open PestModel.LineCol (Str)

theorem setLastTag_ne_nil {f : List Tree} (t : Str) (h : f ≠ []) : Ref.setLastTag f t ≠ [] := by
  rcases List.eq_nil_or_concat f with h' | ⟨init, last, h'⟩
  · exact absurd h' h
  · subst h'
    cases last with
    | node r a b tag cs =>
      have : init.concat (Tree.node r a b tag cs) = init ++ [Tree.node r a b tag cs] := by simp
      rw [this, setLastTag_concat]
      simp

theorem prepend_ok {acc : List Tree} {r : Res} {s : St} {f : List Tree} (h : r.prepend acc = .ok s f) :
    ∃ f', f = acc ++ f' := by
  cases r <;> simp [Res.prepend] at h
  exact ⟨_, h.2.symm⟩

theorem emits_spec (env : Env) (extras : Bool) (input : Str) (m : Atomicity) (e : OExpr) :
    emits env.rules m e = true → ∀ σ σ' f,
    val (mkCtx env extras input) m false (ofOptimized e) σ = .ok σ' f → f ≠ [] := by
  induction e with
  | ident n =>
    intro h σ σ' f hv
    unfold emits at h
    cases hidx : env.index n with
    | none =>
      rw [(index_none (extras := extras) (input := input) hidx).2.2] at h
      cases h
    | some i =>
      obtain ⟨r, -, -, -, hrule, hfind⟩ := index_some (extras := extras) (input := input) hidx
      rw [hfind] at h
      dsimp only at h
      rw [ofOptimized, val_ident, valCa_unfold, hrule] at hv
      dsimp only [oruleToRule] at hv
      cases hb : val (mkCtx env extras input) (bodyMode r.name r.ty m) false (ofOptimized r.expr) σ with
      | ok s1 f1 =>
        rw [hb] at hv
        simp only [h, if_true, Res.ok.injEq] at hv
        rw [← hv.2]; simp
      | fail => rw [hb] at hv; cases hv
      | stuck => rw [hb] at hv; cases hv
      | fuel => rw [hb] at hv; cases hv
  | seq a b iha ihb =>
    intro h σ σ' f hv
    simp only [emits, Bool.or_eq_true] at h
    rw [ofOptimized, val_seq] at hv
    cases h1 : val (mkCtx env extras input) m false (ofOptimized a) σ with
    | ok s1 f1 =>
      rw [h1] at hv; dsimp only at hv
      cases h2 : valK (mkCtx env extras input) m false s1 with
      | ok s2 f2 =>
        rw [h2] at hv; dsimp only at hv
        cases h3 : val (mkCtx env extras input) m false (ofOptimized b) s2 with
        | ok s3 f3 =>
          rw [h3] at hv
          simp only [Res.ok.injEq] at hv
          rw [← hv.2]
          rcases h with h | h
          · have := iha h σ s1 f1 h1
            simp [this]
          · have := ihb h s2 s3 f3 h3
            simp [this]
        | fail => rw [h3] at hv; cases hv
        | stuck => rw [h3] at hv; cases hv
        | fuel => rw [h3] at hv; cases hv
      | fail => rw [h2] at hv; cases hv
      | stuck => rw [h2] at hv; cases hv
      | fuel => rw [h2] at hv; cases hv
    | fail => rw [h1] at hv; cases hv
    | stuck => rw [h1] at hv; cases hv
    | fuel => rw [h1] at hv; cases hv
  | choice a b iha ihb =>
    intro h σ σ' f hv
    simp only [emits, Bool.and_eq_true] at h
    rw [ofOptimized, val_choice] at hv
    cases h1 : val (mkCtx env extras input) m false (ofOptimized a) σ with
    | ok s1 f1 =>
      rw [h1] at hv
      simp only [Res.ok.injEq] at hv
      rw [← hv.2]
      exact iha h.1 σ s1 f1 h1
    | fail => rw [h1] at hv; exact ihb h.2 σ σ' f hv
    | stuck => rw [h1] at hv; cases hv
    | fuel => rw [h1] at hv; cases hv
  | push e ih =>
    intro h σ σ' f hv
    simp only [emits] at h
    rw [ofOptimized, val_push] at hv
    cases h1 : val (mkCtx env extras input) m false (ofOptimized e) σ with
    | ok s1 f1 =>
      rw [h1] at hv; dsimp only at hv
      split at hv
      · simp only [Res.ok.injEq] at hv
        rw [← hv.2]
        exact ih h σ s1 f1 h1
      · cases hv
    | fail => rw [h1] at hv; cases hv
    | stuck => rw [h1] at hv; cases hv
    | fuel => rw [h1] at hv; cases hv
  | restoreOnErr e ih =>
    intro h σ σ' f hv
    exact ih (by simpa [emits] using h) σ σ' f hv
  | nodeTag e t ih =>
    intro h σ σ' f hv
    simp only [emits] at h
    rw [ofOptimized, val_nodeTag] at hv
    cases h1 : val (mkCtx env extras input) m false (ofOptimized e) σ with
    | ok s1 f1 =>
      rw [h1] at hv
      simp only [Bool.false_eq_true, if_false, Res.ok.injEq] at hv
      rw [← hv.2]
      exact setLastTag_ne_nil t (ih h σ s1 f1 h1)
    | fail => rw [h1] at hv; cases hv
    | stuck => rw [h1] at hv; cases hv
    | fuel => rw [h1] at hv; cases hv
  | repOnce e ih =>
    intro h σ σ' f hv
    simp only [emits] at h
    rw [ofOptimized, val_repOnce] at hv
    split at hv
    · cases h1 : val (mkCtx env extras input) m false (ofOptimized e) σ with
      | ok s1 f1 =>
        rw [h1] at hv; dsimp only at hv
        rw [valL_acc] at hv
        obtain ⟨f', rfl⟩ := prepend_ok hv
        have := ih h σ s1 f1 h1
        simp [this]
      | fail => rw [h1] at hv; cases hv
      | stuck => rw [h1] at hv; cases hv
      | fuel => rw [h1] at hv; cases hv
    · rw [val_seq] at hv
      cases h1 : val (mkCtx env extras input) m false (ofOptimized e) σ with
      | ok s1 f1 =>
        rw [h1] at hv; dsimp only at hv
        have hne := ih h σ s1 f1 h1
        cases h2 : valK (mkCtx env extras input) m false s1 with
        | ok s2 f2 =>
          rw [h2] at hv; dsimp only at hv
          cases h3 : val (mkCtx env extras input) m false (.rep (ofOptimized e)) s2 with
          | ok s3 f3 =>
            rw [h3] at hv
            simp only [Res.ok.injEq] at hv
            rw [← hv.2]
            simp [hne]
          | fail => rw [h3] at hv; cases hv
          | stuck => rw [h3] at hv; cases hv
          | fuel => rw [h3] at hv; cases hv
        | fail => rw [h2] at hv; cases hv
        | stuck => rw [h2] at hv; cases hv
        | fuel => rw [h2] at hv; cases hv
      | fail => rw [h1] at hv; cases hv
      | stuck => rw [h1] at hv; cases hv
      | fuel => rw [h1] at hv; cases hv
  | _ => intro h; simp [emits] at h

end PestModel.VmRef
