import PestModel.Lemmas.VmRefBuiltin
import PestModel.Lemmas.VmRefLoop
import PestModel.Lemmas.RefConcat
import PestModel.Lemmas.VmRefTag
/-! C01, part 8: the main induction — every lowered expression, rule call and `skip` implements the
reference denotation. -/
namespace PestModel.VmRef
open PestModel.G PestModel.PS PestModel.Lower PestModel.Ref PestModel.Views
open PestModel.LineCol (Str isBoundary bLen cLen splitAt? slice?)

section
variable (env : Env) (extras memchr : Bool) (input : Str)

/-- the context side conditions of an expression evaluated in mode `m`: the rules it refers to can be
entered in mode `m`, and its node tags sit on token-emitting operands. -/
def CtxOK (m : Atomicity) (e : OExpr) : Prop :=
  (∀ n' ∈ identsOf e, Reach env.rules n' m) ∧ TagOK extras env.rules m e

/-- the statement for expressions at fuel `n`. -/
def PE (n : Nat) : Prop :=
  ∀ (e : OExpr) (m : Atomicity) (la : Bool), GoodE extras env.rules e → CtxOK env extras m e →
    Spec (mkCfg env memchr) input n (vmExpr env m e) m la
      (val (mkCtx env extras input) m la (ofOptimized e)) (Rest (¬ Dirty env.rules e))

theorem PE_zero : PE env extras memchr input 0 := fun _ _ _ _ _ => Spec.zero _ _ _ _ _

variable {env extras memchr input}

theorem CtxOK.left {m : Atomicity} {a b : OExpr} (h : CtxOK env extras m (.seq a b)) : CtxOK env extras m a :=
  ⟨fun n hn => h.1 n (by simp [identsOf, hn]), h.2.1⟩
theorem CtxOK.right {m : Atomicity} {a b : OExpr} (h : CtxOK env extras m (.seq a b)) : CtxOK env extras m b :=
  ⟨fun n hn => h.1 n (by simp [identsOf, hn]), h.2.2⟩
theorem CtxOK.cleft {m : Atomicity} {a b : OExpr} (h : CtxOK env extras m (.choice a b)) :
    CtxOK env extras m a := ⟨fun n hn => h.1 n (by simp [identsOf, hn]), h.2.1⟩
theorem CtxOK.cright {m : Atomicity} {a b : OExpr} (h : CtxOK env extras m (.choice a b)) :
    CtxOK env extras m b := ⟨fun n hn => h.1 n (by simp [identsOf, hn]), h.2.2⟩
theorem CtxOK.tag {m : Atomicity} {e : OExpr} {t : Str} (h : CtxOK env extras m (.nodeTag e t)) :
    CtxOK env extras m e := ⟨h.1, h.2.2.2⟩

theorem PE_le {n : Nat} (ih : ∀ k, k < n → PE env extras memchr input k) (k : Nat) (hk : k ≤ n - 1) :
    PE env extras memchr input k := by
  by_cases h : k < n
  · exact ih k h
  · have : k = 0 := by omega
    rw [this]; exact PE_zero _ _ _ _

theorem ruleD_false (id : Nat) (D : St → Res) (σ : St) : ruleD id false D σ = D σ := by
  unfold ruleD
  cases D σ <;> rfl

theorem bodyMode_ws {name : String} (h : isWsCm name = true) (ty : RuleType) (m : Atomicity) :
    bodyMode name ty m = if ty = .compound then .compound else .atomic := by
  unfold bodyMode
  rw [if_pos (by simpa [isWsCm] using h)]

theorem bodyMode_nws {name : String} (h : ¬ isWsCm name = true) (ty : RuleType) (m : Atomicity) :
    bodyMode name ty m = match ty with
      | .normal | .silent => m
      | .atomic => .atomic
      | .compound => .compound
      | .nonAtomic => .nonAtomic := by
  unfold bodyMode
  rw [if_neg (by simpa [isWsCm] using h)]
  cases ty <;> rfl

/-- `Vm::parse_rule` for a user rule: the call tree implements the reference's rule call. -/
theorem spec_vmRule {N : Nat} (ih : ∀ k, k ≤ N → PE env extras memchr input k) (i : Nat) (r : ORule)
    (hg : GoodE extras env.rules r.expr) (m : Atomicity) (la : Bool)
    (hc : CtxOK env extras (bodyMode r.name r.ty m) r.expr) :
    Spec (mkCfg env memchr) input N (vmRule env i r m) m la
      (ruleD i (emitsFor r.ty m la)
        (val (mkCtx env extras input) (bodyMode r.name r.ty m) la (ofOptimized r.expr)))
      (Rest (¬ Dirty env.rules r.expr)) := by
  have e1 : ∀ x : Atomicity, x ≠ .atomic → ∀ la : Bool, (!la && decide (x ≠ .atomic)) = !la := by
    intro x hx la; simp [hx]
  unfold vmRule
  by_cases hws : isWsCm r.name = true
  · rw [if_pos hws, bodyMode_ws hws]
    rw [bodyMode_ws hws] at hc
    revert hc
    cases hty : r.ty <;> dsimp only <;> intro hc
    · exact spec_rule i (spec_atomic .atomic (ih _ (by omega) r.expr .atomic la hg hc))
    · exact (spec_atomic .atomic (ih _ (by omega) r.expr .atomic la hg hc)).congr
        fun σ => (ruleD_false _ _ σ).symm
    · exact spec_rule i (spec_atomic .atomic (ih _ (by omega) r.expr .atomic la hg hc))
    · refine (spec_atomic .compound (spec_rule i (ih _ (by omega) r.expr .compound la hg hc))).congr
        fun σ => ?_
      rw [e1 _ (by decide)]; rfl
    · refine (spec_atomic .nonAtomic (spec_rule i (spec_atomic .atomic
        (ih _ (by omega) r.expr .atomic la hg hc)))).congr fun σ => ?_
      rw [e1 _ (by decide)]; rfl
  · rw [if_neg hws, bodyMode_nws hws]
    rw [bodyMode_nws hws] at hc
    revert hc
    cases hty : r.ty <;> dsimp only <;> intro hc
    · exact spec_rule i (ih _ (by omega) r.expr m la hg hc)
    · exact (ih _ (Nat.le_refl _) r.expr m la hg hc).congr fun σ => (ruleD_false _ _ σ).symm
    · exact spec_rule i (spec_atomic .atomic (ih _ (by omega) r.expr .atomic la hg hc))
    · refine (spec_atomic .compound (spec_rule i (ih _ (by omega) r.expr .compound la hg hc))).congr
        fun σ => ?_
      rw [e1 _ (by decide)]; rfl
    · refine (spec_atomic .nonAtomic (spec_rule i (ih _ (by omega) r.expr .nonAtomic la hg hc))).congr
        fun σ => ?_
      rw [e1 _ (by decide)]; rfl

variable (hsize : env.rules.length ≤ 333333333) (hgood : GoodRules extras env.rules)
  (htr : TagRules extras env.rules)
include hsize hgood htr

/-- a rule reference `Ident(name)` in context `m`. -/
theorem spec_callRule {n : Nat} (ih : ∀ k, k < n → PE env extras memchr input k) (name : String)
    (m : Atomicity) (la : Bool) (hreach : Reach env.rules name m) :
    Spec (mkCfg env memchr) input n (callRule env name m) m la
      (valCa (mkCtx env extras input) m la name) (Rest (¬ Dirty env.rules (.ident name))) := by
  unfold callRule
  cases hidx : env.index name with
  | none =>
    dsimp only
    refine (spec_builtin (extras := extras) hsize name).congr fun σ => ?_
    rw [valCa_unfold, (index_none hidx).1]
  | some i =>
    dsimp only
    obtain ⟨r, hget, hname, hlook, hrule, hfind⟩ := index_some (extras := extras) (input := input) hidx
    have hmem : r ∈ env.rules := List.mem_of_getElem? hget
    have hg : GoodE extras env.rules r.expr := hgood.expr r hmem
    have hc : CtxOK env extras (bodyMode r.name r.ty m) r.expr :=
      ⟨fun n' hn' => Reach.step hreach hfind hn', htr r hmem m (by rw [hname]; exact hreach)⟩
    have := spec_vmRule (N := n - 1) (fun k hk => PE_le ih k hk) i r hg m la hc
    refine ((spec_call (env_get m hget) this).weaken fun _ _ h =>
      h.mono fun hd hb => hd (Dirty.ident hlook hb)).congr fun σ => ?_
    rw [valCa_unfold, hrule]
    rfl

omit hsize hgood htr in
theorem skipD_eq (c : Ctx) (la : Bool) (σ : St) :
    seqD (fun σ => valSt c la "WHITESPACE" σ []) (fun σ => valCl c la σ []) σ =
      match valSt c la "WHITESPACE" σ [] with
      | .ok s1 f1 => valCl c la s1 f1
      | r => r := by
  unfold seqD
  dsimp only
  cases valSt c la "WHITESPACE" σ [] with
  | ok s1 f1 =>
    dsimp only
    rw [valCl_acc c la s1 f1]
    cases valCl c la s1 [] <;> rfl
  | fail => rfl
  | stuck => rfl
  | fuel => rfl

/-- the implicit `skip` between sequence elements and repetition units. -/
theorem spec_skipProg {n : Nat} (ih : ∀ k, k < n → PE env extras memchr input k) (m : Atomicity)
    (la : Bool) :
    Spec (mkCfg env memchr) input n (skipProg env m) m la (valK (mkCtx env extras input) m la)
      Any := by
  have hcall : ∀ (j : Nat), j ≤ n → ∀ name, ¬ Dirty env.rules (.ident name) →
      Spec (mkCfg env memchr) input j (callRule env name .nonAtomic) .nonAtomic la
        (valCa (mkCtx env extras input) .nonAtomic la name) (Rest True) := fun j hj name hd =>
    (spec_callRule hsize hgood htr (fun k hk => ih k (by omega)) name .nonAtomic la
      (Reach.entry name)).weaken fun _ _ h => h.mono fun _ => hd
  unfold skipProg
  by_cases hm : m ≠ .nonAtomic
  · rw [if_pos hm]
    exact spec_ok.congr fun σ => (valK_atomic _ _ _ _ hm).symm
  · rw [if_neg hm]
    have hm' : m = .nonAtomic := by simpa using hm
    subst hm'
    have hK : ∀ σ, valK (mkCtx env extras input) .nonAtomic la σ =
        match env.has "WHITESPACE", env.has "COMMENT" with
        | false, false => .ok σ []
        | true, false => valSt (mkCtx env extras input) la "WHITESPACE" σ []
        | false, true => valSt (mkCtx env extras input) la "COMMENT" σ []
        | true, true =>
          match valSt (mkCtx env extras input) la "WHITESPACE" σ [] with
          | .ok s1 f1 => valCl (mkCtx env extras input) la s1 f1
          | r => r := by
      intro σ
      rw [valK_eq]
      unfold skipWsF
      rw [if_neg (by simp), has_eq, has_eq]
      rfl
    have hws : ∀ j, j ≤ n → ∀ E, Spec (mkCfg env memchr) input j
        (.repeat_ (callRule env "WHITESPACE" .nonAtomic)) .nonAtomic la
        (fun σ => valSt (mkCtx env extras input) la "WHITESPACE" σ []) E := fun j hj E =>
      spec_repeat (isLoop_valSt _ la "WHITESPACE") fun j' _ => hcall j' (by omega) _ hgood.ws
    cases h1 : env.has "WHITESPACE" <;> cases h2 : env.has "COMMENT" <;> dsimp only
    · refine spec_ok.congr fun σ => ?_
      rw [hK, h1, h2]
    · refine (spec_repeat (isLoop_valSt _ la "COMMENT") fun j' _ =>
        hcall j' (by omega) _ hgood.cm).congr fun σ => ?_
      rw [hK, h1, h2]
    · refine (hws n (Nat.le_refl _) _).congr fun σ => ?_
      rw [hK, h1, h2]
    · have inner : ∀ j, j ≤ n → Spec (mkCfg env memchr) input j
          (.sequence (.andThen (callRule env "COMMENT" .nonAtomic)
            (.repeat_ (callRule env "WHITESPACE" .nonAtomic)))) .nonAtomic la
          (seqD (valCa (mkCtx env extras input) .nonAtomic la "COMMENT")
            (fun σ => valSt (mkCtx env extras input) la "WHITESPACE" σ [])) (Rest True) := fun j hj =>
        spec_sequence (spec_andThen (hcall _ (by omega) _ hgood.cm) (hws _ (by omega) Any))
      have outer := spec_andThen_left (hws (n - 1 - 1) (by omega) Any)
        (spec_repeat (n := n - 1 - 1) (E := fun _ _ => False) (isLoop_valCl (mkCtx env extras input) la)
          fun j' _ => inner j' (by omega))
      refine ((spec_sequence outer).weaken fun _ _ _ => trivial).congr fun σ => ?_
      rw [hK, h1, h2, skipD_eq]

omit hsize hgood htr in
theorem seqD3_eq (D1 D2 D3 : St → Res) (σ : St) :
    seqD (seqD D1 D2) D3 σ =
      match D1 σ with
      | .ok s1 f1 =>
        match D2 s1 with
        | .ok s2 f2 =>
          match D3 s2 with
          | .ok s3 f3 => .ok s3 (f1 ++ f2 ++ f3)
          | r => r
        | r => r
      | r => r := by
  unfold seqD
  cases D1 σ with
  | ok s1 f1 =>
    dsimp only
    cases D2 s1 with
    | ok s2 f2 => rfl
    | fail => rfl
    | stuck => rfl
    | fuel => rfl
  | fail => rfl
  | stuck => rfl
  | fuel => rfl

omit hsize hgood htr in
theorem repD_eq (c : Ctx) (m : Atomicity) (la : Bool) (e : Expr) (σ : St) :
    seqD (val c m la e) (fun σ => valL c m la e σ []) σ =
      match val c m la e σ with
      | .ok s1 f1 => valL c m la e s1 f1
      | r => r := by
  unfold seqD
  cases val c m la e σ with
  | ok s1 f1 =>
    dsimp only
    rw [valL_acc c m la e s1 f1]
    cases valL c m la e s1 [] <;> rfl
  | fail => rfl
  | stuck => rfl
  | fuel => rfl

/-- **the main induction.** -/
theorem PE_all : ∀ n, PE env extras memchr input n := by
  intro n
  induction n using Nat.strongRecOn with
  | _ n ih =>
  have ihle := PE_le ih
  intro e m la hg hc
  have w : ∀ {p D} {cl : Prop}, Spec (mkCfg env memchr) input n p m la D (Rest True) →
      Spec (mkCfg env memchr) input n p m la D (Rest cl) := fun h => h.weaken fun _ _ => rest_weaken
  -- the repetition tail `(skip ~ e)*`
  have tail : ∀ (e : OExpr), GoodE extras env.rules e → CtxOK env extras m e → ∀ j, j ≤ n - 1 → ∀ E,
      Spec (mkCfg env memchr) input j
        (.repeat_ (.sequence (.andThen (skipProg env m) (vmExpr env m e)))) m la
        (fun σ => valL (mkCtx env extras input) m la (ofOptimized e) σ []) E := fun e hge hce j hj E =>
    spec_repeat (isLoop_valL _ m la (ofOptimized e)) fun j' hj' =>
      spec_sequence (spec_andThen
        (spec_skipProg hsize hgood htr (fun k hk => ih k (by omega)) m la)
        (ihle _ (by omega) e m la hge hce))
  cases e with
  | str s => exact w ((spec_matchString (c := mkCtx env extras input) s).congr fun σ => (val_str ..).symm)
  | insens s =>
    exact w ((spec_matchInsensitive (c := mkCtx env extras input) s).congr fun σ => (val_insens ..).symm)
  | range a b => exact w ((spec_matchRange (c := mkCtx env extras input) a b).congr fun σ => (val_range ..).symm)
  | ident name =>
    exact (spec_callRule hsize hgood htr ih name m la (hc.1 name (by simp [identsOf]))).congr
      fun σ => (val_ident ..).symm
  | peekSlice a b =>
    refine w ((spec_peekSlice (c := mkCtx env extras input) a b).congr fun σ => ?_)
    show _ = val _ m la (.peekSlice a b) σ
    rw [val_eq]; rfl
  | posPred e =>
    refine w ((spec_lookahead true (ihle _ (Nat.le_refl _) e m true hg hc)).congr fun σ => ?_)
    show _ = val _ m la (.posPred (ofOptimized e)) σ
    rw [val_posPred]; rfl
  | negPred e =>
    refine w ((spec_lookahead false (ihle _ (Nat.le_refl _) e m true hg hc)).congr fun σ => ?_)
    show _ = val _ m la (.negPred (ofOptimized e)) σ
    rw [val_negPred]; rfl
  | seq a b =>
    obtain ⟨hga, hgb⟩ := hg
    refine w ((spec_sequence (spec_andThen (spec_andThen (ihle _ (by omega) a m la hga hc.left)
      (spec_skipProg hsize hgood htr (fun k hk => ih k (by omega)) m la))
      (ihle _ (by omega) b m la hgb hc.right))).congr fun σ => ?_)
    show _ = val _ m la (.seq (ofOptimized a) (ofOptimized b)) σ
    rw [val_seq, seqD3_eq]; rfl
  | choice a b =>
    obtain ⟨hda, hga, hgb⟩ := hg
    refine ((spec_orElse ((ihle _ (Nat.le_refl _) a m la hga hc.cleft).weaken fun _ _ h => h.mono fun _ => hda)
      (ihle _ (Nat.le_refl _) b m la hgb hc.cright)).weaken fun _ _ h => h.mono fun hd hb =>
        hd (Dirty.choiceR hb)).congr fun σ => ?_
    show _ = val _ m la (.choice (ofOptimized a) (ofOptimized b)) σ
    rw [val_choice]; rfl
  | opt e =>
    obtain ⟨hd, hge⟩ := hg
    refine (spec_optional ((ihle _ (Nat.le_refl _) e m la hge hc).weaken fun _ _ h =>
      h.mono fun _ => hd)).congr fun σ => ?_
    show _ = val _ m la (.opt (ofOptimized e)) σ
    rw [val_opt]; rfl
  | rep e =>
    obtain ⟨hd, hge⟩ := hg
    refine w ((spec_sequence (spec_optional (E := Any) (spec_andThen_left
      ((ihle _ (by omega) e m la hge hc).weaken fun _ _ h => h.mono fun _ => hd)
      (tail e hge hc _ (by omega) _)))).congr fun σ => ?_)
    show _ = val _ m la (.rep (ofOptimized e)) σ
    rw [val_rep]
    unfold optD
    rw [repD_eq]
    cases val (mkCtx env extras input) m la (ofOptimized e) σ with
    | ok s1 f1 =>
      dsimp only
      have := valL_ne_fail (mkCtx env extras input) m la (ofOptimized e) s1 f1
      cases h : valL (mkCtx env extras input) m la (ofOptimized e) s1 f1 <;> simp_all
    | fail => rfl
    | stuck => rfl
    | fuel => rfl
  | repOnce e =>
    obtain ⟨hx, hge⟩ := hg
    refine w ((spec_sequence (spec_andThen (ihle _ (by omega) e m la hge hc)
      (tail e hge hc _ (by omega) Any))).congr fun σ => ?_)
    show _ = val _ m la (.repOnce (ofOptimized e)) σ
    rw [val_repOnce, repD_eq, if_pos (by exact hx)]; rfl
  | skip ss =>
    refine (spec_skipUntil (c := mkCtx env extras input) ss).congr fun σ => ?_
    show _ = val _ m la (.skip ss) σ
    rw [val_skip]; rfl
  | push e =>
    refine ((spec_stackPush (ihle _ (Nat.le_refl _) e m la hg hc)).weaken fun _ _ h =>
      h.mono fun hd hb => hd (Dirty.push hb)).congr fun σ => ?_
    show _ = val _ m la (.push (ofOptimized e)) σ
    rw [val_push]; rfl
  | pushLiteral s =>
    refine (spec_stackPushLiteral (c := mkCtx env extras input) s).congr fun σ => ?_
    show _ = val _ m la (.pushLiteral s) σ
    rw [val_pushLiteral]
  | nodeTag e t =>
    refine ((spec_tag t (ihle _ (Nat.le_refl _) e m la hg hc.tag) fun hla σ σ' f hv => ?_).weaken
      fun _ _ h => h.mono fun hd hb => hd (Dirty.nodeTag hb)).congr fun σ => ?_
    · subst hla
      exact emits_spec env extras input m e hc.2.2.1 σ σ' f hv
    · show _ = val _ m la (.nodeTag (ofOptimized e) t) σ
      rw [val_nodeTag]; rfl
  | restoreOnErr e => exact w (spec_restoreOnErr (ihle _ (Nat.le_refl _) e m la hg hc))

end
end PestModel.VmRef
