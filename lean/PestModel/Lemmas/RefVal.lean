import PestModel.Lemmas.RefLim
/-! C05 helper lemmas, part 4: fuel-free semantics `val` and its defining equations; bridge to
`Evals` / `Equiv`. -/
namespace PestModel.Ref
open PestModel.G
open PestModel.LineCol (Str bLen cLen splitAt?)
open PestModel.Views (Tree)
open PestModel.PS (Atomicity CharSet restAt asciiLower eqIgnoreAsciiCase normalizeIndex)

noncomputable def val (c : Ctx) := (V c).d
noncomputable def valL (c : Ctx) := (V c).l
noncomputable def valK (c : Ctx) := (V c).k
noncomputable def valSt (c : Ctx) := (V c).st
noncomputable def valCl (c : Ctx) := (V c).cl
noncomputable def valCa (c : Ctx) := (V c).ca

theorem lev_le_V (c : Ctx) (n : Nat) : (lev c n).le (V c) := by
  have hc := lev_conv c
  constructor <;> intros
  · obtain ⟨N, hN⟩ := hc.d ‹_› ‹_› ‹_› ‹_›
    have := (lev_mono c (Nat.le_add_right n N)).d ‹_› ‹_› ‹_› ‹_›
    have hN' := hN (n + N) (by omega)
    simp only at hN'
    rwa [hN'] at this
  · obtain ⟨N, hN⟩ := hc.l ‹_› ‹_› ‹_› ‹_› ‹_›
    have := (lev_mono c (Nat.le_add_right n N)).l ‹_› ‹_› ‹_› ‹_› ‹_›
    have hN' := hN (n + N) (by omega)
    simp only at hN'
    rwa [hN'] at this
  · obtain ⟨N, hN⟩ := hc.k ‹_› ‹_› ‹_›
    have := (lev_mono c (Nat.le_add_right n N)).k ‹_› ‹_› ‹_›
    have hN' := hN (n + N) (by omega)
    simp only at hN'
    rwa [hN'] at this
  · obtain ⟨N, hN⟩ := hc.st ‹_› ‹_› ‹_› ‹_›
    have := (lev_mono c (Nat.le_add_right n N)).st ‹_› ‹_› ‹_› ‹_›
    have hN' := hN (n + N) (by omega)
    simp only at hN'
    rwa [hN'] at this
  · obtain ⟨N, hN⟩ := hc.cl ‹_› ‹_› ‹_›
    have := (lev_mono c (Nat.le_add_right n N)).cl ‹_› ‹_› ‹_›
    have hN' := hN (n + N) (by omega)
    simp only at hN'
    rwa [hN'] at this
  · obtain ⟨N, hN⟩ := hc.ca ‹_› ‹_› ‹_› ‹_›
    have := (lev_mono c (Nat.le_add_right n N)).ca ‹_› ‹_› ‹_› ‹_›
    have hN' := hN (n + N) (by omega)
    simp only at hN'
    rwa [hN'] at this

theorem denote_le_val (c : Ctx) n m la e s : (denote c n m la e s).le (val c m la e s) :=
  (lev_le_V c n).d m la e s

theorem val_of_denote {c : Ctx} {n m la e s r} (h : denote c n m la e s = r) (hr : r ≠ .fuel) :
    val c m la e s = r := by
  rcases denote_le_val c n m la e s with h1 | h1
  · rw [h] at h1; exact absurd h1 hr
  · rw [← h1, h]

theorem exists_denote (c : Ctx) m la e s : ∃ n, denote c n m la e s = val c m la e s := by
  obtain ⟨N, hN⟩ := (lev_conv c).d m la e s
  exact ⟨N, hN N (Nat.le_refl _)⟩

theorem valCa_of_call {c : Ctx} {n m la nm s r} (h : call c n m la nm s = r) (hr : r ≠ .fuel) :
    valCa c m la nm s = r := by
  rcases (lev_le_V c n).ca m la nm s with h1 | h1
  · simp only [lev] at h1; rw [h] at h1; exact absurd h1 hr
  · simp only [lev] at h1; rw [← h, h1]; rfl

theorem exists_call (c : Ctx) m la nm s : ∃ n, call c n m la nm s = valCa c m la nm s := by
  obtain ⟨N, hN⟩ := (lev_conv c).ca m la nm s
  exact ⟨N, hN N (Nat.le_refl _)⟩

theorem evals_iff (c : Ctx) m la e s r : Evals c m la e s r ↔ r ≠ .fuel ∧ val c m la e s = r := by
  constructor
  · rintro ⟨hr, n, hn⟩
    exact ⟨hr, val_of_denote hn hr⟩
  · rintro ⟨hr, hv⟩
    obtain ⟨n, hn⟩ := exists_denote c m la e s
    exact ⟨hr, n, hn.trans hv⟩

theorem equiv_iff (c : Ctx) m e e' : Equiv c m e e' ↔ ∀ la s, val c m la e s = val c m la e' s := by
  constructor
  · intro h la s
    have h1 := h la s (val c m la e s)
    have h2 := h la s (val c m la e' s)
    rw [evals_iff, evals_iff] at h1 h2
    by_cases hf : val c m la e s = .fuel
    · by_cases hf' : val c m la e' s = .fuel
      · rw [hf, hf']
      · exact (h2.2 ⟨hf', rfl⟩).2
    · exact (h1.1 ⟨hf, rfl⟩).2.symm
  · intro h la s r
    simp only [evals_iff, h la s]

theorem means_iff (rules : List Rule) extras uni rule input r :
    Means rules extras uni rule input r ↔
      r ≠ .fuel ∧ valCa { rules := rules, input := input, extras := extras, uni := uni } .nonAtomic false rule ⟨0, []⟩ = r := by
  unfold Means meaning
  constructor
  · rintro ⟨hr, n, hn⟩
    exact ⟨hr, valCa_of_call hn hr⟩
  · rintro ⟨hr, hv⟩
    obtain ⟨n, hn⟩ := exists_call { rules := rules, input := input, extras := extras, uni := uni } .nonAtomic false rule ⟨0, []⟩
    exact ⟨hr, n, hn.trans hv⟩

/-! ### the defining equations -/

theorem val_eq (c : Ctx) m la e s : val c m la e s = denoteF c (V c) m la e s := by
  unfold val; conv => lhs; rw [V_fix]
  rfl
theorem valL_eq (c : Ctx) m la e s acc : valL c m la e s acc = repLoopF (V c) m la e s acc := by
  unfold valL; conv => lhs; rw [V_fix]
  rfl
theorem valK_eq (c : Ctx) m la s : valK c m la s = skipWsF c (V c) m la s := by
  unfold valK; conv => lhs; rw [V_fix]
  rfl
theorem valSt_eq (c : Ctx) la nm s acc : valSt c la nm s acc = starF (V c) la nm s acc := by
  unfold valSt; conv => lhs; rw [V_fix]
  rfl
theorem valCl_eq (c : Ctx) la s acc : valCl c la s acc = commentLoopF (V c) la s acc := by
  unfold valCl; conv => lhs; rw [V_fix]
  rfl
theorem valCa_eq (c : Ctx) m la nm s : valCa c m la nm s = callF c (V c) m la nm s := by
  unfold valCa; conv => lhs; rw [V_fix]
  rfl

variable (c : Ctx) (m : Atomicity) (la : Bool) (s : St)

theorem val_str (str : Str) : val c m la (.str str) s = lit c s str := by rw [val_eq]; rfl
theorem val_range (a b : Char) : val c m la (.range a b) s = oneChar c s (fun ch => a ≤ ch ∧ ch ≤ b) := by
  rw [val_eq]; rfl
theorem val_ident (n : String) : val c m la (.ident n) s = valCa c m la n s := by rw [val_eq]; rfl
theorem val_posPred (e : Expr) : val c m la (.posPred e) s =
    match val c m true e s with
    | .ok _ _ => .ok s []
    | r => r := by rw [val_eq]; rfl
theorem val_negPred (e : Expr) : val c m la (.negPred e) s =
    match val c m true e s with
    | .ok _ _ => .fail
    | .fail => .ok s []
    | r => r := by rw [val_eq]; rfl
theorem val_seq (a b : Expr) : val c m la (.seq a b) s =
    match val c m la a s with
    | .ok s1 f1 =>
      match valK c m la s1 with
      | .ok s2 f2 =>
        match val c m la b s2 with
        | .ok s3 f3 => .ok s3 (f1 ++ f2 ++ f3)
        | r => r
      | r => r
    | r => r := by rw [val_eq]; rfl
theorem val_choice (a b : Expr) : val c m la (.choice a b) s =
    match val c m la a s with
    | .fail => val c m la b s
    | r => r := by rw [val_eq]; rfl
theorem val_opt (e : Expr) : val c m la (.opt e) s =
    match val c m la e s with
    | .fail => .ok s []
    | r => r := by rw [val_eq]; rfl
theorem val_rep (e : Expr) : val c m la (.rep e) s =
    match val c m la e s with
    | .ok s1 f1 => valL c m la e s1 f1
    | .fail => .ok s []
    | r => r := by rw [val_eq]; rfl
theorem val_repOnce (e : Expr) : val c m la (.repOnce e) s =
    if c.extras then
      match val c m la e s with
      | .ok s1 f1 => valL c m la e s1 f1
      | r => r
    else val c m la (.seq e (.rep e)) s := by rw [val_eq]; rfl
theorem val_skip (strs : List Str) : val c m la (.skip strs) s =
    match restAt c.input s.pos with
    | some rest => .ok { s with pos := search strs rest s.pos } []
    | none => .fail := by rw [val_eq]; rfl
theorem val_push (e : Expr) : val c m la (.push e) s =
    match val c m la e s with
    | .ok s1 f1 =>
      match PestModel.LineCol.slice? c.input s.pos s1.pos with
      | some str => .ok { s1 with stack := str :: s1.stack } f1
      | none => .stuck
    | r => r := by rw [val_eq]; rfl
theorem val_pushLiteral (str : Str) : val c m la (.pushLiteral str) s = .ok { s with stack := str :: s.stack } [] := by
  rw [val_eq]; rfl
theorem val_nodeTag (e : Expr) (t : Str) : val c m la (.nodeTag e t) s =
    match val c m la e s with
    | .ok s1 f1 => .ok s1 (if la then f1 else setLastTag f1 t)
    | r => r := by rw [val_eq]; rfl
theorem val_repExact (e : Expr) (n : Nat) : val c m la (.repExact e n) s =
    match seqOfList (List.replicate n e) with
    | some u => val c m la u s
    | none => .stuck := by rw [val_eq]; rfl
theorem val_repMin (e : Expr) (n : Nat) : val c m la (.repMin e n) s =
    match seqOfList (List.replicate n e ++ [.rep e]) with
    | some u => val c m la u s
    | none => .stuck := by rw [val_eq]; rfl
theorem val_repMax (e : Expr) (n : Nat) : val c m la (.repMax e n) s =
    match seqOfList (List.replicate n (.opt e)) with
    | some u => val c m la u s
    | none => .stuck := by rw [val_eq]; rfl
theorem val_repMinMax (e : Expr) (lo hi : Nat) : val c m la (.repMinMax e lo hi) s =
    match seqOfList ((List.range hi).map fun i => if i + 1 ≤ lo then e else .opt e) with
    | some u => val c m la u s
    | none => .stuck := by rw [val_eq]; rfl

theorem valL_unfold (e : Expr) (acc : List Tree) : valL c m la e s acc =
    match valK c m la s with
    | .ok s1 f1 =>
      match val c m la e s1 with
      | .ok s2 f2 => valL c m la e s2 (acc ++ f1 ++ f2)
      | .fail => .ok s acc
      | r => r
    | .fail => .ok s acc
    | r => r := by rw [valL_eq]; rfl

theorem valK_atomic (h : m ≠ .nonAtomic) : valK c m la s = .ok s [] := by
  rw [valK_eq]; simp [skipWsF, h]

theorem valCa_unfold (nm : String) : valCa c m la nm s =
    match c.rule? nm with
    | some (id, r) =>
      match val c (bodyMode r.name r.ty m) la r.expr s with
      | .ok s1 f1 =>
        if emitsFor r.ty m la then .ok s1 [.node id s.pos s1.pos none f1] else .ok s1 f1
      | res => res
    | none => builtin c m la nm s := by rw [valCa_eq]; rfl

end PestModel.Ref
