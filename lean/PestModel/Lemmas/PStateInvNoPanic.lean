import PestModel.Lemmas.PStateInvRule
/-! No panic on well-formed states (error detail off, no `stack_peek`/`stack_pop`). -/
namespace PestModel.PS
open PestModel.LineCol PestModel.Stack

def Good (cfg : Cfg) (p : Prog) : Prop :=
  p.callsBelow cfg.env.length = true ∧ p.noPeekPop = true

def StOK (s : PState) : Prop := s.WF ∧ s.pa.enabled = false

theorem Rel.stok {s s' : PState} (r : Rel s s') (h : StOK s) : StOK s' :=
  ⟨r.wf h.1, r.en.trans h.2⟩

theorem checkpoint_stok {s : PState} (h : StOK s) : StOK (checkpoint s) :=
  ⟨⟨h.1.1, (snapshot_spec s.stack h.1.2).1⟩, h.2⟩

theorem terminal_no_panic (s : PState) (r : Option (Bool × Nat)) (tok : Option PTok)
    (h : ∃ x, r = some x) : terminal s r tok ≠ .panic := by
  obtain ⟨⟨succ, pos'⟩, rfl⟩ := h
  unfold terminal
  simp only []
  split <;> simp

theorem matchPopLoop_isSome (input : Str) (n : Nat) (st : Stk Str) (pos : Nat)
    (hb : isBoundary input pos = true) : ∃ r, matchPopLoop input n st pos = some r := by
  induction n generalizing st pos with
  | zero => exact ⟨_, rfl⟩
  | succ n ih =>
    unfold matchPopLoop
    obtain ⟨st', v, hp⟩ := pop_total st
    rw [hp]
    cases v with
    | none => exact ⟨_, rfl⟩
    | some x =>
      simp only []
      obtain ⟨⟨b, p1⟩, hm⟩ := posMatchString_isSome x hb
      rw [hm]
      cases b with
      | true => exact ih st' p1 (posMatchString_good input pos x _ _ hm).2
      | false => exact ⟨_, rfl⟩

theorem matchAll_ne_none {input : Str} {xs : List Str} {pos : Nat}
    (hb : isBoundary input pos = true) : matchAll input xs pos ≠ none := by
  obtain ⟨r, h⟩ := matchAll_isSome input xs pos hb
  rw [h]; simp

abbrev NPIH (cfg : Cfg) (fuel : Nat) : Prop :=
  ∀ p s, Good cfg p → StOK s → run cfg fuel p s ≠ .panic

section cases
variable (cfg : Cfg) (fuel : Nat)

theorem np_leaf_terminal (s : PState) (hs : StOK s) (str : Str) :
    terminal s (posMatchString s.input s.pos str) (some (.sens str)) ≠ .panic :=
  terminal_no_panic _ _ _ (posMatchString_isSome str hs.1.1)

theorem np_ruleOkPost {s1 ns : PState} {r : Nat} (rb : Rel (rulePre s1) ns)
    (hen : ns.pa.enabled = false) : ruleOkPost s1 r ns ≠ .panic := by
  unfold ruleOkPost
  obtain ⟨a, b, c, ht⟩ := ruleTrackIf_eq s1 r ns
  rw [ht]
  by_cases hc : ruleCond s1
  · have rb' := rb
    rw [rulePre_of_cond hc] at rb'
    obtain ⟨inner, hq⟩ := QLe.snoc_start rb'.q
    have hla : ns.lookahead = .none := rb'.la.trans hc.1
    have hat : ns.atomicity ≠ .atomic := by rw [rb'.atom]; exact hc.2
    have he := ruleEmit_loud (s1 := s1) (r := r)
      (ns := { ns with posAtt := a, negAtt := b, attemptPos := c }) hla hat hq
    rw [he]
    simp only []
    rw [ruleFinish_no_panic (by exact hen)]
    simp
  · have rb' := rb
    rw [rulePre_of_not hc] at rb'
    have hn : ¬ (ns.lookahead = .none ∧ ns.atomicity ≠ .atomic) := by
      rw [rb'.la, rb'.atom]; exact hc
    have he := ruleEmit_silent (s1 := s1) (r := r)
      (ns := { ns with posAtt := a, negAtt := b, attemptPos := c }) hn
    rw [he]
    simp only []
    rw [ruleFinish_no_panic (by exact hen)]
    simp

theorem np_ruleErrPost {s1 ns : PState} {r : Nat} (hen : ns.pa.enabled = false) :
    ruleErrPost s1 r ns ≠ .panic := by
  unfold ruleErrPost
  obtain ⟨ns', h⟩ := ruleErrAdd_no_panic (s1 := s1) (r := r) hen
  rw [h]; simp

theorem np_pushSpan {s1 ns : PState} (rb : Rel s1 ns) (h1 : s1.WF) : pushSpan s1 ns ≠ .panic := by
  unfold pushSpan
  have hw := rb.wf h1
  have : spanNew ns.input s1.pos ns.pos = true := by
    rw [spanNew_iff]
    refine ⟨rb.pos, ?_, hw.1⟩
    rw [rb.input]; exact h1.1
  unfold spanNew at this
  obtain ⟨str, hs⟩ := Option.isSome_iff_exists.mp this
  rw [hs]; simp

variable (henv : ∀ q ∈ cfg.env, Good cfg q) (ih : NPIH cfg fuel)
include henv ih

theorem np_step (p : Prog) (s : PState) (hg : Good cfg p) (hs : StOK s) :
    run cfg (fuel+1) p s ≠ .panic := by
  cases p with
  | ok => rw [run]; simp
  | fail => rw [run]; simp
  | call i =>
    rw [run_call]
    have hi : i < cfg.env.length := by simpa [Good, Prog.callsBelow] using hg.1
    rw [List.getElem?_eq_getElem hi]
    exact ih _ _ (henv _ (List.getElem_mem hi)) hs
  | andThen p q =>
    have hp : Good cfg p := by
      simp [Good, Prog.callsBelow, Prog.noPeekPop] at hg ⊢; exact ⟨hg.1.1, hg.2.1⟩
    have hq : Good cfg q := by
      simp [Good, Prog.callsBelow, Prog.noPeekPop] at hg ⊢; exact ⟨hg.1.2, hg.2.2⟩
    rw [run_andThen]
    cases hb : run cfg fuel p s with
    | ok s1 => exact ih _ _ hq ((run_rel cfg fuel p s s1 (by rw [hb]; rfl)).stok hs)
    | err s1 => simp
    | panic => exact absurd hb (ih _ _ hp hs)
    | fuel => simp
  | orElse p q =>
    have hp : Good cfg p := by
      simp [Good, Prog.callsBelow, Prog.noPeekPop] at hg ⊢; exact ⟨hg.1.1, hg.2.1⟩
    have hq : Good cfg q := by
      simp [Good, Prog.callsBelow, Prog.noPeekPop] at hg ⊢; exact ⟨hg.1.2, hg.2.2⟩
    rw [run_orElse]
    cases hb : run cfg fuel p s with
    | ok s1 => simp
    | err s1 => exact ih _ _ hq ((run_rel cfg fuel p s s1 (by rw [hb]; rfl)).stok hs)
    | panic => exact absurd hb (ih _ _ hp hs)
    | fuel => simp
  | sequence p =>
    have hp : Good cfg p := hg
    rw [run_sequence]
    cases hic : incCall s with
    | none => simp
    | some s1 =>
      have hs1 := (incCall_rel hic).stok hs
      have hc := checkpoint_stok hs1
      simp only []
      cases hb : run cfg fuel p (checkpoint s1) with
      | ok ns =>
        have hns := (run_rel cfg fuel p _ ns (by rw [hb]; rfl)).stok hc
        obtain ⟨ns', h⟩ := checkpointOk_isSome hns.1.2
        simp [h]
      | err ns =>
        have hns := (run_rel cfg fuel p _ ns (by rw [hb]; rfl)).stok hc
        obtain ⟨ns', h⟩ := restoreStack_isSome (ns := seqErrState s1 ns) hns.1.2
        simp [h]
      | panic => exact absurd hb (ih _ _ hp hc)
      | fuel => simp
  | restoreOnErr p =>
    have hp : Good cfg p := hg
    rw [run_restoreOnErr]
    have hc := checkpoint_stok hs
    cases hb : run cfg fuel p (checkpoint s) with
    | ok ns =>
      have hns := (run_rel cfg fuel p _ ns (by rw [hb]; rfl)).stok hc
      obtain ⟨ns', h⟩ := checkpointOk_isSome hns.1.2
      simp [h]
    | err ns =>
      have hns := (run_rel cfg fuel p _ ns (by rw [hb]; rfl)).stok hc
      obtain ⟨ns', h⟩ := restoreStack_isSome hns.1.2
      simp [h]
    | panic => exact absurd hb (ih _ _ hp hc)
    | fuel => simp
  | optional p =>
    have hp : Good cfg p := hg
    rw [run_optional]
    cases hic : incCall s with
    | none => simp
    | some s1 =>
      have hs1 := (incCall_rel hic).stok hs
      simp only []
      cases hb : run cfg fuel p s1 with
      | ok ns => simp
      | err ns => simp
      | panic => exact absurd hb (ih _ _ hp hs1)
      | fuel => simp
  | repeat_ p =>
    have hp : Good cfg (.repLoop p) := hg
    rw [run_repeat]
    cases hic : incCall s with
    | none => simp
    | some s1 => exact ih _ _ hp ((incCall_rel hic).stok hs)
  | repLoop p =>
    have hp : Good cfg p := hg
    rw [run_repLoop]
    cases hb : run cfg fuel p s with
    | ok s1 => exact ih _ _ hg ((run_rel cfg fuel p s s1 (by rw [hb]; rfl)).stok hs)
    | err s1 => simp
    | panic => exact absurd hb (ih _ _ hp hs)
    | fuel => simp
  | lookahead positive p =>
    have hp : Good cfg p := hg
    rw [run_lookahead]
    cases hic : incCall s with
    | none => simp
    | some s1 =>
      have hs1 := (incCall_rel hic).stok hs
      have hc : StOK (checkpoint { s1 with lookahead := laMode positive s1.lookahead }) :=
        checkpoint_stok (s := { s1 with lookahead := laMode positive s1.lookahead }) hs1
      simp only []
      cases hb : run cfg fuel p (checkpoint { s1 with lookahead := laMode positive s1.lookahead }) with
      | ok ns =>
        have hns := (run_rel cfg fuel p _ ns (by rw [hb]; rfl)).stok hc
        obtain ⟨ns', h⟩ := restoreStack_isSome
          (ns := { ns with pos := s1.pos, lookahead := s1.lookahead }) hns.1.2
        simp only [laPost, h]
        split <;> simp
      | err ns =>
        have hns := (run_rel cfg fuel p _ ns (by rw [hb]; rfl)).stok hc
        obtain ⟨ns', h⟩ := restoreStack_isSome
          (ns := { ns with pos := s1.pos, lookahead := s1.lookahead }) hns.1.2
        simp only [laPost, h]
        split <;> simp
      | panic => exact absurd hb (ih _ _ hp hc)
      | fuel => simp
  | atomic a p =>
    have hp : Good cfg p := hg
    rw [run_atomic]
    cases hic : incCall s with
    | none => simp
    | some s1 =>
      have hs1 := (incCall_rel hic).stok hs
      have hc : StOK (atomPre a s1) := by
        unfold atomPre; split
        · exact hs1
        · exact hs1
      simp only []
      cases hb : run cfg fuel p (atomPre a s1) with
      | ok ns => simp
      | err ns => simp
      | panic => exact absurd hb (ih _ _ hp hc)
      | fuel => simp
  | rule r p =>
    have hp : Good cfg p := hg
    rw [run_rule]
    cases hic : incCall s with
    | none => simp
    | some s1 =>
      have hs1 := (incCall_rel hic).stok hs
      have hc : StOK (rulePre s1) := (rulePre_rel s1).stok hs1
      simp only []
      cases hb : run cfg fuel p (rulePre s1) with
      | ok ns =>
        have rb := run_rel cfg fuel p _ ns (by rw [hb]; rfl)
        exact np_ruleOkPost rb (rb.stok hc).2
      | err ns =>
        have rb := run_rel cfg fuel p _ ns (by rw [hb]; rfl)
        exact np_ruleErrPost (rb.stok hc).2
      | panic => exact absurd hb (ih _ _ hp hc)
      | fuel => simp
  | stackPush p =>
    have hp : Good cfg p := hg
    rw [run_stackPush]
    cases hic : incCall s with
    | none => simp
    | some s1 =>
      have hs1 := (incCall_rel hic).stok hs
      simp only []
      cases hb : run cfg fuel p s1 with
      | ok ns => exact np_pushSpan (run_rel cfg fuel p _ ns (by rw [hb]; rfl)) hs1.1
      | err ns => simp
      | panic => exact absurd hb (ih _ _ hp hs1)
      | fuel => simp
  | matchString str => rw [run]; exact terminal_no_panic _ _ _ (posMatchString_isSome str hs.1.1)
  | matchInsensitive str =>
    rw [run]; exact terminal_no_panic _ _ _ (posMatchInsensitive_isSome str hs.1.1)
  | matchRange a b => rw [run]; exact terminal_no_panic _ _ _ (posMatchRange_isSome a b hs.1.1)
  | matchCharBy cs => rw [run]; exact terminal_no_panic _ _ _ (posMatchCharBy_isSome cs hs.1.1)
  | skip n => rw [run]; exact terminal_no_panic _ _ _ (posSkip_isSome n hs.1.1)
  | skipUntil strs =>
    rw [run]
    obtain ⟨r, h⟩ := posSkipUntil_isSome cfg.memchr strs hs.1.1
    rw [h]; simp
  | startOfInput => rw [run]; split <;> simp
  | endOfInput => rw [run]; split <;> simp
  | stackPeek => simp [Good, Prog.noPeekPop] at hg
  | stackPop => simp [Good, Prog.noPeekPop] at hg
  | stackMatchPeek =>
    rw [run]
    split
    · simp
    · obtain ⟨⟨b, p1⟩, h⟩ := matchAll_isSome s.input s.stack.cache s.pos hs.1.1
      rw [h]
      cases b <;> simp
  | stackMatchPop =>
    rw [run]
    obtain ⟨⟨st, b, p1⟩, h⟩ := matchPopLoop_isSome s.input (s.stack.cache.length + 1) s.stack s.pos hs.1.1
    rw [h]
    cases b <;> simp
  | stackDrop =>
    rw [run]
    obtain ⟨st', v, hp⟩ := pop_total s.stack
    rw [hp]
    cases v <;> simp
  | stackMatchPeekSlice start stop dir =>
    rw [run]
    split
    · simp
    · split
      · simp
      · simp only []
        split
        · rename_i hm; exact absurd hm (matchAll_ne_none hs.1.1)
        · simp
        · simp
  | stackPushLiteral str => rw [run]; simp
  | tagNode tag =>
    rw [run]
    split
    · simp
    · split <;> simp

end cases

theorem run_np (cfg : Cfg) (henv : ∀ q ∈ cfg.env, Good cfg q) :
    ∀ fuel p s, Good cfg p → StOK s → run cfg fuel p s ≠ .panic
  | 0, p, s, _, _ => by rw [run_zero]; simp
  | fuel + 1, p, s, hg, hs => np_step cfg fuel henv (run_np cfg henv fuel) p s hg hs

end PestModel.PS
