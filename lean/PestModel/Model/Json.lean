import PestModel.Model.Views
/-
L12 — RFC 8259 as an executable recogniser that also builds the document tree the property
describes (one node per JSON text, value, object, member, array, string, number and literal, each
with its exact source span in bytes). It is a direct transcription of the RFC's ABNF and does not
look at `json.pest`.

Node labels are strings so that the tree can be compared with pest's pairs by rule name.
-/
namespace PestModel.Json
open PestModel.LineCol (Str cLen)

inductive JTree where
  | node (label : String) (start stop : Nat) (children : List JTree)
  deriving Repr, Inhabited

/-- remaining input with the current byte offset. -/
structure Cur where
  rest : Str
  pos : Nat
  deriving Repr

def Cur.adv (c : Cur) : Cur :=
  match c.rest with
  | [] => c
  | ch :: cs => ⟨cs, c.pos + cLen ch⟩

/-- `ws = *( %x20 / %x09 / %x0A / %x0D )` -/
def ws : Nat → Cur → Cur
  | 0, c => c
  | fuel + 1, c =>
    match c.rest with
    | ch :: _ => if ch = ' ' ∨ ch = '\t' ∨ ch = '\n' ∨ ch = '\r' then ws fuel c.adv else c
    | [] => c

def isDigit (ch : Char) : Bool := '0' ≤ ch ∧ ch ≤ '9'
def isHex (ch : Char) : Bool := isDigit ch ∨ ('a' ≤ ch ∧ ch ≤ 'f') ∨ ('A' ≤ ch ∧ ch ≤ 'F')

/-- `1*DIGIT`: at least one digit; returns the cursor after them. -/
def digits1 : Nat → Cur → Option Cur
  | 0, _ => none
  | fuel + 1, c =>
    match c.rest with
    | ch :: _ =>
      if isDigit ch then
        (match digits1 fuel c.adv with | some c' => some c' | none => some c.adv)
      else none
    | [] => none

/-- `number = [ minus ] int [ frac ] [ exp ]` -/
def number (c : Cur) : Option (JTree × Cur) :=
  let n := c.rest.length + 1
  let start := c.pos
  let c1 := match c.rest with | '-' :: _ => c.adv | _ => c
  -- int = zero / ( digit1-9 *DIGIT )
  let afterInt : Option Cur :=
    match c1.rest with
    | '0' :: _ => some c1.adv
    | ch :: _ => if '1' ≤ ch ∧ ch ≤ '9' then digits1 n c1 else none
    | [] => none
  match afterInt with
  | none => none
  | some c2 =>
    -- frac = decimal-point 1*DIGIT
    let c3 := match c2.rest with
      | '.' :: _ => (match digits1 n c2.adv with | some c' => c' | none => c2)
      | _ => c2
    -- exp = e [ minus / plus ] 1*DIGIT
    let c4 := match c3.rest with
      | ch :: _ =>
        if ch = 'e' ∨ ch = 'E' then
          let c' := c3.adv
          let c'' := match c'.rest with | s :: _ => if s = '+' ∨ s = '-' then c'.adv else c' | [] => c'
          (match digits1 n c'' with | some d => d | none => c3)
        else c3
      | [] => c3
    some (.node "number" start c4.pos [], c4)

/-- `string = quotation-mark *char quotation-mark` -/
def stringBody : Nat → Cur → Option Cur
  | 0, _ => none
  | fuel + 1, c =>
    match c.rest with
    | [] => none
    | '"' :: _ => some c.adv
    | '\\' :: e :: _ =>
      if e = '"' ∨ e = '\\' ∨ e = '/' ∨ e = 'b' ∨ e = 'f' ∨ e = 'n' ∨ e = 'r' ∨ e = 't' then stringBody fuel c.adv.adv
      else if e = 'u' then
        match c.adv.adv.rest with
        | h1 :: h2 :: h3 :: h4 :: _ =>
          if isHex h1 ∧ isHex h2 ∧ isHex h3 ∧ isHex h4 then stringBody fuel c.adv.adv.adv.adv.adv.adv else none
        | _ => none
      else none
    | '\\' :: [] => none
    | ch :: _ => if ch.toNat < 0x20 then none else stringBody fuel c.adv      -- unescaped = %x20-21 / %x23-5B / %x5D-10FFFF

def string (c : Cur) : Option (JTree × Cur) :=
  match c.rest with
  | '"' :: _ =>
    match stringBody (c.rest.length + 1) c.adv with
    | some c' => some (.node "string" c.pos c'.pos [], c')
    | none => none
  | _ => none

def literal (lit : Str) (label : String) (c : Cur) : Option (JTree × Cur) :=
  if lit.isPrefixOf c.rest then
    let c' : Cur := ⟨c.rest.drop lit.length, c.pos + lit.length⟩     -- ASCII literals: one byte per char
    some (.node label c.pos c'.pos [], c')
  else none

mutual
  /-- `value = false / null / true / object / array / number / string` -/
  def value : Nat → Cur → Option (JTree × Cur)
    | 0, _ => none
    | fuel + 1, c =>
      let r : Option (JTree × Cur) :=
        match c.rest with
        | '"' :: _ => string c
        | '{' :: _ => object fuel c
        | '[' :: _ => array fuel c
        | 't' :: _ => literal "true".toList "bool" c
        | 'f' :: _ => literal "false".toList "bool" c
        | 'n' :: _ => literal "null".toList "null" c
        | _ => number c
      match r with
      | some (t, c') => some (.node "value" c.pos c'.pos [t], c')
      | none => none
  /-- `object = begin-object [ member *( value-separator member ) ] end-object` -/
  def object : Nat → Cur → Option (JTree × Cur)
    | 0, _ => none
    | fuel + 1, c =>
      let n := c.rest.length + 1
      let c1 := ws n c.adv                      -- after "{" ws
      match c1.rest with
      | '}' :: _ => some (.node "object" c.pos c1.adv.pos [], c1.adv)
      | _ =>
        match members fuel c1 [] with
        | some (ms, c2) =>
          match c2.rest with
          | '}' :: _ => some (.node "object" c.pos c2.adv.pos ms, c2.adv)
          | _ => none
        | none => none
  /-- `member *( ws "," ws member ) ws` — returns with the cursor at the closing brace. -/
  def members : Nat → Cur → List JTree → Option (List JTree × Cur)
    | 0, _, _ => none
    | fuel + 1, c, acc =>
      let n := c.rest.length + 1
      match string c with
      | some (k, c1) =>
        let c2 := ws n c1
        match c2.rest with
        | ':' :: _ =>
          let c3 := ws n c2.adv
          match value fuel c3 with
          | some (v, c4) =>
            let m := JTree.node "pair" c.pos c4.pos [k, v]
            let c5 := ws n c4
            match c5.rest with
            | ',' :: _ => members fuel (ws n c5.adv) (acc ++ [m])
            | _ => some (acc ++ [m], c5)
          | none => none
        | _ => none
      | none => none
  /-- `array = begin-array [ value *( value-separator value ) ] end-array` -/
  def array : Nat → Cur → Option (JTree × Cur)
    | 0, _ => none
    | fuel + 1, c =>
      let n := c.rest.length + 1
      let c1 := ws n c.adv
      match c1.rest with
      | ']' :: _ => some (.node "array" c.pos c1.adv.pos [], c1.adv)
      | _ =>
        match elements fuel c1 [] with
        | some (vs, c2) =>
          match c2.rest with
          | ']' :: _ => some (.node "array" c.pos c2.adv.pos vs, c2.adv)
          | _ => none
        | none => none
  def elements : Nat → Cur → List JTree → Option (List JTree × Cur)
    | 0, _, _ => none
    | fuel + 1, c, acc =>
      let n := c.rest.length + 1
      match value fuel c with
      | some (v, c1) =>
        let c2 := ws n c1
        match c2.rest with
        | ',' :: _ => elements fuel (ws n c2.adv) (acc ++ [v])
        | _ => some (acc ++ [v], c2)
      | none => none
end

/-- `JSON-text = ws value ws` over the whole input; the tree has the shape pest's `json` rule
produces: `json(0, len) [ value …, EOI(len, len) ]`. -/
def jsonText (input : Str) : Option JTree :=
  let n := input.length + 1
  let c0 := ws n ⟨input, 0⟩
  match value (4 * n) c0 with
  | some (v, c1) =>
    let c2 := ws n c1
    if c2.rest.isEmpty then some (.node "json" 0 c2.pos [v, .node "EOI" c2.pos c2.pos []]) else none
  | none => none

end PestModel.Json
