import PestModel.Model.LineCol
/-! # C10 — placeholder until the proofs land. -/
namespace PestModel.C10
open PestModel.LineCol

theorem smoke : isBoundary [] 0 = true := rfl

end PestModel.C10
