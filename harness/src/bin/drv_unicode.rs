//! C16: every Unicode property set, through every access path, for every scalar value, vs the
//! regenerated tables (`pestmodel unicode`).
//!   U <group> <NAME>  function path  pest::unicode::NAME(c) for all 1,112,064 scalar values -> ranges
//!   N <NAME>          by_name path: resolves? and (oracle) equal to the function on every scalar value
//!   VM / generated-code paths: Vm::parse of a one-rule grammar on the boundary code points of the set;
//!   the generated built-in must be `match_char_by(::pest::unicode::NAME)`.
use std::collections::BTreeMap;
use verif_harness::*;
include!(concat!(env!("OUT_DIR"), "/unicode_fns.rs"));

fn ranges_of(f: &dyn Fn(char) -> bool) -> Vec<(u32, u32)> {
    let mut out = vec![]; let mut start: Option<u32> = None; let mut prev = 0u32;
    for cp in 0..=0x10FFFFu32 {
        let c = match char::from_u32(cp) { Some(c) => c, None => { if let Some(s) = start.take() { out.push((s, prev)); } continue } };
        if f(c) { if start.is_none() { start = Some(cp); } prev = cp; } else if let Some(s) = start.take() { out.push((s, prev)); }
    }
    if let Some(s) = start { out.push((s, prev)); }
    out
}
fn show(r: &[(u32, u32)]) -> String { if r.is_empty() { "-".into() } else { r.iter().map(|(a, b)| format!("{}-{}", a, b)).collect::<Vec<_>>().join(",") } }

/// `pest_generator::generator::generate` for `r = { NAME }`: the body of `fn NAME` among the emitted built-in rules
fn generated_builtin(name: &str) -> String {
    use pest_meta::optimizer::{OptimizedExpr, OptimizedRule};
    let rules = vec![OptimizedRule { name: "r".into(), ty: pest_meta::ast::RuleType::Normal, expr: OptimizedExpr::Ident(name.to_string()) }];
    let pd = pest_generator::parse_derive::ParsedDerive { name: syn::Ident::new("P", proc_macro2::Span::call_site()), generics: syn::Generics::default(), non_exhaustive: false };
    let doc = pest_generator::docs::DocComment { grammar_doc: String::new(), line_docs: std::collections::HashMap::new() };
    let tokens = match catch(|| pest_generator::generator::generate(pd, vec![], rules, vec![name], &doc, false)) { Ok(t) => t, Err(_) => return "generator-panicked".into() };
    let file: syn::File = match syn::parse2(tokens) { Ok(f) => f, Err(_) => return "unparsable".into() };
    // find `fn NAME` anywhere in the item tree and print its block with all whitespace removed
    fn find(items: &[syn::Item], name: &str) -> Option<String> {
        for it in items {
            match it {
                syn::Item::Fn(f) if f.sig.ident == name => { use quote::ToTokens; return Some(f.block.to_token_stream().to_string().split_whitespace().collect::<String>()); }
                syn::Item::Mod(m) => if let Some((_, its)) = &m.content { if let Some(x) = find(its, name) { return Some(x); } },
                syn::Item::Impl(im) => { for ii in &im.items { if let syn::ImplItem::Fn(f) = ii { for st in &f.block.stmts { if let syn::Stmt::Item(i2) = st { if let Some(x) = find(std::slice::from_ref(i2), name) { return Some(x); } } } } } }
                _ => {}
            }
        }
        None
    }
    find(&file.items, name).unwrap_or_else(|| "not-emitted".into())
}

fn eval_line(l: &str, stats: &mut BTreeMap<String, u64>, thorough: bool) -> (String, String) {
    let w: Vec<&str> = l.split_whitespace().collect();
    match w.as_slice() {
        ["A"] => (FUNCS.iter().map(|f| f.1).collect::<Vec<_>>().join(" "), if pest::unicode::unicode_property_names().collect::<Vec<_>>() == FUNCS.iter().map(|f| f.1).collect::<Vec<_>>() { "ok".into() } else { "FAIL unicode_property_names() differs from the macro argument lists".into() }),
        ["U", g, n] => match FUNCS.iter().find(|f| f.0 == *g && f.1 == *n) {
            None => ("none".into(), "ok".into()),
            Some(f) => {
                let r = ranges_of(&f.2);
                *stats.entry("sets".into()).or_default() += 1; *stats.entry("ranges".into()).or_default() += r.len() as u64;
                let mut verdict = "ok".to_string();
                // by_name path must agree on every scalar value
                match pest::unicode::by_name(n) { None => verdict = format!("FAIL by_name({}) does not resolve", n), Some(b) => { let rb = ranges_of(&*b); if rb != r { verdict = format!("FAIL by_name({}) and the function differ", n); } } }
                // VM path and generated-code path on the boundary code points of the set (all of them in thorough, a sample in quick)
                if verdict == "ok" {
                    let rules = vec![pest_meta::optimizer::OptimizedRule { name: "r".into(), ty: pest_meta::ast::RuleType::Normal, expr: pest_meta::optimizer::OptimizedExpr::Ident(n.to_string()) }];
                    let vm = pest_vm::Vm::new(rules);
                    let mut pts: Vec<u32> = vec![];
                    for (a, b) in &r { for p in [a.saturating_sub(1), *a, *b, b + 1] { pts.push(p); } }
                    pts.push(0); pts.push(0x10FFFF);
                    let step = if thorough { 1 } else { (pts.len() / 60).max(1) };
                    for p in pts.iter().step_by(step) { if let Some(c) = char::from_u32(*p) { let s = c.to_string(); let got = vm.parse("r", &s).is_ok(); *stats.entry("vm_points".into()).or_default() += 1; if got != (f.2)(c) { verdict = format!("FAIL the VM's built-in {} and pest::unicode::{} differ on U+{:X}", n, n, p); break; } } }
                    // the same built-in where the real optimizer puts it: only inside an alternative that touches the stack (wrapped in
                    // RestoreOnErr), a repetition and a predicate — through parse_and_optimize, as a user's grammar would reach the VM
                    if verdict == "ok" {
                        // (two grammars: in each the name occurs in one kind of place only)
                        let g1 = format!("r = {{ (PUSH({n}) ~ DROP | \"!\") ~ EOI }}\n", n = n);
                        let g2 = format!("q = {{ (!{n} ~ ANY)* ~ {n}? ~ EOI }}\n", n = n);
                        match catch(|| (pest_meta::parse_and_optimize(&g1).map(|x| x.1), pest_meta::parse_and_optimize(&g2).map(|x| x.1))) {
                            Ok((Ok(rules1), Ok(rules2))) => { let vm = pest_vm::Vm::new(rules1); let vm2 = pest_vm::Vm::new(rules2);
                                for p in pts.iter().step_by(step * 4 + 1) { if let Some(c) = char::from_u32(*p) { if c == '!' { continue; } let s = c.to_string();
                                    let got = catch(|| (vm.parse("r", &s).is_ok(), vm2.parse("q", &s).is_ok())); *stats.entry("vm_points_in_grammar".into()).or_default() += 1;
                                    if got != Ok(((f.2)(c), true)) { verdict = format!("FAIL the grammar r = {{ (PUSH({n}) ~ DROP | \"!\") ~ EOI }} / q = {{ (!{n} ~ ANY)* ~ {n}? ~ EOI }} run by the VM on U+{:X}: {:?}, but pest::unicode::{n} says {}", p, got, (f.2)(c), n = n); break; } } } }
                            _ => verdict = format!("FAIL a grammar that uses the advertised property {} inside PUSH(..) does not pass parse_and_optimize", n),
                        }
                    }
                }
                (show(&r), verdict)
            }
        },
        // the function the generator emits for the built-in rule NAME, as normalised text
        ["B", n] => { *stats.entry("generated_builtins".into()).or_default() += 1;
            let body = generated_builtin(n);
            // search: when the emitted predicate is another table or a std predicate, look for a scalar value on which it
            // differs from pest::unicode::NAME
            let mut verdict = "ok".to_string();
            if let (Some(f), Some(p)) = (FUNCS.iter().find(|f| f.1 == *n), body.strip_prefix("{state.match_char_by(").and_then(|r| r.strip_suffix(")}"))) {
                let other: Option<Box<dyn Fn(char) -> bool>> = match p {
                    "char::is_numeric" => Some(Box::new(char::is_numeric)), "char::is_lowercase" => Some(Box::new(char::is_lowercase)), "char::is_uppercase" => Some(Box::new(char::is_uppercase)),
                    "char::is_whitespace" => Some(Box::new(char::is_whitespace)), "char::is_control" => Some(Box::new(char::is_control)), "char::is_alphabetic" => Some(Box::new(char::is_alphabetic)),
                    "char::is_alphanumeric" => Some(Box::new(char::is_alphanumeric)),
                    q => q.strip_prefix("::pest::unicode::").and_then(|x| FUNCS.iter().find(|g| g.1 == x)).map(|g| { let h = g.2; Box::new(move |c: char| h(c)) as Box<dyn Fn(char) -> bool> }),
                };
                if let Some(o) = other { for cp in 0..=0x10FFFFu32 { if let Some(c) = char::from_u32(cp) { if o(c) != (f.2)(c) { verdict = format!("FAIL the generated parser's built-in {} uses {} which differs from pest::unicode::{} on U+{:04X}", n, p, n, cp); break; } } } }
            }
            (body, verdict) }
        ["N", n] => (match pest::unicode::by_name(n) { Some(_) => match FUNCS.iter().find(|f| f.1 == *n) { Some(f) => format!("{} {}", f.0, f.1), None => "unadvertised".into() }, None => "none".into() }, "ok".into()),
        ["K", n] => {
            // the validator's verdict on a grammar that uses the name as a built-in rule
            let acc = catch(|| pest_meta::parse_and_optimize(&format!("x = {{ {} }}", n)).is_ok()).unwrap_or(false);
            let adv = FUNCS.iter().any(|f| f.1 == *n);
            (if acc { "accepted".into() } else { "rejected".into() }, if adv && !acc { format!("FAIL the advertised property name {} is rejected by the validator (x = {{ {} }} does not pass parse_and_optimize)", n, n) } else { "ok".into() }) }
        _ => ("bad-op".into(), "ok".into()),
    }
}

fn main() {
    quiet_panics();
    let mut out = Out::new();
    let mut stats: BTreeMap<String, u64> = BTreeMap::new();
    match cli() {
        Cmd::Run { ops, out: dir } => { for l in &ops { let (i, v) = eval_line(l, &mut stats, true); out.push(l.clone(), i, v); } out.write(&dir, "{}"); }
        Cmd::Gen { thorough, seed: _, out: dir } => {
            let (i, v) = eval_line("A", &mut stats, thorough); out.push("A".into(), i, v);
            for f in FUNCS { let l = format!("U {} {}", f.0, f.1); let (i, v) = eval_line(&l, &mut stats, thorough); out.push(l, i, v); let l = format!("N {}", f.1); let (i, v) = eval_line(&l, &mut stats, thorough); out.push(l, i, v); }
            for f in FUNCS { let l = format!("B {}", f.1); let (i, v) = eval_line(&l, &mut stats, thorough); out.push(l, i, v); }
            for f in FUNCS { let l = format!("K {}", f.1); let (i, v) = eval_line(&l, &mut stats, thorough); out.push(l, i, v); }
            for n in ["FOO", "han", "Han", "LETTER_", "ASCII_DIGIT", "NEWLINE", "ANY"] { let l = format!("K {}", n); let (i, v) = eval_line(&l, &mut stats, thorough); out.push(l, i, v); }
            for n in ["FOO", "han", "Han", "LETTER_", ""] { let l = format!("N {}", n); let (i, v) = eval_line(&l, &mut stats, thorough); out.push(l, i, v); }
            let samples: Vec<String> = out.ops.iter().step_by((out.ops.len() / 5).max(1)).take(5).cloned().collect();
            let stats_s = format!("{{\"evaluations\":{},\"sets\":{},\"scalar_values_per_set\":1112064,\"distinct_nontrivial\":{},\"observed\":{:?},\"samples\":{:?}}}", FUNCS.len() as u64 * 1112064 * 2, FUNCS.len(), FUNCS.len(), stats, samples);
            out.write(&dir, &stats_s);
        }
    }
}
