import PestModel.Model.RefTrace
import PestModel.Lemmas.RefStr
/-!
C08 / C09: every rule call of the instrumented reference semantics is made at a UTF-8 boundary inside the input, so the
position of the specified failure report (`specReport`) is one too.
-/
namespace PestModel.RefTrace
open PestModel.G PestModel.Ref
open PestModel.LineCol (Str bLen cLen splitAt?)
open PestModel.PS (Atomicity CharSet restAt eqIgnoreAsciiCase normalizeIndex restAt_advance)

/-- the position is a UTF-8 boundary inside the input. -/
def B (c : Ctx) (p : Nat) : Prop := (restAt c.input p).isSome = true

mutual
  /-- every call of the tree was made at a boundary position of the input. -/
  def goodCall (c : Ctx) : Call → Prop
    | .node _ pos _ _ _ kids => B c pos ∧ goodCalls c kids
  def goodCalls (c : Ctx) : List Call → Prop
    | [] => True
    | x :: xs => goodCall c x ∧ goodCalls c xs
end

theorem goodCalls_append {c : Ctx} : ∀ {a b : List Call}, goodCalls c a → goodCalls c b → goodCalls c (a ++ b)
  | [], _, _, hb => hb
  | x :: xs, b, ha, hb => by
    simp only [List.cons_append, goodCalls] at ha ⊢
    exact ⟨ha.1, goodCalls_append ha.2 hb⟩

/-- the result of a step: a boundary position if it succeeds, and only calls made at boundary positions. -/
def Good (c : Ctx) (t : T) : Prop := (∀ s', t.1 = .ok s' → B c s'.pos) ∧ goodCalls c t.2

theorem good_nil_fail (c : Ctx) : Good c (.fail, []) := ⟨by simp, trivial⟩
theorem good_nil_stuck (c : Ctx) : Good c (.stuck, []) := ⟨by simp, trivial⟩
theorem good_nil_fuel (c : Ctx) : Good c (.fuel, []) := ⟨by simp, trivial⟩
theorem good_ok {c : Ctx} {s : St} {cs : List Call} (h : B c s.pos) (hc : goodCalls c cs) : Good c (.ok s, cs) :=
  ⟨by intro s' hs; simp at hs; subst hs; exact h, hc⟩
theorem good_calls {c : Ctx} {r : R} {cs : List Call} (hr : ∀ s', r ≠ .ok s') (hc : goodCalls c cs) : Good c (r, cs) :=
  ⟨by intro s' hs; exact absurd hs (hr s'), hc⟩

theorem lit_good (c : Ctx) (s : St) (str : Str) : Good c (lit c s str) := by
  unfold lit
  split
  · rename_i rest hr
    split
    · rename_i hp
      obtain ⟨t, rfl⟩ := List.isPrefixOf_iff_prefix.1 hp
      exact good_ok (by simp [B, restAt_advance hr rfl]) trivial
    · exact good_nil_fail c
  · exact good_nil_fail c

theorem oneChar_good (c : Ctx) (s : St) (p : Char → Bool) : Good c (oneChar c s p) := by
  unfold oneChar
  split
  · rename_i ch t hr
    split
    · have := restAt_advance (pre := [ch]) (post := t) hr rfl
      simp at this
      exact good_ok (by simp [B, this]) trivial
    · exact good_nil_fail c
  · exact good_nil_fail c

structure IH (c : Ctx) (f : Nat) : Prop where
  den : ∀ m la e s, B c s.pos → Good c (denoteT c f m la e s)
  rep : ∀ m la e s acc, B c s.pos → goodCalls c acc → Good c (repLoopT c f m la e s acc)
  skp : ∀ m la s, B c s.pos → Good c (skipT c f m la s)
  star : ∀ la n s acc, B c s.pos → goodCalls c acc → Good c (starT c f la n s acc)
  cmt : ∀ la s acc, B c s.pos → goodCalls c acc → Good c (commentLoopT c f la s acc)
  call : ∀ m la n s, B c s.pos → Good c (callT c f m la n s)

theorem ih_zero (c : Ctx) : IH c 0 where
  den := by intros; simp only [denoteT]; exact good_nil_fuel c
  rep := by intro m la e s acc _ ha; simp only [repLoopT]; exact good_calls (by simp) ha
  skp := by intros; simp only [skipT]; exact good_nil_fuel c
  star := by intro la n s acc _ ha; simp only [starT]; exact good_calls (by simp) ha
  cmt := by intro la s acc _ ha; simp only [commentLoopT]; exact good_calls (by simp) ha
  call := by intros; simp only [callT]; exact good_nil_fuel c

/-- a result whose state component is not `ok` only needs good calls. -/
theorem good_of_cases {c : Ctx} (r : R) (cs : List Call) (hok : ∀ s', r = .ok s' → B c s'.pos) (hc : goodCalls c cs) :
    Good c (r, cs) := ⟨hok, hc⟩

theorem star_succ {c : Ctx} {f : Nat} (ih : IH c f) (la : LA) (n : String) (s : St) (acc : List Call) (hs : B c s.pos)
    (ha : goodCalls c acc) : Good c (starT c (f + 1) la n s acc) := by
  simp only [starT]
  rcases hres : callT c f .nonAtomic la n s with ⟨r, c1⟩
  have g := ih.call .nonAtomic la n s hs
  rw [hres] at g
  cases r with
  | ok s1 => exact ih.star la n s1 _ (g.1 s1 rfl) (goodCalls_append ha g.2)
  | fail => exact good_ok hs (goodCalls_append ha g.2)
  | stuck => exact good_calls (by simp) (goodCalls_append ha g.2)
  | fuel => exact good_calls (by simp) (goodCalls_append ha g.2)

theorem cmt_succ {c : Ctx} {f : Nat} (ih : IH c f) (la : LA) (s : St) (acc : List Call) (hs : B c s.pos)
    (ha : goodCalls c acc) : Good c (commentLoopT c (f + 1) la s acc) := by
  simp only [commentLoopT]
  rcases hres : callT c f .nonAtomic la "COMMENT" s with ⟨r, c1⟩
  have g := ih.call .nonAtomic la "COMMENT" s hs
  rw [hres] at g
  cases r with
  | ok s1 =>
    simp only []
    rcases hres2 : starT c f la "WHITESPACE" s1 [] with ⟨r2, c2⟩
    have g2 := ih.star la "WHITESPACE" s1 [] (g.1 s1 rfl) trivial
    rw [hres2] at g2
    cases r2 with
    | ok s2 => exact ih.cmt la s2 _ (g2.1 s2 rfl) (goodCalls_append (goodCalls_append ha g.2) g2.2)
    | fail => exact good_calls (by simp) (goodCalls_append (goodCalls_append ha g.2) g2.2)
    | stuck => exact good_calls (by simp) (goodCalls_append (goodCalls_append ha g.2) g2.2)
    | fuel => exact good_calls (by simp) (goodCalls_append (goodCalls_append ha g.2) g2.2)
  | fail => exact good_ok hs (goodCalls_append ha g.2)
  | stuck => exact good_calls (by simp) (goodCalls_append ha g.2)
  | fuel => exact good_calls (by simp) (goodCalls_append ha g.2)

theorem skp_succ {c : Ctx} {f : Nat} (ih : IH c f) (m : Atomicity) (la : LA) (s : St) (hs : B c s.pos) :
    Good c (skipT c (f + 1) m la s) := by
  simp only [skipT]
  split
  · exact good_ok hs trivial
  · split
    · exact good_ok hs trivial
    · exact ih.star la "WHITESPACE" s [] hs trivial
    · exact ih.star la "COMMENT" s [] hs trivial
    · rcases hres : starT c f la "WHITESPACE" s [] with ⟨r, c1⟩
      have g := ih.star la "WHITESPACE" s [] hs trivial
      rw [hres] at g
      cases r with
      | ok s1 => exact ih.cmt la s1 c1 (g.1 s1 rfl) g.2
      | fail => exact g
      | stuck => exact g
      | fuel => exact g

theorem rep_succ {c : Ctx} {f : Nat} (ih : IH c f) (m : Atomicity) (la : LA) (e : Expr) (s : St) (acc : List Call)
    (hs : B c s.pos) (ha : goodCalls c acc) : Good c (repLoopT c (f + 1) m la e s acc) := by
  simp only [repLoopT]
  rcases hres : skipT c f m la s with ⟨r, c1⟩
  have g := ih.skp m la s hs
  rw [hres] at g
  cases r with
  | ok s1 =>
    simp only []
    rcases hres2 : denoteT c f m la e s1 with ⟨r2, c2⟩
    have g2 := ih.den m la e s1 (g.1 s1 rfl)
    rw [hres2] at g2
    cases r2 with
    | ok s2 => exact ih.rep m la e s2 _ (g2.1 s2 rfl) (goodCalls_append (goodCalls_append ha g.2) g2.2)
    | fail => exact good_ok hs (goodCalls_append (goodCalls_append ha g.2) g2.2)
    | stuck => exact good_calls (by simp) (goodCalls_append (goodCalls_append ha g.2) g2.2)
    | fuel => exact good_calls (by simp) (goodCalls_append (goodCalls_append ha g.2) g2.2)
  | fail => exact good_ok hs (goodCalls_append ha g.2)
  | stuck => exact good_calls (by simp) (goodCalls_append ha g.2)
  | fuel => exact good_calls (by simp) (goodCalls_append ha g.2)

theorem matchStrs_B {c : Ctx} {xs : List Str} {pos p : Nat} (hv : B c pos) (h : matchStrs c.input xs pos = some p) : B c p :=
  PestModel.Ref.matchStrs_valid hv h

theorem call_succ {c : Ctx} {f : Nat} (ih : IH c f) (m : Atomicity) (la : LA) (n : String) (s : St) (hs : B c s.pos) :
    Good c (callT c (f + 1) m la n s) := by
  simp only [callT]
  split
  · rename_i id r hr
    rcases hres : denoteT c f (bodyMode r.name r.ty m) la r.expr s with ⟨res, kids⟩
    have g := ih.den (bodyMode r.name r.ty m) la r.expr s hs
    rw [hres] at g
    simp only []
    split
    · exact g
    · exact ⟨g.1, ⟨hs, g.2⟩, trivial⟩
  · split
    all_goals first
      | exact oneChar_good c s _
      | exact lit_good c s _
      | skip
    · split
      · exact good_ok hs trivial
      · exact good_nil_fail c
    · refine ⟨?_, ⟨hs, trivial⟩, trivial⟩
      intro s' h'
      split at h'
      · simp at h'; subst h'; exact hs
      · simp at h'
    · split
      · exact good_nil_stuck c
      · exact lit_good c s _
    · split
      · exact good_nil_stuck c
      · rename_i top rest _
        have g := lit_good c s top
        rcases hl : lit c s top with ⟨r, cs⟩
        rw [hl] at g
        cases r with
        | ok s1 => exact good_ok (g.1 s1 rfl) g.2
        | fail => exact g
        | stuck => exact g
        | fuel => exact g
    · split
      · rename_i p hp; exact good_ok (matchStrs_B hs hp) trivial
      · exact good_nil_fail c
    · split
      · rename_i p hp; exact good_ok (matchStrs_B hs hp) trivial
      · exact good_nil_fail c
    · split
      · exact good_nil_fail c
      · exact good_ok hs trivial
    · -- NEWLINE
      have g1 := lit_good c s ['\n']
      have g2 := lit_good c s ['\r', '\n']
      have g3 := lit_good c s ['\r']
      split
      · split
        · exact g3
        · exact g2
      · exact g1
    · split
      · exact oneChar_good c s _
      · exact good_nil_stuck c

theorem den_succ {c : Ctx} {f : Nat} (ih : IH c f) (m : Atomicity) (la : LA) (e : Expr) (s : St) (hs : B c s.pos) :
    Good c (denoteT c (f + 1) m la e s) := by
  cases e with
  | str str => simp only [denoteT]; exact lit_good c s str
  | insens str =>
    simp only [denoteT]
    split
    · rename_i rest hr
      split
      · rename_i pre post hsp
        split
        · obtain ⟨rfl, hb⟩ := PestModel.LineCol.splitAt_some hsp
          have := restAt_advance hr rfl
          rw [hb] at this
          exact good_ok (by simp [B, this]) trivial
        · exact good_nil_fail c
      · exact good_nil_fail c
    · exact good_nil_fail c
  | range a b => simp only [denoteT]; exact oneChar_good c s _
  | ident n => simp only [denoteT]; exact ih.call m la n s hs
  | peekSlice a b =>
    simp only [denoteT]
    split
    · split
      · exact good_ok hs trivial
      · split
        · rename_i p hp; exact good_ok (matchStrs_B hs hp) trivial
        · exact good_nil_fail c
    · exact good_nil_fail c
  | posPred e =>
    simp only [denoteT]
    rcases hres : denoteT c f m la.enterPos e s with ⟨r, cs⟩
    have g := ih.den m la.enterPos e s hs
    rw [hres] at g
    cases r with
    | ok s1 => exact good_ok hs g.2
    | fail => exact g
    | stuck => exact g
    | fuel => exact g
  | negPred e =>
    simp only [denoteT]
    rcases hres : denoteT c f m la.enterNeg e s with ⟨r, cs⟩
    have g := ih.den m la.enterNeg e s hs
    rw [hres] at g
    cases r with
    | ok s1 => exact good_calls (by simp) g.2
    | fail => exact good_ok hs g.2
    | stuck => exact g
    | fuel => exact g
  | seq a b =>
    simp only [denoteT]
    rcases h1 : denoteT c f m la a s with ⟨r1, c1⟩
    have g1 := ih.den m la a s hs
    rw [h1] at g1
    cases r1 with
    | ok s1 =>
      simp only []
      rcases h2 : skipT c f m la s1 with ⟨r2, c2⟩
      have g2 := ih.skp m la s1 (g1.1 s1 rfl)
      rw [h2] at g2
      cases r2 with
      | ok s2 =>
        simp only []
        rcases h3 : denoteT c f m la b s2 with ⟨r3, c3⟩
        have g3 := ih.den m la b s2 (g2.1 s2 rfl)
        rw [h3] at g3
        exact ⟨g3.1, goodCalls_append (goodCalls_append g1.2 g2.2) g3.2⟩
      | fail => exact good_calls (by simp) (goodCalls_append g1.2 g2.2)
      | stuck => exact good_calls (by simp) (goodCalls_append g1.2 g2.2)
      | fuel => exact good_calls (by simp) (goodCalls_append g1.2 g2.2)
    | fail => exact g1
    | stuck => exact g1
    | fuel => exact g1
  | choice a b =>
    simp only [denoteT]
    rcases h1 : denoteT c f m la a s with ⟨r1, c1⟩
    have g1 := ih.den m la a s hs
    rw [h1] at g1
    cases r1 with
    | fail =>
      simp only []
      rcases h2 : denoteT c f m la b s with ⟨r2, c2⟩
      have g2 := ih.den m la b s hs
      rw [h2] at g2
      exact ⟨g2.1, goodCalls_append g1.2 g2.2⟩
    | ok s1 => exact g1
    | stuck => exact g1
    | fuel => exact g1
  | opt e =>
    simp only [denoteT]
    rcases h1 : denoteT c f m la e s with ⟨r1, c1⟩
    have g1 := ih.den m la e s hs
    rw [h1] at g1
    cases r1 with
    | fail => exact good_ok hs g1.2
    | ok s1 => exact g1
    | stuck => exact g1
    | fuel => exact g1
  | rep e =>
    simp only [denoteT]
    rcases h1 : denoteT c f m la e s with ⟨r1, c1⟩
    have g1 := ih.den m la e s hs
    rw [h1] at g1
    cases r1 with
    | ok s1 => exact ih.rep m la e s1 c1 (g1.1 s1 rfl) g1.2
    | fail => exact good_ok hs g1.2
    | stuck => exact g1
    | fuel => exact g1
  | repOnce e =>
    simp only [denoteT]
    split
    · rcases h1 : denoteT c f m la e s with ⟨r1, c1⟩
      have g1 := ih.den m la e s hs
      rw [h1] at g1
      cases r1 with
      | ok s1 => exact ih.rep m la e s1 c1 (g1.1 s1 rfl) g1.2
      | fail => exact g1
      | stuck => exact g1
      | fuel => exact g1
    · exact ih.den m la _ s hs
  | skip strs =>
    simp only [denoteT]
    split
    · rename_i rest hr
      exact good_ok (PestModel.Ref.search_valid strs hr) trivial
    · exact good_nil_fail c
  | push e =>
    simp only [denoteT]
    rcases h1 : denoteT c f m la e s with ⟨r1, c1⟩
    have g1 := ih.den m la e s hs
    rw [h1] at g1
    cases r1 with
    | ok s1 =>
      simp only []
      split
      · exact good_ok (g1.1 s1 rfl) g1.2
      · exact good_calls (by simp) g1.2
    | fail => exact g1
    | stuck => exact g1
    | fuel => exact g1
  | pushLiteral str => simp only [denoteT]; exact good_ok hs trivial
  | nodeTag e t => simp only [denoteT]; exact ih.den m la e s hs
  | repExact e n =>
    simp only [denoteT]
    split
    · exact ih.den m la _ s hs
    · exact good_nil_stuck c
  | repMin e n =>
    simp only [denoteT]
    split
    · exact ih.den m la _ s hs
    · exact good_nil_stuck c
  | repMax e n =>
    simp only [denoteT]
    split
    · exact ih.den m la _ s hs
    · exact good_nil_stuck c
  | repMinMax e lo hi =>
    simp only [denoteT]
    split
    · exact ih.den m la _ s hs
    · exact good_nil_stuck c

theorem ih_all (c : Ctx) : ∀ f, IH c f
  | 0 => ih_zero c
  | f + 1 =>
    have ih := ih_all c f
    ⟨den_succ ih, rep_succ ih, skp_succ ih, star_succ ih, cmt_succ ih, call_succ ih⟩

theorem B_zero (c : Ctx) : B c 0 := by
  simp [B, restAt, splitAt?]

mutual
  theorem furthest_B {c : Ctx} : ∀ (x : Call), goodCall c x → B c (furthest x)
    | .node r pos matched neg rep kids, h => by
      have hk := furthestList_B kids h.2
      simp only [furthest]
      rcases Nat.le_total (if isAttempt (.node r pos matched neg rep kids) = true then pos else 0) (furthestList kids) with hle | hle
      · rw [Nat.max_eq_right hle]; exact hk
      · rw [Nat.max_eq_left hle]
        split
        · exact h.1
        · exact B_zero c
  theorem furthestList_B {c : Ctx} : ∀ (xs : List Call), goodCalls c xs → B c (furthestList xs)
    | [], _ => by simp only [furthestList]; exact B_zero c
    | x :: xs, h => by
      have h1 := furthest_B x h.1
      have h2 := furthestList_B xs h.2
      simp only [furthestList]
      rcases Nat.le_total (furthest x) (furthestList xs) with hle | hle
      · rw [Nat.max_eq_right hle]; exact h2
      · rw [Nat.max_eq_left hle]; exact h1
end

/-- **every position of the trace is a UTF-8 boundary inside the input**, hence so is the position of the failure report the
property specifies (`specReport`). -/
theorem specReport_pos_boundary (rules : List Rule) (extras : Bool) (uni : String → Option CharSet) (fuel : Nat)
    (rule : String) (input : Str) :
    PestModel.LineCol.isBoundary input (specReport (traceMeaning rules extras uni fuel rule input).2).1 = true := by
  have g := (ih_all { rules, input, extras, uni } fuel).call .nonAtomic .none rule ⟨0, []⟩ (B_zero _)
  have hb := furthestList_B _ g.2
  unfold specReport
  simp only []
  unfold B at hb
  obtain ⟨rest, hr⟩ := Option.isSome_iff_exists.1 hb
  exact PestModel.PS.restAt_isBoundary hr
end PestModel.RefTrace
