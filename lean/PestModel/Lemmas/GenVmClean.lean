import PestModel.Lemmas.GenVmEnv
import PestModel.Lemmas.VmRefDefs
/-! C02, part 7: what a failing VM program leaves behind. Position and queue are as before; the stack
contents too, unless the expression is `Dirty` (can fail after `POP`/`POP_ALL`). -/
namespace PestModel.GenVm
open PestModel.PS PestModel.Stack PestModel.Lower PestModel.G
open PestModel.LineCol (Str isBoundary slice?)
open PestModel.VmRef (Dirty index_some index_none)

/-- a failing run (fuel `≤ n`) restores position and queue, and the stack contents unless `D`. -/
def ErrSpecN (C : Cfg) (n : Nat) (P : Prog) (D : Prop) : Prop :=
  ∀ m, m ≤ n → ∀ s s', Good s → run C m P s = .err s' →
    s'.pos = s.pos ∧ s'.queue = s.queue ∧ (s'.stack.cache ≠ s.stack.cache → D)

variable {C : Cfg} {n : Nat}

theorem ErrSpecN.weaken {P : Prog} {D D' : Prop} (h : ErrSpecN C n P D) (hd : D → D') : ErrSpecN C n P D' :=
  fun m hm s s' hg hr => by
    obtain ⟨a, b, c⟩ := h m hm s s' hg hr
    exact ⟨a, b, fun x => hd (c x)⟩

theorem es_of_step {P : Prog} {D : Prop}
    (h : ∀ f, f + 1 ≤ n → ∀ s s', Good s → run C (f+1) P s = .err s' →
      s'.pos = s.pos ∧ s'.queue = s.queue ∧ (s'.stack.cache ≠ s.stack.cache → D)) : ErrSpecN C n P D := by
  intro m hm s s' hg hr
  cases m with
  | zero => rw [run_zero] at hr; cases hr
  | succ f => exact h f hm s s' hg hr

/-! ### terminals -/

theorem terminal_err {s s' : PState} {r : Option (Bool × Nat)} {tok : Option PTok}
    (h : terminal s r tok = .err s') :
    ∃ p, r = some (false, p) ∧ s'.pos = p ∧ s'.queue = s.queue ∧ s'.stack = s.stack := by
  unfold terminal at h
  cases r with
  | none => cases h
  | some x =>
    obtain ⟨succ, pos'⟩ := x
    dsimp only at h
    cases succ with
    | true => simp at h
    | false =>
      simp only [Bool.false_eq_true, if_false, Out.err.injEq] at h
      subst h
      refine ⟨pos', rfl, ?_⟩
      cases tok with
      | none => exact ⟨rfl, rfl, rfl⟩
      | some t =>
        obtain ⟨pa', he, -⟩ := handleToken_eq { s with pos := pos' } s.pos t false
        dsimp only
        rw [he]; exact ⟨rfl, rfl, rfl⟩

theorem posMatchString_false {input : Str} {pos p : Nat} {str : Str}
    (h : posMatchString input pos str = some (false, p)) : p = pos := by
  unfold posMatchString at h
  split at h
  · cases h
  · split at h <;> simp at h
    exact h.symm

theorem posMatchInsensitive_false {input : Str} {pos p : Nat} {str : Str}
    (h : posMatchInsensitive input pos str = some (false, p)) : p = pos := by
  unfold posMatchInsensitive at h
  split at h
  · cases h
  · split at h
    · split at h <;> simp at h
      exact h.symm
    · simp at h; exact h.symm

theorem posMatchRange_false {input : Str} {pos p : Nat} {a b : Char}
    (h : posMatchRange input pos a b = some (false, p)) : p = pos := by
  unfold posMatchRange at h
  split at h
  · cases h
  · simp at h; exact h.symm
  · split at h <;> simp at h
    exact h.symm

theorem posMatchCharBy_false {input : Str} {pos p : Nat} {cs : CharSet}
    (h : posMatchCharBy input pos cs = some (false, p)) : p = pos := by
  unfold posMatchCharBy at h
  split at h
  · cases h
  · simp at h; exact h.symm
  · split at h <;> simp at h
    exact h.symm

theorem posSkip_false {input : Str} {pos p k : Nat}
    (h : posSkip input pos k = some (false, p)) : p = pos := by
  unfold posSkip at h
  split at h
  · cases h
  · split at h <;> simp at h
    exact h.symm

theorem es_terminal {s s' : PState} {r : Option (Bool × Nat)} {tok : Option PTok} {D : Prop}
    (hr : ∀ p, r = some (false, p) → p = s.pos) (h : terminal s r tok = .err s') :
    s'.pos = s.pos ∧ s'.queue = s.queue ∧ (s'.stack.cache ≠ s.stack.cache → D) := by
  obtain ⟨p, h1, h2, h3, h4⟩ := terminal_err h
  exact ⟨h2.trans (hr p h1), h3, fun x => absurd (by rw [h4]) x⟩

theorem es_matchString (str : Str) (D : Prop) : ErrSpecN C n (.matchString str) D :=
  es_of_step fun f _ s s' _ hr => by
    rw [PS.run] at hr
    exact es_terminal (fun p hp => posMatchString_false hp) hr

theorem es_matchInsensitive (str : Str) (D : Prop) : ErrSpecN C n (.matchInsensitive str) D :=
  es_of_step fun f _ s s' _ hr => by
    rw [PS.run] at hr
    exact es_terminal (fun p hp => posMatchInsensitive_false hp) hr

theorem es_matchRange (a b : Char) (D : Prop) : ErrSpecN C n (.matchRange a b) D :=
  es_of_step fun f _ s s' _ hr => by
    rw [PS.run] at hr
    exact es_terminal (fun p hp => posMatchRange_false hp) hr

theorem es_matchCharBy (cs : CharSet) (D : Prop) : ErrSpecN C n (.matchCharBy cs) D :=
  es_of_step fun f _ s s' _ hr => by
    rw [PS.run] at hr
    exact es_terminal (fun p hp => posMatchCharBy_false hp) hr

theorem es_skip (k : Nat) (D : Prop) : ErrSpecN C n (.skip k) D :=
  es_of_step fun f _ s s' _ hr => by
    rw [PS.run] at hr
    exact es_terminal (fun p hp => posSkip_false hp) hr

theorem es_same {P : Prog} {D : Prop} (h : ∀ f s s', run C (f+1) P s = .err s' → s' = s) : ErrSpecN C n P D :=
  es_of_step fun f _ s s' _ hr => by
    have := h f s s' hr; subst this
    exact ⟨rfl, rfl, fun x => absurd rfl x⟩

theorem es_never {P : Prog} {D : Prop} (h : ∀ f s s', Good s → run C (f+1) P s ≠ .err s') : ErrSpecN C n P D :=
  es_of_step fun f _ s s' hg hr => absurd hr (h f s s' hg)

theorem es_startOfInput (D : Prop) : ErrSpecN C n .startOfInput D :=
  es_same fun f s s' h => by
    rw [PS.run] at h; split at h <;> simp at h; exact h.symm

theorem es_endOfInput (D : Prop) : ErrSpecN C n .endOfInput D :=
  es_same fun f s s' h => by
    rw [PS.run] at h; split at h <;> simp at h; exact h.symm

theorem es_stackDrop (D : Prop) : ErrSpecN C n .stackDrop D :=
  es_same fun f s s' h => by
    rw [PS.run] at h
    split at h <;> simp at h
    exact h.symm

theorem es_stackMatchPeek (D : Prop) : ErrSpecN C n .stackMatchPeek D :=
  es_same fun f s s' h => by
    rw [PS.run] at h
    split at h
    · simp at h
    · split at h <;> simp at h
      exact h.symm

theorem es_peekSlice (a : Int) (b : Option Int) (d : MatchDir) (D : Prop) :
    ErrSpecN C n (.stackMatchPeekSlice a b d) D :=
  es_same fun f s s' h => by
    rw [PS.run] at h
    split at h
    · simp at h; exact h.symm
    · split at h
      · simp at h
      · split at h <;> (dsimp only at h; split at h <;> simp at h <;> try exact h.symm)

theorem es_stackPeek (D : Prop) : ErrSpecN C n .stackPeek D :=
  es_of_step fun f _ s s' hg hr => by
    rw [PS.run, hg.notLimit] at hr
    simp only [Bool.false_eq_true, if_false] at hr
    split at hr
    · cases hr
    · exact es_terminal (fun p hp => posMatchString_false hp) hr

theorem es_stackPop : ErrSpecN C n .stackPop True :=
  es_of_step fun f _ s s' hg hr => by
    rw [PS.run, hg.notLimit] at hr
    simp only [Bool.false_eq_true, if_false] at hr
    split at hr
    · cases hr
    · cases hr
    · obtain ⟨p, h1, h2, h3, -⟩ := terminal_err hr
      exact ⟨h2.trans (posMatchString_false h1), h3, fun _ => trivial⟩

theorem es_stackMatchPop : ErrSpecN C n .stackMatchPop True :=
  es_of_step fun f _ s s' _ hr => by
    rw [PS.run] at hr
    split at hr
    · cases hr
    · cases hr
    · simp only [Out.err.injEq] at hr; subst hr
      exact ⟨rfl, rfl, fun _ => trivial⟩

theorem es_skipUntil (strs : List Str) (D : Prop) : ErrSpecN C n (.skipUntil strs) D :=
  es_never fun f s s' _ h => by rw [PS.run] at h; split at h <;> cases h

theorem es_pushLiteral (str : Str) (D : Prop) : ErrSpecN C n (.stackPushLiteral str) D :=
  es_never fun f s s' _ h => by rw [PS.run] at h; cases h

theorem tagNode_not_err (t : Str) (m : Nat) (s s' : PState) : run C m (.tagNode t) s ≠ .err s' := by
  cases m with
  | zero => rw [run_zero]; simp
  | succ m =>
    rw [PS.run]
    split
    · simp
    · split <;> simp

/-! ### combinators -/

theorem es_orElse {P Q : Prog} {D1 D2 : Prop} (h1 : ErrSpecN C n P D1) (h2 : ErrSpecN C n Q D2) :
    ErrSpecN C n (.orElse P Q) (D1 ∨ D2) :=
  es_of_step fun f hf s s' hg hr => by
    rw [run_orElse] at hr
    cases e1 : run C f P s with
    | err t =>
      rw [e1] at hr
      obtain ⟨a1, b1, c1⟩ := h1 f (by omega) s t hg e1
      obtain ⟨a2, b2, c2⟩ := h2 f (by omega) t s' (good_run hg (by rw [e1]; rfl)) hr
      refine ⟨a2.trans a1, b2.trans b1, fun x => ?_⟩
      by_cases hc : t.stack.cache = s.stack.cache
      · exact Or.inr (c2 (by rw [hc]; exact x))
      · exact Or.inl (c1 hc)
    | ok t => rw [e1] at hr; cases hr
    | panic => rw [e1] at hr; cases hr
    | fuel => rw [e1] at hr; cases hr

theorem es_andThen_tag {P : Prog} {D : Prop} (t : Str) (h : ErrSpecN C n P D) :
    ErrSpecN C n (.andThen P (.tagNode t)) D :=
  es_of_step fun f hf s s' hg hr => by
    rw [run_andThen] at hr
    cases e1 : run C f P s with
    | err x => rw [e1] at hr; cases hr; exact h f (by omega) s _ hg e1
    | ok x => rw [e1] at hr; exact absurd hr (tagNode_not_err t f x s')
    | panic => rw [e1] at hr; cases hr
    | fuel => rw [e1] at hr; cases hr

theorem es_sequence (P : Prog) (D : Prop) : ErrSpecN C n (.sequence P) D :=
  fun m _ s s' hg hr => by
    obtain ⟨a, b, c⟩ := sequence_err_restores' C m P s s' hg.wf hr
    exact ⟨a, b, fun x => absurd (congrArg Naive.cur c) x⟩

theorem es_lookahead (b : Bool) (P : Prog) (D : Prop) : ErrSpecN C n (.lookahead b P) D :=
  fun m _ s s' hg hr => by
    obtain ⟨a, b, c, -⟩ := lookahead_restores' C m b P s s' hg.wf (by rw [hr]; rfl)
    exact ⟨a, b, fun x => absurd (congrArg Naive.cur c) x⟩

theorem es_restoreOnErr {P : Prog} {D D' : Prop} (h : ErrSpecN C n P D) : ErrSpecN C n (.restoreOnErr P) D' :=
  es_of_step fun f hf s s' hg hr => by
    have hst := restoreOnErr_restores' C (f+1) P s s' hg.wf hr
    rw [run_restoreOnErr] at hr
    cases e1 : run C f P (checkpoint s) with
    | err x =>
      rw [e1] at hr
      dsimp only at hr
      split at hr
      · rename_i ns hrs
        obtain ⟨st, -, rfl⟩ := restoreStack_some hrs
        simp only [Out.err.injEq] at hr; subst hr
        obtain ⟨a, b, -⟩ := h f (by omega) _ _ (good_checkpoint hg) e1
        exact ⟨a, b, fun x => absurd (congrArg Naive.cur hst) x⟩
      · cases hr
    | ok x =>
      rw [e1] at hr; dsimp only at hr
      split at hr <;> cases hr
    | panic => rw [e1] at hr; cases hr
    | fuel => rw [e1] at hr; cases hr

theorem es_optional (P : Prog) (D : Prop) : ErrSpecN C n (.optional P) D :=
  es_never fun f s s' hg h => by
    rw [run_optional, hg.incCall] at h
    dsimp only at h
    cases e : run C f P s <;> rw [e] at h <;> cases h

theorem repLoop_not_err (P : Prog) : ∀ (m : Nat) (s s' : PState), run C m (.repLoop P) s ≠ .err s'
  | 0, s, s' => by rw [run_zero]; simp
  | m + 1, s, s' => by
    rw [run_repLoop]
    cases e : run C m P s with
    | ok t => exact repLoop_not_err P m t s'
    | err t => simp
    | panic => simp
    | fuel => simp

theorem es_repeat (P : Prog) (D : Prop) : ErrSpecN C n (.repeat_ P) D :=
  es_never fun f s s' hg h => by
    rw [run_repeat, hg.incCall] at h
    exact repLoop_not_err P f s s' h

theorem es_stackPush {P : Prog} {D : Prop} (h : ErrSpecN C n P D) : ErrSpecN C n (.stackPush P) D :=
  es_of_step fun f hf s s' hg hr => by
    rw [run_stackPush, hg.incCall] at hr
    dsimp only at hr
    cases e1 : run C f P s with
    | err x =>
      rw [e1] at hr; simp only [Out.err.injEq] at hr; subst hr
      exact h f (by omega) s _ hg e1
    | ok x =>
      rw [e1] at hr; dsimp only at hr
      unfold pushSpan at hr
      split at hr <;> cases hr
    | panic => rw [e1] at hr; cases hr
    | fuel => rw [e1] at hr; cases hr

theorem atomPre_fields (a : Atomicity) (s : PState) :
    (atomPre a s).pos = s.pos ∧ (atomPre a s).queue = s.queue ∧ (atomPre a s).stack = s.stack := by
  unfold atomPre; split <;> exact ⟨rfl, rfl, rfl⟩

theorem atomPost_fields (a : Atomicity) (s ns : PState) :
    (atomPost a s ns).pos = ns.pos ∧ (atomPost a s ns).queue = ns.queue ∧ (atomPost a s ns).stack = ns.stack := by
  unfold atomPost; split <;> exact ⟨rfl, rfl, rfl⟩

theorem es_atomic (a : Atomicity) {P : Prog} {D : Prop} (h : ErrSpecN C n P D) : ErrSpecN C n (.atomic a P) D :=
  es_of_step fun f hf s s' hg hr => by
    rw [run_atomic, hg.incCall] at hr
    dsimp only at hr
    cases e1 : run C f P (atomPre a s) with
    | err x =>
      rw [e1] at hr
      simp only [Out.err.injEq] at hr; subst hr
      obtain ⟨a1, b1, c1⟩ := h f (by omega) _ _ (good_atomPre a hg) e1
      obtain ⟨p1, p2, p3⟩ := atomPre_fields a s
      obtain ⟨q1, q2, q3⟩ := atomPost_fields a s x
      rw [p1] at a1; rw [p2] at b1; rw [p3] at c1
      exact ⟨q1.trans a1, q2.trans b1, fun y => c1 (by rw [← q3]; exact y)⟩
    | ok x => rw [e1] at hr; cases hr
    | panic => rw [e1] at hr; cases hr
    | fuel => rw [e1] at hr; cases hr

theorem rulePre_fields (s : PState) : (rulePre s).pos = s.pos ∧ (rulePre s).stack = s.stack := by
  unfold rulePre; split <;> exact ⟨rfl, rfl⟩

theorem es_rule (r : Nat) {P : Prog} {D : Prop} (h : ErrSpecN C n P D) : ErrSpecN C n (.rule r P) D :=
  es_of_step fun f hf s s' hg hr => by
    rw [run_rule, hg.incCall] at hr
    dsimp only at hr
    cases e1 : run C f P (rulePre s) with
    | err x =>
      rw [e1] at hr
      dsimp only at hr
      obtain ⟨-, a, b, c, pa', q', rfl, -, hq1, hq2⟩ := ruleErrPost_spec (run_err_rel e1) (by rw [hr]; rfl)
      obtain ⟨a1, b1, c1⟩ := h f (by omega) _ _ (good_rulePre hg) e1
      obtain ⟨p1, p3⟩ := rulePre_fields s
      rw [p1] at a1; rw [p3] at c1
      refine ⟨a1, ?_, c1⟩
      by_cases hc : ruleCond s
      · exact hq1 hc
      · show q' = s.queue
        rw [hq2 hc, b1, rulePre_of_not hc]
    | ok x =>
      rw [e1] at hr
      dsimp only at hr
      obtain ⟨h1, -⟩ := ruleOkPost_spec (s' := s') (run_ok_rel e1) (by rw [hr]; rfl)
      rw [hr] at h1; cases h1
    | panic => rw [e1] at hr; cases hr
    | fuel => rw [e1] at hr; cases hr

theorem es_call {i : Nat} {P : Prog} {D : Prop} (hi : C.env[i]? = some P) (h : ErrSpecN C n P D) :
    ErrSpecN C (n + 1) (.call i) D :=
  es_of_step fun f hf s s' hg hr => by
    rw [run_call, hi] at hr
    exact h f (by omega) s s' hg hr

theorem es_call_none {i : Nat} {D : Prop} (hi : C.env[i]? = none) : ErrSpecN C n (.call i) D :=
  es_never fun f s s' _ hr => by
    rw [run_call, hi] at hr; cases hr

end PestModel.GenVm
