import PestModel.Gen.UnicodeTables
/-
L10 — Unicode property sets. The tables are REGENERATED from `pest/src/unicode/*.rs` on every run
(as sorted code-point ranges, the expansion of each `TrieSet`); this file gives them meaning.
-/
namespace PestModel.Unicode
open PestModel.Gen.Unicode

abbrev Ranges := List (Nat × Nat)

/-- membership of a code point. -/
def mem (rs : Ranges) (cp : Nat) : Bool := rs.any fun (lo, hi) => lo ≤ cp ∧ cp ≤ hi

/-- the set as one big number: bit `cp` is set iff `cp` is a member. -/
def bitsOf (rs : Ranges) : Nat :=
  rs.foldl (fun acc (lo, hi) => acc ||| (((1 <<< (hi + 1 - lo)) - 1) <<< lo)) 0

def isScalar (cp : Nat) : Bool := cp < 0xD800 ∨ (0xE000 ≤ cp ∧ cp < 0x110000)

/-- all scalar values as a bit set. -/
def scalarMask : Nat := bitsOf [(0, 0xD7FF), (0xE000, 0x10FFFF)]

/-- each set is disjoint from the union of the ones before it, and the union of all is `total`. -/
def partitionCheck (sets : List Nat) (total : Nat) : Bool :=
  let rec go : List Nat → Nat → Bool
    | [], acc => acc == total
    | s :: rest, acc => (acc &&& s == 0) && go rest (acc ||| s)
  go sets 0

/-- pairwise disjoint (incrementally). -/
def disjointCheck (sets : List Nat) : Bool :=
  let rec go : List Nat → Nat → Bool
    | [], _ => true
    | s :: rest, acc => (acc &&& s == 0) && go rest (acc ||| s)
  go sets 0

def unionBits (sets : List Nat) : Nat := sets.foldl (· ||| ·) 0

/-- the 29 usable two-letter general categories (Surrogate `Cs` is the 30th; it contains no scalar). -/
def twoLetter : List Ranges := [
  ranges_category_UPPERCASE_LETTER, ranges_category_LOWERCASE_LETTER, ranges_category_TITLECASE_LETTER,
  ranges_category_MODIFIER_LETTER, ranges_category_OTHER_LETTER,
  ranges_category_NONSPACING_MARK, ranges_category_SPACING_MARK, ranges_category_ENCLOSING_MARK,
  ranges_category_DECIMAL_NUMBER, ranges_category_LETTER_NUMBER, ranges_category_OTHER_NUMBER,
  ranges_category_CONNECTOR_PUNCTUATION, ranges_category_DASH_PUNCTUATION, ranges_category_OPEN_PUNCTUATION,
  ranges_category_CLOSE_PUNCTUATION, ranges_category_INITIAL_PUNCTUATION, ranges_category_FINAL_PUNCTUATION,
  ranges_category_OTHER_PUNCTUATION,
  ranges_category_MATH_SYMBOL, ranges_category_CURRENCY_SYMBOL, ranges_category_MODIFIER_SYMBOL,
  ranges_category_OTHER_SYMBOL,
  ranges_category_SPACE_SEPARATOR, ranges_category_LINE_SEPARATOR, ranges_category_PARAGRAPH_SEPARATOR,
  ranges_category_CONTROL, ranges_category_FORMAT, ranges_category_PRIVATE_USE, ranges_category_UNASSIGNED]

end PestModel.Unicode

namespace PestModel.Unicode
open PestModel.Gen.Unicode

/-- the grouped general categories with their members. -/
def groups : List (Ranges × List Ranges) := [
  (ranges_category_LETTER, [ranges_category_UPPERCASE_LETTER, ranges_category_LOWERCASE_LETTER, ranges_category_TITLECASE_LETTER,
    ranges_category_MODIFIER_LETTER, ranges_category_OTHER_LETTER]),
  (ranges_category_CASED_LETTER, [ranges_category_UPPERCASE_LETTER, ranges_category_LOWERCASE_LETTER, ranges_category_TITLECASE_LETTER]),
  (ranges_category_MARK, [ranges_category_NONSPACING_MARK, ranges_category_SPACING_MARK, ranges_category_ENCLOSING_MARK]),
  (ranges_category_NUMBER, [ranges_category_DECIMAL_NUMBER, ranges_category_LETTER_NUMBER, ranges_category_OTHER_NUMBER]),
  (ranges_category_PUNCTUATION, [ranges_category_CONNECTOR_PUNCTUATION, ranges_category_DASH_PUNCTUATION,
    ranges_category_OPEN_PUNCTUATION, ranges_category_CLOSE_PUNCTUATION, ranges_category_INITIAL_PUNCTUATION,
    ranges_category_FINAL_PUNCTUATION, ranges_category_OTHER_PUNCTUATION]),
  (ranges_category_SYMBOL, [ranges_category_MATH_SYMBOL, ranges_category_CURRENCY_SYMBOL, ranges_category_MODIFIER_SYMBOL,
    ranges_category_OTHER_SYMBOL]),
  (ranges_category_SEPARATOR, [ranges_category_SPACE_SEPARATOR, ranges_category_LINE_SEPARATOR, ranges_category_PARAGRAPH_SEPARATOR]),
  (ranges_category_OTHER, [ranges_category_CONTROL, ranges_category_FORMAT, ranges_category_SURROGATE,
    ranges_category_PRIVATE_USE, ranges_category_UNASSIGNED])]

/-- every group equals the union of its members. -/
def groupsCheck : Bool := groups.all fun (g, parts) => bitsOf g == unionBits (parts.map bitsOf)

def scripts : List Ranges := sets_script.map (·.2)

/-- `by_name`: the first entry (binary, then category, then script) whose upper-cased name is `n`. -/
def allByName : List (String × String × String) :=
  byName_binary.map (fun e => ("binary", e.1, e.2)) ++ byName_category.map (fun e => ("category", e.1, e.2)) ++
    byName_script.map (fun e => ("script", e.1, e.2))

def byName (n : String) : Option (String × String) :=
  (allByName.find? fun e => e.2.1.toUpper == n).map fun e => (e.1, e.2.2)

/-- an advertised name of a group resolves, through `by_name`, to the constant of the same name in
the same file — the one the function `pest::unicode::NAME` reads. -/
def namesCheck : Bool :=
  advertised_binary.all (fun n => byName n == some ("binary", n) && consts_binary.contains n) &&
  advertised_category.all (fun n => byName n == some ("category", n) && consts_category.contains n) &&
  advertised_script.all (fun n => byName n == some ("script", n) && consts_script.contains n)

def advertised : List String := advertised_binary ++ advertised_category ++ advertised_script

/-- the table behind an advertised name (used by the grammar driver for built-in rules). -/
def tableOf (n : String) : Option Ranges :=
  match byName n with
  | some (g, c) => table g c
  | none => none

end PestModel.Unicode
