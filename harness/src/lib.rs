//! Shared pieces of the correspondence harness: PRNG, hex, output files.
pub mod prog;
pub mod gram;
pub mod gencode;
use std::fmt::Write as _;
use std::fs;
use std::io::Write as _;
use std::path::Path;

/// SplitMix64: every random choice of a run derives from one state.
#[derive(Clone)]
pub struct Rng(pub u64);
impl Rng {
    pub fn new(seed: u64) -> Self {
        Rng(seed ^ 0x9E37_79B9_7F4A_7C15)
    }
    pub fn next(&mut self) -> u64 {
        self.0 = self.0.wrapping_add(0x9E37_79B9_7F4A_7C15);
        let mut z = self.0;
        z = (z ^ (z >> 30)).wrapping_mul(0xBF58_476D_1CE4_E5B9);
        z = (z ^ (z >> 27)).wrapping_mul(0x94D0_49BB_1331_11EB);
        z ^ (z >> 31)
    }
    pub fn below(&mut self, n: u64) -> u64 {
        if n == 0 { 0 } else { self.next() % n }
    }
    pub fn range(&mut self, lo: usize, hi: usize) -> usize {
        lo + self.below((hi - lo + 1) as u64) as usize
    }
    pub fn chance(&mut self, num: u64, den: u64) -> bool {
        self.below(den) < num
    }
    pub fn pick<'a, T>(&mut self, xs: &'a [T]) -> &'a T {
        &xs[self.below(xs.len() as u64) as usize]
    }
    pub fn fork(&mut self) -> Rng {
        Rng(self.next())
    }
}

pub fn hex(s: &[u8]) -> String {
    let mut o = String::with_capacity(s.len() * 2);
    for b in s {
        write!(o, "{:02x}", b).unwrap();
    }
    o
}
pub fn hexs(s: &str) -> String {
    if s.is_empty() { "-".into() } else { hex(s.as_bytes()) }
}
pub fn unhex(s: &str) -> Option<Vec<u8>> {
    if s == "-" { return Some(vec![]); }
    if s.len() % 2 != 0 { return None; }
    (0..s.len()).step_by(2).map(|i| u8::from_str_radix(&s[i..i + 2], 16).ok()).collect()
}
pub fn unhexs(s: &str) -> Option<String> {
    String::from_utf8(unhex(s)?).ok()
}

/// Output of one driver run: requests, implementation responses, oracle verdicts.
pub struct Out {
    pub ops: Vec<String>,
    pub imp: Vec<String>,
    pub oracle: Vec<String>,
}
impl Out {
    pub fn new() -> Self { Out { ops: vec![], imp: vec![], oracle: vec![] } }
    pub fn push(&mut self, op: String, imp: String, oracle: String) {
        debug_assert!(!op.contains('\n') && !imp.contains('\n') && !oracle.contains('\n'));
        self.ops.push(op); self.imp.push(imp); self.oracle.push(oracle);
    }
    pub fn write(&self, dir: &Path, stats_json: &str) {
        fs::create_dir_all(dir).unwrap();
        for (name, v) in [("ops.txt", &self.ops), ("impl.txt", &self.imp), ("oracle.txt", &self.oracle)] {
            let mut f = std::io::BufWriter::new(fs::File::create(dir.join(name)).unwrap());
            for l in v { f.write_all(l.as_bytes()).unwrap(); f.write_all(b"\n").unwrap(); }
        }
        fs::write(dir.join("stats.json"), stats_json).unwrap();
    }
}

/// Parse the common CLI: `gen <tier> <seed> <outdir>` or `run <opsfile> <outdir>`.
pub enum Cmd { Gen { thorough: bool, seed: u64, out: std::path::PathBuf }, Run { ops: Vec<String>, out: std::path::PathBuf } }
pub fn cli() -> Cmd {
    let a: Vec<String> = std::env::args().collect();
    match a.get(1).map(|s| s.as_str()) {
        Some("gen") => Cmd::Gen { thorough: a[2] == "thorough", seed: a[3].parse().unwrap(), out: a[4].clone().into() },
        Some("run") => {
            let txt = fs::read_to_string(&a[2]).unwrap();
            Cmd::Run { ops: txt.lines().filter(|l| !l.trim().is_empty()).map(|l| l.to_string()).collect(), out: a[3].clone().into() }
        }
        _ => { eprintln!("usage: gen <quick|thorough> <seed> <outdir> | run <opsfile> <outdir>"); std::process::exit(2) }
    }
}

/// Run `f`, mapping a panic to `Err(message)`.
pub fn catch<T>(f: impl FnOnce() -> T) -> Result<T, String> {
    match std::panic::catch_unwind(std::panic::AssertUnwindSafe(f)) {
        Ok(v) => Ok(v),
        Err(e) => Err(if let Some(s) = e.downcast_ref::<&str>() { s.to_string() } else if let Some(s) = e.downcast_ref::<String>() { s.clone() } else { "?".into() }),
    }
}
pub fn quiet_panics() {
    std::panic::set_hook(Box::new(|_| {}));
}
