"""C04 — the token stream is a well-formed tree and every Pairs view agrees with it."""
from props.common import *

MODULES = ["PestModel.Thm.C04", "PestModel.Thm.C04Queue"]
DRV, MODE = "drv_views", "views"


def run(ctx):
    simple_property(
        ctx, MODULES, DRV, MODE,
        oracle_kind="a view of the token tree disagrees with the tree (list-based reading of the same forest)",
        corr_kind="correspondence `views` (Pairs/Pair/FlatPairs/Tokens/PairsBuilder/renderers vs PestModel.Views)",
        rule="seeded random well-formed forests (<= 14 nodes, depth <= 4, empty spans, tags, multi-byte and quote/backslash/newline characters, 4% empty forests) built with PairsBuilder, each driven by a random script of view operations (next, next_back, len+size_hint, peek, as_str, concat, is_empty, into_inner from front/back, go up, Pairs::single, pair detail incl. line_col/tag/alternate Display, Pair::tokens, flatten, tokens, Display, alternate Display, Debug, to_json) of length <= 12 quick / 40 thorough, in any interleaving; non-trivial = distinct cases with >= 3 nodes and >= 4 operations",
        nontrivial_key="distinct_nontrivial",
        featureset="pretty",
        assumptions=[
            "theorems are about PestModel.Views (hand-written model of the index-window iterators and PairsBuilder::push_node); tie = correspondence on every observation of every script",
            "Rust's {:?} for str and serde_json's pretty printer are modelled for the characters the harness generates (quote, backslash, LF, CR, TAB escaped; others verbatim); JSON is additionally parsed back with serde_json and compared with the tree",
            "token streams of real parses are covered by the C03 driver (hook H1) whose final queues are checked for well-formedness there",
        ],
        leancheck=MODULES + ["PestModel.Model.Views"],
    )


    # the first sentence of the property on real parses: programs over the public ParserState operations (C03's driver), run
    # through pest::state; the Pairs of every successful run are walked in full (balanced tokens, nesting, ordering, boundaries)
    ok, out, bindir, _ = cargo_build("default", ["drv_prog"])
    if not ok:
        ctx.violation({"obligation": "harness does not build against /repo", "log": out[-2000:]}, no_input=True)
        return
    c = correspond("parses", os.path.join(bindir, "drv_prog"), ["gen", ctx.tier, str(ctx.seed)], "prog", os.path.join(ctx.rundir, "parses"))
    if c.error:
        ctx.violation({"correspondence": c.name, "error": c.error}, no_input=True)
        return
    bad = [t for t in c.oracle_fail if "token stream of a successful parse" in t[3] or "left tokens" in t[3] or "balanced pair" in t[3] or "emitted tokens of its own" in t[3]]
    if bad:
        i, op, imp, verdict = min(bad, key=lambda t: (len(t[1]), t[1]))
        ctx.violation({"kind": "a parse built from the public ParserState operations yields a token stream that is not a well-formed tree", "leg": "parses",
                       "case": op[:6000], "impl": imp[:1500], "oracle": verdict[:1500], "failing_cases_in_run": len(bad)})
    ev_path = os.path.join(EVIDENCE, f"{ctx.prop}.json")
    ev = json.load(open(ev_path))
    ev["coverage"]["distribution"]["parses"] = {"programs": c.n, "successful_parses_walked": c.stats.get("result_ok", c.stats.get("observed", {}).get("result_ok") if isinstance(c.stats.get("observed"), dict) else None), "ill_formed": len(bad)}
    ev["coverage"]["evaluations"] += c.n
    ev["violations"] = len(ctx.violations)
    ev["wall_s"] = round(time.time() - ctx.t0, 2)
    json.dump(ev, open(ev_path, "w"), indent=1)


def replay(ctx, path):
    r = json.load(open(path))
    if r.get("leg") == "parses":
        return replay_generic(ctx, path, "drv_prog", "prog")
    return replay_generic(ctx, path, DRV, MODE, featureset="pretty")
