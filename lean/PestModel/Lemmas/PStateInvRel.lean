import PestModel.Lemmas.PStateInvPos
import PestModel.Lemmas.PStateInvStack
import PestModel.Lemmas.PStateInvQueue
/-! The before/after relation established by every completed `run`. -/
namespace PestModel.PS
open PestModel.LineCol PestModel.Stack

/-- What every completed call guarantees about the state after (`s'`) relative to before (`s`). -/
structure Rel (s s' : PState) : Prop where
  input : s'.input = s.input
  la : s'.lookahead = s.lookahead
  atom : s'.atomicity = s.atomicity
  en : s'.pa.enabled = s.pa.enabled
  pos : s.pos ≤ s'.pos
  q : QLe s.queue s'.queue
  qla : s.lookahead ≠ .none → s'.queue = s.queue
  bnd : isBoundary s.input s.pos = true → isBoundary s.input s'.pos = true
  stk : StkInv s.stack → StkInv s'.stack ∧ (abs s'.stack).saved = (abs s.stack).saved

theorem Rel.refl (s : PState) : Rel s s :=
  ⟨rfl, rfl, rfl, rfl, Nat.le_refl _, QLe.refl _, fun _ => rfl, id, fun h => ⟨h, rfl⟩⟩

theorem Rel.trans {a b c : PState} (h1 : Rel a b) (h2 : Rel b c) : Rel a c where
  input := h2.input.trans h1.input
  la := h2.la.trans h1.la
  atom := h2.atom.trans h1.atom
  en := h2.en.trans h1.en
  pos := Nat.le_trans h1.pos h2.pos
  q := h1.q.trans h2.q
  qla := fun h => (h2.qla (by rw [h1.la]; exact h)).trans (h1.qla h)
  bnd := fun h => by
    have := h2.bnd (by rw [h1.input]; exact h1.bnd h)
    rwa [h1.input] at this
  stk := fun h => by
    obtain ⟨i1, e1⟩ := h1.stk h
    obtain ⟨i2, e2⟩ := h2.stk i1
    exact ⟨i2, e2.trans e1⟩

/-- States that differ only in bookkeeping (`calls`, attempts, `pa` except `enabled`). -/
theorem Rel.of_core {s s' : PState} (h1 : s'.input = s.input) (h2 : s'.pos = s.pos)
    (h3 : s'.queue = s.queue) (h4 : s'.lookahead = s.lookahead) (h5 : s'.atomicity = s.atomicity)
    (h6 : s'.stack = s.stack) (h7 : s'.pa.enabled = s.pa.enabled) : Rel s s' :=
  ⟨h1, h4, h5, h7, by omega, QLe.of_eq h3, fun _ => h3, fun h => by rw [h2]; exact h,
   fun h => by rw [h6]; exact ⟨h, rfl⟩⟩

theorem Rel.wf {s s' : PState} (r : Rel s s') (h : s.WF) : s'.WF := by
  refine ⟨?_, (r.stk h.2).1⟩
  rw [r.input]; exact r.bnd h.1

theorem incCall_some {s s1 : PState} (h : incCall s = some s1) : ∃ c, s1 = { s with calls := c } := by
  unfold incCall at h
  split at h
  · simp at h; subst h; rename_i hc; exact ⟨none, by rw [← hc]⟩
  · split at h
    · simp at h
    · simp at h; exact ⟨_, h.symm⟩

theorem incCall_rel {s s1 : PState} (h : incCall s = some s1) : Rel s s1 := by
  obtain ⟨c, rfl⟩ := incCall_some h
  exact Rel.of_core rfl rfl rfl rfl rfl rfl rfl

theorem tryAddNewToken_enabled (pa : PAttempts) (tok : PTok) (a b : Nat) (n : Bool) :
    (pa.tryAddNewToken tok a b n).enabled = pa.enabled := by
  unfold PAttempts.tryAddNewToken
  simp only []
  repeat' split
  all_goals rfl

theorem handleToken_eq (s : PState) (start : Nat) (tok : PTok) (succ : Bool) :
    ∃ pa', handleToken s start tok succ = { s with pa := pa' } ∧ pa'.enabled = s.pa.enabled := by
  unfold handleToken
  simp only []
  repeat' split
  all_goals first
    | exact ⟨s.pa, rfl, rfl⟩
    | exact ⟨_, rfl, tryAddNewToken_enabled _ _ _ _ _⟩
    | exact ⟨_, rfl, rfl⟩

theorem track_eq (s : PState) (rule pos pai nai prev : Nat) :
    ∃ a b c, track s rule pos pai nai prev = { s with posAtt := a, negAtt := b, attemptPos := c } := by
  unfold track
  simp only []
  repeat' split
  all_goals exact ⟨_, _, _, rfl⟩

theorem tryAddNewStackRule_enabled {pa pa' : PAttempts} {r st : Nat}
    (h : pa.tryAddNewStackRule r st = some pa') : pa'.enabled = pa.enabled := by
  unfold PAttempts.tryAddNewStackRule at h
  simp only [] at h
  repeat' split at h
  all_goals first
    | (simp at h; done)
    | (simp only [Option.some.injEq] at h; subst h; rfl)

theorem tryAddRuleToStack_eq {s s' : PState} {r cs m : Nat} (h : tryAddRuleToStack s r cs m = some s') :
    ∃ pa', s' = { s with pa := pa' } ∧ pa'.enabled = s.pa.enabled := by
  unfold tryAddRuleToStack at h
  simp only [] at h
  split at h
  · split at h
    · rename_i pa hp
      simp at h; subst h
      exact ⟨pa, rfl, tryAddNewStackRule_enabled hp⟩
    · simp at h
  · simp at h; subst h; exact ⟨s.pa, rfl, rfl⟩

theorem checkpointOk_some {ns ns' : PState} (h : checkpointOk ns = some ns') :
    ∃ st, clearSnapshot ns.stack = some st ∧ ns' = { ns with stack := st } := by
  unfold checkpointOk at h
  simp only [Option.map_eq_some_iff] at h
  obtain ⟨st, h1, h2⟩ := h
  exact ⟨st, h1, h2.symm⟩

theorem restoreStack_some {ns ns' : PState} (h : restoreStack ns = some ns') :
    ∃ st, restore ns.stack = some st ∧ ns' = { ns with stack := st } := by
  unfold restoreStack at h
  simp only [Option.map_eq_some_iff] at h
  obtain ⟨st, h1, h2⟩ := h
  exact ⟨st, h1, h2.symm⟩

theorem checkpointOk_isSome {ns : PState} (h : StkInv ns.stack) : ∃ ns', checkpointOk ns = some ns' := by
  obtain ⟨st, h1, -⟩ := clearSnapshot_spec ns.stack h
  exact ⟨{ ns with stack := st }, by simp [checkpointOk, h1]⟩

theorem restoreStack_isSome {ns : PState} (h : StkInv ns.stack) : ∃ ns', restoreStack ns = some ns' := by
  obtain ⟨st, h1, -⟩ := restore_spec ns.stack h
  exact ⟨{ ns with stack := st }, by simp [restoreStack, h1]⟩

/-- Stack part of a `checkpoint … checkpointOk` bracket. -/
theorem bracket_ok {st0 st1 st2 : Stk Str} (h0 : StkInv st0)
    (hbody : StkInv { st0 with lengths := (st0.cache.length, st0.cache.length) :: st0.lengths } →
      StkInv st1 ∧ (abs st1).saved =
        (abs { st0 with lengths := (st0.cache.length, st0.cache.length) :: st0.lengths }).saved)
    (hc : clearSnapshot st1 = some st2) :
    StkInv st2 ∧ (abs st2).saved = (abs st0).saved ∧ st2.cache = st1.cache := by
  obtain ⟨i0, e0⟩ := snapshot_spec st0 h0
  obtain ⟨i1, e1⟩ := hbody i0
  obtain ⟨st2', hc', i2, c2, e2⟩ := clearSnapshot_spec st1 i1
  rw [hc] at hc'; simp at hc'; subst hc'
  refine ⟨i2, ?_, c2⟩
  rw [e2, e1, e0]; rfl

/-- Stack part of a `checkpoint … restore` bracket: everything is as before. -/
theorem bracket_restore {st0 st1 st2 : Stk Str} (h0 : StkInv st0)
    (hbody : StkInv { st0 with lengths := (st0.cache.length, st0.cache.length) :: st0.lengths } →
      StkInv st1 ∧ (abs st1).saved =
        (abs { st0 with lengths := (st0.cache.length, st0.cache.length) :: st0.lengths }).saved)
    (hc : restore st1 = some st2) :
    StkInv st2 ∧ (abs st2).saved = (abs st0).saved ∧ st2.cache = st0.cache := by
  obtain ⟨i0, e0⟩ := snapshot_spec st0 h0
  obtain ⟨i1, e1⟩ := hbody i0
  obtain ⟨st2', hc', i2, hh⟩ := restore_spec st1 i1
  rw [hc] at hc'; simp at hc'; subst hc'
  obtain ⟨c2, e2⟩ := hh _ _ (e1.trans e0)
  exact ⟨i2, e2, c2⟩

theorem stackEq_of {a b : Stk Str} (h1 : a.cache = b.cache) (h2 : (abs a).saved = (abs b).saved) :
    stackEq a b := by
  unfold stackEq
  have : ∀ n : Naive Str, n = ⟨n.cur, n.saved⟩ := fun n => rfl
  rw [this (abs a), this (abs b), h2]
  show Naive.mk a.cache _ = Naive.mk b.cache _
  rw [h1]

end PestModel.PS
