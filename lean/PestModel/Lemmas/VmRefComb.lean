import PestModel.Lemmas.VmRef
/-! C01, part 2: one specification lemma per `ParserState` combinator. Fuel convention: the
conclusion is at fuel `n`, the hypotheses at `n - 1` (fuel `0` is trivial). -/
namespace PestModel.VmRef
open PestModel.G PestModel.PS PestModel.Lower PestModel.Ref PestModel.Views
open PestModel.LineCol (Str isBoundary bLen cLen splitAt? slice?)
open PestModel.Stack (StkInv)

/-! ### reference-side combinators -/

def seqD (D1 D2 : St → Res) (σ : St) : Res :=
  match D1 σ with
  | .ok s1 f1 =>
    match D2 s1 with
    | .ok s2 f2 => .ok s2 (f1 ++ f2)
    | r => r
  | r => r

def altD (D1 D2 : St → Res) (σ : St) : Res :=
  match D1 σ with
  | .fail => D2 σ
  | r => r

def optD (D : St → Res) (σ : St) : Res :=
  match D σ with
  | .fail => .ok σ []
  | r => r

def posD (D : St → Res) (σ : St) : Res :=
  match D σ with
  | .ok _ _ => .ok σ []
  | r => r

def negD (D : St → Res) (σ : St) : Res :=
  match D σ with
  | .ok _ _ => .fail
  | .fail => .ok σ []
  | r => r

def ruleD (id : Nat) (emit : Bool) (D : St → Res) (σ : St) : Res :=
  match D σ with
  | .ok s1 f1 => if emit then .ok s1 [.node id σ.pos s1.pos none f1] else .ok s1 f1
  | r => r

def pushD (input : Str) (D : St → Res) (σ : St) : Res :=
  match D σ with
  | .ok s1 f1 =>
    match slice? input σ.pos s1.pos with
    | some str => .ok { s1 with stack := str :: s1.stack } f1
    | none => .stuck
  | r => r

variable {cfg : Cfg} {input : Str}

theorem Sim.wf {m la} {st : PState} {σ : St} (hs : Sim input m la st σ) : st.WF :=
  ⟨by rw [hs.inp]; exact hs.bnd, hs.inv⟩

theorem cache_of_stackEq {a b : Stack.Stk Str} (h : stackEq a b) : a.cache = b.cache :=
  congrArg Stack.Naive.cur h

theorem Sim.checkpoint {m la} {st : PState} {σ : St} (hs : Sim input m la st σ) :
    Sim input m la (checkpoint st) σ :=
  { hs with inv := (snapshot_spec st.stack hs.inv).1 }

/-! ### `call`, `andThen`, `orElse` -/

theorem spec_call {n i p m la D E} (hi : cfg.env[i]? = some p) (h : Spec cfg input (n - 1) p m la D E) :
    Spec cfg input n (.call i) m la D E := by
  cases n with
  | zero => exact Spec.zero _ _ _ _ _
  | succ k =>
    simp only [Nat.add_sub_cancel] at h
    intro st σ hs
    rw [run_call, hi]
    exact h st σ hs

theorem spec_call_none {n i m la D E} (hi : cfg.env[i]? = none) (hD : ∀ σ, D σ = .stuck) :
    Spec cfg input n (.call i) m la D E := by
  cases n with
  | zero => exact Spec.zero _ _ _ _ _
  | succ k =>
    intro st σ hs
    rw [run_call, hi]
    exact hD σ

theorem spec_andThen {n p q m la D1 D2 E1 E2} (h1 : Spec cfg input (n - 1) p m la D1 E1)
    (h2 : Spec cfg input (n - 1) q m la D2 E2) :
    Spec cfg input n (.andThen p q) m la (seqD D1 D2) Any := by
  cases n with
  | zero => exact Spec.zero _ _ _ _ _
  | succ k =>
    simp only [Nat.add_sub_cancel] at h1 h2
    intro st σ hs
    rw [run_andThen]
    cases hr : run cfg k p st with
    | ok st1 =>
      obtain ⟨σ1, f1, hd1, hp1, hk1, hq1⟩ := h1.ok hs hr
      have hs1 := hs.next_ok hr hp1 hk1
      dsimp only
      cases hr2 : run cfg k q st1 with
      | ok st2 =>
        obtain ⟨σ2, f2, hd2, hp2, hk2, hq2⟩ := h2.ok hs1 hr2
        refine ⟨σ2, f1 ++ f2, ?_, hp2, hk2, ?_⟩
        · simp [seqD, hd1, hd2]
        · rw [hq2, hq1, pushNodes_append]
      | err st2 => exact ⟨by simp [seqD, hd1, (h2.err hs1 hr2).1], trivial⟩
      | panic => simp [seqD, hd1, h2.panic hs1 hr2]
      | fuel => trivial
    | err st1 => exact ⟨by simp [seqD, (h1.err hs hr).1], trivial⟩
    | panic => simp [seqD, h1.panic hs hr]
    | fuel => trivial

/-- when the second program never fails, a failure of `p.and_then(q)` is a failure of `p`. -/
theorem spec_andThen_left {n p q m la D1 D2 E1} (h1 : Spec cfg input (n - 1) p m la D1 E1)
    (h2 : Spec cfg input (n - 1) q m la D2 (fun _ _ => False)) :
    Spec cfg input n (.andThen p q) m la (seqD D1 D2) E1 := by
  cases n with
  | zero => exact Spec.zero _ _ _ _ _
  | succ k =>
    simp only [Nat.add_sub_cancel] at h1 h2
    intro st σ hs
    rw [run_andThen]
    cases hr : run cfg k p st with
    | ok st1 =>
      obtain ⟨σ1, f1, hd1, hp1, hk1, hq1⟩ := h1.ok hs hr
      have hs1 := hs.next_ok hr hp1 hk1
      dsimp only
      cases hr2 : run cfg k q st1 with
      | ok st2 =>
        obtain ⟨σ2, f2, hd2, hp2, hk2, hq2⟩ := h2.ok hs1 hr2
        refine ⟨σ2, f1 ++ f2, ?_, hp2, hk2, ?_⟩
        · simp [seqD, hd1, hd2]
        · rw [hq2, hq1, pushNodes_append]
      | err st2 => exact (h2.err hs1 hr2).2.elim
      | panic => simp [seqD, hd1, h2.panic hs1 hr2]
      | fuel => trivial
    | err st1 => exact ⟨by simp [seqD, (h1.err hs hr).1], (h1.err hs hr).2⟩
    | panic => simp [seqD, h1.panic hs hr]
    | fuel => trivial

theorem spec_orElse {n p q m la D1 D2} {cl : Prop} (h1 : Spec cfg input (n - 1) p m la D1 (Rest True))
    (h2 : Spec cfg input (n - 1) q m la D2 (Rest cl)) :
    Spec cfg input n (.orElse p q) m la (altD D1 D2) (Rest cl) := by
  cases n with
  | zero => exact Spec.zero _ _ _ _ _
  | succ k =>
    simp only [Nat.add_sub_cancel] at h1 h2
    intro st σ hs
    rw [run_orElse]
    cases hr : run cfg k p st with
    | ok st1 =>
      obtain ⟨σ1, f1, hd1, hp1, hk1, hq1⟩ := h1.ok hs hr
      exact ⟨σ1, f1, by simp [altD, hd1], hp1, hk1, hq1⟩
    | err st1 =>
      obtain ⟨hd1, hR⟩ := h1.err hs hr
      have hs1 := hs.next_err hr hR
      dsimp only
      cases hr2 : run cfg k q st1 with
      | ok st2 =>
        obtain ⟨σ2, f2, hd2, hp2, hk2, hq2⟩ := h2.ok hs1 hr2
        exact ⟨σ2, f2, by simp [altD, hd1, hd2], hp2, hk2, by rw [hq2, hR.2.1]⟩
      | err st2 =>
        obtain ⟨hd2, hR2⟩ := h2.err hs1 hr2
        exact ⟨by simp [altD, hd1, hd2], hR.trans hR2⟩
      | panic => simp [altD, hd1, h2.panic hs1 hr2]
      | fuel => trivial
    | panic => simp [altD, h1.panic hs hr]
    | fuel => trivial


/-! ### `sequence`, `restoreOnErr`, `optional` -/

theorem spec_sequence {n p m la D E} (h : Spec cfg input (n - 1) p m la D E) :
    Spec cfg input n (.sequence p) m la D (Rest True) := by
  cases n with
  | zero => exact Spec.zero _ _ _ _ _
  | succ k =>
    simp only [Nat.add_sub_cancel] at h
    intro st σ hs
    rw [run_sequence, hs.incCall]; dsimp only
    cases hr : run cfg k p (checkpoint st) with
    | ok ns =>
      dsimp only
      obtain ⟨σ1, f1, hd, hp, hk, hq⟩ := h.ok hs.checkpoint hr
      have rb := run_ok_rel hr
      obtain ⟨ns', hc⟩ := checkpointOk_isSome (ns := ns) (rb.stk hs.checkpoint.inv).1
      rw [hc]; dsimp only
      obtain ⟨st2, hcs, rfl⟩ := checkpointOk_some hc
      obtain ⟨-, -, hcache⟩ := bracket_ok hs.inv rb.stk hcs
      exact ⟨σ1, f1, hd, hp, hcache.trans hk, hq⟩
    | err ns =>
      dsimp only
      have rb := run_err_rel hr
      obtain ⟨ns', hc⟩ := restoreStack_isSome (ns := seqErrState st ns) (rb.stk hs.checkpoint.inv).1
      rw [hc]; dsimp only
      refine ⟨(h.err hs.checkpoint hr).1, ?_⟩
      obtain ⟨st2, hre, rfl⟩ := restoreStack_some hc
      obtain ⟨-, -, hcache⟩ := bracket_restore hs.inv rb.stk hre
      exact ⟨rfl, setLastTag_restore rb.q, fun _ => hcache⟩
    | panic => exact h.panic hs.checkpoint hr
    | fuel => trivial

theorem spec_restoreOnErr {n p m la D} {cl : Prop} (h : Spec cfg input (n - 1) p m la D (Rest cl)) :
    Spec cfg input n (.restoreOnErr p) m la D (Rest True) := by
  cases n with
  | zero => exact Spec.zero _ _ _ _ _
  | succ k =>
    simp only [Nat.add_sub_cancel] at h
    intro st σ hs
    rw [run_restoreOnErr]
    cases hr : run cfg k p (checkpoint st) with
    | ok ns =>
      dsimp only
      obtain ⟨σ1, f1, hd, hp, hk, hq⟩ := h.ok hs.checkpoint hr
      have rb := run_ok_rel hr
      obtain ⟨ns', hc⟩ := checkpointOk_isSome (ns := ns) (rb.stk hs.checkpoint.inv).1
      rw [hc]; dsimp only
      obtain ⟨st2, hcs, rfl⟩ := checkpointOk_some hc
      obtain ⟨-, -, hcache⟩ := bracket_ok hs.inv rb.stk hcs
      exact ⟨σ1, f1, hd, hp, hcache.trans hk, hq⟩
    | err ns =>
      dsimp only
      have rb := run_err_rel hr
      obtain ⟨ns', hc⟩ := restoreStack_isSome (ns := ns) (rb.stk hs.checkpoint.inv).1
      rw [hc]; dsimp only
      obtain ⟨hd, hR⟩ := h.err hs.checkpoint hr
      refine ⟨hd, ?_⟩
      obtain ⟨st2, hre, rfl⟩ := restoreStack_some hc
      obtain ⟨-, -, hcache⟩ := bracket_restore hs.inv rb.stk hre
      exact ⟨hR.1, hR.2.1, fun _ => hcache⟩
    | panic => exact h.panic hs.checkpoint hr
    | fuel => trivial

theorem spec_optional {n p m la D E} (h : Spec cfg input (n - 1) p m la D (Rest True)) :
    Spec cfg input n (.optional p) m la (optD D) E := by
  cases n with
  | zero => exact Spec.zero _ _ _ _ _
  | succ k =>
    simp only [Nat.add_sub_cancel] at h
    intro st σ hs
    rw [run_optional, hs.incCall]; dsimp only
    cases hr : run cfg k p st with
    | ok s' =>
      dsimp only
      obtain ⟨σ1, f1, hd, hp, hk, hq⟩ := h.ok hs hr
      exact ⟨σ1, f1, by simp [optD, hd], hp, hk, hq⟩
    | err s' =>
      dsimp only
      obtain ⟨hd, hR⟩ := h.err hs hr
      exact ⟨σ, [], by simp [optD, hd], hR.1.trans hs.pos, (hR.2.2 trivial).trans hs.stk,
        by rw [pushNodes_nil]; exact hR.2.1⟩
    | panic => simp [optD, h.panic hs hr]
    | fuel => trivial

/-! ### `repeat` -/

def _root_.PestModel.Ref.Res.prepend (acc : List Tree) : Res → Res
  | .ok s f => .ok s (acc ++ f)
  | r => r

/-- `L` is the reference's loop over the unit `D` (with an accumulator). -/
structure IsLoop (D : St → Res) (L : St → List Tree → Res) : Prop where
  unfold : ∀ s acc, L s acc =
    match D s with
    | .ok s1 f1 => L s1 (acc ++ f1)
    | .fail => .ok s acc
    | r => r
  acc : ∀ s acc, L s acc = (L s []).prepend acc

theorem spec_repLoop {p m la D L} (hL : IsLoop D L) : ∀ k,
    (∀ j, j < k → Spec cfg input j p m la D (Rest True)) →
    Spec cfg input k (.repLoop p) m la (fun σ => L σ []) (fun _ _ => False)
  | 0, _ => Spec.zero _ _ _ _ _
  | k + 1, hp => by
    have ih := spec_repLoop hL k (fun j hj => hp j (by omega))
    have h := hp k (by omega)
    intro st σ hs
    rw [run_repLoop]
    cases hr : run cfg k p st with
    | ok s' =>
      dsimp only
      obtain ⟨σ1, f1, hd, hp1, hk1, hq1⟩ := h.ok hs hr
      have hs1 := hs.next_ok hr hp1 hk1
      have hu : L σ [] = (L σ1 []).prepend f1 := by
        rw [hL.unfold, hd]; dsimp only; rw [hL.acc]; simp
      cases hr2 : run cfg k (.repLoop p) s' with
      | ok s2 =>
        obtain ⟨σ2, f2, hd2, hp2, hk2, hq2⟩ := ih.ok hs1 hr2
        refine ⟨σ2, f1 ++ f2, ?_, hp2, hk2, by rw [hq2, hq1, pushNodes_append]⟩
        show L σ [] = _
        rw [hu, hd2]; rfl
      | err s2 => exact (ih.err hs1 hr2).2.elim
      | panic =>
        show L σ [] = _
        rw [hu, ih.panic hs1 hr2]; rfl
      | fuel => trivial
    | err s' =>
      dsimp only
      obtain ⟨hd, hR⟩ := h.err hs hr
      refine ⟨σ, [], ?_, hR.1.trans hs.pos, (hR.2.2 trivial).trans hs.stk,
        by rw [pushNodes_nil]; exact hR.2.1⟩
      show L σ [] = _
      rw [hL.unfold, hd]
    | panic =>
      show L σ [] = _
      rw [hL.unfold, h.panic hs hr]
    | fuel => trivial

theorem spec_repeat {n p m la D L E} (hL : IsLoop D L)
    (hp : ∀ j, j + 1 < n → Spec cfg input j p m la D (Rest True)) :
    Spec cfg input n (.repeat_ p) m la (fun σ => L σ []) E := by
  cases n with
  | zero => exact Spec.zero _ _ _ _ _
  | succ k =>
    intro st σ hs
    rw [run_repeat, hs.incCall]; dsimp only
    exact (spec_repLoop hL k (fun j hj => hp j (by omega))).weaken (fun _ _ h => h.elim) st σ hs

/-! ### `lookahead`, `atomic` -/

theorem spec_lookahead {n p m la D E} (positive : Bool) (h : Spec cfg input (n - 1) p m true D E) :
    Spec cfg input n (.lookahead positive p) m la (if positive then posD D else negD D) (Rest True) := by
  cases n with
  | zero => exact Spec.zero _ _ _ _ _
  | succ k =>
    simp only [Nat.add_sub_cancel] at h
    intro st σ hs
    rw [run_lookahead, hs.incCall]; dsimp only
    have hs' : Sim input m true (checkpoint { st with lookahead := laMode positive st.lookahead }) σ :=
      { hs with inv := (snapshot_spec st.stack hs.inv).1
                la := by simp [PS.checkpoint, laMode_ne_none] }
    have key : ∀ ns, Rel (checkpoint { st with lookahead := laMode positive st.lookahead }) ns →
        ∃ ns', laPost st ns = some ns' ∧ ns'.pos = st.pos ∧ ns'.queue = st.queue ∧
          ns'.stack.cache = st.stack.cache := by
      intro ns rb
      obtain ⟨ns', hc⟩ := restoreStack_isSome
        (ns := { ns with pos := st.pos, lookahead := st.lookahead }) (rb.stk hs'.inv).1
      obtain ⟨-, h1, h2, h3⟩ := laPost_rel rb hc
      exact ⟨ns', hc, h1, h2, h3 hs.inv⟩
    cases hr : run cfg k p (checkpoint { st with lookahead := laMode positive st.lookahead }) with
    | ok ns =>
      dsimp only
      obtain ⟨σ1, f1, hd, -, -, -⟩ := h.ok hs' hr
      obtain ⟨ns', hc, h1, h2, h3⟩ := key ns (run_ok_rel hr)
      rw [hc]; dsimp only
      cases positive with
      | true =>
        simp only [if_true]
        exact ⟨σ, [], by simp [posD, hd], h1.trans hs.pos, h3.trans hs.stk, by rw [pushNodes_nil]; exact h2⟩
      | false =>
        simp only [Bool.false_eq_true, if_false]
        exact ⟨by simp [negD, hd], h1, h2, fun _ => h3⟩
    | err ns =>
      dsimp only
      obtain ⟨hd, -⟩ := h.err hs' hr
      obtain ⟨ns', hc, h1, h2, h3⟩ := key ns (run_err_rel hr)
      rw [hc]; dsimp only
      cases positive with
      | true =>
        simp only [if_true]
        exact ⟨by simp [posD, hd], h1, h2, fun _ => h3⟩
      | false =>
        simp only [Bool.false_eq_true, if_false]
        exact ⟨σ, [], by simp [negD, hd], h1.trans hs.pos, h3.trans hs.stk, by rw [pushNodes_nil]; exact h2⟩
    | panic =>
      have := h.panic hs' hr
      cases positive <;> simp [posD, negD, this]
    | fuel => trivial

theorem atomPre_sim {m la} {a : Atomicity} {st : PState} {σ : St} (hs : Sim input m la st σ) :
    Sim input a la (atomPre a st) σ := by
  unfold atomPre
  split
  · exact { hs with atom := rfl }
  · rename_i h
    exact { hs with atom := by simpa using h }

theorem atomPre_fields (a : Atomicity) (st : PState) :
    (atomPre a st).pos = st.pos ∧ (atomPre a st).queue = st.queue ∧ (atomPre a st).stack = st.stack := by
  unfold atomPre; split <;> exact ⟨rfl, rfl, rfl⟩

theorem atomPost_fields (a : Atomicity) (st ns : PState) :
    (atomPost a st ns).pos = ns.pos ∧ (atomPost a st ns).queue = ns.queue ∧
      (atomPost a st ns).stack = ns.stack := by
  unfold atomPost; split <;> exact ⟨rfl, rfl, rfl⟩

theorem spec_atomic {n p m la D} {cl : Prop} (a : Atomicity) (h : Spec cfg input (n - 1) p a la D (Rest cl)) :
    Spec cfg input n (.atomic a p) m la D (Rest cl) := by
  cases n with
  | zero => exact Spec.zero _ _ _ _ _
  | succ k =>
    simp only [Nat.add_sub_cancel] at h
    intro st σ hs
    rw [run_atomic, hs.incCall]; dsimp only
    have hs' := atomPre_sim (a := a) hs
    obtain ⟨e1, e2, e3⟩ := atomPre_fields a st
    cases hr : run cfg k p (atomPre a st) with
    | ok ns =>
      dsimp only
      obtain ⟨σ1, f1, hd, hp, hk, hq⟩ := h.ok hs' hr
      obtain ⟨g1, g2, g3⟩ := atomPost_fields a st ns
      exact ⟨σ1, f1, hd, g1.trans hp, by rw [g3]; exact hk, by rw [g2, hq, e2]⟩
    | err ns =>
      dsimp only
      obtain ⟨hd, hR⟩ := h.err hs' hr
      obtain ⟨g1, g2, g3⟩ := atomPost_fields a st ns
      exact ⟨hd, by rw [g1, hR.1, e1], by rw [g2, hR.2.1, e2], fun c => by rw [g3, hR.2.2 c, e3]⟩
    | panic => exact h.panic hs' hr
    | fuel => trivial


/-! ### `rule`, `stackPush` -/

theorem rulePre_fields (st : PState) :
    (rulePre st).pos = st.pos ∧ (rulePre st).stack = st.stack ∧ (rulePre st).input = st.input ∧
    (rulePre st).atomicity = st.atomicity ∧ (rulePre st).lookahead = st.lookahead ∧
    (rulePre st).calls = st.calls ∧ (rulePre st).pa = st.pa := by
  unfold rulePre; split <;> exact ⟨rfl, rfl, rfl, rfl, rfl, rfl, rfl⟩

theorem rulePre_sim {m la} {st : PState} {σ : St} (hs : Sim input m la st σ) :
    Sim input m la (rulePre st) σ := by
  obtain ⟨e1, e2, e3, e4, e5, e6, e7⟩ := rulePre_fields st
  exact ⟨e3.trans hs.inp, e1.trans hs.pos, by rw [e2]; exact hs.stk, by rw [e2]; exact hs.inv,
    by rw [e1]; exact hs.bnd, e4.trans hs.atom, by rw [e5]; exact hs.la, e6.trans hs.calls,
    by rw [e7]; exact hs.en⟩

theorem Sim.ruleCond_iff {m la} {st : PState} {σ : St} (hs : Sim input m la st σ) :
    ruleCond st ↔ (!la && decide (m ≠ .atomic)) = true := by
  unfold ruleCond
  rw [hs.la, hs.atom]
  cases la <;> simp

theorem ruleOkPost_ok {s1 ns : PState} {r : Nat} (rb : Rel (rulePre s1) ns)
    (hen : ns.pa.enabled = false) : ∃ s', ruleOkPost s1 r ns = .ok s' := by
  have hnp := np_ruleOkPost (r := r) rb hen
  unfold ruleOkPost at hnp ⊢
  split
  · rename_i he; rw [he] at hnp; simp at hnp
  · rename_i ns1 he
    rw [he] at hnp; dsimp only at hnp
    unfold ruleFinish at hnp ⊢
    by_cases h1 : ns1.pa.enabled = true
    · rw [if_pos h1] at hnp ⊢
      cases h2 : ruleAdd s1 r ns1 with
      | none => rw [h2] at hnp; simp at hnp
      | some x => exact ⟨_, rfl⟩
    · rw [if_neg h1]; exact ⟨_, rfl⟩

theorem ruleErrPost_err {s1 ns : PState} {r : Nat} (hen : ns.pa.enabled = false) :
    ∃ s', ruleErrPost s1 r ns = .err s' := by
  obtain ⟨ns', h⟩ := ruleErrAdd_no_panic (s1 := s1) (r := r) hen
  unfold ruleErrPost
  rw [h]
  exact ⟨_, rfl⟩

theorem spec_rule {n p m la D} {cl : Prop} (r : Nat) (h : Spec cfg input (n - 1) p m la D (Rest cl)) :
    Spec cfg input n (.rule r p) m la (ruleD r (!la && decide (m ≠ .atomic)) D) (Rest cl) := by
  cases n with
  | zero => exact Spec.zero _ _ _ _ _
  | succ k =>
    simp only [Nat.add_sub_cancel] at h
    intro st σ hs
    rw [run_rule, hs.incCall]; dsimp only
    have hs' := rulePre_sim hs
    obtain ⟨e1, e2, -⟩ := rulePre_fields st
    cases hr : run cfg k p (rulePre st) with
    | ok ns =>
      dsimp only
      obtain ⟨σ1, f1, hd, hp, hk, hq⟩ := h.ok hs' hr
      have rb := run_ok_rel hr
      have hen : ns.pa.enabled = false := rb.en.trans hs'.en
      obtain ⟨s', hok⟩ := ruleOkPost_ok (r := r) rb hen
      rw [hok]; dsimp only
      obtain ⟨-, a, b, c, pa', q', rfl, -, h1, h2⟩ := ruleOkPost_spec rb (by rw [hok]; rfl)
      by_cases hc : ruleCond st
      · obtain ⟨inner, hqi, rfl⟩ := h1 hc
        have hemit := hs.ruleCond_iff.1 hc
        refine ⟨σ1, [.node r σ.pos σ1.pos none f1], ?_, hp, hk, ?_⟩
        · simp only [ruleD, hd, hemit, if_true]
        · show st.queue ++ QTok.start (st.queue.length + 1 + inner.length) st.pos :: inner ++
            [QTok.end_ st.queue.length r none ns.pos] = _
          rw [pushNodes_single, pushNode_node]
          have : pushNodes (st.queue ++ [QTok.start 0 σ.pos]) f1 =
              st.queue ++ QTok.start 0 st.pos :: inner := by
            rw [← hqi, hq, rulePre_of_cond hc, hs.pos]
          rw [this, setAt_append_cons, hs.pos, hp]
          simp
          omega
      · have := h2 hc; subst this
        have hemit : (!la && decide (m ≠ .atomic)) = false := by
          cases hb : (!la && decide (m ≠ .atomic))
          · rfl
          · exact absurd (hs.ruleCond_iff.2 hb) hc
        refine ⟨σ1, f1, by simp only [ruleD, hd, hemit]; rfl, hp, hk, ?_⟩
        show ns.queue = _
        rw [hq, rulePre_of_not hc]
    | err ns =>
      dsimp only
      obtain ⟨hd, hR⟩ := h.err hs' hr
      have rb := run_err_rel hr
      have hen : ns.pa.enabled = false := rb.en.trans hs'.en
      obtain ⟨s', herr⟩ := ruleErrPost_err (s1 := st) (r := r) hen
      rw [herr]; dsimp only
      obtain ⟨-, a, b, c, pa', q', rfl, -, h1, h2⟩ := ruleErrPost_spec rb (by rw [herr]; rfl)
      refine ⟨by simp only [ruleD, hd], hR.1.trans e1, ?_, fun c => by
        show ns.stack.cache = _
        rw [hR.2.2 c, e2]⟩
      show q' = st.queue
      by_cases hc : ruleCond st
      · exact h1 hc
      · rw [h2 hc, hR.2.1, rulePre_of_not hc]
    | panic =>
      show ruleD r _ D σ = .stuck
      simp only [ruleD, h.panic hs' hr]
    | fuel => trivial

theorem spec_stackPush {n p m la D} {cl : Prop} (h : Spec cfg input (n - 1) p m la D (Rest cl)) :
    Spec cfg input n (.stackPush p) m la (pushD input D) (Rest cl) := by
  cases n with
  | zero => exact Spec.zero _ _ _ _ _
  | succ k =>
    simp only [Nat.add_sub_cancel] at h
    intro st σ hs
    rw [run_stackPush, hs.incCall]; dsimp only
    cases hr : run cfg k p st with
    | ok ns =>
      dsimp only
      obtain ⟨σ1, f1, hd, hp, hk, hq⟩ := h.ok hs hr
      have rb := run_ok_rel hr
      unfold pushSpan
      have hsl' : slice? ns.input st.pos ns.pos = slice? input σ.pos σ1.pos := by
        rw [rb.input, hs.inp, hs.pos, hp]
      rw [hsl']
      cases hsl : slice? input σ.pos σ1.pos with
      | none =>
        show pushD input D σ = .stuck
        simp only [pushD, hd, hsl]
      | some str =>
        exact ⟨{ σ1 with stack := str :: σ1.stack }, f1, by simp only [pushD, hd, hsl], hp,
          by show str :: ns.stack.cache = _; rw [hk], hq⟩
    | err ns =>
      dsimp only
      obtain ⟨hd, hR⟩ := h.err hs hr
      exact ⟨by simp only [pushD, hd], hR⟩
    | panic =>
      show pushD input D σ = .stuck
      simp only [pushD, h.panic hs hr]
    | fuel => trivial

theorem spec_ok {n m la E} : Spec cfg input n .ok m la (fun σ => .ok σ []) E := by
  cases n with
  | zero => exact Spec.zero _ _ _ _ _
  | succ k =>
    intro st σ hs
    rw [run]
    exact ⟨σ, [], rfl, hs.pos, hs.stk, by rw [pushNodes_nil]⟩

/-! ### `tag_node` -/

def tagD (la : Bool) (t : Str) (D : St → Res) (σ : St) : Res :=
  match D σ with
  | .ok s1 f1 => .ok s1 (if la then f1 else Ref.setLastTag f1 t)
  | r => r

theorem setLastTag_concat (init : List Tree) (r a b : Nat) (tag : Option Str) (cs : List Tree) (t : Str) :
    Ref.setLastTag (init ++ [.node r a b tag cs]) t = init ++ [.node r a b (some t) cs] := by
  unfold Ref.setLastTag
  simp

/-- tagging the last tree of a non-empty forest = patching the tag of the last token of its encoding. -/
theorem tag_queue (q : List QTok) (f : List Tree) (t : Str) (hf : f ≠ []) :
    ∃ X si r tag p, pushNodes q f = X ++ [QTok.end_ si r tag p] ∧
      pushNodes q (Ref.setLastTag f t) = X ++ [QTok.end_ si r (some t) p] := by
  rcases List.eq_nil_or_concat f with h | ⟨init, last, h⟩
  · exact absurd h hf
  · subst h
    cases last with
    | node r a b tag cs =>
      have : init.concat (Tree.node r a b tag cs) = init ++ [Tree.node r a b tag cs] := by simp
      rw [this, setLastTag_concat, pushNodes_append, pushNodes_append, pushNodes_single, pushNodes_single,
        pushNode_node, pushNode_node]
      exact ⟨_, _, _, _, _, rfl, rfl⟩

theorem spec_tag {n p m la D} {cl : Prop} (t : Str) (h : Spec cfg input (n - 1) p m la D (Rest cl))
    (hemit : la = false → ∀ σ σ' f, D σ = .ok σ' f → f ≠ []) :
    Spec cfg input n (.andThen p (.tagNode t)) m la (tagD la t D) (Rest cl) := by
  cases n with
  | zero => exact Spec.zero _ _ _ _ _
  | succ k =>
    simp only [Nat.add_sub_cancel] at h
    intro st σ hs
    rw [run_andThen]
    cases hr : run cfg k p st with
    | ok st1 =>
      obtain ⟨σ1, f1, hd1, hp1, hk1, hq1⟩ := h.ok hs hr
      have hs1 := hs.next_ok hr hp1 hk1
      dsimp only
      cases k with
      | zero => rw [run_zero]; trivial
      | succ j =>
        rw [run]
        cases la with
        | true =>
          have hla : st1.lookahead ≠ .none := fun hn => by
            have := hs1.la.1 hn; cases this
          rw [if_pos hla]
          exact ⟨σ1, f1, by simp [tagD, hd1], hp1, hk1, hq1⟩
        | false =>
          have hla : ¬ st1.lookahead ≠ .none := fun hn => hn (hs1.la.2 rfl)
          rw [if_neg hla]
          obtain ⟨X, si, r, tag, p', e1, e2⟩ := tag_queue st.queue f1 t (hemit rfl σ σ1 f1 hd1)
          rw [hq1, e1]
          simp only [List.getLast?_append, List.getLast?_singleton, Option.some_or,
            List.dropLast_concat]
          refine ⟨σ1, Ref.setLastTag f1 t, by simp [tagD, hd1], hp1, hk1, ?_⟩
          exact e2.symm
    | err st1 => exact ⟨by simp [tagD, (h.err hs hr).1], (h.err hs hr).2⟩
    | panic => simp [tagD, h.panic hs hr]
    | fuel => trivial

end PestModel.VmRef
