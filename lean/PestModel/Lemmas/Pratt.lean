import PestModel.Model.Pratt
namespace PestModel.Pratt

theorem expr_ok_inv {t : Table} {f : Nat} {toks : List Nat} {rbp : Nat} {x : Tree × List Nat}
    (h : expr t f toks rbp = .ok x) :
    ∃ f' lhs rest, f = f' + 1 ∧ nud t f' toks = .ok (lhs, rest) ∧ loop t f' lhs rest rbp = .ok x := by
  cases f with
  | zero => simp [expr] at h
  | succ f' =>
    rw [expr.eq_2] at h
    split at h
    · next lhs rest hn => exact ⟨f', lhs, rest, rfl, hn, h⟩
    · cases h
    · cases h

theorem loop_ok_inv {t : Table} {f : Nat} {lhs : Tree} {toks : List Nat} {rbp : Nat}
    {x : Tree × List Nat} (h : loop t f lhs toks rbp = .ok x) :
    ∃ f' p, f = f' + 1 ∧ lbp t toks = .ok p ∧
      ((¬ rbp < p ∧ x = (lhs, toks)) ∨
       (rbp < p ∧ ∃ lhs' rest, led t f' lhs toks = .ok (lhs', rest) ∧
          loop t f' lhs' rest rbp = .ok x)) := by
  cases f with
  | zero => simp [loop] at h
  | succ f' =>
    rw [loop.eq_2] at h
    split at h
    · next p hp =>
      refine ⟨f', p, rfl, hp, ?_⟩
      split at h
      · next hlt =>
        right
        split at h
        · next lhs' rest hl => exact ⟨hlt, lhs', rest, hl, h⟩
        · cases h
        · cases h
      · next hlt =>
        left
        cases h
        exact ⟨hlt, rfl⟩
    · cases h
    · cases h

theorem nud_ok_inv {t : Table} {f : Nat} {toks : List Nat} {x : Tree × List Nat}
    (h : nud t f toks = .ok x) :
    ∃ f' r rest, f = f' + 1 ∧ toks = r :: rest ∧
      ((t r = none ∧ x = (.prim r, rest)) ∨
       (∃ p rhs rest', t r = some (.prefix, p) ∧ p ≠ 0 ∧
          expr t f' rest (p - 1) = .ok (rhs, rest') ∧ x = (.pre r rhs, rest'))) := by
  cases f with
  | zero => simp [nud] at h
  | succ f' =>
    cases toks with
    | nil => simp [nud] at h
    | cons r rest =>
      refine ⟨f', r, rest, rfl, rfl, ?_⟩
      rw [nud.eq_3] at h
      split at h
      · next p hp =>
        right
        split at h
        · cases h
        · next hne =>
          split at h
          · next rhs rest' he =>
            cases h
            exact ⟨p, rhs, rest', hp, hne, he, rfl⟩
          · cases h
          · cases h
      · next hn =>
        left
        cases h
        exact ⟨hn, rfl⟩
      · cases h

theorem led_ok_inv {t : Table} {f : Nat} {lhs : Tree} {toks : List Nat} {x : Tree × List Nat}
    (h : led t f lhs toks = .ok x) :
    ∃ f' r rest, f = f' + 1 ∧ toks = r :: rest ∧
      ((∃ p, t r = some (.postfix, p) ∧ x = (.post lhs r, rest)) ∨
       (∃ a p rhs rest', t r = some (.infix a, p) ∧ (a = .right → p ≠ 0) ∧
          expr t f' rest (Pending.rbp (.inf r p a)) = .ok (rhs, rest') ∧
          x = (.inf lhs r rhs, rest'))) := by
  cases f with
  | zero => simp [led] at h
  | succ f' =>
    cases toks with
    | nil => simp [led] at h
    | cons r rest =>
      refine ⟨f', r, rest, rfl, rfl, ?_⟩
      rw [led.eq_3] at h
      split at h
      · next a p hp =>
        right
        cases a with
        | left =>
          simp only at h
          split at h
          · next rhs rest' he =>
            cases h
            exact ⟨.left, p, rhs, rest', hp, by simp, he, rfl⟩
          · cases h
          · cases h
        | right =>
          by_cases hp0 : p = 0
          · simp [hp0] at h
          · simp only [hp0, if_false] at h
            split at h
            · next rhs rest' he =>
              cases h
              exact ⟨.right, p, rhs, rest', hp, by simp [hp0], he, rfl⟩
            · cases h
            · cases h
      · next p hp =>
        left
        cases h
        exact ⟨p, hp, rfl⟩
      · cases h

/-! ### Stop condition -/

theorem loop_stop {t : Table} : ∀ {f : Nat} {lhs : Tree} {toks : List Nat} {rbp : Nat}
    {tree : Tree} {rest : List Nat}, loop t f lhs toks rbp = .ok (tree, rest) →
    ∃ q, lbp t rest = .ok q ∧ q ≤ rbp := by
  intro f
  induction f with
  | zero => intro lhs toks rbp tree rest h; simp [loop] at h
  | succ f ih =>
    intro lhs toks rbp tree rest h
    obtain ⟨f', p, hf, hp, h | ⟨_, lhs', rest', _, hl⟩⟩ := loop_ok_inv h
    · obtain ⟨hlt, hx⟩ := h
      cases hx
      exact ⟨p, hp, by omega⟩
    · cases hf
      exact ih hl

theorem expr_stop {t : Table} {f : Nat} {toks : List Nat} {rbp : Nat}
    {tree : Tree} {rest : List Nat} (h : expr t f toks rbp = .ok (tree, rest)) :
    ∃ q, lbp t rest = .ok q ∧ q ≤ rbp := by
  obtain ⟨f', lhs, rest', _, _, hl⟩ := expr_ok_inv h
  exact loop_stop hl

/-! ### Yield -/

theorem yield_all (t : Table) (f : Nat) :
    (∀ toks rbp tree rest, expr t f toks rbp = .ok (tree, rest) → tree.yield ++ rest = toks) ∧
    (∀ lhs toks rbp tree rest, loop t f lhs toks rbp = .ok (tree, rest) →
        tree.yield ++ rest = lhs.yield ++ toks) ∧
    (∀ toks tree rest, nud t f toks = .ok (tree, rest) → tree.yield ++ rest = toks) ∧
    (∀ lhs toks tree rest, led t f lhs toks = .ok (tree, rest) →
        tree.yield ++ rest = lhs.yield ++ toks) := by
  induction f with
  | zero =>
    refine ⟨?_, ?_, ?_, ?_⟩ <;> intros <;> simp_all [expr, loop, nud, led]
  | succ f ih =>
    obtain ⟨ihE, ihL, ihN, ihD⟩ := ih
    refine ⟨?_, ?_, ?_, ?_⟩
    · intro toks rbp tree rest h
      obtain ⟨f', lhs, rest', hf, hn, hl⟩ := expr_ok_inv h
      cases hf
      rw [ihL _ _ _ _ _ hl, ihN _ _ _ hn]
    · intro lhs toks rbp tree rest h
      obtain ⟨f', p, hf, hp, ⟨_, hx⟩ | ⟨_, lhs', rest', hd, hl⟩⟩ := loop_ok_inv h
      · cases hx; rfl
      · cases hf
        rw [ihL _ _ _ _ _ hl, ihD _ _ _ _ hd]
    · intro toks tree rest h
      obtain ⟨f', r, rest0, hf, ht, ⟨_, hx⟩ | ⟨p, rhs, rest', _, _, he, hx⟩⟩ := nud_ok_inv h
      · cases hx; subst ht; rfl
      · cases hx; cases hf; subst ht
        simp [Tree.yield, ihE _ _ _ _ he]
    · intro lhs toks tree rest h
      obtain ⟨f', r, rest0, hf, ht, ⟨p, _, hx⟩ | ⟨a, p, rhs, rest', _, _, he, hx⟩⟩ := led_ok_inv h
      · cases hx; subst ht; simp [Tree.yield]
      · cases hx; cases hf; subst ht
        simp [Tree.yield, ihE _ _ _ _ he]


/-! ### Simulation of the Pratt parser by the shunting-yard machine -/

theorem reduceWhile_frozen {p : Nat} {ops : List Pending} {out : List Tree}
    (h : ∀ o, ops.head? = some o → o.rbp < p) : reduceWhile p ops out = some (ops, out) := by
  cases ops with
  | nil => rfl
  | cons o ops =>
    have := h o rfl
    simp only [reduceWhile]
    rw [if_neg (by omega)]

theorem reduceWhile_pop {q : Nat} {o : Pending} {ops : List Pending} {out out' : List Tree}
    (h : q ≤ o.rbp) (ha : applyPending o out = some out') :
    reduceWhile q (o :: ops) out = reduceWhile q ops out' := by
  simp only [reduceWhile]
  rw [if_pos h, ha]

theorem sy_false_congr {t : Table} {rest : List Nat} {q : Nat} {ops ops' : List Pending}
    {out out' : List Tree} (hq : lbp t rest = .ok q)
    (h : reduceWhile q ops out = reduceWhile q ops' out') :
    sy t false rest ops out = sy t false rest ops' out' := by
  cases rest with
  | nil =>
    simp only [lbp] at hq
    cases hq
    simp only [sy, h]
  | cons r rest =>
    simp only [lbp] at hq
    cases htr : t r with
    | none => simp [htr] at hq
    | some ap =>
      obtain ⟨a, p⟩ := ap
      simp only [htr] at hq
      cases hq
      cases a <;> simp only [sy, htr, h]

def Frozen (rbp : Nat) (ops : List Pending) : Prop := ∀ o, ops.head? = some o → o.rbp ≤ rbp

theorem sim_all (t : Table) (f : Nat) :
    (∀ toks rbp tree rest, expr t f toks rbp = .ok (tree, rest) → ∀ ops out, Frozen rbp ops →
        sy t true toks ops out = sy t false rest ops (tree :: out)) ∧
    (∀ lhs toks rbp tree rest, loop t f lhs toks rbp = .ok (tree, rest) → ∀ ops out,
        Frozen rbp ops → sy t false toks ops (lhs :: out) = sy t false rest ops (tree :: out)) ∧
    (∀ toks tree rest, nud t f toks = .ok (tree, rest) → ∀ ops out,
        sy t true toks ops out = sy t false rest ops (tree :: out)) ∧
    (∀ lhs toks tree rest, led t f lhs toks = .ok (tree, rest) → ∀ p, lbp t toks = .ok p →
        ∀ ops out, (∀ o, ops.head? = some o → o.rbp < p) →
        sy t false toks ops (lhs :: out) = sy t false rest ops (tree :: out)) := by
  induction f with
  | zero =>
    refine ⟨?_, ?_, ?_, ?_⟩ <;> intros <;> simp_all [expr, loop, nud, led]
  | succ f ih =>
    obtain ⟨ihE, ihL, ihN, ihD⟩ := ih
    refine ⟨?_, ?_, ?_, ?_⟩
    · intro toks rbp tree rest h ops out hfr
      obtain ⟨f', lhs, rest', hf, hn, hl⟩ := expr_ok_inv h
      cases hf
      rw [ihN _ _ _ hn, ihL _ _ _ _ _ hl _ _ hfr]
    · intro lhs toks rbp tree rest h ops out hfr
      obtain ⟨f', p, hf, hp, ⟨_, hx⟩ | ⟨hlt, lhs', rest', hd, hl⟩⟩ := loop_ok_inv h
      · cases hx; rfl
      · cases hf
        rw [ihD _ _ _ _ hd p hp ops out (fun o ho => Nat.lt_of_le_of_lt (hfr o ho) hlt),
          ihL _ _ _ _ _ hl _ _ hfr]
    · intro toks tree rest h ops out
      obtain ⟨f', r, rest0, hf, ht, ⟨htr, hx⟩ | ⟨p, rhs, rest', htr, _, he, hx⟩⟩ := nud_ok_inv h
      · cases hx; subst ht
        simp only [sy, htr]
      · cases hx; cases hf; subst ht
        obtain ⟨q, hq, hle⟩ := expr_stop he
        simp only [sy, htr]
        rw [ihE _ _ _ _ he _ _ (by intro o ho; cases ho; exact Nat.le_refl _)]
        apply sy_false_congr hq
        exact reduceWhile_pop (by simpa [Pending.rbp] using hle) rfl
    · intro lhs toks tree rest h p hp ops out hfr
      obtain ⟨f', r, rest0, hf, ht, ⟨p', htr, hx⟩ | ⟨a, p', rhs, rest', htr, _, he, hx⟩⟩ :=
        led_ok_inv h
      · cases hx; subst ht
        simp only [lbp, htr] at hp
        cases hp
        simp only [sy, htr, reduceWhile_frozen hfr]
      · cases hx; cases hf; subst ht
        simp only [lbp, htr] at hp
        cases hp
        obtain ⟨q, hq, hle⟩ := expr_stop he
        simp only [sy, htr, reduceWhile_frozen hfr]
        rw [ihE _ _ _ _ he _ _ (by intro o ho; cases ho; exact Nat.le_refl _)]
        apply sy_false_congr hq
        exact reduceWhile_pop hle rfl

theorem parse_sim {t : Table} {toks : List Nat} {tree : Tree}
    (h : parse t toks = .ok (tree, [])) : shuntingYard t toks = some tree := by
  unfold parse at h
  unfold shuntingYard
  rw [(sim_all t _).1 _ _ _ _ h [] [] (by intro o ho; cases ho)]
  rfl


/-! ### Totality on well-formed input -/

def Pos (t : Table) : Prop := ∀ r a p, t r = some (a, p) → 1 ≤ p

theorem total_all (t : Table) (hpos : Pos t) (f : Nat) :
    (∀ toks rbp, wf t true toks = true → 4 * toks.length ≤ f →
        ∃ tree rest, expr t f toks rbp = .ok (tree, rest) ∧ wf t false rest = true ∧
          rest.length < toks.length) ∧
    (∀ lhs toks rbp, wf t false toks = true → 4 * toks.length + 1 ≤ f →
        ∃ tree rest, loop t f lhs toks rbp = .ok (tree, rest) ∧ wf t false rest = true ∧
          rest.length ≤ toks.length) ∧
    (∀ toks, wf t true toks = true → 4 * toks.length ≤ f + 1 →
        ∃ tree rest, nud t f toks = .ok (tree, rest) ∧ wf t false rest = true ∧
          rest.length < toks.length) ∧
    (∀ lhs toks, toks ≠ [] → wf t false toks = true → 4 * toks.length ≤ f →
        ∃ tree rest, led t f lhs toks = .ok (tree, rest) ∧ wf t false rest = true ∧
          rest.length < toks.length) := by
  induction f with
  | zero =>
    refine ⟨?_, ?_, ?_, ?_⟩
    · intro toks rbp hwf hf
      cases toks with
      | nil => simp [wf] at hwf
      | cons r rest => simp at hf
    · intro lhs toks rbp hwf hf
      omega
    · intro toks hwf hf
      cases toks with
      | nil => simp [wf] at hwf
      | cons r rest => simp at hf; omega
    · intro lhs toks hne hwf hf
      cases toks with
      | nil => exact absurd rfl hne
      | cons r rest => simp at hf
  | succ f ih =>
    obtain ⟨ihE, ihL, ihN, ihD⟩ := ih
    refine ⟨?_, ?_, ?_, ?_⟩
    · intro toks rbp hwf hf
      obtain ⟨lhs, rest1, hn, hwf1, hlen1⟩ := ihN toks hwf hf
      obtain ⟨tree, rest, hl, hwf2, hlen2⟩ := ihL lhs rest1 rbp hwf1 (by omega)
      refine ⟨tree, rest, ?_, hwf2, by omega⟩
      rw [expr.eq_2, hn]
      exact hl
    · intro lhs toks rbp hwf hf
      rw [loop.eq_2]
      cases toks with
      | nil =>
        refine ⟨lhs, [], ?_, hwf, Nat.le_refl _⟩
        simp [lbp]
      | cons r rest0 =>
        have hwf' := hwf
        simp only [wf] at hwf'
        cases htr : t r with
        | none => simp [htr] at hwf'
        | some ap =>
          obtain ⟨a, p⟩ := ap
          simp only [lbp, htr]
          by_cases hlt : rbp < p
          · rw [if_pos hlt]
            obtain ⟨lhs', rest1, hd, hwf1, hlen1⟩ :=
              ihD lhs (r :: rest0) (by simp) hwf (by simp at hf ⊢; omega)
            obtain ⟨tree, rest, hl, hwf2, hlen2⟩ := ihL lhs' rest1 rbp hwf1
              (by simp at hf hlen1 ⊢; omega)
            refine ⟨tree, rest, ?_, hwf2, by omega⟩
            rw [hd]
            exact hl
          · rw [if_neg hlt]
            exact ⟨lhs, r :: rest0, rfl, hwf, Nat.le_refl _⟩
    · intro toks hwf hf
      cases toks with
      | nil => simp [wf] at hwf
      | cons r rest0 =>
        rw [nud.eq_3]
        simp only [wf] at hwf
        cases htr : t r with
        | none =>
          simp only [htr] at hwf
          exact ⟨.prim r, rest0, rfl, hwf, by simp⟩
        | some ap =>
          obtain ⟨a, p⟩ := ap
          cases a with
          | «prefix» =>
            simp only [htr] at hwf
            have hp := hpos r _ p htr
            obtain ⟨rhs, rest', he, hwf1, hlen1⟩ := ihE rest0 (p - 1) hwf
              (by simp at hf; omega)
            refine ⟨.pre r rhs, rest', ?_, hwf1, by simp; omega⟩
            simp only
            rw [if_neg (by omega), he]
          | «postfix» => simp [htr] at hwf
          | «infix» a => simp [htr] at hwf
    · intro lhs toks hne hwf hf
      cases toks with
      | nil => exact absurd rfl hne
      | cons r rest0 =>
        rw [led.eq_3]
        simp only [wf] at hwf
        cases htr : t r with
        | none => simp [htr] at hwf
        | some ap =>
          obtain ⟨a, p⟩ := ap
          cases a with
          | «prefix» => simp [htr] at hwf
          | «postfix» =>
            simp only [htr] at hwf
            exact ⟨.post lhs r, rest0, rfl, hwf, by simp⟩
          | «infix» a =>
            simp only [htr] at hwf
            have hp := hpos r _ p htr
            obtain ⟨rhs, rest', he, hwf1, hlen1⟩ :=
              ihE rest0 (Pending.rbp (.inf r p a)) hwf (by simp at hf; omega)
            refine ⟨.inf lhs r rhs, rest', ?_, hwf1, by simp; omega⟩
            cases a with
            | left =>
              simp only [Pending.rbp] at he
              simp only [he]
            | right =>
              simp only [Pending.rbp] at he
              simp only
              rw [if_neg (by omega)]
              simp only [he]

theorem parse_total {t : Table} {toks : List Nat} (hpos : Pos t) (hwf : wf t true toks = true) :
    ∃ tree, parse t toks = .ok (tree, []) := by
  obtain ⟨tree, rest, he, hwf1, _⟩ := (total_all t hpos (4 * toks.length + 4)).1 toks 0 hwf (by omega)
  obtain ⟨q, hq, hle⟩ := expr_stop he
  cases rest with
  | nil => exact ⟨tree, he⟩
  | cons r rest =>
    simp only [lbp] at hq
    cases htr : t r with
    | none => simp [htr] at hq
    | some ap =>
      obtain ⟨a, p⟩ := ap
      simp only [htr] at hq
      cases hq
      have := hpos r a q htr
      omega



/-! ### Order-isomorphic tables parse identically -/

structure Iso (t t' : Table) : Prop where
  pos : Pos t
  pos' : Pos t'
  aff : ∀ r, (t r).map (·.1) = (t' r).map (·.1)
  ord : ∀ r₁ r₂ a₁ a₂ p₁ p₂ q₁ q₂, t r₁ = some (a₁, p₁) → t r₂ = some (a₂, p₂) →
      t' r₁ = some (a₁, q₁) → t' r₂ = some (a₂, q₂) → (p₁ < p₂ ↔ q₁ < q₂)

def Corr (t t' : Table) (rbp rbp' : Nat) : Prop :=
  ∀ r a q q', t r = some (a, q) → t' r = some (a, q') → (rbp < q ↔ rbp' < q')

theorem Iso.cases {t t' : Table} (h : Iso t t') (r : Nat) :
    (t r = none ∧ t' r = none) ∨ ∃ a p p', t r = some (a, p) ∧ t' r = some (a, p') := by
  have := h.aff r
  cases h1 : t r with
  | none =>
    cases h2 : t' r with
    | none => exact .inl ⟨rfl, rfl⟩
    | some ap => simp [h1, h2] at this
  | some ap =>
    cases h2 : t' r with
    | none => simp [h1, h2] at this
    | some ap' =>
      obtain ⟨a, p⟩ := ap
      obtain ⟨a', p'⟩ := ap'
      simp [h1, h2] at this
      subst this
      exact .inr ⟨a, p, p', rfl, rfl⟩

theorem Iso.corr_zero {t t' : Table} (h : Iso t t') : Corr t t' 0 0 := by
  intro r a q q' h1 h2
  have := h.pos r a q h1
  have := h.pos' r a q' h2
  omega

theorem Iso.corr_same {t t' : Table} (h : Iso t t') {r : Nat} {a : Affix} {p p' : Nat}
    (h1 : t r = some (a, p)) (h2 : t' r = some (a, p')) : Corr t t' p p' := by
  intro r2 a2 q q' h3 h4
  exact h.ord r r2 a a2 p q p' q' h1 h3 h2 h4

theorem Iso.corr_pred {t t' : Table} (h : Iso t t') {r : Nat} {a : Affix} {p p' : Nat}
    (h1 : t r = some (a, p)) (h2 : t' r = some (a, p')) : Corr t t' (p - 1) (p' - 1) := by
  intro r2 a2 q q' h3 h4
  have := h.ord r2 r a2 a q p q' p' h3 h1 h4 h2
  have := h.pos r a p h1
  have := h.pos' r a p' h2
  omega

theorem iso_all {t t' : Table} (h : Iso t t') (f : Nat) :
    (∀ toks rbp rbp', Corr t t' rbp rbp' → expr t f toks rbp = expr t' f toks rbp') ∧
    (∀ lhs toks rbp rbp', Corr t t' rbp rbp' → loop t f lhs toks rbp = loop t' f lhs toks rbp') ∧
    (∀ toks, nud t f toks = nud t' f toks) ∧
    (∀ lhs toks, led t f lhs toks = led t' f lhs toks) := by
  induction f with
  | zero => simp [expr, loop, nud, led]
  | succ f ih =>
    obtain ⟨ihE, ihL, ihN, ihD⟩ := ih
    refine ⟨?_, ?_, ?_, ?_⟩
    · intro toks rbp rbp' hc
      rw [expr.eq_2, expr.eq_2, ihN]
      cases nud t' f toks with
      | ok x => obtain ⟨lhs, rest⟩ := x; exact ihL _ _ _ _ hc
      | panic => rfl
      | fuel => rfl
    · intro lhs toks rbp rbp' hc
      rw [loop.eq_2, loop.eq_2]
      cases toks with
      | nil => simp [lbp]
      | cons r rest0 =>
        rcases h.cases r with ⟨h1, h2⟩ | ⟨a, p, p', h1, h2⟩
        · simp [lbp, h1, h2]
        · simp only [lbp, h1, h2]
          have := hc r a p p' h1 h2
          by_cases hlt : rbp < p
          · rw [if_pos hlt, if_pos (this.mp hlt), ihD]
            cases led t' f lhs (r :: rest0) with
            | ok x => obtain ⟨lhs', rest⟩ := x; exact ihL _ _ _ _ hc
            | panic => rfl
            | fuel => rfl
          · rw [if_neg hlt, if_neg (fun h' => hlt (this.mpr h'))]
    · intro toks
      cases toks with
      | nil => simp [nud]
      | cons r rest0 =>
        rw [nud.eq_3, nud.eq_3]
        rcases h.cases r with ⟨h1, h2⟩ | ⟨a, p, p', h1, h2⟩
        · simp [h1, h2]
        · have hp := h.pos r a p h1
          have hp' := h.pos' r a p' h2
          cases a with
          | «prefix» =>
            simp only [h1, h2]
            rw [if_neg (by omega), if_neg (by omega), ihE _ _ _ (h.corr_pred h1 h2)]
          | «postfix» => simp [h1, h2]
          | «infix» a => simp [h1, h2]
    · intro lhs toks
      cases toks with
      | nil => simp [led]
      | cons r rest0 =>
        rw [led.eq_3, led.eq_3]
        rcases h.cases r with ⟨h1, h2⟩ | ⟨a, p, p', h1, h2⟩
        · simp [h1, h2]
        · have hp := h.pos r a p h1
          have hp' := h.pos' r a p' h2
          cases a with
          | «prefix» => simp [h1, h2]
          | «postfix» => simp [h1, h2]
          | «infix» a =>
            cases a with
            | left =>
              simp only [h1, h2]
              rw [ihE _ _ _ (h.corr_same h1 h2)]
            | right =>
              simp only [h1, h2]
              rw [if_neg (by omega), if_neg (by omega)]
              simp only
              rw [ihE _ _ _ (h.corr_pred h1 h2)]

theorem parse_iso {t t' : Table} (h : Iso t t') (toks : List Nat) : parse t toks = parse t' toks :=
  (iso_all h _).1 toks 0 0 h.corr_zero



/-! ### Table construction -/

theorem lookupLast_mem {es : List (Nat × Affix × Nat)} {r : Nat} {a : Affix} {p : Nat}
    (h : lookupLast es r = some (a, p)) : (r, a, p) ∈ es := by
  unfold lookupLast at h
  split at h
  · next r' a' p' hf =>
    cases h
    have h1 := List.find?_some hf
    have h2 := List.mem_of_find?_eq_some hf
    simp at h1
    subst h1
    simpa using h2
  · cases h

theorem prattEntries_ge {levels : List (List (Nat × Affix))} : ∀ {c : Nat} {r : Nat} {a : Affix} {p : Nat},
    (r, a, p) ∈ prattEntries levels c → c + 10 ≤ p := by
  induction levels with
  | nil => intro c r a p h; simp [prattEntries] at h
  | cons lvl rest ih =>
    intro c r a p h
    simp only [prattEntries, List.mem_append, List.mem_map] at h
    rcases h with ⟨x, _, hx⟩ | h
    · cases hx; omega
    · have := ih h; omega

theorem prattTable_pos' (levels : List (List (Nat × Affix))) : Pos (prattTable levels) := by
  intro r a p h
  have := prattEntries_ge (lookupLast_mem h)
  omega

theorem constEntries_ge {ops : List (Nat × Affix × Bool)} : ∀ {c : Nat} {r : Nat} {a : Affix} {p : Nat},
    (r, a, p) ∈ constEntries ops c → c ≤ p := by
  induction ops with
  | nil => intro c r a p h; simp [constEntries] at h
  | cons o rest ih =>
    intro c r a p h
    obtain ⟨r0, a0, b0⟩ := o
    simp only [constEntries, List.mem_cons] at h
    rcases h with h | h
    · cases h; split <;> omega
    · have := ih h
      split at this <;> omega

theorem constTable_pos' (ops : List (Nat × Affix × Bool))
    (h : ∀ r a b rest, ops = (r, a, b) :: rest → b = true) : Pos (constTable ops) := by
  intro r a p hl
  have hm := lookupLast_mem hl
  cases ops with
  | nil => simp [constEntries] at hm
  | cons o rest =>
    obtain ⟨r0, a0, b0⟩ := o
    have := h r0 a0 b0 rest rfl
    subst this
    simp only [constEntries, List.mem_cons] at hm
    rcases hm with hm | hm
    · cases hm; simp
    · have := constEntries_ge hm
      simp at this
      omega

def shift : Nat × Affix × Nat → Nat × Affix × Nat := fun (r, a, p) => (r, a, p + 10)

theorem constEntries_false_append (ops : List (Nat × Affix)) (l2 : List (Nat × Affix × Bool)) (c : Nat) :
    constEntries (ops.map (fun (r, a) => (r, a, false)) ++ l2) c =
      ops.map (fun (r, a) => (r, a, c)) ++ constEntries l2 c := by
  induction ops with
  | nil => rfl
  | cons o ops ih =>
    obtain ⟨r, a⟩ := o
    simp [constEntries, ih]

theorem prattEntries_eq_shift {levels : List (List (Nat × Affix))} (hne : ∀ l ∈ levels, l ≠ []) :
    ∀ c, prattEntries levels (c + 10) = (constEntries (flattenLevels levels) c).map shift := by
  induction levels with
  | nil => intro c; rfl
  | cons lvl rest ih =>
    intro c
    have ih' := ih (fun l hl => hne l (List.mem_cons_of_mem _ hl)) (c + 10)
    cases lvl with
    | nil => exact absurd rfl (hne [] List.mem_cons_self)
    | cons o ops =>
      obtain ⟨r, a⟩ := o
      simp only [prattEntries, flattenLevels, List.cons_append, constEntries, if_true,
        constEntries_false_append, List.map_cons, List.map_append, List.map_map, ih']
      simp [shift, Function.comp_def]

theorem lookupLast_shift (es : List (Nat × Affix × Nat)) (r : Nat) :
    lookupLast (es.map shift) r = (lookupLast es r).map (fun (a, p) => (a, p + 10)) := by
  unfold lookupLast
  rw [← List.map_reverse, List.find?_map]
  have : ((fun e : Nat × Affix × Nat => decide (e.1 = r)) ∘ shift) = (fun e => decide (e.1 = r)) := by
    funext e; obtain ⟨r', a, p⟩ := e; rfl
  rw [this]
  cases List.find? (fun e => decide (e.1 = r)) es.reverse with
  | none => rfl
  | some e => obtain ⟨r', a, p⟩ := e; rfl

theorem Iso_of_shift {t t' : Table} (hpos : Pos t)
    (h : ∀ r, t' r = (t r).map (fun (a, p) => (a, p + 10))) : Iso t t' where
  pos := hpos
  pos' := by
    intro r a p hr
    rw [h] at hr
    cases htr : t r with
    | none => simp [htr] at hr
    | some ap => simp [htr] at hr; omega
  aff := by
    intro r
    rw [h]
    cases t r <;> simp
  ord := by
    intro r₁ r₂ a₁ a₂ p₁ p₂ q₁ q₂ h1 h2 h3 h4
    rw [h, h1] at h3
    rw [h, h2] at h4
    simp at h3 h4
    omega

theorem const_iso_pratt (levels : List (List (Nat × Affix))) (hne : ∀ l ∈ levels, l ≠ []) :
    Iso (constTable (flattenLevels levels)) (prattTable levels) := by
  apply Iso_of_shift
  · apply constTable_pos'
    intro r a b rest h
    cases levels with
    | nil => simp [flattenLevels] at h
    | cons lvl rest' =>
      cases lvl with
      | nil => exact absurd rfl (hne [] List.mem_cons_self)
      | cons o ops =>
        obtain ⟨r0, a0⟩ := o
        simp [flattenLevels] at h
        exact h.1.2.2
  · intro r
    unfold prattTable constTable
    rw [prattEntries_eq_shift hne 0, lookupLast_shift]

end PestModel.Pratt
