//! Translator: the Rust code emitted by `pest_generator` (a `TokenStream`) → `Prog` call trees, one
//! per generated function. The generated code is a small sub-language of Rust (method chains on
//! `state` with closures); anything outside it is an error, never a guess.
use crate::prog::Prog;
use std::collections::HashMap;
use syn::{Expr, Item, Stmt};

fn path_segs(p: &syn::Path) -> Vec<String> { p.segments.iter().map(|s| { let x = s.ident.to_string(); x.strip_prefix("r#").map(|y| y.to_string()).unwrap_or(x) }).collect() }
fn is_state(e: &Expr) -> bool { matches!(e, Expr::Path(p) if path_segs(&p.path) == ["state"]) }
fn lit_str(e: &Expr) -> Result<String, String> { if let Expr::Lit(l) = e { if let syn::Lit::Str(s) = &l.lit { return Ok(s.value()); } } Err(format!("expected string literal: {:?}", e)) }
fn lit_char(e: &Expr) -> Result<char, String> { if let Expr::Lit(l) = e { if let syn::Lit::Char(c) = &l.lit { return Ok(c.value()); } } Err("expected char literal".into()) }
fn lit_int(e: &Expr) -> Result<i64, String> {
    match e {
        Expr::Lit(l) => if let syn::Lit::Int(i) = &l.lit { i.base10_parse::<i64>().map_err(|e| e.to_string()) } else { Err("expected int".into()) },
        Expr::Unary(u) if matches!(u.op, syn::UnOp::Neg(_)) => Ok(-lit_int(&u.expr)?),
        Expr::Paren(p) => lit_int(&p.expr), Expr::Group(g) => lit_int(&g.expr),
        _ => Err(format!("expected int literal")),
    }
}
fn closure_body(e: &Expr) -> Result<&Expr, String> { if let Expr::Closure(c) = e { Ok(&c.body) } else { Err("expected closure".into()) } }

pub struct Tr<'a> { pub rule_index: &'a dyn Fn(&str) -> Option<u16>, pub unicode: &'a dyn Fn(&str) -> Option<Vec<(u32, u32)>>, pub strings: std::cell::RefCell<Vec<Vec<String>>> }

impl<'a> Tr<'a> {
    pub fn block(&self, b: &syn::Block) -> Result<Prog, String> {
        // `{ expr }` or `{ let strings = [..]; state.skip_until(&strings) }`
        match b.stmts.as_slice() {
            [Stmt::Expr(e, None)] => self.expr(e),
            [Stmt::Local(l), Stmt::Expr(e, None)] => {
                // `let strings = [..]; <expr using state.skip_until(&strings)>`
                let init = l.init.as_ref().ok_or("let without init")?;
                let strs: Vec<String> = if let Expr::Array(a) = &*init.expr { a.elems.iter().map(lit_str).collect::<Result<_, _>>()? } else { return Err("expected array".into()) };
                self.strings.borrow_mut().push(strs);
                let r = self.expr(e);
                self.strings.borrow_mut().pop();
                r
            }
            _ => Err(format!("unsupported block with {} statements", b.stmts.len())),
        }
    }
    pub fn expr(&self, e: &Expr) -> Result<Prog, String> {
        let bx = |p: Prog| Box::new(p);
        match e {
            Expr::Paren(p) => self.expr(&p.expr), Expr::Group(g) => self.expr(&g.expr),
            Expr::Block(b) => self.block(&b.block),
            Expr::If(i) => {
                // if state.atomicity() == ::pest::Atomicity::NonAtomic { … } else { Ok(state) }
                let ok = if let Expr::Binary(b) = &*i.cond { matches!(b.op, syn::BinOp::Eq(_)) && matches!(&*b.left, Expr::MethodCall(m) if m.method == "atomicity" && is_state(&m.receiver)) && matches!(&*b.right, Expr::Path(p) if path_segs(&p.path).last().map(|s| s.as_str()) == Some("NonAtomic")) } else { false };
                if !ok { return Err("unsupported if condition".into()); }
                let els = i.else_branch.as_ref().ok_or("if without else")?;
                if self.expr(&els.1)? != Prog::Ok { return Err("else branch is not Ok(state)".into()); }
                Ok(Prog::IfNA(bx(self.block(&i.then_branch)?)))
            }
            Expr::Call(c) => {
                let segs = if let Expr::Path(p) = &*c.func { path_segs(&p.path) } else { return Err("unsupported call".into()) };
                if c.args.len() != 1 || !is_state(&c.args[0]) { return Err(format!("call {:?} with unexpected arguments", segs)); }
                let s: Vec<&str> = segs.iter().map(|x| x.as_str()).collect();
                match s.as_slice() {
                    ["Ok"] => Ok(Prog::Ok),
                    ["self", n] | ["super", "visible", n] => Ok(Prog::Fn(n.to_string())),
                    ["super", "hidden", "skip"] => Ok(Prog::FnSkip),
                    _ => Err(format!("unsupported function path {:?}", segs)),
                }
            }
            Expr::MethodCall(m) => {
                let name = m.method.to_string();
                let args: Vec<&Expr> = m.args.iter().collect();
                if name == "and_then" || name == "or_else" {
                    let recv = self.expr(&m.receiver)?;
                    let body = self.expr(closure_body(args.get(0).ok_or("missing closure")?)?)?;
                    return Ok(if name == "and_then" { Prog::And(bx(recv), bx(body)) } else { Prog::Or(bx(recv), bx(body)) });
                }
                if !is_state(&m.receiver) { return Err(format!("method {} on something other than `state`", name)); }
                let clos = |i: usize| -> Result<Prog, String> { self.expr(closure_body(args.get(i).ok_or("missing closure")?)?) };
                Ok(match (name.as_str(), args.len()) {
                    ("sequence", 1) => Prog::Seq(bx(clos(0)?)), ("optional", 1) => Prog::Opt(bx(clos(0)?)), ("repeat", 1) => Prog::Rep(bx(clos(0)?)),
                    ("stack_push", 1) => Prog::Push(bx(clos(0)?)), ("restore_on_err", 1) => Prog::Roe(bx(clos(0)?)),
                    ("lookahead", 2) => { let b = if let Expr::Lit(l) = args[0] { if let syn::Lit::Bool(b) = &l.lit { b.value } else { return Err("lookahead flag".into()) } } else { return Err("lookahead flag".into()) }; Prog::La(b, bx(clos(1)?)) }
                    ("atomic", 2) => { let a = if let Expr::Path(p) = args[0] { match path_segs(&p.path).last().map(|s| s.as_str()) { Some("Atomic") => 'A', Some("CompoundAtomic") => 'C', Some("NonAtomic") => 'N', _ => return Err("atomicity".into()) } } else { return Err("atomicity".into()) }; Prog::At(a, bx(clos(1)?)) }
                    ("rule", 2) => { let r = if let Expr::Path(p) = args[0] { let s = path_segs(&p.path); if s.len() == 2 && s[0] == "Rule" { (self.rule_index)(&s[1]).ok_or(format!("unknown rule {}", s[1]))? } else { return Err("rule path".into()) } } else { return Err("rule path".into()) }; Prog::Rule(r, bx(clos(1)?)) }
                    ("match_string", 1) => Prog::Str(lit_str(args[0])?), ("match_insensitive", 1) => Prog::Ins(lit_str(args[0])?),
                    ("match_range", 1) => { if let Expr::Range(r) = args[0] { Prog::Rng(lit_char(r.start.as_ref().ok_or("range")?)?, lit_char(r.end.as_ref().ok_or("range")?)?) } else { return Err("range".into()) } }
                    ("match_char_by", 1) => { if let Expr::Path(p) = args[0] { let s = path_segs(&p.path); let n = s.last().unwrap(); Prog::Cby((self.unicode)(n).ok_or(format!("unknown unicode property {}", n))?) } else { return Err("match_char_by".into()) } }
                    ("skip", 1) => Prog::Skip(lit_int(args[0])? as usize),
                    ("skip_until", 1) => Prog::Until(self.strings.borrow().last().cloned().ok_or("skip_until without `let strings`")?),
                    ("start_of_input", 0) => Prog::Soi, ("end_of_input", 0) => Prog::Eoi, ("stack_peek", 0) => Prog::Peek, ("stack_pop", 0) => Prog::Pop,
                    ("stack_match_peek", 0) => Prog::MPeek, ("stack_match_pop", 0) => Prog::MPop, ("stack_drop", 0) => Prog::Drop,
                    ("stack_match_peek_slice", 3) => {
                        let a = lit_int(args[0])? as i32;
                        let b = match args[1] { Expr::Path(p) if path_segs(&p.path).last().map(|s| s.as_str()) == Some("None") => None,
                            Expr::Call(c) if matches!(&*c.func, Expr::Path(p) if path_segs(&p.path).last().map(|s| s.as_str()) == Some("Some")) && c.args.len() == 1 => Some(lit_int(&c.args[0])? as i32), _ => return Err("peek slice end".into()) };
                        let d = if let Expr::Path(p) = args[2] { path_segs(&p.path).last().map(|s| s == "BottomToTop").unwrap_or(false) } else { return Err("match dir".into()) };
                        Prog::Slice(a, b, d)
                    }
                    ("stack_push_literal", 1) => Prog::Lit(lit_str(args[0])?), ("tag_node", 1) => Prog::Tag(lit_str(args[0])?),
                    _ => return Err(format!("unsupported method {}({} args)", name, args.len())),
                })
            }
            _ => Err(format!("unsupported expression form")),
        }
    }
}

fn collect_fns(items: &[Item], out: &mut Vec<(String, syn::Block)>) {
    for it in items {
        match it {
            Item::Fn(f) => { let n = f.sig.ident.to_string(); out.push((n.strip_prefix("r#").map(|x| x.to_string()).unwrap_or(n), (*f.block).clone())); }
            Item::Mod(m) => if let Some((_, items)) = &m.content { collect_fns(items, out) },
            Item::Impl(i) => for ii in &i.items { if let syn::ImplItem::Fn(f) = ii { for st in &f.block.stmts { if let Stmt::Item(it) = st { collect_fns(std::slice::from_ref(it), out); } } } },
            _ => {}
        }
    }
}

/// All functions of the generated parser (`skip`, the rule functions, the built-ins it uses) as call trees.
pub fn translate(tokens: proc_macro2::TokenStream, tr: &Tr<'_>) -> Result<HashMap<String, Prog>, String> {
    let file: syn::File = syn::parse2(tokens).map_err(|e| format!("syn: {}", e))?;
    let mut fns = vec![];
    collect_fns(&file.items, &mut fns);
    let mut m = HashMap::new();
    for (name, block) in fns {
        if name == "parse" || name == "all_rules" { continue; }
        m.insert(name.clone(), tr.block(&block).map_err(|e| format!("fn {}: {}", name, e))?);
    }
    Ok(m)
}
