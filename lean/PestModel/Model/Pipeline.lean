import PestModel.Model.ReaderP
/-
L8 (pipeline) — `pest_meta::parse_and_optimize`: `parser::parse`, `validator::validate_pairs`, `parser::consume_rules`
(which ends with `validate_ast`), `optimizer::optimize`, with the same three outcomes as `ReaderP`:

* `.ok rs`  — the optimized rules;
* `.err n`  — `Err(errors)` with `n` errors (a parse error of the text is one error; the name checks of `validate_pairs` report
  all of theirs; a reader error is one; `validate_ast` reports all of its);
* `.panic`  — a panic site: `pair.into_inner().next().unwrap()` in `validate_pairs`, the reader's (see `ReaderP`), the
  unroller's `unwrap` and `rule_to_optimized_rule`'s `unreachable!` (the optimizer model returns `none`).

`PEST_KEYWORDS` and `BUILTINS` are regenerated from `meta/src/validator.rs` on every run (`Gen.Unicode.pestKeywords`,
`V.isBuiltin`).
-/
namespace PestModel.Pipeline
open PestModel.G PestModel.Reader PestModel.ReaderFull PestModel.ReaderP
open PestModel.Views (Tree)
open PestModel.LineCol (Str)

/-- outcome with the number of errors. -/
inductive Out (α : Type) where
  | ok (a : α)
  | err (n : Nat)
  | panic
  deriving Repr

/-- the first inner pair of every `grammar_rule` that is not a doc comment: the identifier being defined. -/
def definitions : List Tree → R3 (List Tree)
  | [] => .ok []
  | t :: ts =>
    if kind t = "grammar_rule" then
      match t.children with
      | [] => .panic                                   -- `pair.into_inner().next().unwrap()`
      | c :: _ => (definitions ts).map fun ds => if kind c = "line_doc" then ds else c :: ds
    else definitions ts

/-- the identifiers used: `pair.into_inner().flatten().skip(1).filter(identifier)` of every `grammar_rule`. -/
def called : List Tree → List Tree
  | [] => []
  | t :: ts =>
    if kind t = "grammar_rule" then
      ((PestModel.Views.preorderList t.children).drop 1).filter (fun p => kind p = "identifier") ++ called ts
    else called ts

def namesOf (text : Str) : List Tree → R3 (List String)
  | [] => .ok []
  | t :: ts => (orPanic (strOf text t)).bind fun s => (namesOf text ts).map fun ns => String.ofList s :: ns

/-- `validate_already_defined`: every definition after the first of its name. -/
def duplicates : List String → List String → List String
  | [], _ => []
  | n :: ns, seen => if seen.contains n then n :: duplicates ns seen else duplicates ns (n :: seen)

/-- `validate_pairs`: the names reported, by check (`keyword`, `defined`, `undefined`). -/
def validatePairs (text : Str) (forest : List Tree) : R3 (List (String × String)) :=
  (definitions forest).bind fun defs => (namesOf text defs).bind fun names =>
    (namesOf text (called forest)).bind fun used =>
      let kw := (names.filter fun n => PestModel.Gen.Unicode.pestKeywords.contains n).map fun n => ("keyword", n)
      let dup := (duplicates names []).map fun n => ("defined", n)
      let undef := (used.filter fun n => !names.contains n && !PestModel.V.isBuiltin n).map fun n => ("undefined", n)
      .ok (kw ++ dup ++ undef)

/-- `parse_and_optimize` after the parse. -/
def afterParse (extras : Bool) (text : Str) (forest : List Tree) : Out (List ORule) :=
  match validatePairs text forest with
  | .panic => .panic
  | .err => .panic                                      -- (not produced)
  | .ok errs =>
    if !errs.isEmpty then .err errs.length else
    match ReaderP.consumeRulesWithSpans extras text forest with
    | .panic => .panic
    | .err => .err 1
    | .ok rules =>
      let verrs := PestModel.V.validateAst extras rules
      if !verrs.isEmpty then .err verrs.length else
      match optimize extras rules with
      | some rs => .ok rs
      | none => .panic

/-- `parse_and_optimize(text)`; `none` = the reference denotation gives no verdict within the fuel. -/
def parseAndOptimize (extras : Bool) (text : Str) : Option (Out (List ORule)) :=
  match PestModel.Ref.meaning PestModel.Gen.Meta.rules false noUni 1000000 "grammar_rules" text with
  | .ok _ forest => some (afterParse extras text forest)
  | .fail => some (.err 1)
  | _ => none

end PestModel.Pipeline
