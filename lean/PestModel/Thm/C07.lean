import PestModel.Model.Reader
/-! # C07 — placeholder until the theorems land. -/
namespace PestModel.C07
open PestModel.Reader

theorem smoke : unescape "\\u{41}\\x42\\n".toList = some ['A', 'B', '\n'] := by decide

end PestModel.C07
