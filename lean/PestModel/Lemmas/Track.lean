import PestModel.Model.RefTrace
import PestModel.Thm.C01
/-! Lemmas for C08: `ParserState::track` computes the specified failure report.
Part 1: facts about the specification (`furthest`, `surviving`) and the attempt bookkeeping as a
function of the call forest (`stepAtt`). -/
namespace PestModel.Track
open PestModel.RefTrace

/-- induction over call forests. -/
theorem forest_ind {P : List Call → Prop} (nil : P [])
    (cons : ∀ r p m n rep kids cs, P kids → P cs → P (.node r p m n rep kids :: cs)) : ∀ cs, P cs
  | [] => nil
  | .node r p m n rep kids :: cs =>
    cons r p m n rep kids cs (forest_ind nil cons kids) (forest_ind nil cons cs)
termination_by cs => sizeOf cs
decreasing_by all_goals simp_wf <;> omega

theorem furthestList_nil : furthestList [] = 0 := by simp [furthestList]

theorem furthestList_cons (c : Call) (cs : List Call) :
    furthestList (c :: cs) = max (furthest c) (furthestList cs) := by simp [furthestList]

theorem furthest_node (r p : Nat) (m n rep : Bool) (kids : List Call) :
    furthest (.node r p m n rep kids) =
      max (if isAttempt (.node r p m n rep kids) then p else 0) (furthestList kids) := by
  simp [furthest]

theorem furthestList_append (a b : List Call) :
    furthestList (a ++ b) = max (furthestList a) (furthestList b) := by
  induction a with
  | nil => simp [furthestList_nil]
  | cons c cs ih => rw [List.cons_append, furthestList_cons, furthestList_cons, ih, Nat.max_assoc]

theorem survivingList_nil (P : Nat) : survivingList P [] = [] := by simp [survivingList]

theorem survivingList_cons (P : Nat) (c : Call) (cs : List Call) :
    survivingList P (c :: cs) = surviving P c ++ survivingList P cs := by simp [survivingList]

theorem surviving_node (P r p : Nat) (m n rep : Bool) (kids : List Call) :
    surviving P (.node r p m n rep kids) =
      if (isAttempt (.node r p m n rep kids) && p == P) = true then
        (if (survivingList P kids).length = 1 then survivingList P kids else [(r, n)])
      else survivingList P kids := by
  simp [surviving]

theorem survivingList_append (P : Nat) (a b : List Call) :
    survivingList P (a ++ b) = survivingList P a ++ survivingList P b := by
  induction a with
  | nil => simp [survivingList_nil]
  | cons c cs ih => rw [List.cons_append, survivingList_cons, survivingList_cons, ih, List.append_assoc]

/-- nothing survives at a position beyond the furthest attempt. -/
theorem survivingList_beyond (P : Nat) : ∀ cs, furthestList cs < P → survivingList P cs = [] := by
  refine forest_ind (by intro _; exact survivingList_nil P) ?_
  intro r p m n rep kids cs ihk ihc h
  rw [furthestList_cons, furthest_node] at h
  have h1 : furthestList kids < P := by omega
  have h2 : furthestList cs < P := by omega
  rw [survivingList_cons, surviving_node, ihk h1, ihc h2]
  by_cases ha : isAttempt (.node r p m n rep kids) = true
  · rw [if_pos ha] at h
    have : (p == P) = false := by simp; omega
    simp [this]
  · simp [ha]

/-! ### the attempt bookkeeping as a function of the calls made -/

/-- `(attemptPos, posAtt, negAtt)`. -/
abbrev Att := Nat × List Nat × List Nat

def posPart (sv : List (Nat × Bool)) : List Nat := (sv.filter (!·.2)).map (·.1)
def negPart (sv : List (Nat × Bool)) : List Nat := (sv.filter (·.2)).map (·.1)

theorem posPart_append (a b : List (Nat × Bool)) : posPart (a ++ b) = posPart a ++ posPart b := by
  simp [posPart]
theorem negPart_append (a b : List (Nat × Bool)) : negPart (a ++ b) = negPart a ++ negPart b := by
  simp [negPart]

theorem parts_length (sv : List (Nat × Bool)) : (posPart sv).length + (negPart sv).length = sv.length := by
  induction sv with
  | nil => rfl
  | cons x xs ih =>
    obtain ⟨r, b⟩ := x
    cases b <;> simp [posPart, negPart] at ih ⊢ <;> omega

/-- the bookkeeping after the calls `cs` have been processed from bookkeeping `a`: attempts beyond
the current position reset the lists; attempts at it are appended; attempts before it are dropped. -/
def stepAtt (a : Att) (cs : List Call) : Att :=
  (max a.1 (furthestList cs),
   (if a.1 < furthestList cs then [] else a.2.1) ++ posPart (survivingList (max a.1 (furthestList cs)) cs),
   (if a.1 < furthestList cs then [] else a.2.2) ++ negPart (survivingList (max a.1 (furthestList cs)) cs))

theorem stepAtt_nil (a : Att) : stepAtt a [] = a := by
  obtain ⟨x, y, z⟩ := a
  simp [stepAtt, furthestList_nil, survivingList_nil, posPart, negPart]

theorem stepAtt_append (a : Att) (c1 c2 : List Call) :
    stepAtt a (c1 ++ c2) = stepAtt (stepAtt a c1) c2 := by
  obtain ⟨A, pl, nl⟩ := a
  simp only [stepAtt, furthestList_append, survivingList_append, posPart_append, negPart_append]
  have hmax : max A (max (furthestList c1) (furthestList c2)) =
      max (max A (furthestList c1)) (furthestList c2) := by omega
  rw [hmax]
  by_cases h2 : max A (furthestList c1) < furthestList c2
  · have e1 : survivingList (max (max A (furthestList c1)) (furthestList c2)) c1 = [] :=
      survivingList_beyond _ _ (by omega)
    have h3 : A < max (furthestList c1) (furthestList c2) := by omega
    rw [e1, if_pos h2, if_pos h2, if_pos h3, if_pos h3]
    simp [posPart, negPart]
  · have e : max (max A (furthestList c1)) (furthestList c2) = max A (furthestList c1) := by omega
    rw [e]
    by_cases h1 : A < furthestList c1
    · have h3 : A < max (furthestList c1) (furthestList c2) := by omega
      simp [h1, h2, h3]
    · have h3 : ¬ A < max (furthestList c1) (furthestList c2) := by omega
      simp [h1, h2, h3]

/-- the specification is the bookkeeping from the initial state. -/
theorem stepAtt_init (cs : List Call) :
    stepAtt (0, [], []) cs = ((specReport cs).1, (specReport cs).2.1, (specReport cs).2.2) := by
  simp [stepAtt, specReport, posPart, negPart]

/-! ### `track` on the bookkeeping triple -/

/-- `ParserState::track` as a function of the bookkeeping triple. -/
def trackA (atomic neg : Bool) (a : Att) (rule pos pai nai prev : Nat) : Att :=
  if atomic then a else
  let curr := if a.1 = pos then a.2.1.length + a.2.2.length else 0
  if curr > prev ∧ curr - prev = 1 then a else
  let a := if pos = a.1 then (a.1, a.2.1.take pai, a.2.2.take nai) else a
  let a := if pos > a.1 then (pos, [], []) else a
  if pos = a.1 then (if neg then (a.1, a.2.1, a.2.2 ++ [rule]) else (a.1, a.2.1 ++ [rule], a.2.2)) else a

theorem stepAtt_single (a : Att) (c : Call) :
    stepAtt a [c] = (max a.1 (furthest c),
      (if a.1 < furthest c then [] else a.2.1) ++ posPart (surviving (max a.1 (furthest c)) c),
      (if a.1 < furthest c then [] else a.2.2) ++ negPart (surviving (max a.1 (furthest c)) c)) := by
  simp [stepAtt, furthestList_cons, furthestList_nil, survivingList_cons, survivingList_nil]

/-- a call that is not a reported attempt leaves the bookkeeping of its interior. -/
theorem stepAtt_node_skip (a : Att) (r p : Nat) (m n rep : Bool) (kids : List Call)
    (h : isAttempt (.node r p m n rep kids) = false) :
    stepAtt a [.node r p m n rep kids] = stepAtt a kids := by
  rw [stepAtt_single, furthest_node, surviving_node, h]
  simp [stepAtt]

theorem posPart_single (r : Nat) (n : Bool) : posPart [(r, n)] = if n then [] else [r] := by
  cases n <;> rfl
theorem negPart_single (r : Nat) (n : Bool) : negPart [(r, n)] = if n then [r] else [] := by
  cases n <;> rfl

/-- **the heart of C08**: `track`, run after the interior `kids` of a reported attempt has been
processed, leaves the bookkeeping the specification assigns to the call. -/
theorem trackA_spec (A0 : Nat) (pl nl : List Nat) (r p : Nat) (m n : Bool) (kids : List Call)
    (hA : isAttempt (.node r p m n true kids) = true) :
    trackA false n (stepAtt (A0, pl, nl) kids) r p (if p = A0 then pl.length else 0)
        (if p = A0 then nl.length else 0) (if A0 = p then pl.length + nl.length else 0) =
      stepAtt (A0, pl, nl) [.node r p m n true kids] := by
  rw [stepAtt_single, furthest_node, surviving_node, if_pos hA, hA]
  simp only [Bool.true_and, beq_iff_eq]
  have hlen := parts_length (survivingList (max A0 (furthestList kids)) kids)
  rcases Nat.lt_trichotomy p (max A0 (furthestList kids)) with hlt | heq | hgt
  · -- an attempt before the current position: dropped
    have e2 : max A0 (max p (furthestList kids)) = max A0 (furthestList kids) := by omega
    have c1 : (A0 < max p (furthestList kids)) ↔ (A0 < furthestList kids) := by omega
    have c2 : ¬ p = max A0 (furthestList kids) := by omega
    have c3 : ¬ max A0 (furthestList kids) = p := by omega
    have c4 : ¬ p > max A0 (furthestList kids) := by omega
    simp only [trackA, stepAtt, e2, c1, c2, c3, c4, if_false, Bool.false_eq_true]
    simp
  · by_cases hb : A0 < furthestList kids
    · -- the interior moved the position to `p`
      have hp : furthestList kids = p := by omega
      subst hp
      have e1 : max A0 (furthestList kids) = furthestList kids := by omega
      have e2 : max A0 (max (furthestList kids) (furthestList kids)) = furthestList kids := by omega
      have c1 : A0 < max (furthestList kids) (furthestList kids) := by omega
      have c2 : ¬ furthestList kids = A0 := by omega
      have c3 : ¬ A0 = furthestList kids := by omega
      rw [e1] at hlen
      simp only [trackA, stepAtt, e1, e2, c1, c2, c3, hb, if_true, if_false, Bool.false_eq_true,
        List.nil_append, Nat.sub_zero, gt_iff_lt, Nat.lt_irrefl, List.take_zero]
      by_cases h1 : (survivingList (furthestList kids) kids).length = 1
      · have : (posPart (survivingList (furthestList kids) kids)).length +
            (negPart (survivingList (furthestList kids) kids)).length = 1 := by omega
        simp [h1, this]
      · have : ¬ ((posPart (survivingList (furthestList kids) kids)).length +
            (negPart (survivingList (furthestList kids) kids)).length = 1) := by omega
        simp only [h1, if_false, posPart_single, negPart_single]
        have t : ¬ (0 < (posPart (survivingList (furthestList kids) kids)).length +
            (negPart (survivingList (furthestList kids) kids)).length ∧
            (posPart (survivingList (furthestList kids) kids)).length +
            (negPart (survivingList (furthestList kids) kids)).length = 1) := fun h => this h.2
        rw [if_neg t]
        cases n <;> simp
    · -- the position was `p` already
      have hp : A0 = p := by omega
      subst hp
      have e1 : max A0 (furthestList kids) = A0 := by omega
      have e2 : max A0 (max A0 (furthestList kids)) = A0 := by omega
      have c1 : ¬ A0 < max A0 (furthestList kids) := by omega
      rw [e1] at hlen
      simp only [trackA, stepAtt, e1, hb, if_true, if_false, Bool.false_eq_true,
        gt_iff_lt, Nat.lt_irrefl, List.length_append]
      by_cases h1 : (survivingList A0 kids).length = 1
      · have t : pl.length + nl.length < pl.length + (posPart (survivingList A0 kids)).length +
              (nl.length + (negPart (survivingList A0 kids)).length) ∧
            pl.length + (posPart (survivingList A0 kids)).length +
              (nl.length + (negPart (survivingList A0 kids)).length) - (pl.length + nl.length) = 1 := by
          omega
        rw [if_pos t]
        simp [h1]
      · have t : ¬ (pl.length + nl.length < pl.length + (posPart (survivingList A0 kids)).length +
              (nl.length + (negPart (survivingList A0 kids)).length) ∧
            pl.length + (posPart (survivingList A0 kids)).length +
              (nl.length + (negPart (survivingList A0 kids)).length) - (pl.length + nl.length) = 1) := by
          omega
        rw [if_neg t]
        simp only [List.take_left']
        cases n <;> simp [h1, posPart, negPart]
  · -- a new furthest position
    have e2 : max A0 (max p (furthestList kids)) = p := by omega
    have c1 : A0 < max p (furthestList kids) := by omega
    have c2 : ¬ p = max A0 (furthestList kids) := by omega
    have c3 : ¬ max A0 (furthestList kids) = p := by omega
    have c4 : p > max A0 (furthestList kids) := by omega
    have e3 : survivingList p kids = [] := survivingList_beyond _ _ (by omega)
    simp only [trackA, stepAtt, e2, e3, c1, c2, c3, c4, if_true, if_false, Bool.false_eq_true]
    cases n <;> simp [posPart, negPart]

end PestModel.Track
