import PestModel.Lemmas.RefValid
/-!
A Hoare-style proof rule for the reference denotation (used by C09 and C07 on the regenerated
meta-grammar): to show that every SUCCESSFUL evaluation of a rule produces a forest of a certain shape
over a certain consumed word, it suffices to check each rule body ONCE against the postconditions of the
rules it calls.

* `Post` — a postcondition per rule call: mode, look-ahead flag, rule name, byte offset, consumed word, forest;
* `OkW P m la e a w F` — a positive over-approximation of "`e` evaluated at offset `a` consumes the word `w`
  and yields the forest `F`", computed by structural recursion on `e`, with rule calls answered by `P`
  (choices: either side; repetitions: any number of bodies and implicit skips; predicates: nothing);
* `PostOK c P` — the proof obligations: each defined rule meets `P` if its body meets `OkW P`; each
  built-in meets `P`;
* `sound_call` / `sound_denote` — whatever `call` / `denote` return with `.ok` satisfies `P` / `OkW P`.
-/
namespace PestModel.Ref
open PestModel.G
open PestModel.LineCol (Str bLen cLen splitAt? slice?)
open PestModel.Views (Tree)
open PestModel.PS (Atomicity CharSet restAt asciiLower eqIgnoreAsciiCase normalizeIndex restAt_iff restAt_advance)
open PestModel.LineCol (bLen_append bLen_nil bLen_cons bLen_eq_zero splitAt_some cLen_pos)

/-! ### words standing in the input -/

/-- the word `w` stands in the input at byte offset `a` (a character boundary). -/
def At (input : Str) (a : Nat) (w : Str) : Prop := ∃ post, restAt input a = some (w ++ post)

theorem At.nil {input : Str} {a : Nat} (h : (restAt input a).isSome = true) : At input a [] := by
  cases hr : restAt input a with
  | none => simp [hr] at h
  | some r => exact ⟨r, by simp [hr]⟩

theorem At.valid {input : Str} {a : Nat} {w : Str} (h : At input a w) : (restAt input a).isSome = true := by
  obtain ⟨post, hp⟩ := h; simp [hp]

theorem At.valid_end {input : Str} {a : Nat} {w : Str} (h : At input a w) :
    (restAt input (a + bLen w)).isSome = true := by
  obtain ⟨post, hp⟩ := h
  simp [restAt_advance hp rfl]

theorem At.append {input : Str} {a : Nat} {w1 w2 : Str} (h1 : At input a w1) (h2 : At input (a + bLen w1) w2) :
    At input a (w1 ++ w2) := by
  obtain ⟨p1, hp1⟩ := h1
  obtain ⟨p2, hp2⟩ := h2
  have := restAt_advance hp1 rfl
  rw [this] at hp2
  simp only [Option.some.injEq] at hp2
  exact ⟨p2, by rw [hp1, hp2]; simp⟩

theorem At.left {input : Str} {a : Nat} {w1 w2 : Str} (h : At input a (w1 ++ w2)) : At input a w1 := by
  obtain ⟨p, hp⟩ := h
  exact ⟨w2 ++ p, by rw [hp]; simp⟩

theorem At.right {input : Str} {a : Nat} {w1 w2 : Str} (h : At input a (w1 ++ w2)) : At input (a + bLen w1) w2 := by
  obtain ⟨p, hp⟩ := h
  exact ⟨p, restAt_advance hp (by simp)⟩

theorem At.slice {input : Str} {a : Nat} {w : Str} (h : At input a w) : slice? input a (a + bLen w) = some w := by
  obtain ⟨p, hp⟩ := h
  obtain ⟨pre, rfl, rfl⟩ := (restAt_iff _ _ _).1 hp
  have := PestModel.LineCol.slice_append pre w p
  simpa [List.append_assoc] using this

theorem at_of_valid_le {input : Str} {a b : Nat} (ha : (restAt input a).isSome = true)
    (hb : (restAt input b).isSome = true) (hab : a ≤ b) : ∃ w, At input a w ∧ b = a + bLen w := by
  cases hra : restAt input a with
  | none => simp [hra] at ha
  | some r1 =>
    cases hrb : restAt input b with
    | none => simp [hrb] at hb
    | some r2 =>
      obtain ⟨p1, h1, rfl⟩ := (restAt_iff _ _ _).1 hra
      obtain ⟨p2, h2, rfl⟩ := (restAt_iff _ _ _).1 hrb
      have he : p1 ++ r1 = p2 ++ r2 := h1.symm.trans h2
      rcases List.append_eq_append_iff.1 he with ⟨a', hp, hr⟩ | ⟨c', hp, hr⟩
      · exact ⟨a', ⟨r2, by rw [hra, hr]⟩, by rw [hp]; simp⟩
      · have hz : bLen c' = 0 := by rw [hp] at hab; simp at hab; omega
        have := bLen_eq_zero hz
        subst this
        simp at hp hr
        subst hp
        exact ⟨[], ⟨r1, by simpa using hra⟩, by simp⟩

/-! ### the over-approximating relation -/

/-- postcondition of a rule call: mode, look-ahead flag, rule name, byte offset, consumed word, forest. -/
abbrev Post := Atomicity → Bool → String → Nat → Str → List Tree → Prop

/-- zero or more `R`-steps in a row. -/
inductive StarW (R : Nat → Str → List Tree → Prop) : Nat → Str → List Tree → Prop
  | nil (a : Nat) : StarW R a [] []
  | cons {a : Nat} {w1 : Str} {f1 : List Tree} {w2 : Str} {f2 : List Tree} :
      R a w1 f1 → StarW R (a + bLen w1) w2 f2 → StarW R a (w1 ++ w2) (f1 ++ f2)

theorem StarW.mono {R R' : Nat → Str → List Tree → Prop} (h : ∀ a w f, R a w f → R' a w f) {a w f}
    (hs : StarW R a w f) : StarW R' a w f := by
  induction hs with
  | nil a => exact .nil a
  | cons hr _ ih => exact .cons (h _ _ _ hr) ih

theorem StarW.one {R : Nat → Str → List Tree → Prop} {a w f} (h : R a w f) : StarW R a w f := by
  have := StarW.cons h (StarW.nil (R := R) (a + bLen w))
  simpa using this

theorem StarW.append {R : Nat → Str → List Tree → Prop} {a w1 f1 w2 f2} (h1 : StarW R a w1 f1)
    (h2 : StarW R (a + bLen w1) w2 f2) : StarW R a (w1 ++ w2) (f1 ++ f2) := by
  induction h1 with
  | nil a => simpa using h2
  | cons hr _ ih =>
    rename_i a wa fa wb fb _
    have := ih (by simpa [Nat.add_assoc] using h2)
    have := StarW.cons hr this
    simpa [List.append_assoc] using this

/-- the implicit skip between sequence elements: nothing in atomic modes, otherwise any number of
`WHITESPACE` / `COMMENT` calls. -/
def SkW (P : Post) (m : Atomicity) (la : Bool) (a : Nat) (w : Str) (F : List Tree) : Prop :=
  if m = .nonAtomic then
    StarW (fun a w F => P .nonAtomic la "WHITESPACE" a w F ∨ P .nonAtomic la "COMMENT" a w F) a w F
  else w = [] ∧ F = []

/-- positive over-approximation of a successful evaluation of `e` at offset `a`: consumed word and forest. -/
def OkW (P : Post) (m : Atomicity) (la : Bool) : Expr → Nat → Str → List Tree → Prop
  | .str x => fun _ w F => w = x ∧ F = []
  | .insens x => fun _ w F => eqIgnoreAsciiCase w x = true ∧ F = []
  | .range lo hi => fun _ w F => ∃ ch, w = [ch] ∧ lo ≤ ch ∧ ch ≤ hi ∧ F = []
  | .ident n => fun a w F => P m la n a w F
  | .peekSlice _ _ => fun _ _ F => F = []
  | .posPred _ => fun _ w F => w = [] ∧ F = []
  | .negPred _ => fun _ w F => w = [] ∧ F = []
  | .seq x y => fun a w F => ∃ w1 f1 w2 f2 w3 f3, OkW P m la x a w1 f1 ∧ SkW P m la (a + bLen w1) w2 f2 ∧
      OkW P m la y (a + bLen w1 + bLen w2) w3 f3 ∧ w = w1 ++ w2 ++ w3 ∧ F = f1 ++ f2 ++ f3
  | .choice x y => fun a w F => OkW P m la x a w F ∨ OkW P m la y a w F
  | .opt e => fun a w F => OkW P m la e a w F ∨ (w = [] ∧ F = [])
  | .rep e => fun a w F => StarW (fun a w F => OkW P m la e a w F ∨ SkW P m la a w F) a w F
  | .repOnce e => fun a w F => StarW (fun a w F => OkW P m la e a w F ∨ SkW P m la a w F) a w F
  | .repExact e _ => fun a w F => StarW (fun a w F => OkW P m la e a w F ∨ SkW P m la a w F) a w F
  | .repMin e _ => fun a w F => StarW (fun a w F => OkW P m la e a w F ∨ SkW P m la a w F) a w F
  | .repMax e _ => fun a w F => StarW (fun a w F => OkW P m la e a w F ∨ SkW P m la a w F) a w F
  | .repMinMax e _ _ => fun a w F => StarW (fun a w F => OkW P m la e a w F ∨ SkW P m la a w F) a w F
  | .skip _ => fun _ _ F => F = []
  | .push e => fun a w F => OkW P m la e a w F
  | .pushLiteral _ => fun _ w F => w = [] ∧ F = []
  | .nodeTag e t => fun a w F => ∃ f, OkW P m la e a w f ∧ (F = f ∨ F = setLastTag f t)

/-- what a built-in rule does (as much as is needed): `EOI` emits its pair at the end of the input, `SOI`
stands at offset 0, `ANY` consumes one character; no other built-in produces a pair. -/
def BuiltinW (c : Ctx) (m : Atomicity) (la : Bool) (name : String) (a : Nat) (w : Str) (F : List Tree) : Prop :=
  if name = "EOI" then
    w = [] ∧ a = bLen c.input ∧ F = (if emitsFor .normal m la then [.node c.rules.length a a none []] else [])
  else if name = "SOI" then w = [] ∧ a = 0 ∧ F = []
  else if name = "ANY" then (∃ ch, w = [ch]) ∧ F = []
  else F = []

/-- the proof obligations of a family of postconditions. -/
structure PostOK (c : Ctx) (P : Post) : Prop where
  rule : ∀ name id r, c.rule? name = some (id, r) → ∀ m la a w f, At c.input a w →
      OkW P (bodyMode r.name r.ty m) la r.expr a w f →
      P m la name a w (if emitsFor r.ty m la then [.node id a (a + bLen w) none f] else f)
  builtin : ∀ name, c.rule? name = none → ∀ m la a w F, At c.input a w → BuiltinW c m la name a w F →
      P m la name a w F

abbrev RK (P : Post) (m : Atomicity) (la : Bool) (e : Expr) : Nat → Str → List Tree → Prop :=
  fun a w F => OkW P m la e a w F ∨ SkW P m la a w F

abbrev WC (P : Post) (la : Bool) : Nat → Str → List Tree → Prop :=
  fun a w F => P .nonAtomic la "WHITESPACE" a w F ∨ P .nonAtomic la "COMMENT" a w F

structure Sound (c : Ctx) (P : Post) (X : Fam) : Prop where
  d : ∀ m la e s s' F, Valid c s → X.d m la e s = .ok s' F →
      ∃ w, At c.input s.pos w ∧ s'.pos = s.pos + bLen w ∧ OkW P m la e s.pos w F
  l : ∀ m la e s acc s' F, Valid c s → X.l m la e s acc = .ok s' F →
      ∃ w f, At c.input s.pos w ∧ s'.pos = s.pos + bLen w ∧ F = acc ++ f ∧ StarW (RK P m la e) s.pos w f
  k : ∀ m la s s' F, Valid c s → X.k m la s = .ok s' F →
      ∃ w, At c.input s.pos w ∧ s'.pos = s.pos + bLen w ∧ SkW P m la s.pos w F
  st : ∀ la nm s acc s' F, Valid c s → X.st la nm s acc = .ok s' F →
      ∃ w f, At c.input s.pos w ∧ s'.pos = s.pos + bLen w ∧ F = acc ++ f ∧
        StarW (fun a w F => P .nonAtomic la nm a w F) s.pos w f
  cl : ∀ la s acc s' F, Valid c s → X.cl la s acc = .ok s' F →
      ∃ w f, At c.input s.pos w ∧ s'.pos = s.pos + bLen w ∧ F = acc ++ f ∧ StarW (WC P la) s.pos w f
  ca : ∀ m la nm s s' F, Valid c s → X.ca m la nm s = .ok s' F →
      ∃ w, At c.input s.pos w ∧ s'.pos = s.pos + bLen w ∧ P m la nm s.pos w F

/-! ### leaves -/

theorem lit_word {c : Ctx} {s s' : St} {str : Str} {F : List Tree} (h : lit c s str = .ok s' F) :
    At c.input s.pos str ∧ s'.pos = s.pos + bLen str ∧ F = [] := by
  unfold lit at h
  split at h
  · rename_i rest hr
    split at h
    · rename_i hp
      simp only [Res.ok.injEq] at h
      obtain ⟨t, rfl⟩ := List.isPrefixOf_iff_prefix.1 hp
      exact ⟨⟨t, hr⟩, by rw [← h.1], h.2.symm⟩
    · simp at h
  · simp at h

theorem oneChar_word {c : Ctx} {s s' : St} {p : Char → Bool} {F : List Tree} (h : oneChar c s p = .ok s' F) :
    ∃ ch, p ch = true ∧ At c.input s.pos [ch] ∧ s'.pos = s.pos + bLen [ch] ∧ F = [] := by
  unfold oneChar at h
  split at h
  · rename_i ch t hr
    split at h
    · rename_i hp
      simp only [Res.ok.injEq] at h
      exact ⟨ch, hp, ⟨t, by simpa using hr⟩, by rw [← h.1]; simp, h.2.symm⟩
    · simp at h
  · simp at h

theorem matchStrs_le {input : Str} {xs : List Str} {pos p : Nat} (h : matchStrs input xs pos = some p) : pos ≤ p := by
  induction xs generalizing pos with
  | nil => simp only [matchStrs, Option.some.injEq] at h; omega
  | cons x xs ih =>
    simp only [matchStrs] at h
    split at h
    · split at h
      · have := ih h; omega
      · simp at h
    · simp at h

theorem search_le (strs : List Str) (rest : Str) (off : Nat) : off ≤ search strs rest off := by
  obtain ⟨sk, _, _, h1, _, _⟩ := search_spec strs rest off
  omega

/-- whatever moved forward from a boundary to a boundary consumed some word. -/
theorem word_of_valid {c : Ctx} {s s' : St} (hs : Valid c s) (hs' : Valid c s') (hle : s.pos ≤ s'.pos) :
    ∃ w, At c.input s.pos w ∧ s'.pos = s.pos + bLen w :=
  at_of_valid_le hs hs' hle

/-! ### unrolled repetitions -/

theorem okW_seqOfList {P : Post} {m : Atomicity} {la : Bool} {e : Expr} :
    ∀ (L : List Expr), (∀ x ∈ L, ∀ a w F, OkW P m la x a w F → StarW (RK P m la e) a w F) →
    ∀ u, seqOfList L = some u → ∀ a w F, OkW P m la u a w F → StarW (RK P m la e) a w F
  | [], _, u, hu, _, _, _, _ => by simp [seqOfList] at hu
  | [x], hL, u, hu, a, w, F, h => by
    simp only [seqOfList, Option.some.injEq] at hu
    subst hu
    exact hL x (by simp) a w F h
  | x :: y :: rest, hL, u, hu, a, w, F, h => by
    simp only [seqOfList] at hu
    cases hr : seqOfList (y :: rest) with
    | none => simp [hr] at hu
    | some v =>
      simp only [hr, Option.map_some, Option.some.injEq] at hu
      subst hu
      simp only [OkW] at h
      obtain ⟨w1, f1, w2, f2, w3, f3, h1, h2, h3, rfl, rfl⟩ := h
      have s1 := hL x (by simp) _ _ _ h1
      have s2 : StarW (RK P m la e) (a + bLen w1) w2 f2 := StarW.one (Or.inr h2)
      have s3 := okW_seqOfList (y :: rest) (fun x hx => hL x (by simp [hx])) v hr _ _ _ h3
      have := StarW.append s1 (StarW.append s2 (by simpa [Nat.add_assoc] using s3))
      simpa [List.append_assoc] using this

theorem okW_self_star {P : Post} {m : Atomicity} {la : Bool} {e : Expr} (a : Nat) (w : Str) (F : List Tree)
    (h : OkW P m la e a w F) : StarW (RK P m la e) a w F := StarW.one (Or.inl h)

theorem okW_opt_star {P : Post} {m : Atomicity} {la : Bool} {e : Expr} (a : Nat) (w : Str) (F : List Tree)
    (h : OkW P m la (.opt e) a w F) : StarW (RK P m la e) a w F := by
  simp only [OkW] at h
  rcases h with h | ⟨rfl, rfl⟩
  · exact StarW.one (Or.inl h)
  · exact .nil a

theorem okW_rep_star {P : Post} {m : Atomicity} {la : Bool} {e : Expr} (a : Nat) (w : Str) (F : List Tree)
    (h : OkW P m la (.rep e) a w F) : StarW (RK P m la e) a w F := by
  simpa only [OkW] using h

/-! ### one step of the functional preserves soundness -/

set_option hygiene false in
local macro "pc " t:term : tactic => `(tactic| (cases hx : $t <;> simp [hx] at h))

theorem sound_generic {c : Ctx} {P : Post} {m : Atomicity} {la : Bool} {e : Expr} {s s' : St} {F : List Tree}
    (hs : Valid c s) (hs' : Valid c s') (hle : s.pos ≤ s'.pos) (hF : ∀ a w, OkW P m la e a w F) :
    ∃ w, At c.input s.pos w ∧ s'.pos = s.pos + bLen w ∧ OkW P m la e s.pos w F := by
  obtain ⟨w, hw, hp⟩ := word_of_valid hs hs' hle
  exact ⟨w, hw, hp, hF _ _⟩

theorem denoteF_sound {c : Ctx} {P : Post} {X : Fam} (hV : Pres c X) (hX : Sound c P X) m la e s s' F
    (hs : Valid c s) (h : denoteF c X m la e s = .ok s' F) :
    ∃ w, At c.input s.pos w ∧ s'.pos = s.pos + bLen w ∧ OkW P m la e s.pos w F := by
  have hv' : Valid c s' := denoteF_pres hV m la e s s' F hs h
  cases e <;> simp only [denoteF] at h
  case str str =>
    obtain ⟨h1, h2, h3⟩ := lit_word h
    exact ⟨str, h1, h2, by simp [OkW, h3]⟩
  case insens str =>
    split at h
    · rename_i rest hr
      split at h
      · rename_i pre post hsp
        split at h
        · rename_i heq
          simp only [Res.ok.injEq] at h
          obtain ⟨hsplit, hlen⟩ := splitAt_some hsp
          refine ⟨pre, ⟨post, by rw [hr, hsplit]⟩, by rw [← h.1, hlen], ?_⟩
          simp [OkW, heq, h.2.symm]
        · simp at h
      · simp at h
    · simp at h
  case range a b =>
    obtain ⟨ch, hp, h1, h2, h3⟩ := oneChar_word h
    refine ⟨[ch], h1, h2, ?_⟩
    simp only [OkW]
    have hp' : a ≤ ch ∧ ch ≤ b := by simpa using hp
    exact ⟨ch, rfl, hp'.1, hp'.2, h3⟩
  case ident n => exact hX.ca _ _ _ _ _ _ hs h
  case peekSlice a b =>
    have hF : F = [] := by
      split at h
      · split at h
        · simp at h; exact h.2
        · split at h <;> simp at h
          exact h.2
      · simp at h
    have hle : s.pos ≤ s'.pos := by
      split at h
      · split at h
        · simp at h; rw [← h.1]; exact Nat.le_refl _
        · split at h
          · rename_i p hp
            simp at h
            rw [← h.1]; exact matchStrs_le hp
          · simp at h
      · simp at h
    exact sound_generic hs hv' hle (fun _ _ => by simp [OkW, hF])
  case posPred e =>
    pc X.d m true e s
    refine ⟨[], At.nil hs, by rw [← h.1]; simp, by simp [OkW, h.2.symm]⟩
  case negPred e =>
    pc X.d m true e s
    refine ⟨[], At.nil hs, by rw [← h.1]; simp, by simp [OkW, h.2.symm]⟩
  case seq a b =>
    pc X.d m la a s
    rename_i s1 f1
    obtain ⟨w1, a1, p1, o1⟩ := hX.d _ _ _ _ _ _ hs hx
    have v1 := hV.d _ _ _ _ _ _ hs hx
    clear hx
    pc X.k m la s1
    rename_i s2 f2
    obtain ⟨w2, a2, p2, o2⟩ := hX.k _ _ _ _ _ v1 hx
    have v2 := hV.k _ _ _ _ _ v1 hx
    clear hx
    pc X.d m la b s2
    rename_i s3 f3
    obtain ⟨w3, a3, p3, o3⟩ := hX.d _ _ _ _ _ _ v2 hx
    rw [p1] at a2 o2 p2
    rw [p2] at a3 o3 p3
    refine ⟨w1 ++ w2 ++ w3, ?_, ?_, ?_⟩
    · have := At.append a1 a2
      have := At.append this (by simpa [Nat.add_assoc] using a3)
      simpa using this
    · rw [← h.1, p3]; simp; omega
    · simp only [OkW]
      exact ⟨w1, f1, w2, f2, w3, f3, o1, o2, o3, rfl, by rw [← h.2]; simp⟩
  case choice a b =>
    pc X.d m la a s
    · obtain ⟨w, a1, p1, o1⟩ := hX.d _ _ _ _ _ _ hs hx
      rw [← h.1, ← h.2]
      exact ⟨w, a1, p1, by simp only [OkW]; exact Or.inl o1⟩
    · obtain ⟨w, a1, p1, o1⟩ := hX.d _ _ _ _ _ _ hs h
      exact ⟨w, a1, p1, by simp only [OkW]; exact Or.inr o1⟩
  case opt e =>
    pc X.d m la e s
    · obtain ⟨w, a1, p1, o1⟩ := hX.d _ _ _ _ _ _ hs hx
      rw [← h.1, ← h.2]
      exact ⟨w, a1, p1, by simp only [OkW]; exact Or.inl o1⟩
    · exact ⟨[], At.nil hs, by rw [← h.1]; simp, by simp [OkW, h.2.symm]⟩
  case rep e =>
    pc X.d m la e s
    · rename_i s1 f1
      obtain ⟨w1, a1, p1, o1⟩ := hX.d _ _ _ _ _ _ hs hx
      have v1 := hV.d _ _ _ _ _ _ hs hx
      obtain ⟨w2, f2, a2, p2, hF, st2⟩ := hX.l _ _ _ _ _ _ _ v1 h
      rw [p1] at a2 p2 st2
      refine ⟨w1 ++ w2, At.append a1 a2, by rw [p2]; simp; omega, ?_⟩
      simp only [OkW]
      rw [hF]
      exact StarW.cons (Or.inl o1) st2
    · refine ⟨[], At.nil hs, by rw [← h.1]; simp, ?_⟩
      simp only [OkW]; rw [h.2]; exact .nil _
  case repOnce e =>
    split at h
    · pc X.d m la e s
      rename_i s1 f1
      obtain ⟨w1, a1, p1, o1⟩ := hX.d _ _ _ _ _ _ hs hx
      have v1 := hV.d _ _ _ _ _ _ hs hx
      obtain ⟨w2, f2, a2, p2, hF, st2⟩ := hX.l _ _ _ _ _ _ _ v1 h
      rw [p1] at a2 p2 st2
      refine ⟨w1 ++ w2, At.append a1 a2, by rw [p2]; simp; omega, ?_⟩
      simp only [OkW]
      rw [hF]
      exact StarW.cons (Or.inl o1) st2
    · obtain ⟨w, a1, p1, o1⟩ := hX.d _ _ _ _ _ _ hs h
      refine ⟨w, a1, p1, ?_⟩
      simp only [OkW] at o1 ⊢
      obtain ⟨w1, f1, w2, f2, w3, f3, h1, h2, h3, rfl, rfl⟩ := o1
      have s1 : StarW (RK P m la e) s.pos w1 f1 := StarW.one (Or.inl h1)
      have s2 : StarW (RK P m la e) (s.pos + bLen w1) w2 f2 := StarW.one (Or.inr h2)
      have := StarW.append s1 (StarW.append s2 (by simpa [Nat.add_assoc] using h3))
      simpa [List.append_assoc] using this
  case skip strs =>
    split at h
    · rename_i rest hr
      simp at h
      have hle : s.pos ≤ s'.pos := by rw [← h.1]; exact search_le _ _ _
      exact sound_generic hs hv' hle (fun _ _ => by simp [OkW, h.2.symm])
    · simp at h
  case push e =>
    pc X.d m la e s
    rename_i s1 f1
    split at h
    · simp at h
      obtain ⟨w, a1, p1, o1⟩ := hX.d _ _ _ _ _ _ hs hx
      refine ⟨w, a1, by rw [← h.1]; exact p1, ?_⟩
      simp only [OkW]; rw [← h.2]; exact o1
    · simp at h
  case pushLiteral str =>
    simp at h
    exact ⟨[], At.nil hs, by rw [← h.1]; simp, by simp [OkW, h.2.symm]⟩
  case nodeTag e t =>
    pc X.d m la e s
    rename_i s1 f1
    obtain ⟨w, a1, p1, o1⟩ := hX.d _ _ _ _ _ _ hs hx
    refine ⟨w, a1, by rw [← h.1]; exact p1, ?_⟩
    simp only [OkW]
    refine ⟨f1, o1, ?_⟩
    rw [← h.2]
    split <;> simp
  case repExact e n =>
    split at h
    · rename_i u hu
      obtain ⟨w, a1, p1, o1⟩ := hX.d _ _ _ _ _ _ hs h
      refine ⟨w, a1, p1, ?_⟩
      simp only [OkW]
      exact okW_seqOfList _ (fun x hx => by
        have : x = e := (List.mem_replicate.1 hx).2
        subst this; exact okW_self_star) u hu _ _ _ o1
    · simp at h
  case repMin e n =>
    split at h
    · rename_i u hu
      obtain ⟨w, a1, p1, o1⟩ := hX.d _ _ _ _ _ _ hs h
      refine ⟨w, a1, p1, ?_⟩
      simp only [OkW]
      exact okW_seqOfList _ (fun x hx => by
        rcases List.mem_append.1 hx with hx | hx
        · have : x = e := (List.mem_replicate.1 hx).2
          subst this; exact okW_self_star
        · have : x = .rep e := by simpa using hx
          subst this; exact okW_rep_star) u hu _ _ _ o1
    · simp at h
  case repMax e n =>
    split at h
    · rename_i u hu
      obtain ⟨w, a1, p1, o1⟩ := hX.d _ _ _ _ _ _ hs h
      refine ⟨w, a1, p1, ?_⟩
      simp only [OkW]
      exact okW_seqOfList _ (fun x hx => by
        have : x = .opt e := (List.mem_replicate.1 hx).2
        subst this; exact okW_opt_star) u hu _ _ _ o1
    · simp at h
  case repMinMax e lo hi =>
    split at h
    · rename_i u hu
      obtain ⟨w, a1, p1, o1⟩ := hX.d _ _ _ _ _ _ hs h
      refine ⟨w, a1, p1, ?_⟩
      simp only [OkW]
      exact okW_seqOfList _ (fun x hx => by
        obtain ⟨i, _, hi⟩ := List.mem_map.1 hx
        split at hi
        · subst hi; exact okW_self_star
        · subst hi; exact okW_opt_star) u hu _ _ _ o1
    · simp at h

theorem repLoopF_sound {c : Ctx} {P : Post} {X : Fam} (hV : Pres c X) (hX : Sound c P X) m la e s acc s' F
    (hs : Valid c s) (h : repLoopF X m la e s acc = .ok s' F) :
    ∃ w f, At c.input s.pos w ∧ s'.pos = s.pos + bLen w ∧ F = acc ++ f ∧ StarW (RK P m la e) s.pos w f := by
  simp only [repLoopF] at h
  have done : s = s' → acc = F → ∃ w f, At c.input s.pos w ∧ s'.pos = s.pos + bLen w ∧ F = acc ++ f ∧
      StarW (RK P m la e) s.pos w f := by
    intro h1 h2
    exact ⟨[], [], At.nil hs, by rw [← h1]; simp, by rw [h2]; simp, .nil _⟩
  pc X.k m la s
  · rename_i s1 f1
    obtain ⟨w1, a1, p1, o1⟩ := hX.k _ _ _ _ _ hs hx
    have v1 := hV.k _ _ _ _ _ hs hx
    clear hx
    pc X.d m la e s1
    · rename_i s2 f2
      obtain ⟨w2, a2, p2, o2⟩ := hX.d _ _ _ _ _ _ v1 hx
      have v2 := hV.d _ _ _ _ _ _ v1 hx
      obtain ⟨w3, f3, a3, p3, hF, st3⟩ := hX.l _ _ _ _ _ _ _ v2 h
      rw [p1] at a2 p2 o2
      rw [p2] at a3 p3 st3
      refine ⟨w1 ++ w2 ++ w3, f1 ++ f2 ++ f3, ?_, ?_, ?_, ?_⟩
      · have := At.append (At.append a1 a2) (by simpa [Nat.add_assoc] using a3)
        simpa using this
      · rw [p3]; simp; omega
      · rw [hF]; simp [List.append_assoc]
      · have := StarW.cons (R := RK P m la e) (Or.inr o1) (StarW.cons (Or.inl o2) st3)
        simpa [List.append_assoc] using this
    · exact done h.1 h.2
  · exact done h.1 h.2

theorem starF_sound {c : Ctx} {P : Post} {X : Fam} (hV : Pres c X) (hX : Sound c P X) la nm s acc s' F
    (hs : Valid c s) (h : starF X la nm s acc = .ok s' F) :
    ∃ w f, At c.input s.pos w ∧ s'.pos = s.pos + bLen w ∧ F = acc ++ f ∧
      StarW (fun a w F => P .nonAtomic la nm a w F) s.pos w f := by
  simp only [starF] at h
  pc X.ca .nonAtomic la nm s
  · rename_i s1 f1
    obtain ⟨w1, a1, p1, o1⟩ := hX.ca _ _ _ _ _ _ hs hx
    have v1 := hV.ca _ _ _ _ _ _ hs hx
    obtain ⟨w2, f2, a2, p2, hF, st2⟩ := hX.st _ _ _ _ _ _ v1 h
    rw [p1] at a2 p2 st2
    exact ⟨w1 ++ w2, f1 ++ f2, At.append a1 a2, by rw [p2]; simp; omega, by rw [hF]; simp, StarW.cons o1 st2⟩
  · exact ⟨[], [], At.nil hs, by rw [← h.1]; simp, by rw [← h.2]; simp, .nil _⟩

theorem commentLoopF_sound {c : Ctx} {P : Post} {X : Fam} (hV : Pres c X) (hX : Sound c P X) la s acc s' F
    (hs : Valid c s) (h : commentLoopF X la s acc = .ok s' F) :
    ∃ w f, At c.input s.pos w ∧ s'.pos = s.pos + bLen w ∧ F = acc ++ f ∧ StarW (WC P la) s.pos w f := by
  simp only [commentLoopF] at h
  pc X.ca .nonAtomic la "COMMENT" s
  · rename_i s1 f1
    obtain ⟨w1, a1, p1, o1⟩ := hX.ca _ _ _ _ _ _ hs hx
    have v1 := hV.ca _ _ _ _ _ _ hs hx
    clear hx
    pc X.st la "WHITESPACE" s1 []
    rename_i s2 f2
    obtain ⟨w2, f2', a2, p2, hF2, st2⟩ := hX.st _ _ _ _ _ _ v1 hx
    have v2 := hV.st _ _ _ _ _ _ v1 hx
    obtain ⟨w3, f3, a3, p3, hF, st3⟩ := hX.cl _ _ _ _ _ v2 h
    simp only [List.nil_append] at hF2
    subst hF2
    rw [p1] at a2 p2 st2
    rw [p2] at a3 p3 st3
    refine ⟨w1 ++ w2 ++ w3, f1 ++ f2 ++ f3, ?_, ?_, ?_, ?_⟩
    · have := At.append (At.append a1 a2) (by simpa [Nat.add_assoc] using a3)
      simpa using this
    · rw [p3]; simp; omega
    · rw [hF]; simp [List.append_assoc]
    · have s2 : StarW (WC P la) (s.pos + bLen w1) w2 f2 := st2.mono (fun _ _ _ h => Or.inl h)
      have := StarW.cons (R := WC P la) (Or.inr o1) (StarW.append s2 (by simpa [Nat.add_assoc] using st3))
      simpa [List.append_assoc] using this
  · exact ⟨[], [], At.nil hs, by rw [← h.1]; simp, by rw [← h.2]; simp, .nil _⟩

theorem skipWsF_sound {c : Ctx} {P : Post} {X : Fam} (hV : Pres c X) (hX : Sound c P X) m la s s' F
    (hs : Valid c s) (h : skipWsF c X m la s = .ok s' F) :
    ∃ w, At c.input s.pos w ∧ s'.pos = s.pos + bLen w ∧ SkW P m la s.pos w F := by
  simp only [skipWsF] at h
  split at h
  · rename_i hm
    simp at h
    refine ⟨[], At.nil hs, by rw [← h.1]; simp, ?_⟩
    simp only [SkW]
    rw [if_neg (by simpa using hm)]
    simp [h.2]
  · rename_i hm
    have hm' : m = .nonAtomic := by simpa using hm
    simp only [SkW, if_pos hm']
    split at h
    · simp at h
      exact ⟨[], At.nil hs, by rw [← h.1]; simp, by rw [h.2]; exact .nil _⟩
    · obtain ⟨w, f, a1, p1, hF, st⟩ := hX.st _ _ _ _ _ _ hs h
      simp only [List.nil_append] at hF
      subst hF
      exact ⟨w, a1, p1, st.mono (fun _ _ _ h => Or.inl h)⟩
    · obtain ⟨w, f, a1, p1, hF, st⟩ := hX.st _ _ _ _ _ _ hs h
      simp only [List.nil_append] at hF
      subst hF
      exact ⟨w, a1, p1, st.mono (fun _ _ _ h => Or.inr h)⟩
    · pc X.st la "WHITESPACE" s []
      rename_i s1 f1
      obtain ⟨w1, f1', a1, p1, hF1, st1⟩ := hX.st _ _ _ _ _ _ hs hx
      have v1 := hV.st _ _ _ _ _ _ hs hx
      simp only [List.nil_append] at hF1
      subst hF1
      obtain ⟨w2, f2, a2, p2, hF, st2⟩ := hX.cl _ _ _ _ _ v1 h
      rw [p1] at a2 p2 st2
      refine ⟨w1 ++ w2, At.append a1 a2, by rw [p2]; simp; omega, ?_⟩
      rw [hF]
      exact StarW.append (st1.mono (fun _ _ _ h => Or.inl h)) st2

theorem builtin_sound {c : Ctx} (m : Atomicity) (la : Bool) (nm : String) (s s' : St) (F : List Tree)
    (hs : Valid c s) (h : builtin c m la nm s = .ok s' F) :
    ∃ w, At c.input s.pos w ∧ s'.pos = s.pos + bLen w ∧ BuiltinW c m la nm s.pos w F := by
  have hv' : Valid c s' := builtin_pres m la nm s s' F hs h
  have one : ∀ {p : Char → Bool}, oneChar c s p = .ok s' F → nm ≠ "EOI" → nm ≠ "SOI" →
      ∃ w, At c.input s.pos w ∧ s'.pos = s.pos + bLen w ∧ BuiltinW c m la nm s.pos w F := by
    intro p hp h1 h2
    obtain ⟨ch, _, a1, p1, hF⟩ := oneChar_word hp
    refine ⟨[ch], a1, p1, ?_⟩
    simp only [BuiltinW, if_neg h1, if_neg h2]
    split
    · exact ⟨⟨ch, rfl⟩, hF⟩
    · exact hF
  have gen : s.pos ≤ s'.pos → F = [] → nm ≠ "EOI" → nm ≠ "SOI" → nm ≠ "ANY" →
      ∃ w, At c.input s.pos w ∧ s'.pos = s.pos + bLen w ∧ BuiltinW c m la nm s.pos w F := by
    intro hle hF h1 h2 h3
    obtain ⟨w, hw, hp⟩ := word_of_valid hs hv' hle
    exact ⟨w, hw, hp, by simp [BuiltinW, h1, h2, h3, hF]⟩
  unfold builtin at h
  simp only [] at h
  split at h
  · exact one h (by decide) (by decide)
  · split at h <;> simp at h
    rename_i h0
    refine ⟨[], At.nil hs, by rw [← h.1]; simp, ?_⟩
    simp [BuiltinW, h0, h.2]
  · split at h <;> simp at h
    rename_i h0
    refine ⟨[], At.nil hs, by rw [← h.1]; simp, ?_⟩
    simp only [BuiltinW, if_pos]
    rw [← h.2, h0]
    simp
  · split at h
    · simp at h
    · obtain ⟨a1, p1, hF⟩ := lit_word h
      exact gen (by omega) hF (by decide) (by decide) (by decide)
  · split at h
    · simp at h
    · rename_i top rest _
      pc lit c s top
      obtain ⟨a1, p1, hF⟩ := lit_word hx
      exact gen (by rw [← h.1]; simp; omega) (by rw [← h.2]; exact hF) (by decide) (by decide) (by decide)
  · split at h
    · rename_i p hp
      simp at h
      exact gen (by rw [← h.1]; exact matchStrs_le hp) h.2 (by decide) (by decide) (by decide)
    · simp at h
  · split at h
    · rename_i p hp
      simp at h
      exact gen (by rw [← h.1]; exact matchStrs_le hp) h.2 (by decide) (by decide) (by decide)
    · simp at h
  · split at h
    · simp at h
    · simp at h
      exact gen (by rw [← h.1]; simp) h.2 (by decide) (by decide) (by decide)
  all_goals first
    | exact one h (by decide) (by decide)
    | skip
  · have key : ∀ {x : Str} {s' : St} {F : List Tree}, lit c s x = .ok s' F →
        ∃ w, At c.input s.pos w ∧ s'.pos = s.pos + bLen w ∧ BuiltinW c m la "NEWLINE" s.pos w F := by
      intro x s' F hx
      obtain ⟨a1, p1, hF⟩ := lit_word hx
      exact ⟨x, a1, p1, by simp [BuiltinW, hF]⟩
    pc lit c s ['\n']
    · rw [← h.1, ← h.2]; exact key hx
    · clear hx
      pc lit c s ['\r', '\n']
      · rw [← h.1, ← h.2]; exact key hx
      · exact key h
  · rename_i h1 h2 h3 _ _ _ _ _ _ _ _ _ _ _ _ _ _ _ _
    split at h
    · obtain ⟨ch, _, a1, p1, hF⟩ := oneChar_word h
      refine ⟨[ch], a1, p1, ?_⟩
      simp only [BuiltinW]
      rw [if_neg (by intro e; exact h3 e), if_neg (by intro e; exact h2 e), if_neg (by intro e; exact h1 e)]
      exact hF
    · simp at h

theorem callF_sound {c : Ctx} {P : Post} (hP : PostOK c P) {X : Fam} (_hV : Pres c X) (hX : Sound c P X)
    m la nm s s' F (hs : Valid c s) (h : callF c X m la nm s = .ok s' F) :
    ∃ w, At c.input s.pos w ∧ s'.pos = s.pos + bLen w ∧ P m la nm s.pos w F := by
  simp only [callF] at h
  split at h
  · rename_i id r hr
    pc X.d (bodyMode r.name r.ty m) la r.expr s
    rename_i s1 f1
    obtain ⟨w, a1, p1, o1⟩ := hX.d _ _ _ _ _ _ hs hx
    have := hP.rule nm id r hr m la s.pos w f1 a1 o1
    split at h
    · rename_i he
      simp at h
      rw [if_pos he] at this
      refine ⟨w, a1, by rw [← h.1]; exact p1, ?_⟩
      rw [← h.2, p1]; exact this
    · rename_i he
      simp at h
      rw [if_neg he] at this
      exact ⟨w, a1, by rw [← h.1]; exact p1, by rw [← h.2]; exact this⟩
  · rename_i hr
    obtain ⟨w, a1, p1, b1⟩ := builtin_sound m la nm s s' F hs h
    exact ⟨w, a1, p1, hP.builtin nm hr m la _ _ _ a1 b1⟩

theorem step_sound {c : Ctx} {P : Post} (hP : PostOK c P) {X : Fam} (hV : Pres c X) (hX : Sound c P X) :
    Sound c P (step c X) :=
  ⟨denoteF_sound hV hX, repLoopF_sound hV hX, skipWsF_sound hV hX, starF_sound hV hX, commentLoopF_sound hV hX,
    callF_sound hP hV hX⟩

theorem lev_sound {c : Ctx} {P : Post} (hP : PostOK c P) (n : Nat) : Sound c P (lev c n) := by
  induction n with
  | zero =>
    constructor <;> intros
    · rename_i h; rw [lev_zero_d] at h; cases h
    · rename_i h; rw [lev_zero_l] at h; cases h
    · rename_i h; rw [lev_zero_k] at h; cases h
    · rename_i h; rw [lev_zero_st] at h; cases h
    · rename_i h; rw [lev_zero_cl] at h; cases h
    · rename_i h; rw [lev_zero_ca] at h; cases h
  | succ n ih => rw [lev_succ]; exact step_sound hP (lev_pres c n) ih

/-- **Rule postconditions hold of every successful call** (any amount of fuel). -/
theorem sound_call {c : Ctx} {P : Post} (hP : PostOK c P) (n : Nat) (m : Atomicity) (la : Bool) (nm : String)
    (s s' : St) (F : List Tree) (hs : Valid c s) (h : call c n m la nm s = .ok s' F) :
    ∃ w, At c.input s.pos w ∧ s'.pos = s.pos + bLen w ∧ P m la nm s.pos w F :=
  (lev_sound hP n).ca m la nm s s' F hs h

theorem sound_denote {c : Ctx} {P : Post} (hP : PostOK c P) (n : Nat) (m : Atomicity) (la : Bool) (e : Expr)
    (s s' : St) (F : List Tree) (hs : Valid c s) (h : denote c n m la e s = .ok s' F) :
    ∃ w, At c.input s.pos w ∧ s'.pos = s.pos + bLen w ∧ OkW P m la e s.pos w F :=
  (lev_sound hP n).d m la e s s' F hs h

/-- for `meaning` (a parse from offset 0 with an empty stack): the whole consumed word is a prefix of the
input and the start rule's postcondition holds of it. -/
theorem sound_meaning {rules : List Rule} {extras : Bool} {uni : String → Option CharSet} {input : Str}
    {P : Post} (hP : PostOK { rules, input, extras, uni } P) (n : Nat) (rule : String) (s' : St) (F : List Tree)
    (h : meaning rules extras uni n rule input = .ok s' F) :
    ∃ w, At input 0 w ∧ s'.pos = bLen w ∧ P .nonAtomic false rule 0 w F := by
  have hs : Valid { rules, input, extras, uni } ⟨0, []⟩ := by simp [Valid, restAt, splitAt?]
  obtain ⟨w, a1, p1, o1⟩ := sound_call hP n .nonAtomic false rule ⟨0, []⟩ s' F hs h
  exact ⟨w, a1, by simpa using p1, o1⟩

end PestModel.Ref
