import PestModel.Lemmas.VmRefComb
/-! C01, part 7 (reference side only): the three loops of the reference (`repLoop`, `star`,
`commentLoop`) are loops over a unit in the sense of `IsLoop` — their accumulator is only prepended. -/
namespace PestModel.VmRef
open PestModel.G PestModel.PS PestModel.Ref PestModel.Views
open PestModel.LineCol (Str)

theorem prepend_prepend (a b : List Tree) (r : Res) : (r.prepend b).prepend a = r.prepend (a ++ b) := by
  cases r <;> simp [Res.prepend]

theorem prepend_nil (r : Res) : r.prepend [] = r := by
  cases r <;> simp [Res.prepend]

theorem repLoop_acc (c : Ctx) : ∀ (n : Nat) (m : Atomicity) (la : Bool) (e : Expr) (s : St) (acc : List Tree),
    repLoop c n m la e s acc = (repLoop c n m la e s []).prepend acc
  | 0, _, _, _, _, _ => by simp [repLoop, Res.prepend]
  | n + 1, m, la, e, s, acc => by
    rw [repLoop, repLoop]
    cases skipWs c n m la s with
    | ok s1 f1 =>
      dsimp only
      cases denote c n m la e s1 with
      | ok s2 f2 =>
        dsimp only
        rw [repLoop_acc c n m la e s2 (acc ++ f1 ++ f2), repLoop_acc c n m la e s2 ([] ++ f1 ++ f2),
          prepend_prepend]
        simp
      | fail => simp [Res.prepend]
      | stuck => rfl
      | fuel => rfl
    | fail => simp [Res.prepend]
    | stuck => rfl
    | fuel => rfl

theorem star_acc (c : Ctx) : ∀ (n : Nat) (la : Bool) (name : String) (s : St) (acc : List Tree),
    star c n la name s acc = (star c n la name s []).prepend acc
  | 0, _, _, _, _ => by simp [star, Res.prepend]
  | n + 1, la, name, s, acc => by
    rw [star, star]
    cases call c n .nonAtomic la name s with
    | ok s1 f1 =>
      dsimp only
      rw [star_acc c n la name s1 (acc ++ f1), star_acc c n la name s1 ([] ++ f1), prepend_prepend]
      simp
    | fail => simp [Res.prepend]
    | stuck => rfl
    | fuel => rfl

theorem commentLoop_acc (c : Ctx) : ∀ (n : Nat) (la : Bool) (s : St) (acc : List Tree),
    commentLoop c n la s acc = (commentLoop c n la s []).prepend acc
  | 0, _, _, _ => by simp [commentLoop, Res.prepend]
  | n + 1, la, s, acc => by
    rw [commentLoop, commentLoop]
    cases call c n .nonAtomic la "COMMENT" s with
    | ok s1 f1 =>
      dsimp only
      cases star c n la "WHITESPACE" s1 [] with
      | ok s2 f2 =>
        dsimp only
        rw [commentLoop_acc c n la s2 (acc ++ f1 ++ f2), commentLoop_acc c n la s2 ([] ++ f1 ++ f2),
          prepend_prepend]
        simp
      | fail => rfl
      | stuck => rfl
      | fuel => rfl
    | fail => simp [Res.prepend]
    | stuck => rfl
    | fuel => rfl

theorem valL_acc (c : Ctx) (m : Atomicity) (la : Bool) (e : Expr) (s : St) (acc : List Tree) :
    valL c m la e s acc = (valL c m la e s []).prepend acc := by
  obtain ⟨N1, h1⟩ := (lev_conv c).l m la e s acc
  obtain ⟨N2, h2⟩ := (lev_conv c).l m la e s []
  have a := h1 (N1 + N2) (by omega)
  have b := h2 (N1 + N2) (by omega)
  simp only [lev] at a b
  show (V c).l m la e s acc = Res.prepend acc ((V c).l m la e s [])
  rw [← a, ← b]
  exact repLoop_acc c _ m la e s acc

theorem valSt_acc (c : Ctx) (la : Bool) (name : String) (s : St) (acc : List Tree) :
    valSt c la name s acc = (valSt c la name s []).prepend acc := by
  obtain ⟨N1, h1⟩ := (lev_conv c).st la name s acc
  obtain ⟨N2, h2⟩ := (lev_conv c).st la name s []
  have a := h1 (N1 + N2) (by omega)
  have b := h2 (N1 + N2) (by omega)
  simp only [lev] at a b
  show (V c).st la name s acc = Res.prepend acc ((V c).st la name s [])
  rw [← a, ← b]
  exact star_acc c _ la name s acc

theorem valCl_acc (c : Ctx) (la : Bool) (s : St) (acc : List Tree) :
    valCl c la s acc = (valCl c la s []).prepend acc := by
  obtain ⟨N1, h1⟩ := (lev_conv c).cl la s acc
  obtain ⟨N2, h2⟩ := (lev_conv c).cl la s []
  have a := h1 (N1 + N2) (by omega)
  have b := h2 (N1 + N2) (by omega)
  simp only [lev] at a b
  show (V c).cl la s acc = Res.prepend acc ((V c).cl la s [])
  rw [← a, ← b]
  exact commentLoop_acc c _ la s acc

theorem star_ne_fail (c : Ctx) : ∀ (n : Nat) (la : Bool) (name : String) (s : St) (acc : List Tree),
    star c n la name s acc ≠ .fail
  | 0, _, _, _, _ => by simp [star]
  | n + 1, la, name, s, acc => by
    rw [star]
    cases call c n .nonAtomic la name s with
    | ok s1 f1 => exact star_ne_fail c n la name s1 _
    | fail => simp
    | stuck => simp
    | fuel => simp

theorem valSt_ne_fail (c : Ctx) (la : Bool) (name : String) (s : St) (acc : List Tree) :
    valSt c la name s acc ≠ .fail := by
  obtain ⟨N1, h1⟩ := (lev_conv c).st la name s acc
  have a := h1 N1 (Nat.le_refl _)
  simp only [lev] at a
  show (V c).st la name s acc ≠ .fail
  rw [← a]
  exact star_ne_fail c _ la name s acc

theorem repLoop_ne_fail (c : Ctx) : ∀ (n : Nat) (m : Atomicity) (la : Bool) (e : Expr) (s : St)
    (acc : List Tree), repLoop c n m la e s acc ≠ .fail
  | 0, _, _, _, _, _ => by simp [repLoop]
  | n + 1, m, la, e, s, acc => by
    rw [repLoop]
    cases skipWs c n m la s with
    | ok s1 f1 =>
      dsimp only
      cases denote c n m la e s1 with
      | ok s2 f2 => exact repLoop_ne_fail c n m la e s2 _
      | fail => simp
      | stuck => simp
      | fuel => simp
    | fail => simp
    | stuck => simp
    | fuel => simp

theorem valL_ne_fail (c : Ctx) (m : Atomicity) (la : Bool) (e : Expr) (s : St) (acc : List Tree) :
    valL c m la e s acc ≠ .fail := by
  obtain ⟨N1, h1⟩ := (lev_conv c).l m la e s acc
  have a := h1 N1 (Nat.le_refl _)
  simp only [lev] at a
  show (V c).l m la e s acc ≠ .fail
  rw [← a]
  exact repLoop_ne_fail c _ m la e s acc

theorem isLoop_valL (c : Ctx) (m : Atomicity) (la : Bool) (e : Expr) :
    IsLoop (seqD (valK c m la) (val c m la e)) (valL c m la e) where
  unfold := by
    intro s acc
    rw [valL_unfold]
    unfold seqD
    cases valK c m la s with
    | ok s1 f1 =>
      dsimp only
      cases val c m la e s1 <;> simp
    | fail => rfl
    | stuck => rfl
    | fuel => rfl
  acc := valL_acc c m la e

theorem isLoop_valSt (c : Ctx) (la : Bool) (name : String) :
    IsLoop (valCa c .nonAtomic la name) (valSt c la name) where
  unfold := by
    intro s acc
    rw [valSt_eq]
    rfl
  acc := valSt_acc c la name

theorem isLoop_valCl (c : Ctx) (la : Bool) :
    IsLoop (seqD (valCa c .nonAtomic la "COMMENT") (fun σ => valSt c la "WHITESPACE" σ []))
      (valCl c la) where
  unfold := by
    intro s acc
    rw [valCl_eq]
    unfold seqD commentLoopF
    show (match valCa c .nonAtomic la "COMMENT" s with
      | .ok s1 f1 => (match valSt c la "WHITESPACE" s1 [] with
        | .ok s2 f2 => valCl c la s2 (acc ++ f1 ++ f2) | r => r)
      | .fail => .ok s acc | r => r) = _
    cases valCa c .nonAtomic la "COMMENT" s with
    | ok s1 f1 =>
      dsimp only
      have := valSt_ne_fail c la "WHITESPACE" s1 []
      cases h : valSt c la "WHITESPACE" s1 [] <;> simp_all
    | fail => rfl
    | stuck => rfl
    | fuel => rfl
  acc := valCl_acc c la

end PestModel.VmRef
