import PestModel.Model.LineCol
import PestModel.Model.Stack
/-
L2/L4 — `pest/src/position.rs` (matching primitives) and `pest/src/parser_state.rs`
(`ParserState` and all its public combinators, `ParseAttempts`, call limit), as a deep embedding
`Prog` of call trees with an interpreter `run`.

Conventions: `&mut`/`Box<Self>` become state passing; every Rust panic site is the outcome
`panic`; `fuel` is the model running out of recursion fuel (never identified with failure).
Inputs are `List Char`, positions are byte offsets.  Byte-level comparisons of the Rust code
(`as_bytes()`, `memchr`) are modelled at the character level: a valid UTF-8 needle matches the
haystack's bytes at a boundary iff its characters are a prefix of the remaining characters
(UTF-8 is a prefix code); the correspondence check exercises multi-byte inputs.
-/
namespace PestModel.PS
open PestModel.LineCol (Str bLen cLen splitAt? slice?)
open PestModel.Stack (Stk)

inductive Lookahead where
  | positive | negative | none
  deriving Repr, DecidableEq

inductive Atomicity where
  | atomic | compound | nonAtomic
  deriving Repr, DecidableEq

inductive MatchDir where
  | bottomToTop | topToBottom
  deriving Repr, DecidableEq

/-- `QueueableToken`. -/
inductive QTok where
  | start (endIdx pos : Nat)
  | end_ (startIdx rule : Nat) (tag : Option Str) (pos : Nat)
  deriving Repr, DecidableEq

/-- `ParsingToken`. -/
inductive PTok where
  | sens (s : Str)
  | insens (s : Str)
  | range (a b : Char)
  | builtin
  deriving Repr, DecidableEq

/-- `ParseAttempt`. -/
inductive Attempt where
  | rule (r : Nat)
  | token
  deriving Repr, DecidableEq

/-- `RulesCallStack`. -/
structure CallStack where
  deepest : Attempt
  parent : Option Nat
  deriving Repr, DecidableEq

/-- `ParseAttempts`. -/
structure PAttempts where
  enabled : Bool
  callStacks : List CallStack
  expected : List PTok
  unexpected : List PTok
  maxPos : Nat
  deriving Repr, DecidableEq

/-- `ParserState`. `calls = some (current, limit)` when a call limit is set. -/
structure PState where
  input : Str
  pos : Nat
  queue : List QTok
  lookahead : Lookahead
  posAtt : List Nat
  negAtt : List Nat
  attemptPos : Nat
  atomicity : Atomicity
  stack : Stk Str
  calls : Option (Nat × Nat)
  pa : PAttempts
  deriving Repr

def PState.new (input : Str) (limit : Option Nat) (detail : Bool) : PState :=
  { input, pos := 0, queue := [], lookahead := .none, posAtt := [], negAtt := [], attemptPos := 0,
    atomicity := .nonAtomic, stack := Stk.new,
    calls := match limit with | some l => if l > 0 then some (0, l) else none | none => none,
    pa := { enabled := detail, callStacks := [], expected := [], unexpected := [], maxPos := 0 } }

inductive Out where
  | ok (s : PState)
  | err (s : PState)
  | panic
  | fuel
  deriving Repr

/-! ### Position primitives (`position.rs`). `none` = panic (slicing off a boundary). -/

def restAt (input : Str) (pos : Nat) : Option Str := (splitAt? input pos).map (·.2)

/-- `match_string`: `(matched, new pos)`. -/
def posMatchString (input : Str) (pos : Nat) (str : Str) : Option (Bool × Nat) :=
  match restAt input pos with
  | none => none
  | some rest => if str.isPrefixOf rest then some (true, pos + bLen str) else some (false, pos)

def asciiLower (c : Char) : Char :=
  if 'A' ≤ c ∧ c ≤ 'Z' then Char.ofNat (c.toNat + 32) else c

def eqIgnoreAsciiCase (a b : Str) : Bool := a.map asciiLower == b.map asciiLower

/-- `match_insensitive`: `slice.get(0..string.len())` then `eq_ignore_ascii_case`. -/
def posMatchInsensitive (input : Str) (pos : Nat) (str : Str) : Option (Bool × Nat) :=
  match restAt input pos with
  | none => none
  | some rest =>
    match splitAt? rest (bLen str) with
    | some (pre, _) => if eqIgnoreAsciiCase pre str then some (true, pos + bLen str) else some (false, pos)
    | none => some (false, pos)

/-- `match_range` (inclusive on both ends). -/
def posMatchRange (input : Str) (pos : Nat) (a b : Char) : Option (Bool × Nat) :=
  match restAt input pos with
  | none => none
  | some [] => some (false, pos)
  | some (c :: _) => if a ≤ c ∧ c ≤ b then some (true, pos + cLen c) else some (false, pos)

/-- A character predicate given as inclusive code-point ranges (stands for the closure passed to
`match_char_by`). -/
abbrev CharSet := List (Nat × Nat)

def CharSet.mem (cs : CharSet) (c : Char) : Bool := cs.any fun (lo, hi) => lo ≤ c.toNat ∧ c.toNat ≤ hi

def posMatchCharBy (input : Str) (pos : Nat) (cs : CharSet) : Option (Bool × Nat) :=
  match restAt input pos with
  | none => none
  | some [] => some (false, pos)
  | some (c :: _) => if cs.mem c then some (true, pos + cLen c) else some (false, pos)

/-- `skip(n)`: `n` characters. -/
def posSkip (input : Str) (pos : Nat) (n : Nat) : Option (Bool × Nat) :=
  match restAt input pos with
  | none => none
  | some rest => if n ≤ rest.length then some (true, pos + bLen (rest.take n)) else some (false, pos)

/-- `skip_until_basic`: first boundary in `pos..len` (exclusive of `len`) where one of the strings
matches; otherwise the end of input. Returns the new offset and the (ignored) `bool`. -/
def skipUntilBasicGo (strs : List Str) : Str → Nat → Nat × Bool
  | [], off => (off, false)
  | c :: cs, off =>
    if strs.any (·.isPrefixOf (c :: cs)) then (off, true) else skipUntilBasicGo strs cs (off + cLen c)

/-- `memchr::memmem::find`: first offset (including the very end) at which the needle occurs. -/
def memmemGo (needle : Str) : Str → Nat → Option Nat
  | [], off => if needle.isEmpty then some off else none
  | c :: cs, off =>
    if needle.isPrefixOf (c :: cs) then some off else memmemGo needle cs (off + cLen c)

/-- First byte of the UTF-8 encoding. -/
def leadByte (c : Char) : UInt8 := (String.utf8EncodeChar c).headD 0

/-- `memchr2_iter`/`memchr3_iter` hits filtered by `starts_with`: candidate offsets are those whose
byte equals one of the first bytes (these are always boundaries: lead bytes and continuation
bytes are disjoint). -/
def memchrGo (firsts : List UInt8) (strs : List Str) : Str → Nat → Option Nat
  | [], _ => none
  | c :: cs, off =>
    if firsts.contains (leadByte c) ∧ strs.any (·.isPrefixOf (c :: cs)) then some off
    else memchrGo firsts strs cs (off + cLen c)

/-- `Position::skip_until`; `memchr` = the cargo feature. -/
def posSkipUntil (memchr : Bool) (input : Str) (pos : Nat) (strs : List Str) : Option Nat :=
  match restAt input pos with
  | none => none
  | some rest =>
    let endPos := pos + bLen rest
    let basic := (skipUntilBasicGo strs rest pos).1
    if !memchr then some basic else
    match strs with
    | [] => some endPos
    | [s1] => some ((memmemGo s1 rest pos).getD endPos)
    | [s1, s2] =>
      match s1, s2 with
      | a :: _, b :: _ => some ((memchrGo [leadByte a, leadByte b] strs rest pos).getD endPos)
      | _, _ => some basic
    | [s1, s2, s3] =>
      match s1, s2, s3 with
      | a :: _, b :: _, c :: _ =>
        some ((memchrGo [leadByte a, leadByte b, leadByte c] strs rest pos).getD endPos)
      | _, _, _ => some basic
    | _ => some basic

/-! ### `ParseAttempts` -/

def PAttempts.tryAddNewStackRule (pa : PAttempts) (rule : Nat) (start : Nat) : Option PAttempts :=
  if start > pa.callStacks.length then none else            -- `splice(start_index..)` out of range
  let tail := pa.callStacks.drop start
  let nonTok := tail.filter (fun c => c.deepest ≠ .token)
  let tokenMet := tail.any (fun c => c.deepest = .token)
  let nonTok := if tokenMet ∧ nonTok.isEmpty then [⟨.token, none⟩] else nonTok
  let cs := pa.callStacks.take start ++ nonTok
  -- `self.call_stacks_number() - start_index` cannot underflow after the splice
  if cs.length - start ≥ 4 then
    some { pa with callStacks := cs.take start ++ [⟨.rule rule, none⟩] }
  else
    some { pa with callStacks := cs.take start ++ (cs.drop start).map fun c =>
      if c.deepest = .token then { c with deepest := .rule rule } else { c with parent := some rule } }

def PAttempts.tryAddNewToken (pa : PAttempts) (tok : PTok) (startPos position : Nat) (negLA : Bool) :
    PAttempts :=
  let push := fun (p : PAttempts) =>
    if negLA then { p with unexpected := p.unexpected ++ [tok] } else { p with expected := p.expected ++ [tok] }
  if position > pa.maxPos then
    if negLA ∧ startPos > pa.maxPos then pa else
    let pa := push pa
    if negLA then pa else
    { pa with maxPos := position, expected := [], unexpected := [], callStacks := [⟨.token, none⟩] }
  else if position = pa.maxPos then
    let pa := push pa
    { pa with callStacks := pa.callStacks ++ [⟨.token, none⟩] }
  else pa

def PAttempts.nullify (pa : PAttempts) (newMax : Nat) : PAttempts :=
  { pa with callStacks := [], expected := [], unexpected := [], maxPos := newMax }

/-- `handle_token_parse_result` (called only when `enabled`). -/
def handleToken (s : PState) (startPos : Nat) (tok : PTok) (succeeded : Bool) : PState :=
  if !s.pa.enabled then s else
  let cur := s.pos
  if succeeded then
    if s.lookahead = .negative then { s with pa := s.pa.tryAddNewToken tok startPos cur true }
    else if cur > s.pa.maxPos then { s with pa := s.pa.nullify cur }
    else s
  else if s.lookahead ≠ .negative then { s with pa := s.pa.tryAddNewToken tok startPos cur false }
  else s

/-! ### Helpers of `ParserState` -/

/-- `inc_call_check_limit`: `none` = the call is refused (`Err(self)`). -/
def incCall (s : PState) : Option PState :=
  match s.calls with
  | none => some s
  | some (cur, lim) => if cur ≥ lim then none else some { s with calls := some (cur + 1, lim) }

def reachedCallLimit (s : PState) : Bool :=
  match s.calls with
  | none => false
  | some (cur, lim) => cur ≥ lim

def attemptsAt (s : PState) (pos : Nat) : Nat :=
  if s.attemptPos = pos then s.posAtt.length + s.negAtt.length else 0

/-- `ParserState::track`. -/
def track (s : PState) (rule pos pai nai prev : Nat) : PState :=
  if s.atomicity = .atomic then s else
  let curr := attemptsAt s pos
  if curr > prev ∧ curr - prev = 1 then s else
  let s := if pos = s.attemptPos then { s with posAtt := s.posAtt.take pai, negAtt := s.negAtt.take nai } else s
  let s := if pos > s.attemptPos then { s with posAtt := [], negAtt := [], attemptPos := pos } else s
  if pos = s.attemptPos then
    if s.lookahead ≠ .negative then { s with posAtt := s.posAtt ++ [rule] }
    else { s with negAtt := s.negAtt ++ [rule] }
  else s

/-- The closure `try_add_rule_to_stack` of `rule`. `none` = panic inside `splice`. -/
def tryAddRuleToStack (s : PState) (rule rememberCs rememberMax : Nat) : Option PState :=
  let rememberCs := if s.pa.maxPos > rememberMax then 0 else rememberCs
  if s.atomicity ≠ .atomic then
    match s.pa.tryAddNewStackRule rule rememberCs with
    | some pa => some { s with pa := pa }
    | none => none
  else some s

def setAt {α} : List α → Nat → α → List α
  | [], _, _ => []
  | _ :: xs, 0, v => v :: xs
  | x :: xs, n + 1, v => x :: setAt xs n v

/-- tag of the last token if it is an `End` (`None` otherwise). -/
def lastTag (q : List QTok) : Option Str :=
  match q.getLast? with
  | some (.end_ _ _ tag _) => tag
  | _ => none

/-- `if let Some(End { tag, .. }) = queue.last_mut() { *tag = t }`. -/
def setLastTag (q : List QTok) (t : Option Str) : List QTok :=
  match q.getLast? with
  | some (.end_ si r _ p) => q.dropLast ++ [.end_ si r t p]
  | _ => q

def checkpoint (s : PState) : PState :=
  { s with stack := { s.stack with lengths := (s.stack.cache.length, s.stack.cache.length) :: s.stack.lengths } }

def checkpointOk (s : PState) : Option PState :=
  (Stack.clearSnapshot s.stack).map fun st => { s with stack := st }

def restoreStack (s : PState) : Option PState :=
  (Stack.restore s.stack).map fun st => { s with stack := st }

/-- result of a terminal: `Ok(self)` / `Err(self)` with the new position. -/
def terminal (s : PState) (r : Option (Bool × Nat)) (tok : Option PTok) : Out :=
  match r with
  | none => .panic
  | some (succ, pos') =>
    let start := s.pos
    let s := { s with pos := pos' }
    let s := match tok with | some t => handleToken s start t succ | none => s
    if succ then .ok s else .err s

/-- `constrain_idxs` / `normalize_index` (with `i32`/`usize` as `Int`/`Nat`; lengths are small). -/
def normalizeIndex (i : Int) (len : Nat) : Option Nat :=
  if i > (len : Int) then none
  else if i ≥ 0 then some i.toNat
  else
    let r := (len : Int) + i
    if r ≥ 0 then some r.toNat else none

def constrainIdxs (start : Int) (stop : Option Int) (len : Nat) : Option (Nat × Nat) :=
  match normalizeIndex start len with
  | none => none
  | some a =>
    match stop with
    | none => some (a, len)
    | some e =>
      match normalizeIndex e len with
      | none => none
      | some b => some (a, b)

/-- match the strings one after another from `pos`; `all` semantics (stop at the first failure). -/
def matchAll (input : Str) : List Str → Nat → Option (Bool × Nat)
  | [], pos => some (true, pos)
  | x :: xs, pos =>
    match posMatchString input pos x with
    | none => none
    | some (true, pos') => matchAll input xs pos'
    | some (false, _) => some (false, pos)

/-- `stack_match_pop`: pop while matching. Returns the new stack, success and position. -/
def matchPopLoop (input : Str) : Nat → Stk Str → Nat → Option (Stk Str × Bool × Nat)
  | 0, st, pos => some (st, true, pos)       -- unreachable: fuel = stack size + 1
  | fuel + 1, st, pos =>
    match Stack.pop st with
    | none => none
    | some (st', none) => some (st', true, pos)
    | some (st', some x) =>
      match posMatchString input pos x with
      | none => none
      | some (true, pos') => matchPopLoop input fuel st' pos'
      | some (false, _) => some (st', false, pos)

/-! ### Programs: call trees over the public API -/

inductive Prog where
  | sequence (p : Prog)
  | optional (p : Prog)
  | repeat_ (p : Prog)
  | repLoop (p : Prog)              -- internal: the `loop` of `repeat` (no call counted)
  | lookahead (positive : Bool) (p : Prog)
  | atomic (a : Atomicity) (p : Prog)
  | rule (r : Nat) (p : Prog)
  | stackPush (p : Prog)
  | restoreOnErr (p : Prog)
  | andThen (p q : Prog)            -- `p.and_then(|s| q)`
  | orElse (p q : Prog)             -- `p.or_else(|s| q)`
  | matchString (s : Str)
  | matchInsensitive (s : Str)
  | matchRange (a b : Char)
  | matchCharBy (cs : CharSet)
  | skip (n : Nat)
  | skipUntil (strs : List Str)
  | startOfInput
  | endOfInput
  | stackPeek
  | stackPop
  | stackMatchPeek
  | stackMatchPop
  | stackDrop
  | stackMatchPeekSlice (start : Int) (stop : Option Int) (dir : MatchDir)
  | stackPushLiteral (s : Str)
  | tagNode (tag : Str)
  | call (i : Nat)                  -- a named sub-program (grammar rule), resolved in the environment
  | ok                              -- `Ok(state)`
  | fail                            -- `Err(state)`
  deriving Repr

structure Cfg where
  memchr : Bool
  env : List Prog

/-- The interpreter. Recursion is on `fuel` only. -/
def run (cfg : Cfg) : Nat → Prog → PState → Out
  | 0, _, _ => .fuel
  | fuel + 1, prog, s =>
    match prog with
    | .ok => .ok s
    | .fail => .err s
    | .call i =>
      match cfg.env[i]? with
      | some p => run cfg fuel p s
      | none => .panic
    | .andThen p q =>
      match run cfg fuel p s with
      | .ok s' => run cfg fuel q s'
      | o => o
    | .orElse p q =>
      match run cfg fuel p s with
      | .err s' => run cfg fuel q s'
      | o => o
    | .sequence p =>
      match incCall s with
      | none => .err s
      | some s =>
        let tokenIndex := s.queue.length
        let initialPos := s.pos
        let initialLastTag := lastTag s.queue
        match run cfg fuel p (checkpoint s) with
        | .ok ns => match checkpointOk ns with | some ns => .ok ns | none => .panic
        | .err ns =>
          match restoreStack { ns with pos := initialPos,
                                       queue := setLastTag (ns.queue.take tokenIndex) initialLastTag } with
          | some ns => .err ns
          | none => .panic
        | o => o
    | .repeat_ p =>
      match incCall s with
      | none => .err s
      | some s => run cfg fuel (.repLoop p) s
    | .repLoop p =>
      match run cfg fuel p s with
      | .ok s' => run cfg fuel (.repLoop p) s'
      | .err s' => .ok s'
      | o => o
    | .optional p =>
      match incCall s with
      | none => .err s
      | some s =>
        match run cfg fuel p s with
        | .ok s' => .ok s'
        | .err s' => .ok s'
        | o => o
    | .lookahead positive p =>
      match incCall s with
      | none => .err s
      | some s =>
        let initialLa := s.lookahead
        let la := if positive then
            (match initialLa with | .negative => Lookahead.negative | _ => Lookahead.positive)
          else
            (match initialLa with | .negative => Lookahead.positive | _ => Lookahead.negative)
        let initialPos := s.pos
        match run cfg fuel p (checkpoint { s with lookahead := la }) with
        | .ok ns =>
          match restoreStack { ns with pos := initialPos, lookahead := initialLa } with
          | some ns => if positive then .ok ns else .err ns
          | none => .panic
        | .err ns =>
          match restoreStack { ns with pos := initialPos, lookahead := initialLa } with
          | some ns => if positive then .err ns else .ok ns
          | none => .panic
        | o => o
    | .atomic a p =>
      match incCall s with
      | none => .err s
      | some s =>
        let initial := s.atomicity
        let toggle := initial ≠ a
        let s := if toggle then { s with atomicity := a } else s
        match run cfg fuel p s with
        | .ok ns => .ok (if toggle then { ns with atomicity := initial } else ns)
        | .err ns => .err (if toggle then { ns with atomicity := initial } else ns)
        | o => o
    | .rule r p =>
      match incCall s with
      | none => .err s
      | some s =>
        let actualPos := s.pos
        let index := s.queue.length
        let (pai, nai) := if actualPos = s.attemptPos then (s.posAtt.length, s.negAtt.length) else (0, 0)
        let s := if s.lookahead = .none ∧ s.atomicity ≠ .atomic
          then { s with queue := s.queue ++ [.start 0 actualPos] } else s
        let attempts := attemptsAt s actualPos
        let rememberCs := s.pa.callStacks.length
        let rememberMax := s.pa.maxPos
        match run cfg fuel p s with
        | .ok ns =>
          let ns := if ns.lookahead = .negative then track ns r actualPos pai nai attempts else ns
          let ns? : Option PState :=
            if ns.lookahead = .none ∧ ns.atomicity ≠ .atomic then
              let newIndex := ns.queue.length
              match ns.queue[index]? with
              | some (.start _ p0) =>
                some { ns with queue := setAt ns.queue index (.start newIndex p0) ++ [.end_ index r none ns.pos] }
              | _ => none                                   -- index out of range / `unreachable!()`
            else some ns
          match ns? with
          | none => .panic
          | some ns =>
            if ns.pa.enabled then
              match tryAddRuleToStack ns r rememberCs rememberMax with
              | some ns => .ok ns
              | none => .panic
            else .ok ns
        | .err ns =>
          let ns? : Option PState :=
            if ns.lookahead ≠ .negative then
              let ns := track ns r actualPos pai nai attempts
              if ns.pa.enabled then tryAddRuleToStack ns r rememberCs rememberMax else some ns
            else some ns
          match ns? with
          | none => .panic
          | some ns =>
            .err (if ns.lookahead = .none ∧ ns.atomicity ≠ .atomic
              then { ns with queue := ns.queue.take index } else ns)
        | o => o
    | .stackPush p =>
      match incCall s with
      | none => .err s
      | some s =>
        let start := s.pos
        match run cfg fuel p s with
        | .ok ns =>
          match slice? ns.input start ns.pos with            -- `start.span(&end)`
          | some str => .ok { ns with stack := { ns.stack with cache := str :: ns.stack.cache } }
          | none => .panic
        | o => o
    | .restoreOnErr p =>
      match run cfg fuel p (checkpoint s) with
      | .ok ns => match checkpointOk ns with | some ns => .ok ns | none => .panic
      | .err ns => match restoreStack ns with | some ns => .err ns | none => .panic
      | o => o
    | .matchString str => terminal s (posMatchString s.input s.pos str) (some (.sens str))
    | .matchInsensitive str => terminal s (posMatchInsensitive s.input s.pos str) (some (.insens str))
    | .matchRange a b => terminal s (posMatchRange s.input s.pos a b) (some (.range a b))
    | .matchCharBy cs => terminal s (posMatchCharBy s.input s.pos cs) (some .builtin)
    | .skip n => terminal s (posSkip s.input s.pos n) none
    | .skipUntil strs =>
      match posSkipUntil cfg.memchr s.input s.pos strs with
      | some pos' => .ok { s with pos := pos' }
      | none => .panic
    | .startOfInput => if s.pos = 0 then .ok s else .err s
    | .endOfInput => if s.pos = bLen s.input then .ok s else .err s
    | .stackPeek =>
      if reachedCallLimit s then .err s else
      match s.stack.cache.head? with
      | none => .panic                                       -- "peek was called on empty stack"
      | some str => terminal s (posMatchString s.input s.pos str) (some (.sens str))
    | .stackPop =>
      if reachedCallLimit s then .err s else
      match Stack.pop s.stack with
      | none => .panic
      | some (_, none) => .panic                             -- "pop was called on empty stack"
      | some (st, some str) =>
        let s := { s with stack := st }
        terminal s (posMatchString s.input s.pos str) (some (.sens str))
    | .stackMatchPeekSlice start stop dir =>
      match constrainIdxs start stop s.stack.cache.length with
      | none => .err s
      | some (a, b) =>
        if b ≤ a then .ok s else
        let bottomFirst := s.stack.cache.reverse
        let sl := (bottomFirst.drop a).take (b - a)
        let sl := match dir with | .bottomToTop => sl | .topToBottom => sl.reverse
        match matchAll s.input sl s.pos with
        | none => .panic
        | some (true, pos') => .ok { s with pos := pos' }
        | some (false, _) => .err s
    | .stackMatchPeek =>
      if s.stack.cache.isEmpty then .ok s else
      match matchAll s.input s.stack.cache s.pos with
      | none => .panic
      | some (true, pos') => .ok { s with pos := pos' }
      | some (false, _) => .err s
    | .stackMatchPop =>
      match matchPopLoop s.input (s.stack.cache.length + 1) s.stack s.pos with
      | none => .panic
      | some (st, true, pos') => .ok { s with stack := st, pos := pos' }
      | some (st, false, _) => .err { s with stack := st }
    | .stackDrop =>
      match Stack.pop s.stack with
      | none => .panic
      | some (st, some _) => .ok { s with stack := st }
      | some (_, none) => .err s
    | .stackPushLiteral str => .ok { s with stack := { s.stack with cache := str :: s.stack.cache } }
    | .tagNode tag =>
      if s.lookahead ≠ .none then .ok s else
      match s.queue.getLast? with
      | some (.end_ si r _ p) => .ok { s with queue := s.queue.dropLast ++ [.end_ si r (some tag) p] }
      | _ => .ok s

/-! ### `pest::state` epilogue -/

inductive Report where
  | success (queue : List QTok)
  | parsingError (pos : Nat) (positives negatives : List Nat)
  | callLimit (pos : Nat)
  deriving Repr, DecidableEq

def insertSorted (x : Nat) : List Nat → List Nat
  | [] => [x]
  | y :: ys => if x < y then x :: y :: ys else if x = y then y :: ys else y :: insertSorted x ys

/-- `sort(); dedup()`. -/
def sortDedup (xs : List Nat) : List Nat := xs.foldr insertSorted []

def finish : Out → Option Report
  | .ok s => if reachedCallLimit s then some (.callLimit s.attemptPos) else some (.success s.queue)
  | .err s =>
    if reachedCallLimit s then some (.callLimit s.attemptPos)
    else some (.parsingError s.attemptPos (sortDedup s.posAtt) (sortDedup s.negAtt))
  | _ => none

end PestModel.PS
