import PestModel.Model.ViewsSpec
import PestModel.Lemmas.PStateInv
/-!
Structural characterisation of "the window `[a, b)` of the queue encodes a nested forest" that
ignores tags (`Wf`), its stability lemmas, and the conversion to `forestOf` / `countPairs`.
-/
namespace PestModel.Views
open PestModel.PS PestModel.LineCol

/-- The window `[a, b)` of `q` is the encoding of a forest whose spans are nested within `[lo, hi]`.
Tags of `end_` tokens are not recorded, so the predicate is insensitive to `tagNode`. -/
inductive Wf (input : Str) (q : List QTok) : Nat → Nat → Nat → Nat → Prop
  | nil {a lo hi : Nat} : lo ≤ hi → Wf input q a lo a hi
  | cons {a lo b hi e p0 p1 r : Nat} {tag : Option Str} :
      q[a]? = some (.start e p0) → q[e]? = some (.end_ a r tag p1) →
      lo ≤ p0 → p1 ≤ hi → isBoundary input p0 = true → isBoundary input p1 = true →
      Wf input q (a + 1) p0 e p1 → Wf input q (e + 1) p1 b hi → Wf input q a lo b hi

variable {input : Str} {q q' : List QTok}

theorem Wf.le {a lo b hi : Nat} (h : Wf input q a lo b hi) : lo ≤ hi := by
  induction h with
  | nil h => exact h
  | cons _ _ h1 h2 _ _ _ _ ih1 ih2 => omega

theorem Wf.idx {a lo b hi : Nat} (h : Wf input q a lo b hi) : a ≤ b := by
  induction h with
  | nil h => exact Nat.le_refl _
  | cons _ _ _ _ _ _ _ _ ih1 ih2 => omega

theorem Wf.weaken {a lo b hi lo' hi' : Nat} (h : Wf input q a lo b hi) (h1 : lo' ≤ lo) (h2 : hi ≤ hi') :
    Wf input q a lo' b hi' := by
  induction h generalizing lo' hi' with
  | nil h => exact .nil (by omega)
  | cons ha he hl hh b0 b1 k r ihk ihr =>
    exact .cons ha he (by omega) (by omega) b0 b1 k (ihr (Nat.le_refl _) h2)

theorem eraseTag_eq_end {x : QTok} {a r p : Nat} {t : Option Str} (h : x.eraseTag = (QTok.end_ a r t p).eraseTag) :
    ∃ t', x = .end_ a r t' p := by
  cases x with
  | start a b => simp [QTok.eraseTag] at h
  | end_ a' r' t' p' =>
    simp [QTok.eraseTag] at h
    obtain ⟨rfl, rfl, rfl⟩ := h
    exact ⟨t', rfl⟩

/-- `Wf` only reads the window, and only up to tags. -/
theorem Wf.congr {a lo b hi : Nat} (h : Wf input q a lo b hi)
    (hq : ∀ i, a ≤ i → i < b → (q'[i]?).map QTok.eraseTag = (q[i]?).map QTok.eraseTag) :
    Wf input q' a lo b hi := by
  induction h with
  | nil h => exact .nil h
  | @cons a lo b hi e p0 p1 r tag ha he hl hh b0 b1 k rr ihk ihr =>
    have i1 := k.idx
    have i2 := rr.idx
    have h1 := hq a (Nat.le_refl _) (by omega)
    have h2 := hq e (by omega) (by omega)
    rw [ha] at h1; rw [he] at h2
    simp only [Option.map_some, Option.map_eq_some_iff] at h1 h2
    obtain ⟨x, hx, hx'⟩ := h1
    obtain ⟨y, hy, hy'⟩ := h2
    have := eraseTag_eq_start (x := x) (by simpa [QTok.eraseTag] using hx')
    subst this
    obtain ⟨t', rfl⟩ := eraseTag_eq_end hy'
    exact .cons hx hy hl hh b0 b1 (ihk fun i h1 h2 => hq i (by omega) (by omega))
      (ihr fun i h1 h2 => hq i (by omega) h2)

theorem Wf.congr_eq {a lo b hi : Nat} (h : Wf input q a lo b hi)
    (hq : ∀ i, a ≤ i → i < b → q'[i]? = q[i]?) : Wf input q' a lo b hi :=
  h.congr fun i h1 h2 => by rw [hq i h1 h2]

/-- Concatenation of adjacent windows. -/
theorem Wf.append {a lo m mid b hi : Nat} (h1 : Wf input q a lo m mid) :
    Wf input q m mid b hi → Wf input q a lo b hi := by
  induction h1 with
  | nil h => intro h2; exact h2.weaken h (Nat.le_refl _)
  | cons ha he hl hh b0 b1 k _ _ ihr =>
    intro h2
    exact .cons ha he hl (by have := h2.le; omega) b0 b1 k (ihr h2)

theorem _root_.PestModel.PS.QLe.getElem?_erase {q q' : List QTok} (h : QLe q q') (i : Nat) (hi : i < q.length) :
    (q'[i]?).map QTok.eraseTag = (q[i]?).map QTok.eraseTag := by
  have h1 := h.take_erase
  have h2 : ((q'.take q.length).map QTok.eraseTag)[i]? = (q.map QTok.eraseTag)[i]? := by rw [h1]
  simpa [List.getElem?_take, hi] using h2

theorem getElem?_mid {α} (base : List α) (x : α) (inner rest : List α) (k : Nat) (hk : k < inner.length) :
    (base ++ x :: inner ++ rest)[base.length + 1 + k]? = inner[k]? := by
  rw [List.append_assoc, List.getElem?_append_right (by omega)]
  have e1 : base.length + 1 + k - base.length = k + 1 := by omega
  rw [e1, List.cons_append, List.getElem?_cons_succ, List.getElem?_append_left hk]

theorem getElem?_last {α} (base : List α) (x : α) (inner : List α) (y : α) :
    (base ++ x :: inner ++ [y])[base.length + 1 + inner.length]? = some y := by
  rw [List.append_assoc, List.getElem?_append_right (by omega)]
  have e1 : base.length + 1 + inner.length - base.length = inner.length + 1 := by omega
  rw [e1, List.cons_append, List.getElem?_cons_succ]
  simp

/-- Closing a rule: `[start] ++ inner ++ [end]` is one tree whose children are `inner`. -/
theorem Wf.wrap {base inner : List QTok} {p0 p1 r : Nat}
    (h : Wf input (base ++ QTok.start 0 p0 :: inner) (base.length + 1) p0
      (base.length + 1 + inner.length) p1)
    (hb0 : isBoundary input p0 = true) (hb1 : isBoundary input p1 = true) :
    Wf input (base ++ QTok.start (base.length + 1 + inner.length) p0 :: inner ++
        [QTok.end_ base.length r none p1])
      base.length p0 (base.length + 1 + inner.length + 1) p1 := by
  refine .cons (e := base.length + 1 + inner.length) (p0 := p0) (p1 := p1) (r := r) (tag := none)
    ?_ ?_ (Nat.le_refl _) (Nat.le_refl _) hb0 hb1 ?_ (.nil (Nat.le_refl _))
  · simp
  · exact getElem?_last _ _ _ _
  · refine h.congr_eq fun i h1 h2 => ?_
    obtain ⟨k, rfl⟩ : ∃ k, i = base.length + 1 + k := ⟨i - (base.length + 1), by omega⟩
    have hk : k < inner.length := by omega
    rw [getElem?_mid _ _ _ _ _ hk]
    have := getElem?_mid base (QTok.start 0 p0) inner [] k hk
    rw [List.append_nil] at this
    rw [this]

/-- From the structural predicate to the executable reader and the pair counter. -/
theorem Wf.forest {a lo b hi : Nat} (h : Wf input q a lo b hi) :
    ∃ forest, (∀ fuel, b - a ≤ fuel → forestOf q fuel a b = some forest) ∧
      (∀ fuel, b - a ≤ fuel → countPairs q fuel a b = some forest.length) ∧
      nestedForest input lo hi forest = true := by
  induction h with
  | nil h =>
    refine ⟨[], fun fuel _ => ?_, fun fuel _ => ?_, by simp [nestedForest]⟩
    · cases fuel <;> simp [forestOf]
    · cases fuel <;> simp [countPairs]
  | @cons a lo b hi e p0 p1 r tag ha he hl hh b0 b1 k rr ihk ihr =>
    have i1 := k.idx
    have i2 := rr.idx
    have l1 := k.le
    obtain ⟨kids, fk, -, nk⟩ := ihk
    obtain ⟨rest, fr, cr, nr⟩ := ihr
    refine ⟨.node r p0 p1 tag kids :: rest, fun fuel hf => ?_, fun fuel hf => ?_, ?_⟩
    · cases fuel with
      | zero => omega
      | succ fuel =>
        rw [forestOf, if_neg (by omega), ha]
        simp only []
        rw [if_neg (by omega), he]
        simp only []
        rw [if_neg (by simp), fk fuel (by omega), fr fuel (by omega)]
    · cases fuel with
      | zero => omega
      | succ fuel =>
        rw [countPairs, if_pos (by omega)]
        simp only [pairEnd, ha]
        rw [cr fuel (by omega)]
        simp
    · simp [nestedForest, nestedTree, hl, hh, l1, b0, b1, nk, Tree.stop, nr]

end PestModel.Views
