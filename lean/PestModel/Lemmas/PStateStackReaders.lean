import PestModel.Model.PStateSpec
import PestModel.Lemmas.PStateInv
/-! C03: helper lemmas for the stack readers (`PEEK`, `POP`, `PEEK_ALL`, `POP_ALL`, `PEEK[..]`, `DROP`). -/
namespace PestModel.PS
open PestModel.LineCol PestModel.Stack

theorem posMatchString_false' {input : Str} {pos p : Nat} {str : Str}
    (h : posMatchString input pos str = some (false, p)) : p = pos := by
  unfold posMatchString at h
  split at h
  · simp at h
  · split at h <;> simp at h
    exact h.symm

theorem handleToken_pos (s : PState) (st : Nat) (t : PTok) (b : Bool) : (handleToken s st t b).pos = s.pos := by
  unfold handleToken
  simp only []
  repeat' split
  all_goals rfl

theorem terminal_err_pos (s s' : PState) (r : Option (Bool × Nat)) (tok : Option PTok)
    (hr : ∀ p, r = some (false, p) → p = s.pos) (h : terminal s r tok = .err s') : s'.pos = s.pos := by
  unfold terminal at h
  split at h
  · simp at h
  · rename_i succ pos'
    cases succ with
    | true => simp at h
    | false =>
      have hp := hr pos' rfl
      simp only [Bool.false_eq_true, if_false, Out.err.injEq] at h
      subst h
      cases tok with
      | none => simpa using hp
      | some t => simp only [handleToken_pos]; exact hp

theorem pop_cache {α : Type} (st st' : Stk α) (r : Option α) (h : Stack.pop st = some (st', r)) :
    (r = none ∧ st.cache = [] ∧ st'.cache = []) ∨ (∃ x, r = some x ∧ st.cache = x :: st'.cache) := by
  unfold Stack.pop at h
  split at h
  · rename_i hc
    simp at h
    obtain ⟨rfl, rfl⟩ := h
    exact .inl ⟨rfl, hc, hc⟩
  · rename_i x c hc
    split at h
    · simp at h; obtain ⟨rfl, rfl⟩ := h; exact .inr ⟨x, rfl, hc⟩
    · split at h <;> (simp at h; obtain ⟨rfl, rfl⟩ := h; exact .inr ⟨x, rfl, hc⟩)

theorem matchPopLoop_ok (input : Str) : ∀ (fuel : Nat) (st st' : Stk Str) (pos pos' : Nat),
    st.cache.length < fuel → matchPopLoop input fuel st pos = some (st', true, pos') →
    st'.cache = [] ∧ matchAll input st.cache pos = some (true, pos')
  | 0, _, _, _, _, hf, _ => by omega
  | fuel + 1, st, st', pos, pos', hf, h => by
    unfold matchPopLoop at h
    split at h
    · simp at h
    · rename_i st1 hp
      rcases pop_cache _ _ _ hp with ⟨_, h1, h2⟩ | ⟨x, hx, _⟩
      · simp only [Option.some.injEq, Prod.mk.injEq, true_and] at h
        obtain ⟨rfl, rfl⟩ := h
        exact ⟨h2, by rw [h1]; rfl⟩
      · cases hx
    · rename_i st1 x hp
      rcases pop_cache _ _ _ hp with ⟨hx, _, _⟩ | ⟨y, hy, hc⟩
      · cases hx
      · cases hy
        split at h
        · simp at h
        · rename_i p1 hm
          have ih := matchPopLoop_ok input fuel st1 st' p1 pos' (by rw [hc] at hf; simp at hf; omega) h
          refine ⟨ih.1, ?_⟩
          rw [hc]
          simp only [matchAll, hm]
          exact ih.2
        · simp at h

end PestModel.PS
