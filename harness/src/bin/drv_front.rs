//! C09: the grammar front-end is total. Texts (mutated real grammars, truncations, numeric edge values,
//! escape forms, unbalanced delimiters, non-ASCII) go through `pest_meta::parse_and_optimize` and
//! `pest_generator::docs::consume` in CHILD PROCESSES (bounded time, crash = observation).
//! Oracle: no panic/abort/time-out; every error has a location inside the text and renders.
//! worker mode: `drv_front worker <file-with-hex-lines>` prints one outcome line per text.
use pest::error::InputLocation;
use std::collections::BTreeMap;
use std::io::Write;
use std::process::{Command, Stdio};
use std::time::{Duration, Instant};
use verif_harness::*;

fn outcome(text: &str) -> String {
    let r = catch(|| {
        match pest_meta::parse_and_optimize(text) {
            Ok((_, rules)) => {
                // docs::consume runs on the parsed pairs in the derive path
                if let Ok(pairs) = pest_meta::parser::parse(pest_meta::parser::Rule::grammar_rules, text) { let _ = pest_generator::docs::consume(pairs); }
                format!("rules {}", rules.len())
            }
            Err(errs) => {
                let mut bad = None;
                for e in &errs {
                    let (a, b) = match e.location { InputLocation::Pos(p) => (p, p), InputLocation::Span((a, b)) => (a, b) };
                    if a > b || b > text.len() || !text.is_char_boundary(a) || !text.is_char_boundary(b) { bad = Some(format!("location {}..{} outside the text", a, b)); }
                    let shown = format!("{}", e);
                    if shown.is_empty() { bad = Some("empty rendering".into()); }
                }
                if errs.is_empty() { bad = Some("Err with no errors".into()); }
                match bad { Some(b) => format!("BAD {}", b), None => format!("errors {}", errs.len()) }
            }
        }
    });
    match r { Ok(s) => s, Err(m) => format!("PANIC {}", m.replace('\n', " ").chars().take(120).collect::<String>()) }
}

fn worker(path: &str) {
    let txt = std::fs::read_to_string(path).unwrap();
    let out = std::io::stdout(); let mut out = out.lock();
    for l in txt.lines() { let t = unhexs(l).unwrap_or_default(); writeln!(out, "{}", outcome(&t)).unwrap(); out.flush().unwrap(); }
}

/// run a batch in a child; returns one outcome per text ("TIMEOUT"/"ABORT <signal>" for the text that killed the child)
fn run_batch(texts: &[String], dir: &std::path::Path, limit: Duration) -> Vec<String> {
    let mut results: Vec<String> = vec![]; let mut start = 0usize;
    while start < texts.len() {
        let f = dir.join("batch.hex");
        std::fs::write(&f, texts[start..].iter().map(|t| hexs(t)).collect::<Vec<_>>().join("\n")).unwrap();
        let mut child = Command::new(std::env::current_exe().unwrap()).arg("worker").arg(&f).stdout(Stdio::piped()).stderr(Stdio::null()).spawn().unwrap();
        let t0 = Instant::now();
        let status = loop { match child.try_wait().unwrap() { Some(s) => break Some(s), None => { if t0.elapsed() > limit { let _ = child.kill(); let _ = child.wait(); break None; } std::thread::sleep(Duration::from_millis(5)); } } };
        let mut s = String::new(); use std::io::Read; child.stdout.take().unwrap().read_to_string(&mut s).unwrap();
        let got: Vec<String> = s.lines().map(|x| x.to_string()).collect();
        let n = got.len(); results.extend(got);
        if start + n >= texts.len() { break; }
        // the child died or timed out on text number start+n
        results.push(match status { None => "TIMEOUT".to_string(), Some(st) => format!("ABORT {:?}", st) });
        start += n + 1;
    }
    results.truncate(texts.len());
    results
}

fn mutate(rng: &mut Rng, s: &str) -> String {
    let mut c: Vec<char> = s.chars().collect();
    for _ in 0..rng.range(1, 4) {
        let i = rng.below(c.len().max(1) as u64) as usize;
        match rng.below(8) {
            0 if !c.is_empty() => { c.remove(i.min(c.len() - 1)); }
            1 => c.insert(i.min(c.len()), *rng.pick(&['{', '}', '(', ')', '"', '\'', '~', '|', '*', '+', '?', '!', '&', '@', '$', '_', '=', '.', '[', ']', ',', '\\', '/', '#', '^', ' ', '\n', 'a', '0', '9', '-', 'é', '\u{0}', '💖'])),
            2 if !c.is_empty() => { let j = i.min(c.len() - 1); c[j] = *rng.pick(&['{', '}', '(', ')', '"', '\'', '~', '|', '\\', 'x', 'u', '0']); }
            3 => { let j = rng.below(c.len() as u64 + 1) as usize; c.truncate(j); }
            4 if c.len() > 2 => { let j = i.min(c.len() - 2); c.swap(j, j + 1); }
            5 => { let j = i.min(c.len()); let piece: Vec<char> = rng.pick(&["{4294967296}", "{0}", "{1000}", "{,0}", "{3,1}", "{99999999999999999999}", "PEEK[2147483648..]", "PEEK[-2147483649..1]", "PEEK[..99999999999]", "\"\\u{D800}\"", "'\\u{110000}'..'a'", "\"\\u{0}\"", "\"\\x80\"", "\"\\xFF\"", "\"\\u{10FFFF}\"", "PUSH_LITERAL(\"\\u{DFFF}\")", "^\"\\u{DC00}\"", "'a'..'\\u{D800}'", "#t = a", "#_ = (b)", "{2,}", "{,2}"]).chars().collect(); for (k, ch) in piece.into_iter().enumerate() { c.insert(j + k, ch); } }
            6 => { let j = i.min(c.len()); let piece: Vec<char> = rng.pick(&["PUSH(", "PEEK[", "..", "//", "/*", "*/", "///", "//!", "\\u{", "\\x", "^\"", "WHITESPACE = { \"\" }", "COMMENT = _{ !ANY }", "a = { a }", "b = { b? ~ \"x\" }", "c = { (\"a\"*)* }", "d = { \"\" | \"x\" }", "e = @{ e+ }", "ANY = { \"a\" }", "f = { g }", "( | ", "PUSH( | ", "(| (| ", "^ ", "| "]).chars().collect(); for (k, ch) in piece.into_iter().enumerate() { c.insert(j + k, ch); } }
            _ => { let d = rng.range(1, 40); let j = i.min(c.len()); for k in 0..d { c.insert(j + k, '('); } }
        }
    }
    c.into_iter().collect()
}

fn main() {
    quiet_panics();
    let a: Vec<String> = std::env::args().collect();
    if a.get(1).map(|s| s.as_str()) == Some("worker") { worker(&a[2]); return; }
    let mut out = Out::new();
    let mut stats: BTreeMap<String, u64> = BTreeMap::new();
    // the property is about texts "with repetition counts of bounded size": a time-out or abort on a text that contains a
    // count above 100000 (the unroller builds that many copies) is outside it
    fn big_count(t: &str) -> bool {
        let b: Vec<char> = t.chars().collect(); let mut i = 0;
        while i < b.len() { if b[i] == '{' { let mut j = i + 1; let mut num = String::new(); let mut big = false;
                while j < b.len() && (b[j].is_ascii_digit() || b[j] == ',' || b[j].is_whitespace()) { if b[j].is_ascii_digit() { num.push(b[j]); } else { if num.trim_start_matches('0').len() > 5 { big = true; } num.clear(); } j += 1; }
                if num.trim_start_matches('0').len() > 5 { big = true; }
                if big && j < b.len() && b[j] == '}' { return true; } }
            i += 1; }
        false
    }
    let classify = |o: &str, text: &str| -> String { if o.starts_with("rules") || o.starts_with("errors") { "ok".into() } else if (o.starts_with("TIMEOUT") || o.starts_with("ABORT")) && big_count(text) { "ok".into() } else { format!("FAIL the front-end did not return rules or located errors: {}", o) } };
    match cli() {
        Cmd::Run { ops, out: dir } => {
            std::fs::create_dir_all(&dir).unwrap();
            let texts: Vec<String> = ops.iter().map(|l| l.split_whitespace().nth(1).and_then(unhexs).unwrap_or_default()).collect();
            let res = run_batch(&texts, &dir, Duration::from_secs(20));
            for ((l, r), t) in ops.iter().zip(res).zip(texts.iter()) { let v = classify(&r, t); out.push(l.clone(), r, v); }
            out.write(&dir, "{}");
        }
        Cmd::Gen { thorough, seed, out: dir } => {
            std::fs::create_dir_all(&dir).unwrap();
            let mut rng = Rng::new(seed ^ 0xC09);
            let mut seeds: Vec<String> = vec![];
            for f in ["/repo/meta/src/grammar.pest", "/repo/grammars/src/grammars/json.pest", "/repo/grammars/src/grammars/toml.pest", "/repo/grammars/src/grammars/http.pest", "/repo/grammars/src/grammars/sql.pest", "/repo/derive/tests/grammar.pest", "/repo/derive/tests/reporting.pest", "/repo/derive/tests/lists.pest", "/repo/derive/tests/implicit.pest", "/repo/derive/tests/opt.pest", "/repo/derive/tests/oneormore.pest", "/repo/derive/tests/surround.pest"] { if let Ok(t) = std::fs::read_to_string(f) { if t.len() > 3000 { for part in t.split("\n\n") { if part.trim().len() > 10 { seeds.push(part.trim().to_string()); } } } seeds.push(t); } }
            // long chains of rules that refer twice to the next one: the validator must not search them exponentially
            seeds.push((0..40).map(|i| format!("c{} = {{ c{}? ~ c{}? }}\n", i, i + 1, i + 1)).collect::<String>() + "c40 = { \"x\" }\n");
            seeds.push((0..14).map(|i| format!("d{} = {{ d{} | d{} }}\n", i, i + 1, i + 1)).collect::<String>() + "d14 = { \"x\" }\n");
            // the same with rule modifiers that switch implicit skipping on and off at every level (the search is per rule and mode)
            seeds.push((0..14).map(|i| format!("e{} = @{{ f{}? ~ f{}? }}\nf{} = !{{ e{}? ~ e{}? }}\n", i, i, i, i, i + 1, i + 1)).collect::<String>() + "e14 = @{ \"x\" }\n");
            // the same shape under a repetition / a choice: is_non_failing and is_non_progressing walk the chain
            // (exponentially, before fix fc2c5d7)
            seeds.push("x = { g0* }\n".to_string() + &(0..30).map(|i| format!("g{} = {{ g{} ~ g{} }}\n", i, i + 1, i + 1)).collect::<String>() + "g30 = { \"\" }\n");
            seeds.push("x = { (h0 ~ \"x\")* ~ (h0 | \"y\") }\n".to_string() + &(0..30).map(|i| format!("h{} = {{ h{} ~ h{} | h{} }}\n", i, i + 1, i + 1, i + 1)).collect::<String>() + "h30 = { \"a\"? }\n");
            // grammars on which the validator reports several errors at once, of every kind (the lists are sorted,
            // merged and rendered): left recursion through explicit and implicit paths, repetitions and choices that
            // cannot fail or progress, bad WHITESPACE / COMMENT, undefined / duplicate / reserved names
            for t in ["WHITESPACE = _{ a }\na = !{ EOI ~ \"x\" }\n", "WHITESPACE = _{ a ~ \"y\" }\na = !{ \"x\"{,2} }\nCOMMENT = _{ b }\nb = !{ \"z\"? ~ \"w\" }\n",
                "a = { b ~ \"x\" }\nb = { a | c }\nc = { c ~ \"y\" | d? ~ c }\nd = { \"d\" }\n",
                "a = { (\"\")* ~ (\"x\"?)+ ~ (!\"y\")* ~ (b)* }\nb = { \"\" | \"c\" | \"d\"* | \"e\" }\n",
                "WHITESPACE = { \"\" }\nCOMMENT = { !\"x\" }\na = { \"a\" ~ \"b\" }\n",
                "a = { undefined1 ~ undefined2 }\na = { \"x\" }\nfn = { \"y\" }\nPUSH = { \"z\" }\nANY = { \"w\" }\nlet = { a }\n",
                "WHITESPACE = _{ \" \" | n }\nn = !{ atp | p }\natp = @{ p ~ \"k\" }\np = { atq | q }\natq = @{ q ~ \"k\" }\nq = { \"x\"? ~ \"z\" }\n",
                "a = ${ b ~ (\"x\" | c) }\nb = @{ a? ~ \"y\" }\nc = !{ (a | b)* }\nWHITESPACE = _{ c }\n"] { seeds.push(t.to_string()); }
            // repetition counts at the edges, in positions where they are read (not mutated further: a digit less gives a count
            // of hundreds of millions, outside "counts of bounded size")
            let mut fixed: Vec<String> = vec![];
            for t in ["a = { \"x\"{18446744073709551616} }", "a = { \"x\"{,99999999999999999999} }", "a = { \"x\"{1,123456789012345678901234567890} }", "a = { \"x\"{4294967296} }",
                "a = { \"x\"{3,2} }", "a = { \"x\"{1,} ~ (\"y\" | \"z\"){10,1} }", "a = { \"x\"{0} }", "a = { \"x\"{0,0} }", "a = { (\"x\"{2}){,3}{2,} }", "a = { PEEK[4294967296..] ~ PEEK[..-4294967296] }"] { fixed.push(t.to_string()); }
            seeds.push("a = { ( | \"b\" | c) ~ PUSH( | \"d\") ~ ^ \"e\" ~ (| (| \"f\")) }\nc = { \"c\" }\n".to_string());
            let n = if thorough { 200000 } else { 12000 };
            let mut texts: Vec<String> = seeds[seeds.len() - 14..].to_vec(); texts.extend(fixed); texts.extend(vec!["".to_string(), " ".into(), "a".into(), "a = ".into(), "a = {".into(), "a = { }".into(), "a = { \"".into(), "\u{feff}a = { \"b\" }".into(), "a = { 'a'..'b' }".into(), "//!".into(), "///".into(), "/*".into()]);
            while texts.len() < n { let base = rng.pick(&seeds).clone(); let base = if base.len() > 1500 && rng.chance(3, 4) { let cs: Vec<char> = base.chars().collect(); let st = rng.below(cs.len() as u64) as usize; cs[st..(st + 400).min(cs.len())].iter().collect() } else { base }; texts.push(mutate(&mut rng, &base)); }
            for chunk in texts.chunks(1000) {
                let res = run_batch(chunk, &dir, Duration::from_secs(30));
                for (t, r) in chunk.iter().zip(res) { *stats.entry(r.split(' ').next().unwrap().to_string()).or_default() += 1; let v = classify(&r, t); if v == "ok" && !(r.starts_with("rules") || r.starts_with("errors")) { *stats.entry("out_of_scope_large_count".into()).or_default() += 1; } out.push(format!("F {}", hexs(t)), r, v); }
            }
            let samples: Vec<String> = texts.iter().step_by((texts.len() / 5).max(1)).take(5).map(|s| s.chars().take(120).collect::<String>()).collect();
            let stats_s = format!("{{\"evaluations\":{},\"distinct_nontrivial\":{},\"seed_grammars\":{},\"outcomes\":{:?},\"samples\":{:?}}}", texts.len(), stats.get("errors").cloned().unwrap_or(0) + stats.get("rules").cloned().unwrap_or(0), seeds.len(), stats, samples);
            out.write(&dir, &stats_s);
        }
    }
}
