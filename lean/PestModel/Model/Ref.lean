import PestModel.Model.Grammar
import PestModel.Model.Views
/-
L6 — the reference semantics of the grammar language: a purely functional big-step reading of the
crate documentation (`derive/src/lib.rs`), see DESIGN.md Appendix A.  It is deliberately not
organised like `parser_state.rs`: no token queue, no checkpoints, no flags to restore. A failed
expression returns nothing, so "an expression changes the stack only if it matches" holds by
construction.

Bounded repetitions (and `e+` without `grammar-extras`) *mean* their unrolled forms (DESIGN §10
I1): `denote` evaluates them by unrolling on the fly.
-/
namespace PestModel.Ref
open PestModel.G
open PestModel.LineCol (Str bLen cLen splitAt?)
open PestModel.Views (Tree)
open PestModel.PS (Atomicity CharSet restAt asciiLower eqIgnoreAsciiCase normalizeIndex)

/-- position and stack (top = head). -/
structure St where
  pos : Nat
  stack : List Str
  deriving Repr, DecidableEq

inductive Res where
  | ok (s : St) (forest : List Tree)
  | fail
  | stuck          -- `PEEK`/`POP` on an empty stack: documented panic
  | fuel
  deriving Repr

structure Ctx where
  rules : List Rule
  input : Str
  extras : Bool
  uni : String → Option CharSet

def Ctx.rule? (c : Ctx) (name : String) : Option (Nat × Rule) :=
  let rec go : List Rule → Nat → Option (Nat × Rule)
    | [], _ => none
    | r :: rs, i => if r.name = name then some (i, r) else go rs (i + 1)
  go c.rules 0

def Ctx.has (c : Ctx) (name : String) : Bool := (c.rule? name).isSome

/-- match the strings one after another. -/
def matchStrs (input : Str) : List Str → Nat → Option Nat
  | [], pos => some pos
  | x :: xs, pos =>
    match restAt input pos with
    | some rest => if x.isPrefixOf rest then matchStrs input xs (pos + bLen x) else none
    | none => none

def oneChar (c : Ctx) (s : St) (p : Char → Bool) : Res :=
  match restAt c.input s.pos with
  | some (ch :: _) => if p ch then .ok { s with pos := s.pos + cLen ch } [] else .fail
  | _ => .fail

def lit (c : Ctx) (s : St) (str : Str) : Res :=
  match restAt c.input s.pos with
  | some rest => if str.isPrefixOf rest then .ok { s with pos := s.pos + bLen str } [] else .fail
  | none => .fail

def setLastTag (f : List Tree) (tag : Str) : List Tree :=
  match f.getLast? with
  | some (.node r a b _ ks) => f.dropLast ++ [.node r a b (some tag) ks]
  | none => f

/-- first boundary strictly before the end where one of the strings matches, else the end. -/
def search (strs : List Str) : Str → Nat → Nat
  | [], off => off
  | ch :: cs, off => if strs.any (·.isPrefixOf (ch :: cs)) then off else search strs cs (off + cLen ch)

def emitsFor (ty : RuleType) (m : Atomicity) (la : Bool) : Bool :=
  match ty with
  | .normal | .atomic => !la && m ≠ .atomic
  | .silent => false
  | .compound | .nonAtomic => !la

def bodyMode (name : String) (ty : RuleType) (m : Atomicity) : Atomicity :=
  if name = "WHITESPACE" ∨ name = "COMMENT" then (if ty = .compound then .compound else .atomic)
  else match ty with
    | .normal | .silent => m
    | .atomic => .atomic
    | .compound => .compound
    | .nonAtomic => .nonAtomic

mutual
  /-- `denote c fuel m la e σ`. `m` = atomicity mode, `la` = inside a predicate. -/
  def denote (c : Ctx) : Nat → Atomicity → Bool → Expr → St → Res
    | 0, _, _, _, _ => .fuel
    | fuel + 1, m, la, e, s =>
      match e with
      | .str str => lit c s str
      | .insens str =>
        match restAt c.input s.pos with
        | some rest =>
          match splitAt? rest (bLen str) with
          | some (pre, _) => if eqIgnoreAsciiCase pre str then .ok { s with pos := s.pos + bLen str } [] else .fail
          | none => .fail
        | none => .fail
      | .range a b => oneChar c s (fun ch => a ≤ ch ∧ ch ≤ b)
      | .ident n => call c fuel m la n s
      | .peekSlice a b =>
        let len := s.stack.length
        match normalizeIndex a len, (match b with | some e => normalizeIndex e len | none => some len) with
        | some i, some j =>
          if j ≤ i then .ok s [] else
          match matchStrs c.input ((s.stack.reverse.drop i).take (j - i)) s.pos with
          | some p => .ok { s with pos := p } []
          | none => .fail
        | _, _ => .fail
      | .posPred e =>
        match denote c fuel m true e s with
        | .ok _ _ => .ok s []
        | r => r
      | .negPred e =>
        match denote c fuel m true e s with
        | .ok _ _ => .fail
        | .fail => .ok s []
        | r => r
      | .seq a b =>
        match denote c fuel m la a s with
        | .ok s1 f1 =>
          match skipWs c fuel m la s1 with
          | .ok s2 f2 =>
            match denote c fuel m la b s2 with
            | .ok s3 f3 => .ok s3 (f1 ++ f2 ++ f3)
            | r => r
          | r => r
        | r => r
      | .choice a b =>
        match denote c fuel m la a s with
        | .fail => denote c fuel m la b s
        | r => r
      | .opt e =>
        match denote c fuel m la e s with
        | .fail => .ok s []
        | r => r
      | .rep e =>
        match denote c fuel m la e s with
        | .ok s1 f1 => repLoop c fuel m la e s1 f1
        | .fail => .ok s []
        | r => r
      | .repOnce e =>
        if c.extras then
          match denote c fuel m la e s with
          | .ok s1 f1 => repLoop c fuel m la e s1 f1
          | r => r
        else denote c fuel m la (.seq e (.rep e)) s      -- without `grammar-extras`, `e+` means `e ~ e*` (I1)
      | .skip strs =>
        match restAt c.input s.pos with
        | some rest => .ok { s with pos := search strs rest s.pos } []
        | none => .fail
      | .push e =>
        match denote c fuel m la e s with
        | .ok s1 f1 =>
          match PestModel.LineCol.slice? c.input s.pos s1.pos with
          | some str => .ok { s1 with stack := str :: s1.stack } f1
          | none => .stuck
        | r => r
      | .pushLiteral str => .ok { s with stack := str :: s.stack } []
      | .nodeTag e t =>
        match denote c fuel m la e s with
        | .ok s1 f1 => .ok s1 (if la then f1 else setLastTag f1 t)
        | r => r
      -- bounded repetitions mean their unrolled forms (I1); an empty unrolling (`e{0}`) has no
      -- meaning (the real unroller panics on it)
      | .repExact e n =>
        match seqOfList (List.replicate n e) with
        | some u => denote c fuel m la u s
        | none => .stuck
      | .repMin e n =>
        match seqOfList (List.replicate n e ++ [.rep e]) with
        | some u => denote c fuel m la u s
        | none => .stuck
      | .repMax e n =>
        match seqOfList (List.replicate n (.opt e)) with
        | some u => denote c fuel m la u s
        | none => .stuck
      | .repMinMax e lo hi =>
        match seqOfList ((List.range hi).map fun i => if i + 1 ≤ lo then e else .opt e) with
        | some u => denote c fuel m la u s
        | none => .stuck
  /-- `(skip e)*` after a first `e`: each unit is all-or-nothing. -/
  def repLoop (c : Ctx) : Nat → Atomicity → Bool → Expr → St → List Tree → Res
    | 0, _, _, _, _, _ => .fuel
    | fuel + 1, m, la, e, s, acc =>
      match skipWs c fuel m la s with
      | .ok s1 f1 =>
        match denote c fuel m la e s1 with
        | .ok s2 f2 => repLoop c fuel m la e s2 (acc ++ f1 ++ f2)
        | .fail => .ok s acc
        | r => r
      | .fail => .ok s acc
      | r => r
  /-- implicit `WHITESPACE* ~ (COMMENT ~ WHITESPACE*)*` outside atomic rules. -/
  def skipWs (c : Ctx) : Nat → Atomicity → Bool → St → Res
    | 0, _, _, _ => .fuel
    | fuel + 1, m, la, s =>
      if m ≠ .nonAtomic then .ok s [] else
      match c.has "WHITESPACE", c.has "COMMENT" with
      | false, false => .ok s []
      | true, false => star c fuel la "WHITESPACE" s []
      | false, true => star c fuel la "COMMENT" s []
      | true, true =>
        match star c fuel la "WHITESPACE" s [] with
        | .ok s1 f1 => commentLoop c fuel la s1 f1
        | r => r
  /-- `name*` (rule calls in non-atomic context). -/
  def star (c : Ctx) : Nat → Bool → String → St → List Tree → Res
    | 0, _, _, _, _ => .fuel
    | fuel + 1, la, name, s, acc =>
      match call c fuel .nonAtomic la name s with
      | .ok s1 f1 => star c fuel la name s1 (acc ++ f1)
      | .fail => .ok s acc
      | r => r
  /-- `(COMMENT ~ WHITESPACE*)*`. -/
  def commentLoop (c : Ctx) : Nat → Bool → St → List Tree → Res
    | 0, _, _, _ => .fuel
    | fuel + 1, la, s, acc =>
      match call c fuel .nonAtomic la "COMMENT" s with
      | .ok s1 f1 =>
        match star c fuel la "WHITESPACE" s1 [] with
        | .ok s2 f2 => commentLoop c fuel la s2 (acc ++ f1 ++ f2)
        | r => r
      | .fail => .ok s acc
      | r => r
  /-- a rule call (the grammar's rule if defined, else the built-in). -/
  def call (c : Ctx) : Nat → Atomicity → Bool → String → St → Res
    | 0, _, _, _, _ => .fuel
    | fuel + 1, m, la, name, s =>
      match c.rule? name with
      | some (id, r) =>
        match denote c fuel (bodyMode r.name r.ty m) la r.expr s with
        | .ok s1 f1 =>
          if emitsFor r.ty m la then .ok s1 [.node id s.pos s1.pos none f1] else .ok s1 f1
        | res => res
      | none =>
        let rng := fun (a b : Char) => oneChar c s (fun ch => a ≤ ch ∧ ch ≤ b)
        match name with
        | "ANY" => oneChar c s (fun _ => true)
        | "SOI" => if s.pos = 0 then .ok s [] else .fail
        | "EOI" =>
          if s.pos = bLen c.input then
            .ok s (if emitsFor .normal m la then [.node c.rules.length s.pos s.pos none []] else [])
          else .fail
        | "PEEK" =>
          match s.stack with
          | [] => .stuck
          | top :: _ => lit c s top
        | "POP" =>
          match s.stack with
          | [] => .stuck
          | top :: rest =>
            match lit c s top with
            | .ok s1 f => .ok { s1 with stack := rest } f
            | r => r
        | "PEEK_ALL" =>
          match matchStrs c.input s.stack s.pos with
          | some p => .ok { s with pos := p } []
          | none => .fail
        | "POP_ALL" =>
          match matchStrs c.input s.stack s.pos with
          | some p => .ok { pos := p, stack := [] } []
          | none => .fail
        | "DROP" =>
          match s.stack with
          | [] => .fail
          | _ :: rest => .ok { s with stack := rest } []
        | "ASCII_DIGIT" => rng '0' '9'
        | "ASCII_NONZERO_DIGIT" => rng '1' '9'
        | "ASCII_BIN_DIGIT" => rng '0' '1'
        | "ASCII_OCT_DIGIT" => rng '0' '7'
        | "ASCII_HEX_DIGIT" => oneChar c s (fun ch => ('0' ≤ ch ∧ ch ≤ '9') ∨ ('a' ≤ ch ∧ ch ≤ 'f') ∨ ('A' ≤ ch ∧ ch ≤ 'F'))
        | "ASCII_ALPHA_LOWER" => rng 'a' 'z'
        | "ASCII_ALPHA_UPPER" => rng 'A' 'Z'
        | "ASCII_ALPHA" => oneChar c s (fun ch => ('a' ≤ ch ∧ ch ≤ 'z') ∨ ('A' ≤ ch ∧ ch ≤ 'Z'))
        | "ASCII_ALPHANUMERIC" => oneChar c s (fun ch => ('a' ≤ ch ∧ ch ≤ 'z') ∨ ('A' ≤ ch ∧ ch ≤ 'Z') ∨ ('0' ≤ ch ∧ ch ≤ '9'))
        | "ASCII" => rng '\x00' '\x7f'
        | "NEWLINE" =>
          match lit c s ['\n'] with
          | .fail => (match lit c s ['\r', '\n'] with | .fail => lit c s ['\r'] | r => r)
          | r => r
        | _ =>
          match c.uni name with
          | some cs => oneChar c s cs.mem
          | none => .stuck
end

/-- An optimized expression read back as a core expression: `RestoreOnErr e` means `e` in the
reference (a failed expression never leaves a trace there). -/
def ofOptimized : OExpr → Expr
  | .str s => .str s
  | .insens s => .insens s
  | .range a b => .range a b
  | .ident n => .ident n
  | .peekSlice a b => .peekSlice a b
  | .posPred e => .posPred (ofOptimized e)
  | .negPred e => .negPred (ofOptimized e)
  | .seq a b => .seq (ofOptimized a) (ofOptimized b)
  | .choice a b => .choice (ofOptimized a) (ofOptimized b)
  | .opt e => .opt (ofOptimized e)
  | .rep e => .rep (ofOptimized e)
  | .repOnce e => .repOnce (ofOptimized e)
  | .skip ss => .skip ss
  | .push e => .push (ofOptimized e)
  | .pushLiteral s => .pushLiteral s
  | .nodeTag e t => .nodeTag (ofOptimized e) t
  | .restoreOnErr e => ofOptimized e

def ofOptimizedRules (rs : List ORule) : List Rule := rs.map fun r => ⟨r.name, r.ty, ofOptimized r.expr⟩

/-- `parse(g, r, input)`: call rule `r` in the non-atomic context at position 0 with an empty stack. -/
def meaning (rules : List Rule) (extras : Bool) (uni : String → Option CharSet) (fuel : Nat)
    (rule : String) (input : Str) : Res :=
  call { rules, input, extras, uni } fuel .nonAtomic false rule ⟨0, []⟩

end PestModel.Ref
