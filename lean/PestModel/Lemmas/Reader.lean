import PestModel.Model.Reader
import PestModel.Thm.C13
import PestModel.Lemmas.ReaderEsc
import PestModel.Lemmas.ReaderNum
import PestModel.Lemmas.ReaderPratt
/-! Helper lemmas for C07 (`PestModel/Thm/C07.lean`):
* `ReaderEsc`   — `unescape` against `spell`/`spellAll` (one `unescapeGo` step per spelling form);
* `ReaderNum`   — `natDigits` against the decimal parsers (via core `Nat.ofDigitChars`);
* `ReaderPratt` — the shunting-yard machine on the tokens of a canonical skeleton. -/
namespace PestModel.Reader

end PestModel.Reader
