import PestModel.Lemmas.ViewsFlat
import PestModel.Lemmas.Views
/-!
C04: `find_tagged` / `find_first_tagged` against the tree (pre-order of the pairs whose tag is the one asked for).
-/
namespace PestModel.Views
open PestModel.PS (QTok)
open PestModel.LineCol (Str)

variable {q : List QTok}

/-- pointwise: the pair at the i-th index shows the i-th tree. -/
def IdxMatch (q : List QTok) : List Nat → List Tree → Prop
  | [], [] => True
  | i :: is, t :: ts => PairObs q i t ∧ IdxMatch q is ts
  | _, _ => False

theorem FlatSeg.length_le : ∀ {L : List Tree} {s e : Nat}, FlatSeg q s e L → L.length ≤ e - s := by
  intro L
  induction L with
  | nil => intro s e _; simp
  | cons t L ih =>
    intro s e h
    obtain ⟨_, _, m, hm, _, hr⟩ := h
    have := ih hr
    have := hr.le
    simp; omega

theorem flatAll_of_seg : ∀ (L : List Tree) (s e fuel : Nat), FlatSeg q s e L → L.length ≤ fuel →
    ∃ is, flatAll q fuel ⟨s, e⟩ = some is ∧ IdxMatch q is L := by
  intro L
  induction L with
  | nil =>
    intro s e fuel h _
    have hse : s = e := h
    cases fuel with
    | zero => exact ⟨[], rfl, trivial⟩
    | succ f => exact ⟨[], by simp [flatAll, Flat.next, hse], trivial⟩
  | cons t L ih =>
    intro s e fuel h hf
    cases fuel with
    | zero => simp at hf
    | succ f =>
      have hlt := h.lt
      obtain ⟨ho, hs, m, hm, hg, hr⟩ := h
      have hme := hr.le
      have hadv : flatAdvance q e (e - s) (s + 1) = some m :=
        flatAdvance_gap _ _ _ (by omega) hme (fun j h1 h2 => hg j (by omega) h2) hr.head (by omega)
      obtain ⟨is, his, hmatch⟩ := ih m e f hr (by simpa using hf)
      have hge : ¬ s ≥ e := by omega
      exact ⟨s :: is, by simp [flatAll, Flat.next, hge, hadv, his], ho, hmatch⟩

theorem tagFilter_match (tag : Str) : ∀ (is : List Nat) (L : List Tree), IdxMatch q is L →
    ∃ tags, is.mapM (fun i => (pairTag q i).map fun t => (i, t)) = some tags ∧
      IdxMatch q ((tags.filter fun p => p.2 = some tag).map (·.1)) (L.filter fun t => t.tag = some tag)
  | [], [], _ => ⟨[], rfl, trivial⟩
  | [], _ :: _, h => h.elim
  | _ :: _, [], h => h.elim
  | i :: is, t :: L, h => by
    obtain ⟨ho, hr⟩ := h
    obtain ⟨tags, ht, hm⟩ := tagFilter_match tag is L hr
    have hti : pairTag q i = some t.tag := ho.2.2.1
    refine ⟨(i, t.tag) :: tags, by simp [List.mapM_cons, hti, ht], ?_⟩
    by_cases hc : t.tag = some tag
    · simp only [List.filter_cons, hc, decide_true, if_true, List.map_cons]
      exact ⟨ho, hm⟩
    · simp only [List.filter_cons, hc, decide_false, Bool.false_eq_true, if_false]
      exact hm

/-- **`find_tagged(tag)` yields exactly the pairs of the tree whose tag is `tag`, in pre-order** (the order of `flatten()`). -/
theorem findTagged_spec (a b : Nat) (trees : List Tree) (v : Pairs) (tag : Str) (h : Encodes q a b trees)
    (hs : v.start = a) (he : v.stop = b) :
    ∃ is, v.findTagged q tag = some is ∧ IdxMatch q is ((preorderList trees).filter fun t => t.tag = some tag) := by
  have hseg := flat_of_layout (encodes_iff.1 h)
  obtain ⟨all, hall, hmatch⟩ := flatAll_of_seg _ a b (b - a + 1) hseg (by have := FlatSeg.length_le hseg; omega)
  obtain ⟨tags, ht, hm⟩ := tagFilter_match tag all _ hmatch
  refine ⟨_, ?_, hm⟩
  unfold Pairs.findTagged
  rw [hs, he, hall]
  simp [ht]

/-- **`find_first_tagged(tag)` is the first of them** — the OUTERMOST pair when a tagged pair has an equally tagged
descendant. -/
theorem findFirstTagged_spec (a b : Nat) (trees : List Tree) (v : Pairs) (tag : Str) (h : Encodes q a b trees)
    (hs : v.start = a) (he : v.stop = b) :
    ∃ r, v.findFirstTagged q tag = some r ∧
      match r, ((preorderList trees).filter fun t => t.tag = some tag).head? with
      | some i, some t => PairObs q i t
      | none, none => True
      | _, _ => False := by
  obtain ⟨is, hf, hm⟩ := findTagged_spec a b trees v tag h hs he
  refine ⟨is.head?, by simp [Pairs.findFirstTagged, hf], ?_⟩
  generalize ((preorderList trees).filter fun t => t.tag = some tag) = L at hm
  cases is with
  | nil => cases L with
    | nil => trivial
    | cons t L => exact hm.elim
  | cons i is => cases L with
    | nil => exact hm.elim
    | cons t L => exact hm.1
end PestModel.Views
