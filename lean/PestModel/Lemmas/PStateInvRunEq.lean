import PestModel.Lemmas.PStateInvRel
/-! One-step equations of `run` for the larger combinators, with the pieces named. All by `rfl`. -/
namespace PestModel.PS
open PestModel.LineCol PestModel.Stack

theorem run_zero (cfg : Cfg) (p : Prog) (s : PState) : run cfg 0 p s = .fuel := by
  rw [run]

/-! ### `rule` -/

def ruleCond (s : PState) : Prop := s.lookahead = .none ∧ s.atomicity ≠ .atomic

instance (s : PState) : Decidable (ruleCond s) := by unfold ruleCond; infer_instance

def rulePre (s : PState) : PState :=
  if s.lookahead = .none ∧ s.atomicity ≠ .atomic
    then { s with queue := s.queue ++ [.start 0 s.pos] } else s

def rulePai (s : PState) : Nat × Nat :=
  if s.pos = s.attemptPos then (s.posAtt.length, s.negAtt.length) else (0, 0)

def ruleTrack (s1 : PState) (r : Nat) (ns : PState) : PState :=
  track ns r s1.pos (rulePai s1).1 (rulePai s1).2 (attemptsAt (rulePre s1) s1.pos)

def ruleEmit (s1 : PState) (r : Nat) (ns : PState) : Option PState :=
  if ns.lookahead = .none ∧ ns.atomicity ≠ .atomic then
    match ns.queue[s1.queue.length]? with
    | some (.start _ p0) =>
      some { ns with queue := setAt ns.queue s1.queue.length (.start ns.queue.length p0) ++
                                [.end_ s1.queue.length r none ns.pos] }
    | _ => none
  else some ns

def ruleAdd (s1 : PState) (r : Nat) (ns : PState) : Option PState :=
  tryAddRuleToStack ns r (rulePre s1).pa.callStacks.length (rulePre s1).pa.maxPos

def ruleTrackIf (s1 : PState) (r : Nat) (ns : PState) : PState :=
  if ns.lookahead = .negative then ruleTrack s1 r ns else ns

def ruleFinish (s1 : PState) (r : Nat) (ns : PState) : Out :=
  if ns.pa.enabled then
    match ruleAdd s1 r ns with
    | some ns => .ok ns
    | none => .panic
  else .ok ns

def ruleOkPost (s1 : PState) (r : Nat) (ns : PState) : Out :=
  match ruleEmit s1 r (ruleTrackIf s1 r ns) with
  | none => .panic
  | some ns => ruleFinish s1 r ns

def ruleErrAdd (s1 : PState) (r : Nat) (ns : PState) : Option PState :=
  if ns.lookahead ≠ .negative then
    if (ruleTrack s1 r ns).pa.enabled then ruleAdd s1 r (ruleTrack s1 r ns) else some (ruleTrack s1 r ns)
  else some ns

def ruleErrTrunc (s1 : PState) (ns : PState) : PState :=
  if ns.lookahead = .none ∧ ns.atomicity ≠ .atomic
    then { ns with queue := ns.queue.take s1.queue.length } else ns

def ruleErrPost (s1 : PState) (r : Nat) (ns : PState) : Out :=
  match ruleErrAdd s1 r ns with
  | none => .panic
  | some ns => .err (ruleErrTrunc s1 ns)

theorem run_rule (cfg : Cfg) (fuel : Nat) (r : Nat) (p : Prog) (s : PState) :
    run cfg (fuel+1) (.rule r p) s =
      match incCall s with
      | none => .err s
      | some s1 =>
        match run cfg fuel p (rulePre s1) with
        | .ok ns => ruleOkPost s1 r ns
        | .err ns => ruleErrPost s1 r ns
        | o => o := by
  rw [run]
  cases incCall s with
  | none => rfl
  | some s1 =>
    show (match run cfg fuel p (rulePre s1) with | .ok ns => _ | .err ns => _ | o => o) =
      (match run cfg fuel p (rulePre s1) with
        | .ok ns => ruleOkPost s1 r ns | .err ns => ruleErrPost s1 r ns | o => o)
    cases run cfg fuel p (rulePre s1) <;> rfl

/-! ### `lookahead` -/

def laMode (positive : Bool) (initialLa : Lookahead) : Lookahead :=
  if positive then
    (match initialLa with | .negative => Lookahead.negative | _ => Lookahead.positive)
  else
    (match initialLa with | .negative => Lookahead.positive | _ => Lookahead.negative)

theorem laMode_ne_none (positive : Bool) (la : Lookahead) : laMode positive la ≠ .none := by
  cases positive <;> cases la <;> simp [laMode]

def laPost (s1 ns : PState) : Option PState :=
  restoreStack { ns with pos := s1.pos, lookahead := s1.lookahead }

theorem run_lookahead (cfg : Cfg) (fuel : Nat) (positive : Bool) (p : Prog) (s : PState) :
    run cfg (fuel+1) (.lookahead positive p) s =
      match incCall s with
      | none => .err s
      | some s1 =>
        match run cfg fuel p (checkpoint { s1 with lookahead := laMode positive s1.lookahead }) with
        | .ok ns =>
          match laPost s1 ns with
          | some ns => if positive then .ok ns else .err ns
          | none => .panic
        | .err ns =>
          match laPost s1 ns with
          | some ns => if positive then .err ns else .ok ns
          | none => .panic
        | o => o := by
  rw [run]
  cases incCall s with
  | none => rfl
  | some s1 =>
    show (match run cfg fuel p (checkpoint { s1 with lookahead := laMode positive s1.lookahead }) with
        | .ok ns => _ | .err ns => _ | o => o) =
      (match run cfg fuel p (checkpoint { s1 with lookahead := laMode positive s1.lookahead }) with
        | .ok ns =>
          match laPost s1 ns with
          | some ns => if positive then .ok ns else .err ns
          | none => .panic
        | .err ns =>
          match laPost s1 ns with
          | some ns => if positive then .err ns else .ok ns
          | none => .panic
        | o => o)
    cases run cfg fuel p (checkpoint { s1 with lookahead := laMode positive s1.lookahead }) <;> rfl

/-! ### `atomic` -/

def atomPre (a : Atomicity) (s1 : PState) : PState :=
  if s1.atomicity ≠ a then { s1 with atomicity := a } else s1

def atomPost (a : Atomicity) (s1 ns : PState) : PState :=
  if s1.atomicity ≠ a then { ns with atomicity := s1.atomicity } else ns

theorem run_atomic (cfg : Cfg) (fuel : Nat) (a : Atomicity) (p : Prog) (s : PState) :
    run cfg (fuel+1) (.atomic a p) s =
      match incCall s with
      | none => .err s
      | some s1 =>
        match run cfg fuel p (atomPre a s1) with
        | .ok ns => .ok (atomPost a s1 ns)
        | .err ns => .err (atomPost a s1 ns)
        | o => o := by
  rw [run]
  cases incCall s with
  | none => rfl
  | some s1 =>
    show (match run cfg fuel p (atomPre a s1) with | .ok ns => _ | .err ns => _ | o => o) =
      (match run cfg fuel p (atomPre a s1) with
        | .ok ns => .ok (atomPost a s1 ns) | .err ns => .err (atomPost a s1 ns) | o => o)
    cases run cfg fuel p (atomPre a s1) <;> rfl

/-! ### `sequence` -/

def seqErrState (s1 ns : PState) : PState :=
  { ns with pos := s1.pos, queue := setLastTag (ns.queue.take s1.queue.length) (lastTag s1.queue) }

theorem run_sequence (cfg : Cfg) (fuel : Nat) (p : Prog) (s : PState) :
    run cfg (fuel+1) (.sequence p) s =
      match incCall s with
      | none => .err s
      | some s1 =>
        match run cfg fuel p (checkpoint s1) with
        | .ok ns => (match checkpointOk ns with | some ns => .ok ns | none => .panic)
        | .err ns => (match restoreStack (seqErrState s1 ns) with | some ns => .err ns | none => .panic)
        | o => o := by
  rw [run]
  cases incCall s with
  | none => rfl
  | some s1 =>
    show (match run cfg fuel p (checkpoint s1) with | .ok ns => _ | .err ns => _ | o => o) =
      (match run cfg fuel p (checkpoint s1) with
        | .ok ns => (match checkpointOk ns with | some ns => .ok ns | none => .panic)
        | .err ns => (match restoreStack (seqErrState s1 ns) with | some ns => .err ns | none => .panic)
        | o => o)
    cases run cfg fuel p (checkpoint s1) <;> rfl

theorem run_restoreOnErr (cfg : Cfg) (fuel : Nat) (p : Prog) (s : PState) :
    run cfg (fuel+1) (.restoreOnErr p) s =
      match run cfg fuel p (checkpoint s) with
      | .ok ns => (match checkpointOk ns with | some ns => .ok ns | none => .panic)
      | .err ns => (match restoreStack ns with | some ns => .err ns | none => .panic)
      | o => o := by
  rw [run]
  cases run cfg fuel p (checkpoint s) <;> rfl

/-! ### `stack_push` -/

def pushSpan (s1 ns : PState) : Out :=
  match slice? ns.input s1.pos ns.pos with
  | some str => .ok { ns with stack := { ns.stack with cache := str :: ns.stack.cache } }
  | none => .panic

theorem run_stackPush (cfg : Cfg) (fuel : Nat) (p : Prog) (s : PState) :
    run cfg (fuel+1) (.stackPush p) s =
      match incCall s with
      | none => .err s
      | some s1 =>
        match run cfg fuel p s1 with
        | .ok ns => pushSpan s1 ns
        | o => o := by
  rw [run]
  cases incCall s with
  | none => rfl
  | some s1 =>
    show (match run cfg fuel p s1 with | .ok ns => _ | o => o) =
      (match run cfg fuel p s1 with | .ok ns => pushSpan s1 ns | o => o)
    cases run cfg fuel p s1 <;> rfl

theorem run_optional (cfg : Cfg) (fuel : Nat) (p : Prog) (s : PState) :
    run cfg (fuel+1) (.optional p) s =
      match incCall s with
      | none => .err s
      | some s1 =>
        match run cfg fuel p s1 with
        | .ok s' => .ok s'
        | .err s' => .ok s'
        | o => o := by
  rw [run]
  cases incCall s with
  | none => rfl
  | some s1 =>
    show (match run cfg fuel p s1 with | .ok ns => _ | .err ns => _ | o => o) =
      (match run cfg fuel p s1 with | .ok s' => .ok s' | .err s' => .ok s' | o => o)
    cases run cfg fuel p s1 <;> rfl

theorem run_repeat (cfg : Cfg) (fuel : Nat) (p : Prog) (s : PState) :
    run cfg (fuel+1) (.repeat_ p) s =
      match incCall s with
      | none => .err s
      | some s1 => run cfg fuel (.repLoop p) s1 := by
  rw [run]
  cases incCall s <;> rfl

theorem run_repLoop (cfg : Cfg) (fuel : Nat) (p : Prog) (s : PState) :
    run cfg (fuel+1) (.repLoop p) s =
      match run cfg fuel p s with
      | .ok s' => run cfg fuel (.repLoop p) s'
      | .err s' => .ok s'
      | o => o := by
  rw [run]
  cases run cfg fuel p s <;> rfl

theorem run_andThen (cfg : Cfg) (fuel : Nat) (p q : Prog) (s : PState) :
    run cfg (fuel+1) (.andThen p q) s =
      match run cfg fuel p s with
      | .ok s' => run cfg fuel q s'
      | o => o := by
  rw [run]
  cases run cfg fuel p s <;> rfl

theorem run_orElse (cfg : Cfg) (fuel : Nat) (p q : Prog) (s : PState) :
    run cfg (fuel+1) (.orElse p q) s =
      match run cfg fuel p s with
      | .err s' => run cfg fuel q s'
      | o => o := by
  rw [run]
  cases run cfg fuel p s <;> rfl

theorem run_call (cfg : Cfg) (fuel : Nat) (i : Nat) (s : PState) :
    run cfg (fuel+1) (.call i) s =
      match cfg.env[i]? with
      | some p => run cfg fuel p s
      | none => .panic := by
  rw [run]
  cases cfg.env[i]? <;> rfl

end PestModel.PS
