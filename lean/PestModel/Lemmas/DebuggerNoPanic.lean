import PestModel.Lemmas.DebuggerTerm
import PestModel.Lemmas.DebuggerCtrl
namespace PestModel.Dbg

def okPc : PPc → Bool
  | .exited true => false
  | .abortCheck _ .panic => false
  | _ => true

/-- aborting the parse at any entry never ends in a panic of the parser thread. -/
def AbortsClean (s : State) : Prop := ∀ x ∈ s.abortInfo, x.2 ≠ Outcome.panic

structure PanicFree (s : State) : Prop where
  ab : AbortsClean s
  pc : ∀ t, s.cur = some t → okPc t.pc = true

theorem okPc_endWith {o : Outcome} (h : o ≠ .panic) : okPc (endWith o) = true := by
  cases o <;> simp_all [endWith, okPc]

theorem okPc_abortCheck {n : Nat} {o : Outcome} (h : o ≠ .panic) : okPc (.abortCheck n o) = true := by
  cases o <;> simp_all [okPc]

theorem okPc_abortCheck_inv {n : Nat} {o : Outcome} (h : okPc (.abortCheck n o) = true) : o ≠ .panic := by
  cases o <;> simp_all [okPc]

theorem okPc_nextEntry (s : State) (k : Nat) : okPc (nextEntry s k) = true := by
  unfold nextEntry; split <;> rfl

theorem abortInfo_getD {s : State} (h : AbortsClean s) (k : Nat) : (s.abortInfo[k]?.getD (0, .err)).2 ≠ Outcome.panic := by
  cases hk : s.abortInfo[k]? with
  | none => simp
  | some x => simpa using h x (List.mem_of_getElem? hk)

theorem parserStep_frame {s s' : State} (h : parserStep s = some s') :
    s'.abortInfo = s.abortInfo ∧ s'.cpc = s.cpc ∧ s'.rets = s.rets ∧ s'.old = s.old := by
  unfold parserStep at h
  split at h
  · simp at h
  · rename_i t hc
    simp only [] at h
    split at h <;> (repeat' split at h) <;> simp at h <;> subst h <;> simp

theorem PanicFree_parser {s s' : State} (hp : PanicFree s) (h : parserStep s = some s') : PanicFree s' := by
  have hf := parserStep_frame h
  refine ⟨by unfold AbortsClean; rw [hf.1]; exact hp.ab, ?_⟩
  unfold parserStep at h
  split at h
  · simp at h
  · rename_i t hc
    have hpc := hp.pc t hc
    simp only [] at h
    split at h
    · rename_i k hk
      split at h
      · simp at h; subst h; intro t' ht'; simp at ht'; subst ht'; rfl
      · split at h
        · have hg := abortInfo_getD hp.ab k
          split at h
          · rename_i o heq
            rw [heq] at hg
            simp at h; subst h; intro t' ht'; simp at ht'; subst ht'; exact okPc_endWith hg
          · rename_i n o heq
            rw [heq] at hg
            simp at h; subst h; intro t' ht'; simp at ht'; subst ht'; exact okPc_abortCheck hg
        · simp at h; subst h; intro t' ht'; simp at ht'; subst ht'; rfl
    · rename_i n o hk
      rw [hk] at hpc
      have ho := okPc_abortCheck_inv hpc
      split at h
      · simp at h; subst h; intro t' ht'; simp at ht'; subst ht'; exact okPc_endWith ho
      · simp at h; subst h; intro t' ht'; simp at ht'; subst ht'; exact okPc_abortCheck ho
    · split at h
      · simp at h; subst h; intro t' ht'; simp at ht'; subst ht'
        simp only []
        split
        · rfl
        · exact okPc_nextEntry _ _
      · simp at h
    · split at h
      · split at h
        · simp at h; subst h; intro t' ht'; simp at ht'; subst ht'; rfl
        · simp at h
      · simp at h
    · split at h
      · simp at h; subst h; intro t' ht'; simp at ht'; subst ht'; exact okPc_nextEntry _ _
      · simp at h
    · split at h <;> (simp at h; subst h; intro t' ht'; simp at ht'; subst ht'; rfl)
    · split at h
      · simp at h; subst h; intro t' ht'; simp at ht'; subst ht'; rfl
      · simp at h
    · simp at h; subst h; intro t' ht'; simp at ht'; subst ht'; rfl
    · simp at h

theorem PanicFree_ctrl {s s' : State} (hp : PanicFree s) (h : controllerStep s = some s') : PanicFree s' := by
  obtain ⟨hab, hpc⟩ := hp
  unfold controllerStep at h
  split at h
  all_goals (repeat' split at h)
  all_goals (try (simp at h))
  all_goals (try subst h)
  all_goals (refine ⟨hab, ?_⟩)
  all_goals (intro t' ht')
  all_goals (try (simp at ht'))
  all_goals (try subst ht')
  all_goals (try rfl)
  all_goals (first | exact hpc _ ‹_› | (simp only []; exact hpc _ ‹_›) | skip)

theorem PanicFree_reach {s0 s : State} (h0 : PanicFree s0) (hr : Reach s0 s) : PanicFree s := by
  induction hr with
  | refl => exact h0
  | step _ hs ih =>
    rcases hs with hs | hs
    · exact PanicFree_ctrl ih hs
    · exact PanicFree_parser ih hs

theorem PanicFree_init (entries : List (Rule × Nat)) (ok : Bool) (ab : List (Nat × Outcome)) (cap : Nat) (bps : List Rule)
    (todo : List Cmd) (h : ∀ x ∈ ab, x.2 ≠ Outcome.panic) : PanicFree (State.init entries ok ab cap bps todo) :=
  ⟨h, by simp [State.init]⟩
end PestModel.Dbg
