import PestModel.Model.Lower
/-! # C02 — placeholder until the theorems land. -/
namespace PestModel.C02
open PestModel.Lower PestModel.G

/-- the generator's flattening of right-nested sequences. -/
theorem smoke : seqItems (.seq (.str ['a']) (.seq (.str ['b']) (.str ['c']))) = [.str ['a'], .str ['b'], .str ['c']] := rfl

end PestModel.C02
