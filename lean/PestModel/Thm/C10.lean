import PestModel.Model.LineColSpec
import PestModel.Lemmas.LineCol
import PestModel.Lemmas.LineColGet
/-!
# C10 — line/column arithmetic and error rendering are correct for all text

Property theorems only; helper lemmas in `PestModel/Lemmas/LineCol.lean`.
`PestModel.LineCol` models `position.rs` / `span.rs` / `line_index.rs` / `error.rs` with every Rust
panic site an explicit `none`; the specification side (`lineColSpec`, `specLineOf`,
`specLinesSpan`) are counting definitions.
-/
namespace PestModel.C10
open PestModel.LineCol

/-- `splitAt?` characterises UTF-8 boundaries: it succeeds exactly on the byte lengths of prefixes. -/
theorem splitAt_iff (s pre post : Str) (off : Nat) :
    splitAt? s off = some (pre, post) ↔ s = pre ++ post ∧ bLen pre = off := by
  exact LineCol.splitAt_iff s pre post off

/-- `Position::line_col` equals the counting definition at every boundary offset, and panics
(`none`) exactly when the offset is not a boundary inside the input. The `\r\n` branch never
changes the answer. -/
theorem lineCol_spec (s : Str) (off : Nat) : lineCol s off = lineColSpec s off := by
  exact lineCol_eq_spec s off

/-- `Pair::line_col`: a `LineIndex` built from the prefix of the input up to byte `k` answers like
the counting definition for every boundary offset `off ≤ k`. -/
theorem lineIndex_eq (s text rest : Str) (off k : Nat) (hk : splitAt? s k = some (text, rest))
    (hoff : isBoundary s off = true) (hle : off ≤ k) :
    lineIndexLineCol (lineOffsets text) s off = lineColSpec s off := by
  exact lineIndex_eq_spec s text rest off k hk hoff hle

/-- `line_of` returns the maximal newline-terminated segment containing the offset
(the `pos == len - 1` shortcut is harmless), and never panics on a boundary. -/
theorem lineOf_spec (s pre post : Str) (off : Nat) (h : splitAt? s off = some (pre, post)) :
    lineOf s off = some (specLineOf pre post) := by
  obtain ⟨rfl, rfl⟩ := splitAt_some h
  exact lineOf_boundary pre post

/-- `Span::new` succeeds exactly on ordered boundary offsets. -/
theorem spanNew_iff (s : Str) (a b : Nat) :
    spanNew s a b = true ↔ a ≤ b ∧ isBoundary s a = true ∧ isBoundary s b = true := by
  exact LineCol.spanNew_iff s a b

/-- `lines_span()` yields the consecutive non-empty input lines that meet the closed range. -/
theorem linesSpan_spec (s : Str) (a b : Nat) (hab : a ≤ b) (ha : isBoundary s a = true)
    (hb : isBoundary s b = true) : linesSpan s a b = specLinesSpan s a b := by
  have _ := hb
  exact linesSpan_eq_spec s a b hab ha

/-- Rendering an error built from any boundary position never panics. -/
theorem render_total_pos (s msg : Str) (off : Nat) (h : isBoundary s off = true) :
    ∃ e out, newFromPos s off msg = some e ∧ e.format = some out := by
  obtain ⟨pre, post, rfl, rfl⟩ := (isBoundary_iff _ _).1 h
  obtain ⟨k, hk⟩ : ∃ k, (lineColSpecChars pre).2 = k + 1 := ⟨_, Nat.add_comm 1 _⟩
  obtain ⟨e, he, hl, -, -⟩ := newFromPos_boundary' pre post msg
  have hu := underline_pos e (lineColSpecChars pre).1 k (by rw [← hk]; exact hl)
  exact ⟨e, _, he, format_pos e _ _ hl hu⟩

/-- Rendering an error built from any span (ordered boundary offsets) never panics: in particular
`start - 1`, `end - start` and `end.0 - start.0` never underflow. -/
theorem render_total_span (s msg : Str) (a b : Nat) (hab : a ≤ b) (ha : isBoundary s a = true)
    (hb : isBoundary s b = true) :
    ∃ e out, newFromSpan s a b msg = some e ∧ e.format = some out := by
  obtain ⟨preA, postA, rfl, rfl⟩ := (isBoundary_iff _ _).1 ha
  obtain ⟨preB, postB, hB, rfl⟩ := (isBoundary_iff _ _).1 hb
  obtain ⟨m, rfl, rfl⟩ := prefix_of_bLen_le hB hab
  obtain ⟨e, sl, sc, el, ec, he, hlc, hsc, hec, hcont⟩ := newFromSpan_boundary preA m postB msg
  obtain ⟨out, hout⟩ := format_span e sl sc el ec hlc hsc hec hcont
  refine ⟨e, out, ?_, hout⟩
  rw [← he, bLen_append, List.append_assoc]

/-- What a rendered position error shows: the line/column of the counting definition, the text of
that line (CR/LF stripped, or visualised when the position is at a CR/LF), and an underline whose
marker `^---` starts exactly under the reported column, preceded only by blanks/tabs. -/
theorem render_shows_pos (s pre post msg : Str) (off : Nat) (h : splitAt? s off = some (pre, post)) :
    ∃ e u, newFromPos s off msg = some e ∧
      e.lineCol = .pos (lineColSpecChars pre) ∧
      (e.line = stripCrLf (specLineOf pre post) ∨ e.line = visualizeWs (specLineOf pre post)) ∧
      e.underline = some u ∧
      u.length = (lineColSpecChars pre).2 - 1 + 4 ∧
      u.drop ((lineColSpecChars pre).2 - 1) = "^---".toList ∧
      (∀ c ∈ u.take ((lineColSpecChars pre).2 - 1), c = ' ' ∨ c = '\t') ∧
      e.format = some (
        e.spacing ++ "--> ".toList ++ natStr (lineColSpecChars pre).1 ++ [':'] ++
          natStr (lineColSpecChars pre).2 ++ ['\n'] ++
        e.spacing ++ " |\n".toList ++
        natStr (lineColSpecChars pre).1 ++ " | ".toList ++ e.line ++ ['\n'] ++
        e.spacing ++ " | ".toList ++ u ++ ['\n'] ++
        e.spacing ++ " |\n".toList ++
        e.spacing ++ " = ".toList ++ msg) := by
  obtain ⟨rfl, rfl⟩ := splitAt_some h
  obtain ⟨k, hk⟩ : ∃ k, (lineColSpecChars pre).2 = k + 1 := ⟨_, Nat.add_comm 1 _⟩
  obtain ⟨e, he, hl, hline, hmsg⟩ := newFromPos_boundary' pre post msg
  have hu := underline_pos e (lineColSpecChars pre).1 k (by rw [← hk]; exact hl)
  refine ⟨e, ulPad e.line k ++ "^---".toList, he, hl, hline, hu, ?_, ?_, ?_, ?_⟩
  · simp [hk, ulPad_length]
  · rw [hk, Nat.add_sub_cancel, List.drop_left' (ulPad_length _ _)]
  · rw [hk, Nat.add_sub_cancel, List.take_left' (ulPad_length _ _)]
    exact ulPad_chars _ _
  · rw [← hmsg]; exact format_pos e _ _ hl hu

/-- **`Span::get`**: on a span `[a, b)` of `s`, the sub-range `x..y` (offsets in the span's own text) gives a span exactly when
`[a + x, a + y)` is itself a span of `s` that lies inside `[a, b)`, and that is the span returned — never one that leaves its
parent. -/
theorem spanGet_iff (s : Str) (a b x y : Nat) (h : spanNew s a b = true) (p : Nat × Nat) :
    spanGet s a b x y = some p ↔ p = (a + x, a + y) ∧ a + y ≤ b ∧ spanNew s (a + x) (a + y) = true :=
  LineCol.spanGet_iff s a b x y h p

/-- not vacuous, both ways: a range that leaves the span but stays inside the input is refused; an inner one is returned. -/
example : spanNew "let x\nlet y".toList 0 5 = true ∧ spanGet "let x\nlet y".toList 0 5 4 9 = none ∧
    spanGet "let x\nlet y".toList 4 11 2 5 = some (6, 9) := by decide

/-- Non-vacuity: a concrete multi-line, multi-byte input where the interesting branches are hit. -/
example : lineColSpec "a\r\né嗨\nb".toList 8 = some (2, 3) := by
  simp [lineColSpec, splitAt?, lineColSpecChars, cLen, Char.utf8Size]

end PestModel.C10
