import PestModel.Lemmas.PStateLimitTr
/-!
The bracketing combinators (`sequence`, `optional`, `repeat`, `lookahead`, `atomic`, `rule`,
`stack_push`, `restore_on_err`) in the uniform shape

    incCall ; pre ; body ; K

used by the two simulation arguments (call limit: `PStateLimitSim`, detail: `PStateDetail`).
-/
namespace PestModel.PS
open PestModel.LineCol PestModel.Stack

@[simp] theorem mapState_ok (f : PState → PState) (s : PState) : (Out.ok s).mapState f = .ok (f s) := rfl
@[simp] theorem mapState_err (f : PState → PState) (s : PState) : (Out.err s).mapState f = .err (f s) := rfl
@[simp] theorem mapState_panic (f : PState → PState) : Out.panic.mapState f = .panic := rfl
@[simp] theorem mapState_fuel (f : PState → PState) : Out.fuel.mapState f = .fuel := rfl

/-- `pre ; body ; K` -/
def bracket0 (cfg : Cfg) (fuel : Nat) (body : Prog) (pre : PState → PState) (K : PState → Out → Out)
    (s1 : PState) : Out := K s1 (run cfg fuel body (pre s1))

/-- `incCall ; pre ; body ; K` -/
def bracket (cfg : Cfg) (fuel : Nat) (body : Prog) (pre : PState → PState) (K : PState → Out → Out)
    (s : PState) : Out :=
  match incCall s with
  | none => .err s
  | some s1 => bracket0 cfg fuel body pre K s1

def seqK (s1 : PState) : Out → Out
  | .ok ns => (match checkpointOk ns with | some ns => .ok ns | none => .panic)
  | .err ns => (match restoreStack (seqErrState s1 ns) with | some ns => .err ns | none => .panic)
  | o => o

def roeK (_ : PState) : Out → Out
  | .ok ns => (match checkpointOk ns with | some ns => .ok ns | none => .panic)
  | .err ns => (match restoreStack ns with | some ns => .err ns | none => .panic)
  | o => o

def optK (_ : PState) : Out → Out
  | .ok s' => .ok s'
  | .err s' => .ok s'
  | o => o

def idK (_ : PState) (o : Out) : Out := o

def laPre (positive : Bool) (s1 : PState) : PState :=
  checkpoint { s1 with lookahead := laMode positive s1.lookahead }

def laK (positive : Bool) (s1 : PState) : Out → Out
  | .ok ns =>
    (match laPost s1 ns with
      | some ns => if positive then .ok ns else .err ns
      | none => .panic)
  | .err ns =>
    (match laPost s1 ns with
      | some ns => if positive then .err ns else .ok ns
      | none => .panic)
  | o => o

def atomK (a : Atomicity) (s1 : PState) : Out → Out
  | .ok ns => .ok (atomPost a s1 ns)
  | .err ns => .err (atomPost a s1 ns)
  | o => o

def ruleK (r : Nat) (s1 : PState) : Out → Out
  | .ok ns => ruleOkPost s1 r ns
  | .err ns => ruleErrPost s1 r ns
  | o => o

def pushK (s1 : PState) : Out → Out
  | .ok ns => pushSpan s1 ns
  | o => o

variable (cfg : Cfg) (fuel : Nat)

theorem run_sequence_K (p : Prog) (s : PState) :
    run cfg (fuel+1) (.sequence p) s = bracket cfg fuel p checkpoint seqK s := by
  rw [run_sequence]; unfold bracket bracket0
  cases incCall s with
  | none => rfl
  | some s1 => dsimp only; cases run cfg fuel p (checkpoint s1) <;> rfl

theorem run_restoreOnErr_K (p : Prog) (s : PState) :
    run cfg (fuel+1) (.restoreOnErr p) s = bracket0 cfg fuel p checkpoint roeK s := by
  rw [run_restoreOnErr]; unfold bracket0
  cases run cfg fuel p (checkpoint s) <;> rfl

theorem run_optional_K (p : Prog) (s : PState) :
    run cfg (fuel+1) (.optional p) s = bracket cfg fuel p id optK s := by
  rw [run_optional]; unfold bracket bracket0
  cases incCall s with
  | none => rfl
  | some s1 => dsimp only [id]; cases run cfg fuel p s1 <;> rfl

theorem run_repeat_K (p : Prog) (s : PState) :
    run cfg (fuel+1) (.repeat_ p) s = bracket cfg fuel (.repLoop p) id idK s := by
  rw [run_repeat]; unfold bracket bracket0
  cases incCall s with
  | none => rfl
  | some s1 => rfl

theorem run_lookahead_K (positive : Bool) (p : Prog) (s : PState) :
    run cfg (fuel+1) (.lookahead positive p) s = bracket cfg fuel p (laPre positive) (laK positive) s := by
  rw [run_lookahead]; unfold bracket bracket0
  cases incCall s with
  | none => rfl
  | some s1 =>
    dsimp only
    show _ = laK positive s1 (run cfg fuel p (checkpoint { s1 with lookahead := laMode positive s1.lookahead }))
    cases run cfg fuel p (checkpoint { s1 with lookahead := laMode positive s1.lookahead }) <;> rfl

theorem run_atomic_K (a : Atomicity) (p : Prog) (s : PState) :
    run cfg (fuel+1) (.atomic a p) s = bracket cfg fuel p (atomPre a) (atomK a) s := by
  rw [run_atomic]; unfold bracket bracket0
  cases incCall s with
  | none => rfl
  | some s1 => dsimp only; cases run cfg fuel p (atomPre a s1) <;> rfl

theorem run_rule_K (r : Nat) (p : Prog) (s : PState) :
    run cfg (fuel+1) (.rule r p) s = bracket cfg fuel p rulePre (ruleK r) s := by
  rw [run_rule]; unfold bracket bracket0
  cases incCall s with
  | none => rfl
  | some s1 => dsimp only; cases run cfg fuel p (rulePre s1) <;> rfl

theorem run_stackPush_K (p : Prog) (s : PState) :
    run cfg (fuel+1) (.stackPush p) s = bracket cfg fuel p id pushK s := by
  rw [run_stackPush]; unfold bracket bracket0
  cases incCall s with
  | none => rfl
  | some s1 => dsimp only [id]; cases run cfg fuel p s1 <;> rfl

/-! ### what the `K`s do to the counter and to completion -/

/-- `K` only completes when the body completed, and keeps the body's `calls`. -/
def KCalls (K : PState → Out → Out) : Prop :=
  ∀ s1 o s', (K s1 o).state? = some s' → ∃ ns, o.state? = some ns ∧ s'.calls = ns.calls

theorem seqK_calls : KCalls seqK := by
  intro s1 o s' h
  cases o with
  | ok ns =>
    unfold seqK at h; dsimp only at h
    split at h
    · rename_i ns' hck
      obtain ⟨st, -, rfl⟩ := checkpointOk_some hck
      simp at h; subst h; exact ⟨ns, rfl, rfl⟩
    · simp at h
  | err ns =>
    unfold seqK at h; dsimp only at h
    split at h
    · rename_i ns' hrs
      obtain ⟨st, -, rfl⟩ := restoreStack_some hrs
      simp at h; subst h; exact ⟨ns, rfl, rfl⟩
    · simp at h
  | panic => simp [seqK] at h
  | fuel => simp [seqK] at h

theorem roeK_calls : KCalls roeK := by
  intro s1 o s' h
  cases o with
  | ok ns =>
    unfold roeK at h; dsimp only at h
    split at h
    · rename_i ns' hck
      obtain ⟨st, -, rfl⟩ := checkpointOk_some hck
      simp at h; subst h; exact ⟨ns, rfl, rfl⟩
    · simp at h
  | err ns =>
    unfold roeK at h; dsimp only at h
    split at h
    · rename_i ns' hrs
      obtain ⟨st, -, rfl⟩ := restoreStack_some hrs
      simp at h; subst h; exact ⟨ns, rfl, rfl⟩
    · simp at h
  | panic => simp [roeK] at h
  | fuel => simp [roeK] at h

theorem optK_calls : KCalls optK := by
  intro s1 o s' h
  cases o <;> simp [optK] at h <;> subst h <;> exact ⟨_, rfl, rfl⟩

theorem idK_calls : KCalls idK := by
  intro s1 o s' h
  exact ⟨s', h, rfl⟩

theorem laK_calls (positive : Bool) : KCalls (laK positive) := by
  intro s1 o s' h
  cases o with
  | ok ns =>
    unfold laK at h; dsimp only at h
    split at h
    · rename_i ns' hla
      obtain ⟨st, -, rfl⟩ := restoreStack_some hla
      split at h <;> (simp at h; subst h; exact ⟨ns, rfl, rfl⟩)
    · simp at h
  | err ns =>
    unfold laK at h; dsimp only at h
    split at h
    · rename_i ns' hla
      obtain ⟨st, -, rfl⟩ := restoreStack_some hla
      split at h <;> (simp at h; subst h; exact ⟨ns, rfl, rfl⟩)
    · simp at h
  | panic => simp [laK] at h
  | fuel => simp [laK] at h

theorem atomK_calls (a : Atomicity) : KCalls (atomK a) := by
  intro s1 o s' h
  cases o <;> simp [atomK] at h <;> subst h <;> exact ⟨_, rfl, (atomPost_core a s1 _).1⟩

theorem ruleOkPost_calls {s1 ns s' : PState} {r : Nat}
    (h : (ruleOkPost s1 r ns).state? = some s') : s'.calls = ns.calls := by
  unfold ruleOkPost at h
  split at h
  · simp at h
  · rename_i ns2 he
    have c1 := ruleTrackIf_core s1 r ns
    have c2 := ruleEmit_core he
    have e2 : ns2.calls = ns.calls := c2.1.trans c1.1
    unfold ruleFinish at h
    split at h
    · split at h
      · rename_i ns3 ha
        simp at h; subst h
        obtain ⟨pa', rfl, -⟩ := ruleAdd_eq ha
        exact e2
      · simp at h
    · simp at h; subst h; exact e2

theorem ruleErrPost_calls {s1 ns s' : PState} {r : Nat}
    (h : (ruleErrPost s1 r ns).state? = some s') : s'.calls = ns.calls := by
  unfold ruleErrPost at h
  split at h
  · simp at h
  · rename_i ns2 ha
    simp at h; subst h
    obtain ⟨a, b, c, pa', rfl, -⟩ := ruleErrAdd_eq ha
    exact (ruleErrTrunc_core s1 _).1

theorem ruleK_calls (r : Nat) : KCalls (ruleK r) := by
  intro s1 o s' h
  cases o with
  | ok ns => exact ⟨ns, rfl, ruleOkPost_calls h⟩
  | err ns => exact ⟨ns, rfl, ruleErrPost_calls h⟩
  | panic => simp [ruleK] at h
  | fuel => simp [ruleK] at h

theorem pushK_calls : KCalls pushK := by
  intro s1 o s' h
  cases o with
  | ok ns =>
    unfold pushK pushSpan at h; dsimp only at h
    split at h
    · simp at h; subst h; exact ⟨ns, rfl, rfl⟩
    · simp at h
  | err ns => simp [pushK] at h; subst h; exact ⟨_, rfl, rfl⟩
  | panic => simp [pushK] at h
  | fuel => simp [pushK] at h

end PestModel.PS
