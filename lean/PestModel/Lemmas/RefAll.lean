import PestModel.Lemmas.RefPipe
import PestModel.Lemmas.RefCex
