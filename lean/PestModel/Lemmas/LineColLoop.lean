import PestModel.Lemmas.LineColBasic
namespace PestModel.LineCol

def lcStep (lc : Nat × Nat) (ch : Char) : Nat × Nat :=
  if ch = '\n' then (lc.1 + 1, 1) else (lc.1, lc.2 + 1)

@[simp] theorem cLen_cr : cLen '\r' = 1 := by decide
@[simp] theorem cLen_nl : cLen '\n' = 1 := by decide

theorem lineColLoop_eq_foldl (n : Nat) (chars : Str) (lc : Nat × Nat) (hn : chars.length ≤ n) :
    lineColLoop (bLen chars) chars lc = some (chars.foldl lcStep lc) := by
  induction n generalizing chars lc with
  | zero =>
    have : chars = [] := by simpa using hn
    subst this; simp [lineColLoop]
  | succ n ih =>
    match chars, lc with
    | [], lc => simp [lineColLoop]
    | c :: rest, (l, col) =>
      have hc := cLen_pos c
      obtain ⟨p, hp⟩ : ∃ p, bLen (c :: rest) = p + 1 := ⟨bLen (c :: rest) - 1, by simp; omega⟩
      rw [hp]
      unfold lineColLoop
      simp only [List.length_cons] at hn
      simp only [bLen_cons] at hp
      by_cases h1 : c = '\r'
      · subst h1
        simp only [if_true, cLen_cr] at hp ⊢
        split
        · rename_i rest'
          simp only [bLen_cons, cLen_nl] at hp
          have hp2 : p + 1 - 2 = bLen rest' := by omega
          rw [if_neg (by omega), hp2, ih _ _ (by simp at hn; omega)]
          simp [lcStep]
        · have hp2 : p = bLen rest := by omega
          rw [hp2, ih _ _ (by omega)]
          simp [lcStep]
      · rw [if_neg h1]
        by_cases h2 : c = '\n'
        · subst h2
          simp only [if_true, cLen_nl] at hp ⊢
          have hp2 : p = bLen rest := by omega
          rw [hp2, ih _ _ (by omega)]
          simp [lcStep]
        · rw [if_neg h2, if_neg (by omega)]
          have hp2 : p + 1 - cLen c = bLen rest := by omega
          rw [hp2, ih _ _ (by omega)]
          simp [lcStep, h2]

theorem snocInd {α : Type} {P : List α → Prop} (nil : P [])
    (snoc : ∀ xs x, P xs → P (xs ++ [x])) (l : List α) : P l := by
  have : ∀ r : List α, P r.reverse := by
    intro r
    induction r with
    | nil => exact nil
    | cons x xs ih => simpa using snoc _ x ih
  simpa using this l.reverse

theorem lcStep_foldl_spec (pre : Str) : pre.foldl lcStep (1, 1) = lineColSpecChars pre := by
  induction pre using snocInd with
  | nil => simp [lineColSpecChars]
  | snoc xs x ih =>
    rw [List.foldl_append, ih]
    simp only [List.foldl_cons, List.foldl_nil, lcStep, lineColSpecChars, List.reverse_append,
      List.reverse_cons, List.reverse_nil, List.nil_append, List.singleton_append,
      List.takeWhile_cons, List.count_append]
    by_cases hx : x = '\n'
    · subst hx; simp; omega
    · simp [hx]; omega

theorem lineColLoop_spec (pre : Str) :
    lineColLoop (bLen pre) pre (1, 1) = some (lineColSpecChars pre) := by
  rw [lineColLoop_eq_foldl _ _ _ (Nat.le_refl _), lcStep_foldl_spec]

theorem lineCol_eq_spec (s : Str) (off : Nat) : lineCol s off = lineColSpec s off := by
  unfold lineCol lineColSpec
  cases h : splitAt? s off with
  | none => rfl
  | some p =>
    obtain ⟨pre, post⟩ := p
    obtain ⟨-, rfl⟩ := splitAt_some h
    simp [lineColLoop_spec]

end PestModel.LineCol
