import PestModel.Lemmas.ViewsLayout
/-! Helper lemmas for C04: `Pairs` / `Pair` over a laid-out window. -/
namespace PestModel.Views
open PestModel.PS (QTok)
open PestModel.LineCol (Str slice?)

/-- start indices of the top-level pairs of a forest laid out from `a`. -/
def starts : Nat → List Tree → List Nat
  | _, [] => []
  | a, t :: ts => a :: starts (a + t.size) ts

@[simp] theorem starts_length (a : Nat) (ts : List Tree) : (starts a ts).length = ts.length := by
  induction ts generalizing a with
  | nil => simp [starts]
  | cons t ts ih => simp [starts, ih]

variable {q : List QTok}

theorem pairEnd_of {a e p : Nat} (h : q[a]? = some (.start e p)) : pairEnd q a = some e := by
  simp [pairEnd, h]

theorem countPairs_of_layout {a b : Nat} {ts : List Tree} (h : Layout q a ts b) :
    ∀ fuel, ts.length ≤ fuel → countPairs q fuel a b = some ts.length := by
  induction h with
  | nil a => intro fuel _; cases fuel <;> simp [countPairs]
  | cons h1 h2 hk hr ihk ihr =>
    rename_i a e b r p0 p1 tag kids rest
    intro fuel hf
    have := hk.le; have := hr.le
    cases fuel with
    | zero => simp at hf
    | succ fuel =>
      rw [countPairs]
      have hlt : a < b := by omega
      simp only [hlt, if_true, pairEnd_of h1]
      rw [ihr fuel (by simpa using hf)]
      simp

theorem pairsList_of_layout {a b : Nat} {ts : List Tree} (h : Layout q a ts b) :
    ∀ fuel, ts.length ≤ fuel → pairsList q fuel a b = some (starts a ts) := by
  induction h with
  | nil a => intro fuel _; cases fuel <;> simp [pairsList, starts]
  | cons h1 h2 hk hr ihk ihr =>
    rename_i a e b r p0 p1 tag kids rest
    intro fuel hf
    have := hk.le; have := hr.le
    have hs := hk.size
    cases fuel with
    | zero => simp at hf
    | succ fuel =>
      rw [pairsList]
      have hlt : a < b := by omega
      simp only [hlt, if_true, pairEnd_of h1]
      rw [ihr fuel (by simpa using hf)]
      have : a + (2 + sizeList kids) = e + 1 := by omega
      simp [starts, this]

theorem pairsList_of_layout' {a b : Nat} {ts : List Tree} (h : Layout q a ts b) :
    pairsList q (q.length + 1) a b = some (starts a ts) := by
  refine pairsList_of_layout h _ ?_
  have := length_le_sizeList ts
  have := h.size
  have := h.size_le_length
  omega

theorem pairs_new_of_layout {a b : Nat} {ts : List Tree} (h : Layout q a ts b) :
    Pairs.new q a b = some ⟨a, b, ts.length⟩ := by
  unfold Pairs.new
  rw [countPairs_of_layout h]
  · simp
  · have := length_le_sizeList ts
    have := h.size
    omega

theorem posAt_start {a e p : Nat} (h : q[a]? = some (.start e p)) : posAt q a = some p := by
  simp [posAt, h]
theorem posAt_end {a e r p : Nat} {t : Option Str} (h : q[a]? = some (.end_ e r t p)) : posAt q a = some p := by
  simp [posAt, h]

theorem pairObs_of {a e : Nat} {t : Tree} (h1 : q[a]? = some (.start e t.start))
    (h2 : q[e]? = some (.end_ a t.rule t.tag t.stop)) (hk : Layout q (a + 1) t.children e) :
    PairObs q a t := by
  refine ⟨?_, ?_, ?_, e, pairEnd_of h1, encodes_iff.2 hk, encodes_iff.2 ?_⟩
  · simp [pairRule, pairEnd_of h1, h2]
  · simp [pairSpan, pairEnd_of h1, posAt_start h1, posAt_end h2]
  · simp [pairTag, pairEnd_of h1, h2]
  · cases t with
    | node r p0 p1 tag kids => exact .cons h1 h2 hk (.nil _)

theorem pairObs_of_layout {a b : Nat} {t : Tree} {ts : List Tree} (h : Layout q a (t :: ts) b) :
    PairObs q a t := by
  obtain ⟨e, h1, h2, hk, _⟩ := h.cons_inv
  exact pairObs_of h1 h2 hk

theorem pairStr_of_obs {input : Str} {i : Nat} {t : Tree} (h : PairObs q i t) :
    pairStr q input i = strOf input t := by
  simp [pairStr, h.2.1, strOf]

theorem mapM_pairStr {input : Str} {a b : Nat} {ts : List Tree} (h : Layout q a ts b) :
    (starts a ts).mapM (pairStr q input) = ts.mapM (strOf input) := by
  induction ts generalizing a with
  | nil => simp [starts]
  | cons t ts ih =>
    obtain ⟨e, h1, h2, hk, hr, hs, _⟩ := h.cons_inv
    simp only [starts, List.mapM_cons]
    rw [pairStr_of_obs (pairObs_of h1 h2 hk), ← hs, ih hr]

end PestModel.Views
