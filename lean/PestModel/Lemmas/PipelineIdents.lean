import PestModel.Lemmas.ReaderIdents
import PestModel.Lemmas.PipelineNames
/-!
C01 / C09: the names a grammar text mentions, through the pipeline — `validate_pairs` looks at every `identifier` pair after the
first of each rule; the rule bodies the reader returns mention only those (`rulesV_ids`); so a text that passes mentions only its
own rules and built-ins (`pipeline_ok_idents`).
-/
namespace PestModel.Pipeline
open PestModel.G PestModel.Reader PestModel.ReaderFull PestModel.ReaderP PestModel.ReaderShape PestModel.Ref
open PestModel.Views (Tree preorderList)
open PestModel.LineCol (Str)
open PestModel.ReaderValue (idents IdIn AllIn exprV_ids RulesV RuleV)

theorem drop_one_preorder (id : Tree) (rest : List Tree) :
    ∀ x ∈ preorderList rest, x ∈ (preorderList (id :: rest)).drop 1 := by
  intro x hx
  cases id with
  | node r a b tg cs =>
    simp only [preorderList, Tree.preorder, List.cons_append, List.drop_succ_cons, List.drop_zero, List.mem_append]
    exact .inr hx

/-- every rule name mentioned by a rule the pairs denote is the text of a pair that `validate_pairs` looks at (`called`). -/
theorem rulesV_ids {extras : Bool} {text : Str} : ∀ {forest : List Tree} {rules : List Rule}, RulesV extras text forest rules →
    ∀ r ∈ rules, ∀ n ∈ idents r.expr, ∃ t ∈ called forest, (strOf text t).map String.ofList = some n
  | _, _, .nil => by simp
  | _, _, @RulesV.other _ _ t ts rs hk h => by
    intro r hr n hn
    obtain ⟨u, hu, hs⟩ := rulesV_ids h r hr n hn
    exact ⟨u, by simp only [called, hk, if_false]; exact hu, hs⟩
  | _, _, @RulesV.doc _ _ t c cs ts rs hk _ _ h => by
    intro r hr n hn
    obtain ⟨u, hu, hs⟩ := rulesV_ids h r hr n hn
    exact ⟨u, by simp only [called, hk, if_true]; exact List.mem_append_right _ hu, hs⟩
  | _, _, @RulesV.rule _ _ t ts r rs hk hrv h => by
    intro r' hr' n hn
    rcases List.mem_cons.1 hr' with rfl | hr'
    · obtain ⟨id, asg, mods, ob, e, cb, hch, _, _, _, _, he⟩ := hrv
      obtain ⟨u, hu, hki, hs⟩ := exprV_ids he n hn
      refine ⟨u, ?_, hs⟩
      simp only [called, hk, if_true]
      refine List.mem_append_left _ (List.mem_filter.2 ⟨?_, by simp [hki]⟩)
      rw [hch]
      refine drop_one_preorder id _ u ?_
      have hmem : e ∈ asg :: (mods ++ [ob, e, cb]) := by simp
      exact mem_preorderList_of_mem hmem u (mem_preorder_children e u hu)
    · obtain ⟨u, hu, hs⟩ := rulesV_ids h r' hr' n hn
      exact ⟨u, by simp only [called, hk, if_true]; exact List.mem_append_right _ hu, hs⟩

theorem namesOf_complete {text : Str} : ∀ (l : List Tree) (ns : List String), namesOf text l = .ok ns →
    ∀ t ∈ l, ∀ n, (strOf text t).map String.ofList = some n → n ∈ ns
  | [], ns, _, t, ht, _, _ => by simp at ht
  | u :: us, ns, h, t, ht, n, hn => by
    cases hs : strOf text u with
    | none => simp [namesOf, hs, orPanic, R3.bind] at h
    | some s =>
      cases hr : namesOf text us with
      | ok rest =>
        simp only [namesOf, hs, orPanic, R3.bind, R3.map, hr, R3.ok.injEq] at h
        subst h
        rcases List.mem_cons.1 ht with rfl | ht
        · rw [hs] at hn; simp at hn; subst hn; simp
        · exact List.mem_cons_of_mem _ (namesOf_complete us rest hr t ht n hn)
      | err => simp [namesOf, hs, orPanic, R3.bind, R3.map, hr] at h
      | panic => simp [namesOf, hs, orPanic, R3.bind, R3.map, hr] at h

/-- when `validate_pairs` reports nothing, every name used is defined or a built-in. -/
theorem validatePairs_nil_used {text : Str} {forest : List Tree} (h : validatePairs text forest = .ok []) :
    ∃ defs names, definitions forest = .ok defs ∧ namesOf text defs = .ok names ∧
      ∀ t ∈ called forest, ∀ n, (strOf text t).map String.ofList = some n → n ∈ names ∨ PestModel.V.isBuiltin n = true := by
  unfold validatePairs at h
  cases hd : definitions forest with
  | ok defs =>
    cases hn : namesOf text defs with
    | ok names =>
      cases hu : namesOf text (called forest) with
      | ok used =>
        simp only [hd, hn, hu, R3.bind, R3.ok.injEq, List.append_eq_nil_iff, List.map_eq_nil_iff, List.filter_eq_nil_iff] at h
        refine ⟨defs, names, rfl, hn, ?_⟩
        intro t ht n hs
        have hmem := namesOf_complete _ used hu t ht n hs
        have := h.2 n hmem
        simp only [Bool.and_eq_true, Bool.not_eq_true', not_and, Bool.not_eq_false] at this
        by_cases hc : names.contains n = true
        · exact .inl (by simpa using hc)
        · exact .inr (this (by simpa using hc))
      | err => simp [hd, hn, hu, R3.bind] at h
      | panic => simp [hd, hn, hu, R3.bind] at h
    | err => simp [hd, hn, R3.bind] at h
    | panic => simp [hd, hn, R3.bind] at h
  | err => simp [hd, R3.bind] at h
  | panic => simp [hd, R3.bind] at h
theorem afterParse_validated {extras : Bool} {text : Str} {forest : List Tree} {rs : List ORule}
    (h : afterParse extras text forest = .ok rs) : validatePairs text forest = .ok [] := by
  unfold afterParse at h
  cases hv : validatePairs text forest with
  | ok errs =>
    cases errs with
    | nil => rfl
    | cons e es => simp [hv] at h
  | err => simp [hv] at h
  | panic => simp [hv] at h

/-- **what `parse_and_optimize` accepts, with the names**: besides `pipeline_ok`, every rule name mentioned in a rule body is the
name of a rule of the grammar or one of the validator's built-ins, and every bounded repetition has a count the unroller can
handle. -/
theorem pipeline_ok_idents (extras : Bool) (text : Str) (rs : List ORule) (h : parseAndOptimize extras text = some (.ok rs)) :
    ∃ rules, ReaderFull.readGrammar extras text = some rules ∧ PestModel.V.validateAst extras rules = [] ∧
      optimize extras rules = some rs ∧ (rules.map (·.name)).Nodup ∧
      (∀ r ∈ rules, r.name ∉ PestModel.Gen.Unicode.pestKeywords) ∧
      (∀ r ∈ rules, ∀ n ∈ idents r.expr, n ∈ rules.map (·.name) ∨ PestModel.V.isBuiltin n = true) ∧
      (∀ r ∈ rules, PestModel.OptTotal.posCounts r.expr = true) := by
  unfold parseAndOptimize at h
  split at h
  · rename_i s' forest hm
    simp only [Option.some.injEq] at h
    have hforest := PestModel.MetaPost.meta_forest text _ s' forest hm
    obtain ⟨rules, hc, hva, ho, hnd, hkw⟩ := afterParse_ok h
    have hvp := afterParse_validated h
    have hag := PestModel.ReaderAgree.consumeRulesGo_ag extras text (PestModel.Views.sizeList forest + 1) forest
    have hF : ReaderFull.consumeRulesWithSpans extras text forest = some rules := by
      have := hag (by rw [show ReaderP.consumeRulesGo extras text (PestModel.Views.sizeList forest + 1) forest =
        ReaderP.consumeRulesWithSpans extras text forest from rfl, hc]; simp)
      rw [show ReaderP.consumeRulesGo extras text (PestModel.Views.sizeList forest + 1) forest =
        ReaderP.consumeRulesWithSpans extras text forest from rfl, hc] at this
      simpa [ReaderFull.consumeRulesWithSpans] using this.symm
    have hrv := PestModel.ReaderValue.rulesV_of_success forest rules hforest hF
    obtain ⟨defs, names, hd, hn, hused⟩ := validatePairs_nil_used hvp
    have hl := names_link forest rules defs names hc hd hn
    refine ⟨rules, ?_, hva, ho, hnd, hkw, ?_, PestModel.OptTotal.posCounts_rulesV hrv⟩
    · unfold ReaderFull.readGrammar
      rw [hm]
      simp [ReaderFull.consumeRules, hF, hva]
    · intro r hr n hnid
      obtain ⟨t, ht, hs⟩ := rulesV_ids hrv r hr n hnid
      rw [hl]
      exact hused t ht n hs
  · simp at h
  · simp at h
end PestModel.Pipeline
