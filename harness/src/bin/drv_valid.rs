//! C06: the validator. L lines: verdict of pest_meta on a (near-miss) grammar vs the Lean validator
//! model; oracle (soundness on the implementation): every ACCEPTED grammar without stack built-ins
//! must terminate on every input — parsed with the VM in a child process with a time limit; and
//! (completeness) strictly guarded grammars must be accepted.
use pest_meta::ast::{Expr, Rule, RuleType};
use std::collections::BTreeMap;
use std::io::Write;
use std::process::{Command, Stdio};
use std::time::{Duration, Instant};
use verif_harness::gram::*;
use verif_harness::*;

const EXTRAS: bool = cfg!(feature = "extras");
fn bx(e: Expr) -> Box<Expr> { Box::new(e) }

fn verdict(rules: &[Rule]) -> String {
    let text = print_grammar(rules);
    let r = catch(|| pest_meta::parser::parse(pest_meta::parser::Rule::grammar_rules, &text).map_err(|e| vec![format!("parse: {}", e.variant.message())]).and_then(|p| {
        pest_meta::validator::validate_pairs(p.clone()).map_err(|es| es.iter().map(|e| format!("pairs: {}", e.variant.message())).collect::<Vec<_>>())?;
        pest_meta::parser::consume_rules(p).map_err(|es| es.iter().map(|e| e.variant.message().to_string()).collect::<Vec<_>>()) }));
    match r {
        Err(_) => "panic".into(),
        Ok(Ok(_)) => "ok".into(),
        Ok(Err(msgs)) => {
            let mut tags: Vec<String> = msgs.iter().map(|m| {
                if m.contains("inside repetition cannot fail") { "RF".into() } else if m.contains("inside repetition is non-progressing") { "RP".into() }
                else if m.contains("following choices cannot be reached") { "CU".into() }
                else if m.contains("cannot fail and will repeat infinitely") { format!("WF:{}", m.split(' ').next().unwrap()) }
                else if m.contains("is non-progressing and will repeat infinitely") { format!("WP:{}", m.split(' ').next().unwrap()) }
                else if m.contains("is left-recursive") { format!("LR:{}", m.split(' ').nth(1).unwrap_or("?").trim_matches(|c| c == '(' || c == ')')) }
                else if m.contains("tags on silent rules") { "TS".into() } else if m.contains("tags on built-in rules") { "TB".into() }
                else { format!("OTHER:{}", m.replace(' ', "_").chars().take(40).collect::<String>()) } }).collect();
            tags.sort();
            format!("err {}", tags.join(" "))
        }
    }
}

// ---- termination oracle in a child process: `drv_valid worker <file>`; each line: <orules-sexp>\t<rule>\t<hex inputs…>
fn worker(path: &str) {
    let txt = std::fs::read_to_string(path).unwrap();
    let out = std::io::stdout(); let mut out = out.lock();
    for l in txt.lines() {
        let mut it = l.split('\t');
        let orules = it.next().and_then(parse_sexps).and_then(|t| t.get(0).and_then(orules_of)).unwrap();
        let rule = it.next().unwrap();
        let vm = pest_vm::Vm::new(orules);
        for h in it { let inp = unhexs(h).unwrap_or_default(); let _ = catch(|| vm.parse(rule, &inp).is_ok()); }
        writeln!(out, "done").unwrap(); out.flush().unwrap();
    }
}
/// returns for every job whether it terminated. A worker that exceeds the time limit (or the address-space limit: a loop
/// that allocates) is killed and the job it was on counts as not terminating; after a few such jobs the rest of the batch is
/// not run (the verdict is already clear and every further hang would cost the full time limit).
fn run_jobs(jobs: &[String], dir: &std::path::Path, limit: Duration) -> Vec<bool> {
    let mut res = vec![]; let mut start = 0; let mut hangs = 0;
    let exe = std::env::current_exe().unwrap();
    while start < jobs.len() {
        let f = dir.join("jobs.txt"); std::fs::write(&f, jobs[start..].join("\n")).unwrap();
        let mut child = Command::new("sh").arg("-c").arg(format!("ulimit -v 6000000; exec '{}' worker '{}'", exe.display(), f.display())).stdout(Stdio::piped()).stderr(Stdio::null()).spawn().unwrap();
        let t0 = Instant::now();
        let per_hang = if hangs == 0 { limit } else { Duration::from_secs(20).min(limit) };
        let mut so = child.stdout.take().unwrap();
        // read progress without blocking the time limit: a reader thread counts finished jobs
        let counter = std::sync::Arc::new(std::sync::atomic::AtomicUsize::new(0));
        let c2 = counter.clone();
        let rd = std::thread::spawn(move || { use std::io::{BufRead, BufReader}; for l in BufReader::new(&mut so).lines() { if l.is_ok() { c2.fetch_add(1, std::sync::atomic::Ordering::SeqCst); } else { break; } } });
        // the limit applies to the time since the last finished job
        let mut last_n = 0; let mut last_t = t0;
        loop {
            match child.try_wait().unwrap() { Some(_) => break, None => {} }
            let n = counter.load(std::sync::atomic::Ordering::SeqCst);
            if n != last_n { last_n = n; last_t = Instant::now(); }
            if last_t.elapsed() > per_hang { let _ = child.kill(); let _ = child.wait(); break; }
            std::thread::sleep(Duration::from_millis(5));
        }
        let _ = rd.join();
        let n = counter.load(std::sync::atomic::Ordering::SeqCst);
        for _ in 0..n { res.push(true); }
        if start + n >= jobs.len() { break; }
        res.push(false); start += n + 1; hangs += 1;
        if hangs >= 4 { while res.len() < jobs.len() { res.push(true); } break; }
    }
    res.truncate(jobs.len()); res
}

// ---- near-miss grammars: references anywhere (also leftmost, also to the rule itself), empty strings, non-failing bodies
fn wild(rng: &mut Rng, names: &[String], d: usize) -> Expr {
    let id = |rng: &mut Rng| Expr::Ident(rng.pick(names).clone());
    if d == 0 { return match rng.below(6) { 0 => Expr::Str(String::new()), 1 | 2 => id(rng), 3 => Expr::Ident(rng.pick(&["ANY", "SOI", "EOI", "ASCII_DIGIT"]).to_string()), _ => Expr::Str(rng.pick(&["a", "b"]).to_string()) }; }
    match rng.below(16) {
        0 | 1 => wild(rng, names, 0),
        2 | 3 | 4 => Expr::Seq(bx(wild(rng, names, d - 1)), bx(wild(rng, names, d - 1))),
        5 | 6 => Expr::Choice(bx(wild(rng, names, d - 1)), bx(wild(rng, names, d - 1))),
        7 => Expr::Opt(bx(wild(rng, names, d - 1))), 8 => Expr::Rep(bx(wild(rng, names, d - 1))), 9 => Expr::RepOnce(bx(wild(rng, names, d - 1))),
        10 => Expr::PosPred(bx(wild(rng, names, d - 1))), 11 => Expr::NegPred(bx(wild(rng, names, d - 1))),
        12 => { let x = bx(wild(rng, names, d - 1)); match rng.below(4) { 0 => Expr::RepExact(x, rng.range(1, 2) as u32), 1 => Expr::RepMin(x, rng.range(0, 2) as u32), 2 => Expr::RepMax(x, rng.range(1, 2) as u32), _ => Expr::RepMinMax(x, rng.range(0, 1) as u32, rng.range(1, 2) as u32) } }
        13 => Expr::Push(bx(wild(rng, names, d - 1))),
        #[cfg(feature = "extras")]
        14 => Expr::NodeTag(bx(wild(rng, names, d - 1)), "t".into()),
        _ => wild(rng, names, 0),
    }
}
fn uses_stack(rs: &[Rule]) -> bool { let s = show_rules(rs); s.contains("(push ") || s.contains("(id POP") || s.contains("(id PEEK") || s.contains("(id DROP") || s.contains("(peek ") || s.contains("(pushlit ") }
/// every repetition body, non-final alternative, and path back to a rule starts with a consuming terminal
fn strict(rng: &mut Rng, names: &[String], d: usize) -> Expr {
    let t = |rng: &mut Rng| match rng.below(4) { 0 => Expr::Str(rng.pick(&["a", "b", "ab"]).to_string()), 1 => Expr::Range("a".into(), "c".into()), 2 => Expr::Ident("ANY".into()), _ => Expr::Ident("ASCII_DIGIT".into()) };
    // `body`: starts by matching a character (what repetition bodies and non-final alternatives must do)
    fn body(rng: &mut Rng, names: &[String], d: usize, t: &dyn Fn(&mut Rng) -> Expr) -> Expr {
        if d == 0 { return t(rng); }
        match rng.below(4) { 0 => t(rng), 1 => Expr::Choice(bx(body(rng, names, d - 1, t)), bx(body(rng, names, d - 1, t))), _ => Expr::Seq(bx(t(rng)), bx(strict(rng, names, d - 1))) }
    }
    if d == 0 { return t(rng); }
    match rng.below(8) {
        0 => t(rng),
        1 | 2 => Expr::Seq(bx(t(rng)), bx(match rng.below(3) { 0 => Expr::Ident(rng.pick(names).clone()), 1 => Expr::Opt(bx(strict(rng, names, d - 1))), _ => strict(rng, names, d - 1) })),
        3 => Expr::Choice(bx(body(rng, names, d - 1, &t)), bx(strict(rng, names, d - 1))),
        4 => Expr::Rep(bx(body(rng, names, d - 1, &t))), 5 => Expr::RepOnce(bx(body(rng, names, d - 1, &t))),
        6 => Expr::Seq(bx(body(rng, names, d - 1, &t)), bx(Expr::NegPred(bx(strict(rng, names, d - 1))))),
        _ => Expr::Seq(bx(t(rng)), bx(Expr::RepMin(bx(body(rng, names, d - 1, &t)), rng.range(0, 2) as u32))),
    }
}

fn main() {
    quiet_panics();
    let a: Vec<String> = std::env::args().collect();
    if a.get(1).map(|s| s.as_str()) == Some("worker") { worker(&a[2]); return; }
    let mut out = Out::new();
    let mut stats: BTreeMap<String, u64> = BTreeMap::new();
    let eval = |l: &str| -> Option<(Vec<Rule>, String)> { let mut it = l.splitn(3, ' '); if it.next()? != "L" { return None; } let _ = it.next()?; let rules = it.next().and_then(parse_sexps).and_then(|t| t.get(0).and_then(rules_of))?; let v = verdict(&rules); Some((rules, v)) };
    match cli() {
        Cmd::Run { ops, out: dir } => {
            std::fs::create_dir_all(&dir).unwrap();
            for l in &ops { match eval(l) { Some((rules, v)) => {
                    let mut orc = "ok".to_string();
                    if v == "ok" && !uses_stack(&rules) { if let Ok(o) = catch(|| pest_meta::optimizer::optimize(rules.clone())) { let ins = all_inputs(&["a", "b", "1"], 3).iter().map(|x| hexs(x)).collect::<Vec<_>>().join("\t"); let jobs: Vec<String> = rules.iter().map(|r| format!("{}\t{}\t{}", show_orules(&o), r.name, ins)).collect(); if run_jobs(&jobs, &dir, Duration::from_secs(10)).iter().any(|t| !*t) { orc = "FAIL accepted grammar does not terminate (VM killed by time limit / stack overflow)".into(); } } }
                    out.push(l.clone(), v, orc) }
                None => out.push(l.clone(), "bad-op".into(), "ok".into()) } }
            out.write(&dir, "{}");
        }
        Cmd::Gen { thorough, seed, out: dir } => {
            std::fs::create_dir_all(&dir).unwrap();
            let mut rng = Rng::new(seed ^ 0xC06 ^ if EXTRAS { 0xE0 } else { 0 });
            let n = if thorough { 40000 } else { 5000 };
            let mut accepted: Vec<(usize, Vec<Rule>)> = vec![];
            for gi in 0..n {
                let nr = rng.range(1, 4);
                let names: Vec<String> = (0..nr).map(|i| format!("r{}", i)).collect();
                let strict_g = gi % 5 == 4;
                let mut rules: Vec<Rule> = (0..nr).map(|i| { let d = rng.range(1, 3); Rule { name: names[i].clone(), ty: *rng.pick(&[RuleType::Normal, RuleType::Silent, RuleType::Atomic, RuleType::NonAtomic, RuleType::Normal, RuleType::CompoundAtomic]), expr: if strict_g { strict(&mut rng, &names, d) } else { wild(&mut rng, &names, d) } } }).collect();
                // near miss: a nullable rule that repeats itself behind a consuming literal (`r = ("a" ~ r*)?`): only the repetition
                // check can reject it
                if !strict_g && rng.chance(1, 25) { let i = rng.below(nr as u64) as usize; let me = Expr::Ident(names[i].clone());
                    let rep = if rng.chance(1, 2) { Expr::Rep(bx(me)) } else { Expr::RepOnce(bx(me)) };
                    let core = Expr::Opt(bx(Expr::Seq(bx(Expr::Str(rng.pick(&["a", "b"]).to_string())), bx(rep))));
                    rules[i].expr = if rng.chance(1, 3) { Expr::Seq(bx(Expr::NegPred(bx(Expr::Str("1".into())))), bx(core)) } else { core }; }
                // WHITESPACE / COMMENT: good and bad literal bodies, and bodies that go through the grammar's own rules (the
                // implicit skips inside non-atomic rules can then come back to them)
                let skip_body = |rng: &mut Rng, lit: &str, names: &[String]| -> Expr { let r = Expr::Ident(rng.pick(names).clone());
                    match rng.below(8) { 0 => Expr::Str(String::new()), 1 => Expr::Opt(bx(Expr::Str(lit.into()))), 2 => Expr::NegPred(bx(Expr::Str("x".into()))), 3 => r,
                        4 => Expr::Seq(bx(r), bx(Expr::Str(lit.into()))), 5 => Expr::Seq(bx(Expr::Str(lit.into())), bx(r)), _ => Expr::Str(lit.into()) } };
                let sty = |rng: &mut Rng| *rng.pick(&[RuleType::Silent, RuleType::Silent, RuleType::Normal, RuleType::Atomic]);
                if rng.chance(1, 3) { let e = if strict_g { Expr::Str(" ".into()) } else { skip_body(&mut rng, " ", &names) }; let ty = sty(&mut rng); rules.push(Rule { name: "WHITESPACE".into(), ty, expr: e }); }
                if rng.chance(1, 4) { let e = if strict_g { Expr::Str("#".into()) } else { skip_body(&mut rng, "#", &names) }; let ty = sty(&mut rng); rules.push(Rule { name: "COMMENT".into(), ty, expr: e }); }
                // rules reached first inside an atomic rule and later from skipping code: WHITESPACE goes through a non-atomic
                // rule `n` into a chain of plain rules, each also referenced (earlier) from an atomic probe; the end of the chain
                // may or may not come back to WHITESPACE through an implicit skip (what is known about a rule in one skipping
                // mode says nothing about the other)
                if !strict_g && rng.chance(1, 20) {
                    let k = rng.range(1, 3);
                    let s = |x: &str| Expr::Str(x.to_string());
                    let id = |x: String| Expr::Ident(x);
                    let mut rs: Vec<Rule> = vec![];
                    rs.push(Rule { name: "WHITESPACE".into(), ty: RuleType::Silent, expr: if rng.chance(1, 2) { Expr::Choice(bx(s(" ")), bx(id("n".into()))) } else { Expr::Seq(bx(id("n".into())), bx(s(" "))) } });
                    let entry = |rng: &mut Rng, i: usize| -> Expr { if rng.chance(2, 3) { Expr::Choice(bx(id(format!("at{}", i))), bx(id(format!("p{}", i)))) } else { id(format!("p{}", i)) } };
                    let e0 = entry(&mut rng, 0);
                    rs.push(Rule { name: "n".into(), ty: *rng.pick(&[RuleType::NonAtomic, RuleType::NonAtomic, RuleType::Normal]), expr: e0 });
                    for i in 0..k {
                        rs.push(Rule { name: format!("at{}", i), ty: *rng.pick(&[RuleType::Atomic, RuleType::Atomic, RuleType::CompoundAtomic]), expr: Expr::Seq(bx(id(format!("p{}", i))), bx(s("1"))) });
                        let body = if i + 1 < k { entry(&mut rng, i + 1) } else { match rng.below(6) {
                            0 | 1 => Expr::Seq(bx(Expr::Opt(bx(s("a")))), bx(s("b"))), 2 => Expr::Seq(bx(s("a")), bx(s("b"))), 3 => Expr::RepMax(bx(s("a")), 2),
                            4 => Expr::Seq(bx(Expr::NegPred(bx(s("a")))), bx(s("b"))), _ => Expr::Seq(bx(Expr::Rep(bx(s("a")))), bx(s("b"))) } };
                        rs.push(Rule { name: format!("p{}", i), ty: *rng.pick(&[RuleType::Normal, RuleType::Normal, RuleType::Silent]), expr: body });
                    }
                    if rng.chance(1, 2) { rs.rotate_left(1); }   // WHITESPACE first or last
                    rules = rs;
                }
                let l = format!("L {} {}", EXTRAS as u8, show_rules(&rules));
                let v = verdict(&rules);
                *stats.entry(if v == "ok" { "accepted".into() } else if v.starts_with("err") { "rejected".to_string() } else { v.clone() }).or_default() += 1;
                for t in v.split(' ').skip(1) { *stats.entry(format!("kind_{}", t.split(':').next().unwrap())).or_default() += 1; }
                let mut orc = "ok".to_string();
                if strict_g && v != "ok" { orc = format!("FAIL a strictly guarded grammar is rejected: {}", v); }
                if v == "ok" && !uses_stack(&rules) { accepted.push((out.ops.len(), rules.clone())); }
                out.push(l, v, orc);
            }
            // soundness on the implementation: accepted, stack-free grammars terminate on all inputs up to length 3
            let sample: Vec<&(usize, Vec<Rule>)> = accepted.iter().take(if thorough { 6000 } else { 700 }).collect();
            let ins = all_inputs(&["a", "b", "1", " "], 3).iter().map(|x| hexs(x)).collect::<Vec<_>>().join("\t");
            let mut jobs = vec![]; let mut owner = vec![];
            for (idx, rules) in &sample { if let Ok(o) = catch(|| pest_meta::optimizer::optimize(rules.clone())) { for r in rules.iter() { jobs.push(format!("{}\t{}\t{}", show_orules(&o), r.name, ins)); owner.push(*idx); } } }
            let term = run_jobs(&jobs, &dir, Duration::from_secs(if thorough { 600 } else { 120 }));
            for (k, t) in term.iter().enumerate() { if !*t { out.oracle[owner[k]] = "FAIL accepted grammar does not terminate (VM killed by time limit / stack overflow) from one of its rules on some input of length <= 3".into(); } }
            *stats.entry("termination_jobs".into()).or_default() += jobs.len() as u64;
            let samples: Vec<String> = out.ops.iter().step_by((out.ops.len() / 5).max(1)).take(5).map(|s| s.chars().take(200).collect::<String>()).collect();
            let stats_s = format!("{{\"evaluations\":{},\"distinct_nontrivial\":{},\"accepted_checked_for_termination\":{},\"extras\":{},\"observed\":{:?},\"samples\":{:?}}}", out.ops.len(), stats.get("rejected").cloned().unwrap_or(0), sample.len(), EXTRAS, stats, samples);
            out.write(&dir, &stats_s);
        }
    }
}
