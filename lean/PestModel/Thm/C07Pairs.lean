import PestModel.Lemmas.ReaderSound
import PestModel.Lemmas.MetaRules
/-!
# C07 (pairs) — the reader returns exactly the grammar the pairs denote

`ReaderValue.ExprV` & co. say — without reference to the reader's code — which expression a list of pairs of the meta-grammar
stands for: `~` binds tighter than `|`, both group to the left, a leading `|` is ignored, a tag wraps the whole term, prefix
operators apply to everything after them in the term, postfix operators apply left to right to the node before them,
parentheses are transparent; `RuleV` / `RulesV` add names, modifiers and the skipping of doc comments.

* `reader_exact` — for EVERY text: the reader (`ReaderFull.readGrammar`: reference denotation of the regenerated `grammar.pest`,
  then `consume_rules`) returns `rs` exactly when the text parses, its pairs denote `rs`, and `validate_ast` has nothing to
  report. (Uses C09's `meta_forest`: the pairs always have the shape the reader relies on.)
* `reads_denoted` — the direction that needs no shape hypothesis: on any pairs that denote `e`, `consume_expr` returns `e`.
* `printable_denotable` — every printable expression (no optimizer-only `Skip`; tags / `PUSH_LITERAL` only with `grammar-extras`;
  the counts the reader lets through) is denoted by a form that uses parentheses only where precedence requires them
  (`Den r e`: in parentheses exactly when the level of `e` is below the level `r` of its position).

Not covered by a theorem: that the meta-grammar tokenises a PRINTED text (with any spacing and comments) into the pairs of the
form `printable_denotable` gives — this is the round-trip correspondence of the C07 check (random spellings, both builds) and
C14 (generated meta-parser = reference denotation). The spellings of the leaves are `C07.unescape_spell`, `count_roundtrip`,
`index_roundtrip`.
-/
namespace PestModel.C07Pairs
open PestModel.G PestModel.ReaderFull PestModel.ReaderValue PestModel.ReaderShape
open PestModel.Views (Tree sizeList)
open PestModel.LineCol (Str)

/-- on any pairs that denote `e`, `consume_expr` returns `e` (enough fuel: the reader's own bound). -/
theorem reads_denoted (extras : Bool) (text : Str) (pairs : List Tree) (e : Expr) (h : ExprV extras text pairs e) :
    consumeExpr extras text (sizeList pairs + 1) pairs = some e :=
  (reads_value extras text _).1 pairs e h (Nat.le_refl _)

/-- **The reader, characterised on every text.** -/
theorem reader_exact (extras : Bool) (text : Str) (rs : List Rule) :
    readGrammar extras text = some rs ↔
      ∃ s' forest, PestModel.Ref.meaning PestModel.Gen.Meta.rules false noUni 1000000 "grammar_rules" text = .ok s' forest ∧
        RulesV extras text forest rs ∧ PestModel.V.validateAst extras rs = [] := by
  unfold readGrammar
  constructor
  · intro h
    split at h
    · rename_i s' forest hm
      exact ⟨s', forest, hm, (consumeRules_exact extras text forest (PestModel.MetaPost.meta_forest text _ s' forest hm) rs).1 h⟩
    · cases h
  · rintro ⟨s', forest, hm, hr, hv⟩
    rw [hm]
    exact (consumeRules_exact extras text forest (PestModel.MetaPost.meta_forest text _ s' forest hm) rs).2 ⟨hr, hv⟩

/-- every printable expression has a writing with only the parentheses precedence requires, and that writing is among the
forms pairs denote. -/
theorem printable_denotable (extras : Bool) (e : Expr) (h : Printable extras e) :
    Den extras 0 e ∧ DenE extras e :=
  ⟨den_all extras e h 0, PestModel.ReaderValue.printable_denotable extras e h⟩

/-- the forms pairs denote are exactly `DenE` (the trees forgotten). -/
theorem denoted_is_denotable (extras : Bool) (text : Str) (pairs : List Tree) (e : Expr) (h : ExprV extras text pairs e) :
    DenE extras e := denE_of_exprV h

/-! non-vacuity: `a ~ b | !c*` is printable; the reading of the hand-built pairs of `|a~b|c` is covered by the examples of
`Thm/C07Full`. -/
example : Printable false (.choice (.seq (.ident "a") (.ident "b")) (.negPred (.rep (.ident "c")))) := by
  simp [Printable]

example : Den false 4 (.seq (.ident "a") (.ident "b")) := .paren (by decide) (den_all false _ (by simp [Printable]) 0)

end PestModel.C07Pairs
