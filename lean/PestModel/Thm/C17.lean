import PestModel.Model.Debugger
import PestModel.Lemmas.Debugger
import PestModel.Lemmas.DebuggerInv
import PestModel.Lemmas.DebuggerCtrl
import PestModel.Lemmas.DebuggerTerm
import PestModel.Lemmas.DebuggerNoPanic
/-!
C17 — the debugger reports exactly the breakpoint hits of the parse under any timing.

The theorems are about the protocol model `PestModel.Dbg` (two parties, interleaved in any order:
`Reach` quantifies over every schedule and over every command history `todo`).
-/
namespace PestModel.Thm.C17
open PestModel.Dbg

/-- the initial states: any parse (entries, outcome, abort behaviour), capacity ≥ 1, any breakpoint
set and any controller command history. -/
def Init (s0 : State) : Prop :=
  ∃ entries ok ab cap bps todo, 0 < cap ∧ s0 = State.init entries ok ab cap bps todo

/-- every reachable state satisfies the global invariant. -/
theorem inv_of_reach {s0 s : State} (h0 : Init s0) (hr : Reach s0 s) : Inv s := by
  obtain ⟨entries, ok, ab, cap, bps, todo, hcap, rfl⟩ := h0
  exact Inv_reach (Inv_init entries ok ab cap bps todo hcap) hr

/-- the breakpoint event the thread has decided to send and not yet sent. -/
def pendingEv (s : State) (t : Thread) : List Event :=
  match t.pc with
  | .send k => (match s.entries[k]? with | some (r, p) => [.breakpoint r p] | none => [])
  | _ => []

/-- **Exactly the breakpoint entries, in order.** At every reachable state, the breakpoint events of
the run in progress (sent, plus the one being sent) are exactly the entries of the parse seen so far
whose rule was in the breakpoint set when the entry was checked. -/
theorem sent_eq_expected (s0 s : State) (t : Thread) (h0 : Init s0) (hr : Reach s0 s) (hc : s.cur = some t) :
    t.sent.filter isBreakpoint ++ pendingEv s t = expectedEvents s.entries s.bpsAt := by
  exact (inv_of_reach h0 hr).expd t hc

/-- **Delivery is FIFO and lossless**: what the controller has received followed by what is still in
the channel is what the run has sent. -/
theorem received_prefix (s0 s : State) (t : Thread) (h0 : Init s0) (hr : Reach s0 s) (hc : s.cur = some t) :
    s.received ++ t.chan = t.sent := by
  exact (inv_of_reach h0 hr).fifo t hc

/-- **The final event** comes after all breakpoint entries of the complete parse and is the plain
parse's outcome; nothing follows it. (A cancelled run sends no final event.) -/
theorem final_event (s0 s : State) (t : Thread) (ev : Event) (h0 : Init s0) (hr : Reach s0 s) (hc : s.cur = some t)
    (hm : ev ∈ t.sent) (hb : isBreakpoint ev = false) :
    s.bpsAt.length = s.entries.length ∧
      t.sent = expectedEvents s.entries s.bpsAt ++ [if s.finalOk then Event.eof else Event.error] := by
  have hi := inv_of_reach h0 hr
  have hp := hi.pcData t hc
  have hnb : ¬ allBp t.sent := fun h => by simp [h ev hm] at hb
  have hfs : FinalShape s t.sent := by
    cases hpc : t.pc <;> simp [hpc, PcData, hnb] at hp <;> exact hp
  exact hfs

/-- **One event per continue**: a run never has sent more breakpoint events than one plus the
number of wake-ups it was issued. -/
theorem one_per_continue (s0 s : State) (t : Thread) (h0 : Init s0) (hr : Reach s0 s) (hc : s.cur = some t) :
    (t.sent.filter isBreakpoint).length ≤ t.unparks + 1 := by
  have ht := (inv_of_reach h0 hr).tok t hc
  unfold TokOk at ht
  split at ht <;> split at ht <;> omega

/-- **Nothing while waiting for a continue**: a thread parked after a breakpoint event takes no step
(in particular sends nothing) until it is woken. -/
theorem quiet_while_waiting (s : State) (t : Thread) (k : Nat) (hc : s.cur = some t) (hp : t.pc = .park k)
    (ht : t.token = false) : parserStep s = none := by
  simp [parserStep, hc, hp, ht]

/-- while a run is being aborted the stop flag stays set (the abstraction used by `abortCheck`). -/
theorem abort_isDone (s0 s : State) (t : Thread) (n : Nat) (o : Outcome) (h0 : Init s0) (hr : Reach s0 s)
    (hc : s.cur = some t) (hp : t.pc = .abortCheck n o) : s.isDone = true := by
  have hd := (inv_of_reach h0 hr).pcData t hc
  simp [hp, PcData] at hd
  exact hd.1

/-- `n` steps of the parser thread alone. -/
def parserIter : Nat → State → Option State
  | 0, s => some s
  | n + 1, s => (parserStep s).bind (parserIter n)

/-- the restart was issued when the run's channel was empty and no wake-up was outstanding except
for a breakpoint the thread is parked at (what a controller that answers each received breakpoint
event with at most one `cont` guarantees). -/
def CleanRestart (s : State) : Prop := s.cleanRestart = true

/-- **A clean restart terminates the previous run** (partial: under the `cleanRestart` hypothesis,
which also asks that no wake-up is outstanding; see `restart_deadlock_with_early_continue`).
When the controller waits in `join`, it cannot move, and the parser thread on its own exits within
finitely many steps, none of which blocks. -/
theorem restart_terminates_partial (s0 s : State) (h0 : Init s0) (hr : Reach s0 s) (hj : s.cpc = .runJoin)
    (hcl : CleanRestart s) :
    ∃ n s' t p, parserIter n s = some s' ∧ s'.cur = some t ∧ t.pc = .exited p := by
  have hh := halts_of_inv (inv_of_reach h0 hr) hj hcl
  clear hr hj hcl
  induction hh with
  | done hc hpc => exact ⟨0, _, _, _, rfl, hc, hpc⟩
  | step hs _ ih =>
    obtain ⟨n, s'', t, p, hn, hc, hpc⟩ := ih
    exact ⟨n + 1, s'', t, p, by simp [parserIter, hs, hn], hc, hpc⟩

/-- the history `run, cont, run` on a parse with two breakpoint entries, capacity 1. -/
def earlyContInit : State :=
  State.init [(1, 0), (2, 0), (2, 1)] true [(0, .err), (0, .err), (0, .err)] 1 [2] [.run, .cont, .run]

/-- controller: run (spawn), cont (early wake-up) — parser: up to the first breakpoint decision —
controller: `run` issued with nothing delivered — parser: sends, passes `park` on the early wake-up,
decides to send the second breakpoint — controller: stop flag, unpark, join. -/
def earlyContSched : Sched :=
  [false, false, false, false, false, false,   -- cmd.run, store false, spawn, cmd.cont, load, unpark
   true, true, true, true,                     -- check 0, lock 0, check 1, lock 1 (→ send 1)
   false, false,                               -- cmd.run (nothing delivered, all received), load_done
   true, true, true, true,                     -- send B2@0, park (early token), check 2, lock 2 (→ send 2)
   false, false]                               -- store_done, unpark → join

/-- **The full statement fails**: with an early `cont`, a restart issued when every delivered event had
been received deadlocks — the controller waits in `join`, the thread in `send` on the full channel. -/
theorem restart_deadlock_with_early_continue :
    let s := exec earlyContInit earlyContSched
    s.cpc = .runJoin ∧ controllerStep s = none ∧ parserStep s = none ∧
      (∃ t, s.cur = some t ∧ s.received ++ t.chan = t.sent ∧ t.pc = .send 2) ∧ s.cleanRestart = false := by
  decide

/-- non-vacuity: the hypotheses of `restart_terminates_partial` are met by a reachable state in which
the thread is parked at a breakpoint whose event was received. -/
def cleanInit : State := State.init [(2, 0), (2, 1)] true [(1, .ok), (0, .err)] 1 [2] [.run, .recv, .run]

example : let s := exec cleanInit [false, false, false, true, true, true, false, false, false, false, false]
    s.cpc = .runJoin ∧ s.cleanRestart = true := by decide

theorem parserIter_frame : ∀ (n : Nat) {s s' : State}, parserIter n s = some s' → PanicFree s →
    PanicFree s' ∧ s'.cpc = s.cpc ∧ s'.rets = s.rets
  | 0, s, s', h, hp => by simp [parserIter] at h; subst h; exact ⟨hp, rfl, rfl⟩
  | n + 1, s, s', h, hp => by
    simp only [parserIter] at h
    cases hs : parserStep s with
    | none => simp [hs] at h
    | some s1 =>
      simp only [hs, Option.bind_some] at h
      have hf := parserStep_frame hs
      obtain ⟨a, b, c⟩ := parserIter_frame n h (PanicFree_parser hp hs)
      exact ⟨a, by rw [b, hf.2.1], by rw [c, hf.2.2.1]⟩

/-- **A clean restart starts the new run** (partial in the same way as `restart_terminates_partial`): when aborting the
parse never ends in a panic of the parser thread (`AbortsClean`: the outcomes measured on the real VM, one per entry — the
check reports a measured panic as a violation), the previous thread exits normally, `join` returns `Ok`, and the controller's
next three steps clear the flag, spawn the new thread and return `Ok(())`. -/
theorem restart_starts_new_run (s0 s : State) (h0 : Init s0) (hab : AbortsClean s0) (hr : Reach s0 s) (hj : s.cpc = .runJoin)
    (hcl : CleanRestart s) :
    ∃ n s' s1 s2 s3, parserIter n s = some s' ∧ controllerStep s' = some s1 ∧ controllerStep s1 = some s2 ∧
      controllerStep s2 = some s3 ∧ s3.cur = some Thread.fresh ∧ s3.cpc = .idle ∧ s3.rets = s.rets ++ ["run:ok"] := by
  obtain ⟨n, s', t, p, hn, hc, hpc⟩ := restart_terminates_partial s0 s h0 hr hj hcl
  have hpf0 : PanicFree s0 := by
    obtain ⟨entries, ok, ab, cap, bps, todo, _, rfl⟩ := h0
    exact PanicFree_init entries ok ab cap bps todo hab
  obtain ⟨hpf, hcpc, hrets⟩ := parserIter_frame n hn (PanicFree_reach hpf0 hr)
  have hp : p = false := by
    have := hpf.pc t hc
    rw [hpc] at this
    cases p <;> simp_all [okPc]
  subst hp
  rw [hj] at hcpc
  let s1 : State := { s' with cpc := .runStoreFalse, cur := none, old := s'.old ++ [t] }
  let s2 : State := { s1 with cpc := .runSpawn, isDone := false }
  let s3 : State := { s2 with cpc := .idle, cur := some Thread.fresh, bpsAt := [], received := [], rets := s2.rets ++ ["run:ok"] }
  refine ⟨n, s', s1, s2, s3, hn, ?_, rfl, rfl, rfl, rfl, ?_⟩
  · simp only [controllerStep, hcpc, hc, hpc, s1]
  · simp [s3, s2, s1, hrets]

/-- non-vacuity: `cleanInit` (thread parked at a received breakpoint, restart) has no panicking abort outcome. -/
example : AbortsClean cleanInit := by unfold AbortsClean cleanInit State.init; simp

end PestModel.Thm.C17
