import PestModel.Model.LineColSpec
namespace PestModel.LineCol

theorem cLen_pos (c : Char) : 0 < cLen c := Char.utf8Size_pos c
theorem cLen_le (c : Char) : cLen c ≤ 4 := Char.utf8Size_le_four c

@[simp] theorem bLen_nil : bLen [] = 0 := rfl
@[simp] theorem bLen_cons (c : Char) (cs : Str) : bLen (c :: cs) = cLen c + bLen cs := rfl
@[simp] theorem bLen_append (a b : Str) : bLen (a ++ b) = bLen a + bLen b := by
  induction a with
  | nil => simp
  | cons c cs ih => simp [ih]; omega

theorem bLen_eq_zero {s : Str} (h : bLen s = 0) : s = [] := by
  cases s with
  | nil => rfl
  | cons c cs => have := cLen_pos c; simp at h; omega

theorem splitAt_some {s : Str} {off : Nat} {pre post : Str} (h : splitAt? s off = some (pre, post)) :
    s = pre ++ post ∧ bLen pre = off := by
  induction s generalizing off pre post with
  | nil =>
    cases off with
    | zero => simp [splitAt?] at h; obtain ⟨rfl, rfl⟩ := h; simp
    | succ n => simp [splitAt?] at h
  | cons c cs ih =>
    cases off with
    | zero => simp [splitAt?] at h; obtain ⟨rfl, rfl⟩ := h; simp
    | succ n =>
      simp only [splitAt?] at h
      split at h
      · split at h
        · rename_i a b heq
          simp at h
          obtain ⟨rfl, rfl⟩ := h
          have := ih heq
          simp [this.1.symm, this.2]; omega
        · simp at h
      · simp at h

theorem splitAt_append (pre post : Str) : splitAt? (pre ++ post) (bLen pre) = some (pre, post) := by
  induction pre with
  | nil => cases post <;> simp [splitAt?]
  | cons c cs ih =>
    have := cLen_pos c
    simp only [bLen_cons, List.cons_append]
    obtain ⟨n, hn⟩ : ∃ n, cLen c + bLen cs = n + 1 := ⟨cLen c + bLen cs - 1, by omega⟩
    rw [hn]
    simp only [splitAt?]
    have h2 : n + 1 - cLen c = bLen cs := by omega
    rw [h2, ih]
    simp; omega

theorem splitAt_iff (s pre post : Str) (off : Nat) :
    splitAt? s off = some (pre, post) ↔ s = pre ++ post ∧ bLen pre = off := by
  constructor
  · exact splitAt_some
  · rintro ⟨rfl, rfl⟩; exact splitAt_append _ _

theorem isBoundary_iff (s : Str) (off : Nat) :
    isBoundary s off = true ↔ ∃ pre post, s = pre ++ post ∧ bLen pre = off := by
  unfold isBoundary
  rw [Option.isSome_iff_exists]
  constructor
  · rintro ⟨⟨a, b⟩, h⟩; exact ⟨a, b, splitAt_some h⟩
  · rintro ⟨a, b, rfl, rfl⟩; exact ⟨_, splitAt_append _ _⟩

/-- two prefixes of the same string are comparable -/
theorem prefix_of_bLen_le {p1 r1 p2 r2 : Str} (h : p1 ++ r1 = p2 ++ r2) (hle : bLen p1 ≤ bLen p2) :
    ∃ m, p2 = p1 ++ m ∧ r1 = m ++ r2 := by
  induction p1 generalizing p2 with
  | nil => exact ⟨p2, by simp, by simpa using h⟩
  | cons c cs ih =>
    cases p2 with
    | nil => have := cLen_pos c; simp at hle; omega
    | cons d ds =>
      simp at h
      obtain ⟨rfl, h⟩ := h
      simp at hle
      obtain ⟨m, rfl, rfl⟩ := ih h hle
      exact ⟨m, by simp, rfl⟩

theorem slice_append (x y z : Str) : slice? (x ++ y ++ z) (bLen x) (bLen x + bLen y) = some y := by
  unfold slice?
  rw [if_neg (by omega), List.append_assoc, splitAt_append]
  simp only
  rw [show bLen x + bLen y - bLen x = bLen y by omega, splitAt_append]

theorem slice_some {s : Str} {a b : Nat} {m : Str} (h : slice? s a b = some m) :
    ∃ x z, s = x ++ m ++ z ∧ bLen x = a ∧ a + bLen m = b := by
  unfold slice? at h
  split at h
  · simp at h
  · split at h
    · simp at h
    · rename_i p rest h1
      split at h
      · simp at h
      · rename_i mid r h2
        simp at h; subst h
        obtain ⟨rfl, rfl⟩ := splitAt_some h1
        obtain ⟨rfl, h3⟩ := splitAt_some h2
        exact ⟨p, r, by simp, rfl, by omega⟩

theorem spanNew_iff (s : Str) (a b : Nat) :
    spanNew s a b = true ↔ a ≤ b ∧ isBoundary s a = true ∧ isBoundary s b = true := by
  unfold spanNew
  rw [Option.isSome_iff_exists, isBoundary_iff, isBoundary_iff]
  constructor
  · rintro ⟨m, h⟩
    obtain ⟨x, z, rfl, rfl, rfl⟩ := slice_some h
    exact ⟨by omega, ⟨x, m ++ z, by simp, rfl⟩, ⟨x ++ m, z, rfl, by simp⟩⟩
  · rintro ⟨hab, ⟨p1, r1, rfl, rfl⟩, ⟨p2, r2, h2, rfl⟩⟩
    obtain ⟨m, rfl, rfl⟩ := prefix_of_bLen_le h2 hab
    refine ⟨m, ?_⟩
    have := slice_append p1 m r2
    simpa using this

end PestModel.LineCol
