import PestModel.Model.Grammar
import PestModel.Model.PState
/-
L7 (lowerings) — how the two back-ends turn optimized rules into `ParserState` call trees:
`pest_vm::Vm::{parse_rule, parse_expr, skip}` (`vm/src/lib.rs`) and
`pest_generator::generator::{generate_rule, generate_expr, generate_expr_atomic, generate_skip,
generate_builtin_rules}` (`generator/src/generator.rs`).

Both back-ends test `state.atomicity() == NonAtomic` at run time inside `skip`. The atomicity at
any program point is determined by the chain of enclosing rules, so the lowering resolves it
statically: every rule is lowered once per calling context (`NonAtomic`, `Atomic`,
`CompoundAtomic`); environment slot `3 * ruleIndex + ctx`.
Rule ids in the token queue: index of the rule in the grammar; `EOI` = number of rules.
-/
namespace PestModel.Lower
open PestModel.G PestModel.PS
open PestModel.LineCol (Str)

inductive Backend where
  | vm | gen
  deriving Repr, DecidableEq

def ctxIdx : Atomicity → Nat
  | .nonAtomic => 0
  | .atomic => 1
  | .compound => 2

structure Env where
  rules : List ORule
  /-- Unicode property tables by (upper-case) name; `none` = not a property. -/
  uni : String → Option CharSet

def Env.index (env : Env) (name : String) : Option Nat :=
  let rec go : List ORule → Nat → Option Nat
    | [], _ => none
    | r :: rs, i => if r.name = name then some i else go rs (i + 1)
  go env.rules 0

def Env.has (env : Env) (name : String) : Bool := (env.index name).isSome

/-- a call that panics (`panic!("undefined rule {rule}")`). -/
def undefinedRule : Prog := .call 1000000000

def rng (a b : Char) : Prog := .matchRange a b

/-- The hard-wired built-in rules (same in both back-ends). -/
def builtin (env : Env) (name : String) : Prog :=
  match name with
  | "ANY" => .skip 1
  | "EOI" => .rule env.rules.length .endOfInput
  | "SOI" => .startOfInput
  | "PEEK" => .stackPeek
  | "PEEK_ALL" => .stackMatchPeek
  | "POP" => .stackPop
  | "POP_ALL" => .stackMatchPop
  | "DROP" => .stackDrop
  | "ASCII_DIGIT" => rng '0' '9'
  | "ASCII_NONZERO_DIGIT" => rng '1' '9'
  | "ASCII_BIN_DIGIT" => rng '0' '1'
  | "ASCII_OCT_DIGIT" => rng '0' '7'
  | "ASCII_HEX_DIGIT" => .orElse (.orElse (rng '0' '9') (rng 'a' 'f')) (rng 'A' 'F')
  | "ASCII_ALPHA_LOWER" => rng 'a' 'z'
  | "ASCII_ALPHA_UPPER" => rng 'A' 'Z'
  | "ASCII_ALPHA" => .orElse (rng 'a' 'z') (rng 'A' 'Z')
  | "ASCII_ALPHANUMERIC" => .orElse (.orElse (rng 'a' 'z') (rng 'A' 'Z')) (rng '0' '9')
  | "ASCII" => rng '\x00' '\x7f'
  | "NEWLINE" => .orElse (.orElse (.matchString ['\n']) (.matchString ['\r', '\n'])) (.matchString ['\r'])
  | _ =>
    match env.uni name with
    | some cs => .matchCharBy cs
    | none => undefinedRule

/-- `Ident(name)` in context `ctx`: the grammar's own rule if it defines one, else the built-in. -/
def callRule (env : Env) (name : String) (ctx : Atomicity) : Prog :=
  match env.index name with
  | some i => .call (3 * i + ctxIdx ctx)
  | none => builtin env name

/-- `skip` (identical in both back-ends). -/
def skipProg (env : Env) (ctx : Atomicity) : Prog :=
  if ctx ≠ .nonAtomic then .ok else
  let ws := callRule env "WHITESPACE" .nonAtomic
  let cm := callRule env "COMMENT" .nonAtomic
  match env.has "WHITESPACE", env.has "COMMENT" with
  | false, false => .ok
  | true, false => .repeat_ ws
  | false, true => .repeat_ cm
  | true, true =>
    .sequence (.andThen (.repeat_ ws) (.repeat_ (.sequence (.andThen cm (.repeat_ ws)))))

/-- `Vm::parse_expr`. -/
def vmExpr (env : Env) (ctx : Atomicity) : OExpr → Prog
  | .str s => .matchString s
  | .insens s => .matchInsensitive s
  | .range a b => .matchRange a b
  | .ident n => callRule env n ctx
  | .peekSlice a b => .stackMatchPeekSlice a b .bottomToTop
  | .posPred e => .lookahead true (vmExpr env ctx e)
  | .negPred e => .lookahead false (vmExpr env ctx e)
  | .seq a b => .sequence (.andThen (.andThen (vmExpr env ctx a) (skipProg env ctx)) (vmExpr env ctx b))
  | .choice a b => .orElse (vmExpr env ctx a) (vmExpr env ctx b)
  | .opt e => .optional (vmExpr env ctx e)
  | .rep e =>
    .sequence (.optional (.andThen (vmExpr env ctx e)
      (.repeat_ (.sequence (.andThen (skipProg env ctx) (vmExpr env ctx e))))))
  | .repOnce e =>
    .sequence (.andThen (vmExpr env ctx e)
      (.repeat_ (.sequence (.andThen (skipProg env ctx) (vmExpr env ctx e)))))
  | .push e => .stackPush (vmExpr env ctx e)
  | .pushLiteral s => .stackPushLiteral s
  | .skip ss => .skipUntil ss
  | .nodeTag e t => .andThen (vmExpr env ctx e) (.tagNode t)
  | .restoreOnErr e => .restoreOnErr (vmExpr env ctx e)

/-- flatten a right-nested `Seq` / `Choice` as the generator's `while let` loops do. -/
def seqItems : OExpr → List OExpr
  | .seq a b => a :: seqItems b
  | e => [e]

def choiceItems : OExpr → List OExpr
  | .choice a b => a :: choiceItems b
  | e => [e]

def osize : OExpr → Nat
  | .posPred e | .negPred e | .opt e | .rep e | .repOnce e | .push e | .nodeTag e _ | .restoreOnErr e => osize e + 1
  | .seq a b | .choice a b => osize a + osize b + 1
  | _ => 1

/-- `generate_expr` (`atomicGen = false`, with `skip` calls) and `generate_expr_atomic`
(`atomicGen = true`). Fuel = expression size (the flattening makes the recursion non-structural). -/
def genExprWith (skipP : Prog) (callP : String → Prog) (atomicGen : Bool) : Nat → OExpr → Prog
  | 0, _ => .fail
  | fuel + 1, e =>
    let g := genExprWith skipP callP atomicGen fuel
    match e with
    | .str s => .matchString s
    | .insens s => .matchInsensitive s
    | .range a b => .matchRange a b
    | .ident n => callP n
    | .peekSlice a b => .stackMatchPeekSlice a b .bottomToTop
    | .posPred e => .lookahead true (g e)
    | .negPred e => .lookahead false (g e)
    | .seq a b =>
      let items := seqItems (.seq a b)
      match items with
      | [] => .fail
      | head :: tail =>
        .sequence (tail.foldl (fun acc t =>
          if atomicGen then .andThen acc (g t) else .andThen (.andThen acc skipP) (g t)) (g head))
    | .choice a b =>
      match choiceItems (.choice a b) with
      | [] => .fail
      | head :: tail => tail.foldl (fun acc t => .orElse acc (g t)) (g head)
    | .opt e => .optional (g e)
    | .rep e =>
      if atomicGen then .repeat_ (g e)
      else .sequence (.optional (.andThen (g e) (.repeat_ (.sequence (.andThen skipP (g e))))))
    | .repOnce e =>
      if atomicGen then .sequence (.andThen (g e) (.repeat_ (.sequence (g e))))
      else .sequence (.andThen (g e) (.repeat_ (.sequence (.andThen skipP (g e)))))
    | .skip ss => .skipUntil ss
    | .push e => .stackPush (g e)
    | .pushLiteral s => .stackPushLiteral s
    | .restoreOnErr e => .restoreOnErr (g e)
    | .nodeTag (.opt e) t => .optional (.andThen (g e) (.tagNode t))
    | .nodeTag (.rep e) t =>
      if atomicGen then .repeat_ (.andThen (g e) (.tagNode t))
      else .sequence (.optional (.andThen (.andThen (g e)
        (.repeat_ (.sequence (.andThen skipP (.andThen (g e) (.tagNode t)))))) (.tagNode t)))
    | .nodeTag e t => .andThen (g e) (.tagNode t)

/-- `generate_expr` / `generate_expr_atomic` with the calling context resolved statically. -/
def genExpr (env : Env) (ctx : Atomicity) (atomicGen : Bool) (fuel : Nat) (e : OExpr) : Prog :=
  genExprWith (skipProg env ctx) (fun n => callRule env n ctx) atomicGen fuel e

def isWsCm (name : String) : Bool := name = "WHITESPACE" ∨ name = "COMMENT"

/-- `Vm::parse_rule` for a rule the grammar defines, called in context `ctx`. -/
def vmRule (env : Env) (id : Nat) (r : ORule) (ctx : Atomicity) : Prog :=
  if isWsCm r.name then
    match r.ty with
    | .normal => .rule id (.atomic .atomic (vmExpr env .atomic r.expr))
    | .silent => .atomic .atomic (vmExpr env .atomic r.expr)
    | .atomic => .rule id (.atomic .atomic (vmExpr env .atomic r.expr))
    | .compound => .atomic .compound (.rule id (vmExpr env .compound r.expr))
    | .nonAtomic => .atomic .nonAtomic (.rule id (.atomic .atomic (vmExpr env .atomic r.expr)))
  else
    match r.ty with
    | .normal => .rule id (vmExpr env ctx r.expr)
    | .silent => vmExpr env ctx r.expr
    | .atomic => .rule id (.atomic .atomic (vmExpr env .atomic r.expr))
    | .compound => .atomic .compound (.rule id (vmExpr env .compound r.expr))
    | .nonAtomic => .atomic .nonAtomic (.rule id (vmExpr env .nonAtomic r.expr))

/-- `generate_rule`. -/
def genRule (env : Env) (id : Nat) (r : ORule) (ctx : Atomicity) : Prog :=
  let fuel := osize r.expr + 1
  match r.ty with
  | .atomic => .rule id (.atomic .atomic (genExpr env .atomic true fuel r.expr))
  | .compound => .atomic .compound (.rule id (genExpr env .compound true fuel r.expr))
  | ty =>
    let body (c : Atomicity) : Prog :=
      if isWsCm r.name then .atomic .atomic (genExpr env .atomic true fuel r.expr)
      else genExpr env c false fuel r.expr
    match ty with
    | .normal => .rule id (body ctx)
    | .silent => body ctx
    | _ => .atomic .nonAtomic (.rule id (body .nonAtomic))

/-- markers used by the symbolic form: `call skipMarker` stands for `super::hidden::skip(state)`,
`call (nameMarker + i)` for `self::<names[i]>(state)`. -/
def skipMarker : Nat := 900000000
def nameMarker : Nat := 800000000

/-- `generate_rule` exactly as emitted (one function per rule; `skip` and rule calls symbolic). -/
def genRuleSym (names : List String) (id : Nat) (r : ORule) : Prog :=
  let callP := fun (n : String) =>
    match names.findIdx? (· = n) with
    | some i => Prog.call (nameMarker + i)
    | none => Prog.call (nameMarker + names.length)
  let fuel := osize r.expr + 1
  let sym := fun (atomicGen : Bool) => genExprWith (.call skipMarker) callP atomicGen fuel r.expr
  let body : Prog :=
    if r.ty = .atomic ∨ r.ty = .compound then sym true
    else if isWsCm r.name then .atomic .atomic (sym true)
    else sym false
  match r.ty with
  | .normal => .rule id body
  | .silent => body
  | .atomic => .rule id (.atomic .atomic body)
  | .compound => .atomic .compound (.rule id body)
  | .nonAtomic => .atomic .nonAtomic (.rule id body)

/-- all rule names referenced by an expression. -/
def identsOf : OExpr → List String
  | .ident n => [n]
  | .posPred e | .negPred e | .opt e | .rep e | .repOnce e | .push e | .nodeTag e _ | .restoreOnErr e => identsOf e
  | .seq a b | .choice a b => identsOf a ++ identsOf b
  | _ => []

/-- the grammar's rule names followed by the other (built-in) names it refers to. -/
def symbolNames (rules : List ORule) : List String :=
  let own := rules.map (·.name)
  own ++ ((rules.flatMap fun r => identsOf r.expr).filter (fun n => !own.contains n)).eraseDups

def contexts : List Atomicity := [.nonAtomic, .atomic, .compound]

/-- The environment of call trees: slot `3 * i + ctx`. -/
def lowerAll (b : Backend) (env : Env) : List Prog :=
  let rec go : List ORule → Nat → List Prog
    | [], _ => []
    | r :: rs, i =>
      contexts.map (fun c => match b with | .vm => vmRule env i r c | .gen => genRule env i r c) ++ go rs (i + 1)
  go env.rules 0

/-- `Vm::parse(rule, input)` / `<Generated>::parse(Rule::rule, input)`: the entry point calls the
rule in the initial (non-atomic) context. -/
def entry (env : Env) (name : String) : Prog := callRule env name .nonAtomic

end PestModel.Lower
