"""C06 — validation guarantees termination and accepts well-formed grammars."""
from props.common import *

MODULE = "PestModel.Thm.C06"
DRV, MODE = "drv_valid", "grammar"


SKIPREC_ID = "C06-implicit-skip-recursion"


def classify(ctx, kind, t):
    """non-termination of an accepted grammar in which WHITESPACE/COMMENT refers to rules and some rule is `!{}`
    (the implicit skip inside the non-atomic rule re-enters WHITESPACE/COMMENT) is the recorded finding."""
    import re
    i, op, imp, verdict = t
    if kind != "oracle" or "does not terminate" not in verdict:
        return None
    ws_refs = False
    for m in re.finditer(r"\(rule (WHITESPACE|COMMENT) \w ", op):
        depth, k = 1, m.end()
        while k < len(op) and depth > 0:
            depth += (op[k] == "(") - (op[k] == ")"); k += 1
        if re.search(r"\(id (?!ANY|SOI|EOI|ASCII_|NEWLINE)", op[m.end():k]):
            ws_refs = True
    if ws_refs and re.search(r"\(rule \S+ x ", op) and ctx.match_known(lambda k: k["id"] == SKIPREC_ID):
        return {"id": SKIPREC_ID, "what": "an accepted grammar whose WHITESPACE/COMMENT reaches a non-atomic `!{}` rule that can reach its first `~` without consuming input recurses for ever through the implicit skip: WHITESPACE = _{ a }  a = !{ EOI ~ \"x\" } (native stack overflow on any input)"}
    return None


def search(ctx, drv, mism):
    """The verdicts differ. Grammars the implementation ACCEPTS although the model rejects them are run through the
    termination oracle (VM in a child process, all inputs up to 3 characters from every rule)."""
    cand = sorted([op for (i, op, imp, mod) in mism if imp == "ok"], key=lambda o: (len(o), o))[:150]
    if not cand:
        return None
    d = os.path.join(ctx.rundir, "search"); os.makedirs(d, exist_ok=True)
    f = os.path.join(d, "ops_in.txt"); open(f, "w").write("\n".join(cand) + "\n")
    rc, out = sh([drv, "run", f, d], timeout=1500)
    ops, orc = read_lines(os.path.join(d, "ops.txt")), read_lines(os.path.join(d, "oracle.txt"))
    for op, v in zip(ops, orc):
        if v.startswith("FAIL") and "does not terminate" in v:
            return {"kind": "the validator accepts a stack-free grammar that does not terminate (VM killed by the time limit / native stack overflow on some input of length <= 3 from one of its rules)",
                    "case": op, "oracle": v, "model_verdict": next((mod for (i, o, imp, mod) in mism if o == op), None), "accepted_but_model_rejects": len(cand)}
    return None


def run(ctx):
    cs = simple_property(
        ctx, MODULE, DRV, MODE,
        oracle_kind="an accepted stack-free grammar does not terminate on some input (VM in a child process), or a strictly guarded grammar is rejected",
        corr_kind="correspondence `L` (pest_meta's verdict: accepted / the multiset of finding kinds and left-recursive rule names, vs the Lean validator model)",
        rule="seeded random NEAR-MISS grammars: rule references at any position incl. leftmost and to the rule itself, direct and mutual recursion through ?, *, +, !, &, {n}, {n,}, {,n}, {m,n}, PUSH (and #tag with grammar-extras), empty strings, non-failing repetition bodies and alternatives, good and bad WHITESPACE definitions; every 5th grammar strictly guarded (must be accepted); the grammar is printed and read with the real front-end; the verdict is compared with the Lean model; soundness oracle: 700 (quick) / 6000 (thorough) accepted stack-free grammars are run in the VM from every rule on ALL inputs up to 3 characters in a child process under a time limit; non-trivial = rejected grammars (each with its exact set of findings)",
        nontrivial_key="distinct_nontrivial",
        assumptions=[
            "error messages are mapped to kinds by text; spans are not compared (the left-recursion chain text depends on HashMap order)",
            "non-termination can only be observed (time limit / native stack); the termination theorem is about the reference semantics",
        ],
        leancheck=[MODULE, "PestModel.Model.Validator"], classify=classify, search=search,
    )
    ok, out, bindir, _ = cargo_build("extras", [DRV])
    if ok:
        c = correspond("gen-extras", os.path.join(bindir, DRV), ["gen", ctx.tier, str(ctx.seed)], MODE, os.path.join(ctx.rundir, "gen-extras"))
        if c.error:
            ctx.violation({"correspondence": c.name, "error": c.error}, no_input=True)
        elif c.oracle_fail:
            i, op, imp, verdict = min(c.oracle_fail, key=lambda t: (len(t[1]), t[1]))
            ctx.violation({"kind": "validator oracle fails (grammar-extras)", "features": "extras", "case": op, "oracle": verdict})
        elif c.mismatch:
            i, op, imp, mod = min(c.mismatch, key=lambda t: (len(t[1]), t[1]))
            ctx.violation({"kind": "correspondence `L` no longer checks (grammar-extras)", "features": "extras", "case": op, "impl": imp, "model": mod}, no_input=True)
        ev_path = os.path.join(EVIDENCE, f"{ctx.prop}.json")
        ev = json.load(open(ev_path))
        ev["coverage"]["distribution"]["gen-extras"] = {k: v for k, v in c.stats.items() if k != "samples"}
        ev["coverage"]["evaluations"] += c.n
        ev["violations"] = len(ctx.violations)
        json.dump(ev, open(ev_path, "w"), indent=1)


def replay(ctx, path):
    r = json.load(open(path))
    return replay_generic(ctx, path, DRV, MODE, featureset=("extras" if r.get("features") == "extras" else "default"))
