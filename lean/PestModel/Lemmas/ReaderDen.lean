import PestModel.Lemmas.ReaderValue
/-!
C07, value level: **every printable expression can be written, with parentheses only where precedence requires them, in a
form that the pairs-to-expression reading (`ReaderValue`) maps back to it.**

* `DenE` / `DenT` / `DenB` / `DenN`: the expressions that pairs can denote — `ExprV` & co. with the trees forgotten (`denE_of_exprV`);
* `Den r e`: `e` written at a position that requires binding level `r` (`|` 0, `~` 1, tagged term 2, prefix 3, postfix 4,
  atom 5), in parentheses exactly when its own level is lower;
* `den_all`: every printable expression has such a writing at every position;
* `denE_of_den`: such a writing is among the denotable forms.
-/
namespace PestModel.ReaderValue
open PestModel.G PestModel.Reader PestModel.ReaderFull PestModel.ReaderShape
open PestModel.Views (Tree sizeList)
open PestModel.LineCol (Str)
open PestModel.C07Full

inductive Post where
  | opt | rep | repOnce
  | exact (n : Nat) | min (n : Nat) | max (n : Nat) | minmax (lo hi : Nat)

def Post.apply : Post → Expr → Expr
  | .opt, e => .opt e
  | .rep, e => .rep e
  | .repOnce, e => .repOnce e
  | .exact n, e => .repExact e n
  | .min n, e => .repMin e n
  | .max n, e => .repMax e n
  | .minmax lo hi, e => .repMinMax e lo hi

/-- the counts the reader lets through. -/
def Post.ok : Post → Prop
  | .exact n => n ≠ 0
  | .max n => n ≠ 0
  | .minmax _ hi => hi ≠ 0
  | _ => True

def applyPosts (x : Expr) (ps : List Post) : Expr := ps.foldl (fun e p => p.apply e) x

def isLeaf (extras : Bool) : Expr → Bool
  | .str _ | .insens _ | .range _ _ | .ident _ | .peekSlice _ _ => true
  | .pushLiteral _ => extras
  | _ => false

mutual
  inductive DenE (extras : Bool) : Expr → Prop
    | mk (x0 : Expr) (xs : List (Bool × Expr)) : DenT extras x0 → (∀ p ∈ xs, DenT extras p.2) → DenE extras (foldGo none x0 xs)
  inductive DenT (extras : Bool) : Expr → Prop
    | tagged {x : Expr} (name : Str) : extras = true → DenB extras x → DenT extras (.nodeTag x name)
    | plain {x : Expr} : DenB extras x → DenT extras x
  inductive DenB (extras : Bool) : Expr → Prop
    | pos {x : Expr} : DenB extras x → DenB extras (.posPred x)
    | neg {x : Expr} : DenB extras x → DenB extras (.negPred x)
    | node {x : Expr} (posts : List Post) : DenN extras x → (∀ p ∈ posts, p.ok) → DenB extras (applyPosts x posts)
  inductive DenN (extras : Bool) : Expr → Prop
    | paren {x : Expr} : DenE extras x → DenN extras x
    | push {x : Expr} : DenE extras x → DenN extras (.push x)
    | leaf {x : Expr} : isLeaf extras x = true → DenN extras x
end

/-! ### the pairs-to-expression reading lands in these forms -/

theorem posts_of_postsV {text : Str} {ps : List Tree} {x y : Expr} (h : PostsV text ps x y) :
    ∃ posts : List Post, y = applyPosts x posts ∧ ∀ p ∈ posts, p.ok := by
  induction h with
  | nil x => exact ⟨[], rfl, by simp⟩
  | cons hp _ ih =>
    obtain ⟨posts, rfl, hok⟩ := ih
    rcases hp with ⟨_, rfl⟩ | ⟨_, rfl⟩ | ⟨_, rfl⟩ | ⟨_, _, _, _, _, _, k, _, hk, rfl⟩ | ⟨_, _, _, _, _, k, _, rfl⟩ |
      ⟨_, _, _, _, _, _, k, _, hk, rfl⟩ | ⟨_, _, _, _, _, _, _, lo, hi, _, _, hk, rfl⟩
    · exact ⟨.opt :: posts, rfl, by intro p hp; rcases List.mem_cons.1 hp with rfl | hp; trivial; exact hok p hp⟩
    · exact ⟨.rep :: posts, rfl, by intro p hp; rcases List.mem_cons.1 hp with rfl | hp; trivial; exact hok p hp⟩
    · exact ⟨.repOnce :: posts, rfl, by intro p hp; rcases List.mem_cons.1 hp with rfl | hp; trivial; exact hok p hp⟩
    · exact ⟨.exact k :: posts, rfl, by intro p hp; rcases List.mem_cons.1 hp with rfl | hp; exact hk; exact hok p hp⟩
    · exact ⟨.min k :: posts, rfl, by intro p hp; rcases List.mem_cons.1 hp with rfl | hp; trivial; exact hok p hp⟩
    · exact ⟨.max k :: posts, rfl, by intro p hp; rcases List.mem_cons.1 hp with rfl | hp; exact hk; exact hok p hp⟩
    · exact ⟨.minmax lo hi :: posts, rfl, by intro p hp; rcases List.mem_cons.1 hp with rfl | hp; exact hk; exact hok p hp⟩

theorem isLeaf_of_leafNode {extras : Bool} {text : Str} {t : Tree} {x : Expr} (h : leafNode extras text t = some x) :
    isLeaf extras x = true := by
  unfold leafNode at h
  simp only [] at h
  split at h
  · split at h
    · rename_i he
      split at h
      · simp only [Option.map_eq_some_iff] at h
        obtain ⟨s, _, rfl⟩ := h
        simpa [isLeaf] using he
      · simp at h
    · simp at h
  · split at h
    · unfold peekSlice at h
      split at h
      · simp only [] at h
        split at h
        · split at h
          · simp at h; rw [← h]; rfl
          · split at h
            · split at h
              · simp only [Option.map_eq_some_iff] at h; obtain ⟨_, _, rfl⟩ := h; rfl
              · simp at h
            · simp at h
        · simp at h
      · simp at h
    · split at h
      · simp only [Option.map_eq_some_iff] at h; obtain ⟨_, _, rfl⟩ := h; rfl
      · split at h
        · simp only [Option.map_eq_some_iff] at h; obtain ⟨_, _, rfl⟩ := h; rfl
        · split at h
          · split at h
            · simp only [Option.map_eq_some_iff] at h; obtain ⟨_, _, rfl⟩ := h; rfl
            · simp at h
          · split at h
            · split at h
              · split at h
                · split at h
                  · simp at h; rw [← h]; rfl
                  · simp at h
                · simp at h
              · simp at h
            · simp at h


mutual
  theorem denE_of_exprV {extras : Bool} {text : Str} : ∀ {ps : List Tree} {e : Expr}, ExprV extras text ps e → DenE extras e
    | _, _, .mk _ _ _ x0 xs _ _ hu0 hr => .mk x0 xs (denT_of_unArgsV hu0) (denT_of_restV hr)
  theorem denT_of_restV {extras : Bool} {text : Str} : ∀ {ps : List Tree} {xs : List (Bool × Expr)},
      RestV extras text ps xs → ∀ p ∈ xs, DenT extras p.2
    | _, _, .nil => by intro p hp; simp at hp
    | _, _, .cons _ _ hu hr => by
      intro p hp
      rcases List.mem_cons.1 hp with rfl | hp
      · exact denT_of_unArgsV hu
      · exact denT_of_restV hr p hp
  theorem denT_of_unArgsV {extras : Bool} {text : Str} : ∀ {ps : List Tree} {e : Expr}, UnArgsV extras text ps e → DenT extras e
    | _, _, .tagged (name := name) _ _ hb => by
      by_cases h : extras = true
      · rw [if_pos h]; exact .tagged name h (denB_of_unBodyV hb)
      · rw [if_neg h]; exact .plain (denB_of_unBodyV hb)
    | _, _, .plain hb => .plain (denB_of_unBodyV hb)
    | _, _, .parenRest _ hx _ hp => by
      obtain ⟨posts, rfl, hok⟩ := posts_of_postsV hp
      exact .plain (.node posts (.paren (denE_of_exprV hx)) hok)
  theorem denB_of_unBodyV {extras : Bool} {text : Str} : ∀ {ps : List Tree} {e : Expr}, UnBodyV extras text ps e → DenB extras e
    | _, _, .pos _ hb => .pos (denB_of_unBodyV hb)
    | _, _, .neg _ hb => .neg (denB_of_unBodyV hb)
    | _, _, .paren _ _ hx _ hp => by
      obtain ⟨posts, rfl, hok⟩ := posts_of_postsV hp
      exact .node posts (.paren (denE_of_exprV hx)) hok
    | _, _, .push _ _ _ hx hp => by
      obtain ⟨posts, rfl, hok⟩ := posts_of_postsV hp
      exact .node posts (.push (denE_of_exprV hx)) hok
    | _, _, .leaf hl hp => by
      obtain ⟨posts, rfl, hok⟩ := posts_of_postsV hp
      exact .node posts (.leaf (isLeaf_of_leafNode hl.2)) hok
end


/-! ### writing an expression with the parentheses precedence requires -/

/-- binding level of the outermost construct. -/
def lvl : Expr → Nat
  | .choice _ _ => 0
  | .seq _ _ => 1
  | .nodeTag _ _ => 2
  | .posPred _ | .negPred _ => 3
  | .opt _ | .rep _ | .repOnce _ | .repExact _ _ | .repMin _ _ | .repMax _ _ | .repMinMax _ _ _ => 4
  | _ => 5

mutual
  /-- `e` written at a position that requires level `r`: as it is when its level suffices, in parentheses otherwise. -/
  inductive Den (extras : Bool) : Nat → Expr → Prop
    | here {r : Nat} {e : Expr} : r ≤ lvl e → Form extras e → Den extras r e
    | paren {r : Nat} {e : Expr} : lvl e < r → Den extras 0 e → Den extras r e
  /-- the outermost construct with its operands at the positions the grammar gives them: `|` and `~` group to the left
  (the left operand may be of the same level, the right one must bind tighter), a tag or a prefix operator is followed by
  prefix operators / a node with its postfix operators, a postfix operator follows a node or another postfix operator. -/
  inductive Form (extras : Bool) : Expr → Prop
    | choice {a b : Expr} : Den extras 0 a → Den extras 1 b → Form extras (.choice a b)
    | seq {a b : Expr} : Den extras 1 a → Den extras 2 b → Form extras (.seq a b)
    | tag {x : Expr} {t : Str} : extras = true → Den extras 3 x → Form extras (.nodeTag x t)
    | pos {x : Expr} : Den extras 3 x → Form extras (.posPred x)
    | neg {x : Expr} : Den extras 3 x → Form extras (.negPred x)
    | post {x : Expr} (p : Post) : p.ok → Den extras 4 x → Form extras (p.apply x)
    | push {x : Expr} : Den extras 0 x → Form extras (.push x)
    | leaf {x : Expr} : isLeaf extras x = true → Form extras x
end

/-- what can be written at all: no optimizer-only `Skip`, tags and `PUSH_LITERAL` only with `grammar-extras`, the counts
the reader lets through. -/
def Printable (extras : Bool) : Expr → Prop
  | .str _ | .insens _ | .range _ _ | .ident _ | .peekSlice _ _ => True
  | .pushLiteral _ => extras = true
  | .skip _ => False
  | .posPred e | .negPred e | .opt e | .rep e | .repOnce e | .push e | .repMin e _ => Printable extras e
  | .repExact e n => n ≠ 0 ∧ Printable extras e
  | .repMax e n => n ≠ 0 ∧ Printable extras e
  | .repMinMax e _ hi => hi ≠ 0 ∧ Printable extras e
  | .nodeTag e _ => extras = true ∧ Printable extras e
  | .seq a b | .choice a b => Printable extras a ∧ Printable extras b

theorem den_of_form {extras : Bool} {e : Expr} (hf : Form extras e) (r : Nat) : Den extras r e := by
  by_cases h : r ≤ lvl e
  · exact .here h hf
  · exact .paren (by omega) (.here (Nat.zero_le _) hf)

/-- **every printable expression can be written at every position** (in parentheses exactly when its level is too low). -/
theorem den_all (extras : Bool) : ∀ (e : Expr), Printable extras e → ∀ r, Den extras r e
  | .str _, _, r => den_of_form (.leaf rfl) r
  | .insens _, _, r => den_of_form (.leaf rfl) r
  | .range _ _, _, r => den_of_form (.leaf rfl) r
  | .ident _, _, r => den_of_form (.leaf rfl) r
  | .peekSlice _ _, _, r => den_of_form (.leaf rfl) r
  | .pushLiteral _, h, r => den_of_form (.leaf (by simpa [isLeaf, Printable] using h)) r
  | .skip _, h, _ => absurd h (by simp [Printable])
  | .posPred e, h, r => den_of_form (.pos (den_all extras e h 3)) r
  | .negPred e, h, r => den_of_form (.neg (den_all extras e h 3)) r
  | .opt e, h, r => den_of_form (.post .opt trivial (den_all extras e h 4)) r
  | .rep e, h, r => den_of_form (.post .rep trivial (den_all extras e h 4)) r
  | .repOnce e, h, r => den_of_form (.post .repOnce trivial (den_all extras e h 4)) r
  | .repMin e n, h, r => den_of_form (.post (.min n) trivial (den_all extras e h 4)) r
  | .repExact e n, h, r => den_of_form (.post (.exact n) h.1 (den_all extras e h.2 4)) r
  | .repMax e n, h, r => den_of_form (.post (.max n) h.1 (den_all extras e h.2 4)) r
  | .repMinMax e lo hi, h, r => den_of_form (.post (.minmax lo hi) h.1 (den_all extras e h.2 4)) r
  | .push e, h, r => den_of_form (.push (den_all extras e h 0)) r
  | .nodeTag e t, h, r => den_of_form (.tag h.1 (den_all extras e h.2 3)) r
  | .seq a b, h, r => den_of_form (.seq (den_all extras a h.1 1) (den_all extras b h.2 2)) r
  | .choice a b, h, r => den_of_form (.choice (den_all extras a h.1 0) (den_all extras b h.2 1)) r


/-! ### such a writing is among the forms pairs denote -/

def falses (ys : List Expr) : List (Bool × Expr) := ys.map fun z => (false, z)

theorem foldGo_split (y : Expr) (zs : List (Bool × Expr)) : ∀ (xs : List (Bool × Expr)) (acc : Option Expr) (cur : Expr),
    foldGo acc cur (xs ++ (true, y) :: zs) = foldGo (some (foldGo acc cur xs)) y zs
  | [], acc, cur => by simp [foldGo]
  | (false, x) :: r, acc, cur => by simp only [List.cons_append, foldGo]; exact foldGo_split y zs r acc _
  | (true, x) :: r, acc, cur => by simp only [List.cons_append, foldGo]; exact foldGo_split y zs r _ x

theorem foldGo_some_falses (A : Expr) : ∀ (ys : List Expr) (y : Expr),
    foldGo (some A) y (falses ys) = .choice A (foldGo none y (falses ys))
  | [], y => by simp [falses, foldGo, joinE]
  | z :: r, y => by simp only [falses, List.map_cons, foldGo]; exact foldGo_some_falses A r _

theorem foldGo_snoc_false (b : Expr) : ∀ (ys : List Expr) (y : Expr),
    foldGo none y (falses (ys ++ [b])) = .seq (foldGo none y (falses ys)) b
  | [], y => by simp [falses, foldGo, joinE]
  | z :: r, y => by
    simp only [falses, List.cons_append, List.map_cons, foldGo]
    exact foldGo_snoc_false b r _

/-- node with postfix operators. -/
def DenPN (extras : Bool) (e : Expr) : Prop := ∃ x posts, DenN extras x ∧ (∀ p ∈ posts, Post.ok p) ∧ e = applyPosts x posts
/-- `~`-chain of terms. -/
def DenS (extras : Bool) (e : Expr) : Prop :=
  ∃ y ys, DenT extras y ∧ (∀ z ∈ ys, DenT extras z) ∧ e = foldGo none y (falses ys)

/-- the form available at a position of level `k`. -/
def Lev (extras : Bool) : Nat → Expr → Prop
  | 0, e => DenE extras e
  | 1, e => DenS extras e
  | 2, e => DenT extras e
  | 3, e => DenB extras e
  | _, e => DenPN extras e

theorem denB_of_denPN {extras : Bool} {e : Expr} (h : DenPN extras e) : DenB extras e := by
  obtain ⟨x, posts, hn, hok, rfl⟩ := h; exact .node posts hn hok
theorem denS_of_denT {extras : Bool} {e : Expr} (h : DenT extras e) : DenS extras e := ⟨e, [], h, by simp, by simp [falses, foldGo, joinE]⟩
theorem denE_of_denS {extras : Bool} {e : Expr} (h : DenS extras e) : DenE extras e := by
  obtain ⟨y, ys, hy, hys, rfl⟩ := h
  exact .mk y (falses ys) hy (by intro p hp; obtain ⟨z, hz, rfl⟩ := List.mem_map.1 hp; exact hys z hz)

theorem lev_mono {extras : Bool} {e : Expr} : ∀ {k k' : Nat}, k' ≤ k → k ≤ 4 → Lev extras k e → Lev extras k' e
  | 4, 4, _, _, h => h
  | 4, 3, _, _, h => denB_of_denPN h
  | 4, 2, _, _, h => .plain (denB_of_denPN h)
  | 4, 1, _, _, h => denS_of_denT (.plain (denB_of_denPN h))
  | 4, 0, _, _, h => denE_of_denS (denS_of_denT (.plain (denB_of_denPN h)))
  | 3, 3, _, _, h => h
  | 3, 2, _, _, h => .plain h
  | 3, 1, _, _, h => denS_of_denT (.plain h)
  | 3, 0, _, _, h => denE_of_denS (denS_of_denT (.plain h))
  | 2, 2, _, _, h => h
  | 2, 1, _, _, h => denS_of_denT h
  | 2, 0, _, _, h => denE_of_denS (denS_of_denT h)
  | 1, 1, _, _, h => h
  | 1, 0, _, _, h => denE_of_denS h
  | 0, 0, _, _, h => h
  | 0, k' + 1, h, _, _ => by omega
  | 1, k' + 2, h, _, _ => by omega
  | 2, k' + 3, h, _, _ => by omega
  | 3, k' + 4, h, _, _ => by omega
  | 4, k' + 5, h, _, _ => by omega
  | k + 5, _, _, h, _ => by omega

theorem lvl_leaf {extras : Bool} {e : Expr} (h : isLeaf extras e = true) : lvl e = 5 := by
  cases e <;> simp [isLeaf] at h <;> rfl

theorem lvl_post (p : Post) (x : Expr) : lvl (p.apply x) = 4 := by cases p <;> rfl

theorem applyPosts_snoc (x : Expr) (posts : List Post) (p : Post) : p.apply (applyPosts x posts) = applyPosts x (posts ++ [p]) := by
  simp [applyPosts, List.foldl_append]

mutual
  theorem lev_of_den {extras : Bool} : ∀ {r : Nat} {e : Expr}, Den extras r e → Lev extras (min r 4) e
    | r, e, .here hr hf => lev_mono (by omega) (by omega) (lev_of_form hf)
    | r, e, .paren _ h0 => by
      have h : DenE extras e := lev_of_den h0
      have : Lev extras 4 e := ⟨e, [], .paren h, by simp, rfl⟩
      exact lev_mono (by omega) (by omega) this
  theorem lev_of_form {extras : Bool} : ∀ {e : Expr}, Form extras e → Lev extras (min (lvl e) 4) e
    | _, .choice (a := a) (b := b) ha hb => by
      have h1 : DenE extras a := lev_of_den ha
      have h2 : DenS extras b := lev_of_den hb
      cases h1 with
      | mk x0 xs hx0 hxs =>
        obtain ⟨y, ys, hy, hys, rfl⟩ := h2
        show DenE extras _
        rw [← foldGo_some_falses, ← foldGo_split]
        refine .mk x0 _ hx0 ?_
        intro p hp
        rcases List.mem_append.1 hp with hp | hp
        · exact hxs p hp
        · rcases List.mem_cons.1 hp with rfl | hp
          · exact hy
          · obtain ⟨z, hz, rfl⟩ := List.mem_map.1 hp; exact hys z hz
    | _, .seq (a := a) (b := b) ha hb => by
      have h1 : DenS extras a := lev_of_den ha
      have h2 : DenT extras b := lev_of_den hb
      obtain ⟨y, ys, hy, hys, rfl⟩ := h1
      show DenS extras _
      refine ⟨y, ys ++ [b], hy, ?_, (foldGo_snoc_false b ys y).symm⟩
      intro z hz
      rcases List.mem_append.1 hz with hz | hz
      · exact hys z hz
      · simp at hz; subst hz; exact h2
    | _, .tag (t := t) he hx => by
      have h1 : DenB extras _ := lev_of_den hx
      show DenT extras _
      exact .tagged t he h1
    | _, .pos hx => by
      have h1 : DenB extras _ := lev_of_den hx
      show DenB extras _
      exact .pos h1
    | _, .neg hx => by
      have h1 : DenB extras _ := lev_of_den hx
      show DenB extras _
      exact .neg h1
    | _, .post (x := x) p hok hx => by
      have h1 : DenPN extras x := lev_of_den hx
      obtain ⟨n, posts, hn, hoks, rfl⟩ := h1
      rw [lvl_post]
      show DenPN extras _
      refine ⟨n, posts ++ [p], hn, ?_, applyPosts_snoc n posts p⟩
      intro q hq
      rcases List.mem_append.1 hq with hq | hq
      · exact hoks q hq
      · simp at hq; subst hq; exact hok
    | _, .push (x := x) hx => by
      have h1 : DenE extras x := lev_of_den hx
      show DenPN extras _
      exact ⟨.push x, [], .push h1, by simp, rfl⟩
    | e, .leaf hl => by
      rw [lvl_leaf hl]
      show DenPN extras _
      exact ⟨e, [], .leaf hl, by simp, rfl⟩
end

/-- **Every printable expression is denotable, with parentheses only where precedence requires them.** -/
theorem printable_denotable (extras : Bool) (e : Expr) (h : Printable extras e) : DenE extras e :=
  lev_of_den (den_all extras e h 0)

end PestModel.ReaderValue
