import PestModel.Lemmas.PipelineNoPanic
/-!
The names `validate_pairs` checks are the names of the rules the reader returns: `rules.map name` is the list of the first
inner pairs of the `grammar_rule`s (`definitions`), so "no duplicate, no keyword" of `validate_pairs` is `Nodup` and
"not a keyword" of the rules.
-/
namespace PestModel.Pipeline
open PestModel.G PestModel.Reader PestModel.ReaderFull PestModel.ReaderP PestModel.ReaderShape PestModel.Ref
open PestModel.Views (Tree preorderList)
open PestModel.LineCol (Str)

theorem duplicates_nil : ∀ (ns seen : List String), duplicates ns seen = [] → ns.Nodup ∧ ∀ n ∈ ns, n ∉ seen
  | [], _, _ => by simp
  | n :: ns, seen, h => by
    unfold duplicates at h
    split at h
    · simp at h
    · rename_i hc
      obtain ⟨hnd, hns⟩ := duplicates_nil ns (n :: seen) h
      have hn : n ∉ seen := by simpa using hc
      refine ⟨List.nodup_cons.2 ⟨fun hm => (hns n hm) (by simp), hnd⟩, ?_⟩
      intro x hx
      rcases List.mem_cons.1 hx with rfl | hx
      · exact hn
      · exact fun hm => hns x hx (by simp [hm])

theorem ruleParts_name {text : Str} {t : Tree} {name : String} {ty : RuleType} {inner : List Tree}
    (h : ReaderP.ruleParts text t = .ok (name, ty, inner)) :
    ∃ c rest s, t.children = c :: rest ∧ strOf text c = some s ∧ name = String.ofList s := by
  unfold ReaderP.ruleParts at h
  split at h
  · rename_i id x m rest hch
    refine ⟨id, x :: m :: rest, ?_⟩
    simp only [] at h
    generalize (if kind m ≠ "opening_brace" then R3.map (fun ty => (ty, rest)) (orPanic (modifierOf (kind m)))
      else R3.ok (RuleType.normal, m :: rest)) = tr at h
    cases tr with
    | ok p =>
      obtain ⟨ty', more⟩ := p
      simp only [R3.bind] at h
      split at h
      · cases hs : strOf text id with
        | none => simp [hs, orPanic] at h
        | some s =>
          simp only [hs, orPanic] at h
          split at h
          · simp at h
          · simp only [R3.ok.injEq, Prod.mk.injEq] at h
            exact ⟨s, hch, rfl, h.1.symm⟩
      · simp at h
    | err => simp [R3.bind] at h
    | panic => simp [R3.bind] at h
  · simp at h

theorem names_link {extras : Bool} {text : Str} {fuel : Nat} : ∀ (forest : List Tree) (rules : List Rule) (defs : List Tree)
    (names : List String), ReaderP.consumeRulesGo extras text fuel forest = .ok rules → definitions forest = .ok defs →
    namesOf text defs = .ok names → rules.map (·.name) = names
  | [], rules, defs, names, h, hd, hn => by
    simp [ReaderP.consumeRulesGo] at h
    simp [definitions] at hd
    subst h; subst hd
    simp [namesOf] at hn
    subst hn; rfl
  | t :: ts, rules, defs, names, h, hd, hn => by
    unfold ReaderP.consumeRulesGo at h
    unfold definitions at hd
    by_cases hk : kind t = "grammar_rule"
    · simp only [hk, if_true] at h hd
      cases hch : t.children with
      | nil => simp [hch] at h
      | cons c rest =>
        simp only [hch] at h hd
        by_cases hl : kind c = "line_doc"
        · simp only [hl, if_true] at h
          cases hds : definitions ts with
          | ok ds =>
            simp only [hds, R3.map, R3.bind, hl, if_true, R3.ok.injEq] at hd
            subst hd
            exact names_link ts rules ds names h hds hn
          | err => simp [hds, R3.map, R3.bind] at hd
          | panic => simp [hds, R3.map, R3.bind] at hd
        · simp only [hl, if_false] at h
          cases hds : definitions ts with
          | ok ds =>
            simp only [hds, R3.map, R3.bind, hl, if_false, R3.ok.injEq] at hd
            subst hd
            cases hr : ReaderP.consumeRule extras text fuel t with
            | ok r =>
              cases hrs : ReaderP.consumeRulesGo extras text fuel ts with
              | ok rs =>
                simp only [hr, hrs, R3.bind, R3.map, R3.ok.injEq] at h
                subst h
                cases hs : strOf text c with
                | none => simp [namesOf, hs, orPanic, R3.bind] at hn
                | some s =>
                  cases hns : namesOf text ds with
                  | ok ns =>
                    simp only [namesOf, hs, orPanic, R3.bind, R3.map, hns, R3.ok.injEq] at hn
                    subst hn
                    have ih := names_link ts rs ds ns hrs hds hns
                    simp only [List.map_cons, ih, List.cons.injEq, and_true]
                    -- the name of r
                    unfold ReaderP.consumeRule at hr
                    cases hp : ReaderP.ruleParts text t with
                    | ok p =>
                      obtain ⟨name, ty, inner⟩ := p
                      obtain ⟨c', rest', s', hch', hs', hname⟩ := ruleParts_name hp
                      rw [hch] at hch'
                      simp only [List.cons.injEq] at hch'
                      obtain ⟨rfl, _⟩ := hch'
                      rw [hs] at hs'
                      simp only [Option.some.injEq] at hs'
                      subst hs'
                      simp only [hp, R3.bind, R3.map] at hr
                      cases hce : ReaderP.consumeExpr extras text fuel (dropLead inner) with
                      | ok body => simp only [hce, R3.ok.injEq] at hr; subst hr; exact hname
                      | err => simp [hce] at hr
                      | panic => simp [hce] at hr
                    | err => simp [hp, R3.bind] at hr
                    | panic => simp [hp, R3.bind] at hr
                  | err => simp [namesOf, hs, orPanic, R3.bind, R3.map, hns] at hn
                  | panic => simp [namesOf, hs, orPanic, R3.bind, R3.map, hns] at hn
              | err => simp [hr, hrs, R3.bind, R3.map] at h
              | panic => simp [hr, hrs, R3.bind, R3.map] at h
            | err => simp [hr, R3.bind] at h
            | panic => simp [hr, R3.bind] at h
          | err => simp [hds, R3.map, R3.bind] at hd
          | panic => simp [hds, R3.map, R3.bind] at hd
    · simp only [hk, if_false] at h hd
      exact names_link ts rules defs names h hd hn
theorem validatePairs_nil {text : Str} {forest : List Tree} (h : validatePairs text forest = .ok []) :
    ∃ defs names, definitions forest = .ok defs ∧ namesOf text defs = .ok names ∧ names.Nodup ∧
      ∀ n ∈ names, n ∉ PestModel.Gen.Unicode.pestKeywords := by
  unfold validatePairs at h
  cases hd : definitions forest with
  | ok defs =>
    cases hn : namesOf text defs with
    | ok names =>
      cases hu : namesOf text (called forest) with
      | ok used =>
        simp only [hd, hn, hu, R3.bind, R3.ok.injEq, List.append_eq_nil_iff, List.map_eq_nil_iff, List.filter_eq_nil_iff] at h
        refine ⟨defs, names, rfl, hn, (duplicates_nil names [] h.1.2).1, ?_⟩
        intro n hn' hc
        exact h.1.1 n hn' (by simpa using hc)
      | err => simp [hd, hn, hu, R3.bind] at h
      | panic => simp [hd, hn, hu, R3.bind] at h
    | err => simp [hd, hn, R3.bind] at h
    | panic => simp [hd, hn, R3.bind] at h
  | err => simp [hd, R3.bind] at h
  | panic => simp [hd, R3.bind] at h

theorem afterParse_ok {extras : Bool} {text : Str} {forest : List Tree} {rs : List ORule}
    (h : afterParse extras text forest = .ok rs) :
    ∃ rules, ReaderP.consumeRulesWithSpans extras text forest = .ok rules ∧ PestModel.V.validateAst extras rules = [] ∧
      optimize extras rules = some rs ∧ (rules.map (·.name)).Nodup ∧
      ∀ r ∈ rules, r.name ∉ PestModel.Gen.Unicode.pestKeywords := by
  unfold afterParse at h
  cases hv : validatePairs text forest with
  | ok errs =>
    simp only [hv] at h
    cases errs with
    | cons e es => simp at h
    | nil =>
      simp only [List.isEmpty_nil, Bool.not_true, Bool.false_eq_true, if_false] at h
      cases hc : ReaderP.consumeRulesWithSpans extras text forest with
      | ok rules =>
        simp only [hc] at h
        cases hva : PestModel.V.validateAst extras rules with
        | cons e es => simp [hva] at h
        | nil =>
          simp only [hva, List.isEmpty_nil, Bool.not_true, Bool.false_eq_true, if_false] at h
          cases ho : optimize extras rules with
          | none => simp [ho] at h
          | some rs' =>
            simp only [ho, Out.ok.injEq] at h
            subst h
            obtain ⟨defs, names, hd, hn, hnd, hkw⟩ := validatePairs_nil hv
            have hl := names_link forest rules defs names hc hd hn
            refine ⟨rules, rfl, hva, ho, by rw [hl]; exact hnd, ?_⟩
            intro r hr
            exact hkw r.name (by rw [← hl]; exact List.mem_map_of_mem hr)
      | err => simp [hc] at h
      | panic => simp [hc] at h
  | err => simp [hv] at h
  | panic => simp [hv] at h

/-- **what `parse_and_optimize` accepts**: when the pipeline returns rules `rs` for a text, the reader (`ReaderFull`, the model
C07 is about) returns rules whose names are pairwise distinct and none of them a pest keyword, `validate_ast` is silent on
them, and `rs` is what the optimizer makes of them. -/
theorem pipeline_ok (extras : Bool) (text : Str) (rs : List ORule) (h : parseAndOptimize extras text = some (.ok rs)) :
    ∃ rules, ReaderFull.readGrammar extras text = some rules ∧ PestModel.V.validateAst extras rules = [] ∧
      optimize extras rules = some rs ∧ (rules.map (·.name)).Nodup ∧
      ∀ r ∈ rules, r.name ∉ PestModel.Gen.Unicode.pestKeywords := by
  unfold parseAndOptimize at h
  split at h
  · rename_i s' forest hm
    simp only [Option.some.injEq] at h
    obtain ⟨rules, hc, hva, ho, hnd, hkw⟩ := afterParse_ok h
    refine ⟨rules, ?_, hva, ho, hnd, hkw⟩
    have hag := PestModel.ReaderAgree.consumeRulesGo_ag extras text (PestModel.Views.sizeList forest + 1) forest
    have hF : ReaderFull.consumeRulesWithSpans extras text forest = some rules := by
      have := hag (by rw [show ReaderP.consumeRulesGo extras text (PestModel.Views.sizeList forest + 1) forest =
        ReaderP.consumeRulesWithSpans extras text forest from rfl, hc]; simp)
      rw [show ReaderP.consumeRulesGo extras text (PestModel.Views.sizeList forest + 1) forest =
        ReaderP.consumeRulesWithSpans extras text forest from rfl, hc] at this
      simpa [ReaderFull.consumeRulesWithSpans] using this.symm
    unfold ReaderFull.readGrammar
    rw [hm]
    simp [ReaderFull.consumeRules, hF, hva]
  · simp at h
  · simp at h
end PestModel.Pipeline
