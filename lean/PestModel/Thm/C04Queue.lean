import PestModel.Model.ViewsSpec
import PestModel.Lemmas.ViewsQueue
import PestModel.Lemmas.ViewsQueueRun
/-!
# C04 — the token stream is a well-formed tree … (part 2: every parse yields a well-formed stream)

Property theorems only; helper lemmas in `PestModel/Lemmas/ViewsQueue*.lean`.
-/
namespace PestModel.C04
open PestModel.Views PestModel.PS PestModel.LineCol

/-- **Every run of any call tree from a fresh parser state — successful or not — leaves a token
queue that is the encoding of a forest**: start/end tokens are balanced and properly nested with
matching indices and rules; and the spans nest: positions never decrease in stream order, lie on
UTF-8 boundaries inside the input (at most the final position), each pair's span contains its
children's and siblings do not overlap. -/
theorem parse_queue_wf (cfg : Cfg) (fuel : Nat) (p : Prog) (input : Str) (limit : Option Nat)
    (detail : Bool) (s' : PState)
    (h : (run cfg fuel p (PState.new input limit detail)).state? = some s') :
    ∃ forest, Encodes s'.queue 0 s'.queue.length forest ∧ nestedForest input 0 s'.pos forest = true := by
  have hx := run_ext cfg fuel p _ s' h (new_wf' input limit detail).1
  obtain ⟨forest, hf, -, hn⟩ := hx.forest
  exact ⟨forest, hf _ (Nat.le_refl _), hn⟩

/-- What `pest::state` hands to `pairs::new` on success is therefore a valid `Pairs` over the whole
queue (no panic in `pairs::new`, the count is the number of top-level pairs). -/
theorem parse_pairs_new (cfg : Cfg) (fuel : Nat) (p : Prog) (input : Str) (limit : Option Nat)
    (detail : Bool) (s' : PState)
    (h : run cfg fuel p (PState.new input limit detail) = .ok s') :
    ∃ forest, Pairs.new s'.queue 0 s'.queue.length = some ⟨0, s'.queue.length, forest.length⟩ ∧
      PairsRep s'.queue ⟨0, s'.queue.length, forest.length⟩ forest := by
  have hx := run_ext cfg fuel p _ s' (by rw [h]; rfl) (new_wf' input limit detail).1
  obtain ⟨forest, hf, hc, -⟩ := hx.forest
  refine ⟨forest, ?_, hf _ (Nat.le_refl _), rfl⟩
  unfold Pairs.new
  have := hc (s'.queue.length - 0 + 1) (Nat.le_succ _)
  rw [show countPairs s'.queue (s'.queue.length - 0 + 1) 0 s'.queue.length = some forest.length from this]
  rfl

end PestModel.C04
