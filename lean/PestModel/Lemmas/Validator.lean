import PestModel.Model.Validator
import PestModel.Model.Ref
import PestModel.Model.RefSpec
/-! Lemmas for C06 (validator soundness / completeness): basic facts about the validator model. -/
namespace PestModel.V
open PestModel.G

theorem lookup_isSome_of_mem {rules : List Rule} {r : Rule} (h : r ∈ rules) : (lookup rules r.name).isSome = true := by
  unfold lookup
  rw [Option.isSome_map]
  rw [List.find?_isSome]
  exact ⟨r, h, by simp⟩

theorem lookup_some_mem {rules : List Rule} {n : String} {body : Expr} (h : lookup rules n = some body) :
    ∃ r ∈ rules, r.name = n ∧ r.expr = body := by
  unfold lookup at h
  cases hf : rules.find? (·.name = n) with
  | none => simp [hf] at h
  | some r =>
    simp [hf] at h
    exact ⟨r, List.mem_of_find?_eq_some hf, by simpa using List.find?_some hf, h⟩

/-- every member of `subExprs` of a member is a member (transitivity). -/
theorem subExprs_self (extras : Bool) (e : Expr) : e ∈ subExprs extras e := by
  cases e <;> simp [subExprs]

theorem subExprs_trans (extras : Bool) {a b c : Expr} (h1 : a ∈ subExprs extras b) (h2 : b ∈ subExprs extras c) :
    a ∈ subExprs extras c := by
  induction c with
  | seq x y ihx ihy | choice x y ihx ihy =>
    simp only [subExprs, List.mem_cons, List.mem_append] at h2 ⊢
    rcases h2 with rfl | h2 | h2
    · simpa only [subExprs, List.mem_cons, List.mem_append] using h1
    · exact Or.inr (Or.inl (ihx h2))
    · exact Or.inr (Or.inr (ihy h2))
  | posPred x ih | negPred x ih | opt x ih | rep x ih | repOnce x ih | push x ih
  | repExact x n ih | repMin x n ih | repMax x n ih | repMinMax x lo hi ih =>
    simp only [subExprs, List.mem_cons] at h2 ⊢
    rcases h2 with rfl | h2
    · simpa only [subExprs, List.mem_cons] using h1
    · exact Or.inr (ih h2)
  | nodeTag x t ih =>
    simp only [subExprs, List.mem_cons] at h2 ⊢
    rcases h2 with rfl | h2
    · simpa only [subExprs, List.mem_cons] using h1
    · cases extras
      · simp at h2
      · simp only [if_true] at h2 ⊢
        exact Or.inr (ih h2)
  | _ =>
    simp only [subExprs, List.mem_singleton] at h2
    subst h2
    exact h1

end PestModel.V
